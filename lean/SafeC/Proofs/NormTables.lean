import SafeC.Models.Norm
/-!
# C17 — facts about the generated tables (re-checked by `lake build` whenever tools/gen17.py rewrites `SafeC/Gen/Uni*.lean`)

Finite facts are Boolean checks over the packed tables, decided by `decide +kernel` (GMP arithmetic in the kernel) and lifted
to universally quantified statements by `allBelow_spec`.
-/
namespace SafeC.Norm
open SafeC.Gen

/-- `f 0 && … && f (n-1)` -/
def allBelow (f : Nat → Bool) : Nat → Bool
  | 0 => true
  | n + 1 => f n && allBelow f n

theorem allBelow_spec {f : Nat → Bool} {n : Nat} (h : allBelow f n = true) : ∀ i, i < n → f i = true := by
  induction n with
  | zero => intro i hi; omega
  | succ n ih =>
    simp only [allBelow, Bool.and_eq_true] at h
    intro i hi
    by_cases hin : i = n
    · subst hin; exact h.1
    · exact ih h.2 i (by omega)

/-- a cell behind the last one of a packed array reads 0 -/
theorem cell_eq_zero_of_ge {w data n i : Nat} (hd : data < 2 ^ (w * n)) (hi : n ≤ i) : cell w data i = 0 := by
  unfold cell
  have h1 : 2 ^ (w * n) ≤ 2 ^ (w * i) := Nat.pow_le_pow_right (by omega) (Nat.mul_le_mul_left w hi)
  rw [Nat.shiftRight_eq_div_pow, Nat.div_eq_of_lt (by omega)]
  simp

theorem cell_lt (w data i : Nat) : cell w data i < 2 ^ w := by
  unfold cell
  exact Nat.mod_lt _ (Nat.two_pow_pos w)

/-! ## shape of the canonical-decomposition tables: every stored value addresses an existing slot -/

/-- a row value is either 0 or addresses an existing slot of one of the four value tables -/
def viOk (v : Nat) : Bool := v == 0 || (decide (v / 4096 < 4) && decide (v % 4096 < (canonTbl (v / 4096 + 1)).1))

theorem canon_mainN : UniCanon.mainN = 17 := by decide
theorem combin_mainN : UniCombin.mainN = 17 := by decide
theorem compos_mainN : UniCompos.mainN = 17 := by decide
theorem unicodeMax_eq : UniCompos.unicodeMax = 0x10FFFF := by decide

theorem canon_planes_size : UniCanon.planes < 2 ^ (16 * (UniCanon.planesN * 256)) := by decide +kernel
theorem canon_rows_size : UniCanon.rows < 2 ^ (16 * (UniCanon.rowsN * 256)) := by decide +kernel

set_option maxRecDepth 100000 in
theorem canon_planes_check : allBelow (fun j => decide (cell 16 UniCanon.planes j ≤ UniCanon.rowsN)) (UniCanon.planesN * 256) = true := by
  decide +kernel

set_option maxRecDepth 100000 in
theorem canon_rows_check : allBelow (fun j => viOk (cell 16 UniCanon.rows j)) (UniCanon.rowsN * 256) = true := by
  decide +kernel

-- from here on the packed literals are opaque to the elaborator (the kernel checks above have seen them)
attribute [local irreducible] cell UniCanon.main UniCanon.planes UniCanon.rows UniCombin.main UniCombin.planes UniCombin.rows

/-- every value the three-level lookup can return addresses an existing slot -/
theorem canonVi_ok {cp vi : Nat} (h : canonVi cp = some vi) : viOk vi = true := by
  unfold canonVi at h
  split at h
  · cases h
  · cases h; rfl
  · rename_i r hr
    cases h
    -- r + 1 is a cell of `planes`
    unfold rowId at hr
    split at hr
    · dsimp only at hr
      split at hr
      · cases hr
      · simp only [Option.some.injEq] at hr
        -- index below the size, else the cell would be 0
        obtain ⟨J, hJ⟩ : ∃ J, J = (cell 8 UniCanon.main (cp / 65536) - 1) * 256 + cp / 256 % 256 := ⟨_, rfl⟩
        rw [← hJ] at hr
        by_cases hj : J < UniCanon.planesN * 256
        · have h1 := allBelow_spec canon_planes_check _ hj
          simp only [decide_eq_true_eq] at h1
          rw [hr] at h1
          have hlt : r * 256 + cp % 256 < UniCanon.rowsN * 256 := by
            have : cp % 256 < 256 := Nat.mod_lt _ (by omega)
            generalize UniCanon.rowsN = N at h1 ⊢
            omega
          exact allBelow_spec canon_rows_check _ hlt
        · have h0 := cell_eq_zero_of_ge canon_planes_size (Nat.le_of_not_lt hj)
          rw [hr] at h0
          omega
    · cases hr

/-- **no out-of-bounds index in `_decomp_canonical_s` for a code point ≤ 0x10FFFF** -/
theorem decompCanon_ne_none {cp : Nat} (h : cp ≤ UniCompos.unicodeMax) : decompCanon cp ≠ none := by
  rw [unicodeMax_eq] at h
  unfold decompCanon
  split
  · rename_i hv
    unfold canonVi rowId at hv
    rw [canon_mainN] at hv
    have : cp / 65536 < 17 := by omega
    simp only [this, ↓reduceIte] at hv
    split at hv
    · rename_i hq; split at hq <;> simp at hq
    · simp at hv
    · simp at hv
  · simp
  · rename_i vi hv0 hv
    have hok := canonVi_ok hv
    unfold viOk at hok
    simp only [Bool.or_eq_true, beq_iff_eq, Bool.and_eq_true, decide_eq_true_eq] at hok
    rcases hok with h0 | ⟨h1, h2⟩
    · exact absurd h0 (by intro h; exact hv0 (h ▸ rfl) |> fun x => x)
    · have : vi / 4096 + 1 ≤ 4 := by omega
      simp [this, h2]

/-- **no out-of-bounds index in `_combin_class` for a code point ≤ 0x10FFFF** -/
theorem combinClass_ne_none {cp : Nat} (h : cp ≤ UniCompos.unicodeMax) : combinClass cp ≠ none := by
  rw [unicodeMax_eq] at h
  unfold combinClass rowId
  rw [combin_mainN]
  have : cp / 65536 < 17 := by omega
  simp only [this, ↓reduceIte]
  split
  · rename_i hq; split at hq <;> simp at hq
  · simp
  · simp

/-- and the out-of-bounds read is real for larger values: `UNWIF_combin[cp >> 16]` with `cp >> 16 ≥ 17` -/
theorem combinClass_oob {cp : Nat} (h : UniCompos.unicodeMax < cp) : combinClass cp = none := by
  rw [unicodeMax_eq] at h
  unfold combinClass rowId
  rw [combin_mainN]
  have : ¬ cp / 65536 < 17 := by omega
  simp [this]

theorem decompCanon_oob {cp : Nat} (h : UniCompos.unicodeMax < cp) : decompCanon cp = none := by
  rw [unicodeMax_eq] at h
  unfold decompCanon canonVi rowId
  rw [canon_mainN]
  have : ¬ cp / 65536 < 17 := by omega
  simp [this]

/-! ## closure: what the tables store is fully decomposed -/

/-- a code point the decomposition pass leaves alone -/
def stable (d : Nat) : Bool := !isS d && decompCanon d == some [] && decide (d ≤ UniCompos.unicodeMax) && d != 0

/-- all `n * l` cells of the value table for length `l` are stable -/
def tblStable (l : Nat) : Bool := allBelow (fun j => stable (cell 32 (canonTbl l).2 j)) ((canonTbl l).1 * l)

end SafeC.Norm

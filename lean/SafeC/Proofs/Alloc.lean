import SafeC.Models.Alloc
/-!
# C20 — laws of the allocation machine and the lemmas behind the property theorems

* `exec_bind`, the primitive rules, and two meta-theorems proved once by induction on `Prog`:
  `exec_mono` (counters only grow) and `exec_nfail_iff` (the failure counter moved iff the oracle
  failed one of the requests made by this run).
* per skeleton: one "spec" lemma describing every run (result, live blocks, counters), from which
  the statements in `Props/C20.lean` follow.
-/
namespace SafeC.Alloc
variable {α β : Type} {fails : Nat → Bool}

@[simp] theorem exec_ret (x : α) (s : St) : exec fails (.ret x) s = .ok (x, s) := by simp [exec]
@[simp] theorem exec_pure (x : α) (s : St) : exec fails (pure x : Prog α) s = .ok (x, s) := by
  show exec fails (.ret x) s = _; simp

theorem exec_bind (p : Prog α) (f : α → Prog β) (s : St) :
    exec fails (p >>= f) s =
      match exec fails p s with
      | .ok (a, s') => exec fails (f a) s'
      | .error e => .error e := by
  show exec fails (p.bind f) s = _
  induction p generalizing s with
  | ret x => simp [Prog.bind, exec]
  | alloc k ih => simp only [Prog.bind, exec]; split <;> exact ih _ _
  | realloc old k ih =>
    simp only [Prog.bind, exec]
    cases old with
    | none => simp only []; split <;> exact ih _ _
    | some b => simp only []; split
                · split <;> exact ih _ _
                · rfl
  | free b k ih =>
    simp only [Prog.bind, exec]
    cases b with
    | none => exact ih _
    | some b => simp only []; split
                · exact ih _
                · rfl
  | deref b k ih =>
    simp only [Prog.bind, exec]
    cases b with
    | none => rfl
    | some b => simp only []; split
                · exact ih _
                · rfl
  | emit e k ih => simp only [Prog.bind, exec]; exact ih _

/-! ### primitive rules -/

@[simp] theorem exec_malloc (s : St) :
    exec fails malloc s =
      if fails s.next then .ok (none, s.allocFail (.malloc s.next false))
      else .ok (some s.next, s.allocOk s.live (.malloc s.next true)) := by
  simp [malloc, exec]

@[simp] theorem exec_free_none (s : St) :
    exec fails (free none) s = .ok ((), { s with events := .free none :: s.events }) := by
  simp [free, exec]

theorem exec_free_some (b : Blk) (s : St) :
    exec fails (free (some b)) s =
      if b ∈ s.live then .ok ((), { s with live := s.live.erase b, events := .free (some b) :: s.events })
      else .error (.badFree b) := by
  simp [free, exec]

@[simp] theorem exec_deref_none (s : St) : exec fails (deref none) s = .error .nullDeref := by
  simp [deref, exec]

theorem exec_deref_some (b : Blk) (s : St) :
    exec fails (deref (some b)) s = if b ∈ s.live then .ok ((), s) else .error (.useAfterFree b) := by
  simp [deref, exec]

@[simp] theorem exec_handler (s : St) : exec fails handler s = .ok ((), s.onEmit .handler) := by
  simp [handler, exec]
@[simp] theorem exec_clear (s : St) : exec fails clear s = .ok ((), s.onEmit .clear) := by
  simp [clear, exec]

/-! ### meta-theorems about every program -/

/-- counters never go down, a wiped dest stays wiped (as far as the skeleton speaks of it) -/
theorem exec_mono (p : Prog α) (s : St) {a : α} {s' : St} (h : exec fails p s = .ok (a, s')) :
    s.next ≤ s'.next ∧ s.nfail ≤ s'.nfail ∧ s.hn ≤ s'.hn ∧ (s.cleared = true → s'.cleared = true) := by
  induction p generalizing s with
  | ret x => simp [exec] at h; obtain ⟨-, rfl⟩ := h; simp
  | alloc k ih =>
    simp only [exec] at h
    split at h
    · obtain ⟨h1, h2, h3, h4⟩ := ih _ _ h; simp [St.allocFail] at h1 h2 h3 h4; exact ⟨by omega, by omega, by omega, h4⟩
    · obtain ⟨h1, h2, h3, h4⟩ := ih _ _ h; simp [St.allocOk] at h1 h2 h3 h4; exact ⟨by omega, by omega, by omega, h4⟩
  | realloc old k ih =>
    cases old with
    | none =>
      simp only [exec] at h
      split at h
      · obtain ⟨h1, h2, h3, h4⟩ := ih _ _ h; simp [St.allocFail] at h1 h2 h3 h4; exact ⟨by omega, by omega, by omega, h4⟩
      · obtain ⟨h1, h2, h3, h4⟩ := ih _ _ h; simp [St.allocOk] at h1 h2 h3 h4; exact ⟨by omega, by omega, by omega, h4⟩
    | some b =>
      simp only [exec] at h
      split at h
      · split at h
        · obtain ⟨h1, h2, h3, h4⟩ := ih _ _ h; simp [St.allocFail] at h1 h2 h3 h4; exact ⟨by omega, by omega, by omega, h4⟩
        · obtain ⟨h1, h2, h3, h4⟩ := ih _ _ h; simp [St.allocOk] at h1 h2 h3 h4; exact ⟨by omega, by omega, by omega, h4⟩
      · cases h
  | free b k ih =>
    cases b with
    | none => simp only [exec] at h; have := ih _ h; exact this
    | some b =>
      simp only [exec] at h
      split at h
      · have := ih _ h; exact this
      · cases h
  | deref b k ih =>
    cases b with
    | none => simp only [exec] at h; cases h
    | some b =>
      simp only [exec] at h
      split at h
      · have := ih _ h; exact this
      · cases h
  | emit e k ih =>
    simp only [exec] at h
    obtain ⟨h1, h2, h3, h4⟩ := ih _ h
    cases e <;> simp [St.onEmit] at h1 h2 h3 h4 <;> refine ⟨by omega, by omega, by omega, ?_⟩ <;> intro hc <;> first | exact h4 hc | exact h4

/-- the failure counter moves exactly when the oracle fails one of the requests this run makes -/
theorem exec_nfail_iff (p : Prog α) (s : St) {a : α} {s' : St} (h : exec fails p s = .ok (a, s')) :
    s.nfail < s'.nfail ↔ ∃ i, s.next ≤ i ∧ i < s'.next ∧ fails i = true := by
  induction p generalizing s with
  | ret x => simp [exec] at h; obtain ⟨-, rfl⟩ := h; simp; intro i h1 h2; omega
  | alloc k ih =>
    simp only [exec] at h
    split at h
    · rename_i hf
      have m := exec_mono _ _ h
      simp [St.allocFail] at m
      constructor
      · intro _; exact ⟨s.next, Nat.le_refl _, by omega, hf⟩
      · intro _; omega
    · rename_i hf
      have m := exec_mono _ _ h
      have := ih _ _ h
      simp [St.allocOk] at this m
      rw [this]
      constructor
      · rintro ⟨i, h1, h2, h3⟩; exact ⟨i, by omega, h2, h3⟩
      · rintro ⟨i, h1, h2, h3⟩
        refine ⟨i, ?_, h2, h3⟩
        rcases Nat.lt_or_ge s.next i with h4 | h4
        · omega
        · have : i = s.next := by omega
          subst this; simp [h3] at hf
  | realloc old k ih =>
    have key : ∀ (st : St) (r : Option Blk), exec fails (k r) st = .ok (a, s') → st.next = s.next + 1 →
        ((st.nfail = s.nfail + 1 ∧ fails s.next = true) ∨ (st.nfail = s.nfail ∧ fails s.next = false)) →
        (s.nfail < s'.nfail ↔ ∃ i, s.next ≤ i ∧ i < s'.next ∧ fails i = true) := by
      intro st r hk hn hc
      have m := exec_mono _ _ hk
      have := ih r st hk
      rcases hc with ⟨h1, h2⟩ | ⟨h1, h2⟩
      · constructor
        · intro _; exact ⟨s.next, Nat.le_refl _, by omega, h2⟩
        · intro _; omega
      · rw [h1] at this; rw [this]
        constructor
        · rintro ⟨i, h3, h4, h5⟩; exact ⟨i, by omega, h4, h5⟩
        · rintro ⟨i, h3, h4, h5⟩
          refine ⟨i, ?_, h4, h5⟩
          rcases Nat.lt_or_ge s.next i with h6 | h6
          · omega
          · have : i = s.next := by omega
            subst this; simp [h5] at h2
    cases old with
    | none =>
      simp only [exec] at h
      split at h
      · rename_i hf; exact key _ _ h (by simp [St.allocFail]) (Or.inl ⟨by simp [St.allocFail], hf⟩)
      · rename_i hf; exact key _ _ h (by simp [St.allocOk]) (Or.inr ⟨by simp [St.allocOk], by simpa using hf⟩)
    | some b =>
      simp only [exec] at h
      split at h
      · split at h
        · rename_i hf; exact key _ _ h (by simp [St.allocFail]) (Or.inl ⟨by simp [St.allocFail], hf⟩)
        · rename_i hf; exact key _ _ h (by simp [St.allocOk]) (Or.inr ⟨by simp [St.allocOk], by simpa using hf⟩)
      · cases h
  | free b k ih =>
    cases b with
    | none => simp only [exec] at h; have := ih _ h; exact this
    | some b =>
      simp only [exec] at h
      split at h
      · have := ih _ h; exact this
      · cases h
  | deref b k ih =>
    cases b with
    | none => simp only [exec] at h; cases h
    | some b =>
      simp only [exec] at h
      split at h
      · have := ih _ h; exact this
      · cases h
  | emit e k ih =>
    simp only [exec] at h
    have := ih _ h
    cases e <;> simpa [St.onEmit] using this


/-! ### the property, as predicates on the result of a run -/

/-- the run does not fault: no use of a failed allocation, no free/realloc of a pointer that is not a live block -/
def Safe (r : Except Fault (α × St)) : Prop := ∃ a s', r = .ok (a, s')
/-- the blocks outstanding at return are the blocks outstanding at entry -/
def NoLeak (s : St) (r : Except Fault (α × St)) : Prop := ∀ a s', r = .ok (a, s') → s'.live = s.live
/-- if an allocation request of this run was failed, the caller gets a failure indication, the handler
was called, and (for functions with a destination) dest was cleared -/
def Reported (hasDest : Bool) (s : St) (r : Except Fault (Out × St)) : Prop :=
  ∀ o s', r = .ok (o, s') → s.nfail < s'.nfail →
    o.failed = true ∧ s.hn < s'.hn ∧ (hasDest = true → s'.cleared = true)
/-- all of C20 for one run -/
def Holds (hasDest : Bool) (s : St) (r : Except Fault (Out × St)) : Prop :=
  Safe r ∧ NoLeak s r ∧ Reported hasDest s r

/-! ### helpers for the witnesses (concrete runs, decided by evaluation) -/

def isNullDeref {α : Type} : Except Fault (α × St) → Bool
  | .error .nullDeref => true
  | _ => false
def liveAtReturn {α : Type} : Except Fault (α × St) → Option (List Blk)
  | .ok (_, s) => some s.live
  | _ => none
/-- (failed, handler calls, cleared) of a surviving run -/
def verdict : Except Fault (Out × St) → Option (Bool × Nat × Bool × Nat)
  | .ok (o, s) => some (o.failed, s.hn, s.cleared, s.nfail)
  | _ => none

theorem not_safe_of_null {α : Type} {r : Except Fault (α × St)} (h : isNullDeref r = true) : ¬ Safe r := by
  rintro ⟨a, s', rfl⟩; simp [isNullDeref] at h
theorem not_noleak_of {α : Type} {r : Except Fault (α × St)} {s : St} {l : List Blk} (h : liveAtReturn r = some l)
    (hne : l ≠ s.live) : ¬ NoLeak s r := by
  intro hn
  cases r with
  | error e => simp [liveAtReturn] at h
  | ok v => rcases v with ⟨a, s'⟩; simp [liveAtReturn] at h; exact hne (h ▸ hn a s' rfl)

/-! ### the fold buffers -/

theorem fold_holds (x : FoldFeat) (s : St) : Holds false s (exec fails (foldProg x) s) := by
  rcases x with ⟨e, f, a, b, c⟩
  by_cases h0 : fails s.next = true <;> by_cases h1 : fails (s.next + 1) = true <;>
  cases e <;> cases f <;> cases a <;> cases b <;> cases c <;>
    simp [Holds, Safe, NoLeak, Reported, foldProg, foldFinal, failH, wcsfc, exec_bind, exec_free_some,
      exec_deref_some, St.allocFail, St.allocOk, St.onEmit, h0, h1]

/-! ### the printf engine -/

/-- every run of one format piece: either it returns (live blocks unchanged unless it is the `%ls`
conversion-failure exit of the unrepaired code, which forgets its buffer and reports a positive
code; a failed allocation is always turned into a handled failure), or it is a `%L?`/`%a` directive
with text behind it whose unchecked format copy was refused: null dereference -/
theorem segProg_spec' (fx : Fixes) (g : Seg) (s : St) :
    match exec fails (segProg fx g) s with
    | .ok (r, s') =>
        ((s'.live = s.live ∧ r ≠ some .posErr) ∨
          (g = .ls .conv ∧ fx.lsconv = false ∧ r = some .posErr ∧ s'.live = s.next :: s.live ∧ s'.nfail = s.nfail)) ∧
        (s.nfail < s'.nfail → r = some .fail ∧ s.hn < s'.hn)
    | .error e => e = .nullDeref ∧ fx.fmtcopy = false ∧ fails s.next = true ∧ ∃ err, g = .fl true err := by
  rcases fx with ⟨f1, f2, f3, f4, f5, f6, f7⟩
  by_cases h0 : fails s.next = true <;> cases f1 <;> cases f2 <;>
  rcases g with (x | ⟨fo, er⟩ | x) <;> (try cases x) <;> (try cases fo) <;> (try cases er) <;>
    simp [segProg, lsBody, flTail, stop, stopH, exec_bind, exec_free_some, exec_deref_some,
      St.allocFail, St.allocOk, St.onEmit, h0]

theorem segProg_spec (fx : Fixes) (g : Seg) (s : St) :
    (∃ r s', exec fails (segProg fx g) s = .ok (r, s') ∧
        ((s'.live = s.live ∧ r ≠ some .posErr) ∨
          (g = .ls .conv ∧ fx.lsconv = false ∧ r = some .posErr ∧ s'.live = s.next :: s.live ∧ s'.nfail = s.nfail)) ∧
        (s.nfail < s'.nfail → r = some .fail ∧ s.hn < s'.hn))
    ∨ (exec fails (segProg fx g) s = .error .nullDeref ∧ fx.fmtcopy = false ∧ fails s.next = true ∧ ∃ err, g = .fl true err) := by
  have := segProg_spec' (fails := fails) fx g s
  cases h : exec fails (segProg fx g) s with
  | error e => rw [h] at this; obtain ⟨rfl, h2⟩ := this; right; exact ⟨rfl, h2⟩
  | ok v => rcases v with ⟨r, s'⟩; rw [h] at this; left; exact ⟨r, s', rfl, this⟩

theorem engine_cons (fx : Fixes) (g : Seg) (rest : List Seg) (s : St) :
    exec fails (engine fx (g :: rest)) s =
      match exec fails (segProg fx g) s with
      | .ok (some r, s1) => .ok (r, s1)
      | .ok (none, s1) => exec fails (engine fx rest) s1
      | .error e => .error e := by
  simp only [engine, exec_bind]
  cases h : exec fails (segProg fx g) s with
  | error e => simp
  | ok v => rcases v with ⟨r, s1⟩; cases r <;> simp

/-- every run of the engine -/
theorem engine_spec (fx : Fixes) (segs : List Seg) (s : St) :
    (∃ r s', exec fails (engine fx segs) s = .ok (r, s') ∧
        ((s'.live = s.live ∧ r ≠ .posErr) ∨
          (.ls .conv ∈ segs ∧ fx.lsconv = false ∧ r = .posErr ∧ s'.live ≠ s.live ∧ s'.nfail = s.nfail)) ∧
        (s.nfail < s'.nfail → r = .fail ∧ s.hn < s'.hn))
    ∨ (exec fails (engine fx segs) s = .error .nullDeref ∧ fx.fmtcopy = false ∧
        (∃ i, s.next ≤ i ∧ fails i = true) ∧ ∃ err, .fl true err ∈ segs) := by
  induction segs generalizing s with
  | nil => left; exact ⟨.ok, s, by simp [engine], by simp, by simp⟩
  | cons g rest ih =>
    rw [engine_cons]
    rcases segProg_spec (fails := fails) fx g s with ⟨r, s1, h1, h2, h3⟩ | ⟨h1, h2, h3, err, h4⟩
    · have m := exec_mono _ _ h1
      rw [h1]
      cases r with
      | some r =>
        left
        refine ⟨r, s1, rfl, ?_, ?_⟩
        · rcases h2 with ⟨h2, h2a⟩ | ⟨h2, h2a, h2b, h2c, h5⟩
          · left; exact ⟨h2, by simpa using h2a⟩
          · right; refine ⟨by simp [h2], h2a, by simpa using h2b, ?_, h5⟩
            rw [h2c]; intro hh
            have := congrArg List.length hh; simp at this
        · intro hlt; have := h3 hlt; exact ⟨by simpa using this.1, this.2⟩
      | none =>
        simp only []
        have hl : s1.live = s.live := by
          rcases h2 with ⟨h2, _⟩ | ⟨_, _, h2, _⟩
          · exact h2
          · cases h2
        have hn : s1.nfail = s.nfail := by
          rcases Nat.lt_or_ge s.nfail s1.nfail with h | h
          · have := (h3 h).1; cases this
          · omega
        rcases ih s1 with ⟨r, s', e1, e2, e3⟩ | ⟨e1, e2, ⟨i, e3, e3a⟩, err, e4⟩
        · left
          refine ⟨r, s', e1, ?_, ?_⟩
          · rcases e2 with ⟨e2, e2a⟩ | ⟨e2, e2a, e2b, e2c, e5⟩
            · left; exact ⟨by rw [e2, hl], e2a⟩
            · right; exact ⟨List.mem_cons_of_mem _ e2, e2a, e2b, by rw [← hl]; exact e2c, by omega⟩
          · intro hlt
            have := e3 (by omega)
            exact ⟨this.1, by omega⟩
        · right
          exact ⟨e1, e2, ⟨i, by omega, e3a⟩, err, List.mem_cons_of_mem _ e4⟩
    · right
      rw [h1]
      exact ⟨rfl, h2, ⟨s.next, Nat.le_refl _, h3⟩, err, by simp [h4]⟩

theorem wrapTail_spec' (w : Wrap) (r : EngRes) (s : St) :
    match exec fails (wrapTail w r) s with
    | .ok (o, s') => s'.live = s.live ∧ s'.nfail = s.nfail ∧ s.hn ≤ s'.hn ∧ s'.next = s.next ∧
        (r = .fail → o.failed = true ∧ (w ≠ .stream → s'.cleared = true))
    | .error _ => False := by
  rcases w with _ | ⟨a, b⟩ | _ <;> cases r <;> (try cases a) <;> (try cases b) <;>
    simp [wrapTail, failCH, exec_bind, St.onEmit]

theorem wrapTail_spec (w : Wrap) (r : EngRes) (s : St) :
    ∃ o s', exec fails (wrapTail w r) s = .ok (o, s') ∧ s'.live = s.live ∧ s'.nfail = s.nfail ∧ s.hn ≤ s'.hn ∧
      s'.next = s.next ∧ (r = .fail → o.failed = true ∧ (w ≠ .stream → s'.cleared = true)) := by
  have := wrapTail_spec' (fails := fails) w r s
  cases h : exec fails (wrapTail w r) s with
  | error e => rw [h] at this; exact this.elim
  | ok v => rcases v with ⟨o, s'⟩; rw [h] at this; exact ⟨o, s', rfl, this⟩

/-- every run of an engine-based printf_s function -/
theorem printf_spec (fx : Fixes) (w : Wrap) (entry : Bool) (segs : List Seg) (s : St) :
    (∃ o s', exec fails (printfProg fx w entry segs) s = .ok (o, s') ∧
        (s'.live = s.live ∨ (.ls .conv ∈ segs ∧ fx.lsconv = false ∧ s'.live ≠ s.live)) ∧
        (s.nfail < s'.nfail → o.failed = true ∧ s.hn < s'.hn ∧ (w ≠ .stream → s'.cleared = true)))
    ∨ (exec fails (printfProg fx w entry segs) s = .error .nullDeref ∧ fx.fmtcopy = false ∧
        (∃ i, s.next ≤ i ∧ fails i = true) ∧ ∃ err, .fl true err ∈ segs) := by
  cases entry with
  | true =>
    left
    refine ⟨⟨true, false⟩, s.onEmit .handler, by simp [printfProg, failH, exec_bind], Or.inl (by simp [St.onEmit]), ?_⟩
    intro h; simp [St.onEmit] at h
  | false =>
    simp only [printfProg, exec_bind, Bool.false_eq_true, if_false]
    rcases engine_spec (fails := fails) fx segs s with ⟨r, s1, e1, e2, e3⟩ | ⟨e1, e2, e3, e4⟩
    · left
      rw [e1]
      obtain ⟨o, s', t1, t2, t3, t4, t5, t6⟩ := wrapTail_spec (fails := fails) w r s1
      refine ⟨o, s', t1, ?_, ?_⟩
      · rcases e2 with ⟨e2, _⟩ | ⟨e2, e2a, _, e2c, _⟩
        · left; rw [t2, e2]
        · right; exact ⟨e2, e2a, by rw [t2]; exact e2c⟩
      · intro hlt
        have := e3 (by omega)
        have t := t6 this.1
        exact ⟨t.1, by omega, t.2⟩
    · right
      rw [e1]
      exact ⟨rfl, e2, e3, e4⟩

/-! ### the wide printf probe -/

theorem wprobe_spec' (fx : Fixes) (f : WFn) (x : WFeat) (s : St) :
    match exec fails (wprobeProg fx f x) s with
    | .ok (o, s') => s'.live = s.live ∧
        (s.nfail < s'.nfail →
          (o.failed = true ∧ s.hn < s'.hn ∧ s'.cleared = true) ∨ (f = .vsw ∧ fx.vswrep = false ∧ o.failed = true))
    | .error e => e = .nullDeref ∧ fx.wprobe = false ∧ f ≠ .vsw ∧ x.big = true ∧ x.fits = false ∧ x.entryErr = false ∧
        fails s.next = true := by
  rcases fx with ⟨f1, f2, f3, f4, f5, f6, f7⟩
  rcases x with ⟨a, b, c, d, p⟩
  by_cases h0 : fails s.next = true <;> cases f3 <;> cases f4 <;> cases f <;>
  cases a <;> cases b <;> cases c <;> cases d <;> cases p <;>
    simp [wprobeProg, probeUnchecked, swTail, snwTail, failH, failCH, exec_bind, exec_free_some, exec_deref_some,
      St.allocFail, St.allocOk, St.onEmit, h0]

end SafeC.Alloc

import SafeC.Models.Alloc
/-!
# C20 — laws of the allocation machine and the lemmas behind the property theorems

* `exec_bind`, the primitive rules, and two meta-theorems proved once by induction on `Prog`:
  `exec_mono` (counters only grow) and `exec_nfail_iff` (the failure counter moved iff the oracle
  failed one of the requests made by this run).
* per skeleton: one "spec" lemma describing every run (result, live blocks, counters), from which
  the statements in `Props/C20.lean` follow.
-/
namespace SafeC.Alloc
variable {α β : Type} {fails : Nat → Bool}

@[simp] theorem exec_ret (x : α) (s : St) : exec fails (.ret x) s = .ok (x, s) := by simp [exec]
@[simp] theorem exec_pure (x : α) (s : St) : exec fails (pure x : Prog α) s = .ok (x, s) := by
  show exec fails (.ret x) s = _; simp

theorem exec_bind (p : Prog α) (f : α → Prog β) (s : St) :
    exec fails (p >>= f) s =
      match exec fails p s with
      | .ok (a, s') => exec fails (f a) s'
      | .error e => .error e := by
  show exec fails (p.bind f) s = _
  induction p generalizing s with
  | ret x => simp [Prog.bind, exec]
  | alloc k ih => simp only [Prog.bind, exec]; split <;> exact ih _ _
  | realloc old k ih =>
    simp only [Prog.bind, exec]
    cases old with
    | none => simp only []; split <;> exact ih _ _
    | some b => simp only []; split
                · split <;> exact ih _ _
                · rfl
  | free b k ih =>
    simp only [Prog.bind, exec]
    cases b with
    | none => exact ih _
    | some b => simp only []; split
                · exact ih _
                · rfl
  | deref b k ih =>
    simp only [Prog.bind, exec]
    cases b with
    | none => rfl
    | some b => simp only []; split
                · exact ih _
                · rfl
  | emit e k ih => simp only [Prog.bind, exec]; exact ih _

/-! ### primitive rules -/

@[simp] theorem exec_malloc (s : St) :
    exec fails malloc s =
      if fails s.next then .ok (none, s.allocFail (.malloc s.next false))
      else .ok (some s.next, s.allocOk s.live (.malloc s.next true)) := by
  simp only [malloc, exec]; split <;> rfl

@[simp] theorem exec_free_none (s : St) :
    exec fails (free none) s = .ok ((), { s with events := .free none :: s.events }) := by
  simp [free, exec]

theorem exec_free_some (b : Blk) (s : St) :
    exec fails (free (some b)) s =
      if b ∈ s.live then .ok ((), { s with live := s.live.erase b, events := .free (some b) :: s.events })
      else .error (.badFree b) := by
  simp only [free, exec]; split <;> simp [exec]

@[simp] theorem exec_deref_none (s : St) : exec fails (deref none) s = .error .nullDeref := by
  simp [deref, exec]

theorem exec_deref_some (b : Blk) (s : St) :
    exec fails (deref (some b)) s = if b ∈ s.live then .ok ((), s) else .error (.useAfterFree b) := by
  simp only [deref, exec]; split <;> simp [exec]

@[simp] theorem exec_handler (s : St) : exec fails handler s = .ok ((), s.onEmit .handler) := by
  simp [handler, exec]
@[simp] theorem exec_clear (s : St) : exec fails clear s = .ok ((), s.onEmit .clear) := by
  simp [clear, exec]

/-! ### meta-theorems about every program -/

/-- counters never go down, a wiped dest stays wiped (as far as the skeleton speaks of it) -/
theorem exec_mono (p : Prog α) (s : St) {a : α} {s' : St} (h : exec fails p s = .ok (a, s')) :
    s.next ≤ s'.next ∧ s.nfail ≤ s'.nfail ∧ s.hn ≤ s'.hn ∧ (s.cleared = true → s'.cleared = true) := by
  induction p generalizing s with
  | ret x => simp [exec] at h; obtain ⟨-, rfl⟩ := h; simp
  | alloc k ih =>
    simp only [exec] at h
    split at h
    · have := ih _ _ h; simp [St.allocFail] at this; omega
    · have := ih _ _ h; simp [St.allocOk] at this; omega
  | realloc old k ih =>
    simp only [exec] at h
    cases old with
    | none =>
      simp only [] at h
      split at h
      · have := ih _ _ h; simp [St.allocFail] at this; omega
      · have := ih _ _ h; simp [St.allocOk] at this; omega
    | some b =>
      simp only [] at h
      split at h
      · split at h
        · have := ih _ _ h; simp [St.allocFail] at this; omega
        · have := ih _ _ h; simp [St.allocOk] at this; omega
      · cases h
  | free b k ih =>
    simp only [exec] at h
    cases b with
    | none => exact ih _ h
    | some b =>
      simp only [] at h
      split at h
      · exact ih _ h
      · cases h
  | deref b k ih =>
    simp only [exec] at h
    cases b with
    | none => cases h
    | some b =>
      simp only [] at h
      split at h
      · exact ih _ h
      · cases h
  | emit e k ih =>
    simp only [exec] at h
    have := ih _ h
    cases e <;> simp [St.onEmit] at this <;> omega

/-- the failure counter moves exactly when the oracle fails one of the requests this run makes -/
theorem exec_nfail_iff (p : Prog α) (s : St) {a : α} {s' : St} (h : exec fails p s = .ok (a, s')) :
    s.nfail < s'.nfail ↔ ∃ i, s.next ≤ i ∧ i < s'.next ∧ fails i = true := by
  induction p generalizing s with
  | ret x => simp [exec] at h; obtain ⟨-, rfl⟩ := h; simp; intro i h1 h2; omega
  | alloc k ih =>
    simp only [exec] at h
    split at h
    · rename_i hf
      have m := exec_mono _ _ h
      simp [St.allocFail] at m
      constructor
      · intro _; exact ⟨s.next, Nat.le_refl _, by omega, hf⟩
      · intro _; omega
    · rename_i hf
      have m := exec_mono _ _ h
      have := ih _ _ h
      simp [St.allocOk] at this m
      rw [this]
      constructor
      · rintro ⟨i, h1, h2, h3⟩; exact ⟨i, by omega, h2, h3⟩
      · rintro ⟨i, h1, h2, h3⟩
        refine ⟨i, ?_, h2, h3⟩
        rcases Nat.lt_or_ge s.next i with h4 | h4
        · omega
        · have : i = s.next := by omega
          subst this; simp [h3] at hf
  | realloc old k ih =>
    simp only [exec] at h
    have key : ∀ (st : St) (r : Option Blk), exec fails (k r) st = .ok (a, s') → st.next = s.next + 1 →
        ((st.nfail = s.nfail + 1 ∧ fails s.next = true) ∨ (st.nfail = s.nfail ∧ fails s.next = false)) →
        (s.nfail < s'.nfail ↔ ∃ i, s.next ≤ i ∧ i < s'.next ∧ fails i = true) := by
      intro st r hk hn hc
      have m := exec_mono _ _ hk
      have := ih r st hk
      rcases hc with ⟨h1, h2⟩ | ⟨h1, h2⟩
      · constructor
        · intro _; exact ⟨s.next, Nat.le_refl _, by omega, h2⟩
        · intro _; omega
      · rw [h1] at this; rw [this]
        constructor
        · rintro ⟨i, h3, h4, h5⟩; exact ⟨i, by omega, h4, h5⟩
        · rintro ⟨i, h3, h4, h5⟩
          refine ⟨i, ?_, h4, h5⟩
          rcases Nat.lt_or_ge s.next i with h6 | h6
          · omega
          · have : i = s.next := by omega
            subst this; simp [h5] at h2
    cases old with
    | none =>
      simp only [] at h
      split at h
      · rename_i hf; exact key _ _ h (by simp [St.allocFail]) (Or.inl ⟨by simp [St.allocFail], hf⟩)
      · rename_i hf; exact key _ _ h (by simp [St.allocOk]) (Or.inr ⟨by simp [St.allocOk], by simpa using hf⟩)
    | some b =>
      simp only [] at h
      split at h
      · split at h
        · rename_i hf; exact key _ _ h (by simp [St.allocFail]) (Or.inl ⟨by simp [St.allocFail], hf⟩)
        · rename_i hf; exact key _ _ h (by simp [St.allocOk]) (Or.inr ⟨by simp [St.allocOk], by simpa using hf⟩)
      · cases h
  | free b k ih =>
    simp only [exec] at h
    cases b with
    | none => exact ih _ h
    | some b =>
      simp only [] at h
      split at h
      · exact ih _ h
      · cases h
  | deref b k ih =>
    simp only [exec] at h
    cases b with
    | none => cases h
    | some b =>
      simp only [] at h
      split at h
      · exact ih _ h
      · cases h
  | emit e k ih =>
    simp only [exec] at h
    have := ih _ h
    cases e <;> simpa [St.onEmit] using this

end SafeC.Alloc

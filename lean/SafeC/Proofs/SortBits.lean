import SafeC.Models.Sort
/-!
# Bit-level specification of the two-word vector `p[2]` of smoothsort (`Models/Sort.lean`)

`PV.bit p i` = bit `i` of `p[1]:p[0]`; `shl`/`shr` (with the x86 count masking, including the `n = 64` case
where `64 - n1` is executed as a shift by 0), `|= 1`, `^= 7`, `& 3`, `= {1,0}` and `pntz` in terms of it.

`pntz_spec64` (whole-word `ntz` and the repaired `pntz`, `Fixes.pntzGap`): `pntz` = distance to the next set bit, for every
distance.  Without the `pntz` repair (`pntz_spec64_partial`) the statement carries `t ≠ 64`: for `p[0] = 1`, `p[1]` odd the
code computes `r = 64 + 0` and takes it for "nothing found" (`pntz_at64`: the result is 0, not 64);
`pntz_spec64_unrestricted_false` is the refutation of the statement without that hypothesis for that code.
-/
namespace SafeC.Sort

/-- bit i of the 128-bit vector p[1]:p[0] -/
def PV.bit (p : PV) (i : Nat) : Bool :=
  if i < 64 then p.lo.toNat.testBit i else p.hi.toNat.testBit (i - 64)

theorem tb_ge (x : UInt64) {j : Nat} (h : 64 ≤ j) : x.toNat.testBit j = false :=
  Nat.testBit_lt_two_pow (Nat.lt_of_lt_of_le x.toNat_lt (Nat.pow_le_pow_right (by decide) h))

theorem PV.bit_ge (p : PV) {i : Nat} (h : 128 ≤ i) : p.bit i = false := by
  unfold PV.bit
  rw [if_neg (by omega)]
  exact tb_ge _ (by omega)

/-- the hardware takes the count modulo 64 -/
theorem count_mod {k : Nat} (hk : k ≤ 64) : (k.toUInt64).toNat % 64 = k % 64 := by
  show (UInt64.ofNat k).toNat % 64 = k % 64
  rw [UInt64.toNat_ofNat']
  have := hk
  omega

theorem tb_shr (x : UInt64) {k : Nat} (hk : k ≤ 64) (j : Nat) :
    (x >>> k.toUInt64).toNat.testBit j = x.toNat.testBit (j + k % 64) := by
  rw [UInt64.toNat_shiftRight, count_mod hk, Nat.testBit_shiftRight, Nat.add_comm]

theorem tb_shl (x : UInt64) {k : Nat} (hk : k ≤ 64) (j : Nat) :
    (x <<< k.toUInt64).toNat.testBit j =
      (decide (k % 64 ≤ j ∧ j < 64) && x.toNat.testBit (j - k % 64)) := by
  rw [UInt64.toNat_shiftLeft, count_mod hk, Nat.testBit_mod_two_pow, Nat.testBit_shiftLeft]
  by_cases h1 : k % 64 ≤ j <;> by_cases h2 : j < 64 <;> simp [h1, h2]

theorem tb_zero (j : Nat) : (0 : UInt64).toNat.testBit j = false := by
  simp

theorem shr_bit (p : PV) {n : Nat} (h0 : 0 < n) (h : n < 128) (i : Nat) :
    (shr p n).bit i = p.bit (i + n) := by
  by_cases hn : n ≥ 64
  · have e : shr p n = ⟨p.hi >>> (n - 64).toUInt64 ||| ((0 : UInt64) <<< (64 - (n - 64)).toUInt64),
        (0 : UInt64) >>> (n - 64).toUInt64⟩ := by
      simp [shr, hn]
    rw [e]
    unfold PV.bit
    by_cases hi : i < 64
    · rw [if_pos hi, if_neg (by omega)]
      simp only [UInt64.toNat_or, Nat.testBit_or]
      rw [tb_shr _ (by omega), tb_shl _ (by omega), tb_zero, Bool.and_false, Bool.or_false]
      congr 1; omega
    · rw [if_neg hi, if_neg (by omega), tb_shr _ (by omega), tb_zero]
      exact (tb_ge _ (by omega)).symm
  · have e : shr p n = ⟨p.lo >>> n.toUInt64 ||| (p.hi <<< (64 - n).toUInt64),
        p.hi >>> n.toUInt64⟩ := by
      simp [shr, hn]
    rw [e]
    unfold PV.bit
    by_cases hi : i < 64
    · rw [if_pos hi]
      simp only [UInt64.toNat_or, Nat.testBit_or]
      rw [tb_shr _ (by omega), tb_shl _ (by omega)]
      have e1 : n % 64 = n := by omega
      have e2 : (64 - n) % 64 = 64 - n := by omega
      rw [e1, e2]
      by_cases hc : i + n < 64
      · rw [if_pos hc]
        have : ¬ (64 - n ≤ i ∧ i < 64) := by omega
        rw [decide_eq_false this, Bool.false_and, Bool.or_false]
      · rw [if_neg hc, tb_ge _ (by omega : 64 ≤ i + n)]
        have : (64 - n ≤ i ∧ i < 64) := by omega
        rw [decide_eq_true this, Bool.true_and, Bool.false_or]
        congr 1; omega
    · rw [if_neg hi, if_neg (by omega), tb_shr _ (by omega)]
      have e1 : n % 64 = n := by omega
      rw [e1]
      congr 1; omega

theorem shl_bit (p : PV) {n : Nat} (h0 : 0 < n) (h : n < 128) (i : Nat) :
    (shl p n).bit i = (decide (n ≤ i ∧ i < 128) && p.bit (i - n)) := by
  by_cases hn : n ≥ 64
  · have e : shl p n = ⟨(0 : UInt64) <<< (n - 64).toUInt64,
        p.lo <<< (n - 64).toUInt64 ||| ((0 : UInt64) >>> (64 - (n - 64)).toUInt64)⟩ := by
      simp [shl, hn]
    rw [e]
    unfold PV.bit
    by_cases hi : i < 64
    · rw [if_pos hi, tb_shl _ (by omega), tb_zero, Bool.and_false]
      have : ¬ (n ≤ i ∧ i < 128) := by omega
      rw [decide_eq_false this, Bool.false_and]
    · rw [if_neg hi]
      simp only [UInt64.toNat_or, Nat.testBit_or]
      rw [tb_shl _ (by omega), tb_shr _ (by omega), tb_zero, Bool.or_false]
      have e1 : (n - 64) % 64 = n - 64 := by omega
      rw [e1]
      by_cases hc : n ≤ i ∧ i < 128
      · rw [decide_eq_true hc, if_pos (by omega),
          decide_eq_true (by omega : n - 64 ≤ i - 64 ∧ i - 64 < 64)]
        congr 2; omega
      · rw [decide_eq_false hc,
          decide_eq_false (by omega : ¬ (n - 64 ≤ i - 64 ∧ i - 64 < 64))]
        rfl
  · have e : shl p n = ⟨p.lo <<< n.toUInt64,
        p.hi <<< n.toUInt64 ||| (p.lo >>> (64 - n).toUInt64)⟩ := by
      simp [shl, hn]
    rw [e]
    unfold PV.bit
    have e1 : n % 64 = n := by omega
    have e2 : (64 - n) % 64 = 64 - n := by omega
    by_cases hi : i < 64
    · rw [if_pos hi, if_pos (by omega), tb_shl _ (by omega), e1]
      by_cases hc : n ≤ i
      · rw [decide_eq_true (by omega : n ≤ i ∧ i < 64), decide_eq_true (by omega : n ≤ i ∧ i < 128)]
      · rw [decide_eq_false (by omega : ¬ (n ≤ i ∧ i < 64)),
          decide_eq_false (by omega : ¬ (n ≤ i ∧ i < 128))]
    · rw [if_neg hi]
      simp only [UInt64.toNat_or, Nat.testBit_or]
      rw [tb_shl _ (by omega), tb_shr _ (by omega), e1, e2]
      by_cases h128 : i < 128
      · rw [decide_eq_true (by omega : n ≤ i ∧ i < 128), Bool.true_and]
        by_cases hc : i - n < 64
        · rw [if_pos hc, decide_eq_false (by omega : ¬ (n ≤ i - 64 ∧ i - 64 < 64)),
            Bool.false_and, Bool.false_or]
          congr 1; omega
        · rw [if_neg hc, decide_eq_true (by omega : n ≤ i - 64 ∧ i - 64 < 64), Bool.true_and,
            tb_ge p.lo (by omega : 64 ≤ i - 64 + (64 - n)), Bool.or_false]
          congr 1; omega
      · rw [decide_eq_false (by omega : ¬ (n ≤ i ∧ i < 128)),
          decide_eq_false (by omega : ¬ (n ≤ i - 64 ∧ i - 64 < 64)),
          tb_ge p.lo (by omega : 64 ≤ i - 64 + (64 - n))]
        rfl

theorem tb_one (i : Nat) : (1 : Nat).testBit i = decide (i = 0) := by
  cases i with
  | zero => rfl
  | succ j => rw [Nat.testBit_succ]; simp

theorem tb_seven (i : Nat) : (7 : Nat).testBit i = decide (i < 3) := by
  have := Nat.testBit_two_pow_sub_one 3 i
  simpa using this

theorem or1_bit (p : PV) (i : Nat) :
    (⟨p.lo ||| 1, p.hi⟩ : PV).bit i = (decide (i = 0) || p.bit i) := by
  unfold PV.bit
  by_cases hi : i < 64
  · simp only [if_pos hi, UInt64.toNat_or, Nat.testBit_or]
    rw [show (1 : UInt64).toNat = 1 from rfl, tb_one, Bool.or_comm]
  · simp only [if_neg hi]
    rw [decide_eq_false (by omega : ¬ i = 0), Bool.false_or]

theorem xor7_bit (p : PV) (i : Nat) :
    (⟨p.lo ^^^ 7, p.hi⟩ : PV).bit i = (p.bit i ^^ decide (i < 3)) := by
  unfold PV.bit
  by_cases hi : i < 64
  · simp only [if_pos hi, UInt64.toNat_xor, Nat.testBit_xor]
    rw [show (7 : UInt64).toNat = 7 from rfl, tb_seven]
  · simp only [if_neg hi]
    rw [decide_eq_false (by omega : ¬ i < 3), Bool.xor_false]

theorem and3_iff (p : PV) : p.lo &&& 3 = 3 ↔ (p.bit 0 = true ∧ p.bit 1 = true) := by
  unfold PV.bit
  rw [if_pos (by decide), if_pos (by decide), ← UInt64.toNat_inj, UInt64.toNat_and,
    show (3 : UInt64).toNat = 3 from rfl, Nat.testBit_zero, Nat.testBit_succ, Nat.testBit_zero]
  have e : p.lo.toNat &&& 3 = p.lo.toNat % 4 := Nat.and_two_pow_sub_one_eq_mod _ 2
  rw [e]
  simp only [decide_eq_true_eq]
  omega

theorem eq_one_iff (p : PV) : p = PV.one ↔ ∀ i, p.bit i = decide (i = 0) := by
  constructor
  · intro h i
    subst h
    unfold PV.bit PV.one
    by_cases hi : i < 64
    · rw [if_pos hi]; exact tb_one i
    · rw [if_neg hi, tb_zero, decide_eq_false (by omega : ¬ i = 0)]
  · intro h
    have hlo : p.lo = 1 := by
      apply UInt64.toNat_inj.mp
      apply Nat.eq_of_testBit_eq
      intro i
      rw [show (1 : UInt64).toNat = 1 from rfl, tb_one]
      by_cases hi : i < 64
      · have := h i
        unfold PV.bit at this
        rwa [if_pos hi] at this
      · rw [tb_ge _ (by omega), decide_eq_false (by omega : ¬ i = 0)]
    have hhi : p.hi = 0 := by
      apply UInt64.toNat_inj.mp
      apply Nat.eq_of_testBit_eq
      intro i
      rw [tb_zero]
      by_cases hi : i < 64
      · have := h (i + 64)
        unfold PV.bit at this
        rw [if_neg (by omega), decide_eq_false (by omega : ¬ i + 64 = 0), Nat.add_sub_cancel] at this
        exact this
      · exact tb_ge _ (by omega)
    cases p
    simp only at hlo hhi
    subst hlo hhi
    rfl

/-! ## `ctzAux`, `pntz` -/

theorem ctzAux_spec : ∀ (f x t : Nat), x < 2 ^ f → x.testBit t = true →
    (∀ j, j < t → x.testBit j = false) → ctzAux f x = t := by
  intro f
  induction f with
  | zero =>
    intro x t hx hb _
    have : x = 0 := by omega
    subst this
    simp at hb
  | succ f ih =>
    intro x t hx hb hmin
    unfold ctzAux
    cases t with
    | zero =>
      rw [Nat.testBit_zero, decide_eq_true_eq] at hb
      rw [if_pos hb]
    | succ t =>
      have h0 := hmin 0 (by omega)
      rw [Nat.testBit_zero, decide_eq_false_iff_not] at h0
      rw [if_neg h0, ih (x / 2) t (by rw [Nat.pow_succ] at hx; omega)
        (by rw [← Nat.testBit_succ]; exact hb)
        (fun j hj => by rw [← Nat.testBit_succ]; exact hmin (j + 1) (by omega))]
      omega

/-- clearing bit 0 of an odd number -/
theorem tb_pred_odd {x : Nat} (hx : x % 2 = 1) (j : Nat) :
    (x - 1).testBit j = (decide (j ≠ 0) && x.testBit j) := by
  cases j with
  | zero =>
    rw [Nat.testBit_zero, decide_eq_false (by omega : ¬ (x - 1) % 2 = 1)]
    rfl
  | succ j =>
    rw [Nat.testBit_succ, Nat.testBit_succ, (by omega : (x - 1) / 2 = x / 2),
      decide_eq_true (by omega : j + 1 ≠ 0), Bool.true_and]

theorem lo_odd {p : PV} (h0 : p.bit 0 = true) : p.lo.toNat % 2 = 1 := by
  unfold PV.bit at h0
  rw [if_pos (by decide), Nat.testBit_zero, decide_eq_true_eq] at h0
  exact h0

theorem toNat_lo_pred {p : PV} (h0 : p.bit 0 = true) : (p.lo - 1).toNat = p.lo.toNat - 1 := by
  have ho := lo_odd h0
  rw [UInt64.toNat_sub_of_le _ _ (by rw [UInt64.le_iff_toNat_le]; show 1 ≤ p.lo.toNat; omega)]
  rfl

/-- bit `j` of `p[0] - 1` -/
theorem tb_lo_pred {p : PV} (h0 : p.bit 0 = true) (j : Nat) :
    (p.lo - 1).toNat.testBit j = (decide (j ≠ 0) && p.lo.toNat.testBit j) := by
  rw [toNat_lo_pred h0, tb_pred_odd (lo_odd h0)]

theorem ne_zero_of_tb {x : UInt64} {j : Nat} (h : x.toNat.testBit j = true) : x ≠ 0 := by
  intro e
  subst e
  rw [tb_zero] at h
  exact Bool.false_ne_true h

theorem eq_zero_of_tb {x : UInt64} (h : ∀ j, j < 64 → x.toNat.testBit j = false) : x = 0 := by
  apply UInt64.toNat_inj.mp
  apply Nat.eq_of_testBit_eq
  intro i
  rw [tb_zero]
  by_cases hi : i < 64
  · exact h i hi
  · exact tb_ge _ (by omega)

theorem ctz64_spec {x : UInt64} {t : Nat} (hb : x.toNat.testBit t = true)
    (hmin : ∀ j, j < t → x.toNat.testBit j = false) : ctz64 x = t := by
  unfold ctz64
  rw [if_neg (ne_zero_of_tb hb)]
  exact ctzAux_spec 64 _ t x.toNat_lt hb hmin

/-- the low word decides when the next set bit is in it (repaired `ntz`) -/
theorem ntz64_lo {fx : Fixes} (hfx : fx.ctz64 = true) {p : PV} {t : Nat} (h0 : p.bit 0 = true)
    (ht : 0 < t) (ht64 : t < 64) (hb : p.bit t = true)
    (hmin : ∀ j, 0 < j → j < t → p.bit j = false) : ntz fx (p.lo - 1) = t := by
  unfold ntz
  rw [hfx, if_pos rfl]
  apply ctz64_spec
  · rw [tb_lo_pred h0, decide_eq_true (by omega : t ≠ 0), Bool.true_and]
    unfold PV.bit at hb
    rwa [if_pos ht64] at hb
  · intro j hj
    rw [tb_lo_pred h0]
    by_cases hj0 : j = 0
    · rw [decide_eq_false (by omega : ¬ j ≠ 0)]; rfl
    · have := hmin j (by omega) hj
      unfold PV.bit at this
      rw [if_pos (by omega)] at this
      rw [this, Bool.and_false]

/-- `p[0] = 1` when the next set bit is in the high word -/
theorem lo_pred_eq_zero {p : PV} {t : Nat} (h0 : p.bit 0 = true) (ht64 : 64 ≤ t)
    (hmin : ∀ j, 0 < j → j < t → p.bit j = false) : p.lo - 1 = 0 := by
  apply eq_zero_of_tb
  intro j hj
  rw [tb_lo_pred h0]
  by_cases hj0 : j = 0
  · rw [decide_eq_false (by omega : ¬ j ≠ 0)]; rfl
  · have := hmin j (by omega) (by omega)
    unfold PV.bit at this
    rw [if_pos hj] at this
    rw [this, Bool.and_false]

theorem ctz64_hi {p : PV} {t : Nat} (ht64 : 64 ≤ t) (hb : p.bit t = true)
    (hmin : ∀ j, 0 < j → j < t → p.bit j = false) : ctz64 p.hi = t - 64 := by
  apply ctz64_spec
  · unfold PV.bit at hb
    rwa [if_neg (by omega)] at hb
  · intro j hj
    have := hmin (j + 64) (by omega) (by omega)
    unfold PV.bit at this
    rwa [if_neg (by omega), Nat.add_sub_cancel] at this

/-- `pntz` = distance from bit 0 to the next set bit (repaired `ntz`: whole 64-bit word, 0 for 0), with or without the
    `pntz` repair; NOT for `t = 64` when `pntzGap = false`: see `pntz_at64` -/
theorem pntz_spec64_partial (fx : Fixes) (hfx : fx.ctz64 = true) (p : PV) (t : Nat) (h0 : p.bit 0 = true)
    (ht : 0 < t) (h64 : t ≠ 64) (hb : p.bit t = true)
    (hmin : ∀ j, 0 < j → j < t → p.bit j = false) : pntz fx p = t := by
  unfold pntz
  by_cases ht64 : t < 64
  · simp only [ntz64_lo hfx h0 ht ht64 hb hmin]
    rw [if_pos (by omega)]
  · have hz := lo_pred_eq_zero h0 (by omega : 64 ≤ t) hmin
    have hh := ctz64_hi (by omega : 64 ≤ t) hb hmin
    have e1 : ntz fx (p.lo - 1) = 0 := by
      rw [hz]; unfold ntz; rw [hfx, if_pos rfl]; rfl
    have e2 : ntz fx p.hi = t - 64 := by
      unfold ntz; rw [hfx, if_pos rfl]; exact hh
    have hne : p.hi ≠ 0 := by
      apply ne_zero_of_tb (j := t - 64)
      unfold PV.bit at hb
      rwa [if_neg (by omega)] at hb
    simp only [e1, e2]
    rw [if_neg (by omega)]
    cases fx.pntzGap with
    | true => rw [if_pos rfl, if_pos hne]; omega
    | false => rw [if_neg (by decide), if_pos (by omega)]; omega

/-- repaired `pntz` (`p[1] != 0` tested itself) and repaired `ntz`: `pntz` = distance from bit 0 to the next set bit of the
    two-word vector, for EVERY distance (1 … 127; a set bit `t` has `t < 128`) -/
theorem pntz_spec64 (fx : Fixes) (hfx : fx.ctz64 = true) (hgap : fx.pntzGap = true) (p : PV) (t : Nat) (h0 : p.bit 0 = true)
    (ht : 0 < t) (hb : p.bit t = true)
    (hmin : ∀ j, 0 < j → j < t → p.bit j = false) : pntz fx p = t := by
  by_cases h64 : t = 64
  · subst h64
    have hz := lo_pred_eq_zero h0 (Nat.le_refl 64) hmin
    have hh := ctz64_hi (Nat.le_refl 64) hb hmin
    have e1 : ntz fx (p.lo - 1) = 0 := by
      rw [hz]; unfold ntz; rw [hfx, if_pos rfl]; rfl
    have e2 : ntz fx p.hi = 0 := by
      unfold ntz; rw [hfx, if_pos rfl]; exact hh
    have hne : p.hi ≠ 0 := by
      apply ne_zero_of_tb (j := 0)
      unfold PV.bit at hb
      rwa [if_neg (by omega)] at hb
    unfold pntz
    simp only [e1, e2]
    rw [if_neg (by omega), hgap, if_pos rfl, if_pos hne]
  · exact pntz_spec64_partial fx hfx p t h0 ht h64 hb hmin

/-- no other set bit at all: `pntz` answers 0 (repaired `ntz`, either `pntz`) -/
theorem pntz_none (fx : Fixes) (hfx : fx.ctz64 = true) (p : PV) (h0 : p.bit 0 = true)
    (hmin : ∀ j, 0 < j → p.bit j = false) : pntz fx p = 0 := by
  have hz := lo_pred_eq_zero (t := 64) h0 (Nat.le_refl 64) (fun j hj _ => hmin j hj)
  have hhi : p.hi = 0 := by
    apply eq_zero_of_tb
    intro j hj
    have := hmin (j + 64) (by omega)
    unfold PV.bit at this
    rwa [if_neg (by omega), Nat.add_sub_cancel] at this
  have e1 : ntz fx (p.lo - 1) = 0 := by
    rw [hz]; unfold ntz; rw [hfx, if_pos rfl]; rfl
  have e2 : ntz fx (0 : UInt64) = 0 := by
    unfold ntz; rw [hfx, if_pos rfl]; rfl
  unfold pntz
  simp only [e1, hhi, e2]
  cases fx.pntzGap <;> rfl

/-- WITHOUT the `pntz` repair, the next set bit exactly 64 away (`p[0] = 1`, `p[1]` odd): `r = 64 + 0` is taken for
    "nothing found" -/
theorem pntz_at64 (fx : Fixes) (hfx : fx.ctz64 = true) (hgap : fx.pntzGap = false) (p : PV) (h0 : p.bit 0 = true)
    (hb : p.bit 64 = true) (hmin : ∀ j, 0 < j → j < 64 → p.bit j = false) : pntz fx p = 0 := by
  unfold pntz
  have hz := lo_pred_eq_zero h0 (Nat.le_refl 64) hmin
  have hh := ctz64_hi (Nat.le_refl 64) hb hmin
  have e1 : ntz fx (p.lo - 1) = 0 := by
    rw [hz]; unfold ntz; rw [hfx, if_pos rfl]; rfl
  have e2 : ntz fx p.hi = 0 := by
    unfold ntz; rw [hfx, if_pos rfl]; exact hh
  simp only [e1, e2, hgap]
  rfl

/-- the statement without `t ≠ 64` does not hold of the code without the `pntz` repair: `p = {1, 1}` -/
theorem pntz_spec64_unrestricted_false :
    ¬ (∀ (fx : Fixes) (_ : fx.ctz64 = true) (p : PV) (t : Nat) (_ : p.bit 0 = true) (_ : 0 < t)
        (_ : p.bit t = true) (_ : ∀ j, 0 < j → j < t → p.bit j = false), pntz fx p = t) := by
  intro h
  have hb0 : (⟨1, 1⟩ : PV).bit 0 = true := by decide
  have hb64 : (⟨1, 1⟩ : PV).bit 64 = true := by decide
  have hmin : ∀ j, 0 < j → j < 64 → (⟨1, 1⟩ : PV).bit j = false := by
    intro j hj0 hj
    unfold PV.bit
    rw [if_pos hj, show (1 : UInt64).toNat = 1 from rfl, tb_one, decide_eq_false (by omega : ¬ j = 0)]
  have h1 := h ntzOvfFixed rfl ⟨1, 1⟩ 64 hb0 (by decide) hb64 hmin
  have h2 := pntz_at64 ntzOvfFixed rfl rfl ⟨1, 1⟩ hb0 hb64 hmin
  omega

theorem ctz32_spec {x : UInt64} {t : Nat} (ht : t < 32) (hb : x.toNat.testBit t = true)
    (hmin : ∀ j, j < t → x.toNat.testBit j = false) : ctz32 x = t := by
  unfold ctz32
  have hby : (x.toNat % 2 ^ 32).testBit t = true := by
    rw [Nat.testBit_mod_two_pow, decide_eq_true ht, Bool.true_and]; exact hb
  have hy : x.toNat % 2 ^ 32 ≠ 0 := by
    intro e
    rw [e] at hby
    simp at hby
  simp only [if_neg hy]
  apply ctzAux_spec 32 _ t (Nat.mod_lt _ (by decide)) hby
  intro j hj
  rw [Nat.testBit_mod_two_pow, hmin j hj, Bool.and_false]

theorem ctz32_zero {x : UInt64} (hmin : ∀ j, j < 32 → x.toNat.testBit j = false) : ctz32 x = 32 := by
  unfold ctz32
  have hy : x.toNat % 2 ^ 32 = 0 := by
    apply Nat.eq_of_testBit_eq
    intro i
    rw [Nat.testBit_mod_two_pow, Nat.zero_testBit]
    by_cases hi : i < 32
    · rw [hmin i hi, Bool.and_false]
    · rw [decide_eq_false hi, Bool.false_and]
  simp only [if_pos hy]

/-- the code as compiled before the repair (`__builtin_ctz` on the low 32 bits, `tzcnt`: 32 for 0) is right
    exactly as long as the next set bit is at most 32 away -/
theorem pntz_spec32 (fx : Fixes) (hfx : fx.ctz64 = false) (p : PV) (t : Nat) (h0 : p.bit 0 = true)
    (ht : 0 < t) (ht32 : t ≤ 32) (hb : p.bit t = true)
    (hmin : ∀ j, 0 < j → j < t → p.bit j = false) : pntz fx p = t := by
  have hq : ∀ j, j < t → (p.lo - 1).toNat.testBit j = false := by
    intro j hj
    rw [tb_lo_pred h0]
    by_cases hj0 : j = 0
    · rw [decide_eq_false (by omega : ¬ j ≠ 0)]; rfl
    · have := hmin j (by omega) hj
      unfold PV.bit at this
      rw [if_pos (by omega)] at this
      rw [this, Bool.and_false]
  have e : ntz fx (p.lo - 1) = t := by
    unfold ntz
    rw [hfx, if_neg (by decide)]
    by_cases h32 : t < 32
    · apply ctz32_spec h32 _ hq
      rw [tb_lo_pred h0, decide_eq_true (by omega : t ≠ 0), Bool.true_and]
      unfold PV.bit at hb
      rwa [if_pos (by omega)] at hb
    · have : t = 32 := by omega
      subst this
      exact ctz32_zero hq
  unfold pntz
  simp only [e]
  rw [if_pos (by omega)]

end SafeC.Sort

import SafeC.Proofs.CopySteps
import SafeC.Proofs.ExtFld
import SafeC.Proofs.ExtWide
/-!
# `strncat_s` / `wcsncat_s` with `slen == 0`: the documented special case

`errno_t error = (strnlen_s(dest, dmax) < dmax) ? EOK : ESZEROL; handle_error(dest, dmax, msg, error); return error`:
dest is CLEARED and the handler is called whatever the code — also EOK ("analog to msvcrt", man page; the handler
call with EOK is the listed finding `strncat-slen0-handler-eok`).  Nothing of `src` is read.
-/
namespace SafeC
open Gen

/-- the `wcsnlen_s` loop with everything readable: the position of the first NUL within `smax`, or `smax` -/
theorem wcsnlenLoop_first (smax str count : Nat) (st : St)
    (hall : ∀ a, st.mapped a = true ∧ st.rd a = true) :
    ∃ len, exec (wcsnlenLoop smax str count) st = .ok (count + len, st) ∧ len ≤ smax ∧
      (len < smax → st.data (str + len) = 0) ∧ (∀ j, j < len → st.data (str + j) ≠ 0) := by
  induction smax generalizing str count with
  | zero => exact ⟨0, by simp [wcsnlenLoop], Nat.le_refl _, fun h => absurd h (Nat.lt_irrefl 0), fun j hj => by omega⟩
  | succ n ih =>
    have hm := hall str
    unfold wcsnlenLoop
    simp only [exec_bind, exec_load_ok _ _ hm.1 hm.2]
    by_cases hc : st.data str = 0
    · simp only [hc, if_true]
      exact ⟨0, by simp, by omega, fun _ => by simpa using hc, fun j hj => by omega⟩
    · simp only [hc, if_false]
      obtain ⟨len, he, hle, hz, hnz⟩ := ih (str+1) (count+1)
      refine ⟨len+1, ?_, by omega, ?_, ?_⟩
      · have e : count + (len+1) = count + 1 + len := by omega
        rw [e]; exact he
      · intro h
        have := hz (by omega)
        have e : str + 1 + len = str + (len+1) := by omega
        rwa [e] at this
      · intro j hj
        by_cases hj0 : j = 0
        · subst hj0; simpa using hc
        · have := hnz (j-1) (by omega)
          have e : str + 1 + (j-1) = str + j := by omega
          rwa [e] at this

theorem wcsnlen_s_first (str smax : Nat) (st : St)
    (hall : ∀ a, st.mapped a = true ∧ st.rd a = true)
    (hs : str ≠ 0) (hpos : 0 < smax) (hle : smax ≤ RSIZE_MAX_WSTR) :
    ∃ len, exec (wcsnlen_s str smax) st = .ok (len, st) ∧ StrLenIn st str smax len := by
  unfold wcsnlen_s
  have h1 : ¬ smax = 0 := by omega
  have h2 : ¬ smax > RSIZE_MAX_WSTR := by omega
  simp only [hs, h1, h2, if_false]
  obtain ⟨len, he, h⟩ := wcsnlenLoop_first smax str 0 st hall
  exact ⟨len, by simpa using he, h⟩

/-- `dl` = the length of the string dest holds, or `dmax` if it holds no NUL: the only such number -/
theorem StrLenIn.unique {st : St} {dest dmax len dl : Nat} (h : StrLenIn st dest dmax len)
    (hdl : dl ≤ dmax) (hdnz : ∀ j, j < dl → st.data (dest + j) ≠ 0) (hdnul : dl < dmax → st.data (dest + dl) = 0) :
    len = dl := by
  obtain ⟨h1, h2, h3⟩ := h
  by_cases hlt : len < dl
  · exact absurd (h2 (by omega)) (hdnz len hlt)
  · by_cases hgt : dl < len
    · exact absurd (hdnul (by omega)) (h3 dl hgt)
    · omega

theorem strncatG_slen0_eq (max : Nat) (cfg : Cfg) (dest dmax src : Nat) (destbos srcbos : Bos)
    (hd : dest ≠ 0) (hs : src ≠ 0) (hpos : 0 < dmax) (hle : dmax ≤ max)
    (hb : ∀ b, destbos = some b → dmax ≤ b) :
    strncatG max cfg dest dmax src 0 destbos srcbos = (do
      let l ← strnlen_s dest dmax none
      let error := if l < dmax then EOK else ESZEROL
      handleError cfg dest dmax error
      pure error) := by
  unfold strncatG
  have h0 : ¬ ((0 : Nat) = 0 ∧ dest = 0 ∧ dmax = 0) := by omega
  have hz : dmax ≠ 0 := by omega
  have hsx : ¬ (0 : Nat) > max := by omega
  rw [if_neg h0, if_neg hd, if_neg hz]
  unfold chkDmaxClear chkDmaxClearG chkSlenMaxClear
  cases destbos with
  | none => simp only; rw [if_neg (by omega), if_neg hs, if_neg hsx, if_pos trivial]
  | some b => simp only; rw [if_neg (by have := hb b rfl; omega), if_neg hs, if_neg hsx, if_pos trivial]

theorem wcsncat_s_slen0_eq (cfg : Cfg) (dest dmax src : Nat) (destbos srcbos : Bos)
    (hd : dest ≠ 0) (hs : src ≠ 0) (hpos : 0 < dmax) (hle : dmax ≤ RSIZE_MAX_WSTR)
    (hb : ∀ b, destbos = some b → dmax * SIZEOF_WCHAR_T ≤ b) :
    wcsncat_s cfg dest dmax src 0 destbos srcbos = (do
      let l ← wcsnlen_s dest dmax
      let error := if l < dmax then EOK else ESZEROL
      handleError cfg dest dmax error
      pure error) := by
  unfold wcsncat_s
  have h0 : ¬ ((0 : Nat) = 0 ∧ dest = 0 ∧ dmax = 0) := by omega
  have hz : dmax ≠ 0 := by omega
  have hsx : ¬ (0 : Nat) > RSIZE_MAX_WSTR := by omega
  rw [if_neg h0, if_neg hd, if_neg hz]
  unfold chkDmaxW
  cases destbos with
  | none =>
    simp only
    rw [if_neg (by omega), if_neg hs, if_neg hsx]
    cases srcbos with
    | none => simp only; rw [if_pos trivial]
    | some sb => simp only; rw [if_neg (by omega), if_pos trivial]
  | some b =>
    simp only
    rw [if_neg (by have := hb b rfl; omega), if_neg hs, if_neg hsx]
    cases srcbos with
    | none => simp only; rw [if_pos trivial]
    | some sb => simp only; rw [if_neg (by omega), if_pos trivial]

end SafeC

import SafeC.Proofs.NormUCDLift
/-! C17 — composition: the tree's pair lists against UCD 14.0's primary composites; Hangul composition arithmetic -/
namespace SafeC.Norm
open SafeC.Gen

/-- i-th primary composite of UCD 14.0: (first, second, composite) -/
def ucdComp (i : Nat) : Nat × Nat × Nat :=
  (cell 32 UCD14.comp (3 * i), cell 32 UCD14.comp (3 * i + 1), cell 32 UCD14.comp (3 * i + 2))

/-- every primary composite of UCD 14.0 is what `_composite_cp` returns for its canonical pair, and is not excluded -/
def compFwdOk (fx : Fixes) (i : Nat) : Bool :=
  let t := ucdComp i
  compositeCp fx t.1 t.2.1 == t.2.2 && !isExcl t.2.2

set_option maxRecDepth 100000 in
theorem comp_fwd_check : (allBelow (compFwdOk unrepaired) UCD14.compN && allBelow (compFwdOk allFixed) UCD14.compN) = true := by
  decide +kernel

/-- binary search for a composite in the (sorted by composite) UCD list -/
def ucdCompFind (c : Nat) : Nat → Nat → Nat → Option (Nat × Nat)
  | 0, _, _ => none
  | fuel + 1, lo, hi =>
    if lo ≥ hi then none else
    let mid := (lo + hi) / 2
    let t := ucdComp mid
    if t.2.2 = c then some (t.1, t.2.1)
    else if t.2.2 < c then ucdCompFind c fuel (mid + 1) hi
    else ucdCompFind c fuel lo mid

/-- every pair stored in the tree's lists whose composite is assigned in Unicode 14.0 and not excluded is a primary
composite of UCD 14.0 with exactly that canonical pair -/
def compBwdOk (i : Nat) : Bool :=
  let a := cell 32 UniCompos.listCp i
  let off := cell 16 UniCompos.listOff i
  allBelow (fun j =>
    let b := cell 32 UniCompos.pairs (2 * (off + j))
    let c := cell 32 UniCompos.pairs (2 * (off + j) + 1)
    !UCD.assigned c || isExcl c || ucdCompFind c 12 0 UCD14.compN == some (a, b)) (cell 8 UniCompos.listLen i)

set_option maxRecDepth 100000 in
theorem comp_bwd_check : allBelow compBwdOk UniCompos.listsN = true := by decide +kernel

set_option maxRecDepth 100000 in
/-- the UCD list is sorted by composite (so the binary search above is complete) -/
theorem ucd_comp_sorted : allBelow (fun i => decide ((ucdComp i).2.2 < (ucdComp (i + 1)).2.2)) (UCD14.compN - 1) = true := by
  decide +kernel

/-! ## Hangul: composing what the decomposition produced gives the syllable back, for all L, V, T -/

theorem hangul_LV (fx : Fixes) (l v : Nat) (hl : l < 19) (hv : v < 21) :
    compositeCp fx (0x1100 + l) (0x1161 + v) = 0xAC00 + (l * 21 + v) * 28 ∧
    UCD.hangulDecomp (0xAC00 + (l * 21 + v) * 28) = [0x1100 + l, 0x1161 + v] := by
  constructor
  · unfold compositeCp isL isV
    have c0 : UniCompos.unicodeMax = 0x10FFFF := by decide
    have c1 : UniCompos.HLBase = 0x1100 := by decide
    have c2 : UniCompos.HLFinal = 0x1112 := by decide
    have c3 : UniCompos.HVBase = 0x1161 := by decide
    have c4 : UniCompos.HVFinal = 0x1175 := by decide
    have c5 : UniCompos.HSBase = 0xAC00 := by decide
    have c6 : UniCompos.HVCount = 21 := by decide
    have c7 : UniCompos.HTCount = 28 := by decide
    rw [c0, c1, c2, c3, c4, c5, c6, c7]
    have h1 : ¬ (0x1161 + v = 0) := by omega
    have h2 : ¬ (0x10FFFF < 0x1100 + l ∨ 0x10FFFF < 0x1161 + v) := by omega
    have h3 : (decide (0x1100 ≤ 0x1100 + l) && decide (0x1100 + l ≤ 0x1112)) = true := by simp; omega
    have h4 : (decide (0x1161 ≤ 0x1161 + v) && decide (0x1161 + v ≤ 0x1175)) = true := by simp; omega
    simp only [h1, h2, h3, h4, ↓reduceIte, Bool.and_self]
    omega
  · unfold UCD.hangulDecomp UCD.SBase UCD.LBase UCD.VBase UCD.TBase UCD.NCount UCD.TCount
    have e1 : (0xAC00 + (l * 21 + v) * 28 - 0xAC00) / 588 = l := by omega
    have e2 : (0xAC00 + (l * 21 + v) * 28 - 0xAC00) % 588 / 28 = v := by omega
    have e3 : (0xAC00 + (l * 21 + v) * 28 - 0xAC00) % 28 = 0 := by omega
    simp only [e1, e2, e3, Nat.add_zero, ↓reduceIte]

theorem hangul_LVT (fx : Fixes) (l v t : Nat) (hl : l < 19) (hv : v < 21) (ht0 : 0 < t) (ht : t < 28) :
    compositeCp fx (0xAC00 + (l * 21 + v) * 28) (0x11A7 + t) = 0xAC00 + (l * 21 + v) * 28 + t ∧
    UCD.hangulDecomp (0xAC00 + (l * 21 + v) * 28 + t) = [0x1100 + l, 0x1161 + v, 0x11A7 + t] := by
  constructor
  · unfold compositeCp isL isV isLV isS isT
    have c0 : UniCompos.unicodeMax = 0x10FFFF := by decide
    have c1 : UniCompos.HLBase = 0x1100 := by decide
    have c2 : UniCompos.HLFinal = 0x1112 := by decide
    have c5 : UniCompos.HSBase = 0xAC00 := by decide
    have c6 : UniCompos.HSFinal = 0xD7A3 := by decide
    have c7 : UniCompos.HTCount = 28 := by decide
    have c8 : UniCompos.HTBase = 0x11A7 := by decide
    have c9 : UniCompos.HTFinal = 0x11C2 := by decide
    rw [c0, c1, c2, c5, c6, c7, c8, c9]
    have h1 : ¬ (0x11A7 + t = 0) := by omega
    have h2 : ¬ (0x10FFFF < 0xAC00 + (l * 21 + v) * 28 ∨ 0x10FFFF < 0x11A7 + t) := by omega
    have h3 : (decide (0x1100 ≤ 0xAC00 + (l * 21 + v) * 28) && decide (0xAC00 + (l * 21 + v) * 28 ≤ 0x1112)) = false := by
      simp; omega
    have h4 : (decide (0xAC00 ≤ 0xAC00 + (l * 21 + v) * 28) && decide (0xAC00 + (l * 21 + v) * 28 ≤ 0xD7A3)) = true := by
      simp; omega
    have h5 : ((0xAC00 + (l * 21 + v) * 28 - 0xAC00) % 28 == 0) = true := by simp
    have h6 : (decide (0x11A7 < 0x11A7 + t) && decide (0x11A7 + t ≤ 0x11C2)) = true := by simp; omega
    simp only [h1, h2, h3, h4, h5, h6, ↓reduceIte, Bool.and_self, Bool.false_and, Bool.false_eq_true]
    omega
  · unfold UCD.hangulDecomp UCD.SBase UCD.LBase UCD.VBase UCD.TBase UCD.NCount UCD.TCount
    have e1 : (0xAC00 + (l * 21 + v) * 28 + t - 0xAC00) / 588 = l := by omega
    have e2 : (0xAC00 + (l * 21 + v) * 28 + t - 0xAC00) % 588 / 28 = v := by omega
    have e3 : (0xAC00 + (l * 21 + v) * 28 + t - 0xAC00) % 28 = t := by omega
    have e4 : ¬ (0x11A7 + t = 0x11A7) := by omega
    simp only [e1, e2, e3, e4, ↓reduceIte]

end SafeC.Norm

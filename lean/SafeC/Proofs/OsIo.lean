import SafeC.Proofs.ExtOs
import SafeC.Models.Io
/-!
# `gets_s` (`Models/Io.lean`): what `fgetsLoop` / `strnlenP` do, and the exact result of every exit

Setting of `Proofs/ExtOs.lean`: dest is `dmax` writable cells with arbitrary content (`RW st dest dmax`), the stream
region `inp[0..len)` is readable and does not overlap dest; nothing else is assumed about the memory.  No bound on `len`,
`dmax` or the bytes of the stream.

`Runs p st Q`: the run of `p` from `st` returns (no fault) with a result and a final state satisfying `Q` — the
exec-level statements of `ExtOs.lean` packaged so that they compose along `>>=`.
-/
namespace SafeC
open Gen

/-- `p` started in `st` returns, and result and final state satisfy `Q` -/
def Runs {α : Type} (p : Prog α) (st : St) (Q : α → St → Prop) : Prop := ∃ r st', exec p st = .ok (r, st') ∧ Q r st'

namespace Runs

theorem pure {α} {Q : α → St → Prop} {st : St} (x : α) (h : Q x st) : Runs (Pure.pure x : Prog α) st Q := ⟨x, st, rfl, h⟩

theorem bind {α β} {p : Prog α} {f : α → Prog β} {st : St} {Q : β → St → Prop}
    (h : Runs p st (fun a s1 => Runs (f a) s1 Q)) : Runs (p >>= f) st Q := by
  obtain ⟨a, s1, he, r, s2, he2, hq⟩ := h
  exact ⟨r, s2, by simp only [exec_bind, he, he2], hq⟩

theorem conseq {α} {p : Prog α} {st : St} {Q Q' : α → St → Prop} (h : Runs p st Q) (hq : ∀ r s, Q r s → Q' r s) :
    Runs p st Q' := by
  obtain ⟨r, s, he, h1⟩ := h
  exact ⟨r, s, he, hq r s h1⟩

/-- a declared load -/
theorem loadP {st : St} (a : Nat) (hm : st.mapped a = true) (hr : st.rd a = true) :
    Runs (load a) st (fun v s => v = st.data a ∧ s = st) := ⟨_, _, exec_load_ok a st hm hr, rfl, rfl⟩

/-- a declared store -/
theorem storeP {st : St} (a v : Nat) (hm : st.mapped a = true) (hw : st.wr a = true) :
    Runs (store a v) st (fun _ s => s = st.upd a v) := ⟨_, _, exec_store_ok a v st hm hw, rfl⟩

end Runs

/-! ## glibc `fgets` (`_IO_getline`) -/

/-- **what `fgetsLoop` stores, how many, the eof flag.**  With `k` writable cells at `d` and a readable stream region
`inp[0..len)` away from them: it returns `(acc + m, eof)` having stored the first `m` bytes of the stream at `d[0..m)` and
nothing else, where `m ≤ k`, `m ≤ len`, no byte in front of the last stored one is a newline, and either the last stored
byte IS a newline (eof clear), or no stored byte is one and the count was reached (`m = k`, eof clear) or the stream ran out
first (`m = len < k`, eof set). -/
theorem fgetsLoop_runs (k inp len d acc : Nat) (st : St) (hrw : RW st d k)
    (hrd : ∀ j, j < len → st.mapped (inp+j) = true ∧ st.rd (inp+j) = true)
    (hdisj : d + k ≤ inp ∨ inp + len ≤ d) :
    ∃ m eof st', exec (fgetsLoop k inp len d acc) st = .ok ((acc + m, eof), st') ∧ SameMeta st' st ∧
      m ≤ k ∧ m ≤ len ∧
      (∀ j, j < m → st'.data (d+j) = st.data (inp+j)) ∧
      (∀ a, ¬ (d ≤ a ∧ a < d + m) → st'.data a = st.data a) ∧
      (∀ j, j + 1 < m → st.data (inp+j) ≠ 10) ∧
      ((0 < m ∧ st.data (inp + (m-1)) = 10 ∧ eof = false) ∨
       ((∀ j, j < m → st.data (inp+j) ≠ 10) ∧ ((m = k ∧ eof = false) ∨ (m = len ∧ m < k ∧ eof = true)))) := by
  induction k generalizing inp len d acc st with
  | zero =>
    refine ⟨0, false, st, by simp [fgetsLoop], SameMeta.refl _, Nat.le_refl _, Nat.zero_le _, fun j hj => by omega,
      fun _ _ => rfl, fun j hj => by omega, Or.inr ⟨fun j hj => by omega, Or.inl ⟨rfl, rfl⟩⟩⟩
  | succ k ih =>
    cases len with
    | zero =>
      refine ⟨0, true, st, by simp [fgetsLoop], SameMeta.refl _, Nat.zero_le _, Nat.le_refl _, fun j hj => by omega,
        fun _ _ => rfl, fun j hj => by omega, Or.inr ⟨fun j hj => by omega, Or.inr ⟨rfl, by omega, rfl⟩⟩⟩
    | succ l =>
      have h0 := hrd 0 (by omega)
      simp only [Nat.add_zero] at h0
      obtain ⟨hm, hw, _⟩ := hrw.head
      unfold fgetsLoop
      simp only [exec_bind, exec_load_ok _ _ h0.1 h0.2, exec_store_ok _ _ _ hm hw]
      by_cases hc : st.data inp = 10
      · rw [if_pos hc]
        refine ⟨1, false, st.upd d (st.data inp), rfl, SameMeta.upd _ _ _, by omega, by omega, ?_, ?_, fun j hj => by omega,
          Or.inl ⟨by omega, by simpa using hc, rfl⟩⟩
        · intro j hj
          have : j = 0 := by omega
          subst this; simp
        · intro a ha
          exact St.upd_data_ne _ _ _ _ (by intro h; subst h; exact ha ⟨Nat.le_refl _, by omega⟩)
      · rw [if_neg hc]
        have hne : ∀ j, j < l → inp + 1 + j ≠ d := by intro j hj; omega
        obtain ⟨m, eof, st', he, hmeta, hmk, hml, hcp, hfr, hnl, hfin⟩ :=
          ih (inp+1) l (d+1) (acc+1) (st.upd d (st.data inp)) (RW.of_sameMeta (SameMeta.upd _ _ _) hrw.tail)
            (by intro j hj
                have := hrd (j+1) (by omega)
                rw [show inp + (j+1) = inp + 1 + j by omega] at this
                simpa using this)
            (by omega)
        have hsrc : ∀ j, j < l → (st.upd d (st.data inp)).data (inp + 1 + j) = st.data (inp + (j+1)) := by
          intro j hj
          rw [St.upd_data_ne _ _ _ _ (hne j hj)]
          congr 1; omega
        refine ⟨m+1, eof, st', ?_, hmeta.trans (SameMeta.upd _ _ _), by omega, by omega, ?_, ?_, ?_, ?_⟩
        · rw [he]; congr 3; omega
        · intro j hj
          cases j with
          | zero =>
            rw [Nat.add_zero, hfr d (by omega)]
            simp
          | succ j =>
            have := hcp j (by omega)
            rw [show d + (j+1) = d + 1 + j by omega, this, hsrc j (by omega)]
        · intro a ha
          rw [hfr a (by omega)]
          exact St.upd_data_ne _ _ _ _ (by intro h; subst h; exact ha ⟨Nat.le_refl _, by omega⟩)
        · intro j hj
          cases j with
          | zero => simpa using hc
          | succ j =>
            have := hnl j (by omega)
            rwa [hsrc j (by omega)] at this
        · rcases hfin with ⟨h1, h2, h3⟩ | ⟨h1, h2⟩
          · refine Or.inl ⟨by omega, ?_, h3⟩
            rw [hsrc (m-1) (by omega)] at h2
            rw [show inp + (m + 1 - 1) = inp + (m - 1 + 1) by omega]
            exact h2
          · refine Or.inr ⟨?_, ?_⟩
            · intro j hj
              cases j with
              | zero => simpa using hc
              | succ j =>
                have := h1 j (by omega)
                rwa [hsrc j (by omega)] at this
            · rcases h2 with ⟨h2, h3⟩ | ⟨h2, h3, h4⟩
              · exact Or.inl ⟨by omega, h3⟩
              · exact Or.inr ⟨by omega, by omega, h4⟩

/-- **`strnlen(s, k)`** on readable cells: the index of the first NUL among the first `k` cells, or `k`; the state is
left alone -/
theorem strnlenP_ok (k s acc n : Nat) (st : St) (hn : n ≤ k) (hnz : ∀ j, j < n → st.data (s+j) ≠ 0)
    (hrd : ∀ j, j < k → st.mapped (s+j) = true ∧ st.rd (s+j) = true) (hz : n < k → st.data (s+n) = 0) :
    exec (strnlenP k s acc) st = .ok (acc + n, st) := by
  induction k generalizing s acc n with
  | zero =>
    have : n = 0 := by omega
    subst this; simp [strnlenP]
  | succ k ih =>
    have h0 := hrd 0 (by omega)
    simp only [Nat.add_zero] at h0
    unfold strnlenP
    simp only [exec_bind, exec_load_ok _ _ h0.1 h0.2]
    cases n with
    | zero =>
      have := hz (by omega)
      simp only [Nat.add_zero] at this
      simp [this]
    | succ n =>
      have h1 := hnz 0 (by omega)
      simp only [Nat.add_zero] at h1
      rw [if_neg h1]
      rw [ih (s+1) (acc+1) n (by omega)
        (by intro j hj
            have := hnz (j+1) (by omega)
            rwa [show s + (j+1) = s + 1 + j by omega] at this)
        (by intro j hj
            have := hrd (j+1) (by omega)
            rwa [show s + (j+1) = s + 1 + j by omega] at this)
        (by intro h
            have := hz (by omega)
            rwa [show s + (n+1) = s + 1 + n by omega] at this)]
      congr 2; omega

end SafeC

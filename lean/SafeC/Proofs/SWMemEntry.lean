import SafeC.Proofs.SWMem
/-!
# `SW` for the entry points of the memory family: ALL arguments (NULL, zero, huge, overlapping, wrapped sizes)
-/
namespace SafeC
open Gen Mem

theorem RSIZE_MAX_MEM_lt : RSIZE_MAX_MEM < 4294967296 := by decide
theorem U64_eq : U64 = 18446744073709551616 := by decide

/-! literal-modulus forms of the primitive lemmas (so that `omega` sees `% 4294967296`) -/
theorem SW_mem_prim_move' {lo hi : Nat} (dest src len : Nat) (h : 0 < len % 4294967296 ∧ lo ≤ dest ∧ dest + len % 4294967296 ≤ hi) :
    SW lo hi (mem_prim_move dest src len) (fun _ => True) := SW_mem_prim_move dest src len h
theorem SW_mem_prim_move16' {lo hi : Nat} (dest src len : Nat) (h : len % 4294967296 = 0 ∨ (lo ≤ dest ∧ dest + len % 4294967296 ≤ hi)) :
    SW lo hi (mem_prim_move16 dest src len) (fun _ => True) := SW_mem_prim_move16 dest src len h
theorem SW_mem_prim_move32' {lo hi : Nat} (dest src len : Nat) (h : len % 4294967296 = 0 ∨ (lo ≤ dest ∧ dest + len % 4294967296 ≤ hi)) :
    SW lo hi (mem_prim_move32 dest src len) (fun _ => True) := SW_mem_prim_move32 dest src len h
theorem SW_mem_prim_set' {lo hi : Nat} (w dest len value : Nat) (hw : w = 1 ∨ w = 2 ∨ w = 4)
    (h : lo * w ≤ dest ∧ dest + len % 4294967296 ≤ hi * w) :
    SW lo hi (mem_prim_set w dest len value) (fun _ => True) := SW_mem_prim_set w dest len value hw h
theorem SW_mem_prim_set32' {lo hi : Nat} (dest len value : Nat) (h : len % 4294967296 = 0 ∨ (lo ≤ dest ∧ dest + len % 4294967296 ≤ hi)) :
    SW lo hi (mem_prim_set32 dest len value) (fun _ => True) := SW_mem_prim_set32 dest len value h

/-- the byte copies: with the object size unknown `dmax ≤ RSIZE_MAX_MEM < 2^32`; a KNOWN object size skips that limit,
and a length that is a multiple of 2^32 reaches `mem_prim_move` as 0 -/
def bosSmall (dmax : Nat) : Bos → Prop
  | none => True
  | some _ => dmax < 4294967296

theorem SW_memcpy_s {lo hi : Nat} (dest dmax src slen : Nat) (db sb : Bos) (hb : bosSmall dmax db)
    (h : dest = 0 ∨ (lo ≤ dest ∧ dest + dmax ≤ hi)) :
    SW lo hi (memcpy_s dest dmax src slen db sb) (fun _ => True) := by
  have := RSIZE_MAX_MEM_lt
  unfold memcpy_s chkDmaxMemB
  cases db <;> simp only [bosSmall] at hb ⊢ <;>
    sw_walk using SW_handleMemErrorB, SW_mem_prim_set', SW_mem_prim_move'

theorem SW_memmove_s {lo hi : Nat} (dest dmax src slen : Nat) (db sb : Bos) (hb : bosSmall dmax db)
    (h : dest = 0 ∨ (lo ≤ dest ∧ dest + dmax ≤ hi)) :
    SW lo hi (memmove_s dest dmax src slen db sb) (fun _ => True) := by
  have := RSIZE_MAX_MEM_lt
  unfold memmove_s chkDmaxMemB
  cases db <;> simp only [bosSmall] at hb ⊢ <;>
    sw_walk using SW_handleMemErrorB, SW_mem_prim_move'

/-- the 16-bit copies: `dmax` in BYTES; a known object size REPLACES it (`mem16-32-bos-widens-dmax`): the extent is
`E = destbos.getD dmax` bytes, i.e. `⌈E/2⌉` cells -/
theorem SW_memcpy16_s {lo hi : Nat} (dest dmax src slen : Nat) (db sb : Bos)
    (h : dest = 0 ∨ (lo ≤ dest ∧ dest * 2 + db.getD dmax ≤ hi * 2)) :
    SW lo hi (memcpy16_s dest dmax src slen db sb) (fun _ => True) := by
  unfold memcpy16_s chkDmaxMemB
  cases db <;> simp only [Option.getD, U64_eq] at h ⊢ <;>
    sw_walk using SW_handleMemErrorB, SW_mem_prim_set', SW_mem_prim_move16'

theorem SW_memmove16_s {lo hi : Nat} (dest dmax src slen : Nat) (db sb : Bos)
    (h : dest = 0 ∨ (lo ≤ dest ∧ dest * 2 + db.getD dmax ≤ hi * 2)) :
    SW lo hi (memmove16_s dest dmax src slen db sb) (fun _ => True) := by
  unfold memmove16_s chkDmaxMemB
  cases db <;> simp only [Option.getD, U64_eq] at h ⊢ <;>
    sw_walk using SW_handleMemErrorB, SW_mem_prim_move16'

theorem SW_memcpy32_s {lo hi : Nat} (dest dmax src slen : Nat) (db sb : Bos)
    (h : dest = 0 ∨ (lo ≤ dest ∧ dest * 4 + db.getD dmax ≤ hi * 4)) :
    SW lo hi (memcpy32_s dest dmax src slen db sb) (fun _ => True) := by
  unfold memcpy32_s chkDmaxMemB
  cases db <;> simp only [Option.getD, U64_eq] at h ⊢ <;>
    sw_walk using SW_handleMemErrorB, SW_mem_prim_set', SW_mem_prim_move32'

theorem SW_memmove32_s {lo hi : Nat} (dest dmax src slen : Nat) (db sb : Bos)
    (h : dest = 0 ∨ (lo ≤ dest ∧ dest * 4 + db.getD dmax ≤ hi * 4)) :
    SW lo hi (memmove32_s dest dmax src slen db sb) (fun _ => True) := by
  unfold memmove32_s chkDmaxMemB
  cases db <;> simp only [Option.getD, U64_eq] at h ⊢ <;>
    sw_walk using SW_handleMemErrorB, SW_mem_prim_move32'

/-- `wmemcpy_s` / `wmemmove_s`: `dlen`, `count` in `wchar_t` elements: the `dlen` cells of dest, whatever the sizes
(also when `dlen * 4` or `count * 4` wrap: the primitives truncate the same way) -/
theorem SW_wmemcpy_s {lo hi : Nat} (dest dlen src count : Nat) (db sb : Bos)
    (h : dest = 0 ∨ (lo ≤ dest ∧ dest + dlen ≤ hi)) :
    SW lo hi (wmemcpy_s dest dlen src count db sb) (fun _ => True) := by
  unfold wmemcpy_s chkDmaxMemB
  have hw : SIZEOF_WCHAR_T = 4 := rfl
  cases db <;> simp only [hw, U64_eq] at h ⊢ <;>
    sw_walk using SW_handleMemErrorB, SW_mem_prim_set32', SW_mem_prim_move32'

theorem SW_wmemmove_s {lo hi : Nat} (dest dlen src count : Nat) (db sb : Bos)
    (h : dest = 0 ∨ (lo ≤ dest ∧ dest + dlen ≤ hi)) :
    SW lo hi (wmemmove_s dest dlen src count db sb) (fun _ => True) := by
  unfold wmemmove_s chkDmaxMemB
  have hw : SIZEOF_WCHAR_T = 4 := rfl
  cases db <;> simp only [hw, U64_eq] at h ⊢ <;>
    sw_walk using SW_handleMemErrorB, SW_mem_prim_set32', SW_mem_prim_move32'

/-- `memccpy_s` loop: `dp_i + dmax_i ≤ hi` and `n_i ≤ dmax_i` (the slack clear covers `n_i` bytes from `dp_i`) -/
theorem SW_memccpyLoop {lo hi : Nat} (cfg : Cfg) (c : Int) (oD oM : Nat) (h0 : lo ≤ oD ∧ oD + oM ≤ hi ∧ oD < hi)
    (k dp sp n : Nat) (h : lo ≤ dp ∧ dp + k ≤ hi ∧ n ≤ k) :
    SW lo hi (memccpyLoop cfg c oD oM k dp sp n) (fun _ => True) := by
  induction k generalizing dp sp n with
  | zero => unfold memccpyLoop; sw_walk
  | succ k ih => unfold memccpyLoop; sw_walk using ih, SW_mem_prim_set'

theorem SW_memccpy_s {lo hi : Nat} (cfg : Cfg) (dest dmax src c n : Nat) (db sb : Bos)
    (h : dest = 0 ∨ (lo ≤ dest ∧ dest + dmax ≤ hi)) :
    SW lo hi (memccpy_s cfg dest dmax src c n db sb) (fun _ => True) := by
  unfold memccpy_s chkDmaxMemB
  cases db <;> dsimp only <;>
    sw_walk using SW_handleMemErrorB, SW_mem_prim_set', SW_memccpyLoop

end SafeC

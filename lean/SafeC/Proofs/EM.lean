import SafeC.Proofs.EVQuery
/-!
# `EM S p`: every constraint-handler event `p` can emit carries a code from the list `S`, whatever it reads

The third event judgement (after `EV`, `Quiet`): a purely syntactic walk — the continuation of a `load` must satisfy it for every
value — that bounds the CODES a function can report.  Together with `EV p (QPost bn k code)` ("silent with a result code of `bn`, or one
report carrying the returned code") it bounds the codes a function can RETURN: `bn ++ S`.  `Props/C05Docs.lean` compares that list
with the `@retval` lines of the function's doc comment, regenerated from `/repo/src` on every run (`Gen/Docs.lean`).
-/
namespace SafeC
open Gen

inductive EM (S : List Nat) : {α : Type} → Prog α → Prop where
  | ret {α} (x : α) : EM S (.ret x)
  | load {α} (a : Nat) (k : Nat → Prog α) : (∀ v, EM S (k v)) → EM S (.load a k)
  | store {α} (a v : Nat) (k : Prog α) : EM S k → EM S (.store a v k)
  | emitH {α} (kd : Kind) (c : Nat) (k : Prog α) : c ∈ S → EM S k → EM S (.emit (.handler kd c) k)
  | emitB {α} (b : Bool) (k : Prog α) : EM S k → EM S (.emit (.branch b) k)

namespace EM
variable {S : List Nat}

theorem pure {α} (x : α) : EM S (Pure.pure x : Prog α) := .ret x

theorem bind {α β} {p : Prog α} {f : α → Prog β} (hp : EM S p) (hf : ∀ x, EM S (f x)) : EM S (p >>= f) := by
  show EM S (p.bind f)
  induction hp with
  | ret x => exact hf x
  | load a k _ ih => exact .load a _ (fun v => ih v)
  | store a v k _ ih => exact .store a v _ ih
  | emitH kd c k hc _ ih => exact .emitH kd c _ hc ih
  | emitB b k _ ih => exact .emitB b _ ih

/-- a quiet program emits nothing, so it satisfies `EM S` for every `S` -/
theorem of_quiet {α} {p : Prog α} (h : Quiet p) : EM S p := by
  unfold Quiet EV.Silent at h
  generalize hQ : (fun (x : α) (es : List Event) => es = [] ∧ (fun _ => True) x) = Q at h
  induction h with
  | ret x _ => exact .ret x
  | load a k _ ih => exact .load a _ (fun v => ih v hQ)
  | store a v k _ ih => exact .store a v _ (ih hQ)
  | emit e k hk _ =>
    exfalso
    subst hQ
    -- the continuation would have to end with `e :: es = []`
    have : ∀ {β} {q : Prog β} {R : β → List Event → Prop}, EV q R → (∀ x es, ¬ R x es) → False := by
      intro β q R hq hn
      induction hq with
      | ret x hx => exact hn x [] hx
      | load a k _ ih => exact ih 0 hn
      | store a v k _ ih => exact ih hn
      | emit e k _ ih => exact ih (fun x es h => hn x (e :: es) h)
    exact this hk (fun x es h => by simp at h)

theorem loadP (a : Nat) : EM S (SafeC.load a) := .load a _ (fun v => .ret v)
theorem storeP (a v : Nat) : EM S (SafeC.store a v) := .store a v _ (.ret ())
theorem handlerS (c : Nat) (h : c ∈ S) : EM S (SafeC.handlerS c) := .emitH _ c _ h (.ret ())
theorem handlerM (c : Nat) (h : c ∈ S) : EM S (SafeC.handlerM c) := .emitH _ c _ h (.ret ())
theorem failS (c : Nat) (h : c ∈ S) : EM S (SafeC.failS c) := by
  unfold SafeC.failS; exact bind (handlerS c h) (fun _ => pure _)
theorem failM (c : Nat) (h : c ∈ S) : EM S (SafeC.failM c) := by
  unfold SafeC.failM; exact bind (handlerM c h) (fun _ => pure _)
theorem handleError (cfg : Cfg) (d len c : Nat) (h : c ∈ S) : EM S (SafeC.handleError cfg d len c) := by
  unfold SafeC.handleError
  dsimp only
  split
  · exact bind (of_quiet (Quiet.memsetP 0 len d)) (fun _ => handlerS c h)
  · exact bind (of_quiet (Quiet.storeP d 0)) (fun _ => handlerS c h)

/-- **Soundness**: every handler event appended by a returning run carries a code of `S`. -/
theorem sound {α} {p : Prog α} (h : EM S p) (st : St) {r : α} {st' : St} (he : exec p st = .ok (r, st')) :
    ∃ es, st'.events = st.events ++ es ∧ ∀ kd c, Event.handler kd c ∈ es → c ∈ S := by
  induction h generalizing st with
  | ret x =>
    simp only [exec, Except.ok.injEq, Prod.mk.injEq] at he
    obtain ⟨rfl, rfl⟩ := he
    exact ⟨[], by simp, by simp⟩
  | load a k _ ih =>
    simp only [exec] at he
    split at he
    · obtain ⟨es, h1, h2⟩ := ih _ _ he
      refine ⟨es, ?_, h2⟩
      rw [h1]; simp only [St.noteRd]; split <;> rfl
    · cases he
  | store a v k _ ih =>
    simp only [exec] at he
    split at he
    · obtain ⟨es, h1, h2⟩ := ih _ he
      refine ⟨es, ?_, h2⟩
      rw [h1]; simp only [St.upd_events, St.noteWr]; split <;> rfl
    · cases he
  | emitH kd c k hc _ ih =>
    simp only [exec] at he
    obtain ⟨es, h1, h2⟩ := ih _ he
    refine ⟨.handler kd c :: es, by rw [h1]; simp, ?_⟩
    intro kd' c' hm
    rcases List.mem_cons.mp hm with h | h
    · cases h; exact hc
    · exact h2 kd' c' h
  | emitB b k _ ih =>
    simp only [exec] at he
    obtain ⟨es, h1, h2⟩ := ih _ he
    refine ⟨.branch b :: es, by rw [h1]; simp, ?_⟩
    intro kd' c' hm
    rcases List.mem_cons.mp hm with h | h
    · cases h
    · exact h2 kd' c' h

end EM

/-- one step of the walk for `EM S` goals -/
macro "em_step" : tactic => `(tactic| first
  | exact EM.pure _
  | exact EM.ret _
  | exact EM.failS _ (by first | decide | mem_lit)
  | exact EM.failM _ (by first | decide | mem_lit)
  | exact EM.handlerS _ (by first | decide | mem_lit)
  | exact EM.handlerM _ (by first | decide | mem_lit)
  | exact EM.handleError _ _ _ _ (by first | decide | mem_lit)
  | exact EM.loadP _
  | exact EM.storeP _ _
  | assumption
  | (with_reducible apply EM.bind)
  | intro _
  | dsimp only
  | split)

/-- `em_walk` walks a model; `em_walk using l₁, l₂` also tries the given lemmas (quiet loops via `EM.of_quiet`, sub-programs) -/
syntax "em_walk" (" using " term,+)? : tactic
macro_rules
  | `(tactic| em_walk) => `(tactic| repeat em_step)
  | `(tactic| em_walk using $[$hs],*) => `(tactic| repeat (first $[| exact $hs]* | em_step))

end SafeC

import SafeC.Models.Conv
/-! C15: shape facts about the libc models: count vs. cells stored, never more than the limit -/
namespace SafeC.Conv.Libc

/-- count and cells stored: either (size_t)-1, or count ≤ |cells| ≤ count + 1 (the terminator is stored but not counted) -/
theorem mbsrtowcs_shape (loc : Locale) (mem : List Nat) (n : Nat) (ps : List Nat) :
    (mbsrtowcs loc false mem n ps).ret = SIZE_MAX ∨
      ((mbsrtowcs loc false mem n ps).ret ≤ (mbsrtowcs loc false mem n ps).out.length ∧
       (mbsrtowcs loc false mem n ps).out.length ≤ (mbsrtowcs loc false mem n ps).ret + 1) := by
  simp only [mbsrtowcs, Bool.false_eq_true, ↓reduceIte]
  generalize mbsLoop loc (mem.length + 1) mem 0 n ps [] Status.full = t
  obtain ⟨out, off, st, status⟩ := t
  simp only
  split
  · left; rfl
  · split
    · rename_i h
      right
      cases out with
      | nil => simp at h
      | cons x xs => simp
    · right; simp

theorem wcsrtombs_shape (loc : Locale) (mem : List Nat) (n : Nat) :
    (wcsrtombs loc false mem n).ret = SIZE_MAX ∨
      ((wcsrtombs loc false mem n).ret ≤ (wcsrtombs loc false mem n).out.length ∧
       (wcsrtombs loc false mem n).out.length ≤ (wcsrtombs loc false mem n).ret + 1) := by
  simp only [wcsrtombs, Bool.false_eq_true, ↓reduceIte]
  generalize gconvWc loc (List.take (strnlen mem n + 1) mem) n = g
  split
  · left; rfl
  · split
    · rename_i h
      right
      cases ho : g.out with
      | nil => simp [ho] at h
      | cons x xs => simp
    · right; simp

/-! ### libc never stores more than its limit -/

theorem mbMain_out_le (loc : Locale) (fuel : Nat) (inp : List Nat) (space : Nat) :
    (mbMain loc fuel inp space).out.length ≤ space := by
  induction fuel generalizing inp space with
  | zero => simp [mbMain]
  | succ fuel ih =>
    unfold mbMain
    split
    · simp
    · split
      · simp
      · split
        next ch n hb =>
          simp only [List.length_cons]
          have := ih (inp.drop n) (space - 1)
          omega
        · simp
        · simp

theorem gconvMb_out_le (loc : Locale) (pend inp : List Nat) (space : Nat) :
    (gconvMb loc pend inp space).out.length ≤ space := by
  unfold gconvMb
  split
  · exact mbMain_out_le _ _ _ _
  · split
    · simp
    · dsimp only
      split
      next ch n hb =>
        simp only [List.length_cons]
        have := mbMain_out_le loc (inp.length + 1) (inp.drop (n - pend.length)) (space - 1)
        omega
      · simp
      · simp

theorem mbsLoop_out_le (loc : Locale) (fuel : Nat) (rest : List Nat) (off len : Nat) (st out : List Nat) (status : Status) :
    (mbsLoop loc fuel rest off len st out status).1.length ≤ out.length + len := by
  induction fuel generalizing rest off len st out status with
  | zero => simp [mbsLoop]
  | succ fuel ih =>
    unfold mbsLoop
    split
    · simp
    · simp only
      have hg := gconvMb_out_le loc st (rest.take (strnlen rest len + 1)) len
      generalize gconvMb loc st (rest.take (strnlen rest len + 1)) len = g at hg
      split
      · have := ih (rest.drop g.used) (off + g.used) (len - g.out.length) g.st (out ++ g.out) g.status
        simp only [List.length_append] at this
        omega
      · simp only [List.length_append]; omega

theorem mbsrtowcs_out_le (loc : Locale) (mem : List Nat) (n : Nat) (ps : List Nat) :
    (mbsrtowcs loc false mem n ps).out.length ≤ n := by
  simp only [mbsrtowcs, Bool.false_eq_true, ↓reduceIte]
  have := mbsLoop_out_le loc (mem.length + 1) mem 0 n ps [] Status.full
  generalize mbsLoop loc (mem.length + 1) mem 0 n ps [] Status.full = t at this
  obtain ⟨out, off, st, status⟩ := t
  simp only [List.length_nil, Nat.zero_add] at this
  simp only
  split
  · exact this
  · split <;> exact this

theorem gconvWc_out_le (loc : Locale) (inp : List Nat) (space : Nat) : (gconvWc loc inp space).out.length ≤ space := by
  induction inp generalizing space with
  | nil => simp [gconvWc]
  | cons c cs ih =>
    unfold gconvWc
    split
    · simp
    · split
      · simp
      · split
        · simp
        next bs hb hfit =>
          simp only [List.length_append]
          have := ih (space - bs.length)
          omega

theorem wcsrtombs_out_le (loc : Locale) (mem : List Nat) (n : Nat) : (wcsrtombs loc false mem n).out.length ≤ n := by
  simp only [wcsrtombs, Bool.false_eq_true, ↓reduceIte]
  have := gconvWc_out_le loc (mem.take (strnlen mem n + 1)) n
  split
  · exact this
  · split <;> exact this

end SafeC.Conv.Libc

import SafeC.Proofs.PrintfRender
/-!
# C11: the `#` class of `safec_ntoa_format` (repaired code: `Fixes.hash`, `Fixes.minusPrec`) = `Spec.renderInt`

`ntoaPrep` is cut into its blocks (`ntoaPrep_stages`, by `rfl`), each block is characterised on buffers of the form
`digits ++ zeros`, and the result is rewritten into `Spec.renderInt` (`ntoaLong_renderInt_hash`).
-/
namespace SafeC.Printf
open SafeC.Printf.Spec

/-- making room for the prefix: `len--` (twice for base 16) -/
def stripBlock (fx : Fixes) (unpadded base : Nat) (buf2 : Str) : Str :=
  if fx.hash then
    let b1 := if unpadded < buf2.length then buf2.dropLast else buf2
    if b1.length != 0 && base == 16 && unpadded < b1.length then b1.dropLast else b1
  else
    let b1 := buf2.dropLast
    if b1.length != 0 && base == 16 then b1.dropLast else b1

/-- appending `x`/`X`/`b` and `0` -/
def prefixBlock (base : Nat) (upper : Bool) (b : Str) : Str :=
  push (if base == 16 && !upper && b.length < NTOA then b ++ ['x']
        else if base == 16 && upper && b.length < NTOA then b ++ ['X']
        else if base == 2 && b.length < NTOA then b ++ ['b']
        else b) '0'

/-- the `// handle hash` block of `safec_ntoa_format` (text of `ntoaPrep`) -/
def prepHashed (fx : Fixes) (unpadded base prec width1 : Nat) (fl : Flags) (buf2 : Str) : Str :=
  if fl.hash then
    prefixBlock base fl.upper
      (if !fl.precision && buf2.length != 0 && (buf2.length == prec || buf2.length == width1) then stripBlock fx unpadded base buf2 else buf2)
  else buf2

/-- the sign block -/
def prepSigned (negative : Bool) (fl : Flags) (buf3 : Str) : Str :=
    if buf3.length < NTOA then
      if negative then buf3 ++ ['-'] else if fl.plus then buf3 ++ ['+'] else if fl.space then buf3 ++ [' '] else buf3
    else buf3

theorem ntoaPrep_stages (fx : Fixes) (buf : Str) (negative : Bool) (base prec width : Nat) (fl : Flags) :
    ntoaPrep fx buf negative base prec width fl =
      (let width1 := width1Of negative width fl
       let buf1 := if !fl.left || fx.minusPrec then padZeros prec buf else buf
       let fl' := if fx.hash && base == 8 && buf1.length > buf.length then { fl with hash := false } else fl
       let buf2 := if !fl'.left && fl'.zeropad then padZeros width1 buf1 else buf1
       (prepSigned negative fl' (prepHashed fx buf.length base prec width1 fl' buf2), width1, fl')) := rfl

theorem padZeros_app (n a : Nat) (E : Str) (h : n ≤ NTOA) : padZeros n (E ++ List.replicate a '0') = E ++ List.replicate (a + (n - (E.length + a))) '0' := by
  rw [padZeros_small n _ h, List.append_assoc, List.replicate_append_replicate]; simp

theorem dropLast_app (a : Nat) (E : Str) : (E ++ List.replicate (a + 1) '0').dropLast = E ++ List.replicate a '0' := by
  rw [List.replicate_succ', ← List.append_assoc, List.dropLast_concat]

theorem dropLast_app' (a : Nat) (E : Str) (h : 0 < a) : (E ++ List.replicate a '0').dropLast = E ++ List.replicate (a - 1) '0' := by
  obtain ⟨b, rfl⟩ : ∃ b, a = b + 1 := ⟨a - 1, by omega⟩
  rw [dropLast_app]; rfl

theorem stripBlock_eq (fx : Fixes) (hx : fx.hash = true) (E : Str) (a base : Nat) (hb : base = 8 ∨ base = 16) :
    stripBlock fx E.length base (E ++ List.replicate a '0') = E ++ List.replicate (if base = 16 then a - 2 else a - 1) '0' := by
  unfold stripBlock
  simp only [hx, if_true, List.length_append, List.length_replicate]
  rcases hb with rfl | rfl
  · simp only [show ((8:Nat) == 16) = false from rfl, show ((8:Nat) = 16) = False from by simp, Bool.and_false, Bool.false_and,
      Bool.false_eq_true, if_false]
    by_cases ha : 0 < a
    · rw [if_pos (by omega), dropLast_app' a E ha]
    · have h0 : a = 0 := by omega
      subst h0; simp
  · simp only [show ((16:Nat) == 16) = true from rfl, Bool.and_true, if_true]
    by_cases ha : 0 < a
    · have h1 : E.length < E.length + a := by omega
      simp only [h1, if_true, dropLast_app' a E ha, List.length_append, List.length_replicate]
      by_cases ha2 : 1 < a
      · have h2 : (E.length + (a - 1) != 0 && decide (E.length < E.length + (a - 1))) = true := by
          simp only [Bool.and_eq_true, bne_iff_ne, ne_eq, decide_eq_true_eq]; omega
        simp only [h2, if_true, dropLast_app' (a - 1) E (by omega)]
        rw [show a - 1 - 1 = a - 2 by omega]
      · have h1 : a = 1 := by omega
        subst h1
        have h2 : (E.length + (1 - 1) != 0 && decide (E.length < E.length + (1 - 1))) = false := by
          simp
        simp only [h2, Bool.false_eq_true, if_false]
    · have h0 : a = 0 := by omega
      subst h0; simp

theorem prefixBlock_eq (base : Nat) (upper : Bool) (b : Str) (hb : base = 8 ∨ base = 16)
    (hlen : b.length + (if base = 16 then 2 else 1) ≤ NTOA) :
    prefixBlock base upper b = b ++ (if base = 16 then [if upper then 'X' else 'x', '0'] else ['0']) := by
  have hN : NTOA = 32 := rfl
  unfold prefixBlock push
  rcases hb with rfl | rfl
  · simp only [show ((8:Nat) == 16) = false from rfl, show ((8:Nat) == 2) = false from rfl, show ((8:Nat) = 16) = False from by simp,
      Bool.false_and, Bool.false_eq_true, if_false] at hlen ⊢
    rw [if_pos (by omega)]
  · simp only [show ((16:Nat) == 16) = true from rfl, Bool.true_and, if_true] at hlen ⊢
    have h1 : decide (b.length < NTOA) = true := by simp; omega
    cases upper
    · simp only [Bool.not_false, Bool.true_and, h1, if_true, List.length_append, List.length_singleton, Bool.false_eq_true, if_false]
      rw [if_pos (by omega)]; simp
    · simp only [Bool.not_true, Bool.false_and, Bool.false_eq_true, if_false, h1, Bool.true_and, if_true, List.length_append, List.length_singleton]
      rw [if_pos (by omega)]; simp

/-- zeros left after the `#` block has made room for the prefix (repaired code) -/
def stripCount (E : Str) (a base prec width1 : Nat) (fl : Flags) : Nat :=
  if !fl.precision && (E.length + a != 0) && (E.length + a == prec || E.length + a == width1)
  then (if base = 16 then a - 2 else a - 1) else a

/-- the `#` block of the repaired code on a buffer `digits ++ zeros` -/
theorem prepHashed_eq (fx : Fixes) (hx : fx.hash = true) (E : Str) (a base prec width1 : Nat) (fl : Flags)
    (hb : base = 8 ∨ base = 16) (hh : fl.hash = true)
    (hlen : E.length + stripCount E a base prec width1 fl + (if base = 16 then 2 else 1) ≤ NTOA) :
    prepHashed fx E.length base prec width1 fl (E ++ List.replicate a '0') =
      E ++ List.replicate (stripCount E a base prec width1 fl) '0' ++
        (if base = 16 then [if fl.upper then 'X' else 'x', '0'] else ['0']) := by
  unfold prepHashed stripCount at *
  simp only [hh, if_true, List.length_append, List.length_replicate]
  by_cases hc : (!fl.precision && (E.length + a != 0) && (E.length + a == prec || E.length + a == width1)) = true
  · simp only [hc, if_true] at hlen ⊢
    rw [stripBlock_eq fx hx E a base hb, prefixBlock_eq base fl.upper _ hb (by simpa using hlen)]
  · simp only [hc, Bool.false_eq_true, if_false] at hlen ⊢
    rw [prefixBlock_eq base fl.upper _ hb (by simpa using hlen)]

theorem width1Of_unsigned (width : Nat) (fl : Flags) (hpl : fl.plus = false) (hsp : fl.space = false) : width1Of false width fl = width := by
  unfold width1Of; simp [hpl, hsp]

theorem prepSigned_unsigned (fl : Flags) (hpl : fl.plus = false) (hsp : fl.space = false) (b : Str) : prepSigned false fl b = b := by
  unfold prepSigned; simp [hpl, hsp]

/-- `safec_ntoa_format` (repaired) with the `#` flag, bases 8 and 16: digits, zeros, prefix -/
theorem ntoaPrep_hash (fx : Fixes) (hm : fx.minusPrec = true) (hx : fx.hash = true) (E : Str) (base prec width : Nat) (fl : Flags)
    (hb : base = 8 ∨ base = 16) (hh : fl.hash = true) (hpl : fl.plus = false) (hsp : fl.space = false)
    (hpz : fl.precision = true → fl.zeropad = false) (hp0 : fl.precision = false → prec = 0)
    (hE : E.length ≤ 22) (hE0 : fl.precision = false → E ≠ [])
    (hp : prec ≤ 30) (hw : fl.left = false → fl.zeropad = true → width ≤ 32) :
    ntoaPrep fx E false base prec width fl =
      if base = 8 ∧ E.length < prec then (E ++ List.replicate (prec - E.length) '0', width, { fl with hash := false })
      else (E ++ List.replicate ((prec - E.length) +
                (if !fl.left && fl.zeropad then width - (E.length + (if base = 16 then 2 else 1)) else 0)) '0' ++
              (if base = 16 then [if fl.upper then 'X' else 'x', '0'] else ['0']), width, fl) := by
  have hN : NTOA = 32 := rfl
  rw [ntoaPrep_stages]
  simp only [width1Of_unsigned width fl hpl hsp, hm, hx, Bool.or_true, if_true, Bool.true_and]
  rw [padZeros_small prec E (by omega)]
  simp only [List.length_append, List.length_replicate]
  by_cases hc : base = 8 ∧ E.length < prec
  · -- %#.Po with P > digits: the precision zeros are the leading 0
    obtain ⟨rfl, hlt⟩ := hc
    have hpr : fl.precision = true := by
      cases h : fl.precision
      · have := hp0 h; omega
      · rfl
    have hz := hpz hpr
    have h1 : (((8:Nat) == 8) && decide (E.length + (prec - E.length) > E.length)) = true := by simp; omega
    simp only [h1, if_true, hz, Bool.and_false, Bool.false_eq_true, if_false, hlt, and_self]
    unfold prepSigned prepHashed
    simp [hpl, hsp]
  · rw [if_neg hc]
    have h1 : ((base == 8) && decide (E.length + (prec - E.length) > E.length)) = false := by
      rcases hb with rfl | rfl
      · simp at hc ⊢; omega
      · rfl
    simp only [h1, Bool.false_eq_true, if_false]
    rw [prepSigned_unsigned _ hpl hsp]
    by_cases hzp : (!fl.left && fl.zeropad) = true
    · have hl : fl.left = false := by cases h : fl.left <;> simp [h] at hzp ⊢
      have hz : fl.zeropad = true := by cases h : fl.zeropad <;> simp [h] at hzp ⊢
      have hpr : fl.precision = false := by
        cases h : fl.precision
        · rfl
        · rw [hpz h] at hz; cases hz
      have hp00 := hp0 hpr; subst hp00
      have hwd := hw hl hz
      have hne : E.length ≠ 0 := fun h => hE0 hpr (List.length_eq_zero_iff.1 h)
      simp only [hzp, if_true, Nat.zero_sub, Nat.zero_add]
      rw [padZeros_app width 0 E (by omega)]
      have hsc : stripCount E (0 + (width - (E.length + 0))) base 0 width fl = width - (E.length + (if base = 16 then 2 else 1)) := by
        unfold stripCount
        simp only [hpr, Bool.not_false, Bool.true_and]
        rcases hb with rfl | rfl <;> simp <;> split <;> omega
      rw [prepHashed_eq fx hx E _ base 0 width fl hb hh (by rw [hsc]; rcases hb with rfl | rfl <;> simp <;> omega), hsc]
    · simp only [hzp, Bool.false_eq_true, if_false, Nat.add_zero]
      have hsc : stripCount E (prec - E.length) base prec width fl = prec - E.length := by
        unfold stripCount
        cases hpr : fl.precision
        · have := hp0 hpr; subst this
          simp only [Nat.zero_sub]; split <;> (try split) <;> rfl
        · simp
      rw [prepHashed_eq fx hx E _ base prec width fl hb hh (by rw [hsc]; rcases hb with rfl | rfl <;> simp <;> omega), hsc]

/-- the list identity behind `ntoaLong_renderInt_hash`: reversed buffer + paddings = prefix, fill, digit block, padded -/
theorem outRevText_hash (E P : Str) (k width : Nat) (fl : Flags) (hk : fl.left = false → fl.zeropad = true → k = 0) :
    outRevText (E ++ List.replicate (k + (if !fl.left && fl.zeropad then width - (E.length + P.length) else 0)) '0' ++ P) width fl =
      (let D := List.replicate k '0' ++ E.reverse
       let fill : Str := if fl.zeropad = true ∧ ¬ fl.left = true then List.replicate (width - (P.length + D.length)) '0' else []
       if fl.left then (P.reverse ++ fill ++ D) ++ List.replicate (width - (P.reverse ++ fill ++ D).length) ' '
       else List.replicate (width - (P.reverse ++ fill ++ D).length) ' ' ++ (P.reverse ++ fill ++ D)) := by
  unfold outRevText
  cases hl : fl.left <;> cases hz : fl.zeropad <;>
    simp only [List.reverse_append, List.reverse_replicate, List.length_append, List.length_replicate, List.length_reverse,
      Bool.not_false, Bool.not_true, Bool.and_false, Bool.false_and, Bool.and_true, Bool.true_and, Bool.false_eq_true, if_false, if_true,
      Nat.add_zero, false_and, and_false, and_true, true_and, List.append_nil, List.nil_append, not_false_eq_true, not_true_eq_false, and_self, List.append_assoc]
  · rw [rep_congr ' ' (show width - (E.length + (k + P.length)) = width - (P.length + (k + E.length)) by omega)]
  · have hk0 := hk hl hz; subst hk0
    simp only [Nat.zero_add, Nat.add_zero, List.replicate_zero, List.nil_append]
    rw [rep_congr ' ' (show width - (P.length + (width - (P.length + E.length) + E.length)) = 0 by omega)]
    rw [rep_congr '0' (show width - (E.length + P.length) = width - (P.length + E.length) by omega)]
    rfl
  · rw [rep_congr ' ' (show width - (E.length + (k + P.length)) = width - (P.length + (k + E.length)) by omega)]
  · rw [rep_congr ' ' (show width - (E.length + (k + P.length)) = width - (P.length + (k + E.length)) by omega)]

/-- `digitSym` maps only the digit 0 to the character `0` -/
theorem digitSym_zero : ∀ (up : Bool) (d : Nat), d < 16 → digitSym up d = '0' → d = 0 := by decide

/-- the standard's digit string of a number has no leading `0` -/
theorem numStr_head (b : Nat) (up : Bool) (v : Nat) (hb : 2 ≤ b) (hb16 : b ≤ 16) : (numStr b up v).head? ≠ some '0' := by
  unfold numStr
  have h1 := digits_head_ne_zero b hb v
  have h2 := digits_lt b hb v
  cases hd : digits b v with
  | nil => simp
  | cons a l =>
    rw [hd] at h1 h2
    simp only [List.map_cons, List.head?_cons, ne_eq, Option.some.injEq] at h1 ⊢
    intro h
    exact h1 (digitSym_zero up a (by have := h2 a (by simp); omega) h)

/-- `Spec.renderInt` of an unsigned conversion with `#`, in the parts the proof uses -/
theorem renderInt_hash (d : Dir) (mag base : Nat) (upper : Bool) (hh : d.hash = true) :
    renderInt d false false mag base upper =
      let D := precDigits base upper d.prec mag
      let ds := if base = 8 ∧ D.head? ≠ some '0' then '0' :: D else D
      let pre : Str := if base = 16 ∧ mag ≠ 0 then ['0', if upper then 'X' else 'x'] else []
      let fill : Str := if d.zero ∧ ¬ d.minus ∧ d.prec = Option.none then List.replicate (d.width - (pre.length + ds.length)) '0' else []
      padField d (pre ++ fill ++ ds) := by
  unfold renderInt precDigits numStr
  simp [hh]

/-- for the value 0 the `#` flag changes nothing, except for `%#.Po` -/
theorem renderInt_hash_zero (d : Dir) (base : Nat) (upper : Bool) (h : base = 16 ∨ (base = 8 ∧ d.prec = Option.none)) :
    renderInt d false false 0 base upper = renderInt { d with hash := false } false false 0 base upper := by
  unfold renderInt
  rw [digits_zero]
  rcases h with rfl | ⟨rfl, hp⟩
  · simp [padField]
  · simp [hp, padField]

/-- **the `#` class = `Spec.renderInt`.**  Repaired code (`Fixes.hash`, `Fixes.minusPrec`), conversions `o x X` with `#`,
    every 64-bit value, precision at most 30 and zero-padded width at most 31 (the 32-byte buffer must also hold `0x`):
    the characters handed to the sink are the standard's. -/
theorem ntoaLong_renderInt_hash (fx : Fixes) (hm : fx.minusPrec = true) (hx : fx.hash = true) (sk : Sink) (m : Nat) (v : Nat)
    (base prec width : Nat) (fl : Flags) (s : St)
    (hb : base = 8 ∨ base = 16) (hv : v < 2 ^ 64) (hh : fl.hash = true) (hpl : fl.plus = false) (hsp : fl.space = false)
    (hpz : fl.precision = true → fl.zeropad = false) (hp0 : fl.precision = false → prec = 0)
    (hp : prec ≤ 30) (hw : fl.left = false → fl.zeropad = true → width ≤ 31) (hwmax : width ≤ 2147483614) :
    ntoaLong fx sk m v false base prec width fl s =
      emitAll sk m (renderInt (dirOf fl width prec) false false v base fl.upper) s := by
  have hb8 : 8 ≤ base := by omega
  have hb16 : base ≤ 16 := by omega
  by_cases hz : (v == 0 && !(fx.hash && base == 8 && fl.precision)) = true
  · -- the engine drops `#` for the value 0
    have h1 : ntoaLong fx sk m v false base prec width fl s = ntoaLong fx sk m v false base prec width { fl with hash := false } s := by
      unfold ntoaLong; simp only [hz, if_true]
    rw [h1, ntoaLong_renderInt_nohash fx hm sk m v false base prec width { fl with hash := false } s false (by omega) hv rfl hpz hp0
      (fun _ => ⟨rfl, hpl, hsp⟩) (by omega) hw hwmax]
    have hv0 : v = 0 := by simp at hz; exact hz.1
    subst hv0
    have hd : dirOf { fl with hash := false } width prec = { dirOf fl width prec with hash := false } := rfl
    rw [hd, ← renderInt_hash_zero]
    rcases hb with rfl | rfl
    · right; refine ⟨rfl, ?_⟩
      simp only [hx, Bool.true_and, show ((8:Nat) == 8) = true from rfl] at hz
      cases hpr : fl.precision
      · simp [dirOf, hpr]
      · simp [hpr] at hz
    · left; rfl
  · have hcase : v ≠ 0 ∨ (base = 8 ∧ fl.precision = true) := by
      by_cases h0 : v = 0
      · right; subst h0; simp [hx] at hz; exact hz
      · left; exact h0
    unfold ntoaLong
    simp only [hz, Bool.false_eq_true, if_false]
    change ntoaFormat fx sk m (digitBuf base fl.upper fl.precision v) false base prec width fl s = _
    have hE := digitBuf_length_le base fl.upper fl.precision v hb8 hb16 hv
    have hblk := digitBuf_block base fl.upper fl.precision prec v hb8 hb16 hv hp0
    have hEq := digitBuf_eq base fl.upper fl.precision v hb8 hb16 hv
    have hE0 : fl.precision = false → digitBuf base fl.upper fl.precision v ≠ [] := by
      intro hpr
      have hv0 : v ≠ 0 := by rcases hcase with h | ⟨_, h⟩; exact h; rw [hpr] at h; cases h
      rw [hEq, if_neg hv0]
      have := numStr_length_pos base fl.upper v (by omega) hv0
      intro h; rw [List.reverse_eq_nil_iff] at h; rw [h] at this; simp at this
    have hhead : (digitBuf base fl.upper fl.precision v).reverse.head? ≠ some '0' := by
      rw [hEq]
      by_cases hv0 : v = 0
      · have hpr : fl.precision = true := by rcases hcase with h | ⟨_, h⟩; exact absurd hv0 h; exact h
        simp [hv0, hpr]
      · rw [if_neg hv0, List.reverse_reverse]; exact numStr_head base fl.upper v (by omega) hb16
    have hv16 : base = 16 → v ≠ 0 := by
      intro h16; rcases hcase with h | ⟨h, _⟩; exact h; omega
    clear hEq
    generalize digitBuf base fl.upper fl.precision v = E at hE hblk hE0 hhead
    unfold ntoaFormat
    rw [ntoaPrep_hash fx hm hx E base prec width fl hb hh hpl hsp hpz hp0 hE hE0 hp (fun a b => by have := hw a b; omega)]
    rw [renderInt_hash _ _ _ _ (by simp [dirOf, hh])]
    simp only [dirOf, ← hblk]
    have hk : fl.left = false → fl.zeropad = true → prec - E.length = 0 := by
      intro _ hz
      have : fl.precision = false := by cases h : fl.precision; rfl; rw [hpz h] at hz; cases hz
      rw [hp0 this]; omega
    have hcond : (fl.zeropad = true ∧ ¬fl.left = true ∧ (if fl.precision = true then some prec else none) = none) ↔ (fl.zeropad = true ∧ ¬ fl.left = true) := by
      constructor
      · intro h; exact ⟨h.1, h.2.1⟩
      · intro h; refine ⟨h.1, h.2, ?_⟩
        cases hp : fl.precision
        · simp
        · rw [hpz hp] at h; exact absurd h.1 (by simp)
    by_cases hc : base = 8 ∧ E.length < prec
    · obtain ⟨rfl, hlt⟩ := hc
      have hpr : fl.precision = true := by
        cases h : fl.precision
        · have := hp0 h; omega
        · rfl
      have hzp := hpz hpr
      simp only [hlt, and_self, if_true]
      rw [if_neg (by omega), outRev_eq]
      congr 1
      have hhd : (List.replicate (prec - E.length) '0' ++ E.reverse).head? = some '0' := by
        obtain ⟨k, hk⟩ : ∃ k, prec - E.length = k + 1 := ⟨prec - E.length - 1, by omega⟩
        rw [hk, List.replicate_succ]; rfl
      simp only [hhd, ne_eq, not_true_eq_false, and_false, if_false, show ((8:Nat) = 16) = False from by simp, false_and,
        List.nil_append, hzp, Bool.false_eq_true]
      unfold outRevText padField
      cases hl : fl.left <;> simp [hzp, List.reverse_append] <;> omega
    · rw [if_neg hc]
      simp only []
      rw [if_neg (by omega), outRev_eq]
      congr 1
      rcases hb with rfl | rfl
      · -- octal, '#' adds the leading 0
        have hk0 : prec - E.length = 0 := by
          have : ¬ E.length < prec := fun h => hc ⟨rfl, h⟩
          omega
        simp only [hk0, List.replicate_zero, List.nil_append, hhead, ne_eq, not_false_eq_true, and_self, if_true,
          show ((8:Nat) = 16) = False from by simp, false_and, if_false, hcond, List.length_nil, Nat.zero_add, List.length_cons, List.length_reverse]
        have := outRevText_hash E ['0'] 0 width fl (fun _ _ => rfl)
        simp only [Nat.zero_add, List.length_singleton, List.replicate_zero, List.nil_append, List.reverse_cons, List.reverse_nil, List.length_reverse] at this
        rw [this]
        unfold padField
        simp only [Nat.add_comm 1 E.length]
        generalize hF : (if fl.zeropad = true ∧ ¬fl.left = true then List.replicate (width - (E.length + 1)) '0' else []) = F
        have hF' : ['0'] ++ F = F ++ ['0'] := by
          subst hF; split
          · rw [List.singleton_append, ← List.replicate_succ, List.replicate_succ']
          · rfl
        have e : F ++ '0' :: E.reverse = (['0'] ++ F) ++ E.reverse := by rw [hF']; simp
        rw [e]
      · -- hex
        have hv0 := hv16 rfl
        simp only [show ((16:Nat) = 8) = False from by simp, false_and, if_false, if_true, hv0, ne_eq, not_false_eq_true, and_self, hcond]
        have := outRevText_hash E [if fl.upper = true then 'X' else 'x', '0'] (prec - E.length) width fl hk
        simp only [List.length_cons, List.length_nil, Nat.zero_add, List.reverse_cons, List.reverse_nil, List.nil_append, List.singleton_append] at this
        rw [this]
        unfold padField
        rfl
end SafeC.Printf

import SafeC.Proofs.AccD
import SafeC.Models.Query
import SafeC.Models.Query2
/-!
# Read footprints of the string queries (`Models/Query.lean`), through `AccD`

One lemma per loop, by induction on its counter.  The footprint `R` is a parameter: a lemma asks for
the cells its loop can reach (`Str d p n`: the string at `p` cut at `n` cells) to lie in `R`.
`Str d dest (dmax+1)` — ONE cell more than declared — is what a loop written `while (*dest && dmax)`
needs: it evaluates `*dest` before it looks at the counter.
-/
namespace SafeC
open Gen

/-- the walking tactic: `accd_walk [t] using h₁, h₂` opens binds / conditionals / matches, proves the address
side condition of every `load` with `t`, and closes the leaves with `pure` or one of the `hᵢ` -/
macro "accd_struct" : tactic => `(tactic| first
  | with_reducible exact AccD.pure _ trivial
  | with_reducible exact AccD.ret _ trivial
  | with_reducible refine AccD.handlerSBind _ ?_
  | with_reducible refine AccD.handlerMBind _ ?_
  | assumption
  | contradiction
  | split
  | dsimp only)

syntax "accd_walk" "[" tacticSeq "]" (" using " term,+)? : tactic
macro_rules
  | `(tactic| accd_walk [$t]) => `(tactic| repeat (first
      | with_reducible refine AccD.loadBind (by $t) ?_
      | accd_struct))
  | `(tactic| accd_walk [$t] using $[$hs],*) => `(tactic| repeat (first
      $[| exact $hs]*
      | with_reducible refine AccD.loadBind (by $t) ?_
      | accd_struct))

variable {d : Nat → Nat} {R : Nat → Prop}

/-! ## entry checks: no memory access; they let the call proceed only with non-null pointers -/

theorem AccD_qFailS {P : Option Nat → Prop} (c : Nat) (h : ∀ e, P (some e)) : AccD d R (qFailS c) P := by
  unfold qFailS; exact AccD.handlerSBind _ (AccD.pure _ (h _))
theorem AccD_qFailM {P : Option Nat → Prop} (c : Nat) (h : ∀ e, P (some e)) : AccD d R (qFailM c) P := by
  unfold qFailM; exact AccD.handlerMBind _ (AccD.pure _ (h _))

theorem AccD_qChkS (dest dmax : Nat) (b : Bos) (src : Option Nat) :
    AccD d R (qChkS dest dmax b src) (fun r => r = none → dest ≠ 0 ∧ src ≠ some 0 ∧ dmax ≠ 0) := by
  unfold qChkS
  have fail : ∀ c, AccD d R (qFailS c) (fun r => r = none → dest ≠ 0 ∧ src ≠ some 0 ∧ dmax ≠ 0) :=
    fun c => AccD_qFailS c (fun e h => by cases h)
  split
  · exact fail _
  · rename_i hd
    split
    · exact fail _
    · rename_i hs
      split
      · exact fail _
      · rename_i hm
        have ok : AccD d R (Pure.pure none : Prog (Option Nat)) (fun r => r = none → dest ≠ 0 ∧ src ≠ some 0 ∧ dmax ≠ 0) :=
          AccD.pure _ (fun _ => ⟨hd, hs, hm⟩)
        split
        · split
          · exact fail _
          · exact ok
        · split
          · split <;> exact fail _
          · exact ok

theorem AccD_qChkSlenS (slen : Nat) (b : Bos) : AccD d R (qChkSlenS slen b) (fun _ => True) := by
  unfold qChkSlenS
  have fail : ∀ c, AccD d R (qFailS c) (fun _ => True) := fun c => AccD_qFailS c (fun _ => trivial)
  repeat (first | exact fail _ | exact AccD.pure _ trivial | split)

/-! ## strcmp_s / strcasecmp_s / strcmpfld_s -/

theorem AccD_strcmpTail {dest src : Nat} (hd : R dest) (hs : R src) :
    AccD d R (strcmpTail dest src) (fun _ => True) := by
  unfold strcmpTail; accd_walk [assumption]

theorem AccD_strcasecmpTail {dest src : Nat} (hd : R dest) (hs : R src) :
    AccD d R (strcasecmpTail dest src) (fun _ => True) := by
  unfold strcasecmpTail; accd_walk [assumption]

theorem AccD_strcmpLoop (sb : Bos) (dmax dest src slen : Nat)
    (hd : ∀ a, Str d dest (dmax+1) a → R a) (hs : ∀ a, Str d src (dmax+1) a → R a) :
    AccD d R (strcmpLoop sb dmax dest src slen) (fun _ => True) := by
  induction dmax generalizing dest src slen with
  | zero =>
    have hd0 : R dest := hd _ (Str.head (by omega))
    have hs0 : R src := hs _ (Str.head (by omega))
    have tail := AccD_strcmpTail (d := d) hd0 hs0
    unfold strcmpLoop
    accd_walk [assumption] using tail
  | succ n ih =>
    have hd0 : R dest := hd _ (Str.head (by omega))
    have hs0 : R src := hs _ (Str.head (by omega))
    have tail := AccD_strcmpTail (d := d) hd0 hs0
    unfold strcmpLoop
    accd_walk [assumption] using tail,
      ih _ _ _ (fun a h => hd a (Str.succ (by assumption) h)) (fun a h => hs a (Str.succ (by assumption) h))

theorem AccD_strcasecmpLoop (dmax dest src : Nat)
    (hd : ∀ a, Str d dest (dmax+1) a → R a) (hs : ∀ a, Str d src (dmax+1) a → R a) :
    AccD d R (strcasecmpLoop dmax dest src) (fun _ => True) := by
  induction dmax generalizing dest src with
  | zero =>
    have hd0 : R dest := hd _ (Str.head (by omega))
    have hs0 : R src := hs _ (Str.head (by omega))
    have tail := AccD_strcasecmpTail (d := d) hd0 hs0
    unfold strcasecmpLoop
    accd_walk [assumption] using tail
  | succ n ih =>
    have hd0 : R dest := hd _ (Str.head (by omega))
    have hs0 : R src := hs _ (Str.head (by omega))
    have tail := AccD_strcasecmpTail (d := d) hd0 hs0
    unfold strcasecmpLoop
    accd_walk [assumption] using tail,
      ih _ _ (fun a h => hd a (Str.succ (by omega) h)) (fun a h => hs a (Str.succ (by omega) h))

/-- `strcmpfld_s` compares FIELDS: NULs do not stop it, a difference does.  Cell `i` of either operand is read
only when the `i` cells before it are pairwise equal; `i = dmax` (one behind the field) included. -/
theorem AccD_strcmpfldLoop (dmax dest src : Nat)
    (h : ∀ i, i ≤ dmax → (∀ j, j < i → d (dest+j) = d (src+j)) → R (dest+i) ∧ R (src+i)) :
    AccD d R (strcmpfldLoop dmax dest src) (fun _ => True) := by
  induction dmax generalizing dest src with
  | zero =>
    obtain ⟨hd0, hs0⟩ : R dest ∧ R src := h 0 (by omega) (fun j hj => by omega)
    unfold strcmpfldLoop
    exact AccD_strcmpTail hd0 hs0
  | succ n ih =>
    obtain ⟨hd0, hs0⟩ : R dest ∧ R src := h 0 (by omega) (fun j hj => by omega)
    have tail := AccD_strcmpTail (d := d) hd0 hs0
    unfold strcmpfldLoop
    accd_walk [assumption] using tail
    rename_i heq
    refine ih _ _ (fun i hi hpre => ?_)
    have := h (i+1) (by omega) (fun j hj => by
      by_cases e : j = 0
      · subst e; simpa using heq
      · have := hpre (j-1) (by omega)
        rwa [show dest + 1 + (j-1) = dest + j by omega, show src + 1 + (j-1) = src + j by omega] at this)
    rwa [show dest + (i+1) = dest + 1 + i by omega, show src + (i+1) = src + 1 + i by omega] at this

/-! ## libc scans -/

theorem AccD_strlenP (fuel s n : Nat) (h : ∀ a, Str d s fuel a → R a) :
    AccD d R (strlenP fuel s n) (fun _ => True) := by
  induction fuel generalizing s n with
  | zero => unfold strlenP; accd_walk [assumption]
  | succ k ih =>
    have h0 : R s := h _ (Str.head (by omega))
    unfold strlenP
    accd_walk [assumption] using ih _ _ (fun a h' => h a (Str.succ (by omega) h'))

theorem AccD_strchrP (c fuel s : Nat) (h : ∀ a, Str d s fuel a → R a) :
    AccD d R (strchrP c fuel s) (fun _ => True) := by
  induction fuel generalizing s with
  | zero => unfold strchrP; accd_walk [assumption]
  | succ k ih =>
    have h0 : R s := h _ (Str.head (by omega))
    unfold strchrP
    accd_walk [assumption] using ih _ (fun a h' => h a (Str.succ (by omega) h'))

/-! ## strstr_s / strcasestr_s -/

theorem AccD_strstrInner (dest src dlen i len : Nat) (hlen : 0 < len)
    (hpd : ∀ j, j < i → ¬ d (dest+j) = 0) (hps : ∀ j, j < i → ¬ d (src+j) = 0)
    (hd : ∀ a, Str d dest (i + dlen) a → R a) (hs : ∀ a, Str d src (i + len + 1) a → R a) :
    AccD d R (strstrInner dest src dlen i len) (fun _ => True) := by
  induction dlen generalizing i len with
  | zero =>
    have hs0 : R (src+i) := hs _ (Str.at_ i (by omega) hps)
    unfold strstrInner
    accd_walk [assumption]
  | succ n ih =>
    have hs0 : R (src+i) := hs _ (Str.at_ i (by omega) hps)
    have hd0 : R (dest+i) := hd _ (Str.at_ i (by omega) hpd)
    unfold strstrInner
    refine AccD.loadBind hs0 ?_
    split
    · exact AccD.pure _ trivial
    · rename_i hsi
      have hs1 : R (src+i+1) := hs _ (Str.at' (i+1) (by omega) (by omega) (pre_succ hps hsi))
      accd_walk [assumption]
      rename_i heq hor
      refine ih (i+1) (len-1) (by omega) (pre_succ hpd (by omega)) (pre_succ hps hsi)
        (fun a h => hd a (h.mono (by omega))) (fun a h => hs a (h.mono (by omega)))

theorem AccD_strstrOuter (src slen dmax dest : Nat) (hlen : 0 < slen)
    (hd : ∀ a, Str d dest (dmax+1) a → R a) (hs : ∀ a, Str d src (slen + 1) a → R a) :
    AccD d R (strstrOuter src slen dmax dest) (fun _ => True) := by
  induction dmax generalizing dest with
  | zero =>
    have hd0 : R dest := hd _ (Str.head (by omega))
    unfold strstrOuter
    accd_walk [assumption]
  | succ n ih =>
    have hd0 : R dest := hd _ (Str.head (by omega))
    unfold strstrOuter
    refine AccD.loadBind hd0 ?_
    split
    · exact AccD.pure _ trivial
    · rename_i hne
      dsimp only
      refine AccD.bind (AccD_strstrInner dest src (n+1) 0 slen hlen (fun j hj => by omega) (fun j hj => by omega)
        (fun a h => hd a (h.mono (by omega))) (fun a h => hs a (h.mono (by omega)))) (fun b _ => ?_)
      split
      · exact AccD.pure _ trivial
      · exact ih _ (fun a h => hd a (Str.succ hne h))

theorem AccD_strcasestrInner (dest src dlen i len : Nat) (hlen : 0 < len)
    (hpd : ∀ j, j < i → ¬ d (dest+j) = 0) (hps : ∀ j, j < i + 1 → ¬ d (src+j) = 0)
    (hd : ∀ a, Str d dest (i + dlen + 1) a → R a) (hs : ∀ a, Str d src (i + len + 1) a → R a) :
    AccD d R (strcasestrInner dest src dlen i len) (fun _ => True) := by
  induction dlen generalizing i len with
  | zero =>
    have hd0 : R (dest+i) := hd _ (Str.at_ i (by omega) hpd)
    unfold strcasestrInner
    accd_walk [assumption]
  | succ n ih =>
    have hd0 : R (dest+i) := hd _ (Str.at_ i (by omega) hpd)
    have hs0 : R (src+i) := hs _ (Str.at_ i (by omega) (fun j hj => hps j (by omega)))
    have hs1 : R (src+i+1) := hs _ (Str.at' (i+1) (by omega) (by omega) hps)
    unfold strcasestrInner
    accd_walk [assumption]
    rename_i hdi _ hor
    refine ih (i+1) (len-1) (by omega) (pre_succ hpd hdi)
      (pre_succ hps (by rw [show src + (i+1) = src + i + 1 by omega]; omega))
      (fun a h => hd a (h.mono (by omega))) (fun a h => hs a (h.mono (by omega)))

theorem AccD_strcasestrOuter (src slen dmax dest : Nat) (hlen : 0 < slen) (hs0 : ¬ d src = 0)
    (hd : ∀ a, Str d dest (dmax+1) a → R a) (hs : ∀ a, Str d src (slen + 1) a → R a) :
    AccD d R (strcasestrOuter src slen dmax dest) (fun _ => True) := by
  induction dmax generalizing dest with
  | zero =>
    have hd0 : R dest := hd _ (Str.head (by omega))
    unfold strcasestrOuter
    accd_walk [assumption]
  | succ n ih =>
    have hd0 : R dest := hd _ (Str.head (by omega))
    unfold strcasestrOuter
    refine AccD.loadBind hd0 ?_
    split
    · exact AccD.pure _ trivial
    · rename_i hne
      dsimp only
      refine AccD.bind (AccD_strcasestrInner dest src (n+1) 0 slen hlen (fun j hj => by omega)
        (fun j hj => by have : j = 0 := by omega
                        subst this; simpa using hs0)
        (fun a h => hd a (h.mono (by omega))) (fun a h => hs a (h.mono (by omega)))) (fun b _ => ?_)
      split
      · exact AccD.pure _ trivial
      · exact ih _ (fun a h => hd a (Str.succ hne h))

/-! ## strpbrk_s / strspn_s / strcspn_s / strprefix_s -/

theorem AccD_strpbrkInner (dest len ps : Nat) (hd0 : R dest) (hs : ∀ a, Str d ps (len+1) a → R a) :
    AccD d R (strpbrkInner dest len ps) (fun _ => True) := by
  induction len generalizing ps with
  | zero =>
    have hs0 : R ps := hs _ (Str.head (by omega))
    unfold strpbrkInner
    accd_walk [assumption]
  | succ n ih =>
    have hs0 : R ps := hs _ (Str.head (by omega))
    unfold strpbrkInner
    accd_walk [assumption] using ih _ (fun a h => hs a (Str.succ (by omega) h))

theorem AccD_strpbrkOuter (src slen dmax dest : Nat)
    (hd : ∀ a, Str d dest (dmax+1) a → R a) (hs : ∀ a, Str d src (slen+1) a → R a) :
    AccD d R (strpbrkOuter src slen dmax dest) (fun _ => True) := by
  induction dmax generalizing dest with
  | zero =>
    have hd0 : R dest := hd _ (Str.head (by omega))
    unfold strpbrkOuter
    accd_walk [assumption]
  | succ n ih =>
    have hd0 : R dest := hd _ (Str.head (by omega))
    unfold strpbrkOuter
    refine AccD.loadBind hd0 ?_
    split
    · exact AccD.pure _ trivial
    · rename_i hne
      dsimp only
      refine AccD.bind (AccD_strpbrkInner dest slen src hd0 hs) (fun b _ => ?_)
      accd_walk [assumption] using ih _ (fun a h => hd a (Str.succ hne h))

theorem AccD_spanInner (dest smax scan2 : Nat) (hd0 : R dest) (hs : ∀ a, Str d scan2 (smax+1) a → R a) :
    AccD d R (spanInner dest smax scan2) (fun _ => True) := by
  induction smax generalizing scan2 with
  | zero =>
    have hs0 : R scan2 := hs _ (Str.head (by omega))
    unfold spanInner
    accd_walk [assumption]
  | succ n ih =>
    have hs0 : R scan2 := hs _ (Str.head (by omega))
    unfold spanInner
    accd_walk [assumption] using ih _ (fun a h => hs a (Str.succ (by omega) h))

theorem AccD_spanOuter (want : Bool) (src slen dmax dest count : Nat)
    (hd : ∀ a, Str d dest (dmax+1) a → R a) (hs : ∀ a, Str d src (slen+1) a → R a) :
    AccD d R (spanOuter want src slen dmax dest count) (fun _ => True) := by
  induction dmax generalizing dest count with
  | zero =>
    have hd0 : R dest := hd _ (Str.head (by omega))
    unfold spanOuter
    accd_walk [assumption]
  | succ n ih =>
    have hd0 : R dest := hd _ (Str.head (by omega))
    unfold spanOuter
    refine AccD.loadBind hd0 ?_
    split
    · exact AccD.pure _ trivial
    · rename_i hne
      dsimp only
      refine AccD.bind (AccD_spanInner dest slen src hd0 hs) (fun b _ => ?_)
      accd_walk [assumption] using ih _ _ (fun a h => hd a (Str.succ hne h))

/-- `strprefix_s` tests `*src` (a string read to its terminator at most) BEFORE the counter, and `*dest` only
after it: dest is read inside its `dmax` cells, and inside its string -/
theorem AccD_strprefixLoop (dmax dest src : Nat)
    (hd : ∀ a, Str d dest dmax a → R a) (hs : ∀ a, Str d src (dmax+1) a → R a) :
    AccD d R (strprefixLoop dmax dest src) (fun _ => True) := by
  induction dmax generalizing dest src with
  | zero =>
    have hs0 : R src := hs _ (Str.head (by omega))
    unfold strprefixLoop
    accd_walk [assumption]
  | succ n ih =>
    have hs0 : R src := hs _ (Str.head (by omega))
    have hd0 : R dest := hd _ (Str.head (by omega))
    unfold strprefixLoop
    accd_walk [assumption] using
      ih _ _ (fun a h => hd a (Str.succ (by omega) h)) (fun a h => hs a (Str.succ (by omega) h))

/-! ## Query2: strfirstchar_s … strispassword_s -/

theorem AccD_firstcharLoop (c dmax dest : Nat) (hd : ∀ a, Str d dest (dmax+1) a → R a) :
    AccD d R (firstcharLoop c dmax dest) (fun _ => True) := by
  induction dmax generalizing dest with
  | zero =>
    have hd0 : R dest := hd _ (Str.head (by omega))
    unfold firstcharLoop
    accd_walk [assumption]
  | succ n ih =>
    have hd0 : R dest := hd _ (Str.head (by omega))
    unfold firstcharLoop
    accd_walk [assumption] using ih _ (fun a h => hd a (Str.succ (by omega) h))

theorem AccD_lastcharLoop (c dmax dest last : Nat) (hd : ∀ a, Str d dest (dmax+1) a → R a) :
    AccD d R (lastcharLoop c dmax dest last) (fun _ => True) := by
  induction dmax generalizing dest last with
  | zero =>
    have hd0 : R dest := hd _ (Str.head (by omega))
    unfold lastcharLoop
    accd_walk [assumption]
  | succ n ih =>
    have hd0 : R dest := hd _ (Str.head (by omega))
    unfold lastcharLoop
    accd_walk [assumption] using ih _ _ (fun a h => hd a (Str.succ (by omega) h))

theorem AccD_pairLoop (same first : Bool) (rp dmax dest src : Nat) (last : Option Nat)
    (hd : ∀ a, Str d dest (dmax+1) a → R a) (hs : ∀ a, Str d src (dmax+1) a → R a) :
    AccD d R (pairLoop same first rp dmax dest src last) (fun _ => True) := by
  induction dmax generalizing dest src last with
  | zero =>
    have hd0 : R dest := hd _ (Str.head (by omega))
    have hs0 : R src := hs _ (Str.head (by omega))
    unfold pairLoop
    accd_walk [assumption]
  | succ n ih =>
    have hd0 : R dest := hd _ (Str.head (by omega))
    have hs0 : R src := hs _ (Str.head (by omega))
    unfold pairLoop
    accd_walk [assumption] using
      ih _ _ _ (fun a h => hd a (Str.succ (by omega) h)) (fun a h => hs a (Str.succ (by omega) h))

theorem AccD_classLoop (ok : Nat → Bool) (dmax dest : Nat) (hd : ∀ a, Str d dest (dmax+1) a → R a) :
    AccD d R (classLoop ok dmax dest) (fun _ => True) := by
  induction dmax generalizing dest with
  | zero =>
    have hd0 : R dest := hd _ (Str.head (by omega))
    unfold classLoop
    accd_walk [assumption]
  | succ n ih =>
    have hd0 : R dest := hd _ (Str.head (by omega))
    unfold classLoop
    accd_walk [assumption] using ih _ (fun a h => hd a (Str.succ (by omega) h))

/-- the loop that never looks at `dmax`: bounded by the terminator alone -/
theorem AccD_classLoopNoBound (ok : Nat → Bool) (fuel dest : Nat) (hd : ∀ a, Str d dest fuel a → R a) :
    AccD d R (classLoopNoBound ok fuel dest) (fun _ => True) := by
  induction fuel generalizing dest with
  | zero => unfold classLoopNoBound; accd_walk [assumption]
  | succ n ih =>
    have hd0 : R dest := hd _ (Str.head (by omega))
    unfold classLoopNoBound
    accd_walk [assumption] using ih _ (fun a h => hd a (Str.succ (by omega) h))

theorem AccD_pwLoop (dmax dest : Nat) (n : PwCnt) (hd : ∀ a, Str d dest (dmax+1) a → R a) :
    AccD d R (pwLoop dmax dest n) (fun _ => True) := by
  induction dmax generalizing dest n with
  | zero =>
    have hd0 : R dest := hd _ (Str.head (by omega))
    unfold pwLoop
    accd_walk [assumption]
  | succ k ih =>
    have hd0 : R dest := hd _ (Str.head (by omega))
    unfold pwLoop
    accd_walk [assumption] using ih _ _ (fun a h => hd a (Str.succ (by omega) h))

/-! ## wide: wcscmp_s / wcsncmp_s / wcsstr_s -/

/-- the loop hands back the pointers `*resultp = *dest - *src` dereferences: they are in the footprint too -/
theorem AccD_wcscmpLoop (useCount : Bool) (dmax smax count dest src : Nat)
    (hd : ∀ a, Str d dest (dmax+1) a → R a) (hs : ∀ a, Str d src (smax+1) a → R a) :
    AccD d R (wcscmpLoop useCount dmax smax count dest src) (fun r => R r.1 ∧ R r.2) := by
  induction dmax generalizing smax count dest src with
  | zero =>
    have hd0 : R dest := hd _ (Str.head (by omega))
    have hs0 : R src := hs _ (Str.head (by omega))
    unfold wcscmpLoop
    accd_walk [assumption] using AccD.pure _ ⟨hd0, hs0⟩
  | succ n ih =>
    have hd0 : R dest := hd _ (Str.head (by omega))
    have hs0 : R src := hs _ (Str.head (by omega))
    unfold wcscmpLoop
    accd_walk [assumption] using AccD.pure _ ⟨hd0, hs0⟩,
      ih _ _ _ _ (fun a h => hd a (Str.succ (by omega) h)) (fun a h => hs a (Str.succ' (by omega) (by omega) h))

theorem AccD_wcsstrInner (dest src dlen i len : Nat) (hlen : 0 < len)
    (hpd : ∀ j, j < i → ¬ d (dest+j) = 0) (hps : ∀ j, j < i → ¬ d (src+j) = 0)
    (hd : ∀ a, Str d dest (i + dlen) a → R a) (hs : ∀ a, Str d src (i + len + 1) a → R a) :
    AccD d R (wcsstrInner dest src dlen i len) (fun _ => True) := by
  induction dlen generalizing i len with
  | zero =>
    have hs0 : R (src+i) := hs _ (Str.at_ i (by omega) hps)
    unfold wcsstrInner
    accd_walk [assumption]
  | succ n ih =>
    have hs0 : R (src+i) := hs _ (Str.at_ i (by omega) hps)
    have hd0 : R (dest+i) := hd _ (Str.at_ i (by omega) hpd)
    unfold wcsstrInner
    refine AccD.loadBind hs0 ?_
    split
    · exact AccD.pure _ trivial
    · rename_i hsi
      have hs1 : R (src+(i+1)) := hs _ (Str.at_ (i+1) (by omega) (pre_succ hps hsi))
      accd_walk [assumption]
      rename_i heq hor
      refine ih (i+1) (len-1) (by omega) (pre_succ hpd (by omega)) (pre_succ hps hsi)
        (fun a h => hd a (h.mono (by omega))) (fun a h => hs a (h.mono (by omega)))

theorem AccD_wcsstrOuter (src slen dmax dest : Nat) (hlen : 0 < slen)
    (hd : ∀ a, Str d dest (dmax+1) a → R a) (hs : ∀ a, Str d src (slen + 1) a → R a) :
    AccD d R (wcsstrOuter src slen dmax dest) (fun _ => True) := by
  induction dmax generalizing dest with
  | zero =>
    have hd0 : R dest := hd _ (Str.head (by omega))
    unfold wcsstrOuter
    accd_walk [assumption]
  | succ n ih =>
    have hd0 : R dest := hd _ (Str.head (by omega))
    unfold wcsstrOuter
    refine AccD.loadBind hd0 ?_
    split
    · exact AccD.pure _ trivial
    · rename_i hne
      refine AccD.bind (AccD_wcsstrInner dest src (n+1) 0 slen hlen (fun j hj => by omega) (fun j hj => by omega)
        (fun a h => hd a (h.mono (by omega))) (fun a h => hs a (h.mono (by omega)))) (fun b _ => ?_)
      split
      · exact AccD.pure _ trivial
      · exact ih _ (fun a h => hd a (Str.succ hne h))

end SafeC

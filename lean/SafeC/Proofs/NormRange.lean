import SafeC.Proofs.NormMain
/-! C17 — no table index out of bounds in the reorder / compose passes -/
namespace SafeC.Norm
open SafeC.Gen

attribute [local irreducible] cell UniCanon.main UniCanon.planes UniCanon.rows UniCombin.main UniCombin.planes UniCombin.rows
  UniCanon.tbl1 UniCanon.tbl2 UniCanon.tbl3 UniCanon.tbl4

theorem bind_ne_oob {s : Step} (f : List Nat → List Nat) (h : s ≠ .oob) :
    (match s with | .ok out d => Step.ok (f out) d | r => r) ≠ .oob := by
  cases s <;> simp_all

/-- the reorder pass indexes no table out of bounds when its cells are code points, or when the range check is in place -/
theorem reorderLoop_no_oob (fx : Fixes) : ∀ (src : List Nat) (seq : List CC) (dmax : Nat),
    (fx.rangeChk = true ∨ ∀ c ∈ src, c ≤ UniCompos.unicodeMax) → reorderLoop fx src seq dmax ≠ .oob := by
  intro src
  induction src with
  | nil => intro seq dmax _; unfold reorderLoop; simp
  | cons cp rest ih =>
    intro seq dmax h
    have hrest : fx.rangeChk = true ∨ ∀ c ∈ rest, c ≤ UniCompos.unicodeMax := by
      rcases h with h | h
      · exact Or.inl h
      · exact Or.inr (fun c hc => h c (by simp [hc]))
    unfold reorderLoop
    by_cases hchk : (fx.rangeChk && decide (UniCompos.unicodeMax < cp)) = true
    · simp [hchk]
    · simp only [hchk, Bool.false_eq_true, ↓reduceIte]
      have hle : cp ≤ UniCompos.unicodeMax := by
        rcases h with h | h
        · simp only [h, Bool.true_and, decide_eq_true_eq] at hchk; omega
        · exact h cp (by simp)
      rw [kcc_spec hle]
      dsimp only
      repeat' split
      all_goals first
        | exact ih _ _ hrest
        | exact bind_ne_oob _ (ih _ _ hrest)
        | (intro hh; cases hh)

/-- the compose pass likewise -/
theorem composeLoop_no_oob (fx : Fixes) (contig : Bool) : ∀ (src : List Nat) (cpS : Nat) (valid : Bool) (pre : Nat) (seq : List Nat) (dmax : Nat),
    (fx.rangeChk = true ∨ ∀ c ∈ src, c ≤ UniCompos.unicodeMax) → composeLoop fx contig src cpS valid pre seq dmax ≠ .oob := by
  intro src
  induction src with
  | nil => intro _ _ _ _ _ _; unfold composeLoop; simp
  | cons cp rest ih =>
    intro cpS valid pre seq dmax h
    have hrest : fx.rangeChk = true ∨ ∀ c ∈ rest, c ≤ UniCompos.unicodeMax := by
      rcases h with h | h
      · exact Or.inl h
      · exact Or.inr (fun c hc => h c (by simp [hc]))
    unfold composeLoop
    by_cases hchk : (fx.rangeChk && decide (UniCompos.unicodeMax < cp)) = true
    · simp [hchk]
    · simp only [hchk, Bool.false_eq_true, ↓reduceIte]
      have hle : cp ≤ UniCompos.unicodeMax := by
        rcases h with h | h
        · simp only [h, Bool.true_and, decide_eq_true_eq] at hchk; omega
        · exact h cp (by simp)
      rw [kcc_spec hle]
      dsimp only
      repeat' split
      all_goals first
        | exact ih _ _ _ _ _ hrest
        | exact bind_ne_oob _ (ih _ _ _ _ _ hrest)
        | (intro hh; cases hh)

end SafeC.Norm

namespace SafeC.Norm
open SafeC.Gen

attribute [local irreducible] cell UniCanon.main UniCanon.planes UniCanon.rows UniCombin.main UniCombin.planes UniCombin.rows
  UniCanon.tbl1 UniCanon.tbl2 UniCanon.tbl3 UniCanon.tbl4

theorem bind_ne_overrun {s : Step} (f : List Nat → List Nat) (h : s ≠ .overrun) :
    (match s with | .ok out d => Step.ok (f out) d | r => r) ≠ .overrun := by
  cases s <;> simp_all

/-- with more room than cells still to be written the compose pass never wraps its unsigned `dmax` -/
theorem composeLoop_no_overrun (fx : Fixes) (contig : Bool) : ∀ (src : List Nat) (cpS : Nat) (valid : Bool) (pre : Nat) (seq : List Nat) (dmax : Nat),
    (src.length = 0 ∨ (if valid then 1 else 0) + seq.length + src.length < dmax) → composeLoop fx contig src cpS valid pre seq dmax ≠ .overrun := by
  intro src
  induction src with
  | nil => intro _ _ _ _ _ _; unfold composeLoop; simp
  | cons cp rest ih =>
    intro cpS valid pre seq dmax h
    unfold composeLoop
    simp only [List.length_cons] at h
    split
    · simp
    · split
      · simp
      · dsimp only
        cases rest with
        | nil =>
          cases valid <;> simp only [Bool.not_true, Bool.not_false, Bool.false_eq_true, ↓reduceIte, Nat.zero_add,
            List.isEmpty_nil, List.length_nil] at h ⊢
          all_goals repeat' split
          all_goals first
            | (apply ih; left; rfl)
            | (apply bind_ne_overrun; apply ih; left; rfl)
            | (intro hh; cases hh; done)
            | (intro hh; clear hh; (try simp only [List.length_append, List.length_cons, List.length_nil] at *); omega)
        | cons r rs =>
          cases valid <;> simp only [Bool.not_true, Bool.not_false, Bool.false_eq_true, ↓reduceIte, Nat.zero_add,
            List.isEmpty_cons, List.length_cons] at h ⊢
          all_goals repeat' split
          all_goals first
            | (apply ih; right; (try simp only [List.length_append, List.length_cons, List.length_nil, ↓reduceIte, Bool.false_eq_true]); omega)
            | (apply bind_ne_overrun; apply ih; right; (try simp only [List.length_append, List.length_cons, List.length_nil, ↓reduceIte, Bool.false_eq_true]); omega)
            | (intro hh; cases hh; done)
            | (intro hh; clear hh; (try simp only [List.length_append, List.length_cons, List.length_nil] at *); omega)
            | (exfalso; simp only [and_true, or_false, ne_eq] at *; omega)

/-- a 0 cell is the terminator: the passes never look behind it -/
theorem decLoop_takeWhile (orig : Nat) : ∀ (src : List Nat) (dmax : Nat),
    decLoop orig src dmax = decLoop orig (src.takeWhile (· ≠ 0)) dmax := by
  intro src
  induction src with
  | nil => intro dmax; rfl
  | cons cp rest ih =>
    intro dmax
    by_cases h0 : cp = 0
    · subst h0
      simp only [ne_eq, not_true_eq_false, decide_false, Bool.false_eq_true, not_false_eq_true, List.takeWhile_cons_of_neg]
      unfold decLoop
      by_cases hd : dmax = 0
      · simp [hd]
      · have : ¬ UniCompos.unicodeMax < 0 := by omega
        simp [hd, this]
    · rw [List.takeWhile_cons]
      simp only [ne_eq, h0, not_false_eq_true, decide_true, ↓reduceIte]
      unfold decLoop
      simp only [ih]

theorem wcsnormS_cstr (fx : Fixes) (mode dmax : Nat) (src : List Nat) :
    wcsnormS fx mode dmax src = wcsnormS fx mode dmax (src.takeWhile (· ≠ 0)) := by
  unfold wcsnormS decomposeS
  rw [decLoop_takeWhile]

theorem takeWhile_ne_zero (src : List Nat) : ∀ c ∈ src.takeWhile (· ≠ 0), c ≠ 0 := by
  induction src with
  | nil => intro c hc; cases hc
  | cons a l ih =>
    intro c hc
    rw [List.takeWhile_cons] at hc
    by_cases ha : a = 0
    · simp [ha] at hc
    · simp only [ne_eq, ha, not_false_eq_true, decide_true, ↓reduceIte, List.mem_cons] at hc
      rcases hc with rfl | hc
      · exact ha
      · exact ih c hc

theorem decomposeS_compat (dmax : Nat) (s : List Nat) :
    (decomposeS dmax s true).ret ≠ 0 ∧ (decomposeS dmax s true).oob = false ∧ (decomposeS dmax s true).overrun = false := by
  unfold decomposeS
  have e1 : (ESZEROL : Int) ≠ 0 := by decide
  have e2 : (ESLEMIN : Int) ≠ 0 := by decide
  have e3 : (ESLEMAX : Int) ≠ 0 := by decide
  split
  · exact ⟨e1, rfl, rfl⟩
  · split
    · exact ⟨e2, rfl, rfl⟩
    · split
      · exact ⟨e3, rfl, rfl⟩
      · simp

/-- the reorder step as `wcsnorm_s` calls it: on cells that are code points, with two cells of slack -/
theorem reorderS_stage (fx : Fixes) (out : List Nat) (len : Nat) (hle : ∀ c ∈ out, c ≤ UniCompos.unicodeMax)
    (hlen : out.length = len) :
    reorderS fx (len + 2) out =
      if len + 2 > RSIZE_MAX_WSTR then ⟨ESLEMAX, 0, [], false, false⟩ else ⟨0, len, reorderPure kcc out, false, false⟩ := by
  unfold reorderS
  split
  · rfl
  · have hpure := reorderLoop_eq_pure fx kcc out (len + 2) (fun c hc => kcc_spec (hle c hc)) (fun _ => hle) (by omega)
    rw [hpure]
    simp only [Res.ofStep, Res.mk.injEq, and_self, and_true, true_and]
    omega

/-- **`wcsnorm_s`, every mode, every input (any 32-bit cells, any dmax), code as it is and repaired: no table is indexed
out of bounds and no unsigned size computation wraps** -/
theorem wcsnormS_no_oob (fx : Fixes) (mode dmax : Nat) (src : List Nat) :
    (wcsnormS fx mode dmax src).oob = false ∧ (wcsnormS fx mode dmax src).overrun = false := by
  rw [wcsnormS_cstr]
  generalize hs : src.takeWhile (· ≠ 0) = s
  have h0 : ∀ c ∈ s, c ≠ 0 := by rw [← hs]; exact takeWhile_ne_zero src
  unfold wcsnormS
  by_cases hcompat : (mode / 4 % 2 == 1) = true
  · -- not configured: rejected before anything else
    rw [hcompat]
    obtain ⟨c1, c2, c3⟩ := decomposeS_compat dmax s
    have : decide ((decomposeS dmax s true).ret ≠ 0) = true := by simp [c1]
    simp [this, c2, c3]
  · simp only [Bool.not_eq_true] at hcompat
    rw [hcompat]
    obtain ⟨d1, d2, d3⟩ := decomposeS_spec dmax s h0
    simp only [d1, d2, Bool.or_self, Bool.false_or]
    by_cases hret : (decomposeS dmax s false).ret = 0
    · obtain ⟨e1, e2, e3, e4, e5⟩ := d3 hret
      have hle := flatMap_decompose1_le (xs := s) (fun c hc => ⟨e5 c hc, h0 c hc⟩)
      have hst := reorderS_stage fx (decomposeS dmax s false).out (decomposeS dmax s false).len
        (by rw [e1]; exact fun c hc => (hle c hc).1) (by rw [e1, e2])
      simp only [hret, ne_eq, not_true_eq_false, decide_false, Bool.false_eq_true, ↓reduceIte]
      by_cases hm2 : mode = 2
      · simp [hm2, d1, d2]
      · simp only [hm2, ↓reduceIte, hst]
        by_cases hbig : (decomposeS dmax s false).len + 2 > RSIZE_MAX_WSTR
        · have e3' : ¬ ESLEMAX = 0 := by decide
          simp [hbig, e3']
        · simp only [hbig, ↓reduceIte, Bool.or_self, Bool.false_eq_true, ne_eq, not_true_eq_false, decide_false]
          by_cases hm0 : mode = 0 ∨ mode = 4
          · simp [hm0]
          · simp only [hm0, ↓reduceIte]
            -- the compose step reads cells that are code points
            have hmem : ∀ c ∈ reorderPure kcc (decomposeS dmax s false).out, c ≤ UniCompos.unicodeMax := by
              intro c hc
              rw [e1] at hc
              exact (hle c (reorderPure_mem.mp hc)).1
            have hno := composeLoop_no_oob fx (mode == 3) _ 0 false 0 [] dmax (Or.inr hmem)
            unfold composeS
            by_cases hdm : dmax > RSIZE_MAX_WSTR
            · have e3' : ¬ ESLEMAX = 0 := by decide
              simp [hdm, e3']
            · simp only [hdm, ↓reduceIte]
              cases hc : composeLoop fx (mode == 3) (reorderPure kcc (decomposeS dmax s false).out) 0 false 0 [] dmax with
              | ok o d => simp [Res.ofStep]
              | fail a b => simp [Res.ofStep]; split <;> simp
              | oob => exact absurd hc hno
              | overrun =>
                exact absurd hc (composeLoop_no_overrun fx (mode == 3) _ 0 false 0 [] dmax (by
                  right
                  simp only [Bool.false_eq_true, ↓reduceIte, List.length_nil, reorderPure_length]
                  rw [e1]; omega))
    · have : decide ((decomposeS dmax s false).ret ≠ 0) = true := by simp [hret]
      simp [this, d1, d2]

end SafeC.Norm

import SafeC.Proofs.SW
import SafeC.Models.Copy
/-!
# `SW` for the shared combinators and the loops of the copy family (`Common.lean`, `Models/Copy.lean`)

Every lemma: the stores of the combinator land in `[lo, hi)` provided the extent it is given lies inside; loop
lemmas carry the invariant `lo ≤ dest_i ∧ dest_i + remaining ≤ hi`.
-/
namespace SafeC
open Gen

/-- `strnlen_s` loop: no store; the count stays below `N` -/
theorem SW_strnlenLoop {lo hi : Nat} (N smax str count : Nat) (bos : Bos) (h : count + smax ≤ N) :
    SW lo hi (strnlenLoop smax str count bos) (fun r => r ≤ N) := by
  induction smax generalizing str count bos with
  | zero => unfold strnlenLoop; sw_walk
  | succ n ih => unfold strnlenLoop; sw_walk using ih

theorem SW_strnlen_s {lo hi : Nat} (str smax : Nat) (bos : Bos) :
    SW lo hi (strnlen_s str smax bos) (fun r => r ≤ smax ∧ (smax ≤ RSIZE_MAX_STR ∨ r = 0)) := by
  unfold strnlen_s; sw_walk using SW_strnlenLoop smax

theorem SW_wcsnlenLoop {lo hi : Nat} (N smax str count : Nat) (h : count + smax ≤ N) :
    SW lo hi (wcsnlenLoop smax str count) (fun r => r ≤ N) := by
  induction smax generalizing str count with
  | zero => unfold wcsnlenLoop; sw_walk
  | succ n ih => unfold wcsnlenLoop; sw_walk using ih

theorem SW_wcsnlen_s {lo hi : Nat} (str smax : Nat) :
    SW lo hi (wcsnlen_s str smax) (fun r => r ≤ smax) := by
  unfold wcsnlen_s; sw_walk using SW_wcsnlenLoop smax

/-- `handle_str_bos_overflow(msg, dest, n)` clears at most `max n 1` cells (none but `dest[0]` when `n` is above the
limit of `strnlen_s`) -/
theorem SW_handleStrBosOverflow {lo hi : Nat} (cfg : Cfg) (dest n : Nat)
    (h : lo ≤ dest ∧ (dest + n ≤ hi ∨ RSIZE_MAX_STR < n) ∧ dest < hi) :
    SW lo hi (handleStrBosOverflow cfg dest n) (fun _ => True) := by
  unfold handleStrBosOverflow; sw_walk using SW_strnlen_s dest n none

theorem SW_chkDmaxClearG {lo hi : Nat} {α : Type} (mk : Nat → α) (cfg : Cfg) (dest dmax : Nat) (b : Bos) (max : Nat)
    {k : Prog α} (h : lo ≤ dest ∧ dest + dmax ≤ hi) (hk : SW lo hi k (fun _ => True)) :
    SW lo hi (chkDmaxClearG mk cfg dest dmax b max k) (fun _ => True) := by
  unfold chkDmaxClearG; sw_walk using SW_handleStrBosOverflow

theorem SW_chkDmaxClear {lo hi : Nat} (cfg : Cfg) (dest dmax : Nat) (b : Bos) (max : Nat)
    {k : Prog Nat} (h : lo ≤ dest ∧ dest + dmax ≤ hi) (hk : SW lo hi k (fun _ => True)) :
    SW lo hi (chkDmaxClear cfg dest dmax b max k) (fun _ => True) :=
  SW_chkDmaxClearG id cfg dest dmax b max h hk

theorem SW_chkDmax {lo hi : Nat} (dmax : Nat) (b : Bos) (max : Nat) {k : Prog Nat} (hk : SW lo hi k (fun _ => True)) :
    SW lo hi (chkDmax dmax b max k) (fun _ => True) := by
  unfold chkDmax; sw_walk

theorem SW_chkDmaxW {lo hi : Nat} (dmax : Nat) (b : Bos) {k : Prog Nat} (hk : SW lo hi k (fun _ => True)) :
    SW lo hi (chkDmaxW dmax b k) (fun _ => True) := by
  unfold chkDmaxW; sw_walk

theorem SW_chkDmaxClearW {lo hi : Nat} (cfg : Cfg) (dest dmax : Nat) (b : Bos) {k : Prog Nat}
    (h : lo ≤ dest ∧ dest + dmax ≤ hi ∧ 0 < dmax) (hk : SW lo hi k (fun _ => True)) :
    SW lo hi (chkDmaxClearW cfg dest dmax b k) (fun _ => True) := by
  unfold chkDmaxClearW
  have hw : SIZEOF_WCHAR_T = 4 := rfl
  rw [hw]
  sw_walk

theorem SW_chkSlenMaxClear {lo hi : Nat} (cfg : Cfg) (dest dmax slen max : Nat) {k : Prog Nat}
    (h : lo ≤ dest ∧ dest + dmax ≤ hi ∧ 0 < dmax) (hk : SW lo hi k (fun _ => True)) :
    SW lo hi (chkSlenMaxClear cfg dest dmax slen max k) (fun _ => True) := by
  unfold chkSlenMaxClear; sw_walk using SW_strnlen_s dest dmax none

/-- the bumper copy loop: `dest_i + remaining ≤ hi` -/
theorem SW_copyLoop {lo hi : Nat} (cfg : Cfg) (onDest bounded : Bool) (B oD oM : Nat)
    (h0 : lo ≤ oD ∧ oD + oM ≤ hi ∧ oD < hi) (k d s slen : Nat) (h : lo ≤ d ∧ d + k ≤ hi) :
    SW lo hi (copyLoop cfg onDest bounded B oD oM k d s slen) (fun _ => True) := by
  induction k generalizing d s slen with
  | zero => unfold copyLoop; sw_walk
  | succ k ih => unfold copyLoop; sw_walk using ih

/-- `while (*dest != '\0')` of the concatenations: the position handed to the copy loop is inside -/
theorem SW_findEnd {lo hi : Nat} (cfg : Cfg) (chk : Bool) (B oD oM : Nat)
    (h0 : lo ≤ oD ∧ oD + oM ≤ hi ∧ oD < hi) (k d : Nat) (h : lo ≤ d ∧ d + k ≤ hi) :
    SW lo hi (findEnd cfg chk B oD oM k d)
      (fun r => match r with | .inl _ => True | .inr (d', m') => lo ≤ d' ∧ d' + m' ≤ hi) := by
  induction k generalizing d with
  | zero => unfold findEnd; sw_walk
  | succ k ih => unfold findEnd; sw_walk using ih

theorem SW_stpEok {lo hi : Nat} (cfg : Cfg) (isN : Bool) (dest dmax : Nat) (h : lo ≤ dest ∧ dest + dmax ≤ hi ∧ 0 < dmax) :
    SW lo hi (stpEok cfg isN dest dmax) (fun _ => True) := by
  unfold stpEok; sw_walk

theorem SW_stpLoop {lo hi : Nat} (cfg : Cfg) (isN onDest : Bool) (B oD oM : Nat) (srcbos : Bos)
    (h0 : lo ≤ oD ∧ oD + oM ≤ hi ∧ oD < hi) (k d s slen : Nat) (h : lo ≤ d ∧ d + k ≤ hi) :
    SW lo hi (stpLoop cfg isN onDest B oD oM srcbos k d s slen) (fun _ => True) := by
  induction k generalizing d s slen with
  | zero => unfold stpLoop; sw_walk
  | succ k ih => unfold stpLoop; sw_walk using ih, SW_stpEok

theorem SW_stpSameWalk {lo hi : Nat} (cfg : Cfg) (isN : Bool) (oD oM : Nat)
    (h0 : lo ≤ oD ∧ oD + oM ≤ hi ∧ oD < hi) (k d : Nat) (h : lo ≤ d ∧ d + k ≤ hi) :
    SW lo hi (stpSameWalk cfg isN oD oM k d) (fun _ => True) := by
  induction k generalizing d with
  | zero => unfold stpSameWalk; sw_walk
  | succ k ih => unfold stpSameWalk; sw_walk using ih, SW_stpEok

theorem SW_stpBody {lo hi : Nat} (cfg : Cfg) (isN : Bool) (dest dmax src slen : Nat) (srcbos : Bos)
    (h : lo ≤ dest ∧ dest + dmax ≤ hi ∧ 0 < dmax) :
    SW lo hi (stpBody cfg isN dest dmax src slen srcbos) (fun _ => True) := by
  unfold stpBody; sw_walk using SW_stpLoop, SW_stpSameWalk


/-! ## entry points -/

/-- a known dest object size and a known source object size together: the `slen > srcbos` exit clears
`strnlen_s(dest, destbos)` cells, so the store extent is `destbos`, not `dmax` (`slen-exceeds-srcbos-clears-destbos`) -/
def bosTight (dmax : Nat) : Bos → Bos → Prop
  | some db, some _ => db ≤ dmax
  | _, _ => True

theorem RSIZE_MAX_STR_lt : RSIZE_MAX_STR < 2 ^ 64 - 1 := by decide

theorem SW_strcpyG {lo hi : Nat} (max : Nat) (cfg : Cfg) (dest dmax src : Nat) (db : Bos)
    (h : dest = 0 ∨ (lo ≤ dest ∧ dest + dmax ≤ hi)) :
    SW lo hi (strcpyG max cfg dest dmax src db) (fun _ => True) := by
  unfold strcpyG; sw_walk using SW_chkDmaxClear, SW_copyLoop

theorem SW_strcatG {lo hi : Nat} (max : Nat) (cfg : Cfg) (dest dmax src : Nat) (db : Bos)
    (h : dest = 0 ∨ (lo ≤ dest ∧ dest + dmax ≤ hi)) :
    SW lo hi (strcatG max cfg dest dmax src db) (fun _ => True) := by
  unfold strcatG; sw_walk using SW_chkDmaxClear, SW_copyLoop, SW_findEnd

theorem SW_strncpyG {lo hi : Nat} (max : Nat) (cfg : Cfg) (dest dmax src slen : Nat) (db sb : Bos)
    (hb : bosTight dmax db sb) (h : dest = 0 ∨ (lo ≤ dest ∧ dest + dmax ≤ hi)) :
    SW lo hi (strncpyG max cfg dest dmax src slen db sb) (fun _ => True) := by
  have := RSIZE_MAX_STR_lt
  unfold strncpyG
  cases db <;> cases sb <;> simp only [bosTight, Option.getD] at hb ⊢ <;>
    sw_walk using SW_chkDmaxClear, SW_chkSlenMaxClear, SW_copyLoop, SW_handleStrBosOverflow

theorem SW_strncatG {lo hi : Nat} (max : Nat) (cfg : Cfg) (dest dmax src slen : Nat) (db sb : Bos)
    (hb : bosTight dmax db sb) (h : dest = 0 ∨ (lo ≤ dest ∧ dest + dmax ≤ hi)) :
    SW lo hi (strncatG max cfg dest dmax src slen db sb) (fun _ => True) := by
  have := RSIZE_MAX_STR_lt
  unfold strncatG
  cases db <;> cases sb <;> simp only [bosTight, Option.getD] at hb ⊢ <;>
    sw_walk using SW_chkDmaxClear, SW_chkSlenMaxClear, SW_copyLoop, SW_findEnd, SW_handleStrBosOverflow,
      SW_strnlen_s dest dmax none

theorem SW_wcscpy_s {lo hi : Nat} (cfg : Cfg) (dest dmax src : Nat) (db : Bos)
    (h : dest = 0 ∨ (lo ≤ dest ∧ dest + dmax ≤ hi)) :
    SW lo hi (wcscpy_s cfg dest dmax src db) (fun _ => True) := by
  unfold wcscpy_s; sw_walk using SW_chkDmaxClearW, SW_copyLoop

theorem SW_wcsncpy_s {lo hi : Nat} (cfg : Cfg) (dest dmax src slen : Nat) (db sb : Bos)
    (h : dest = 0 ∨ (lo ≤ dest ∧ dest + dmax ≤ hi)) :
    SW lo hi (wcsncpy_s cfg dest dmax src slen db sb) (fun _ => True) := by
  unfold wcsncpy_s; sw_walk using SW_chkDmaxClearW, SW_copyLoop, SW_wcsnlen_s dest dmax

theorem SW_wcscat_s {lo hi : Nat} (cfg : Cfg) (dest dmax src : Nat) (db : Bos)
    (h : dest = 0 ∨ (lo ≤ dest ∧ dest + dmax ≤ hi)) :
    SW lo hi (wcscat_s cfg dest dmax src db) (fun _ => True) := by
  unfold wcscat_s; sw_walk using SW_chkDmaxW, SW_copyLoop, SW_findEnd

theorem SW_wcsncat_s {lo hi : Nat} (cfg : Cfg) (dest dmax src slen : Nat) (db sb : Bos)
    (h : dest = 0 ∨ (lo ≤ dest ∧ dest + dmax ≤ hi)) :
    SW lo hi (wcsncat_s cfg dest dmax src slen db sb) (fun _ => True) := by
  unfold wcsncat_s; sw_walk using SW_chkDmaxW, SW_copyLoop, SW_findEnd, SW_wcsnlen_s dest dmax

theorem SW_stpcpy_s {lo hi : Nat} (cfg : Cfg) (dest dmax src : Nat) (db sb : Bos)
    (h : dest = 0 ∨ (lo ≤ dest ∧ dest + dmax ≤ hi)) :
    SW lo hi (stpcpy_s cfg dest dmax src db sb) (fun _ => True) := by
  unfold stpcpy_s; sw_walk using SW_chkDmaxClearG, SW_stpBody

theorem SW_stpncpy_s {lo hi : Nat} (cfg : Cfg) (dest dmax src slen : Nat) (db sb : Bos)
    (hb : bosTight dmax db sb) (h : dest = 0 ∨ (lo ≤ dest ∧ dest + dmax ≤ hi)) :
    SW lo hi (stpncpy_s cfg dest dmax src slen db sb) (fun _ => True) := by
  have := RSIZE_MAX_STR_lt
  unfold stpncpy_s
  cases db <;> cases sb <;> simp only [bosTight, Option.getD] at hb ⊢ <;>
    sw_walk using SW_chkDmaxClearG, SW_stpBody, SW_handleStrBosOverflow, SW_strnlen_s dest dmax none

end SafeC

import SafeC.Lemmas
/-!
# `EV p Q`: the events `p` emits and the value it returns satisfy `Q`, whatever the loads return

A Hoare-style judgement on `Prog` for C05 ("every violation is reported exactly once, with the code
returned").  Like `WW` it IGNORES the values read — the continuation of a `load` must satisfy the
judgement for every value — so a function proved `EV` keeps its handler discipline for every memory
content, every placement, mapped or not: if the call returns at all, the events it appended and the
value it returned are related by `Q`.

`EV.sound`: `exec p st = ok (r, st')  →  ∃ es, st'.events = st.events ++ es ∧ Q r es`.
No hypothesis on `st` at all (a faulting run returns nothing, so there is nothing to report about).
-/
namespace SafeC

inductive EV : {α : Type} → Prog α → (α → List Event → Prop) → Prop where
  | ret {α} {Q : α → List Event → Prop} (x : α) : Q x [] → EV (.ret x) Q
  | load {α} {Q : α → List Event → Prop} (a : Nat) (k : Nat → Prog α) : (∀ v, EV (k v) Q) → EV (.load a k) Q
  | store {α} {Q : α → List Event → Prop} (a v : Nat) (k : Prog α) : EV k Q → EV (.store a v k) Q
  | emit {α} {Q : α → List Event → Prop} (e : Event) (k : Prog α) : EV k (fun x es => Q x (e :: es)) → EV (.emit e k) Q

namespace EV

theorem pure {α} {Q : α → List Event → Prop} (x : α) (h : Q x []) : EV (Pure.pure x : Prog α) Q := .ret x h

theorem conseq {α} {p : Prog α} {Q Q' : α → List Event → Prop} (hp : EV p Q) (h : ∀ x es, Q x es → Q' x es) :
    EV p Q' := by
  induction hp generalizing Q' with
  | ret x hx => exact .ret x (h x [] hx)
  | load a k _ ih => exact .load a _ (fun v => ih v h)
  | store a v k _ ih => exact .store a v _ (ih h)
  | emit e k _ ih => exact .emit e _ (ih (fun x es hq => h x (e :: es) hq))

/-- sequential composition: the events of `p >>= f` are those of `p` followed by those of `f x` -/
theorem bind {α β} {p : Prog α} {f : α → Prog β} {Q : α → List Event → Prop} {R : β → List Event → Prop}
    (hp : EV p Q) (hf : ∀ x es, Q x es → EV (f x) (fun y es' => R y (es ++ es'))) : EV (p >>= f) R := by
  show EV (p.bind f) R
  induction hp generalizing R with
  | ret x hx =>
    have := hf x [] hx
    simp only [List.nil_append] at this
    exact this
  | load a k _ ih => exact .load a _ (fun v => ih v hf)
  | store a v k _ ih => exact .store a v _ (ih hf)
  | emit e k _ ih =>
    refine .emit e _ (ih (fun x es hq => ?_))
    have := hf x (e :: es) hq
    simpa using this

/-- a program that emits nothing: `Silent p Q` is `EV p (fun x es => es = [] ∧ Q x)` -/
abbrev Silent {α} (p : Prog α) (Q : α → Prop) : Prop := EV p (fun x es => es = [] ∧ Q x)

/-- composition after a silent prefix -/
theorem bindSilent {α β} {p : Prog α} {f : α → Prog β} {Q : α → Prop} {R : β → List Event → Prop}
    (hp : Silent p Q) (hf : ∀ x, Q x → EV (f x) R) : EV (p >>= f) R :=
  bind hp (fun x es ⟨he, hq⟩ => by subst he; simpa using hf x hq)

theorem loadP (a : Nat) : Silent (SafeC.load a) (fun _ => True) := .load a _ (fun v => .ret v ⟨rfl, trivial⟩)
theorem storeP (a v : Nat) : Silent (SafeC.store a v) (fun _ => True) := .store a v _ (.ret () ⟨rfl, trivial⟩)
theorem emitP (e : Event) : EV (SafeC.emit e) (fun _ es => es = [e]) := .emit e _ (.ret () rfl)
theorem handlerS (c : Nat) : EV (SafeC.handlerS c) (fun _ es => es = [.handler .str c]) := emitP _
theorem handlerM (c : Nat) : EV (SafeC.handlerM c) (fun _ es => es = [.handler .mem c]) := emitP _

theorem failS (c : Nat) : EV (SafeC.failS c) (fun r es => r = c ∧ es = [.handler .str c]) := by
  unfold SafeC.failS
  exact bind (handlerS c) (fun _ es he => by subst he; exact pure _ ⟨rfl, by simp⟩)

theorem failM (c : Nat) : EV (SafeC.failM c) (fun r es => r = c ∧ es = [.handler .mem c]) := by
  unfold SafeC.failM
  exact bind (handlerM c) (fun _ es he => by subst he; exact pure _ ⟨rfl, by simp⟩)

theorem memsetP (v n d : Nat) : Silent (SafeC.memsetP v n d) (fun _ => True) := by
  induction n generalizing d with
  | zero => exact pure _ ⟨rfl, trivial⟩
  | succ n ih =>
    unfold SafeC.memsetP
    exact bindSilent (storeP d v) (fun _ _ => ih (d+1))

theorem zeroLoop (n d : Nat) : Silent (SafeC.zeroLoop n d) (fun _ => True) := by
  rw [zeroLoop_eq_memsetP]; exact memsetP 0 n d

theorem nullSlack (d n : Nat) : Silent (SafeC.nullSlack d n) (fun _ => True) := by
  unfold SafeC.nullSlack
  split
  · exact memsetP 0 n d
  · exact zeroLoop n d

theorem handleError (cfg : Cfg) (d len code : Nat) :
    EV (SafeC.handleError cfg d len code) (fun _ es => es = [.handler .str code]) := by
  unfold SafeC.handleError
  dsimp only
  split
  · exact bindSilent (memsetP 0 len d) (fun _ _ => handlerS code)
  · exact bindSilent (storeP d 0) (fun _ _ => handlerS code)

theorem handleMemError (d len code : Nat) :
    EV (SafeC.handleMemError d len code) (fun _ es => es = [.handler .mem code]) := by
  unfold SafeC.handleMemError
  exact bindSilent (memsetP 0 len d) (fun _ _ => handlerM code)

/-- **Soundness**, for every state: mapped or not, declared or not. -/
theorem sound {α} {p : Prog α} {Q : α → List Event → Prop} (h : EV p Q) (st : St) {r : α} {st' : St}
    (he : exec p st = .ok (r, st')) : ∃ es, st'.events = st.events ++ es ∧ Q r es := by
  induction h generalizing st with
  | ret x hx =>
    simp only [exec, Except.ok.injEq, Prod.mk.injEq] at he
    obtain ⟨rfl, rfl⟩ := he
    exact ⟨[], by simp, hx⟩
  | load a k _ ih =>
    simp only [exec] at he
    split at he
    · obtain ⟨es, h1, h2⟩ := ih _ _ he
      refine ⟨es, ?_, h2⟩
      rw [h1]; simp only [St.noteRd]; split <;> rfl
    · cases he
  | store a v k _ ih =>
    simp only [exec] at he
    split at he
    · obtain ⟨es, h1, h2⟩ := ih _ he
      refine ⟨es, ?_, h2⟩
      rw [h1]; simp only [St.upd_events, St.noteWr]; split <;> rfl
    · cases he
  | emit e k _ ih =>
    simp only [exec] at he
    obtain ⟨es, h1, h2⟩ := ih _ he
    exact ⟨e :: es, by rw [h1]; simp, h2⟩

end EV


/-! ## `Quiet p`: `p` emits nothing (whatever it reads) — with a small tactic that walks a model -/

/-- no event, on any memory -/
def Quiet {α} (p : Prog α) : Prop := EV.Silent p (fun _ => True)

namespace Quiet
theorem pure {α} (x : α) : Quiet (Pure.pure x : Prog α) := EV.pure _ ⟨rfl, trivial⟩
theorem ret {α} (x : α) : Quiet (Prog.ret x : Prog α) := EV.ret _ ⟨rfl, trivial⟩
theorem bind {α β} {p : Prog α} {f : α → Prog β} (hp : Quiet p) (hf : ∀ x, Quiet (f x)) : Quiet (p >>= f) :=
  EV.bindSilent hp (fun x _ => hf x)
theorem loadP (a : Nat) : Quiet (SafeC.load a) := EV.loadP a
theorem storeP (a v : Nat) : Quiet (SafeC.store a v) := EV.storeP a v
theorem memsetP (v n d : Nat) : Quiet (SafeC.memsetP v n d) := EV.memsetP v n d
theorem zeroLoop (n d : Nat) : Quiet (SafeC.zeroLoop n d) := EV.zeroLoop n d
theorem nullSlack (d n : Nat) : Quiet (SafeC.nullSlack d n) := EV.nullSlack d n
/-- use inside any `EV` proof: a quiet prefix does not disturb what follows -/
theorem then_ {α β} {p : Prog α} {f : α → Prog β} {R : β → List Event → Prop}
    (hp : Quiet p) (hf : ∀ x, EV (f x) R) : EV (p >>= f) R :=
  EV.bindSilent hp (fun x _ => hf x)
end Quiet

/-- one step of the walk: close a leaf, or open a bind / binder / conditional / match -/
macro "quiet_step" : tactic => `(tactic| first
  | exact Quiet.pure _
  | exact Quiet.ret _
  | exact Quiet.loadP _
  | exact Quiet.storeP _ _
  | exact Quiet.memsetP _ _ _
  | exact Quiet.zeroLoop _ _
  | exact Quiet.nullSlack _ _
  | assumption
  | apply Quiet.bind
  | intro _
  | split
  | dsimp only)

/-- `quiet` walks the whole program; `quiet using ih₁, ih₂` also tries the given lemmas / induction hypotheses at the leaves -/
syntax "quiet" (" using " term,+)? : tactic
macro_rules
  | `(tactic| quiet) => `(tactic| repeat quiet_step)
  | `(tactic| quiet using $[$hs],*) => `(tactic| repeat (first $[| apply $hs]* | quiet_step))

/-- the C05 discipline of an `errno_t` function reporting through handler kind `k`:
EOK and no event, or a code ≠ EOK and exactly one handler call carrying that code -/
def Once (k : Kind) (r : Nat) (es : List Event) : Prop :=
  (r = Gen.EOK ∧ es = []) ∨ (r ≠ Gen.EOK ∧ es = [.handler k r])

end SafeC

import SafeC.Proofs.MemccpyExact
import SafeC.Proofs.StpSteps
/-!
# `memccpy_s`: the stop character does not occur among the `n` source bytes

`memccpyLoop_absent`: `n` bytes are copied; then, with room left (`n < k`), the loop stores a NUL behind them and returns
EOK — `dest[0..n) = src[0..n)`, `dest[n] = 0`, nothing else changed (no null-slack clearing on this exit); with no room
left (`n = k`, i.e. `n = dmax`) it leaves through `handle_error(dest, dmax, ESNOSPC)` (`memccpy-n-eq-dmax`).
-/
namespace SafeC
open Gen Mem

theorem memccpyLoop_absent (cfg : Cfg) (c : Int) (oD oM : Nat) (hoM : 0 < oM) (n : Nat) :
    ∀ (k dp sp : Nat) (st : St), n ≤ k → RW st oD oM → (oD ≤ dp ∧ dp + k = oD + oM) → RD st sp n →
      (∀ i, i < n → ∀ j, j < k → sp + i ≠ dp + j) →
      (∀ i, i < n → ((st.data (sp+i) : Nat) : Int) ≠ c) →
      ∃ code st', exec (memccpyLoop cfg c oD oM k dp sp n) st = .ok (code, st') ∧
        (n < k → code = EOK ∧ SameMeta st' st ∧
          (∀ i, i < n → st'.data (dp+i) = st.data (sp+i)) ∧ st'.data (dp+n) = 0 ∧
          ∀ a, ¬ (dp ≤ a ∧ a ≤ dp + n) → st'.data a = st.data a) ∧
        (n = k → code = ESNOSPC ∧ ∃ s1, CopiedN st s1 dp sp n ∧ ClearedPost cfg oD oM ESNOSPC s1 st') := by
  induction n with
  | zero =>
    intro k dp sp st _ hw hinv _ _ _
    cases k with
    | zero =>
      unfold memccpyLoop
      obtain ⟨st', he, hp⟩ := handleError_cleared cfg oD oM ESNOSPC st hw hoM
      exact ⟨ESNOSPC, st', by simp [exec_bind, he], fun h => by omega, fun _ => ⟨rfl, st, CopiedN.zero _ _ _, hp⟩⟩
    | succ k =>
      have hd : st.mapped dp = true ∧ st.wr dp = true ∧ st.rd dp = true := (hw.sub' (k := k+1) (by omega)).head
      unfold memccpyLoop
      refine ⟨EOK, st.upd dp 0, by simp [exec_bind, exec_store_ok _ _ _ hd.1 hd.2.1], fun _ => ?_, fun h => by omega⟩
      exact ⟨rfl, SameMeta.upd _ _ _, fun i hi => by omega, by simp, fun a ha => St.upd_data_ne _ _ _ _ (by omega)⟩
  | succ n ih =>
    intro k dp sp st hnk hw hinv hr hdj hns
    obtain ⟨k, rfl⟩ : ∃ k', k = k' + 1 := ⟨k - 1, by omega⟩
    have hn0 : n + 1 ≠ 0 := by omega
    have hs := hr 0 (by omega)
    have hd : st.mapped dp = true ∧ st.wr dp = true ∧ st.rd dp = true := (hw.sub' (k := k+1) (by omega)).head
    have h0 := hns 0 (by omega)
    simp only [Nat.add_zero] at hs h0
    unfold memccpyLoop
    simp only [hn0, if_false, exec_bind, exec_load_ok _ _ hs.1 hs.2, exec_store_ok _ _ _ hd.1 hd.2.1]
    have hl : exec (load dp) (st.upd dp (st.data sp)) = .ok (st.data sp, st.upd dp (st.data sp)) := by
      rw [exec_load_ok _ _ (by simpa using hd.1) (by simpa using hd.2.2)]; simp
    simp only [hl, h0, if_false, Nat.add_sub_cancel]
    have hdata : ∀ i, i < n → (st.upd dp (st.data sp)).data (sp + 1 + i) = st.data (sp + (i+1)) := by
      intro i hi
      have e : sp + 1 + i = sp + (i+1) := by omega
      rw [e]
      exact St.upd_data_ne _ _ _ _ (by have := hdj (i+1) (by omega) 0 (by omega); omega)
    obtain ⟨code, st', he, hok, hfull⟩ := ih k (dp+1) (sp+1) (st.upd dp (st.data sp)) (by omega)
      (RW.of_sameMeta (SameMeta.upd _ _ _) hw) (by omega)
      (RD.of_sameMeta (SameMeta.upd _ _ _) (fun i hi => by
        have := hr (i+1) (by omega)
        have e : sp + 1 + i = sp + (i+1) := by omega
        rw [e]; exact this))
      (by intro i hi j hj; have := hdj (i+1) (by omega) (j+1) (by omega); omega)
      (by intro i hi; rw [hdata i hi]; exact hns (i+1) (by omega))
    refine ⟨code, st', he, fun h => ?_, fun h => ?_⟩
    · obtain ⟨c1, c2, c3, c4, c5⟩ := hok (by omega)
      refine ⟨c1, c2.trans (SameMeta.upd _ _ _), ?_, ?_, ?_⟩
      · intro i hi
        by_cases hi0 : i = 0
        · subst hi0
          rw [Nat.add_zero, Nat.add_zero, c5 dp (by omega)]; simp
        · have := c3 (i-1) (by omega)
          have e1 : dp + 1 + (i-1) = dp + i := by omega
          rw [e1, hdata (i-1) (by omega)] at this
          have e2 : sp + (i - 1 + 1) = sp + i := by omega
          rw [e2] at this; exact this
      · have e1 : dp + 1 + n = dp + (n+1) := by omega
        rw [e1] at c4; exact c4
      · intro a ha
        rw [c5 a (by omega)]
        exact St.upd_data_ne _ _ _ _ (by omega)
    · obtain ⟨c1, s1, c2, c3⟩ := hfull (by omega)
      exact ⟨c1, s1, c2.cons (by intro j h1 h2; have := hdj j (by omega) 0 (by omega); omega), c3⟩

/-- `memccpy_s`, valid arguments, disjoint operands, the stop character absent from the `n` source bytes -/
theorem memccpy_s_absent (cfg : Cfg) (dest dmax src c n : Nat) (st : St)
    (hd : dest ≠ 0) (hs : src ≠ 0) (hpos : 0 < n) (hle : n ≤ dmax) (hmax : dmax ≤ RSIZE_MAX_MEM)
    (hw : RW st dest dmax) (hr : RD st src n) (ha1 : src + n < U64) (ha2 : dest + dmax < U64)
    (hno : ¬ ((src ≤ dest ∧ dest < src + n) ∨ (dest < src ∧ src < dest + dmax)))
    (hns : ∀ i, i < n → ((st.data (src+i) : Nat) : Int) ≠ asInt c) :
    ∃ code st', exec (memccpy_s cfg dest dmax src c n none none) st = .ok (code, st') ∧
      (n < dmax → code = EOK ∧ SameMeta st' st ∧
        (∀ i, i < n → st'.data (dest+i) = st.data (src+i)) ∧ st'.data (dest+n) = 0 ∧
        ∀ a, ¬ (dest ≤ a ∧ a ≤ dest + n) → st'.data a = st.data a) ∧
      (n = dmax → code = ESNOSPC ∧ ClearedPost cfg dest dmax ESNOSPC st st') := by
  have h1 : n ≠ 0 := by omega
  have h2 : dmax ≠ 0 := by omega
  have h3 : ¬ dmax > RSIZE_MAX_MEM := by omega
  have h4 : ¬ n > dmax := by omega
  have hov : ovrlp 1 dest dmax src n = false := by
    cases h : ovrlp 1 dest dmax src n with
    | false => rfl
    | true => exact absurd ((ovrlp_one dest dmax src n ha1 ha2).1 h) hno
  obtain ⟨code, st', he, hok, hfull⟩ := memccpyLoop_absent cfg (asInt c) dest dmax (by omega) n dmax dest src st hle hw
    ⟨Nat.le_refl _, rfl⟩ hr (by intro i hi j hj; omega) hns
  refine ⟨code, st', ?_, hok, fun h => ?_⟩
  · simp only [memccpy_s, hd, h2, chkDmaxMemB, h3, h1, hs, h4, hov, if_false, Bool.false_eq_true]
    exact he
  · obtain ⟨c1, s1, c2, c3⟩ := hfull h
    exact ⟨c1, c3.of_copied c2 (by omega)⟩

end SafeC

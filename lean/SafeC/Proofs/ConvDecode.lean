import SafeC.Proofs.ConvCodec
/-! C15: the converse codec direction — whatever glibc's decoder accepts is the encoder's (shortest) form of the
value it yields; the value is never a surrogate and never above 31 bits. -/
namespace SafeC.Conv.Libc

theorem isCont_iff (x : Nat) : isCont x = true ↔ 0x80 ≤ x ∧ x < 0xC0 := by
  unfold isCont; simp; omega

private theorem ite_illegal {p : Prop} [Decidable p] {X : Dec} {ch n : Nat}
    (h : (if p then Dec.illegal else X) = Dec.ok ch n) : ¬ p ∧ X = .ok ch n := by
  split at h
  · cases h
  · exact ⟨‹_›, h⟩

private theorem ite_incomplete {p : Prop} [Decidable p] {X : Dec} {ch n : Nat}
    (h : (if p then Dec.incomplete else X) = Dec.ok ch n) : ¬ p ∧ X = .ok ch n := by
  split at h
  · cases h
  · exact ⟨‹_›, h⟩

/-- the tail of `utf8Body` once the lead byte is classified, as a function of the continuation bytes available -/
private theorem body_tail {cnt hi ch n : Nat} {rest : List Nat}
    (h : (if (!(rest.take (cnt - 1)).all isCont) = true then Dec.illegal
          else if (rest.take (cnt - 1)).length < cnt - 1 then Dec.incomplete
          else if ((decide (cnt > 2) && decide (accum hi (rest.take (cnt - 1)) < minOf cnt)) || isSurr (accum hi (rest.take (cnt - 1)))) = true
            then Dec.illegal else Dec.ok (accum hi (rest.take (cnt - 1))) cnt) = Dec.ok ch n) :
    (rest.take (cnt - 1)).all isCont = true ∧ cnt - 1 ≤ rest.length ∧ (cnt > 2 → minOf cnt ≤ ch) ∧ isSurr ch = false ∧
      accum hi (rest.take (cnt - 1)) = ch ∧ cnt = n := by
  obtain ⟨h1, h⟩ := ite_illegal h
  obtain ⟨h2, h⟩ := ite_incomplete h
  obtain ⟨h3, h⟩ := ite_illegal h
  cases h
  simp only [Bool.not_eq_true', Bool.not_eq_false] at h1
  simp only [List.length_take, Nat.not_lt] at h2
  simp only [Bool.or_eq_true, Bool.and_eq_true, decide_eq_true_eq, not_or, not_and, Nat.not_lt, Bool.not_eq_true] at h3
  exact ⟨by simpa using h1, by omega, h3.1, h3.2, rfl, rfl⟩

/-- one character, UTF-8: an accepted sequence is exactly the encoding of the value delivered -/
theorem utf8Body_ok (bs : List Nat) (ch n : Nat) (h : utf8Body bs = .ok ch n) :
    utf8Enc ch = some (bs.take n) ∧ n ≤ bs.length ∧ 0 < n := by
  cases bs with
  | nil => simp [utf8Body] at h
  | cons b rest =>
    simp only [utf8Body] at h
    split at h
    · rename_i hb
      cases h
      have hs : isSurr ch = false := isSurr_false_of_lt (by omega)
      have h1 : ¬ ch > 0x7fffffff := by omega
      simp [utf8Enc, hs, h1, hb]
    · rename_i hb
      split at h
      · cases h
      · rename_i cnt hi hl
        obtain ⟨hall, hlen, hmin, hsur, hacc, hn⟩ := body_tail h
        subst hn
        unfold lead at hl
        split at hl
        · -- two bytes
          rename_i hr
          cases hl
          simp only [Bool.and_eq_true, decide_eq_true_eq] at hr
          rcases rest with _ | ⟨x, rest⟩
          · simp at hlen
          · simp only [Nat.add_one_sub_one, List.take_succ_cons, List.take_zero, List.all_cons, List.all_nil,
              Bool.and_true, isCont_iff] at hall
            simp only [Nat.add_one_sub_one, List.take_succ_cons, List.take_zero, accum, List.foldl_cons, List.foldl_nil] at hacc
            subst hacc
            have e1 : ¬ (b % 32 * 64 + x % 64 > 0x7fffffff) := by omega
            have e2 : ¬ (b % 32 * 64 + x % 64 < 0x80) := by omega
            have e3 : b % 32 * 64 + x % 64 < 0x800 := by omega
            simp only [utf8Enc, hsur, e1, e2, e3, decide_false, Bool.or_self, Bool.false_eq_true, ↓reduceIte,
              List.take_succ_cons, List.take_zero, Option.some.injEq, List.cons.injEq, and_true, List.length_cons]
            omega
        · split at hl
          · rename_i hr1 hr
            cases hl
            simp only [beq_iff_eq] at hr
            rcases rest with _ | ⟨x, _ | ⟨y, rest⟩⟩
            · simp at hlen
            · simp at hlen
            · simp only [Nat.add_one_sub_one, List.take_succ_cons, List.take_zero, List.all_cons, List.all_nil,
                Bool.and_true, Bool.and_eq_true, isCont_iff] at hall
              simp only [Nat.add_one_sub_one, List.take_succ_cons, List.take_zero, accum, List.foldl_cons, List.foldl_nil] at hacc
              have hm := hmin (by omega)
              simp only [minOf] at hm
              subst hacc
              have e1 : ¬ ((b % 16 * 64 + x % 64) * 64 + y % 64 > 0x7fffffff) := by omega
              have e2 : ¬ ((b % 16 * 64 + x % 64) * 64 + y % 64 < 0x80) := by omega
              have e3 : ¬ ((b % 16 * 64 + x % 64) * 64 + y % 64 < 0x800) := by omega
              have e4 : (b % 16 * 64 + x % 64) * 64 + y % 64 < 0x10000 := by omega
              simp only [utf8Enc, hsur, e1, e2, e3, e4, decide_false, Bool.or_self, Bool.false_eq_true, ↓reduceIte,
                List.take_succ_cons, List.take_zero, Option.some.injEq, List.cons.injEq, and_true, List.length_cons]
              omega
          · split at hl
            · rename_i hr
              cases hl
              simp only [beq_iff_eq] at hr
              rcases rest with _ | ⟨x, _ | ⟨y, _ | ⟨z, rest⟩⟩⟩
              · simp at hlen
              · simp at hlen
              · simp at hlen
              · simp only [Nat.add_one_sub_one, List.take_succ_cons, List.take_zero, List.all_cons, List.all_nil,
                  Bool.and_true, Bool.and_eq_true, isCont_iff] at hall
                simp only [Nat.add_one_sub_one, List.take_succ_cons, List.take_zero, accum, List.foldl_cons, List.foldl_nil] at hacc
                have hm := hmin (by omega)
                simp only [minOf] at hm
                subst hacc
                have e1 : ¬ (((b % 8 * 64 + x % 64) * 64 + y % 64) * 64 + z % 64 > 0x7fffffff) := by omega
                have e2 : ¬ (((b % 8 * 64 + x % 64) * 64 + y % 64) * 64 + z % 64 < 0x80) := by omega
                have e3 : ¬ (((b % 8 * 64 + x % 64) * 64 + y % 64) * 64 + z % 64 < 0x800) := by omega
                have e4 : ¬ (((b % 8 * 64 + x % 64) * 64 + y % 64) * 64 + z % 64 < 0x10000) := by omega
                have e5 : ((b % 8 * 64 + x % 64) * 64 + y % 64) * 64 + z % 64 < 0x200000 := by omega
                simp only [utf8Enc, hsur, e1, e2, e3, e4, e5, decide_false, Bool.or_self, Bool.false_eq_true, ↓reduceIte,
                  List.take_succ_cons, List.take_zero, Option.some.injEq, List.cons.injEq, and_true, List.length_cons]
                omega
            · split at hl
              · rename_i hr
                cases hl
                simp only [beq_iff_eq] at hr
                rcases rest with _ | ⟨x, _ | ⟨y, _ | ⟨z, _ | ⟨u, rest⟩⟩⟩⟩
                · simp at hlen
                · simp at hlen
                · simp at hlen
                · simp at hlen
                · simp only [Nat.add_one_sub_one, List.take_succ_cons, List.take_zero, List.all_cons, List.all_nil,
                    Bool.and_true, Bool.and_eq_true, isCont_iff] at hall
                  simp only [Nat.add_one_sub_one, List.take_succ_cons, List.take_zero, accum, List.foldl_cons, List.foldl_nil] at hacc
                  have hm := hmin (by omega)
                  simp only [minOf] at hm
                  subst hacc
                  have e1 : ¬ ((((b % 4 * 64 + x % 64) * 64 + y % 64) * 64 + z % 64) * 64 + u % 64 > 0x7fffffff) := by omega
                  have e2 : ¬ ((((b % 4 * 64 + x % 64) * 64 + y % 64) * 64 + z % 64) * 64 + u % 64 < 0x80) := by omega
                  have e3 : ¬ ((((b % 4 * 64 + x % 64) * 64 + y % 64) * 64 + z % 64) * 64 + u % 64 < 0x800) := by omega
                  have e4 : ¬ ((((b % 4 * 64 + x % 64) * 64 + y % 64) * 64 + z % 64) * 64 + u % 64 < 0x10000) := by omega
                  have e5 : ¬ ((((b % 4 * 64 + x % 64) * 64 + y % 64) * 64 + z % 64) * 64 + u % 64 < 0x200000) := by omega
                  have e6 : (((b % 4 * 64 + x % 64) * 64 + y % 64) * 64 + z % 64) * 64 + u % 64 < 0x4000000 := by omega
                  simp only [utf8Enc, hsur, e1, e2, e3, e4, e5, e6, decide_false, Bool.or_self, Bool.false_eq_true, ↓reduceIte,
                    List.take_succ_cons, List.take_zero, Option.some.injEq, List.cons.injEq, and_true, List.length_cons]
                  omega
              · split at hl
                · rename_i hr
                  cases hl
                  simp only [beq_iff_eq] at hr
                  rcases rest with _ | ⟨x, _ | ⟨y, _ | ⟨z, _ | ⟨u, _ | ⟨v, rest⟩⟩⟩⟩⟩
                  · simp at hlen
                  · simp at hlen
                  · simp at hlen
                  · simp at hlen
                  · simp at hlen
                  · simp only [Nat.add_one_sub_one, List.take_succ_cons, List.take_zero, List.all_cons, List.all_nil,
                      Bool.and_true, Bool.and_eq_true, isCont_iff] at hall
                    simp only [Nat.add_one_sub_one, List.take_succ_cons, List.take_zero, accum, List.foldl_cons, List.foldl_nil] at hacc
                    have hm := hmin (by omega)
                    simp only [minOf] at hm
                    subst hacc
                    have e1 : ¬ (((((b % 2 * 64 + x % 64) * 64 + y % 64) * 64 + z % 64) * 64 + u % 64) * 64 + v % 64 > 0x7fffffff) := by omega
                    have e2 : ¬ (((((b % 2 * 64 + x % 64) * 64 + y % 64) * 64 + z % 64) * 64 + u % 64) * 64 + v % 64 < 0x80) := by omega
                    have e3 : ¬ (((((b % 2 * 64 + x % 64) * 64 + y % 64) * 64 + z % 64) * 64 + u % 64) * 64 + v % 64 < 0x800) := by omega
                    have e4 : ¬ (((((b % 2 * 64 + x % 64) * 64 + y % 64) * 64 + z % 64) * 64 + u % 64) * 64 + v % 64 < 0x10000) := by omega
                    have e5 : ¬ (((((b % 2 * 64 + x % 64) * 64 + y % 64) * 64 + z % 64) * 64 + u % 64) * 64 + v % 64 < 0x200000) := by omega
                    have e6 : ¬ (((((b % 2 * 64 + x % 64) * 64 + y % 64) * 64 + z % 64) * 64 + u % 64) * 64 + v % 64 < 0x4000000) := by omega
                    simp only [utf8Enc, hsur, e1, e2, e3, e4, e5, e6, decide_false, Bool.or_self, Bool.false_eq_true, ↓reduceIte,
                      List.take_succ_cons, List.take_zero, Option.some.injEq, List.cons.injEq, and_true, List.length_cons]
                    omega
                · cases hl

theorem asciiBody_ok (bs : List Nat) (ch n : Nat) (h : asciiBody bs = .ok ch n) :
    asciiEnc ch = some (bs.take n) ∧ n ≤ bs.length ∧ 0 < n := by
  cases bs with
  | nil => simp [asciiBody] at h
  | cons b rest =>
    simp only [asciiBody] at h
    split at h
    · rename_i hb; cases h; simp [asciiEnc, hb]
    · cases h

/-- both locales: what the decoder accepts is the encoder's form of the value it delivers -/
theorem body_ok (loc : Locale) (bs : List Nat) (ch n : Nat) (h : body loc bs = .ok ch n) :
    enc loc ch = some (bs.take n) ∧ n ≤ bs.length ∧ 0 < n := by
  cases loc
  · exact asciiBody_ok bs ch n h
  · exact utf8Body_ok bs ch n h

/-- an encodable value is at most 31 bits wide and not a surrogate (C: 7 bits) -/
theorem enc_some_range (loc : Locale) (c : Nat) (e : List Nat) (h : enc loc c = some e) :
    c ≤ 0x7fffffff ∧ isSurr c = false := by
  cases loc
  · simp only [enc, asciiEnc] at h
    split at h
    · exact ⟨by omega, isSurr_false_of_lt (by omega)⟩
    · cases h
  · simp only [enc, utf8Enc] at h
    split at h
    · cases h
    · rename_i hbad
      simp only [Bool.or_eq_true, decide_eq_true_eq, not_or, Nat.not_lt, Bool.not_eq_true] at hbad
      exact ⟨by omega, hbad.2⟩

/-- the encoder produces the SHORTEST form: its length is determined by the value's magnitude -/
theorem utf8Enc_length (c : Nat) (e : List Nat) (h : utf8Enc c = some e) :
    e.length = if c < 0x80 then 1 else if c < 0x800 then 2 else if c < 0x10000 then 3 else if c < 0x200000 then 4
      else if c < 0x4000000 then 5 else 6 := by
  simp only [utf8Enc] at h
  repeat' split at h
  all_goals first | (cases h; done) | (cases h; simp only [List.length_cons, List.length_nil]; (repeat' split) <;> omega)

/-- whole strings: a byte string the decoder accepts completely is the encoding of what it decodes to -/
theorem encodeAll_decodeAll (loc : Locale) (fuel : Nat) (bs ws : List Nat) (h : decodeAll loc fuel bs = some ws) :
    encodeAll loc ws = some bs := by
  induction fuel generalizing bs ws with
  | zero =>
    simp only [decodeAll] at h
    split at h
    · cases h; rename_i he; simp only [List.isEmpty_iff] at he; subst he; rfl
    · cases h
  | succ fuel ih =>
    simp only [decodeAll] at h
    split at h
    · cases h; rename_i he; simp only [List.isEmpty_iff] at he; subst he; rfl
    · split at h
      · rename_i ch n hb
        obtain ⟨he, hn, _⟩ := body_ok loc bs ch n hb
        cases hd : decodeAll loc fuel (bs.drop n) with
        | none => simp [hd] at h
        | some ws' =>
          simp only [hd, Option.map_some, Option.some.injEq] at h
          subst h
          simp only [encodeAll, he, ih _ _ hd, List.take_append_drop]
      · cases h

/-- every element of an encodable list is encodable -/
theorem encodeAll_mem (loc : Locale) (ws bs : List Nat) (h : encodeAll loc ws = some bs) :
    ∀ c ∈ ws, ∃ e, enc loc c = some e := by
  induction ws generalizing bs with
  | nil => simp
  | cons c cs ih =>
    simp only [encodeAll] at h
    split at h
    · rename_i a b ha hb
      intro x hx
      rcases List.mem_cons.mp hx with rfl | hx
      · exact ⟨a, ha⟩
      · exact ih b hb x hx
    · cases h

end SafeC.Conv.Libc

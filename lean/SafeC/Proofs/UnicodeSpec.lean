import SafeC.Gen.UCD14
import SafeC.Models.Norm
/-!
# C17 — the Unicode side of the statements: UAX #15 / Unicode Standard ch. 3.11–3.12 over the UCD 14.0 data

`SafeC.Gen.UCD14` is extracted from Python's `unicodedata` (14.0.0) by tools/gen17.py — independent of the tree's tables:
single-step canonical `Decomposition_Mapping`, `Canonical_Combining_Class`, the set of assigned code points, primary composites.
The Hangul constants below are those of the Standard (ch. 3.12), written out, not read from the tree's hangul.h.
-/
namespace SafeC.UCD
open SafeC.Gen
open SafeC.Norm (cell)

/-- `Decomposition_Mapping` of `c`, canonical mappings only: `(first, second)`, `second = 0` for a singleton mapping -/
def dm (c : Nat) : Option (Nat × Nat) :=
  if c < 0x110000 then
    let p := cell 16 UCD14.dmIdx (c / 256)
    if p = 0 then none else
    let e := cell 16 UCD14.dmPages ((p - 1) * 256 + c % 256)
    if e = 0 then none else some (cell 32 UCD14.dmEnt (2 * (e - 1)), cell 32 UCD14.dmEnt (2 * (e - 1) + 1))
  else none

/-- `Canonical_Combining_Class` -/
def ccc (c : Nat) : Nat :=
  if c < 0x110000 then
    let p := cell 16 UCD14.cccIdx (c / 256)
    if p = 0 then 0 else cell 8 UCD14.cccPages ((p - 1) * 256 + c % 256)
  else 0

/-- assigned in Unicode 14.0 (General_Category ≠ Cn, Cs) -/
def assigned (c : Nat) : Bool :=
  if c < 0x110000 then
    let p := cell 16 UCD14.asgIdx (c / 256)
    if p = 0 then false else cell 1 UCD14.asgPages ((p - 1) * 256 + c % 256) == 1
  else false

def SBase := 0xAC00
def LBase := 0x1100
def VBase := 0x1161
def TBase := 0x11A7
def LCount := 19
def VCount := 21
def TCount := 28
def NCount := 588      -- VCount * TCount
def SCount := 11172    -- LCount * NCount

def isHangulS (c : Nat) : Bool := decide (SBase ≤ c) && decide (c < SBase + SCount)

/-- Hangul syllable decomposition (Unicode Standard 3.12, full decomposition into L V (T)) -/
def hangulDecomp (s : Nat) : List Nat :=
  let sIndex := s - SBase
  let l := LBase + sIndex / NCount
  let v := VBase + (sIndex % NCount) / TCount
  let t := TBase + sIndex % TCount
  if t = TBase then [l, v] else [l, v, t]

/-- D68 full canonical decomposition of one code point: apply the mappings recursively (`fuel` levels; four suffice, see
`fullDecomp_fixed` for the proof that nothing decomposable is left) -/
def fullDecomp : Nat → Nat → List Nat
  | 0, c => [c]
  | f + 1, c =>
    if isHangulS c then hangulDecomp c
    else match dm c with
      | none => [c]
      | some (a, b) => fullDecomp f a ++ (if b = 0 then [] else fullDecomp f b)

/-- canonical decomposition of a string, before reordering -/
def decompose (xs : List Nat) : List Nat := xs.flatMap (fullDecomp 4)

end SafeC.UCD

namespace SafeC.UCD
open SafeC.Gen
open SafeC.Norm (cell)

/-- i-th primary composite of UCD 14.0 in (first, second) order -/
def compEntry (i : Nat) : Nat × Nat × Nat :=
  (cell 32 UCD14.compP (3 * i), cell 32 UCD14.compP (3 * i + 1), cell 32 UCD14.compP (3 * i + 2))

/-- binary search for the pair `(a, b)` among the primary composites (`fuel` halvings) -/
def tableCompose (a b : Nat) : Nat → Nat → Nat → Option Nat
  | 0, _, _ => none
  | fuel + 1, lo, hi =>
    if lo ≥ hi then none else
    let mid := (lo + hi) / 2
    let t := compEntry mid
    if t.1 = a ∧ t.2.1 = b then some t.2.2
    else if t.1 < a ∨ (t.1 = a ∧ t.2.1 < b) then tableCompose a b fuel (mid + 1) hi
    else tableCompose a b fuel lo mid

/-- Hangul syllable composition (Unicode Standard 3.12): L + V, LV + T -/
def hangulCompose (a b : Nat) : Option Nat :=
  if LBase ≤ a ∧ a < LBase + LCount ∧ VBase ≤ b ∧ b < VBase + VCount then
    some (SBase + ((a - LBase) * VCount + (b - VBase)) * TCount)
  else if isHangulS a = true ∧ (a - SBase) % TCount = 0 ∧ TBase < b ∧ b < TBase + TCount then some (a + (b - TBase))
  else none

/-- D114: the primary composite canonically equivalent to `<a, b>`, if there is one -/
def primaryComposite (a b : Nat) : Option Nat :=
  match hangulCompose a b with
  | some s => some s
  | none => tableCompose a b 12 0 UCD14.compN

end SafeC.UCD

import SafeC.Models.Sort
/-!
# qsort_s model: what EVERY run preserves, for every comparator

`Rel e s s'`: `s'.a` is a permutation of `s.a`, and the log grew by events that carry two in-range
positions and the caller's context.  Every function of the model relates its entry state to its exit
state by `Rel` whenever it returns at all (`Post`), with no hypothesis on the comparator, the bit
vector, `pshift` or the table.
-/
namespace SafeC.Sort

/-- partial correctness in the `Except Fault` monad -/
def Post (x : M β) (Q : β → Prop) : Prop := ∀ r, x = .ok r → Q r

theorem Post.bind {x : M β} {f : β → M γ} {Q : γ → Prop} (P : β → Prop)
    (hx : Post x P) (hf : ∀ y, P y → Post (f y) Q) : Post (x >>= f) Q := by
  intro r h
  cases hxe : x with
  | error e => rw [hxe] at h; cases h
  | ok y => rw [hxe] at h; exact hf y (hx y hxe) r h

theorem Post.bind' {x : M β} {f : β → M γ} {Q : γ → Prop}
    (hf : ∀ y, Post (f y) Q) : Post (x >>= f) Q :=
  Post.bind (fun _ => True) (fun _ _ => trivial) (fun y _ => hf y)

theorem Post.ok {y : β} {Q : β → Prop} (h : Q y) : Post (.ok y : M β) Q := by
  intro r hr; cases hr; exact h

theorem Post.pure {y : β} {Q : β → Prop} (h : Q y) : Post (pure y : M β) Q := Post.ok h

theorem Post.error {e : Fault} {Q : β → Prop} : Post (.error e : M β) Q := by
  intro r hr; cases hr

theorem Post.ite {c : Prop} [Decidable c] {a b : M β} {Q : β → Prop}
    (ha : c → Post a Q) (hb : ¬c → Post b Q) : Post (if c then a else b) Q := by
  split
  · exact ha ‹_›
  · exact hb ‹_›

theorem Post.mono {x : M β} {P Q : β → Prop} (h : Post x P) (hpq : ∀ y, P y → Q y) : Post x Q :=
  fun r hr => hpq r (h r hr)

structure Rel (e : Env α) (s s' : St α) : Prop where
  perm : s'.a.Perm s.a
  log : ∃ l, s'.log = l ++ s.log ∧ ∀ ev ∈ l, ev.i < s.a.size ∧ ev.j < s.a.size ∧ ev.ctx = e.ctx
  ncmp : s.ncmp ≤ s'.ncmp

theorem Rel.size {e : Env α} {s s' : St α} (h : Rel e s s') : s'.a.size = s.a.size := by
  have := h.perm
  rw [Array.perm_iff_toList_perm] at this
  simpa using this.length_eq

theorem Rel.refl (e : Env α) (s : St α) : Rel e s s :=
  ⟨Array.Perm.refl _, ⟨[], by simp⟩, Nat.le_refl _⟩

theorem Rel.trans {e : Env α} {s s1 s2 : St α} (h1 : Rel e s s1) (h2 : Rel e s1 s2) : Rel e s s2 := by
  refine ⟨h2.perm.trans h1.perm, ?_, Nat.le_trans h1.ncmp h2.ncmp⟩
  obtain ⟨l1, e1, p1⟩ := h1.log
  obtain ⟨l2, e2, p2⟩ := h2.log
  refine ⟨l2 ++ l1, by simp [e2, e1], ?_⟩
  intro ev hev
  rcases List.mem_append.mp hev with h | h
  · have := p2 ev h; rw [h1.size] at this; exact this
  · exact p1 ev h

theorem cmpAt_rel {e : Env α} {s0 s : St α} (h0 : Rel e s0 s) (i j : Nat) :
    Post (cmpAt e s i j) (fun r => Rel e s0 r.2) := by
  unfold cmpAt
  split
  · split
    · apply Post.ok
      refine h0.trans ⟨Array.Perm.refl _, ?_, Nat.le_succ _⟩
      by_cases ht : e.trace
      · exact ⟨[⟨i, j, e.ctx⟩], by simp [ht], by intro ev hev; simp at hev; subst hev; exact ⟨‹_›, ‹_›, rfl⟩⟩
      · exact ⟨[], by simp [ht], by simp⟩
    · exact Post.error
  · exact Post.error

theorem set_set_perm (a : Array α) (x y : Nat) (hx : x < a.size) (hy : y < a.size) (tmp : α) :
    ((a.set x a[y]).set y tmp (by simpa using hy)).Perm (a.set x tmp) := by
  by_cases hxy : x = y
  · subst hxy
    simp
  · have hs : ((a.set x a[y]).set y tmp (by simpa using hy)) =
        (a.set x tmp).swap x y (by simpa using hx) (by simpa using hy) := by
      apply Array.ext
      · simp
      · intro k h1 h2
        simp only [Array.getElem_swap, Array.getElem_set]
        by_cases hkx : k = x
        · subst hkx; simp [hxy, Ne.symm hxy]
        · by_cases hky : k = y
          · subst hky; simp [hxy, Ne.symm hxy]
          · simp [hkx, hky, Ne.symm hkx, Ne.symm hky]
    rw [hs]
    exact Array.swap_perm _ _

theorem cycleGo_perm (tmp : α) : ∀ (ar : List Nat) (a : Array α) (x : Nat) (hx : x < a.size),
    Post (cycleGo a tmp (x :: ar)) (fun r => r.Perm (a.set x tmp))
  | [], a, x, hx => by
    unfold cycleGo setE
    simp only [hx, dite_true]
    exact Post.ok (Array.Perm.refl _)
  | y :: rest, a, x, hx => by
    unfold cycleGo
    unfold getE
    by_cases hy : y < a.size
    · simp only [hy, dite_true]
      unfold setE
      simp only [hx, dite_true]
      show Post (cycleGo (a.set x a[y]) tmp (y :: rest)) _
      have := cycleGo_perm tmp rest (a.set x a[y]) y (by simpa using hy)
      exact this.mono (fun r hr => hr.trans (set_set_perm a x y hx hy tmp))
    · simp only [hy, dite_false]
      intro r hr; cases hr

theorem cycle_rel {e : Env α} {s0 s : St α} (h0 : Rel e s0 s) (ar : List Nat) :
    Post (cycle s ar) (fun r => Rel e s0 r) := by
  unfold cycle
  split
  · exact Post.ok h0
  · exact Post.ok h0
  · rename_i x y rest
    split
    · exact Post.error
    · unfold getE
      by_cases hx : x < s.a.size
      · simp only [hx, dite_true]
        intro r hr
        simp only [bind, Except.bind, pure, Except.pure] at hr
        split at hr
        · cases hr
        · rename_i a' ha'
          cases hr
          have hp := cycleGo_perm s.a[x] (y :: rest) s.a x hx a' ha'
          simp at hp
          exact h0.trans ⟨hp, ⟨[], by simp⟩, Nat.le_refl _⟩
      · simp only [hx, dite_false]
        intro r hr
        cases hr

end SafeC.Sort

namespace SafeC.Sort

theorem siftLoop_rel (e : Env α) (s0 : St α) (ar0 : Nat) : ∀ (room : Nat) (s : St α) (head pshift : Nat) (acc : List Nat),
    Rel e s0 s → Post (siftLoop e room s ar0 head pshift acc) (fun r => Rel e s0 r.1) := by
  intro room
  induction room with
  | zero =>
    intro s head pshift acc h
    unfold siftLoop
    refine Post.ite (fun _ => Post.ok h) (fun _ => ?_)
    refine Post.bind' (fun rt => ?_)
    refine Post.bind' (fun l => ?_)
    refine Post.bind' (fun lf => ?_)
    refine Post.bind _ (cmpAt_rel h _ _) (fun ⟨c1, s1⟩ h1 => ?_)
    refine Post.bind (fun r => Rel e s0 r.2) ?_ (fun ⟨stop, s2⟩ h2 => ?_)
    · exact Post.ite (fun _ => Post.bind _ (cmpAt_rel h1 _ _) (fun ⟨c2, s⟩ h => Post.pure h)) (fun _ => Post.pure h1)
    · refine Post.ite (fun _ => Post.ok h2) (fun _ => ?_)
      refine Post.bind _ (cmpAt_rel h2 _ _) (fun ⟨c3, s3⟩ h3 => ?_)
      exact Post.error
  | succ room ih =>
    intro s head pshift acc h
    unfold siftLoop
    refine Post.ite (fun _ => Post.ok h) (fun _ => ?_)
    refine Post.bind' (fun rt => ?_)
    refine Post.bind' (fun l => ?_)
    refine Post.bind' (fun lf => ?_)
    refine Post.bind _ (cmpAt_rel h _ _) (fun ⟨c1, s1⟩ h1 => ?_)
    refine Post.bind (fun r => Rel e s0 r.2) ?_ (fun ⟨stop, s2⟩ h2 => ?_)
    · exact Post.ite (fun _ => Post.bind _ (cmpAt_rel h1 _ _) (fun ⟨c2, s⟩ h => Post.pure h)) (fun _ => Post.pure h1)
    · refine Post.ite (fun _ => Post.ok h2) (fun _ => ?_)
      refine Post.bind _ (cmpAt_rel h2 _ _) (fun ⟨c3, s3⟩ h3 => ?_)
      exact Post.ite (fun _ => ih _ _ _ _ h3) (fun _ => ih _ _ _ _ h3)

theorem sift_rel (e : Env α) {s0 s : St α} (h : Rel e s0 s) (head pshift : Nat) :
    Post (sift e s head pshift) (fun r => Rel e s0 r) := by
  unfold sift
  refine Post.bind _ (siftLoop_rel e s0 head 112 s head pshift [head] h) (fun ⟨s1, acc⟩ h1 => ?_)
  exact cycle_rel h1 _

end SafeC.Sort

namespace SafeC.Sort

theorem trinkleIter_rel (e : Env α) {s0 s : St α} (h : Rel e s0 s) (ar0 head pshift : Nat) (trusty : Bool) :
    Post (trinkleIter e s ar0 head pshift trusty) (fun r => Rel e s0 r.1) := by
  unfold trinkleIter
  refine Post.bind' (fun l => ?_)
  refine Post.bind' (fun stepson => ?_)
  refine Post.bind _ (cmpAt_rel h _ _) (fun ⟨c, s1⟩ h1 => ?_)
  refine Post.ite (fun _ => Post.ok h1) (fun _ => ?_)
  refine Post.bind (fun r => Rel e s0 r.2) ?_ (fun ⟨brk, s2⟩ h2 => ?_)
  · refine Post.ite (fun _ => ?_) (fun _ => Post.pure h1)
    refine Post.bind' (fun rt => ?_)
    refine Post.bind' (fun l2 => ?_)
    refine Post.bind' (fun lf => ?_)
    refine Post.bind _ (cmpAt_rel h1 _ _) (fun ⟨c1, s⟩ hh => ?_)
    refine Post.ite (fun _ => Post.pure hh) (fun _ => ?_)
    exact Post.bind _ (cmpAt_rel hh _ _) (fun ⟨c2, s⟩ h => Post.pure h)
  · exact Post.ite (fun _ => Post.ok h2) (fun _ => Post.ok h2)

theorem trinkleLoop_rel (e : Env α) (s0 : St α) (ar0 : Nat) : ∀ (room : Nat) (s : St α) (head : Nat) (p : PV) (pshift : Nat)
    (trusty : Bool) (acc : List Nat),
    Rel e s0 s → Post (trinkleLoop e room s ar0 head p pshift trusty acc) (fun r => Rel e s0 r.1) := by
  intro room
  induction room with
  | zero =>
    intro s head p pshift trusty acc h
    unfold trinkleLoop
    refine Post.ite (fun _ => Post.ok h) (fun _ => ?_)
    refine Post.bind _ (trinkleIter_rel e h _ _ _ _) (fun ⟨s1, step⟩ h1 => ?_)
    cases step with
    | none => exact Post.ok h1
    | some st => exact Post.error
  | succ room ih =>
    intro s head p pshift trusty acc h
    unfold trinkleLoop
    refine Post.ite (fun _ => Post.ok h) (fun _ => ?_)
    refine Post.bind _ (trinkleIter_rel e h _ _ _ _) (fun ⟨s1, step⟩ h1 => ?_)
    cases step with
    | none => exact Post.ok h1
    | some st => exact ih _ _ _ _ _ _ h1

theorem trinkle_rel (e : Env α) {s0 s : St α} (h : Rel e s0 s) (head : Nat) (p : PV) (pshift : Nat) (trusty : Bool) :
    Post (trinkle e s head p pshift trusty) (fun r => Rel e s0 r) := by
  unfold trinkle
  refine Post.bind _ (trinkleLoop_rel e s0 head 112 s head p pshift trusty [head] h) (fun ⟨s1, hd, ps, tr, acc⟩ h1 => ?_)
  refine Post.ite (fun _ => ?_) (fun _ => Post.pure h1)
  refine Post.bind _ (cycle_rel h1 _) (fun s2 h2 => ?_)
  exact sift_rel e h2 _ _

theorem mainStep_rel (e : Env α) {s0 s : St α} (h : Rel e s0 s) (k head : Nat) (p : PV) (pshift : Nat) :
    Post (mainStep e k s head p pshift) (fun r => Rel e s0 r.1) := by
  unfold mainStep
  refine Post.bind (fun r => Rel e s0 r.1) ?_ (fun ⟨s1, p1, ps1⟩ h1 => Post.pure h1)
  refine Post.ite (fun _ => ?_) (fun _ => ?_)
  · exact Post.bind _ (sift_rel e h _ _) (fun s1 h1 => Post.pure h1)
  · refine Post.bind' (fun i => ?_)
    refine Post.bind' (fun l => ?_)
    refine Post.ite (fun _ => ?_) (fun _ => ?_)
    · exact Post.bind _ (trinkle_rel e h _ _ _ _) (fun s1 h1 => Post.ite (fun _ => Post.pure h1) (fun _ => Post.pure h1))
    · exact Post.bind _ (sift_rel e h _ _) (fun s1 h1 => Post.ite (fun _ => Post.pure h1) (fun _ => Post.pure h1))

theorem mainLoop_rel (e : Env α) (s0 : St α) : ∀ (k : Nat) (s : St α) (head : Nat) (p : PV) (pshift : Nat),
    Rel e s0 s → Post (mainLoop e k s head p pshift) (fun r => Rel e s0 r.1) := by
  intro k
  induction k with
  | zero => intro s head p pshift h; unfold mainLoop; exact Post.ok h
  | succ k ih =>
    intro s head p pshift h
    unfold mainLoop
    exact Post.bind _ (mainStep_rel e h _ _ _ _) (fun ⟨s1, p1, ps1⟩ h1 => ih _ _ _ _ h1)

theorem dismantleStep_rel (e : Env α) {s0 s : St α} (h : Rel e s0 s) (head : Nat) (p : PV) (pshift : Nat) :
    Post (dismantleStep e s head p pshift) (fun r => Rel e s0 r.1) := by
  unfold dismantleStep
  refine Post.ite (fun _ => Post.ok h) (fun _ => ?_)
  refine Post.bind' (fun l => ?_)
  refine Post.bind' (fun h1 => ?_)
  refine Post.bind' (fun h1' => ?_)
  refine Post.bind _ (trinkle_rel e h _ _ _ _) (fun s1 r1 => ?_)
  refine Post.bind' (fun h2 => ?_)
  exact Post.bind _ (trinkle_rel e r1 _ _ _ _) (fun s2 r2 => Post.pure r2)

theorem dismantle_rel (e : Env α) (s0 : St α) : ∀ (head : Nat) (s : St α) (p : PV) (pshift : Nat),
    Rel e s0 s → Post (dismantle e head s p pshift) (fun r => Rel e s0 r) := by
  intro head
  induction head with
  | zero =>
    intro s p pshift h
    unfold dismantle
    refine Post.ite (fun _ => Post.ok h) (fun _ => ?_)
    exact Post.bind _ (dismantleStep_rel e h _ _ _) (fun ⟨s1, p1, ps1⟩ h1 => Post.error)
  | succ hd ih =>
    intro s p pshift h
    unfold dismantle
    refine Post.ite (fun _ => Post.ok h) (fun _ => ?_)
    exact Post.bind _ (dismantleStep_rel e h _ _ _) (fun ⟨s1, p1, ps1⟩ h1 => ih _ _ _ h1)

theorem smooth_rel (e : Env α) (s : St α) (n : Nat) : Post (smooth e s n) (fun r => Rel e s r) := by
  unfold smooth
  refine Post.bind _ (mainLoop_rel e s _ s _ _ _ (Rel.refl e s)) (fun ⟨s1, p1, ps1⟩ h1 => ?_)
  refine Post.bind _ (trinkle_rel e h1 _ _ _ _) (fun s2 h2 => ?_)
  exact dismantle_rel e s _ _ _ _ h2

end SafeC.Sort

namespace SafeC.Sort

/-- the environment `qsort_musl` runs `smooth` in -/
def envOf (fx : Fixes) (c : Cmp α) (lp : Array Nat) : Env α := ⟨c.cmp, c.ctx, lp, fx, c.trace⟩

theorem qsortMusl_rel (fx : Fixes) (c : Cmp α) (s : St α) (nel width : Nat) :
    Post (qsortMusl fx c s nel width) (fun r => Rel (envOf fx c #[]) s r) := by
  unfold qsortMusl
  refine Post.ite (fun _ => Post.ok (Rel.refl _ s)) (fun _ => ?_)
  refine Post.bind' (fun lp => ?_)
  exact (smooth_rel ⟨c.cmp, c.ctx, lp, fx, c.trace⟩ s _).mono (fun r h => ⟨h.perm, h.log, h.ncmp⟩)

theorem qsortChk_rel (fx : Fixes) (c : Cmp α) (g : Args) (s : St α) :
    Post (qsortChk fx c g s) (fun o => Rel (envOf fx c #[]) s o.st) := by
  have hrun : Post (do let s' ← qsortMusl fx c s g.nmemb g.size; pure (⟨SafeC.Gen.EOK, none, [], s'⟩ : Out α Nat))
      (fun o => Rel (envOf fx c #[]) s o.st) :=
    Post.bind _ (qsortMusl_rel fx c s _ _) (fun s' h => Post.pure h)
  unfold qsortChk
  refine Post.ite (fun _ => Post.ok (Rel.refl _ s)) (fun _ => ?_)
  split
  · exact Post.ite (fun _ => Post.ok (Rel.refl _ s)) (fun _ => hrun)
  · refine Post.ite (fun _ => ?_) (fun _ => ?_)
    · exact Post.ite (fun _ => Post.ok (Rel.refl _ s)) (fun _ => hrun)
    · exact Post.ite (fun _ => Post.ok (Rel.refl _ s)) (fun _ => hrun)

end SafeC.Sort

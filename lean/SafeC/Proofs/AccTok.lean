import SafeC.Proofs.AccS
import SafeC.Proofs.AccQuery
/-!
# Footprint of the tokenizers `strtok_s` / `wcstok_s` (value-aware, with the terminator they store)

Both scans are `while (*dest != '\0' …) { if (dlen == 0) <error>; … }`: `*dest` is evaluated before the
counter, so `dest[dmax]` is read when no terminator precedes it — and the ESUNTERM exit then STORES `'\0'` there.
Reads and writes of dest therefore lie in `Str d dest (dmax+1)`; the delimiter string is read up to its terminator
within `STRTOK_DELIM_MAX_LEN + 1` cells.
-/
namespace SafeC
open Gen

variable {R W : Nat → Prop} {d : Nat → Nat}

theorem AccD_delimScan1 (dest slen pt : Nat) (tok : Bool) (hd0 : R dest) (hp : ∀ a, Str d pt (slen+1) a → R a) :
    AccD d R (delimScan1 dest slen pt tok) (fun _ => True) := by
  induction slen generalizing pt tok with
  | zero =>
    have h0 : R pt := hp _ (Str.head (by omega))
    unfold delimScan1
    accd_walk [assumption]
  | succ n ih =>
    have h0 : R pt := hp _ (Str.head (by omega))
    unfold delimScan1
    accd_walk [assumption] using ih _ _ (fun a h => hp a (Str.succ (by omega) h))

theorem AccD_delimScan2 (dest slen pt : Nat) (hd0 : R dest) (hp : ∀ a, Str d pt (slen+1) a → R a) :
    AccD d R (delimScan2 dest slen pt) (fun _ => True) := by
  induction slen generalizing pt with
  | zero =>
    have h0 : R pt := hp _ (Str.head (by omega))
    unfold delimScan2
    accd_walk [assumption]
  | succ n ih =>
    have h0 : R pt := hp _ (Str.head (by omega))
    unfold delimScan2
    accd_walk [assumption] using ih _ (fun a h => hp a (Str.succ (by omega) h))

theorem AccS_tokUnterm (dest : Nat) (h : W dest) : AccS R W d (tokUnterm dest) (fun _ _ => True) := by
  unfold tokUnterm
  exact AccS.storeBind h (AccS.handlerSBind _ (AccS.pure _ trivial))

/-- what the first scan hands to the second: the rest of the buffer, still inside the footprint, contents untouched -/
def Scan1Post (R W : Nat → Prop) (d : Nat → Nat) : Scan1 → (Nat → Nat) → Prop
  | .out _, _ => True
  | .exit _ p l, d' => d' = d ∧ (∀ a, Str d p (l+1) a → R a) ∧ (∀ a, Str d p (l+1) a → W a)

theorem AccS_scan1 (wide : Bool) (delim dlen dest : Nat)
    (hr : ∀ a, Str d dest (dlen+1) a → R a) (hw : ∀ a, Str d dest (dlen+1) a → W a)
    (hdl : ∀ a, Str d delim (STRTOK_DELIM_MAX_LEN+1) a → R a) :
    AccS R W d (scan1 wide delim dlen dest) (Scan1Post R W d) := by
  induction dlen generalizing dest with
  | zero =>
    have h0 : R dest := hr _ (Str.head (by omega))
    have w0 : W dest := hw _ (Str.head (by omega))
    unfold scan1
    refine AccS.loadBind h0 ?_
    split
    · exact AccS.pure _ ⟨rfl, hr, hw⟩
    · split
      · exact AccS.bind (AccS_tokUnterm dest w0) (fun _ _ _ => AccS.pure _ trivial)
      · exact AccS.handlerSBind _ (AccS.pure _ trivial)
  | succ n ih =>
    have h0 : R dest := hr _ (Str.head (by omega))
    have w0 : W dest := hw _ (Str.head (by omega))
    unfold scan1
    refine AccS.loadBind h0 ?_
    split
    · exact AccS.pure _ ⟨rfl, hr, hw⟩
    · rename_i hne
      refine AccS.bind (AccS.of_AccD (AccD_delimScan1 dest _ delim false h0 hdl)) (fun r d' hq => ?_)
      obtain ⟨rfl, _⟩ := hq
      cases r with
      | tooLong => exact AccS.bind (AccS_tokUnterm dest w0) (fun _ _ _ => AccS.pure _ trivial)
      | done tok =>
        cases tok with
        | true =>
          have h1 : R (dest+1) := hr _ (Str.succ hne (Str.head (by omega)))
          exact AccS.loadBind h1 (AccS.pure _ ⟨rfl, fun a h => hr a (Str.succ hne h), fun a h => hw a (Str.succ hne h)⟩)
        | false => exact ih (dest+1) (fun a h => hr a (Str.succ hne h)) (fun a h => hw a (Str.succ hne h))

theorem AccS_scan2 (delim ptoken dlen dest : Nat)
    (hr : ∀ a, Str d dest (dlen+1) a → R a) (hw : ∀ a, Str d dest (dlen+1) a → W a)
    (hdl : ∀ a, Str d delim (STRTOK_DELIM_MAX_LEN+1) a → R a) :
    AccS R W d (scan2 delim ptoken dlen dest) (fun _ _ => True) := by
  induction dlen generalizing dest with
  | zero =>
    have h0 : R dest := hr _ (Str.head (by omega))
    have w0 : W dest := hw _ (Str.head (by omega))
    unfold scan2
    refine AccS.loadBind h0 ?_
    split
    · exact AccS.pure _ trivial
    · exact AccS_tokUnterm dest w0
  | succ n ih =>
    have h0 : R dest := hr _ (Str.head (by omega))
    have w0 : W dest := hw _ (Str.head (by omega))
    unfold scan2
    refine AccS.loadBind h0 ?_
    split
    · exact AccS.pure _ trivial
    · rename_i hne
      refine AccS.bind (AccS.of_AccD (AccD_delimScan2 dest _ delim h0 hdl)) (fun r d' hq => ?_)
      obtain ⟨rfl, _⟩ := hq
      cases r with
      | tooLong => exact AccS_tokUnterm dest w0
      | hit => exact AccS.storeBind w0 (AccS.pure _ trivial)
      | miss => exact ih (dest+1) (fun a h => hr a (Str.succ hne h)) (fun a h => hw a (Str.succ hne h))

theorem AccS_tokBody (wide : Bool) (delim dest dlen : Nat)
    (hr : ∀ a, Str d dest (dlen+1) a → R a) (hw : ∀ a, Str d dest (dlen+1) a → W a)
    (hdl : ∀ a, Str d delim (STRTOK_DELIM_MAX_LEN+1) a → R a) :
    AccS R W d (tokBody wide delim dest dlen) (fun _ _ => True) := by
  unfold tokBody
  refine AccS.bind (AccS_scan1 wide delim dlen dest hr hw hdl) (fun r d' hq => ?_)
  cases r with
  | out o => exact AccS.pure _ trivial
  | exit ptoken p l =>
    obtain ⟨rfl, g1, g2⟩ := hq
    dsimp only
    split
    · exact AccS.pure _ trivial
    · exact AccS_scan2 delim ptoken l p g1 g2 hdl

theorem AccS_tokFail (c : Nat) : AccS R W d (tokFail c) (fun _ _ => True) := by
  unfold tokFail; exact AccS.handlerSBind _ (AccS.pure _ trivial)

/-- the buffer a call scans: `dest`, or the saved `*ptr` when `dest` is NULL -/
def tokBuf (dest pv : Nat) : Nat := if dest = 0 then pv else dest

theorem strtok_s_accs (dest : Nat) (dmaxp : Option Nat) (delim : Nat) (ptr : Option Nat) (b : Bos)
    (hr : ∀ dmax pv, dmaxp = some dmax → ptr = some pv → tokBuf dest pv ≠ 0 → ∀ a, Str d (tokBuf dest pv) (dmax+1) a → R a)
    (hw : ∀ dmax pv, dmaxp = some dmax → ptr = some pv → tokBuf dest pv ≠ 0 → ∀ a, Str d (tokBuf dest pv) (dmax+1) a → W a)
    (hdl : delim ≠ 0 → ∀ a, Str d delim (STRTOK_DELIM_MAX_LEN+1) a → R a) :
    AccS R W d (strtok_s dest dmaxp delim ptr b) (fun _ _ => True) := by
  unfold strtok_s
  cases dmaxp with
  | none => exact AccS_tokFail _
  | some dmax =>
    dsimp only
    split
    · exact AccS_tokFail _
    · split
      · exact AccS_tokFail _
      · rename_i hdn
        cases ptr with
        | none => exact AccS_tokFail _
        | some pv =>
          have body : tokBuf dest pv ≠ 0 → AccS R W d (tokBody false delim (tokBuf dest pv) dmax) (fun _ _ => True) :=
            fun hp => AccS_tokBody false delim (tokBuf dest pv) dmax
              (hr dmax pv rfl rfl hp) (hw dmax pv rfl rfl hp) (hdl hdn)
          by_cases hz : dest = 0
          · subst hz
            have e : tokBuf 0 pv = pv := by simp [tokBuf]
            rw [e] at body
            simp only [↓reduceIte]
            repeat (first | exact AccS_tokFail _ | exact body ‹_› | split)
          · have e : tokBuf dest pv = dest := by simp [tokBuf, hz]
            rw [e] at body
            simp only [hz, ↓reduceIte]
            repeat (first | exact AccS_tokFail _ | exact body ‹_› | split)

theorem wcstok_s_accs (dest : Nat) (dmaxp : Option Nat) (delim : Nat) (ptr : Option Nat) (b : Bos)
    (hr : ∀ dmax pv, dmaxp = some dmax → ptr = some pv → tokBuf dest pv ≠ 0 → ∀ a, Str d (tokBuf dest pv) (dmax+1) a → R a)
    (hw : ∀ dmax pv, dmaxp = some dmax → ptr = some pv → tokBuf dest pv ≠ 0 → ∀ a, Str d (tokBuf dest pv) (dmax+1) a → W a)
    (hdl : delim ≠ 0 → ∀ a, Str d delim (STRTOK_DELIM_MAX_LEN+1) a → R a) :
    AccS R W d (wcstok_s dest dmaxp delim ptr b) (fun _ _ => True) := by
  unfold wcstok_s
  cases dmaxp with
  | none => exact AccS_tokFail _
  | some dmax =>
    dsimp only
    split
    · exact AccS_tokFail _
    · split
      · exact AccS_tokFail _
      · split
        · exact AccS_tokFail _
        · rename_i hdn
          cases ptr with
          | none => exact AccS_tokFail _
          | some pv =>
            have body : tokBuf dest pv ≠ 0 → AccS R W d (tokBody true delim (tokBuf dest pv) dmax) (fun _ _ => True) :=
              fun hp => AccS_tokBody true delim (tokBuf dest pv) dmax
                (hr dmax pv rfl rfl hp) (hw dmax pv rfl rfl hp) (hdl hdn)
            by_cases hz : dest = 0
            · subst hz
              have e : tokBuf 0 pv = pv := by simp [tokBuf]
              rw [e] at body
              simp only [↓reduceIte]
              repeat (first | exact AccS_tokFail _ | exact body ‹_› | split)
            · have e : tokBuf dest pv = dest := by simp [tokBuf, hz]
              rw [e] at body
              simp only [hz, ↓reduceIte]
              repeat (first | exact AccS_tokFail _ | exact body ‹_› | split)

end SafeC

import SafeC.Proofs.PrintfStr
/-!
# C11: the directive parser of `safec_vsnprintf_s` reads a conversion specification as `Spec.parseDir` does
-/
namespace SafeC.Printf
open SafeC.Printf.Spec

/-! ### `Spec.parseDir` cut into its stages (text of `parseDir`) -/

def sWidth (d : Dir) (f : Str) (args : List Arg) : Option (Dir × Str × List Arg) :=
    match f with
    | '*' :: r => do
      let (w, as) ← starArg args
      pure (if w < 0 then { d with minus := true, width := (-w).toNat } else { d with width := w.toNat }, r, as)
    | _ => pure ({ d with width := decVal (f.takeWhile Char.isDigit) }, f.dropWhile Char.isDigit, args)

def sPrec (d : Dir) (f : Str) (args : List Arg) : Option (Dir × Str × List Arg) :=
    match f with
    | '.' :: '*' :: r => do
      let (p, as) ← starArg args
      pure (if p < 0 then d else { d with prec := some p.toNat }, r, as)
    | '.' :: r => pure ({ d with prec := some (decVal (r.takeWhile Char.isDigit)) }, r.dropWhile Char.isDigit, args)
    | _ => pure (d, f, args)

def sLen (d : Dir) (f : Str) : Dir × Str :=
    match f with
    | 'h' :: 'h' :: r => ({ d with len := .hh }, r)
    | 'h' :: r => ({ d with len := .h }, r)
    | 'l' :: 'l' :: r => ({ d with len := .ll }, r)
    | 'l' :: r => ({ d with len := .l }, r)
    | 'j' :: r => ({ d with len := .j }, r)
    | 'z' :: r => ({ d with len := .z }, r)
    | 't' :: r => ({ d with len := .t }, r)
    | _ => (d, f)

def stage3 (x : Dir × Str × List Arg) : Option (Dir × Str × List Arg) :=
  match x with
  | (d, f, args) =>
    match sLen d f with
    | (d, f) =>
      match f with
      | [] => none
      | c :: r => pure ({ d with conv := c }, r, args)

def stage2 (x : Dir × Str × List Arg) : Option (Dir × Str × List Arg) :=
  match x with
  | (d, f, args) => sPrec d f args >>= stage3

theorem sPrec_bind (d : Dir) (f : Str) (args : List Arg) (k : Dir × Str × List Arg → Option (Dir × Str × List Arg)) :
    (match f with
      | '.' :: '*' :: r => do
        let __x ← starArg args
        match __x with
          | (p, as) => do
            let __x ← pure (if p < 0 then d else { d with prec := some p.toNat }, r, as)
            k __x
      | '.' :: r => do
        let __x ← pure ({ d with prec := some (decVal (r.takeWhile Char.isDigit)) }, r.dropWhile Char.isDigit, args)
        k __x
      | _ => do
        let __x ← pure (d, f, args)
        k __x) = sPrec d f args >>= k := by
  unfold sPrec
  split
  · simp only [Option.bind_eq_bind, Option.pure_def, Option.bind_some]
    cases starArg args <;> rfl
  · rfl
  · rfl

theorem sWidth_bind (d : Dir) (f : Str) (args : List Arg) (k : Dir × Str × List Arg → Option (Dir × Str × List Arg)) :
    (match f with
      | '*' :: r => do
        let __x ← starArg args
        match __x with
          | (w, as) => do
            let __x ← pure (if w < 0 then { d with minus := true, width := (-w).toNat } else { d with width := w.toNat }, r, as)
            k __x
      | _ => do
        let __x ← pure ({ d with width := decVal (f.takeWhile Char.isDigit) }, f.dropWhile Char.isDigit, args)
        k __x) = sWidth d f args >>= k := by
  unfold sWidth
  split
  · simp only [Option.bind_eq_bind, Option.pure_def, Option.bind_some]
    cases starArg args <;> rfl
  · rfl

theorem parseDir_stages (f : Str) (args : List Arg) :
    parseDir f args = sWidth (setFlags {} (f.takeWhile isFlag)) (f.dropWhile isFlag) args >>= stage2 := by
  unfold parseDir
  extract_lets d0 f0 jp3 jp2
  have h3 : jp3 = stage3 := by
    funext x
    obtain ⟨d, f, args⟩ := x
    rfl
  have h2 : jp2 = stage2 := by
    funext x
    obtain ⟨d, f, args⟩ := x
    simp only [jp2, stage2, h3]
    exact sPrec_bind d f args stage3
  rw [h2]
  exact sWidth_bind d0 f0 args stage2

/-! ### the engine's parser stage by stage -/

theorem cfl_of_none (d : Dir) (hl : d.len = .none) :
    cfl d = { zeropad := d.zero, left := d.minus, plus := d.plus, space := d.space, hash := d.hash, precision := d.prec.isSome } := by
  unfold cfl lenFlags; rw [hl]

theorem setFlags_len : ∀ (cs : Str) (d : Dir), (setFlags d cs).len = d.len ∧ (setFlags d cs).prec = d.prec ∧ (setFlags d cs).width = d.width := by
  intro cs
  induction cs with
  | nil => intro d; exact ⟨rfl, rfl, rfl⟩
  | cons c r ih =>
    intro d
    unfold setFlags
    obtain ⟨h1, h2, h3⟩ := ih (if c = '-' then { d with minus := true } else if c = '+' then { d with plus := true }
                        else if c = ' ' then { d with space := true } else if c = '#' then { d with hash := true }
                        else if c = '0' then { d with zero := true } else d)
    rw [h1, h2, h3]
    repeat' split
    all_goals exact ⟨rfl, rfl, rfl⟩

theorem cfl_set_zero (d : Dir) (hl : d.len = .none) : { cfl d with zeropad := true } = cfl { d with zero := true } := by
  rw [cfl_of_none d hl, cfl_of_none { d with zero := true } hl]
theorem cfl_set_minus (d : Dir) (hl : d.len = .none) : { cfl d with left := true } = cfl { d with minus := true } := by
  rw [cfl_of_none d hl, cfl_of_none { d with minus := true } hl]
theorem cfl_set_plus (d : Dir) (hl : d.len = .none) : { cfl d with plus := true } = cfl { d with plus := true } := by
  rw [cfl_of_none d hl, cfl_of_none { d with plus := true } hl]
theorem cfl_set_space (d : Dir) (hl : d.len = .none) : { cfl d with space := true } = cfl { d with space := true } := by
  rw [cfl_of_none d hl, cfl_of_none { d with space := true } hl]
theorem cfl_set_hash (d : Dir) (hl : d.len = .none) : { cfl d with hash := true } = cfl { d with hash := true } := by
  rw [cfl_of_none d hl, cfl_of_none { d with hash := true } hl]

/-- the flag loop = `takeWhile isFlag` + `setFlags` -/
theorem parseFlags_eq : ∀ (f : Str) (d : Dir), d.len = .none →
    parseFlags f (cfl d) = (cfl (setFlags d (f.takeWhile isFlag)), f.dropWhile isFlag) := by
  intro f
  induction f with
  | nil => intro d _; rfl
  | cons c r ih =>
    intro d hl
    unfold parseFlags
    by_cases h0 : c = '0'
    · subst h0
      simp only [if_true, List.takeWhile_cons, List.dropWhile_cons, show isFlag '0' = true from rfl, setFlags,
        show ¬ (('0' : Char) = '-') by decide, show ¬ (('0' : Char) = '+') by decide, show ¬ (('0' : Char) = ' ') by decide,
        show ¬ (('0' : Char) = '#') by decide, if_false]
      rw [cfl_set_zero d hl]; exact ih _ hl
    · by_cases h1 : c = '-'
      · subst h1
        simp only [if_true, List.takeWhile_cons, List.dropWhile_cons, show isFlag '-' = true from rfl, setFlags,
          show ¬ (('-' : Char) = '0') by decide, if_false]
        rw [cfl_set_minus d hl]; exact ih _ hl
      · by_cases h2 : c = '+'
        · subst h2
          simp only [if_true, List.takeWhile_cons, List.dropWhile_cons, show isFlag '+' = true from rfl, setFlags,
            show ¬ (('+' : Char) = '0') by decide, show ¬ (('+' : Char) = '-') by decide, if_false]
          rw [cfl_set_plus d hl]; exact ih _ hl
        · by_cases h3 : c = ' '
          · subst h3
            simp only [if_true, List.takeWhile_cons, List.dropWhile_cons, show isFlag ' ' = true from rfl, setFlags,
              show ¬ ((' ' : Char) = '0') by decide, show ¬ ((' ' : Char) = '-') by decide, show ¬ ((' ' : Char) = '+') by decide, if_false]
            rw [cfl_set_space d hl]; exact ih _ hl
          · by_cases h4 : c = '#'
            · subst h4
              simp only [if_true, List.takeWhile_cons, List.dropWhile_cons, show isFlag '#' = true from rfl, setFlags,
                show ¬ (('#' : Char) = '0') by decide, show ¬ (('#' : Char) = '-') by decide, show ¬ (('#' : Char) = '+') by decide,
                show ¬ (('#' : Char) = ' ') by decide, if_false]
              rw [cfl_set_hash d hl]; exact ih _ hl
            · have hf : isFlag c = false := by simp [isFlag, h0, h1, h2, h3, h4]
              simp only [h0, h1, h2, h3, h4, if_false, List.takeWhile_cons, List.dropWhile_cons, hf, Bool.false_eq_true, setFlags]

/-- `decVal` continued from an accumulator -/
def decFrom (i : Nat) (s : Str) : Nat := s.foldl (fun a c => a * 10 + (c.toNat - 48)) i

theorem decFrom_ge : ∀ (s : Str) (i : Nat), i ≤ decFrom i s := by
  intro s
  induction s with
  | nil => intro i; exact Nat.le_refl _
  | cons c r ih =>
    intro i
    simp only [decFrom, List.foldl_cons]
    have := ih (i * 10 + (c.toNat - 48))
    simp only [decFrom] at this
    omega

/-- `safec_atoi` reads the numeral exactly as long as it stays below 2^32 (finding printf-width-numeral-wraps otherwise) -/
theorem atoi_eq : ∀ (f : Str) (i : Nat), decFrom i (f.takeWhile Char.isDigit) < 2 ^ 32 →
    atoi f i = (decFrom i (f.takeWhile Char.isDigit), f.dropWhile Char.isDigit) := by
  intro f
  induction f with
  | nil => intro i _; rfl
  | cons c r ih =>
    intro i h
    unfold atoi
    by_cases hc : c.isDigit = true
    · simp only [hc, if_true, List.takeWhile_cons, List.dropWhile_cons] at h ⊢
      simp only [decFrom, List.foldl_cons] at h ⊢
      have hge := decFrom_ge (r.takeWhile Char.isDigit) (i * 10 + (c.toNat - 48))
      simp only [decFrom] at hge
      have hmod : (i * 10 + (c.toNat - 48)) % 2 ^ 32 = i * 10 + (c.toNat - 48) := Nat.mod_eq_of_lt (by omega)
      rw [hmod]
      exact ih _ h
    · simp only [hc, Bool.false_eq_true, if_false, List.takeWhile_cons, List.dropWhile_cons, decFrom, List.foldl_nil]

theorem decVal_eq (s : Str) : decVal s = decFrom 0 s := rfl

theorem starArg_some (args : List Arg) (w : Int) (as : List Arg) (h : starArg args = some (w, as)) :
    ∃ v, args = .int v :: as ∧ w = wrapS 32 v := by
  unfold starArg at h
  split at h
  · simp at h; exact ⟨_, by rw [h.2], h.1.symm⟩
  · cases h

/-- field width: the engine reads what `Spec.parseDir` reads, when the width is below 2^32 -/
theorem parseWidth_eq (d : Dir) (hl : d.len = .none) (f : Str) (args : List Arg) (d1 : Dir) (f1 : Str) (a1 : List Arg)
    (h : sWidth d f args = some (d1, f1, a1)) (hw : d1.width < 2 ^ 32) :
    parseWidth f (cfl d) args = .ok (cfl d1, d1.width, f1, a1) ∧ d1.len = d.len ∧ d1.prec = d.prec := by
  unfold sWidth at h
  split at h
  · -- '*'
    rename_i r
    cases hs : starArg args with
    | none => simp [hs] at h
    | some p =>
      obtain ⟨w, as⟩ := p
      obtain ⟨v, rfl, rfl⟩ := starArg_some _ _ _ hs
      simp only [hs, Option.bind_eq_bind, Option.bind_some, Option.pure_def, Option.some.injEq, Prod.mk.injEq] at h
      obtain ⟨h1, rfl, rfl⟩ := h
      subst h1
      unfold parseWidth
      simp only [show ('*' : Char).isDigit = false from by decide, Bool.false_eq_true, if_false, if_true, nextInt, bind, Except.bind]
      by_cases hneg : wrapS 32 v < 0
      · simp only [hneg, if_true]
        refine ⟨?_, by simp⟩
        rw [cfl_set_minus d hl, wrapU32_neg v hneg]; rfl
      · simp only [hneg, if_false]
        exact ⟨rfl, by simp⟩
  · rename_i hns
    simp only [Option.pure_def, Option.some.injEq, Prod.mk.injEq] at h
    obtain ⟨h1, rfl, rfl⟩ := h
    subst h1
    refine ⟨?_, rfl, rfl⟩
    simp only at hw
    unfold parseWidth
    cases f with
    | nil => rfl
    | cons c r =>
      simp only
      by_cases hc : c.isDigit = true
      · simp only [hc, if_true]
        rw [decVal_eq] at hw ⊢
        rw [atoi_eq (c :: r) 0 hw]; rfl
      · have hstar : c ≠ '*' := fun hh => hns r (by rw [hh])
        simp only [hc, Bool.false_eq_true, if_false, hstar, List.takeWhile_cons, List.dropWhile_cons, decVal, List.foldl_nil]
        rfl

theorem cfl_set_prec (d : Dir) (hl : d.len = .none) (n : Nat) : { cfl d with precision := true } = cfl { d with prec := some n } := by
  rw [cfl_of_none d hl, cfl_of_none { d with prec := some n } hl]; rfl

theorem cfl_prec_false (d : Dir) (hl : d.len = .none) (hp : d.prec = Option.none) : { cfl d with precision := false } = cfl d := by
  rw [cfl_of_none d hl, hp]; rfl

/-- precision: the repaired engine (`Fixes.negStarPrec`) reads what `Spec.parseDir` reads, when the precision is below 2^32 -/
theorem parsePrec_eq (fx : Fixes) (hn : fx.negStarPrec = true) (d : Dir) (hl : d.len = .none) (hp : d.prec = Option.none)
    (f : Str) (args : List Arg) (d2 : Dir) (f2 : Str) (a2 : List Arg)
    (h : sPrec d f args = some (d2, f2, a2)) (hpb : d2.prec.getD 0 < 2 ^ 32) :
    parsePrec fx f (cfl d) args = .ok (cfl d2, d2.prec.getD 0, f2, a2) ∧ d2.len = d.len ∧ d2.width = d.width := by
  unfold sPrec at h
  split at h
  · rename_i r
    cases hs : starArg args with
    | none => simp [hs] at h
    | some p =>
      obtain ⟨w, as⟩ := p
      obtain ⟨v, rfl, rfl⟩ := starArg_some _ _ _ hs
      simp only [hs, Option.bind_eq_bind, Option.bind_some, Option.pure_def, Option.some.injEq, Prod.mk.injEq] at h
      obtain ⟨h1, rfl, rfl⟩ := h
      subst h1
      unfold parsePrec
      simp only [show ('*' : Char).isDigit = false from by decide, Bool.false_eq_true, if_false, if_true, nextInt, bind, Except.bind, hn, Bool.true_and]
      by_cases hneg : wrapS 32 v < 0
      · simp only [hneg, if_true, decide_true]
        refine ⟨?_, by simp⟩
        rw [hp]; simp only [Option.getD_none]
        have := cfl_prec_false d hl hp
        rw [← this]
      · simp only [hneg, if_false, decide_false, Bool.false_eq_true]
        refine ⟨?_, by simp⟩
        rw [cfl_set_prec d hl (wrapS 32 v).toNat]
        simp only [Option.getD_some]
        have : (if wrapS 32 v > 0 then (wrapS 32 v).toNat else 0) = (wrapS 32 v).toNat := by split <;> omega
        rw [this]
  · rename_i r hns
    simp only [Option.pure_def, Option.some.injEq, Prod.mk.injEq] at h
    obtain ⟨h1, rfl, rfl⟩ := h
    subst h1
    refine ⟨?_, rfl, rfl⟩
    simp only [Option.getD_some] at hpb ⊢
    unfold parsePrec
    simp only [if_true]
    rw [cfl_set_prec d hl (decVal (List.takeWhile Char.isDigit r))]
    cases r with
    | nil => rfl
    | cons c r' =>
      simp only
      by_cases hc : c.isDigit = true
      · simp only [hc, if_true]
        rw [decVal_eq] at hpb ⊢
        rw [atoi_eq (c :: r') 0 hpb]
      · have hstar : c ≠ '*' := fun hh => hns r' (by rw [hh])
        simp only [hc, Bool.false_eq_true, if_false, hstar, List.takeWhile_cons, List.dropWhile_cons, decVal, List.foldl_nil]
  · rename_i h1 h2
    simp only [Option.pure_def, Option.some.injEq, Prod.mk.injEq] at h
    obtain ⟨rfl, rfl, rfl⟩ := h
    refine ⟨?_, rfl, rfl⟩
    rw [hp]; simp only [Option.getD_none]
    unfold parsePrec
    cases f with
    | nil => rfl
    | cons c r =>
      have hdot : c ≠ '.' := fun hh => h2 r (by rw [hh])
      simp only [hdot, if_false]

/-- length modifier: the engine's length switch sets the bits of the modifier `Spec.parseDir` reads (`L` aside) -/
theorem parseLength_eq (d : Dir) (hl : d.len = .none) (f : Str) (hL : f.head? ≠ some 'L') :
    parseLength f (cfl d) = (cfl (sLen d f).1, (sLen d f).2) ∧ (sLen d f).1.width = d.width ∧ (sLen d f).1.prec = d.prec := by
  rw [cfl_of_none d hl]
  unfold sLen
  split
  · refine ⟨?_, rfl, rfl⟩; simp (config := {decide := true}) only [parseLength, if_true, if_false]; rfl
  · rename_i r h
    refine ⟨?_, rfl, rfl⟩
    unfold parseLength
    simp (config := {decide := true}) only [if_false, if_true]
    rfl
  · refine ⟨?_, rfl, rfl⟩; simp (config := {decide := true}) only [parseLength, if_true, if_false]; rfl
  · rename_i r h
    refine ⟨?_, rfl, rfl⟩
    unfold parseLength
    simp (config := {decide := true}) only [if_true]
    rfl
  · refine ⟨?_, rfl, rfl⟩; simp (config := {decide := true}) only [parseLength, if_true, if_false]; rfl
  · refine ⟨?_, rfl, rfl⟩; simp (config := {decide := true}) only [parseLength, if_true, if_false]; rfl
  · refine ⟨?_, rfl, rfl⟩; simp (config := {decide := true}) only [parseLength, if_true, if_false]; rfl
  · rename_i h1 h2 h3 h4 h5 h6 h7
    refine ⟨?_, rfl, rfl⟩
    cases f with
    | nil => show parseLength [] _ = (cfl d, []); rw [cfl_of_none d hl]; rfl
    | cons c r =>
      show parseLength (c :: r) _ = (cfl d, c :: r)
      rw [cfl_of_none d hl]
      have hl' : c ≠ 'l' := fun hh => h4 r (by rw [hh])
      have hh' : c ≠ 'h' := fun hh => h2 r (by rw [hh])
      have hj : c ≠ 'j' := fun hh => h5 r (by rw [hh])
      have hz : c ≠ 'z' := fun hh => h6 r (by rw [hh])
      have ht : c ≠ 't' := fun hh => h7 r (by rw [hh])
      have hLL : c ≠ 'L' := fun hh => hL (by rw [hh]; rfl)
      simp only [parseLength, hl', hh', hj, hz, ht, hLL, if_false, or_self]

end SafeC.Printf

import SafeC.Proofs.PrintfStr
/-!
# C11: the directive parser of `safec_vsnprintf_s` reads a conversion specification as `Spec.parseDir` does
-/
namespace SafeC.Printf
open SafeC.Printf.Spec

/-! ### `Spec.parseDir` cut into its stages (text of `parseDir`) -/

def sWidth (d : Dir) (f : Str) (args : List Arg) : Option (Dir × Str × List Arg) :=
    match f with
    | '*' :: r => do
      let (w, as) ← starArg args
      pure (if w < 0 then { d with minus := true, width := (-w).toNat } else { d with width := w.toNat }, r, as)
    | _ => pure ({ d with width := decVal (f.takeWhile Char.isDigit) }, f.dropWhile Char.isDigit, args)

def sPrec (d : Dir) (f : Str) (args : List Arg) : Option (Dir × Str × List Arg) :=
    match f with
    | '.' :: '*' :: r => do
      let (p, as) ← starArg args
      pure (if p < 0 then d else { d with prec := some p.toNat }, r, as)
    | '.' :: r => pure ({ d with prec := some (decVal (r.takeWhile Char.isDigit)) }, r.dropWhile Char.isDigit, args)
    | _ => pure (d, f, args)

def sLen (d : Dir) (f : Str) : Dir × Str :=
    match f with
    | 'h' :: 'h' :: r => ({ d with len := .hh }, r)
    | 'h' :: r => ({ d with len := .h }, r)
    | 'l' :: 'l' :: r => ({ d with len := .ll }, r)
    | 'l' :: r => ({ d with len := .l }, r)
    | 'j' :: r => ({ d with len := .j }, r)
    | 'z' :: r => ({ d with len := .z }, r)
    | 't' :: r => ({ d with len := .t }, r)
    | _ => (d, f)

def stage3 (x : Dir × Str × List Arg) : Option (Dir × Str × List Arg) :=
  match x with
  | (d, f, args) =>
    match sLen d f with
    | (d, f) =>
      match f with
      | [] => none
      | c :: r => pure ({ d with conv := c }, r, args)

def stage2 (x : Dir × Str × List Arg) : Option (Dir × Str × List Arg) :=
  match x with
  | (d, f, args) => sPrec d f args >>= stage3

theorem sPrec_bind (d : Dir) (f : Str) (args : List Arg) (k : Dir × Str × List Arg → Option (Dir × Str × List Arg)) :
    (match f with
      | '.' :: '*' :: r => do
        let __x ← starArg args
        match __x with
          | (p, as) => do
            let __x ← pure (if p < 0 then d else { d with prec := some p.toNat }, r, as)
            k __x
      | '.' :: r => do
        let __x ← pure ({ d with prec := some (decVal (r.takeWhile Char.isDigit)) }, r.dropWhile Char.isDigit, args)
        k __x
      | _ => do
        let __x ← pure (d, f, args)
        k __x) = sPrec d f args >>= k := by
  unfold sPrec
  split
  · simp only [Option.bind_eq_bind, Option.pure_def, Option.bind_some]
    cases starArg args <;> rfl
  · rfl
  · rfl

theorem sWidth_bind (d : Dir) (f : Str) (args : List Arg) (k : Dir × Str × List Arg → Option (Dir × Str × List Arg)) :
    (match f with
      | '*' :: r => do
        let __x ← starArg args
        match __x with
          | (w, as) => do
            let __x ← pure (if w < 0 then { d with minus := true, width := (-w).toNat } else { d with width := w.toNat }, r, as)
            k __x
      | _ => do
        let __x ← pure ({ d with width := decVal (f.takeWhile Char.isDigit) }, f.dropWhile Char.isDigit, args)
        k __x) = sWidth d f args >>= k := by
  unfold sWidth
  split
  · simp only [Option.bind_eq_bind, Option.pure_def, Option.bind_some]
    cases starArg args <;> rfl
  · rfl

theorem parseDir_stages (f : Str) (args : List Arg) :
    parseDir f args = sWidth (setFlags {} (f.takeWhile isFlag)) (f.dropWhile isFlag) args >>= stage2 := by
  unfold parseDir
  extract_lets d0 f0 jp3 jp2
  have h3 : jp3 = stage3 := by
    funext x
    obtain ⟨d, f, args⟩ := x
    rfl
  have h2 : jp2 = stage2 := by
    funext x
    obtain ⟨d, f, args⟩ := x
    simp only [jp2, stage2, h3]
    exact sPrec_bind d f args stage3
  rw [h2]
  exact sWidth_bind d0 f0 args stage2

/-! ### the engine's parser stage by stage -/

theorem cfl_of_none (d : Dir) (hl : d.len = .none) :
    cfl d = { zeropad := d.zero, left := d.minus, plus := d.plus, space := d.space, hash := d.hash, precision := d.prec.isSome } := by
  unfold cfl lenFlags; rw [hl]

theorem setFlags_len : ∀ (cs : Str) (d : Dir), (setFlags d cs).len = d.len ∧ (setFlags d cs).prec = d.prec ∧ (setFlags d cs).width = d.width := by
  intro cs
  induction cs with
  | nil => intro d; exact ⟨rfl, rfl, rfl⟩
  | cons c r ih =>
    intro d
    unfold setFlags
    obtain ⟨h1, h2, h3⟩ := ih (if c = '-' then { d with minus := true } else if c = '+' then { d with plus := true }
                        else if c = ' ' then { d with space := true } else if c = '#' then { d with hash := true }
                        else if c = '0' then { d with zero := true } else d)
    rw [h1, h2, h3]
    repeat' split
    all_goals exact ⟨rfl, rfl, rfl⟩

theorem cfl_set_zero (d : Dir) (hl : d.len = .none) : { cfl d with zeropad := true } = cfl { d with zero := true } := by
  rw [cfl_of_none d hl, cfl_of_none { d with zero := true } hl]
theorem cfl_set_minus (d : Dir) (hl : d.len = .none) : { cfl d with left := true } = cfl { d with minus := true } := by
  rw [cfl_of_none d hl, cfl_of_none { d with minus := true } hl]
theorem cfl_set_plus (d : Dir) (hl : d.len = .none) : { cfl d with plus := true } = cfl { d with plus := true } := by
  rw [cfl_of_none d hl, cfl_of_none { d with plus := true } hl]
theorem cfl_set_space (d : Dir) (hl : d.len = .none) : { cfl d with space := true } = cfl { d with space := true } := by
  rw [cfl_of_none d hl, cfl_of_none { d with space := true } hl]
theorem cfl_set_hash (d : Dir) (hl : d.len = .none) : { cfl d with hash := true } = cfl { d with hash := true } := by
  rw [cfl_of_none d hl, cfl_of_none { d with hash := true } hl]

/-- the flag loop = `takeWhile isFlag` + `setFlags` -/
theorem parseFlags_eq : ∀ (f : Str) (d : Dir), d.len = .none →
    parseFlags f (cfl d) = (cfl (setFlags d (f.takeWhile isFlag)), f.dropWhile isFlag) := by
  intro f
  induction f with
  | nil => intro d _; rfl
  | cons c r ih =>
    intro d hl
    unfold parseFlags
    by_cases h0 : c = '0'
    · subst h0
      simp only [if_true, List.takeWhile_cons, List.dropWhile_cons, show isFlag '0' = true from rfl, setFlags,
        show ¬ (('0' : Char) = '-') by decide, show ¬ (('0' : Char) = '+') by decide, show ¬ (('0' : Char) = ' ') by decide,
        show ¬ (('0' : Char) = '#') by decide, if_false]
      rw [cfl_set_zero d hl]; exact ih _ hl
    · by_cases h1 : c = '-'
      · subst h1
        simp only [if_true, List.takeWhile_cons, List.dropWhile_cons, show isFlag '-' = true from rfl, setFlags,
          show ¬ (('-' : Char) = '0') by decide, if_false]
        rw [cfl_set_minus d hl]; exact ih _ hl
      · by_cases h2 : c = '+'
        · subst h2
          simp only [if_true, List.takeWhile_cons, List.dropWhile_cons, show isFlag '+' = true from rfl, setFlags,
            show ¬ (('+' : Char) = '0') by decide, show ¬ (('+' : Char) = '-') by decide, if_false]
          rw [cfl_set_plus d hl]; exact ih _ hl
        · by_cases h3 : c = ' '
          · subst h3
            simp only [if_true, List.takeWhile_cons, List.dropWhile_cons, show isFlag ' ' = true from rfl, setFlags,
              show ¬ ((' ' : Char) = '0') by decide, show ¬ ((' ' : Char) = '-') by decide, show ¬ ((' ' : Char) = '+') by decide, if_false]
            rw [cfl_set_space d hl]; exact ih _ hl
          · by_cases h4 : c = '#'
            · subst h4
              simp only [if_true, List.takeWhile_cons, List.dropWhile_cons, show isFlag '#' = true from rfl, setFlags,
                show ¬ (('#' : Char) = '0') by decide, show ¬ (('#' : Char) = '-') by decide, show ¬ (('#' : Char) = '+') by decide,
                show ¬ (('#' : Char) = ' ') by decide, if_false]
              rw [cfl_set_hash d hl]; exact ih _ hl
            · have hf : isFlag c = false := by simp [isFlag, h0, h1, h2, h3, h4]
              simp only [h0, h1, h2, h3, h4, if_false, List.takeWhile_cons, List.dropWhile_cons, hf, Bool.false_eq_true, setFlags]

end SafeC.Printf

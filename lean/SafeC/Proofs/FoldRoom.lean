import SafeC.Proofs.FoldStr2
/-!
# C17 — `wcsfc_s`: the source as a C string (everything behind the first 0 cell is not read), and the room check of
`fixes/wcsfc-multichar-room-check.diff` for ALL cell lists (no "no embedded terminator" hypothesis)
-/
namespace SafeC.Fold
open SafeC.Gen SafeC.Norm

theorem headD_cstr (l : List Nat) : (cstr l).headD 0 = l.headD 0 := by
  cases l with
  | nil => rfl
  | cons a l =>
    by_cases h : a = 0
    · simp [cstr, h]
    · simp [cstr, h]

theorem cstr_ne0 (l : List Nat) : ∀ c ∈ cstr l, c ≠ 0 := by
  induction l with
  | nil => intro c hc; cases hc
  | cons a l ih =>
    intro c hc
    by_cases h : a = 0
    · simp [cstr, h] at hc
    · have e : cstr (a :: l) = a :: cstr l := by simp [cstr, h]
      rw [e] at hc
      rcases List.mem_cons.mp hc with rfl | hc
      · exact h
      · exact ih c hc

/-- the loop reads the source as a C string: cells behind the first 0 do not matter (the look-ahead of the sigma rule sees that 0) -/
theorem fcLoop_cstr (fx : Fixes) : ∀ (src : List Nat) (dmax : Nat), fcLoop fx (cstr src) dmax = fcLoop fx src dmax
  | [], _ => rfl
  | cp :: rest, dmax => by
    by_cases h : cp = 0
    · subst h; simp [cstr, fcLoop]
    · have e : cstr (cp :: rest) = cp :: cstr rest := by simp [cstr, h]
      have ih := fcLoop_cstr fx rest
      rw [e]
      simp only [fcLoop, headD_cstr, ih]

theorem wcsfcS_cstr (fx : Fixes) (dmax : Nat) (src : List Nat) : wcsfcS fx dmax (cstr src) = wcsfcS fx dmax src := by
  unfold wcsfcS
  rw [fcLoop_cstr]

/-- with the range check and the room check: EVERY cell list (embedded terminators allowed), EVERY `dmax`: no store behind
`dest + dmax`, no table index out of bounds -/
theorem wcsfcS_room (fx : Fixes) (hfx : fx.rangeChk = true) (hf : fx.foldRoom = true) (dmax : Nat) (src : List Nat) :
    (wcsfcS fx dmax src).overrun = false ∧ (wcsfcS fx dmax src).oob = false := by
  rw [← wcsfcS_cstr]
  obtain ⟨h1, _, _, h4⟩ := wcsfcS_model fx hfx dmax (cstr src) (cstr_ne0 src)
  exact ⟨h4 hf, h1⟩

#print axioms fcLoop_cstr
#print axioms wcsfcS_room
end SafeC.Fold

import SafeC.Props.C05Mem
import SafeC.Models.Query
import SafeC.Models.Query2
/-!
# Event-judgement lemmas for the query families: posts, entry-check blocks, the `ev_walk` tactic, quiet loops
(helper lemmas for `Props/C05Query.lean`)
-/
namespace SafeC.Props.C05Query
open SafeC Gen SafeC.Props.C05Ev SafeC.Props.C05Mem

/-- result-code discipline: silent with a result code from `benign`, or one `k`-handler event with the returned code -/
def QPost {α} (benign : List Nat) (k : Kind) (code : α → Nat) : α → List Event → Prop :=
  fun y es => (es = [] ∧ code y ∈ benign) ∨ (code y ≠ EOK ∧ es = [.handler k (code y)])

/-- the same with the handler kind left open -/
def QPostAny {α} (benign : List Nat) (code : α → Nat) : α → List Event → Prop :=
  fun y es => (es = [] ∧ code y ∈ benign) ∨ (code y ≠ EOK ∧ ∃ k, es = [.handler k (code y)])

/-- predicates / counters: silent, or one str-handler event and the failure value -/
def FPost {α} (failv : α) : α → List Event → Prop :=
  fun y es => es = [] ∨ (y = failv ∧ ∃ c, c ≠ EOK ∧ es = [.handler .str c])

/-- outcome of an entry-check block returning `Option code` -/
def OptPost (k : Kind) : Option Nat → List Event → Prop :=
  fun r es => (r = none ∧ es = []) ∨ (∃ c, r = some c ∧ c ≠ EOK ∧ es = [.handler k c])

theorem optThen {β} {k : Kind} {p : Prog (Option Nat)} {f : Option Nat → Prog β} {R : β → List Event → Prop}
    (hp : EV p (OptPost k)) (hnone : EV (f none) R)
    (hsome : ∀ c, c ≠ EOK → EV (f (some c)) (fun y es' => R y ([.handler k c] ++ es'))) : EV (p >>= f) R := by
  refine EV.bind hp (fun r es h => ?_)
  rcases h with ⟨rfl, rfl⟩ | ⟨c, rfl, hc, rfl⟩
  · simpa using hnone
  · exact hsome c hc

theorem qFailS_ev (c : Nat) (hc : c ≠ EOK) : EV (qFailS c) (OptPost .str) := by
  unfold qFailS
  exact EV.bind (EV.handlerS c) (fun _ es he => by subst he; exact EV.pure _ (Or.inr ⟨c, rfl, hc, by simp⟩))
theorem qFailM_ev (c : Nat) (hc : c ≠ EOK) : EV (qFailM c) (OptPost .mem) := by
  unfold qFailM
  exact EV.bind (EV.handlerM c) (fun _ es he => by subst he; exact EV.pure _ (Or.inr ⟨c, rfl, hc, by simp⟩))
theorem optNone {k : Kind} : EV (pure none : Prog (Option Nat)) (OptPost k) := EV.pure _ (Or.inl ⟨rfl, rfl⟩)

macro "opt_walk" : tactic => `(tactic| repeat (first
  | exact qFailS_ev _ (by decide)
  | exact qFailM_ev _ (by decide)
  | exact optNone
  | split))

theorem qChkS_ev (dest dmax : Nat) (db : Bos) (src : Option Nat) : EV (qChkS dest dmax db src) (OptPost .str) := by
  unfold qChkS; opt_walk
theorem qChkM_ev (dest dmax : Nat) (db : Bos) : EV (qChkM dest dmax db) (OptPost .mem) := by
  unfold qChkM; opt_walk
theorem qChkSlenS_ev (slen : Nat) (sb : Bos) : EV (qChkSlenS slen sb) (OptPost .str) := by
  unfold qChkSlenS; opt_walk

theorem memcmpChecks_ev (max dlen slen dB sB dL dL' : Nat) (db sb : Bos) :
    EV (memcmpChecks max dlen slen dB sB dL dL' db sb) (OptPost .mem) := by
  unfold memcmpChecks
  refine EV.bind (Q := OptPost .mem) (by opt_walk) (fun r es h => ?_)
  rcases h with ⟨rfl, rfl⟩ | ⟨c, rfl, hc, rfl⟩
  · simp only [List.nil_append]
    split
    · exact qFailM_ev _ (by decide)
    · refine EV.bind (Q := OptPost .mem) (by opt_walk) (fun r es h => ?_)
      rcases h with ⟨rfl, rfl⟩ | ⟨c, rfl, hc, rfl⟩
      · simp only [List.nil_append]
        opt_walk
      · exact EV.pure _ (Or.inr ⟨c, rfl, hc, by simp⟩)
  · exact EV.pure _ (Or.inr ⟨c, rfl, hc, by simp⟩)

/-! ## the walking tactic -/

theorem ne_ESNULLP : ESNULLP ≠ EOK := by decide
theorem ne_ESZEROL : ESZEROL ≠ EOK := by decide
theorem ne_ESLEMIN : ESLEMIN ≠ EOK := by decide
theorem ne_ESLEMAX : ESLEMAX ≠ EOK := by decide
theorem ne_ESOVRLP : ESOVRLP ≠ EOK := by decide
theorem ne_ESNOSPC : ESNOSPC ≠ EOK := by decide
theorem ne_ESUNTERM : ESUNTERM ≠ EOK := by decide
theorem ne_ESNOTFND : ESNOTFND ≠ EOK := by decide
theorem ne_ESNODIFF : ESNODIFF ≠ EOK := by decide
theorem ne_EOVERFLOW : EOVERFLOW ≠ EOK := by decide

/-- `code ≠ EOK` for a concrete code (up to unfolding the projection), or from the context -/
macro "ne_eok" : tactic => `(tactic| first
  | assumption | exact ne_ESNULLP | exact ne_ESZEROL | exact ne_ESLEMAX | exact ne_EOVERFLOW | exact ne_ESNOSPC
  | exact ne_ESUNTERM | exact ne_ESOVRLP | exact ne_ESLEMIN | exact ne_ESNOTFND | exact ne_ESNODIFF)

/-- membership of a concrete code in a short literal list, up to unfolding the projection -/
macro "mem_lit" : tactic => `(tactic| first
  | exact List.Mem.head _
  | exact List.Mem.tail _ (List.Mem.head _)
  | exact List.Mem.tail _ (List.Mem.tail _ (List.Mem.head _))
  | exact List.Mem.tail _ (List.Mem.tail _ (List.Mem.tail _ (List.Mem.head _))))

/-- close a leaf `EV (pure x) R` for any of the posts above -/
macro "ev_leaf" : tactic => `(tactic| first
  | exact EV.pure _ (Or.inl ⟨rfl, by mem_lit⟩)
  | exact EV.pure _ (Or.inl ⟨rfl, rfl⟩)
  | exact EV.pure _ (Or.inr ⟨by ne_eok, rfl⟩)
  | exact EV.pure _ (Or.inr ⟨by ne_eok, _, rfl⟩)
  | exact EV.pure _ (Or.inl rfl)
  | exact EV.pure _ (Or.inr ⟨rfl, _, by ne_eok, rfl⟩))

syntax "ev_walk" (" using " term,+)? : tactic
macro_rules
  | `(tactic| ev_walk) => `(tactic| repeat (first
      | ev_leaf
      | (with_reducible refine Quiet.then_ ?_ (fun _ => ?_)); (solve | quiet)
      | with_reducible refine EV.bind (EV.handlerS _) (fun _ es he => ?_) <;> subst he
      | with_reducible refine EV.bind (EV.handlerM _) (fun _ es he => ?_) <;> subst he
      | with_reducible refine EV.bind (EV.handleError _ _ _ _) (fun _ es he => ?_) <;> subst he
      | dsimp only
      | split))
  | `(tactic| ev_walk using $[$hs],*) => `(tactic| repeat (first
      | ev_leaf
      $[| with_reducible exact $hs]*
      | (with_reducible refine Quiet.then_ ?_ (fun _ => ?_)); (solve | quiet using $[$hs],*)
      | with_reducible refine EV.bind (EV.handlerS _) (fun _ es he => ?_) <;> subst he
      | with_reducible refine EV.bind (EV.handlerM _) (fun _ es he => ?_) <;> subst he
      | with_reducible refine EV.bind (EV.handleError _ _ _ _) (fun _ es he => ?_) <;> subst he
      | dsimp only
      | split))

/-- open an entry-check block `match ← chk with | some e => … | none => …` -/
macro "open_chk " t:term : tactic => `(tactic| refine optThen $t ?_ (fun c hc => ?_))

/-! ## loops of `Models/Query.lean` are quiet -/

theorem q_strlenP (f s n : Nat) : Quiet (strlenP f s n) := by
  induction f generalizing s n with
  | zero => unfold strlenP; quiet
  | succ f ih => unfold strlenP; quiet using ih
theorem q_strchrP (c f s : Nat) : Quiet (strchrP c f s) := by
  induction f generalizing s with
  | zero => unfold strchrP; quiet
  | succ f ih => unfold strchrP; quiet using ih
theorem q_memchrP (c n s : Nat) : Quiet (memchrP c n s) := by
  induction n generalizing s with
  | zero => unfold memchrP; quiet
  | succ n ih => unfold memchrP; quiet using ih
theorem q_memrchrP (c s n : Nat) : Quiet (memrchrP c s n) := by
  induction n with
  | zero => unfold memrchrP; quiet
  | succ n ih => unfold memrchrP; quiet using ih
theorem q_strstrInner (d s dl i l : Nat) : Quiet (strstrInner d s dl i l) := by
  induction dl generalizing i l with
  | zero => unfold strstrInner; quiet
  | succ n ih => unfold strstrInner; quiet using ih
theorem q_strcasestrInner (d s dl i l : Nat) : Quiet (strcasestrInner d s dl i l) := by
  induction dl generalizing i l with
  | zero => unfold strcasestrInner; quiet
  | succ n ih => unfold strcasestrInner; quiet using ih
theorem q_strpbrkInner (d l ps : Nat) : Quiet (strpbrkInner d l ps) := by
  induction l generalizing ps with
  | zero => unfold strpbrkInner; quiet
  | succ n ih => unfold strpbrkInner; quiet using ih
theorem q_spanInner (d n s : Nat) : Quiet (spanInner d n s) := by
  induction n generalizing s with
  | zero => unfold spanInner; quiet
  | succ n ih => unfold spanInner; quiet using ih
theorem q_spanOuter (w : Bool) (src slen n d c : Nat) : Quiet (spanOuter w src slen n d c) := by
  induction n generalizing d c with
  | zero => unfold spanOuter; quiet
  | succ n ih => unfold spanOuter; quiet using ih, q_spanInner
theorem q_memcmpLoopQ (f : Nat → Nat → Int) (n m d s : Nat) : Quiet (memcmpLoopQ f n m d s) := by
  induction n generalizing m d s with
  | zero => unfold memcmpLoopQ; quiet
  | succ n ih =>
    cases m with
    | zero => unfold memcmpLoopQ; quiet
    | succ m => unfold memcmpLoopQ; quiet using ih
theorem q_strnlenLoop (n s c : Nat) (b : Bos) : Quiet (strnlenLoop n s c b) := by
  induction n generalizing s c b with
  | zero => unfold strnlenLoop; quiet
  | succ n ih => unfold strnlenLoop; quiet using ih

/-! ## result-code posts -/

abbrev P2 {β} (benign : List Nat) (k : Kind) : Nat × β → List Event → Prop := QPost benign k (·.1)


/-- entry-check outcome carrying the facts the silent exit establishes -/
def OptPostF (k : Kind) (F : Prop) : Option Nat → List Event → Prop :=
  fun r es => (r = none ∧ es = [] ∧ F) ∨ (∃ c, r = some c ∧ c ≠ EOK ∧ es = [.handler k c])

theorem optThenF {β} {k : Kind} {F : Prop} {p : Prog (Option Nat)} {f : Option Nat → Prog β} {R : β → List Event → Prop}
    (hp : EV p (OptPostF k F)) (hnone : F → EV (f none) R)
    (hsome : ∀ c, c ≠ EOK → EV (f (some c)) (fun y es' => R y ([.handler k c] ++ es'))) : EV (p >>= f) R := by
  refine EV.bind hp (fun r es h => ?_)
  rcases h with ⟨rfl, rfl, hF⟩ | ⟨c, rfl, hc, rfl⟩
  · simpa using hnone hF
  · exact hsome c hc

theorem qFailS_evF {F : Prop} (c : Nat) (hc : c ≠ EOK) : EV (qFailS c) (OptPostF .str F) := by
  unfold qFailS
  exact EV.bind (EV.handlerS c) (fun _ es he => by subst he; exact EV.pure _ (Or.inr ⟨c, rfl, hc, by simp⟩))

/-- what `qChkS` has established when it lets the call through -/
abbrev ChkFacts (dest dmax : Nat) (db : Bos) : Prop :=
  dest ≠ 0 ∧ dmax ≠ 0 ∧ (db = none → dmax ≤ RSIZE_MAX_STR) ∧ (∀ b, db = some b → dmax ≤ b)

theorem qChkS_evF (dest dmax : Nat) (db : Bos) (src : Option Nat) :
    EV (qChkS dest dmax db src) (OptPostF .str (ChkFacts dest dmax db)) := by
  unfold qChkS
  split
  · exact qFailS_evF _ ne_ESNULLP
  split
  · exact qFailS_evF _ ne_ESNULLP
  split
  · exact qFailS_evF _ ne_ESZEROL
  split
  · split
    · exact qFailS_evF _ ne_ESLEMAX
    · refine EV.pure _ (Or.inl ⟨rfl, rfl, ?_⟩)
      refine ⟨by assumption, by assumption, fun _ => by omega, fun b hb => ?_⟩
      cases hb
  · split
    · split
      · exact qFailS_evF _ ne_ESLEMAX
      · exact qFailS_evF _ ne_EOVERFLOW
    · refine EV.pure _ (Or.inl ⟨rfl, rfl, ?_⟩)
      refine ⟨by assumption, by assumption, fun h => ?_, fun b hb => ?_⟩
      · cases h
      · cases hb; omega

theorem q_strnlen_s_ok (dest dmax : Nat) (b : Bos) (hd : dest ≠ 0) (hz : dmax ≠ 0) (hm : dmax ≤ RSIZE_MAX_STR) :
    Quiet (strnlen_s dest dmax b) := by
  unfold strnlen_s
  simp only [hd, hz, if_false, Nat.not_lt.mpr hm]
  exact q_strnlenLoop _ _ _ _


end SafeC.Props.C05Query

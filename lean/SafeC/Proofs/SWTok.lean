import SafeC.Proofs.SW
import SafeC.Models.Tok
/-!
# `SW` for the tokenizers: the only stores are `*dest = 0` at the scan position

Invariant of both scans: `scan position + remaining dlen = D + dmax`.  The store over a delimiter happens with
`dlen ≥ 1` (inside `[D, D+dmax)`); the `*dest = 0` of the "unterminated" exits happens with `dlen ≥ 0`, i.e. possibly AT
`D + dmax` (`tok-unterm-exit-writes-dest-dmax`): the extent the code really uses is `[D, D+dmax]`.
-/
namespace SafeC
open Gen

theorem SW_delimScan1 {lo hi : Nat} (dest slen pt : Nat) (tok : Bool) :
    SW lo hi (delimScan1 dest slen pt tok) (fun _ => True) := by
  induction slen generalizing pt tok with
  | zero => unfold delimScan1; sw_walk
  | succ n ih => unfold delimScan1; sw_walk using ih

theorem SW_delimScan2 {lo hi : Nat} (dest slen pt : Nat) :
    SW lo hi (delimScan2 dest slen pt) (fun _ => True) := by
  induction slen generalizing pt with
  | zero => unfold delimScan2; sw_walk
  | succ n ih => unfold delimScan2; sw_walk using ih

theorem SW_tokUnterm {lo hi : Nat} (dest : Nat) (h : lo ≤ dest ∧ dest < hi) :
    SW lo hi (tokUnterm dest) (fun _ => True) := by
  unfold tokUnterm; sw_walk

/-- first scan: stores only on the error exits, at the scan position `≤ D + dmax` -/
theorem SW_scan1 {lo hi : Nat} (wide : Bool) (delim dlen dest : Nat) (h : lo ≤ dest ∧ dest + dlen < hi) :
    SW lo hi (scan1 wide delim dlen dest)
      (fun r => match r with | .out _ => True | .exit _ d l => lo ≤ d ∧ d + l < hi) := by
  induction dlen generalizing dest with
  | zero => unfold scan1; sw_walk using SW_tokUnterm
  | succ n ih => unfold scan1; sw_walk using ih, SW_tokUnterm, SW_delimScan1

theorem SW_scan2 {lo hi : Nat} (delim ptoken dlen dest : Nat) (h : lo ≤ dest ∧ dest + dlen < hi) :
    SW lo hi (scan2 delim ptoken dlen dest) (fun _ => True) := by
  induction dlen generalizing dest with
  | zero => unfold scan2; sw_walk using SW_tokUnterm
  | succ n ih => unfold scan2; sw_walk using ih, SW_tokUnterm, SW_delimScan2

theorem SW_tokBody {lo hi : Nat} (wide : Bool) (delim dest dlen : Nat) (h : lo ≤ dest ∧ dest + dlen < hi) :
    SW lo hi (tokBody wide delim dest dlen) (fun _ => True) := by
  unfold tokBody; sw_walk using SW_scan1, SW_scan2

theorem SW_tokFail {lo hi : Nat} (c : Nat) : SW lo hi (tokFail c) (fun _ => True) := by
  unfold tokFail; sw_walk

/-- `strtok_s`: all arguments; `D` = the buffer scanned (`dest`, or the saved `*ptr` when `dest` is NULL) -/
theorem SW_strtok_s {lo hi : Nat} (dest : Nat) (dmaxp : Option Nat) (delim : Nat) (ptr : Option Nat) (b : Bos)
    (h : ∀ dmax pv, dmaxp = some dmax → ptr = some pv →
      (if dest = 0 then pv else dest) = 0 ∨ (lo ≤ (if dest = 0 then pv else dest) ∧ (if dest = 0 then pv else dest) + dmax < hi)) :
    SW lo hi (strtok_s dest dmaxp delim ptr b) (fun _ => True) := by
  unfold strtok_s
  cases dmaxp with
  | none => exact SW_tokFail _
  | some dmax =>
    cases ptr with
    | none => dsimp only; sw_walk using SW_tokFail
    | some pv =>
      have := h dmax pv rfl rfl
      clear h
      dsimp only
      by_cases hd : dest = 0
      · simp only [hd, if_true] at this ⊢; sw_walk using SW_tokFail, SW_tokBody
      · simp only [hd, if_false] at this ⊢; sw_walk using SW_tokFail, SW_tokBody

theorem SW_wcstok_s {lo hi : Nat} (dest : Nat) (dmaxp : Option Nat) (delim : Nat) (ptr : Option Nat) (b : Bos)
    (h : ∀ dmax pv, dmaxp = some dmax → ptr = some pv →
      (if dest = 0 then pv else dest) = 0 ∨ (lo ≤ (if dest = 0 then pv else dest) ∧ (if dest = 0 then pv else dest) + dmax < hi)) :
    SW lo hi (wcstok_s dest dmaxp delim ptr b) (fun _ => True) := by
  unfold wcstok_s
  cases dmaxp with
  | none => exact SW_tokFail _
  | some dmax =>
    cases ptr with
    | none => dsimp only; sw_walk using SW_tokFail
    | some pv =>
      have := h dmax pv rfl rfl
      clear h
      dsimp only
      by_cases hd : dest = 0
      · simp only [hd, if_true] at this ⊢; sw_walk using SW_tokFail, SW_tokBody
      · simp only [hd, if_false] at this ⊢; sw_walk using SW_tokFail, SW_tokBody

end SafeC

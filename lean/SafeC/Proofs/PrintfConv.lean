import SafeC.Proofs.PrintfHash
/-!
# C11: one integer directive of the engine (`convInt`: flag adjustments, argument fetch, `safec_ntoa_long`) = `Spec.render`
-/
namespace SafeC.Printf
open SafeC.Printf.Spec

/-! ### two's-complement facts (`omega` on the unfolded definitions) -/
section wrap
local macro "wrap_omega" : tactic => `(tactic| (
  (try unfold wrapS); (try unfold wrapU)
  simp only [show ((2:Nat)^64 : Nat) = 18446744073709551616 from rfl, show ((2:Nat)^(64-1) : Nat) = 9223372036854775808 from rfl,
    show ((2:Nat)^32 : Nat) = 4294967296 from rfl, show ((2:Nat)^(32-1) : Nat) = 2147483648 from rfl,
    show ((2:Nat)^16 : Nat) = 65536 from rfl, show ((2:Nat)^(16-1) : Nat) = 32768 from rfl,
    show ((2:Nat)^8 : Nat) = 256 from rfl, show ((2:Nat)^(8-1) : Nat) = 128 from rfl]
  repeat' split
  all_goals omega))

theorem wrapS64_wrapU64 (x : Int) : wrapS 64 ((wrapU 64 x : Nat) : Int) = wrapS 64 x := by wrap_omega
theorem wrapS8_wrapS32 (x : Int) : wrapS 8 (wrapS 32 x) = wrapS 8 x := by wrap_omega
theorem wrapS16_wrapS32 (x : Int) : wrapS 16 (wrapS 32 x) = wrapS 16 x := by wrap_omega
theorem wrapU8_wrapS32 (x : Int) : wrapU 32 (wrapS 32 x) % 256 = wrapU 8 x := by wrap_omega
theorem wrapU16_wrapS32 (x : Int) : wrapU 32 (wrapS 32 x) % 65536 = wrapU 16 x := by wrap_omega
theorem wrapU32_wrapS32 (x : Int) : wrapU 32 (wrapS 32 x) = wrapU 32 x := by wrap_omega
theorem wrapU8_wrapS32' (x : Int) : wrapU 8 (wrapS 32 x) = wrapU 8 x := by wrap_omega
theorem mag64 (x : Int) : wrapU 64 (if wrapS 64 x > 0 then wrapS 64 x else 0 - wrapS 64 x) = (wrapS 64 x).natAbs := by wrap_omega
theorem mag32 (x : Int) : wrapU 32 (if wrapS 32 x > 0 then wrapS 32 x else 0 - wrapS 32 x) = (wrapS 32 x).natAbs := by wrap_omega
theorem mag16 (x : Int) : wrapU 32 (if wrapS 16 x > 0 then wrapS 16 x else 0 - wrapS 16 x) = (wrapS 16 x).natAbs := by wrap_omega
theorem mag8 (x : Int) : wrapU 32 (if wrapS 8 x > 0 then wrapS 8 x else 0 - wrapS 8 x) = (wrapS 8 x).natAbs := by wrap_omega
theorem mag64' (x : Int) : wrapU 64 (if 0 < wrapS 64 x then wrapS 64 x else -wrapS 64 x) = (wrapS 64 x).natAbs := by wrap_omega
theorem mag32' (x : Int) : wrapU 32 (if 0 < wrapS 32 x then wrapS 32 x else -wrapS 32 x) = (wrapS 32 x).natAbs := by wrap_omega
theorem mag16' (x : Int) : wrapU 32 (if 0 < wrapS 16 x then wrapS 16 x else -wrapS 16 x) = (wrapS 16 x).natAbs := by wrap_omega
theorem mag8' (x : Int) : wrapU 32 (if 0 < wrapS 8 x then wrapS 8 x else -wrapS 8 x) = (wrapS 8 x).natAbs := by wrap_omega
theorem natAbs_wrapS_lt (k : Nat) (hk : k = 8 ∨ k = 16 ∨ k = 32 ∨ k = 64) (x : Int) : (wrapS k x).natAbs < 2 ^ 64 := by
  rcases hk with rfl | rfl | rfl | rfl <;> wrap_omega
theorem wrapU_lt (k : Nat) (hk : k = 8 ∨ k = 16 ∨ k = 32 ∨ k = 64) (x : Int) : wrapU k x < 2 ^ 64 := by
  rcases hk with rfl | rfl | rfl | rfl <;> wrap_omega
theorem wrapU32_neg (x : Int) (h : wrapS 32 x < 0) : wrapU 32 (-(wrapS 32 x)) = (-(wrapS 32 x)).toNat := by
  revert h; wrap_omega
end wrap

/-! ### from a conversion specification to the engine's flag word -/

def lenFlags (lm : LenMod) (fl : Flags) : Flags :=
  match lm with
  | .none => fl
  | .hh => { fl with short := true, char := true }
  | .h => { fl with short := true }
  | .l => { fl with long := true }
  | .ll => { fl with long := true, longlong := true }
  | .j => { fl with long := true }
  | .z => { fl with long := true }
  | .t => { fl with long := true }

/-- the flag word the engine's parser builds for the specification `d` -/
def cfl (d : Dir) : Flags :=
  lenFlags d.len { zeropad := d.zero, left := d.minus, plus := d.plus, space := d.space, hash := d.hash, precision := d.prec.isSome }

@[simp] theorem cfl_zeropad (d : Dir) : (cfl d).zeropad = d.zero := by unfold cfl lenFlags; cases d.len <;> rfl
@[simp] theorem cfl_left (d : Dir) : (cfl d).left = d.minus := by unfold cfl lenFlags; cases d.len <;> rfl
@[simp] theorem cfl_plus (d : Dir) : (cfl d).plus = d.plus := by unfold cfl lenFlags; cases d.len <;> rfl
@[simp] theorem cfl_space (d : Dir) : (cfl d).space = d.space := by unfold cfl lenFlags; cases d.len <;> rfl
@[simp] theorem cfl_hash (d : Dir) : (cfl d).hash = d.hash := by unfold cfl lenFlags; cases d.len <;> rfl
@[simp] theorem cfl_upper (d : Dir) : (cfl d).upper = false := by unfold cfl lenFlags; cases d.len <;> rfl
@[simp] theorem cfl_precision (d : Dir) : (cfl d).precision = d.prec.isSome := by unfold cfl lenFlags; cases d.len <;> rfl
@[simp] theorem cfl_longDouble (d : Dir) : (cfl d).longDouble = false := by unfold cfl lenFlags; cases d.len <;> rfl
@[simp] theorem cfl_long (d : Dir) : (cfl d).long = (d.len != .none && d.len != .hh && d.len != .h) := by
  unfold cfl lenFlags; cases d.len <;> rfl
@[simp] theorem cfl_longlong (d : Dir) : (cfl d).longlong = (d.len == .ll) := by unfold cfl lenFlags; cases d.len <;> rfl
@[simp] theorem cfl_char (d : Dir) : (cfl d).char = (d.len == .hh) := by unfold cfl lenFlags; cases d.len <;> rfl
@[simp] theorem cfl_short (d : Dir) : (cfl d).short = (d.len == .hh || d.len == .h) := by unfold cfl lenFlags; cases d.len <;> rfl

/-- `Spec.renderInt` reads only these parts of the specification -/
theorem renderInt_ext (d d' : Dir) (signed neg : Bool) (mag base : Nat) (upper : Bool)
    (h1 : d.minus = d'.minus) (h2 : d.hash = d'.hash) (h3 : d.width = d'.width) (h4 : d.prec = d'.prec)
    (h5 : signed = true → d.plus = d'.plus ∧ d.space = d'.space) (h6 : d.prec = Option.none → d.zero = d'.zero) :
    renderInt d signed neg mag base upper = renderInt d' signed neg mag base upper := by
  obtain ⟨m1, p1, s1, x1, z1, w1, pr1, l1, c1⟩ := d
  obtain ⟨m2, p2, s2, x2, z2, w2, pr2, l2, c2⟩ := d'
  simp only at h1 h2 h3 h4 h5 h6
  subst h1 h2 h3 h4
  cases signed <;> cases pr1 <;> simp_all [renderInt, padField]

/-- the two classes together: the number the repaired engine writes = `Spec.renderInt` -/
theorem ntoaLong_render (fx : Fixes) (hm : fx.minusPrec = true) (hx : fx.hash = true) (sk : Sink) (m v : Nat) (neg : Bool)
    (base prec width : Nat) (fl : Flags) (s : St) (signed : Bool) (d : Dir)
    (hb : base = 8 ∨ base = 10 ∨ base = 16) (hv : v < 2 ^ 64)
    (hh10 : fl.hash = true → base ≠ 10 ∧ signed = false)
    (hpz : fl.precision = true → fl.zeropad = false) (hp0 : fl.precision = false → prec = 0)
    (hs : signed = false → neg = false ∧ fl.plus = false ∧ fl.space = false)
    (hp : prec + (if fl.hash then 1 else 0) ≤ 31) (hw : fl.left = false → fl.zeropad = true → width ≤ 31) (hwmax : width ≤ 2147483614)
    (hd : renderInt d signed neg v base fl.upper = renderInt (dirOf fl width prec) signed neg v base fl.upper) :
    ntoaLong fx sk m v neg base prec width fl s = emitAll sk m (renderInt d signed neg v base fl.upper) s := by
  rw [hd]
  cases hh : fl.hash
  · exact ntoaLong_renderInt_nohash fx hm sk m v neg base prec width fl s signed hb hv hh hpz hp0 hs (by simp [hh] at hp; omega) hw hwmax
  · obtain ⟨h10, hsg⟩ := hh10 hh
    obtain ⟨hn, hpl, hsp⟩ := hs hsg
    subst hsg hn
    exact ntoaLong_renderInt_hash fx hm hx sk m v base prec width fl s (by omega) hv hh hpl hsp hpz hp0 (by simp [hh] at hp; omega) hw hwmax

/-- a numeric directive stays inside the 32-byte digit buffer (finding printf-digit-buffer-32) and below the engine's
    field-width limit -/
def IntOK (d : Dir) : Prop :=
  d.prec.getD 0 + (if d.hash then 1 else 0) ≤ 31 ∧ (d.zero = true → d.minus = false → d.prec = Option.none → d.width ≤ 31) ∧
  d.width ≤ 2147483614

instance (d : Dir) : Decidable (IntOK d) := by unfold IntOK; infer_instance

theorem signedArg_cases (lm : LenMod) (args : List Arg) (v : Int) (as : List Arg) (h : signedArg lm args = some (v, as)) :
    (∃ x, args = .int x :: as ∧ ((lm = .none ∧ v = wrapS 32 x) ∨ (lm = .hh ∧ v = wrapS 8 x) ∨ (lm = .h ∧ v = wrapS 16 x))) ∨
    (∃ x, args = .long x :: as ∧ (lm = .l ∨ lm = .ll ∨ lm = .j ∨ lm = .z ∨ lm = .t) ∧ v = wrapS 64 x) := by
  unfold signedArg at h
  split at h
  · cases lm <;> simp at h <;> obtain ⟨h1, h2⟩ := h <;> subst h1 h2 <;> left <;> exact ⟨_, rfl, by simp⟩
  · cases lm <;> simp at h <;> obtain ⟨h1, h2⟩ := h <;> subst h1 h2 <;> right <;> exact ⟨_, rfl, by simp, rfl⟩
  · cases h

/-- `base` of the specifier switch -/
def baseOf (c : Char) : Nat := if c = 'x' ∨ c = 'X' then 16 else if c = 'o' then 8 else if c = 'b' then 2 else 10

/-- the flag adjustments `convInt` makes before it fetches the argument (text of `convInt`) -/
def adjFlags (c : Char) (fl : Flags) : Flags :=
  let fl := if baseOf c = 10 then { fl with hash := false } else fl
  let fl := if c = 'X' then { fl with upper := true } else fl
  let fl := if c ≠ 'i' ∧ c ≠ 'd' then { fl with plus := false, space := false } else fl
  if fl.precision then { fl with zeropad := false } else fl

theorem convInt_stages (fx : Fixes) (sk : Sink) (maxlen : Nat) (c : Char) (fl : Flags) (width prec : Nat) (args : List Arg) (s : St) :
    convInt fx sk maxlen c fl width prec args s =
      (if fl.longDouble then .error EINVALr else
      if c = 'i' ∨ c = 'd' then
        if (adjFlags c fl).longlong ∨ (adjFlags c fl).long then do
          let (w, as) ← nextLong args
          let v := wrapS 64 (w : Int)
          let s ← ntoaLong fx sk maxlen (wrapU 64 (if v > 0 then v else 0 - v)) (v < 0) (baseOf c) prec width (adjFlags c fl) s
          pure (s, as)
        else do
          let (a, as) ← nextInt args
          let v := if (adjFlags c fl).char then wrapS 8 a else if (adjFlags c fl).short then wrapS 16 a else a
          let s ← ntoaLong fx sk maxlen (wrapU 32 (if v > 0 then v else 0 - v)) (v < 0) (baseOf c) prec width (adjFlags c fl) s
          pure (s, as)
      else
        if (adjFlags c fl).longlong ∨ (adjFlags c fl).long then do
          let (w, as) ← nextLong args
          let s ← ntoaLong fx sk maxlen w false (baseOf c) prec width (adjFlags c fl) s
          pure (s, as)
        else do
          let (a, as) ← nextInt args
          let u := wrapU 32 a
          let v := if (adjFlags c fl).char then u % 256 else if (adjFlags c fl).short then u % 65536 else u
          let s ← ntoaLong fx sk maxlen v false (baseOf c) prec width (adjFlags c fl) s
          pure (s, as)) := rfl

section adj
variable (c : Char) (fl : Flags)
local macro "adj_tac" : tactic => `(tactic| (unfold adjFlags; generalize baseOf c = b; by_cases h1 : b = 10 <;> by_cases h2 : c = 'X' <;> by_cases h3 : (c ≠ 'i' ∧ c ≠ 'd') <;> cases h4 : fl.precision <;> simp [h1, h2, h3, h4] <;> (try (intro _; by_cases hi : c = 'i' <;> by_cases hd : c = 'd' <;> simp_all))))
@[simp] theorem adj_left : (adjFlags c fl).left = fl.left := by adj_tac
@[simp] theorem adj_precision : (adjFlags c fl).precision = fl.precision := by adj_tac
@[simp] theorem adj_long : (adjFlags c fl).long = fl.long := by adj_tac
@[simp] theorem adj_longlong : (adjFlags c fl).longlong = fl.longlong := by adj_tac
@[simp] theorem adj_char : (adjFlags c fl).char = fl.char := by adj_tac
@[simp] theorem adj_short : (adjFlags c fl).short = fl.short := by adj_tac
@[simp] theorem adj_zeropad : (adjFlags c fl).zeropad = (fl.zeropad && !fl.precision) := by adj_tac
@[simp] theorem adj_hash : (adjFlags c fl).hash = (fl.hash && baseOf c != 10) := by adj_tac
@[simp] theorem adj_upper : (adjFlags c fl).upper = (fl.upper || c == 'X') := by adj_tac
@[simp] theorem adj_plus : (adjFlags c fl).plus = (fl.plus && (c == 'i' || c == 'd')) := by adj_tac
@[simp] theorem adj_space : (adjFlags c fl).space = (fl.space && (c == 'i' || c == 'd')) := by adj_tac
end adj

/-- the number one integer directive writes, in terms of the specification -/
theorem ntoaLong_dir (fx : Fixes) (hm : fx.minusPrec = true) (hx : fx.hash = true) (sk : Sink) (m : Nat) (d : Dir) (c : Char)
    (hc : c = 'd' ∨ c = 'i' ∨ c = 'u' ∨ c = 'o' ∨ c = 'x' ∨ c = 'X') (v : Nat) (neg signed : Bool)
    (hsigned : signed = (c == 'i' || c == 'd')) (hv : v < 2 ^ 64) (hneg : signed = false → neg = false)
    (hhash : d.hash = true → c = 'o' ∨ c = 'x' ∨ c = 'X') (hok : IntOK d) (s : St) :
    ntoaLong fx sk m v neg (baseOf c) (d.prec.getD 0) d.width (adjFlags c (cfl d)) s =
      emitAll sk m (renderInt d signed neg v (baseOf c) (c == 'X')) s := by
  obtain ⟨hk1, hk2, hk3⟩ := hok
  have hu : (adjFlags c (cfl d)).upper = (c == 'X') := by simp
  rw [← hu]
  have hbase : (c = 'd' ∨ c = 'i' ∨ c = 'u') ∧ baseOf c = 10 ∨ c = 'o' ∧ baseOf c = 8 ∨ (c = 'x' ∨ c = 'X') ∧ baseOf c = 16 := by
    rcases hc with rfl | rfl | rfl | rfl | rfl | rfl <;> simp [baseOf]
  apply ntoaLong_render fx hm hx sk m v neg (baseOf c) (d.prec.getD 0) d.width (adjFlags c (cfl d)) s signed d
  · rcases hbase with ⟨_, h⟩ | ⟨_, h⟩ | ⟨_, h⟩ <;> omega
  · exact hv
  · intro hh
    simp only [adj_hash, cfl_hash, Bool.and_eq_true, bne_iff_ne, ne_eq] at hh
    refine ⟨hh.2, ?_⟩
    rw [hsigned]
    rcases hbase with ⟨_, h⟩ | ⟨rfl, h⟩ | ⟨h', h⟩
    · exact absurd h hh.2
    · rfl
    · rcases h' with rfl | rfl <;> rfl
  · intro hp; simp only [adj_precision, cfl_precision] at hp; simp [hp]
  · intro hp; simp only [adj_precision, cfl_precision] at hp
    cases h : d.prec
    · rfl
    · rw [h] at hp; cases hp
  · intro hs
    refine ⟨hneg hs, ?_, ?_⟩
    · rw [hsigned] at hs; simp only [adj_plus, hs, Bool.and_false]
    · rw [hsigned] at hs; simp only [adj_space, hs, Bool.and_false]
  · have : (if (adjFlags c (cfl d)).hash = true then 1 else 0) ≤ (if d.hash = true then 1 else 0) := by
      simp only [adj_hash, cfl_hash]
      cases d.hash <;> simp
      split <;> omega
    omega
  · intro hl hz
    simp only [adj_left, cfl_left, adj_zeropad, cfl_zeropad, cfl_precision, Bool.and_eq_true, Bool.not_eq_true'] at hl hz
    apply hk2 hz.1 hl
    cases h : d.prec
    · rfl
    · rw [h] at hz; cases hz.2
  · exact hk3
  · apply renderInt_ext
    · simp [dirOf]
    · simp only [dirOf, adj_hash, cfl_hash]
      cases hh : d.hash
      · rfl
      · rcases hhash hh with rfl | rfl | rfl <;> rfl
    · rfl
    · simp only [dirOf, adj_precision, cfl_precision]
      cases d.prec <;> simp
    · intro hs
      rw [hsigned] at hs
      simp [dirOf, hs]
    · intro hp
      simp [dirOf, hp]

theorem emit_map (sk : Sink) (m : Nat) (t : Str) (s : St) (as : List Arg) :
    (do let s' ← emitAll sk m t s; pure (s', as) : M (St × List Arg)) = (emitAll sk m t s).map (fun s' => (s', as)) := by
  cases emitAll sk m t s <;> rfl

theorem convInt_signed (fx : Fixes) (hm : fx.minusPrec = true) (hx : fx.hash = true) (sk : Sink) (m : Nat) (d : Dir)
    (hc : d.conv = 'd' ∨ d.conv = 'i') (args : List Arg) (s : St) (text : Str) (args' : List Arg)
    (hr : render d args = some (text, args')) (hok : IntOK d) :
    convInt fx sk m d.conv (cfl d) d.width (d.prec.getD 0) args s = (emitAll sk m text s).map (fun s' => (s', args')) := by
  unfold render at hr
  simp only [hc, if_true] at hr
  cases hh : d.hash
  · simp only [hh, Bool.false_eq_true, if_false] at hr
    cases ha : signedArg d.len args with
    | none => simp [ha] at hr
    | some p =>
      obtain ⟨v, as⟩ := p
      simp only [ha, Option.bind_eq_bind, Option.bind_some, Option.pure_def, Option.some.injEq, Prod.mk.injEq] at hr
      obtain ⟨ht, has⟩ := hr
      subst ht has
      have hc6 : d.conv = 'd' ∨ d.conv = 'i' ∨ d.conv = 'u' ∨ d.conv = 'o' ∨ d.conv = 'x' ∨ d.conv = 'X' := by
        rcases hc with h | h <;> simp [h]
      have hci : (d.conv = 'i' ∨ d.conv = 'd') := by rcases hc with h | h <;> simp [h]
      have hsg : true = (d.conv == 'i' || d.conv == 'd') := by rcases hc with h | h <;> simp [h]
      have hX : (d.conv == 'X') = false := by rcases hc with h | h <;> simp [h]
      have hb : baseOf d.conv = 10 := by rcases hc with h | h <;> simp [h, baseOf]
      have key := fun (v : Nat) (neg : Bool) (hv : v < 2 ^ 64) =>
        ntoaLong_dir fx hm hx sk m d d.conv hc6 v neg true hsg hv (fun h => by cases h) (fun h => by rw [hh] at h; cases h) hok s
      rw [hb, hX] at key
      rw [convInt_stages]
      simp only [cfl_longDouble, Bool.false_eq_true, if_false, hci, if_true, adj_longlong, adj_long, adj_char, adj_short, hb]
      rcases signedArg_cases _ _ _ _ ha with ⟨x, rfl, h⟩ | ⟨x, rfl, h, rfl⟩
      · rcases h with ⟨hl, rfl⟩ | ⟨hl, rfl⟩ | ⟨hl, rfl⟩ <;>
          simp [cfl_longlong, cfl_long, cfl_char, cfl_short, hl, nextInt, bind, Except.bind, pure, Except.pure]
        · rw [mag32', key _ _ (natAbs_wrapS_lt 32 (by simp) x)]
          cases emitAll sk m _ s <;> rfl
        · rw [wrapS8_wrapS32, mag8', key _ _ (natAbs_wrapS_lt 8 (by simp) x)]
          cases emitAll sk m _ s <;> rfl
        · rw [wrapS16_wrapS32, mag16', key _ _ (natAbs_wrapS_lt 16 (by simp) x)]
          cases emitAll sk m _ s <;> rfl
      · have hlong : d.len = LenMod.ll ∨ (¬d.len = LenMod.none ∧ ¬d.len = LenMod.hh) ∧ ¬d.len = LenMod.h := by
          rcases h with h | h | h | h | h <;> rw [h] <;> simp
        simp [cfl_longlong, cfl_long, nextLong, bind, Except.bind, pure, Except.pure]
        rw [if_pos hlong, wrapS64_wrapU64, mag64', key _ _ (natAbs_wrapS_lt 64 (by simp) x)]
        cases emitAll sk m _ s <;> rfl
  · simp [hh] at hr

theorem unsignedArg_cases (lm : LenMod) (args : List Arg) (v : Nat) (as : List Arg) (h : unsignedArg lm args = some (v, as)) :
    (∃ x, args = .int x :: as ∧ ((lm = .none ∧ v = wrapU 32 x) ∨ (lm = .hh ∧ v = wrapU 8 x) ∨ (lm = .h ∧ v = wrapU 16 x))) ∨
    (∃ x, args = .long x :: as ∧ (lm = .l ∨ lm = .ll ∨ lm = .j ∨ lm = .z ∨ lm = .t) ∧ v = wrapU 64 x) := by
  unfold unsignedArg at h
  split at h
  · cases lm <;> simp at h <;> obtain ⟨h1, h2⟩ := h <;> subst h1 h2 <;> left <;> exact ⟨_, rfl, by simp⟩
  · cases lm <;> simp at h <;> obtain ⟨h1, h2⟩ := h <;> subst h1 h2 <;> right <;> exact ⟨_, rfl, by simp, rfl⟩
  · cases h

theorem convInt_unsigned (fx : Fixes) (hm : fx.minusPrec = true) (hx : fx.hash = true) (sk : Sink) (m : Nat) (d : Dir)
    (hc : d.conv = 'u' ∨ d.conv = 'o' ∨ d.conv = 'x' ∨ d.conv = 'X') (args : List Arg) (s : St) (v : Nat) (as : List Arg)
    (ha : unsignedArg d.len args = some (v, as)) (hhash : d.hash = true → d.conv = 'o' ∨ d.conv = 'x' ∨ d.conv = 'X') (hok : IntOK d) :
    convInt fx sk m d.conv (cfl d) d.width (d.prec.getD 0) args s =
      (emitAll sk m (renderInt d false false v (baseOf d.conv) (d.conv == 'X')) s).map (fun s' => (s', as)) := by
  have hc6 : d.conv = 'd' ∨ d.conv = 'i' ∨ d.conv = 'u' ∨ d.conv = 'o' ∨ d.conv = 'x' ∨ d.conv = 'X' := by
    rcases hc with h | h | h | h <;> simp [h]
  have hci : ¬ (d.conv = 'i' ∨ d.conv = 'd') := by rcases hc with h | h | h | h <;> simp [h]
  have hsg : false = (d.conv == 'i' || d.conv == 'd') := by rcases hc with h | h | h | h <;> simp [h]
  have key := fun (v : Nat) (hv : v < 2 ^ 64) =>
    ntoaLong_dir fx hm hx sk m d d.conv hc6 v false false hsg hv (fun _ => rfl) hhash hok s
  rw [convInt_stages]
  simp only [cfl_longDouble, Bool.false_eq_true, if_false, hci, adj_longlong, adj_long, adj_char, adj_short]
  rcases unsignedArg_cases _ _ _ _ ha with ⟨x, rfl, h⟩ | ⟨x, rfl, h, rfl⟩
  · rcases h with ⟨hl, rfl⟩ | ⟨hl, rfl⟩ | ⟨hl, rfl⟩ <;>
      simp [cfl_longlong, cfl_long, cfl_char, cfl_short, hl, nextInt, bind, Except.bind, pure, Except.pure]
    · rw [wrapU32_wrapS32, key _ (wrapU_lt 32 (by simp) x)]
      cases emitAll sk m _ s <;> rfl
    · rw [wrapU8_wrapS32, key _ (wrapU_lt 8 (by simp) x)]
      cases emitAll sk m _ s <;> rfl
    · rw [wrapU16_wrapS32, key _ (wrapU_lt 16 (by simp) x)]
      cases emitAll sk m _ s <;> rfl
  · have hlong : d.len = LenMod.ll ∨ (¬d.len = LenMod.none ∧ ¬d.len = LenMod.hh) ∧ ¬d.len = LenMod.h := by
      rcases h with h | h | h | h | h <;> rw [h] <;> simp
    simp [cfl_longlong, cfl_long, nextLong, bind, Except.bind, pure, Except.pure]
    rw [if_pos hlong, key _ (wrapU_lt 64 (by simp) x)]
    cases emitAll sk m _ s <;> rfl

/-- **one integer directive.**  For `d i u o x X` with any flags, width, precision and length modifier for which the
    standard defines the result (`Spec.render d args = some …`) and which stays inside the digit buffer (`IntOK`), the
    repaired engine's `convInt` hands the sink exactly the standard's characters and consumes the same argument. -/
theorem convInt_eq (fx : Fixes) (hm : fx.minusPrec = true) (hx : fx.hash = true) (sk : Sink) (m : Nat) (d : Dir)
    (hc : d.conv = 'd' ∨ d.conv = 'i' ∨ d.conv = 'u' ∨ d.conv = 'o' ∨ d.conv = 'x' ∨ d.conv = 'X')
    (args : List Arg) (s : St) (text : Str) (args' : List Arg)
    (hr : render d args = some (text, args')) (hok : IntOK d) :
    convInt fx sk m d.conv (cfl d) d.width (d.prec.getD 0) args s = (emitAll sk m text s).map (fun s' => (s', args')) := by
  rcases hc with hc | hc | hc | hc | hc | hc
  · exact convInt_signed fx hm hx sk m d (Or.inl hc) args s text args' hr hok
  · exact convInt_signed fx hm hx sk m d (Or.inr hc) args s text args' hr hok
  · unfold render at hr
    simp only [hc, show ¬ (('u' : Char) = 'd' ∨ ('u' : Char) = 'i') by decide, if_false, if_true] at hr
    cases hh : d.hash
    · simp only [hh, Bool.false_eq_true, if_false] at hr
      cases ha : unsignedArg d.len args with
      | none => simp [ha] at hr
      | some p =>
        obtain ⟨v, as⟩ := p
        simp only [ha, Option.bind_eq_bind, Option.bind_some, Option.pure_def, Option.some.injEq, Prod.mk.injEq] at hr
        obtain ⟨ht, has⟩ := hr
        subst ht has
        have := convInt_unsigned fx hm hx sk m d (by simp [hc]) args s v as ha (by simp [hh]) hok
        rw [this, hc]; rfl
    · simp [hh] at hr
  · unfold render at hr
    simp only [hc, show ¬ (('o' : Char) = 'd' ∨ ('o' : Char) = 'i') by decide, show ¬ (('o' : Char) = 'u') by decide, if_false, if_true] at hr
    cases ha : unsignedArg d.len args with
    | none => simp [ha] at hr
    | some p =>
      obtain ⟨v, as⟩ := p
      simp only [ha, Option.bind_eq_bind, Option.bind_some, Option.pure_def, Option.some.injEq, Prod.mk.injEq] at hr
      obtain ⟨ht, has⟩ := hr
      subst ht has
      have := convInt_unsigned fx hm hx sk m d (by simp [hc]) args s v as ha (by simp [hc]) hok
      rw [this, hc]; rfl
  · unfold render at hr
    simp only [hc, show ¬ (('x' : Char) = 'd' ∨ ('x' : Char) = 'i') by decide, show ¬ (('x' : Char) = 'u') by decide,
      show ¬ (('x' : Char) = 'o') by decide, if_false, true_or, if_true] at hr
    cases ha : unsignedArg d.len args with
    | none => simp [ha] at hr
    | some p =>
      obtain ⟨v, as⟩ := p
      simp only [ha, Option.bind_eq_bind, Option.bind_some, Option.pure_def, Option.some.injEq, Prod.mk.injEq] at hr
      obtain ⟨ht, has⟩ := hr
      subst ht has
      have := convInt_unsigned fx hm hx sk m d (by simp [hc]) args s v as ha (by simp [hc]) hok
      rw [this, hc]; rfl
  · unfold render at hr
    simp only [hc, show ¬ (('X' : Char) = 'd' ∨ ('X' : Char) = 'i') by decide, show ¬ (('X' : Char) = 'u') by decide,
      show ¬ (('X' : Char) = 'o') by decide, if_false, or_true, if_true] at hr
    cases ha : unsignedArg d.len args with
    | none => simp [ha] at hr
    | some p =>
      obtain ⟨v, as⟩ := p
      simp only [ha, Option.bind_eq_bind, Option.bind_some, Option.pure_def, Option.some.injEq, Prod.mk.injEq] at hr
      obtain ⟨ht, has⟩ := hr
      subst ht has
      have := convInt_unsigned fx hm hx sk m d (by simp [hc]) args s v as ha (by simp [hc]) hok
      rw [this, hc]; rfl

end SafeC.Printf

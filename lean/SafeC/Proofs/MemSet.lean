import SafeC.Lemmas
import SafeC.Models.Mem
import SafeC.Models.Inplace
/-!
# The set primitives (`mem_prim_set`, `mem_prim_set16`, `mem_prim_set32`) and the erase entry points

Helper lemmas only; the property statements are in `SafeC/Props/C18.lean`.

`Filled st st' d n v`: `st'` is `st` with the `n` cells starting at `d` holding `v`; every other cell,
the mapping, the permissions, the event list and the list of stray accesses are those of `st`.
All statements are for arbitrary `n`, start address (hence every alignment), value and prior memory.
The phases of the C code are separate lemmas: alignment prologue, 16-way unrolled body (induction on
the block count), the `case 15 … case 1` chain, the byte tail.
-/
namespace SafeC
open Gen Mem

/-- exactly the cells `[d, d+n)` now hold `v`; nothing else (data or bookkeeping) differs -/
structure Filled (st st' : St) (d n v : Nat) : Prop where
  same : SameMeta st' st
  data : ∀ a, st'.data a = if d ≤ a ∧ a < d + n then v else st.data a

theorem Filled.nil (st : St) (d v : Nat) : Filled st st d 0 v :=
  ⟨SameMeta.refl _, fun a => by rw [if_neg]; omega⟩

theorem Filled.append {st s1 s2 : St} {d n m v : Nat}
    (h1 : Filled st s1 d n v) (h2 : Filled s1 s2 (d+n) m v) : Filled st s2 d (n+m) v := by
  refine ⟨h2.same.trans h1.same, fun a => ?_⟩
  rw [h2.data a, h1.data a]
  by_cases c1 : d + n ≤ a ∧ a < d + n + m
  · rw [if_pos c1, if_pos (by omega)]
  · rw [if_neg c1]
    by_cases c2 : d ≤ a ∧ a < d + n
    · rw [if_pos c2, if_pos (by omega)]
    · rw [if_neg c2, if_neg (by omega)]

theorem Filled.append' {st s1 s2 : St} {d n x m v : Nat}
    (h1 : Filled st s1 d n v) (h2 : Filled s1 s2 x m v) (e : x = d + n) : Filled st s2 d (n+m) v := by
  subst e; exact h1.append h2

theorem Filled.upd (st : St) (d v : Nat) : Filled st (st.upd d v) d 1 v :=
  ⟨SameMeta.upd _ _ _, fun a => by
    by_cases h : a = d
    · subst h; rw [St.upd_data_same, if_pos (by omega)]
    · rw [St.upd_data_ne _ _ _ _ h, if_neg (by omega)]⟩

theorem Filled.cast {st st' : St} {d n m v : Nat} (h : Filled st st' d n v) (e : n = m) :
    Filled st st' d m v := e ▸ h

/-- inside the filled range -/
theorem Filled.inside {st st' : St} {d n v : Nat} (h : Filled st st' d n v) (i : Nat) (hi : i < n) :
    st'.data (d + i) = v := by
  rw [h.data, if_pos (by omega)]

/-- outside the filled range -/
theorem Filled.outside {st st' : St} {d n v : Nat} (h : Filled st st' d n v) (a : Nat)
    (ha : ¬ (d ≤ a ∧ a < d + n)) : st'.data a = st.data a := by
  rw [h.data, if_neg ha]

theorem RW.sub {st : St} {d n x m : Nat} (h : RW st d n) (h1 : d ≤ x) (h2 : x + m ≤ d + n) :
    RW st x m := by
  intro i hi
  have := h (x - d + i) (by omega)
  have e : d + (x - d + i) = x + i := by omega
  rw [e] at this; exact this

theorem RW.of_filled {st st' : St} {d n v x k : Nat} (h : Filled st st' d n v) (hr : RW st x k) :
    RW st' x k := RW.of_sameMeta h.same hr

theorem memsetP_filled (v n d : Nat) (st : St) (hw : RW st d n) :
    ∃ st', exec (memsetP v n d) st = .ok ((), st') ∧ Filled st st' d n v := by
  obtain ⟨st', he, hm, hd⟩ := memsetP_ok v n d st hw
  exact ⟨st', he, hm, hd⟩

/-! ## `mem_prim_set` on byte cells (`w = 1`) -/

@[simp] theorem spread_one (v : Nat) : spread 1 v = v := by simp [spread]

theorem storeByte_one (v a rem : Nat) : storeByte 1 v a rem = store a v := by
  simp [storeByte]

/-- alignment prologue: stores `k ≤ count` bytes, returns the remaining count and the advanced
pointer; it stops because the count ran out or the pointer became 8-aligned -/
theorem setPrologue_ok (v count dp : Nat) (st : St) (hw : RW st dp count) :
    ∃ k c' st', exec (setPrologue 1 v count dp) st = .ok ((c', dp + k), st') ∧ c' + k = count ∧
      (c' = 0 ∨ (dp + k) % 8 = 0) ∧ Filled st st' dp k v := by
  induction count generalizing dp st with
  | zero => exact ⟨0, 0, st, rfl, rfl, Or.inl rfl, Filled.nil _ _ _⟩
  | succ n ih =>
    unfold setPrologue
    by_cases h8 : dp % 8 = 0
    · rw [if_pos h8]
      exact ⟨0, n+1, st, rfl, rfl, Or.inr h8, Filled.nil _ _ _⟩
    · rw [if_neg h8]
      obtain ⟨hm, hwr, _⟩ := hw.head
      obtain ⟨k, c', st', he, hc, hal, hf⟩ :=
        ih (dp+1) (st.upd dp v) (RW.of_sameMeta (SameMeta.upd _ _ _) hw.tail)
      have e : dp + (k+1) = dp + 1 + k := by omega
      refine ⟨k+1, c', st', ?_, by omega, by rw [e]; exact hal, ?_⟩
      · rw [e, storeByte_one]
        simp only [exec_bind, exec_store_ok _ _ _ hm hwr]
        exact he
      · exact ((Filled.upd st dp v).append hf).cast (by omega)

/-- `k` qword stores -/
theorem setWords_ok (v k lp : Nat) (st : St) (hw : RW st lp (8*k)) :
    ∃ st', exec (setWords 1 v k lp) st = .ok (lp + 8*k, st') ∧ Filled st st' lp (8*k) v := by
  induction k generalizing lp st with
  | zero => exact ⟨st, rfl, Filled.nil _ _ _⟩
  | succ k ih =>
    obtain ⟨s1, he1, hf1⟩ := memsetP_filled v 8 lp st (hw.sub (Nat.le_refl _) (by omega))
    obtain ⟨s2, he2, hf2⟩ := ih (lp+8) s1 (RW.of_filled hf1 (hw.sub (by omega) (by omega)))
    refine ⟨s2, ?_, (hf1.append hf2).cast (by omega)⟩
    have e : lp + 8 * (k+1) = lp + 8 + 8 * k := by omega
    simp only [setWords, spread_one, Nat.div_one, exec_bind, he1]
    rw [e]; exact he2

/-- `q` passes through the `default:` arm of the unrolled switch: 16 qwords = 128 bytes each -/
theorem setBlocks_ok (v q lp : Nat) (st : St) (hw : RW st lp (128*q)) :
    ∃ st', exec (setBlocks 1 v q lp) st = .ok (lp + 128*q, st') ∧ Filled st st' lp (128*q) v := by
  induction q generalizing lp st with
  | zero => exact ⟨st, rfl, Filled.nil _ _ _⟩
  | succ q ih =>
    obtain ⟨s1, he1, hf1⟩ := setWords_ok v 16 lp st (hw.sub (Nat.le_refl _) (by omega))
    obtain ⟨s2, he2, hf2⟩ := ih (lp + 8*16) s1 (RW.of_filled hf1 (hw.sub (by omega) (by omega)))
    refine ⟨s2, ?_, (hf1.append hf2).cast (by omega)⟩
    have e : lp + 128 * (q+1) = lp + 8*16 + 128 * q := by omega
    simp only [setBlocks, exec_bind, he1]
    rw [e]; exact he2

/-- the byte tail -/
theorem setTail_ok (v count dp : Nat) (st : St) (hw : RW st dp count) :
    ∃ st', exec (setTail 1 v count dp) st = .ok ((), st') ∧ Filled st st' dp count v := by
  induction count generalizing dp st with
  | zero => exact ⟨st, rfl, Filled.nil _ _ _⟩
  | succ n ih =>
    obtain ⟨hm, hwr, _⟩ := hw.head
    obtain ⟨st', he, hf⟩ := ih (dp+1) (st.upd dp v) (RW.of_sameMeta (SameMeta.upd _ _ _) hw.tail)
    refine ⟨st', ?_, ((Filled.upd st dp v).append hf).cast (by omega)⟩
    simp only [setTail, storeByte_one, exec_bind, exec_store_ok _ _ _ hm hwr]
    exact he

/-- **`mem_prim_set(dest, len, value)` on bytes, all lengths, addresses and values:** if the
`len mod 2^32` addressed cells are writable the call returns, and exactly those cells hold
`(uint8_t)value` afterwards. -/
theorem mem_prim_set_ok (dest len value : Nat) (st : St) (hw : RW st dest (len % U32)) :
    ∃ st', exec (mem_prim_set 1 dest len value) st = .ok ((), st') ∧
      Filled st st' dest (len % U32) (value % 256) := by
  obtain ⟨k, c', s1, he1, hc, _, hf1⟩ := setPrologue_ok (value % 256) (len % U32) dest st hw
  have hw1 : RW s1 (dest + k) c' := RW.of_filled hf1 (hw.sub (by omega) (by omega))
  have hwb : RW s1 (dest + k) (128 * (c' / 8 / 16)) := hw1.sub (Nat.le_refl _) (by omega)
  obtain ⟨s2, he2, hf2⟩ := setBlocks_ok (value % 256) (c' / 8 / 16) (dest + k) s1 hwb
  have hw2 : RW s2 (dest + k + 128 * (c' / 8 / 16)) (8 * (c' / 8 % 16)) :=
    RW.of_filled hf2 (hw1.sub (by omega) (by omega))
  obtain ⟨s3, he3, hf3⟩ := setWords_ok (value % 256) (c' / 8 % 16) _ s2 hw2
  have hw3 : RW s3 (dest + k + 128 * (c' / 8 / 16) + 8 * (c' / 8 % 16)) (c' % 8) :=
    RW.of_filled hf3 (RW.of_filled hf2 (hw1.sub (by omega) (by omega)))
  obtain ⟨s4, he4, hf4⟩ := setTail_ok (value % 256) (c' % 8) _ s3 hw3
  have hf := ((hf1.append hf2).append' hf3 (by omega)).append' hf4 (by omega)
  have hlen : k + 128 * (c' / 8 / 16) + 8 * (c' / 8 % 16) + c' % 8 = len % U32 := by omega
  refine ⟨s4, ?_, hf.cast hlen⟩
  simp only [mem_prim_set, exec_bind, he1, he2, he3]
  exact he4

/-! ## `mem_prim_set16` / `mem_prim_set32` -/

theorem setElems_ok (v k dp : Nat) (st : St) (hw : RW st dp k) :
    ∃ st', exec (setElems v k dp) st = .ok (dp + k, st') ∧ Filled st st' dp k v := by
  induction k generalizing dp st with
  | zero => exact ⟨st, rfl, Filled.nil _ _ _⟩
  | succ n ih =>
    obtain ⟨hm, hwr, _⟩ := hw.head
    obtain ⟨st', he, hf⟩ := ih (dp+1) (st.upd dp v) (RW.of_sameMeta (SameMeta.upd _ _ _) hw.tail)
    refine ⟨st', ?_, ((Filled.upd st dp v).append hf).cast (by omega)⟩
    have e : dp + (n+1) = dp + 1 + n := by omega
    simp only [setElems, exec_bind, exec_store_ok _ _ _ hm hwr]
    rw [e]; exact he

theorem setElemBlocks_ok (v q dp : Nat) (st : St) (hw : RW st dp (16*q)) :
    ∃ st', exec (setElemBlocks v q dp) st = .ok (dp + 16*q, st') ∧ Filled st st' dp (16*q) v := by
  induction q generalizing dp st with
  | zero => exact ⟨st, rfl, Filled.nil _ _ _⟩
  | succ q ih =>
    obtain ⟨s1, he1, hf1⟩ := setElems_ok v 16 dp st (hw.sub (Nat.le_refl _) (by omega))
    obtain ⟨s2, he2, hf2⟩ := ih (dp + 16) s1 (RW.of_filled hf1 (hw.sub (by omega) (by omega)))
    refine ⟨s2, ?_, (hf1.append hf2).cast (by omega)⟩
    have e : dp + 16 * (q+1) = dp + 16 + 16 * q := by omega
    simp only [setElemBlocks, exec_bind, he1]
    rw [e]; exact he2

/-- the element primitives, all lengths, addresses and values -/
theorem primSetElems_ok (dest len value : Nat) (st : St) (hw : RW st dest (len % U32)) :
    ∃ st', exec (primSetElems dest len value) st = .ok ((), st') ∧
      Filled st st' dest (len % U32) value := by
  have hwa : RW st dest (16 * (len % U32 / 16)) := hw.sub (Nat.le_refl _) (by omega)
  obtain ⟨s1, he1, hf1⟩ := setElemBlocks_ok value (len % U32 / 16) dest st hwa
  have hwb : RW st (dest + 16 * (len % U32 / 16)) (len % U32 % 16) := hw.sub (by omega) (by omega)
  obtain ⟨s2, he2, hf2⟩ := setElems_ok value (len % U32 % 16) (dest + 16 * (len % U32 / 16)) s1
    (RW.of_filled hf1 hwb)
  have hlen : 16 * (len % U32 / 16) + len % U32 % 16 = len % U32 := by omega
  refine ⟨s2, ?_, (hf1.append hf2).cast hlen⟩
  simp only [primSetElems, exec_bind, he1, he2]
  rfl

theorem mem_prim_set16_ok (dest len value : Nat) (st : St) (hw : RW st dest (len % U32)) :
    ∃ st', exec (mem_prim_set16 dest len value) st = .ok ((), st') ∧
      Filled st st' dest (len % U32) (value % 2^16) :=
  primSetElems_ok dest len (value % 2^16) st hw

theorem mem_prim_set32_ok (dest len value : Nat) (st : St) (hw : RW st dest (len % U32)) :
    ∃ st', exec (mem_prim_set32 dest len value) st = .ok ((), st') ∧
      Filled st st' dest (len % U32) (value % 2^32) :=
  primSetElems_ok dest len (value % 2^32) st hw

/-- `explicit_bzero(dest, len)` on byte cells -/
theorem memsetBytes_one_ok (v dest n : Nat) (st : St) (hw : RW st dest n) :
    ∃ st', exec (memsetBytes 1 v dest n) st = .ok ((), st') ∧ Filled st st' dest n v := by
  obtain ⟨s1, he1, hf1⟩ := memsetP_filled v n dest st hw
  refine ⟨s1, ?_, hf1⟩
  simp only [memsetBytes, spread_one, Nat.div_one, Nat.mod_one, exec_bind, he1, if_true]
  rfl

end SafeC

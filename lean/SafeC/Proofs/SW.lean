import SafeC.Proofs.WW
/-!
# `SW lo hi p Q`: the SEMANTIC store-address judgement, and the walking tactic `sw_walk`

`SW lo hi p Q` is the conclusion of `WW.sound` taken as a definition: on every memory where all cells are mapped
and readable (with ARBITRARY contents) and `[lo, hi)` is writable, `p` runs to completion, returns a value
satisfying `Q`, keeps mapping and permissions, records no stray WRITE and leaves every cell outside `[lo, hi)`
bit-identical.  It composes like a Hoare triple (`SW.bind`), every `WW` program is `SW` (`SW.of_WW`), and — unlike
`WW` — a leaf may also be justified by an `exec`-level theorem (`mem_prim_move_ok`, `mem_prim_set_ok`: the
alignment arithmetic of the primitives is not redone).

`sw_walk` (same shape as `quiet` / `ev_walk`): opens binds / binders / conditionals / matches, closes the store
leaves with `omega` bounds, takes loop lemmas / induction hypotheses after `using`.
-/
namespace SafeC

/-! ### monad laws used by the walk to expose the next primitive step -/

theorem Prog.bind_assoc' {α β γ} (p : Prog α) (f : α → Prog β) (g : β → Prog γ) :
    (p >>= f) >>= g = p >>= fun x => f x >>= g := by
  show (p.bind f).bind g = p.bind (fun x => (f x).bind g)
  induction p with
  | ret x => rfl
  | load a k ih => simp only [Prog.bind]; congr 1; funext v; exact ih v
  | store a v k ih => simp only [Prog.bind]; congr 1
  | emit e k ih => simp only [Prog.bind]; congr 1

theorem Prog.pure_bind' {α β} (x : α) (f : α → Prog β) : (Pure.pure x : Prog α) >>= f = f x := rfl

theorem Prog.ite_bind' {α β} (c : Prop) [Decidable c] (a b : Prog α) (f : α → Prog β) :
    (if c then a else b) >>= f = if c then a >>= f else b >>= f := by
  split <;> rfl

def SW (lo hi : Nat) {α : Type} (p : Prog α) (Q : α → Prop) : Prop :=
  ∀ st : St, (∀ a, st.mapped a = true ∧ st.rd a = true) → (∀ a, lo ≤ a → a < hi → st.wr a = true) →
    ∃ r st', exec p st = .ok (r, st') ∧ Q r ∧ st'.mapped = st.mapped ∧ st'.wr = st.wr ∧ st'.rd = st.rd ∧
      (∀ x ∈ st'.strays, x ∈ st.strays ∨ x.isWrite = false) ∧
      (∀ a, ¬ (lo ≤ a ∧ a < hi) → st'.data a = st.data a)

namespace SW

/-- introduction / elimination (the definition is sealed below so that `intro` in the walk does not unfold it) -/
theorem mk {lo hi : Nat} {α} {p : Prog α} {Q : α → Prop}
    (h : ∀ st : St, (∀ a, st.mapped a = true ∧ st.rd a = true) → (∀ a, lo ≤ a → a < hi → st.wr a = true) →
      ∃ r st', exec p st = .ok (r, st') ∧ Q r ∧ st'.mapped = st.mapped ∧ st'.wr = st.wr ∧ st'.rd = st.rd ∧
        (∀ x ∈ st'.strays, x ∈ st.strays ∨ x.isWrite = false) ∧
        (∀ a, ¬ (lo ≤ a ∧ a < hi) → st'.data a = st.data a)) : SW lo hi p Q := h

theorem elim {lo hi : Nat} {α} {p : Prog α} {Q : α → Prop} (h : SW lo hi p Q) (st : St)
    (hall : ∀ a, st.mapped a = true ∧ st.rd a = true) (hw : ∀ a, lo ≤ a → a < hi → st.wr a = true) :
    ∃ r st', exec p st = .ok (r, st') ∧ Q r ∧ st'.mapped = st.mapped ∧ st'.wr = st.wr ∧ st'.rd = st.rd ∧
      (∀ x ∈ st'.strays, x ∈ st.strays ∨ x.isWrite = false) ∧
      (∀ a, ¬ (lo ≤ a ∧ a < hi) → st'.data a = st.data a) := h st hall hw

theorem of_WW {lo hi : Nat} {α} {p : Prog α} {Q : α → Prop} (h : WW lo hi p Q) : SW lo hi p Q :=
  fun st hall hw => h.sound st (fun a => (hall a).1) hw

theorem pure {lo hi : Nat} {α} {Q : α → Prop} (x : α) (h : Q x) : SW lo hi (Pure.pure x : Prog α) Q :=
  of_WW (WW.pure x h)

theorem ret {lo hi : Nat} {α} {Q : α → Prop} (x : α) (h : Q x) : SW lo hi (Prog.ret x : Prog α) Q :=
  of_WW (WW.ret x h)

theorem bind {lo hi : Nat} {α β} {p : Prog α} {f : α → Prog β} {Q : α → Prop} {R : β → Prop}
    (hp : SW lo hi p Q) (hf : ∀ x, Q x → SW lo hi (f x) R) : SW lo hi (p >>= f) R := by
  intro st hall hw
  obtain ⟨r, s1, he, hq, m1, w1, r1, y1, d1⟩ := hp st hall hw
  obtain ⟨r2, s2, he2, hq2, m2, w2, r2', y2, d2⟩ := hf r hq s1 (by rw [m1, r1]; exact hall) (by rw [w1]; exact hw)
  refine ⟨r2, s2, by rw [exec_bind, he]; exact he2, hq2, m2.trans m1, w2.trans w1, r2'.trans r1, ?_, ?_⟩
  · intro x hx
    rcases y2 x hx with h | h
    · exact y1 x h
    · exact Or.inr h
  · intro a ha; rw [d2 a ha, d1 a ha]

theorem conseq {lo hi : Nat} {α} {p : Prog α} {Q Q' : α → Prop} (hp : SW lo hi p Q) (h : ∀ x, Q x → Q' x) :
    SW lo hi p Q' := by
  intro st hall hw
  obtain ⟨r, s1, he, hq, rest⟩ := hp st hall hw
  exact ⟨r, s1, he, h r hq, rest⟩

theorem mono {lo hi lo' hi' : Nat} {α} {p : Prog α} {Q : α → Prop} (hp : SW lo hi p Q) (h1 : lo' ≤ lo) (h2 : hi ≤ hi') :
    SW lo' hi' p Q := by
  intro st hall hw
  obtain ⟨r, s1, he, hq, m1, w1, r1, y1, d1⟩ := hp st hall (fun a ha hb => hw a (by omega) (by omega))
  exact ⟨r, s1, he, hq, m1, w1, r1, y1, fun a ha => d1 a (by omega)⟩

/-- forget the postcondition -/
theorem weaken {lo hi : Nat} {α} {p : Prog α} {Q : α → Prop} (hp : SW lo hi p Q) : SW lo hi p (fun _ => True) :=
  hp.conseq (fun _ _ => trivial)

theorem loadP {lo hi : Nat} (a : Nat) : SW lo hi (SafeC.load a) (fun _ => True) := of_WW (WW.loadP a)
theorem storeP {lo hi : Nat} (a v : Nat) (h1 : lo ≤ a) (h2 : a < hi) : SW lo hi (SafeC.store a v) (fun _ => True) :=
  of_WW (WW.storeP a v h1 h2)
theorem emitP {lo hi : Nat} (e : Event) : SW lo hi (SafeC.emit e) (fun _ => True) := of_WW (WW.emitP e)
theorem handlerS {lo hi : Nat} (c : Nat) : SW lo hi (SafeC.handlerS c) (fun _ => True) := of_WW (WW.handlerS c)
theorem handlerM {lo hi : Nat} (c : Nat) : SW lo hi (SafeC.handlerM c) (fun _ => True) := of_WW (WW.handlerM c)
theorem failS {lo hi : Nat} (c : Nat) : SW lo hi (SafeC.failS c) (fun _ => True) := of_WW (WW.failS c)
theorem failM {lo hi : Nat} (c : Nat) : SW lo hi (SafeC.failM c) (fun _ => True) := by
  unfold SafeC.failM
  exact bind (handlerM c) (fun _ _ => pure _ trivial)
theorem memsetP {lo hi : Nat} (v n d : Nat) (h : n = 0 ∨ (lo ≤ d ∧ d + n ≤ hi)) :
    SW lo hi (SafeC.memsetP v n d) (fun _ => True) := by
  rcases h with h | ⟨h1, h2⟩
  · subst h; exact pure _ trivial
  · exact of_WW (WW.memsetP v n d h1 h2)
theorem zeroLoop {lo hi : Nat} (n d : Nat) (h : n = 0 ∨ (lo ≤ d ∧ d + n ≤ hi)) :
    SW lo hi (SafeC.zeroLoop n d) (fun _ => True) := by
  rw [zeroLoop_eq_memsetP]; exact memsetP 0 n d h
theorem nullSlack {lo hi : Nat} (d n : Nat) (h : n = 0 ∨ (lo ≤ d ∧ d + n ≤ hi)) :
    SW lo hi (SafeC.nullSlack d n) (fun _ => True) := by
  unfold SafeC.nullSlack
  split
  · exact memsetP 0 n d h
  · exact zeroLoop n d h
/-- `handle_error`: `len` cells with null-slack, `dest[0]` without -/
theorem handleError {lo hi : Nat} (cfg : Cfg) (d len code : Nat) (h1 : lo ≤ d) (h2 : d + len ≤ hi) (h3 : d < hi) :
    SW lo hi (SafeC.handleError cfg d len code) (fun _ => True) := of_WW (WW.handleError cfg d len code h1 h2 h3)

/-- from the judgement to the per-run facts the C01 theorems state -/
theorem run {lo hi : Nat} {α} {p : Prog α} {Q : α → Prop} (h : SW lo hi p Q) (st : St)
    (hall : ∀ a, st.mapped a = true ∧ st.rd a = true) (hclean : st.strays = [])
    (hw : ∀ a, lo ≤ a → a < hi → st.wr a = true) :
    ∃ r st', exec p st = .ok (r, st') ∧ Q r ∧ (∀ x ∈ st'.strays, x.isWrite = false) ∧
      ∀ a, st.wr a = false → st'.data a = st.data a := by
  obtain ⟨r, st', he, hq, _, _, _, h4, h5⟩ := h st hall hw
  refine ⟨r, st', he, hq, ?_, ?_⟩
  · intro x hx; rcases h4 x hx with h | h
    · rw [hclean] at h; cases h
    · exact h
  · intro a ha
    apply h5 a
    intro ⟨h1, h2⟩
    rw [hw a h1 h2] at ha; cases ha

end SW

attribute [irreducible] SW

/-- side conditions of the walk: linear arithmetic over the hypotheses collected on the way
(branch conditions, loop postconditions, the caller's `lo ≤ dest ∧ dest + dmax ≤ hi`) -/
macro "sw_arith" : tactic => `(tactic| first
  | omega
  | decide
  | (dsimp only at * <;> omega)
  | (simp only [Prod.mk.injEq, Sum.inr.injEq, Sum.inl.injEq, reduceCtorEq, false_and, and_false, false_or, or_false, false_implies,
       forall_const, ne_eq, not_false_eq_true, not_true_eq_false, gt_iff_lt, ge_iff_le, decide_eq_true_eq,
       Bool.and_eq_true, Bool.or_eq_true, Bool.not_eq_true, decide_eq_false_iff_not] at * <;> omega))

/-- the postcondition at a `pure` leaf -/
macro "sw_post" : tactic => `(tactic| first | trivial | sw_arith | (intros; sw_arith))

/-- expose the next primitive step: monad laws, decided conditions, then case split on a conditional / match
(BEFORE any lemma is tried: unifying a lemma about a definition that unfolds to a conditional with a conditional
goal is how `apply` goes astray) -/
macro "sw_pre" : tactic => `(tactic| first
  | rw [Prog.bind_assoc']
  | rw [Prog.pure_bind']
  | rw [Prog.ite_bind']
  | simp only [eq_self, ite_true, ite_false, if_true, if_false, reduceCtorEq, Bool.false_eq_true, Bool.true_eq_false,
      decide_eq_true_eq]
  | split)

/-- close a leaf -/
macro "sw_leaf" : tactic => `(tactic| first
  | (refine SW.pure _ ?_; sw_post)
  | (refine SW.ret _ ?_; sw_post)
  | exact SW.failS _
  | exact SW.failM _
  | exact SW.loadP _
  | exact SW.handlerS _
  | exact SW.handlerM _
  | exact SW.emitP _
  | (refine SW.storeP _ _ ?_ ?_ <;> sw_arith)
  | (refine SW.memsetP _ _ _ ?_; sw_arith)
  | (refine SW.zeroLoop _ _ ?_; sw_arith)
  | (refine SW.nullSlack _ _ ?_; sw_arith)
  | (refine SW.handleError _ _ _ _ ?_ ?_ ?_ <;> sw_arith)
  | assumption)

/-- open a bind / binder, or discharge a side condition -/
macro "sw_open" : tactic => `(tactic| first
  | apply SW.bind
  | intro _
  | dsimp only
  | sw_arith)

/-- one step of the walk -/
macro "sw_step" : tactic => `(tactic| first | sw_pre | sw_leaf | sw_open)

/-- `sw_walk` walks the whole program; `sw_walk using l₁, l₂` also tries the given lemmas / induction hypotheses
(as they are, or up to a weaker postcondition) before a leaf is tried or a bind is opened -/
syntax "sw_walk" (" using " term,+)? : tactic
macro_rules
  | `(tactic| sw_walk) => `(tactic| repeat sw_step)
  | `(tactic| sw_walk using $[$hs],*) =>
    `(tactic| repeat (first | sw_pre $[| apply $hs]* $[| (apply SW.conseq; apply $hs)]* | sw_leaf | sw_open))

end SafeC

import SafeC.Proofs.InterleaveN
/-!
# Reentrancy: the handler events of an interleaving are a shuffle of the threads' own event lists (C12)

`emits p s`: the events the total run of `p` from `s` appends, in order.  `Sh f L g`: the list `L` is
obtained by repeatedly taking the head of one of the lists `f i`; what is left of the lists is `g`.
`pool_events`: after ANY schedule of a non-interfering pool the event log is the initial log followed by
such an `L`, where `f i` = the events thread `i` emits when run alone from the INITIAL memory and `g i` = the
events its remaining program emits when run alone from the CURRENT memory (`[]` once it has finished).
So every thread's events appear completely, in the thread's own order, with the values (handler kind and
code) of its run-alone execution; only the relative order of different threads' events depends on the schedule.
-/
namespace SafeC

/-- the events appended by the total run of `p` from `s` -/
def emits : Prog α → St → List Event
  | .ret _, _ => []
  | .load a k, s => emits (k (s.data a)) s
  | .store a v k, s => emits k (s.upd a v)
  | .emit e k, s => e :: emits k s

/-- `emits` looks at the contents only … -/
theorem emits_data_congr (p : Prog α) (s s' : St) (h : s.data = s'.data) : emits p s = emits p s' := by
  induction p generalizing s s' with
  | ret x => rfl
  | load a k ih => simp only [emits]; rw [h]; exact ih _ s s' h
  | store a v k ih =>
    simp only [emits]
    exact ih (s.upd a v) (s'.upd a v) (by funext x; simp only [St.upd_data, h])
  | emit e k ih => simp only [emits]; rw [ih s s' h]

/-- … and only at the cells of the footprint -/
theorem emits_congr {F : Nat → Prop} (p : Prog α) (s s' : St) (h : AgreeOn F s s') (hw : Within F p s) :
    emits p s = emits p s' := by
  induction p generalizing s s' with
  | ret x => rfl
  | load a k ih =>
    simp only [emits]
    rw [← h a hw.1]
    exact ih _ s s' h hw.2
  | store a v k ih =>
    simp only [emits]
    exact ih (s.upd a v) (s'.upd a v) (h.upd a v) hw.2
  | emit e k ih =>
    simp only [emits]
    have hw' : Within F k s := within_data_congr k { s with events := s.events ++ [e] } s rfl hw
    rw [ih s s' h hw']

/-- the log after a total run = the log before ++ `emits` -/
theorem runT_events (p : Prog α) (s : St) : (runT p s).2.events = s.events ++ emits p s := by
  induction p generalizing s with
  | ret x => simp [runT, emits]
  | load a k ih => exact ih _ s
  | store a v k ih =>
    simp only [runT, emits]
    rw [ih]
    rfl
  | emit e k ih =>
    simp only [runT, emits]
    rw [ih]
    simp only [List.append_assoc, List.singleton_append]
    congr 2
    exact emits_data_congr k _ s rfl

variable {ι : Type} [DecidableEq ι]

/-- `L` is a shuffle of prefixes of the lists `f i`, leaving `g i` -/
inductive Sh : (ι → List Event) → List Event → (ι → List Event) → Prop where
  | done {f g : ι → List Event} : (∀ i, f i = g i) → Sh f [] g
  | step {f f' g : ι → List Event} {L : List Event} (i : ι) (e : Event) (rest : List Event) :
      f i = e :: rest → (∀ j, f' j = if j = i then rest else f j) → Sh f' L g → Sh f (e :: L) g

theorem Sh.congr_left {f f' g : ι → List Event} {L : List Event} (h : ∀ i, f i = f' i) (hs : Sh f L g) :
    Sh f' L g := by
  induction hs generalizing f' with
  | done hd => exact .done (fun i => (h i).symm.trans (hd i))
  | step i e rest hi hf' _ ih =>
    refine .step i e rest ((h i).symm.trans hi) (f' := _) (fun j => hf' j |>.trans ?_) (ih (fun _ => rfl))
    by_cases hj : j = i
    · simp [hj]
    · simp [hj, h j]

/-- the events a thread emits when run alone -/
def Thread.evs (th : Thread) (s : St) : List Event := emits th.2 s

/-- one atomic step either appends one event, which is the head of the thread's own list, or none -/
theorem Thread.step_events (th : Thread) (s : St) :
    (∃ e, (th.step s).2.events = s.events ++ [e] ∧ th.evs s = e :: (th.step s).1.evs (th.step s).2) ∨
    ((th.step s).2.events = s.events ∧ th.evs s = (th.step s).1.evs (th.step s).2) := by
  obtain ⟨α, p⟩ := th
  cases p with
  | ret x => exact Or.inr ⟨rfl, rfl⟩
  | load a k => exact Or.inr ⟨rfl, rfl⟩
  | store a v k => exact Or.inr ⟨rfl, rfl⟩
  | emit e k =>
    refine Or.inl ⟨e, rfl, ?_⟩
    simp only [Thread.evs, Thread.step, step, emits]
    congr 1
    exact emits_data_congr k _ _ rfl

/-- **events of an interleaving** (see the file header) -/
theorem pool_events {R W : ι → Nat → Prop} (hni : NonInterf R W) (sch : List ι) (ps : ι → Thread) (s : St)
    (hw : ∀ i, (ps i).Fp (R i) (W i) s) :
    ∃ L, (runPool sch ps s).2.events = s.events ++ L ∧
      Sh (fun i => (ps i).evs s) L (fun i => ((runPool sch ps s).1 i).evs (runPool sch ps s).2) := by
  induction sch generalizing ps s with
  | nil => exact ⟨[], by simp [runPool], .done (fun _ => rfl)⟩
  | cons i sch ih =>
    simp only [runPool]
    have own := Thread.step_own (ps i) s (hw i)
    have hag : ∀ j, j ≠ i → AgreeOn (fun a => R j a ∨ W j a) ((ps i).step s).2 s := by
      intro j hj a ha
      apply own.2.2.2
      intro hwi
      have := hni i j (fun e => hj e.symm) a hwi
      rcases ha with ha | ha
      · exact this.1 ha
      · exact this.2 ha
    have hw1 : ∀ j, (if j = i then ((ps i).step s).1 else ps j).Fp (R j) (W j) ((ps i).step s).2 := by
      intro j
      by_cases hj : j = i
      · subst hj; simp only [if_true]; exact own.1
      · simp only [hj, if_false]
        exact (Thread.other (ps j) s _ (hag j hj) (hw j)).1
    obtain ⟨L, hev, hsh⟩ := ih (fun j => if j = i then ((ps i).step s).1 else ps j) ((ps i).step s).2 hw1
    -- the other threads' own event lists are unchanged by the step
    have hother : ∀ j, j ≠ i → (ps j).evs ((ps i).step s).2 = (ps j).evs s := by
      intro j hj
      have hw' := (Thread.other (ps j) s _ (hag j hj) (hw j)).1
      exact emits_congr (ps j).2 _ s (hag j hj) (Within2.within _ _ hw')
    have hstep := Thread.step_events (ps i) s
    rcases hstep with ⟨e, h1, h2⟩ | ⟨h1, h2⟩
    · refine ⟨e :: L, by rw [hev, h1]; simp, ?_⟩
      refine .step i e _ h2 (f' := fun j => (if j = i then ((ps i).step s).1 else ps j).evs ((ps i).step s).2)
        (fun j => ?_) hsh
      by_cases hj : j = i
      · subst hj; simp
      · simp only [hj, if_false]; exact hother j hj
    · refine ⟨L, by rw [hev, h1], ?_⟩
      refine Sh.congr_left (fun j => ?_) hsh
      by_cases hj : j = i
      · subst hj; simp only [if_true]; exact h2.symm
      · simp only [hj, if_false]; exact hother j hj

/-- all threads finished: the log is the initial log followed by a complete shuffle of the run-alone lists -/
theorem pool_events_finished {R W : ι → Nat → Prop} (hni : NonInterf R W) (sch : List ι) (ps : ι → Thread) (s : St)
    (hw : ∀ i, (ps i).Fp (R i) (W i) s) (hfin : ∀ i, ((runPool sch ps s).1 i).isDone = true) :
    ∃ L, (runPool sch ps s).2.events = s.events ++ L ∧ Sh (fun i => (ps i).evs s) L (fun _ => []) := by
  obtain ⟨L, h1, h2⟩ := pool_events hni sch ps s hw
  refine ⟨L, h1, ?_⟩
  have : ∀ i, ((runPool sch ps s).1 i).evs (runPool sch ps s).2 = [] := by
    intro i
    have hd := hfin i
    generalize (runPool sch ps s).1 i = th at hd
    obtain ⟨α, p⟩ := th
    cases p with
    | ret x => rfl
    | load _ _ => simp [Thread.isDone, done] at hd
    | store _ _ _ => simp [Thread.isDone, done] at hd
    | emit _ _ => simp [Thread.isDone, done] at hd
  clear h1
  generalize hg : (fun i => ((runPool sch ps s).1 i).evs (runPool sch ps s).2) = g at h2
  generalize (fun i => (ps i).evs s) = f at h2
  have hg' : ∀ i, g i = [] := fun i => by rw [← hg]; exact this i
  clear hg this
  induction h2 with
  | done hd => exact .done (fun i => (hd i).trans (hg' i))
  | step i e rest hi hf' _ ih => exact .step i e rest hi hf' (ih hg')

end SafeC

import SafeC.Proofs.CopyWrappers
/-!
# Shape of a successful bumper copy, for every placement and content

`copyLoop_safe` says that an EOK exit leaves *a* NUL inside dest.  `copyLoop_shape` says where: at an
index `t` such that every cell the loop stored in front of it is non-zero (so `t` is the terminator
of the result), the cells below the loop's start are untouched, and with null-slack every cell from
`t` to the end of dest is zero.  No hypothesis on the placement of `src` or on the contents.
-/
namespace SafeC
open Gen

/-- the result in `dest[0..dmax)` has its terminator at index `t`: non-zero cells in front, a NUL at
`t`, and in the null-slack build only zeros from there to `dmax` -/
def TermAt (cfg : Cfg) (dest dmax t : Nat) (st' : St) : Prop :=
  t < dmax ∧ (∀ i, i < t → st'.data (dest + i) ≠ 0) ∧ st'.data (dest + t) = 0 ∧
  (cfg.slack = true → ∀ i, t ≤ i → i < dmax → st'.data (dest + i) = 0)

/-- same permissions, strays; nothing outside `[dest, dest+ext)` changed -/
structure FramePost (dest ext : Nat) (st st' : St) : Prop where
  mapped : st'.mapped = st.mapped
  rd : st'.rd = st.rd
  wr : st'.wr = st.wr
  strays : st'.strays = st.strays
  frame : ∀ a, ¬ (dest ≤ a ∧ a < dest + ext) → st'.data a = st.data a

theorem FramePost.refl (dest ext : Nat) (st : St) : FramePost dest ext st st :=
  ⟨rfl, rfl, rfl, rfl, fun _ _ => rfl⟩

theorem FramePost.of_safe {cfg : Cfg} {dest ext code : Nat} {st st' : St}
    (h : SafePost cfg dest ext st st' code) : FramePost dest ext st st' :=
  ⟨h.mapped, h.rd, h.wr, h.strays, h.frame⟩

theorem FramePost.of_copy {cfg : Cfg} {dest ext code : Nat} {st st' : St}
    (h : CopyPost cfg dest ext st st' code) : FramePost dest ext st st' :=
  ⟨h.mapped, h.rd, h.wr, h.strays, h.frame⟩

/-- a frame on a sub-extent is a frame on the extent -/
theorem FramePost.mono {dest ext ext' : Nat} {st st' : St} (h : FramePost dest ext st st') (hle : ext ≤ ext') :
    FramePost dest ext' st st' :=
  ⟨h.mapped, h.rd, h.wr, h.strays, fun a ha => h.frame a (by omega)⟩

theorem FramePost.trans {dest ext : Nat} {a b c : St} (h1 : FramePost dest ext a b) (h2 : FramePost dest ext b c) :
    FramePost dest ext a c :=
  ⟨h2.mapped.trans h1.mapped, h2.rd.trans h1.rd, h2.wr.trans h1.wr, h2.strays.trans h1.strays,
   fun x hx => (h2.frame x hx).trans (h1.frame x hx)⟩

/-- what an EOK exit of the copy loop started at `d` with `k` cells left looks like -/
def ShapeOk (cfg : Cfg) (d k : Nat) (st st' : St) : Prop :=
  ∃ t, d ≤ t ∧ t < d + k ∧ (∀ a, a < d → st'.data a = st.data a) ∧
    (∀ a, d ≤ a → a < t → st'.data a ≠ 0) ∧ st'.data t = 0 ∧
    (cfg.slack = true → ∀ a, t ≤ a → a < d + k → st'.data a = 0)

/-- **Shape of the copy loop's EOK exit, for every placement, content and length.** -/
theorem copyLoop_shape (cfg : Cfg) (onDest bounded : Bool) (B oD oM : Nat) (hoM : 0 < oM)
    (k d s slen : Nat) (st : St)
    (hall : ∀ a, st.mapped a = true ∧ st.rd a = true)
    (hrw : RW st oD oM) (hinv : oD ≤ d ∧ d + k = oD + oM) :
    ∃ code st', exec (copyLoop cfg onDest bounded B oD oM k d s slen) st = .ok (code, st') ∧
      (code = EOK → ShapeOk cfg d k st st') := by
  induction k generalizing d s slen st with
  | zero =>
    unfold copyLoop
    obtain ⟨st', he, _⟩ := copy_fail_post cfg oD oM ESNOSPC st hrw hoM (Or.inr rfl)
    exact ⟨ESNOSPC, st', he, fun h => absurd h ESNOSPC_ne_EOK⟩
  | succ k ih =>
    unfold copyLoop
    by_cases hb : (if onDest then d else s) = B
    · simp only [hb, if_true]
      obtain ⟨st', he, _⟩ := copy_fail_post cfg oD oM ESOVRLP st hrw hoM (Or.inl rfl)
      exact ⟨ESOVRLP, st', he, fun h => absurd h ESOVRLP_ne_EOK⟩
    · simp only [hb, if_false]
      have hsub : RW st d (k+1) := by
        intro i hi
        have := hrw (d - oD + i) (by omega)
        have e : oD + (d - oD + i) = d + i := by omega
        rwa [e] at this
      have hdm : st.mapped d = true ∧ st.wr d = true ∧ st.rd d = true := hsub.head
      by_cases hsl : bounded = true ∧ slen = 0
      · simp only [hsl, and_self, if_true]
        cases hcs : cfg.slack with
        | true =>
          obtain ⟨st', he, _, hd⟩ := nullSlack_ok d (k+1) st hsub
          refine ⟨EOK, st', by simp [exec_bind, he], fun _ => ⟨d, Nat.le_refl _, by omega, ?_, ?_, ?_, ?_⟩⟩
          · intro a ha; rw [hd a]
            have : ¬ (d ≤ a ∧ a < d + (k+1)) := by omega
            simp [this]
          · intro a h1 h2; omega
          · rw [hd d]; simp
          · intro _ a h1 h2; rw [hd a]; simp [h1, h2]
        | false =>
          refine ⟨EOK, st.upd d 0, by simp [exec_bind, exec_store_ok _ _ _ hdm.1 hdm.2.1],
            fun _ => ⟨d, Nat.le_refl _, by omega, ?_, ?_, by simp, fun h => by rw [hcs] at h; cases h⟩⟩
          · intro a ha; exact St.upd_data_ne _ _ _ _ (by omega)
          · intro a h1 h2; omega
      · simp only [hsl, if_false]
        have hs_m := hall s
        simp only [exec_bind, exec_load_ok _ _ hs_m.1 hs_m.2, exec_store_ok _ _ _ hdm.1 hdm.2.1]
        by_cases hc : st.data s = 0
        · simp only [hc, if_true]
          cases hcs : cfg.slack with
          | true =>
            simp only [if_true]
            obtain ⟨st', he, _, hd⟩ := nullSlack_ok d (k+1) (st.upd d 0) (RW.of_sameMeta (SameMeta.upd _ _ _) hsub)
            refine ⟨EOK, st', by simp [exec_bind, he], fun _ => ⟨d, Nat.le_refl _, by omega, ?_, ?_, ?_, ?_⟩⟩
            · intro a ha; rw [hd a]
              have : ¬ (d ≤ a ∧ a < d + (k+1)) := by omega
              simp only [this, if_false]
              exact St.upd_data_ne _ _ _ _ (by omega)
            · intro a h1 h2; omega
            · rw [hd d]; simp
            · intro _ a h1 h2; rw [hd a]; simp [h1, h2]
          | false =>
            refine ⟨EOK, st.upd d 0, by simp,
              fun _ => ⟨d, Nat.le_refl _, by omega, ?_, ?_, by simp, fun h => by rw [hcs] at h; cases h⟩⟩
            · intro a ha; exact St.upd_data_ne _ _ _ _ (by omega)
            · intro a h1 h2; omega
        · simp only [hc, if_false]
          obtain ⟨code, st', he, hp⟩ := ih (d+1) (s+1) (slen-1) (st.upd d (st.data s))
            (by intro a; exact hall a) (RW.of_sameMeta (SameMeta.upd _ _ _) hrw) (by omega)
          refine ⟨code, st', he, fun hcode => ?_⟩
          obtain ⟨t, h1, h2, h3, h4, h5, h6⟩ := hp hcode
          refine ⟨t, by omega, by omega, ?_, ?_, h5, ?_⟩
          · intro a ha
            rw [h3 a (by omega)]
            exact St.upd_data_ne _ _ _ _ (by omega)
          · intro a ha1 ha2
            by_cases had : a = d
            · subst had
              rw [h3 a (by omega)]
              simpa using hc
            · exact h4 a (by omega) ha2
          · intro hs a ha1 ha2
            exact h6 hs a ha1 (by omega)

/-- `copyLoop_safe` and `copyLoop_shape` about the same run -/
theorem copyLoop_full (cfg : Cfg) (onDest bounded : Bool) (B oD oM : Nat) (hoM : 0 < oM)
    (k d s slen : Nat) (st : St)
    (hall : ∀ a, st.mapped a = true ∧ st.rd a = true)
    (hrw : RW st oD oM) (hinv : oD ≤ d ∧ d + k = oD + oM) :
    ∃ code st', exec (copyLoop cfg onDest bounded B oD oM k d s slen) st = .ok (code, st') ∧
      CopyPost cfg oD oM st st' code ∧ (code = EOK → ShapeOk cfg d k st st') := by
  obtain ⟨code, st', he, hp⟩ := copyLoop_safe cfg onDest bounded B oD oM hoM k d s slen st hall hrw hinv
  obtain ⟨code2, st2, he2, hs⟩ := copyLoop_shape cfg onDest bounded B oD oM hoM k d s slen st hall hrw hinv
  rw [he] at he2
  injection he2 with he2
  injection he2 with h1 h2
  subst h1; subst h2
  exact ⟨code, st', he, hp, hs⟩

end SafeC

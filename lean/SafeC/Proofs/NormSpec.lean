import SafeC.Proofs.NormRange
/-! C17 — NFD of the model = NFD of UAX #15 over UCD 14.0, for every string of assigned code points -/
namespace SafeC.Norm
open SafeC.Gen

theorem jamo_assigned : allBelow (fun i => UCD.assigned (0x1100 + i)) 19 = true ∧ allBelow (fun i => UCD.assigned (0x1161 + i)) 21 = true ∧
    allBelow (fun i => UCD.assigned (0x11A7 + i)) 28 = true := by
  refine ⟨?_, ?_, ?_⟩ <;> decide +kernel

theorem hangulDecomp_assigned {c : Nat} (h : UCD.isHangulS c = true) : ∀ d ∈ UCD.hangulDecomp c, UCD.assigned d = true := by
  obtain ⟨hL, hV, hT⟩ := jamo_assigned
  unfold UCD.isHangulS UCD.SBase UCD.SCount at h
  simp only [Bool.and_eq_true, decide_eq_true_eq] at h
  intro d hd
  unfold UCD.hangulDecomp UCD.SBase UCD.LBase UCD.VBase UCD.TBase UCD.NCount UCD.TCount at hd
  dsimp only at hd
  have sL := allBelow_spec hL ((c - 0xAC00) / 588) (by omega)
  have sV := allBelow_spec hV ((c - 0xAC00) % 588 / 28) (by omega)
  have sT := allBelow_spec hT ((c - 0xAC00) % 28) (by omega)
  split at hd
  · simp only [List.mem_cons, List.mem_nil_iff, or_false] at hd
    rcases hd with h | h
    · rw [h]; exact sL
    · rw [h]; exact sV
  · simp only [List.mem_cons, List.mem_nil_iff, or_false] at hd
    rcases hd with h | h | h
    · rw [h]; exact sL
    · rw [h]; exact sV
    · rw [h]; exact sT

/-- every cell of the UCD full decomposition of an assigned code point is assigned -/
theorem fullDecomp_assigned {c d : Nat} (hc : UCD.assigned c = true) (hd : d ∈ UCD.fullDecomp 4 c) : UCD.assigned d = true := by
  by_cases hs : isS c = true
  · have hh : UCD.isHangulS c = true := by rw [← isS_iff]; exact hs
    unfold UCD.fullDecomp at hd
    simp only [hh, ↓reduceIte] at hd
    exact hangulDecomp_assigned hh d hd
  · simp only [Bool.not_eq_true] at hs
    exact (fullDecomp_fixed (assigned_lt hc) hd hs).2.2 hc

/-- **NFD of the model = UAX #15 NFD over UCD 14.0** (D68 full canonical decomposition of every character, then the Canonical
Ordering Algorithm D109), for every string — any length — of code points assigned in Unicode 14.0 other than U+037E -/
theorem nfdPure_is_uax15 (xs : List Nat) (h : ∀ c ∈ xs, UCD.assigned c = true ∧ c ≠ 0x37E) :
    nfdPure xs = reorderPure UCD.ccc (UCD.decompose xs) ∧
    IsCanonicalOrdering UCD.ccc (UCD.decompose xs) (nfdPure xs) := by
  have h1 : xs.flatMap decompose1 = UCD.decompose xs := by
    unfold UCD.decompose
    induction xs with
    | nil => rfl
    | cons x xs ih =>
      simp only [List.flatMap_cons]
      rw [decomp_matches_ucd_partial (h x (by simp)).1 (h x (by simp)).2, ih (fun c hc => h c (by simp [hc]))]
  have h2 : ∀ d ∈ UCD.decompose xs, kcc d = UCD.ccc d := by
    intro d hd
    unfold UCD.decompose at hd
    simp only [List.mem_flatMap] at hd
    obtain ⟨c, hc, hdc⟩ := hd
    have := ccc_matches_ucd (fullDecomp_assigned (h c hc).1 hdc)
    unfold kcc
    rw [this]; rfl
  have h3 : nfdPure xs = reorderPure UCD.ccc (UCD.decompose xs) := by
    unfold nfdPure
    rw [h1]
    exact reorderPure_congr h2
  exact ⟨h3, h3 ▸ reorderPure_isCanonicalOrdering UCD.ccc (UCD.decompose xs)⟩

end SafeC.Norm

import SafeC.Proofs.AccS
import SafeC.Props.C02
/-!
# Vocabulary and glue of the `C02Ext*` theorems (no property statement here)

`Runs`, `Rd`/`Wr`, `Term`, `StrWr`, the bridges from the three footprint judgements (`Acc`, `AccD`, `AccS`) to a run on a
state in which only the footprint is mapped, and the window states used by witnesses and non-vacuity examples.
-/
namespace SafeC.Props.C02
open SafeC Gen

/-- the call returns and records no stray access -/
def Runs {α} (p : Prog α) (st : St) : Prop := ∃ r st', exec p st = .ok (r, st') ∧ NoStray st st'

/-- mapped and declared readable -/
def Rd (st : St) (a : Nat) : Prop := st.mapped a = true ∧ st.rd a = true

theorem runs_of_AccD {α} {p : Prog α} {Q : α → Prop} {st : St} (h : AccD st.data (Rd st) p Q) : Runs p st := by
  obtain ⟨r, st', he, _, hs, _⟩ := h.sound st rfl (fun _ h => h)
  exact ⟨r, st', he, hs⟩

/-- a declared string (cut at `n`) that has its terminator inside the cut is readable at every cut -/
theorem StrRd.of_term {st : St} {p n : Nat} (h : StrRd st p n) (ht : ∃ i, i < n ∧ st.data (p+i) = 0) (m : Nat) :
    StrRd st p m := by
  intro a hs
  obtain ⟨i, hi, h0⟩ := ht
  obtain ⟨h1, h2⟩ := hs.of_term h0
  exact h a ⟨hs.1, by omega, hs.2.2⟩

/-- a terminator among the first `n` cells at `p` -/
def Term (st : St) (p n : Nat) : Prop := ∃ i, i < n ∧ st.data (p+i) = 0


/-- the fault a run ended with, if any -/
def faultOf {α} : Except Fault α → Option Fault
  | .error f => some f
  | .ok _ => none

theorem faultOf_ok {α} {x : Except Fault α} {f : Fault} (h : faultOf x = some f) : x = .error f := by
  cases x with
  | error g => simp only [faultOf, Option.some.injEq] at h; rw [h]
  | ok _ => simp [faultOf] at h


/-- cells `lo₁ ≤ a < hi₁` and `lo₂ ≤ a < hi₂` mapped and readable, nothing else -/
def win (f : Nat → Nat) (lo₁ hi₁ lo₂ hi₂ : Nat) : St :=
  { data := f
    mapped := fun a => decide ((lo₁ ≤ a ∧ a < hi₁) ∨ (lo₂ ≤ a ∧ a < hi₂))
    rd := fun a => decide ((lo₁ ≤ a ∧ a < hi₁) ∨ (lo₂ ≤ a ∧ a < hi₂))
    wr := fun _ => false }


/-- mapped and declared writable -/
def Wr (st : St) (a : Nat) : Prop := st.mapped a = true ∧ st.wr a = true

theorem runs_of_Acc {α} {p : Prog α} {Q : α → Prop} {st : St} (h : Acc (Rd st) (Wr st) p Q) : Runs p st := by
  obtain ⟨r, st', he, _, hs, _⟩ := h.sound st (fun _ h => h) (fun _ h => h)
  exact ⟨r, st', he, hs⟩

theorem Rd_of_RD {st : St} {p n : Nat} (h : RD st p n) : ∀ a, Cells p n a → Rd st a := by
  intro a ⟨h1, h2⟩
  have := h (a - p) (by omega)
  rwa [show p + (a - p) = a by omega] at this

theorem Rd_of_RW {st : St} {p n : Nat} (h : RW st p n) : ∀ a, Cells p n a → Rd st a := by
  intro a ⟨h1, h2⟩
  have := h (a - p) (by omega)
  rw [show p + (a - p) = a by omega] at this
  exact ⟨this.1, this.2.2⟩

theorem Wr_of_RW {st : St} {p n : Nat} (h : RW st p n) : ∀ a, Cells p n a → Wr st a := by
  intro a ⟨h1, h2⟩
  have := h (a - p) (by omega)
  rw [show p + (a - p) = a by omega] at this
  exact ⟨this.1, this.2.1⟩

theorem Cells.sub {p n m a : Nat} (h : Cells p m a) (hm : m ≤ n) : Cells p n a := ⟨h.1, by have := h.2; omega⟩


theorem runs_of_AccS {α} {p : Prog α} {Q : α → (Nat → Nat) → Prop} {st : St} (h : AccS (Rd st) (Wr st) st.data p Q) :
    Runs p st := by
  obtain ⟨r, st', he, _, hs⟩ := h.sound st rfl (fun _ h => h) (fun _ h => h)
  exact ⟨r, st', he, hs⟩

theorem RD_of_RW {st : St} {p n : Nat} (h : RW st p n) : RD st p n := fun i hi => ⟨(h i hi).1, (h i hi).2.2⟩

/-- the cells of the string at `p` (cut at `n`) are mapped and writable -/
def StrWr (st : St) (p n : Nat) : Prop := ∀ a, Str st.data p n a → Wr st a

theorem StrWr.of_RW_term {st : St} {p n : Nat} (h : RW st p n) (ht : Term st p n) (m : Nat) : StrWr st p m := by
  intro a hs
  obtain ⟨i, hi, h0⟩ := ht
  obtain ⟨h1, h2⟩ := hs.of_term h0
  exact Wr_of_RW h a ⟨h1, by omega⟩


/-- as `win`, the mapped cells also writable -/
def winW (f : Nat → Nat) (lo₁ hi₁ lo₂ hi₂ : Nat) : St :=
  { win f lo₁ hi₁ lo₂ hi₂ with wr := fun a => decide ((lo₁ ≤ a ∧ a < hi₁) ∨ (lo₂ ≤ a ∧ a < hi₂)) }


end SafeC.Props.C02

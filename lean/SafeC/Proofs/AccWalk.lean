import SafeC.Proofs.AccD
import SafeC.Models.Query
import SafeC.Models.Query2
import SafeC.Models.Inplace
import SafeC.Models.Timing
/-!
# A walking tactic for the value-independent footprint judgement `Acc`, and the counter-bounded loops it covers

`acc_walk [t] using h₁, …`: opens binds / conditionals / matches, proves the address side condition of every
`load` and `store` with `t`, closes leaves with `pure` or one of the `hᵢ`.  Footprints are parameters
(`hr : ∀ a, Cells p n a → R a`).
-/
namespace SafeC
open Gen

namespace Acc
variable {R W : Nat → Prop}

theorem loadBind {α} {f : Nat → Prog α} {Q : α → Prop} {a : Nat} (ha : R a) (h : ∀ v, Acc R W (f v) Q) :
    Acc R W (SafeC.load a >>= f) Q := .load a _ ha h
theorem storeBind {α} {f : Unit → Prog α} {Q : α → Prop} {a v : Nat} (ha : W a) (h : Acc R W (f ()) Q) :
    Acc R W (SafeC.store a v >>= f) Q := .store a v _ ha h
theorem emitBind {α} {f : Unit → Prog α} {Q : α → Prop} (e : Event) (h : Acc R W (f ()) Q) :
    Acc R W (SafeC.emit e >>= f) Q := .emit e _ h
theorem handlerSBind {α} {f : Unit → Prog α} {Q : α → Prop} (c : Nat) (h : Acc R W (f ()) Q) :
    Acc R W (SafeC.handlerS c >>= f) Q := .emit _ _ h
theorem handlerMBind {α} {f : Unit → Prog α} {Q : α → Prop} (c : Nat) (h : Acc R W (f ()) Q) :
    Acc R W (SafeC.handlerM c >>= f) Q := .emit _ _ h
end Acc

macro "acc_struct" : tactic => `(tactic| first
  | with_reducible exact Acc.pure _ trivial
  | with_reducible exact Acc.ret _ trivial
  | with_reducible refine Acc.handlerSBind _ ?_
  | with_reducible refine Acc.handlerMBind _ ?_
  | with_reducible refine Acc.emitBind _ ?_
  | assumption
  | contradiction
  | split
  | dsimp only)

syntax "acc_walk" "[" tacticSeq "]" (" using " term,+)? : tactic
macro_rules
  | `(tactic| acc_walk [$t]) => `(tactic| repeat (first
      | with_reducible refine Acc.loadBind (by $t) (fun _ => ?_)
      | with_reducible refine Acc.storeBind (by $t) ?_
      | acc_struct))
  | `(tactic| acc_walk [$t] using $[$hs],*) => `(tactic| repeat (first
      $[| exact $hs]*
      | with_reducible refine Acc.loadBind (by $t) (fun _ => ?_)
      | with_reducible refine Acc.storeBind (by $t) ?_
      | acc_struct))

variable {R W : Nat → Prop}

theorem Acc_failS' {Q : Nat → Prop} (c : Nat) (h : Q c) : Acc R W (failS c) Q := by
  unfold failS; exact Acc.handlerSBind _ (Acc.pure _ h)
theorem Acc_failM' {Q : Nat → Prop} (c : Nat) (h : Q c) : Acc R W (failM c) Q := by
  unfold failM; exact Acc.handlerMBind _ (Acc.pure _ h)

/-! ## strnlen_s with its result bound, strrchr_s -/

theorem Acc_strnlenLoop_le (smax str count : Nat) (b : Bos) (hr : ∀ a, Cells str smax a → R a) :
    Acc R W (strnlenLoop smax str count b) (fun r => r ≤ count + smax) := by
  induction smax generalizing str count b with
  | zero => unfold strnlenLoop; exact Acc.pure _ (by omega)
  | succ n ih =>
    have h0 : R str := hr _ ⟨by omega, by omega⟩
    have tail : ∀ cnt bb, cnt = count + 1 → Acc R W (strnlenLoop n (str+1) cnt bb) (fun r => r ≤ count + (n+1)) :=
      fun cnt bb e => (ih (str+1) cnt bb (fun a ⟨h1, h2⟩ => hr a ⟨by omega, by omega⟩)).conseq (fun r hr => by omega)
    unfold strnlenLoop
    refine Acc.loadBind h0 (fun c => ?_)
    split
    · exact Acc.pure _ (by omega)
    · split
      · exact tail _ _ rfl
      · split
        · exact Acc.pure _ (by omega)
        · exact tail _ _ rfl

theorem Acc_strnlen_s_le (str smax : Nat) (b : Bos) (hr : str ≠ 0 → ∀ a, Cells str smax a → R a) :
    Acc R W (strnlen_s str smax b) (fun r => r ≤ smax) := by
  unfold strnlen_s
  split
  · exact Acc.handlerSBind _ (Acc.pure _ (by omega))
  · split
    · exact Acc.handlerSBind _ (Acc.pure _ (by omega))
    · split
      · exact Acc.handlerSBind _ (Acc.pure _ (by omega))
      · exact (Acc_strnlenLoop_le smax str 0 b (hr ‹_›)).conseq (fun r h => by omega)

theorem Acc_memrchrP' (c s n : Nat) (hr : ∀ a, Cells s n a → R a) : Acc R W (memrchrP c s n) (fun _ => True) := by
  induction n with
  | zero => exact Acc.pure _ trivial
  | succ n ih =>
    have h0 : R (s+n) := hr _ ⟨by omega, by omega⟩
    unfold memrchrP
    acc_walk [assumption] using ih (fun a ⟨h1, h2⟩ => hr a ⟨by omega, by omega⟩)

theorem Acc_qChkM' (dest dmax : Nat) (b : Bos) :
    Acc R W (qChkM dest dmax b) (fun r => r = none → dest ≠ 0) := by
  unfold qChkM
  have fail : ∀ c, Acc R W (qFailM c) (fun r => r = none → dest ≠ 0) := fun c => by
    unfold qFailM; exact Acc.handlerMBind _ (Acc.pure _ (fun h => by cases h))
  repeat (first | exact fail _ | exact Acc.pure _ (fun _ => ‹dest ≠ 0›) | split)

theorem Acc_memrchr_s (dest dmax : Nat) (ch : Int) (b : Bos) (hr : dest ≠ 0 → ∀ a, Cells dest dmax a → R a) :
    Acc R W (memrchr_s dest dmax ch b) (fun _ => True) := by
  unfold memrchr_s
  refine Acc.bind (Acc_qChkM' dest dmax b) (fun x hx => ?_)
  cases x with
  | some e => exact Acc.pure _ trivial
  | none =>
    dsimp only
    split
    · exact Acc.handlerSBind _ (Acc.pure _ trivial)
    · refine Acc.bind (Acc_memrchrP' _ dest dmax (hr (hx rfl))) (fun r _ => ?_)
      split <;> exact Acc.pure _ trivial

theorem Acc_qChkS' (dest dmax : Nat) (b : Bos) (src : Option Nat) :
    Acc R W (qChkS dest dmax b src) (fun r => r = none → dest ≠ 0) := by
  unfold qChkS
  have fail : ∀ c, Acc R W (qFailS c) (fun r => r = none → dest ≠ 0) := fun c => by
    unfold qFailS; exact Acc.handlerSBind _ (Acc.pure _ (fun h => by cases h))
  repeat (first | exact fail _ | exact Acc.pure _ (fun _ => ‹dest ≠ 0›) | split)

/-- **strrchr_s** (after the repair): `strnlen_s` bounded by `dmax`, then `memrchr` over at most `dmax` cells -/
theorem Acc_strrchr_s (dest dmax : Nat) (ch : Int) (b : Bos) (hr : dest ≠ 0 → ∀ a, Cells dest dmax a → R a) :
    Acc R W (strrchr_s dest dmax ch b) (fun _ => True) := by
  unfold strrchr_s
  refine Acc.bind (Acc_qChkS' dest dmax b none) (fun x hx => ?_)
  cases x with
  | some e => exact Acc.pure _ trivial
  | none =>
    have hd := hx rfl
    dsimp only
    split
    · exact Acc.handlerSBind _ (Acc.pure _ trivial)
    · split
      · exact Acc.handlerSBind _ (Acc.pure _ trivial)
      · refine Acc.bind (Acc_strnlen_s_le dest dmax none hr) (fun len hlen => ?_)
        split
        · refine Acc_memrchr_s dest _ ch none (fun h a ⟨h1, h2⟩ => hr h a ⟨h1, ?_⟩)
          split at h2 <;> omega
        · exact Acc.pure _ trivial

/-! ## wmemcmp_s -/

theorem Acc_wmemcmpLoop (dlen slen dp sp : Nat)
    (hd : ∀ a, Cells dp (min dlen slen) a → R a) (hs : ∀ a, Cells sp (min dlen slen) a → R a) :
    Acc R W (wmemcmpLoop dlen slen dp sp) (fun _ => True) := by
  induction dlen generalizing slen dp sp with
  | zero => unfold wmemcmpLoop; exact Acc.pure _ trivial
  | succ n ih =>
    unfold wmemcmpLoop
    split
    · exact Acc.pure _ trivial
    · have hd0 : R dp := hd _ ⟨by omega, by omega⟩
      have hs0 : R sp := hs _ ⟨by omega, by omega⟩
      acc_walk [assumption] using
        ih _ _ _ (fun a ⟨h1, h2⟩ => hd a ⟨by omega, by omega⟩) (fun a ⟨h1, h2⟩ => hs a ⟨by omega, by omega⟩)

theorem Acc_wmemcmp_s (dest dlen src slen : Nat) (db sb : Bos)
    (hd : dest ≠ 0 → slen ≤ dlen → ∀ a, Cells dest slen a → R a) (hs : src ≠ 0 → ∀ a, Cells src slen a → R a) :
    Acc R W (wmemcmp_s dest dlen src slen db sb) (fun _ => True) := by
  unfold wmemcmp_s
  have fail : ∀ e : Nat, Acc R W (do handlerM e; pure (e, (-1 : Int)) : Prog (Nat × Int)) (fun _ => True) :=
    fun e => Acc.handlerMBind _ (Acc.pure _ trivial)
  dsimp only
  split
  · exact fail _
  · rename_i h1
    split
    · exact fail _
    · rename_i h2
      split
      · exact fail _
      · have rest2 : Acc R W (if slen > dlen then (do handlerM ESNOSPC; pure (ESNOSPC, (-1 : Int)) : Prog (Nat × Int))
            else if dest = src then pure (EOK, 0)
            else do
              let r ← wmemcmpLoop dlen slen dest src
              pure (EOK, r)) (fun _ => True) := by
          split
          · exact fail _
          · rename_i hle
            split
            · exact Acc.pure _ trivial
            · have hm : min dlen slen = slen := by omega
              exact Acc.bind (Acc_wmemcmpLoop dlen slen dest src (by rw [hm]; exact hd h1 (by omega)) (by rw [hm]; exact hs h2))
                (fun _ _ => Acc.pure _ trivial)
        repeat (first | exact fail _ | exact rest2 | split)

/-! ## timingsafe_bcmp / timingsafe_memcmp -/

theorem Acc_bcmpLoop (n p1 p2 ret : Nat) (h1 : ∀ a, Cells p1 n a → R a) (h2 : ∀ a, Cells p2 n a → R a) :
    Acc R W (bcmpLoop n p1 p2 ret) (fun _ => True) := by
  induction n generalizing p1 p2 ret with
  | zero => unfold bcmpLoop br; exact Acc.emitBind _ (Acc.pure _ trivial)
  | succ n ih =>
    have g1 : R p1 := h1 _ ⟨by omega, by omega⟩
    have g2 : R p2 := h2 _ ⟨by omega, by omega⟩
    unfold bcmpLoop br
    acc_walk [assumption] using
      ih _ _ _ (fun a ⟨e1, e2⟩ => h1 a ⟨by omega, by omega⟩) (fun a ⟨e1, e2⟩ => h2 a ⟨by omega, by omega⟩)

theorem Acc_memcmpLoopT (n p1 p2 : Nat) (res done : Int32) (h1 : ∀ a, Cells p1 n a → R a) (h2 : ∀ a, Cells p2 n a → R a) :
    Acc R W (memcmpLoop n p1 p2 res done) (fun _ => True) := by
  induction n generalizing p1 p2 res done with
  | zero => unfold memcmpLoop br; exact Acc.emitBind _ (Acc.pure _ trivial)
  | succ n ih =>
    have g1 : R p1 := h1 _ ⟨by omega, by omega⟩
    have g2 : R p2 := h2 _ ⟨by omega, by omega⟩
    unfold memcmpLoop br
    acc_walk [assumption] using
      ih _ _ _ _ (fun a ⟨e1, e2⟩ => h1 a ⟨by omega, by omega⟩) (fun a ⟨e1, e2⟩ => h2 a ⟨by omega, by omega⟩)

theorem Acc_tsChecks (n : Nat) (db sb : Bos) : Acc R W (tsChecks n db sb) (fun _ => True) := by
  unfold tsChecks br
  acc_walk [assumption]

theorem Acc_timingsafe_bcmp (b1 b2 n : Nat) (db sb : Bos) (h1 : ∀ a, Cells b1 n a → R a) (h2 : ∀ a, Cells b2 n a → R a) :
    Acc R W (timingsafe_bcmp b1 b2 n db sb) (fun _ => True) := by
  unfold timingsafe_bcmp
  refine Acc.bind (Acc_tsChecks n db sb) (fun x _ => ?_)
  cases x with
  | some r => exact Acc.pure _ trivial
  | none => exact Acc.bind (Acc_bcmpLoop n b1 b2 0 h1 h2) (fun _ _ => Acc.pure _ trivial)

theorem Acc_timingsafe_memcmp (b1 b2 n : Nat) (db sb : Bos) (h1 : ∀ a, Cells b1 n a → R a) (h2 : ∀ a, Cells b2 n a → R a) :
    Acc R W (timingsafe_memcmp b1 b2 n db sb) (fun _ => True) := by
  unfold timingsafe_memcmp
  refine Acc.bind (Acc_tsChecks n db sb) (fun x _ => ?_)
  cases x with
  | some r => exact Acc.pure _ trivial
  | none => exact Acc.bind (Acc_memcmpLoopT n b1 b2 0 0 h1 h2) (fun _ _ => Acc.pure _ trivial)

/-! ## strnterminate_s -/

theorem Acc_ntermLoop (k dest count : Nat) (hr : ∀ a, Cells dest k a → R a) :
    Acc R W (ntermLoop k dest count) (fun r => dest ≤ r.1 ∧ r.1 ≤ dest + k) := by
  induction k generalizing dest count with
  | zero => unfold ntermLoop; exact Acc.pure _ ⟨by omega, by omega⟩
  | succ n ih =>
    have h0 : R dest := hr _ ⟨by omega, by omega⟩
    unfold ntermLoop
    refine Acc.loadBind h0 (fun c => ?_)
    split
    · exact (ih (dest+1) (count+1) (fun a ⟨h1, h2⟩ => hr a ⟨by omega, by omega⟩)).conseq (fun r ⟨h1, h2⟩ => ⟨by omega, by omega⟩)
    · exact Acc.pure _ ⟨by omega, by omega⟩

theorem Acc_strnterminate_s (cfg : Cfg) (dest dmax : Nat) (b : Bos)
    (hr : dest ≠ 0 → ∀ a, Cells dest (dmax-1) a → R a) (hw : dest ≠ 0 → ∀ a, Cells dest dmax a → W a) :
    Acc R W (strnterminate_s cfg dest dmax b) (fun _ => True) := by
  unfold strnterminate_s
  split
  · exact Acc.handlerSBind _ (Acc.pure _ trivial)
  · rename_i h1
    split
    · exact Acc.handlerSBind _ (Acc.pure _ trivial)
    · rename_i h2
      have body : Acc R W (do
          let (d, count) ← ntermLoop (dmax - 1) dest 0
          store d 0
          pure count : Prog Nat) (fun _ => True) := by
        refine Acc.bind (Acc_ntermLoop (dmax-1) dest 0 (hr h1)) (fun r hr' => ?_)
        obtain ⟨r1, r2⟩ := r
        obtain ⟨g1, g2⟩ := hr'
        exact Acc.storeBind (hw h1 _ ⟨g1, by simp only at g2; omega⟩) (Acc.pure _ trivial)
      dsimp only
      repeat (first | exact Acc.handlerSBind _ (Acc.pure _ trivial) | exact body | split)

end SafeC

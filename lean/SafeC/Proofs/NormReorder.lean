import SafeC.Models.Norm
/-!
# C17 — `reorderLoop` computes the Unicode Canonical Ordering (UAX #15, Unicode Standard D108 / D109)

Core Lean only (no Mathlib).  For ALL lists (any length):

* `reorderPure k` — the specification function: `foldr` of one bubble pass (`bubble`), each exchange being the exchange of
  a Reorderable pair (D108).
* `reorderLoop_eq_pure` — the model of the C loop returns `reorderPure k xs` (generalised over a pending `seq`:
  `reorderLoop_gen`).
* `reorderPure_isCanonicalOrdering`, `canonicalOrdering_unique` — `reorderPure k xs` is THE canonical ordering of `xs`
  (reachable by exchanges of reorderable pairs, no reorderable pair left; any other such list is equal to it).
* `reorderPure_starters_fixed`, `reorderPure_filter_class` — starters keep their positions, characters of equal class keep
  their relative order.

`CanonOrdered` is stated as "no decomposition `l1 ++ a :: b :: l2` has `Reorderable a b`" (the `Chain'` formulation is not in
core); `canonOrdered_cons_cons` gives the chain-style unfolding.  `ReflTransGen` is our own reflexive-transitive closure
(same constructors as Mathlib's `Relation.ReflTransGen`).
-/
namespace SafeC.Norm

/-! ## Definitions -/

/-- D108 Reorderable pair: adjacent A, B with ccc(A) > ccc(B) > 0 -/
def Reorderable (k : Nat → Nat) (a b : Nat) : Prop := k a > k b ∧ k b > 0

instance (k : Nat → Nat) (a b : Nat) : Decidable (Reorderable k a b) := by
  unfold Reorderable; infer_instance

/-- one exchange of a reorderable pair (D109) -/
inductive SwapStep (k : Nat → Nat) : List Nat → List Nat → Prop
  | swap (l : List Nat) (a b : Nat) (r : List Nat) :
      Reorderable k a b → SwapStep k (l ++ a :: b :: r) (l ++ b :: a :: r)

/-- reflexive-transitive closure (the constructors of Mathlib's `Relation.ReflTransGen`) -/
inductive ReflTransGen {α : Type} (r : α → α → Prop) (a : α) : α → Prop
  | refl : ReflTransGen r a a
  | tail {b c : α} : ReflTransGen r a b → r b c → ReflTransGen r a c

/-- no reorderable pair is left: no two ADJACENT elements form a Reorderable pair -/
def CanonOrdered (k : Nat → Nat) (l : List Nat) : Prop :=
  ∀ l1 a b l2, l = l1 ++ a :: b :: l2 → ¬ Reorderable k a b

/-- `ys` is a canonical ordering of `xs`: reachable by exchanging reorderable pairs, and none left -/
def IsCanonicalOrdering (k : Nat → Nat) (xs ys : List Nat) : Prop :=
  ReflTransGen (SwapStep k) xs ys ∧ CanonOrdered k ys

/-- one bubble pass: `c` travels right as long as it forms a Reorderable pair with its right neighbour -/
def bubble (k : Nat → Nat) (c : Nat) : List Nat → List Nat
  | [] => [c]
  | y :: ys => if Reorderable k c y then y :: bubble k c ys else c :: y :: ys

/-- the specification: every maximal run of non-starters stably sorted by class, starters in place -/
def reorderPure (k : Nat → Nat) : List Nat → List Nat
  | [] => []
  | c :: rest => bubble k c (reorderPure k rest)

/-! ## The closure -/

theorem ReflTransGen.single {α : Type} {r : α → α → Prop} {a b : α} (h : r a b) : ReflTransGen r a b :=
  .tail .refl h

theorem ReflTransGen.trans {α : Type} {r : α → α → Prop} {a b c : α}
    (h1 : ReflTransGen r a b) (h2 : ReflTransGen r b c) : ReflTransGen r a c := by
  induction h2 with
  | refl => exact h1
  | tail _ s ih => exact .tail ih s

theorem SwapStep.cons {k : Nat → Nat} (x : Nat) {l l' : List Nat} (h : SwapStep k l l') :
    SwapStep k (x :: l) (x :: l') := by
  cases h with
  | swap l a b r hr => exact SwapStep.swap (x :: l) a b r hr

theorem swaps_cons {k : Nat → Nat} (x : Nat) {l l' : List Nat} (h : ReflTransGen (SwapStep k) l l') :
    ReflTransGen (SwapStep k) (x :: l) (x :: l') := by
  induction h with
  | refl => exact .refl
  | tail _ s ih => exact .tail ih (s.cons x)

/-! ## `CanonOrdered` -/

theorem canonOrdered_nil (k : Nat → Nat) : CanonOrdered k [] := by
  intro l1 a b l2 h; cases l1 <;> simp at h

theorem canonOrdered_single (k : Nat → Nat) (a : Nat) : CanonOrdered k [a] := by
  intro l1 a b l2 h
  cases l1 with
  | nil => simp at h
  | cons x l1 => cases l1 <;> simp at h

/-- the chain-style unfolding -/
theorem canonOrdered_cons_cons (k : Nat → Nat) (a b : Nat) (l : List Nat) :
    CanonOrdered k (a :: b :: l) ↔ ¬ Reorderable k a b ∧ CanonOrdered k (b :: l) := by
  constructor
  · intro h
    refine ⟨h [] a b l rfl, ?_⟩
    intro l1 x y l2 e
    exact h (a :: l1) x y l2 (by rw [e]; rfl)
  · rintro ⟨h1, h2⟩ l1 x y l2 e
    cases l1 with
    | nil =>
      simp at e
      obtain ⟨rfl, rfl, _⟩ := e
      exact h1
    | cons z l1 =>
      simp at e
      exact h2 l1 x y l2 e.2

theorem CanonOrdered.tail {k : Nat → Nat} {a : Nat} {l : List Nat} (h : CanonOrdered k (a :: l)) :
    CanonOrdered k l := by
  intro l1 x y l2 e
  exact h (a :: l1) x y l2 (by rw [e]; rfl)

/-! ## `bubble` -/

theorem bubble_not_reorderable {k : Nat → Nat} {c y : Nat} {ys : List Nat} (h : ¬ Reorderable k c y) :
    bubble k c (y :: ys) = c :: y :: ys := by
  simp [bubble, h]

theorem bubble_starter {k : Nat → Nat} {c : Nat} (h : k c = 0) (l : List Nat) : bubble k c l = c :: l := by
  cases l with
  | nil => rfl
  | cons y ys => apply bubble_not_reorderable; unfold Reorderable; omega

theorem bubble_swaps (k : Nat → Nat) (c : Nat) (l : List Nat) :
    ReflTransGen (SwapStep k) (c :: l) (bubble k c l) := by
  induction l with
  | nil => exact .refl
  | cons y ys ih =>
    unfold bubble
    split
    · next h =>
      exact (ReflTransGen.single (SwapStep.swap [] c y ys h)).trans (swaps_cons y ih)
    · exact .refl

theorem bubble_perm (k : Nat → Nat) (c : Nat) (l : List Nat) : (bubble k c l).Perm (c :: l) := by
  induction l with
  | nil => exact .refl _
  | cons y ys ih =>
    unfold bubble
    split
    · exact ((List.Perm.cons y ih).trans (List.Perm.swap c y ys))
    · exact .refl _

theorem bubble_length (k : Nat → Nat) (c : Nat) (l : List Nat) : (bubble k c l).length = l.length + 1 := by
  simpa using (bubble_perm k c l).length_eq

/-- a bubble pass keeps a list free of reorderable pairs; second part (needed for the induction): the new head is `c` or
the old head of `l`, so whatever `z` is not reorderable before both of them is not reorderable before the new head -/
theorem bubble_canon {k : Nat → Nat} (c : Nat) {l : List Nat} (h : CanonOrdered k l) :
    CanonOrdered k (bubble k c l) ∧
      ∀ z, ¬ Reorderable k z c → (∀ y ys, l = y :: ys → ¬ Reorderable k z y) →
        ∀ w ws, bubble k c l = w :: ws → ¬ Reorderable k z w := by
  induction l with
  | nil =>
    refine ⟨canonOrdered_single k c, ?_⟩
    intro z hz _ w ws e
    simp [bubble] at e
    rw [← e.1]; exact hz
  | cons y ys ih =>
    have ih := ih h.tail
    unfold bubble
    split
    · next hr =>
      constructor
      · -- y :: bubble c ys
        cases hb : bubble k c ys with
        | nil => exact canonOrdered_single k y
        | cons w ws =>
          rw [canonOrdered_cons_cons]
          refine ⟨?_, hb ▸ ih.1⟩
          apply ih.2 y _ _ w ws hb
          · unfold Reorderable at *; omega
          · intro y' ys' e
            subst e
            exact ((canonOrdered_cons_cons k y y' ys').1 h).1
      · intro z _ hz w ws e
        simp at e
        rw [← e.1]
        exact hz y ys rfl
    · next hr =>
      constructor
      · rw [canonOrdered_cons_cons]; exact ⟨hr, h⟩
      · intro z hz _ w ws e
        simp at e
        rw [← e.1]; exact hz

theorem bubble_map_starter (k : Nat → Nat) (c : Nat) (l : List Nat) :
    (bubble k c l).map (fun c => if k c = 0 then some c else none)
      = (c :: l).map (fun c => if k c = 0 then some c else none) := by
  induction l with
  | nil => rfl
  | cons y ys ih =>
    unfold bubble
    split
    · next hr =>
      unfold Reorderable at hr
      have h1 : k c ≠ 0 := by omega
      have h2 : k y ≠ 0 := by omega
      simp only [List.map_cons, ih, h1, h2, if_false]
    · rfl

theorem bubble_filter_class (k : Nat → Nat) (n : Nat) (c : Nat) (l : List Nat) :
    (bubble k c l).filter (fun c => k c = n) = (c :: l).filter (fun c => k c = n) := by
  induction l with
  | nil => rfl
  | cons y ys ih =>
    unfold bubble
    split
    · next hr =>
      unfold Reorderable at hr
      simp only [List.filter_cons, ih]
      by_cases h1 : k c = n <;> by_cases h2 : k y = n <;> simp [h1, h2]
      omega
    · rfl

theorem bubble_append_starter {k : Nat → Nat} {s : Nat} (hs : k s = 0) (c : Nat) (l1 l2 : List Nat) :
    bubble k c (l1 ++ s :: l2) = bubble k c l1 ++ s :: l2 := by
  induction l1 with
  | nil =>
    have : ¬ Reorderable k c s := by unfold Reorderable; omega
    simp [bubble, this]
  | cons y ys ih =>
    simp only [List.cons_append, bubble]
    split
    · simp [ih]
    · rfl

/-- two bubble passes of a Reorderable pair commute -/
theorem bubble_comm {k : Nat → Nat} {a b : Nat} (h : Reorderable k a b) (l : List Nat) :
    bubble k a (bubble k b l) = bubble k b (bubble k a l) := by
  have hba : ¬ Reorderable k b a := by unfold Reorderable at *; omega
  induction l with
  | nil => simp [bubble, h, hba]
  | cons y ys ih =>
    by_cases hby : Reorderable k b y
    · have hay : Reorderable k a y := by unfold Reorderable at *; omega
      simp [bubble, hby, hay, ih]
    · by_cases hay : Reorderable k a y
      · simp [bubble, hby, hay, h]
      · simp [bubble, hby, hay, h, hba]

theorem bubble_congr {k k' : Nat → Nat} {c : Nat} {l : List Nat} (hc : k c = k' c) (hl : ∀ x ∈ l, k x = k' x) :
    bubble k c l = bubble k' c l := by
  induction l with
  | nil => rfl
  | cons y ys ih =>
    have hy : k y = k' y := hl y (by simp)
    have : Reorderable k c y ↔ Reorderable k' c y := by unfold Reorderable; rw [hc, hy]
    simp only [bubble, this, ih (fun x hx => hl x (by simp [hx]))]

/-! ## `reorderPure` -/

theorem reorderPure_swaps (k : Nat → Nat) (xs : List Nat) : ReflTransGen (SwapStep k) xs (reorderPure k xs) := by
  induction xs with
  | nil => exact .refl
  | cons c rest ih => exact (swaps_cons c ih).trans (bubble_swaps k c _)

theorem reorderPure_canonOrdered (k : Nat → Nat) (xs : List Nat) : CanonOrdered k (reorderPure k xs) := by
  induction xs with
  | nil => exact canonOrdered_nil k
  | cons c rest ih => exact (bubble_canon c ih).1

theorem reorderPure_isCanonicalOrdering (k : Nat → Nat) (xs : List Nat) :
    IsCanonicalOrdering k xs (reorderPure k xs) :=
  ⟨reorderPure_swaps k xs, reorderPure_canonOrdered k xs⟩

theorem reorderPure_perm (k : Nat → Nat) (xs : List Nat) : (reorderPure k xs).Perm xs := by
  induction xs with
  | nil => exact .refl _
  | cons c rest ih => exact (bubble_perm k c _).trans (ih.cons c)

theorem reorderPure_length (k : Nat → Nat) (xs : List Nat) : (reorderPure k xs).length = xs.length :=
  (reorderPure_perm k xs).length_eq

theorem reorderPure_mem {k : Nat → Nat} {xs : List Nat} {x : Nat} : x ∈ reorderPure k xs ↔ x ∈ xs :=
  (reorderPure_perm k xs).mem_iff

/-- starters (class 0) keep their positions, and every position of a non-starter holds a non-starter -/
theorem reorderPure_starters_fixed (k : Nat → Nat) (xs : List Nat) :
    (reorderPure k xs).map (fun c => if k c = 0 then some c else none)
      = xs.map (fun c => if k c = 0 then some c else none) := by
  induction xs with
  | nil => rfl
  | cons c rest ih => simp only [reorderPure, bubble_map_starter, List.map_cons, ih]

/-- stability: the characters of one class keep their relative order -/
theorem reorderPure_filter_class (k : Nat → Nat) (n : Nat) (xs : List Nat) :
    (reorderPure k xs).filter (fun c => k c = n) = xs.filter (fun c => k c = n) := by
  induction xs with
  | nil => rfl
  | cons c rest ih => simp only [reorderPure, bubble_filter_class, List.filter_cons, ih]

theorem reorderPure_append_starter {k : Nat → Nat} {s : Nat} (hs : k s = 0) (xs ys : List Nat) :
    reorderPure k (xs ++ s :: ys) = reorderPure k xs ++ s :: reorderPure k ys := by
  induction xs with
  | nil => simp [reorderPure, bubble_starter hs]
  | cons c rest ih => simp only [List.cons_append, reorderPure, ih, bubble_append_starter hs]

theorem reorderPure_congr {k k' : Nat → Nat} {xs : List Nat} (h : ∀ x ∈ xs, k x = k' x) :
    reorderPure k xs = reorderPure k' xs := by
  induction xs with
  | nil => rfl
  | cons c rest ih =>
    have ih := ih (fun x hx => h x (by simp [hx]))
    simp only [reorderPure, ih]
    apply bubble_congr (h c (by simp))
    intro x hx
    exact h x (by simp [reorderPure_mem.1 hx])

/-- a list without reorderable pair is a fixed point -/
theorem reorderPure_of_canonOrdered {k : Nat → Nat} {l : List Nat} (h : CanonOrdered k l) : reorderPure k l = l := by
  induction l with
  | nil => rfl
  | cons a l ih =>
    rw [reorderPure, ih h.tail]
    cases l with
    | nil => rfl
    | cons b l => exact bubble_not_reorderable ((canonOrdered_cons_cons k a b l).1 h).1

theorem reorderPure_idem (k : Nat → Nat) (xs : List Nat) : reorderPure k (reorderPure k xs) = reorderPure k xs :=
  reorderPure_of_canonOrdered (reorderPure_canonOrdered k xs)

/-- an exchange of a reorderable pair does not change the result -/
theorem reorderPure_swapStep {k : Nat → Nat} {l l' : List Nat} (h : SwapStep k l l') :
    reorderPure k l = reorderPure k l' := by
  cases h with
  | swap l a b r hr =>
    induction l with
    | nil => simp only [List.nil_append, reorderPure]; exact bubble_comm hr _
    | cons x l ih => simp only [List.cons_append, reorderPure, ih]

theorem reorderPure_swaps_eq {k : Nat → Nat} {l l' : List Nat} (h : ReflTransGen (SwapStep k) l l') :
    reorderPure k l = reorderPure k l' := by
  induction h with
  | refl => rfl
  | tail _ s ih => exact ih.trans (reorderPure_swapStep s)

theorem isCanonicalOrdering_eq_pure {k : Nat → Nat} {xs ys : List Nat} (h : IsCanonicalOrdering k xs ys) :
    ys = reorderPure k xs := by
  rw [reorderPure_swaps_eq h.1, reorderPure_of_canonOrdered h.2]

/-- the canonical ordering is unique -/
theorem canonicalOrdering_unique {k : Nat → Nat} {xs ys zs : List Nat}
    (hy : IsCanonicalOrdering k xs ys) (hz : IsCanonicalOrdering k xs zs) : ys = zs := by
  rw [isCanonicalOrdering_eq_pure hy, isCanonicalOrdering_eq_pure hz]

/-! ## The C loop -/

/-- the records of a pending run, in arrival order, `pos` = arrival index (from `i`) -/
def mkSeq (k : Nat → Nat) (i : Nat) : List Nat → List CC
  | [] => []
  | c :: r => ⟨k c, c, i⟩ :: mkSeq k (i + 1) r

theorem mkSeq_length (k : Nat → Nat) (i : Nat) (r : List Nat) : (mkSeq k i r).length = r.length := by
  induction r generalizing i with
  | nil => rfl
  | cons c r ih => simp [mkSeq, ih]

theorem mkSeq_append_single (k : Nat → Nat) (i : Nat) (r : List Nat) (c : Nat) :
    mkSeq k i (r ++ [c]) = mkSeq k i r ++ [⟨k c, c, i + r.length⟩] := by
  induction r generalizing i with
  | nil => simp [mkSeq]
  | cons x r ih => simp [mkSeq, ih]; omega

theorem mem_mkSeq {k : Nat → Nat} {i : Nat} {r : List Nat} {y : CC} (h : y ∈ mkSeq k i r) :
    y.cc = k y.cp ∧ i ≤ y.pos ∧ y.cp ∈ r := by
  induction r generalizing i with
  | nil => simp [mkSeq] at h
  | cons c r ih =>
    simp only [mkSeq, List.mem_cons] at h
    rcases h with rfl | h
    · simp
    · have := ih h
      refine ⟨this.1, by omega, by simp [this.2.2]⟩

theorem mem_insertCC {x y : CC} {s : List CC} : y ∈ insertCC x s ↔ y = x ∨ y ∈ s := by
  induction s with
  | nil => simp [insertCC]
  | cons z s ih =>
    unfold insertCC
    split
    · simp
    · simp [ih]; grind

theorem mem_sortCC {y : CC} {s : List CC} : y ∈ sortCC s ↔ y ∈ s := by
  induction s with
  | nil => simp [sortCC]
  | cons z s ih => simp [sortCC, mem_insertCC, ih]

/-- inserting a record that arrived before all of `s` is one bubble pass on the code points -/
theorem insertCC_map_cp {k : Nat → Nat} {x : CC} {s : List CC} (hx : x.cc = k x.cp)
    (hs : ∀ y ∈ s, y.cc = k y.cp ∧ y.cc ≠ 0 ∧ x.pos ≤ y.pos) :
    (insertCC x s).map (·.cp) = bubble k x.cp (s.map (·.cp)) := by
  induction s with
  | nil => rfl
  | cons y s ih =>
    have hy := hs y (by simp)
    have ih := ih (fun z hz => hs z (by simp [hz]))
    have : leCC x y = true ↔ ¬ Reorderable k x.cp y.cp := by
      unfold leCC Reorderable
      simp only [Bool.or_eq_true, Bool.and_eq_true, decide_eq_true_eq, beq_iff_eq]
      omega
    unfold insertCC
    by_cases hle : leCC x y = true
    · simp [hle, bubble, this.1 hle]
    · have hr : Reorderable k x.cp y.cp := Classical.not_not.1 (fun h => hle (this.2 h))
      simp [hle, bubble, hr, ih]

theorem sortCC_mkSeq {k : Nat → Nat} (i : Nat) {r : List Nat} (hr : ∀ c ∈ r, k c ≠ 0) :
    (sortCC (mkSeq k i r)).map (·.cp) = reorderPure k r := by
  induction r generalizing i with
  | nil => rfl
  | cons c r ih =>
    have ih := ih (i + 1) (fun x hx => hr x (by simp [hx]))
    simp only [mkSeq, sortCC, reorderPure]
    rw [insertCC_map_cp (k := k) rfl, ih]
    intro y hy
    have := mem_mkSeq (mem_sortCC.1 hy)
    refine ⟨this.1, ?_, by simp; omega⟩
    rw [this.1]; exact hr _ (by simp [this.2.2])

/-- the loop with a pending run `run` (all non-starters; never pending at the end of input: the loop looks ahead) -/
theorem reorderLoop_gen (fx : Fixes) (k : Nat → Nat) (xs : List Nat) :
    ∀ (run : List Nat) (dmax : Nat),
      (∀ c ∈ xs, combinClass c = some (k c)) →
      (fx.rangeChk = true → ∀ c ∈ xs, c ≤ SafeC.Gen.UniCompos.unicodeMax) →
      (∀ c ∈ run, k c ≠ 0) → (xs = [] → run = []) → run.length + xs.length < dmax →
      reorderLoop fx xs (mkSeq k 0 run) dmax
        = .ok (reorderPure k (run ++ xs)) (dmax - (run.length + xs.length)) := by
  induction xs with
  | nil =>
    intro run dmax _ _ _ he _
    simp [he rfl, reorderLoop, reorderPure]
  | cons c rest ih =>
    intro run dmax hk hr hrun _ hd
    have hc := hk c (by simp)
    have hk' : ∀ c ∈ rest, combinClass c = some (k c) := fun x hx => hk x (by simp [hx])
    have hr' : fx.rangeChk = true → ∀ c ∈ rest, c ≤ SafeC.Gen.UniCompos.unicodeMax :=
      fun h x hx => hr h x (by simp [hx])
    have hrng : (fx.rangeChk && decide (SafeC.Gen.UniCompos.unicodeMax < c)) = false := by
      cases h : fx.rangeChk with
      | false => rfl
      | true => have := hr h c (by simp); simp; omega
    simp only [List.length_cons] at hd
    unfold reorderLoop
    simp only [hrng, hc]
    by_cases hz : k c = 0
    · -- a starter: the pending run is flushed
      have h1 : ¬ (run.length + 1 = dmax) := by omega
      have h2 : ¬ (dmax < run.length + 1) := by omega
      have h3 : ¬ (dmax = run.length + 1) := by omega
      have := ih [] (dmax - (run.length + 1)) hk' hr' (by simp) (by simp) (by simp; omega)
      simp only [mkSeq, List.nil_append, List.length_nil, Nat.zero_add] at this
      simp [hz, mkSeq_length, sortCC_mkSeq 0 hrun, reorderPure_length, h2, h3, this,
        reorderPure_append_starter hz]
      rw [if_neg (by omega)]
      congr 1; omega
    · -- a non-starter joins the pending run
      have hseq : mkSeq k 0 run ++ [⟨k c, c, (mkSeq k 0 run).length⟩] = mkSeq k 0 (run ++ [c]) := by
        rw [mkSeq_append_single, mkSeq_length]; simp
      have hrun' : ∀ x ∈ run ++ [c], k x ≠ 0 := by
        intro x hx
        rcases List.mem_append.1 hx with h | h
        · exact hrun x h
        · simp at h; rw [h]; exact hz
      simp only [ne_eq, hz, not_false_eq_true, if_true, if_false, true_and, hseq]
      cases rest with
      | cons d rest' =>
        have := ih (run ++ [c]) dmax hk' hr' hrun' (by simp) (by simp at hd ⊢; omega)
        simp [this]
        congr 1; simp at hd ⊢; omega
      | nil =>
        have h1 : ¬ (dmax = run.length + 1) := by simp at hd; omega
        have h2 : ¬ (dmax < run.length + 1) := by simp at hd; omega
        simp [mkSeq_length, sortCC_mkSeq 0 hrun', reorderPure_length, h1, h2, reorderLoop]

/-- with room to spare and every class lookup in bounds, the loop returns the specification -/
theorem reorderLoop_eq_pure (fx : Fixes) (k : Nat → Nat) (xs : List Nat) (dmax : Nat)
    (hk : ∀ c ∈ xs, combinClass c = some (k c))
    (hr : fx.rangeChk = true → ∀ c ∈ xs, c ≤ SafeC.Gen.UniCompos.unicodeMax)
    (hd : xs.length < dmax) :
    reorderLoop fx xs [] dmax = .ok (reorderPure k xs) (dmax - xs.length) := by
  have := reorderLoop_gen fx k xs [] dmax hk hr (by simp) (by simp) (by simpa using hd)
  simpa [mkSeq] using this

/-- the loop computes the Unicode Canonical Ordering (D109) of its input -/
theorem reorderLoop_canonical (fx : Fixes) (k : Nat → Nat) (xs : List Nat) (dmax : Nat)
    (hk : ∀ c ∈ xs, combinClass c = some (k c))
    (hr : fx.rangeChk = true → ∀ c ∈ xs, c ≤ SafeC.Gen.UniCompos.unicodeMax)
    (hd : xs.length < dmax) :
    ∃ ys, reorderLoop fx xs [] dmax = .ok ys (dmax - xs.length) ∧ IsCanonicalOrdering k xs ys ∧
      ys.Perm xs ∧ ys.length = xs.length :=
  ⟨reorderPure k xs, reorderLoop_eq_pure fx k xs dmax hk hr hd, reorderPure_isCanonicalOrdering k xs,
    reorderPure_perm k xs, reorderPure_length k xs⟩

/-- … and whatever list is a canonical ordering of the input is the loop's output -/
theorem reorderLoop_canonical_unique (fx : Fixes) (k : Nat → Nat) (xs zs : List Nat) (dmax : Nat)
    (hk : ∀ c ∈ xs, combinClass c = some (k c))
    (hr : fx.rangeChk = true → ∀ c ∈ xs, c ≤ SafeC.Gen.UniCompos.unicodeMax)
    (hd : xs.length < dmax) (hz : IsCanonicalOrdering k xs zs) :
    reorderLoop fx xs [] dmax = .ok zs (dmax - xs.length) := by
  rw [isCanonicalOrdering_eq_pure hz]; exact reorderLoop_eq_pure fx k xs dmax hk hr hd

/-! ## Sanity checks of the specification (a toy class function: class = tens digit) -/

example : reorderPure (· / 10) [31, 12, 5, 25, 21, 11, 22, 7, 7, 30, 10] = [12, 31, 5, 11, 25, 21, 22, 7, 7, 10, 30] := by
  decide
example : IsCanonicalOrdering (· / 10) [31, 12, 5, 25, 21] [12, 31, 5, 25, 21] :=
  reorderPure_isCanonicalOrdering (· / 10) [31, 12, 5, 25, 21]
example : ¬ CanonOrdered (· / 10) [31, 12] := fun h => h [] 31 12 [] rfl (by decide)

#print axioms reorderLoop_eq_pure
#print axioms reorderLoop_canonical
#print axioms reorderLoop_canonical_unique
#print axioms reorderPure_append_starter
#print axioms reorderPure_congr
#print axioms reorderPure_isCanonicalOrdering
#print axioms canonicalOrdering_unique
#print axioms reorderPure_idem
#print axioms reorderPure_starters_fixed
#print axioms reorderPure_filter_class

end SafeC.Norm

import SafeC.Proofs.EVMem
/-!
# Leaf lemmas for the "meaning" theorems of `Props/C05Meaning.lean`: the exits of the memory family with the
returned code pinned (`Is k c`: the call returns exactly `c`, and the events are what the discipline asks for `c`)
-/
namespace SafeC.Props.C05Meaning
open SafeC Gen Mem SafeC.Props.C05Ev SafeC.Props.C05Mem

/-- returns exactly `c`; no event when `c = EOK`, else exactly one `k`-handler event carrying `c` -/
def Is (k : Kind) (c : Nat) (r : Nat) (es : List Event) : Prop := r = c ∧ Once k r es

theorem is_failM (c : Nat) (hc : c ≠ EOK) : EV (failM c) (Is .mem c) :=
  (EV.failM c).conseq (fun r es ⟨h1, h2⟩ => ⟨h1, by subst h1; exact Or.inr ⟨hc, h2⟩⟩)

theorem is_failS (c : Nat) (hc : c ≠ EOK) : EV (failS c) (Is .str c) :=
  (EV.failS c).conseq (fun r es ⟨h1, h2⟩ => ⟨h1, by subst h1; exact Or.inr ⟨hc, h2⟩⟩)

theorem is_eok {k : Kind} : EV (pure EOK : Prog Nat) (Is k EOK) := EV.pure _ ⟨rfl, Or.inl ⟨rfl, rfl⟩⟩

theorem is_work_eok {k : Kind} {p : Prog Unit} (hp : Quiet p) : EV (do p; pure EOK : Prog Nat) (Is k EOK) :=
  Quiet.then_ hp (fun _ => is_eok)

theorem is_handleMemErrorB (w d len code : Nat) (hc : code ≠ EOK) :
    EV (do handleMemErrorB w d len code; pure code : Prog Nat) (Is .mem code) := by
  unfold handleMemErrorB
  refine EV.bind (Q := fun _ es => es = [.handler .mem code]) ?_
    (fun _ es he => by subst he; exact EV.pure _ ⟨rfl, Or.inr ⟨hc, by simp⟩⟩)
  exact Quiet.then_ (q_memsetBytes _ _ _ _) (fun _ => EV.handlerM code)

theorem is_clear_report {p : Prog Unit} (hp : Quiet p) (code : Nat) (hc : code ≠ EOK) :
    EV (do p; handlerM code; pure code : Prog Nat) (Is .mem code) :=
  Quiet.then_ hp (fun _ => EV.bind (EV.handlerM code)
    (fun _ es he => by subst he; exact EV.pure _ ⟨rfl, Or.inr ⟨hc, by simp⟩⟩))

theorem is_report_work {p : Prog Unit} (hp : Quiet p) (code : Nat) (hc : code ≠ EOK) :
    EV (do handlerM code; p; pure code : Prog Nat) (Is .mem code) :=
  EV.bind (EV.handlerM code) (fun _ es he => by
    subst he
    exact Quiet.then_ hp (fun _ => EV.pure _ ⟨rfl, Or.inr ⟨hc, by simp⟩⟩))

/-- what a proved `EV p (Is k c)` means for runs -/
theorem Is.sound {k : Kind} {p : Prog Nat} {c : Nat} (h : EV p (Is k c)) (st : St) (r : Nat) (st' : St)
    (he : exec p st = .ok (r, st')) :
    r = c ∧ ((r = EOK ∧ st'.events = st.events) ∨ (r ≠ EOK ∧ st'.events = st.events ++ [.handler k r])) := by
  obtain ⟨es, h1, h2, h3⟩ := h.sound st he
  refine ⟨h2, ?_⟩
  rcases h3 with ⟨hr, hes⟩ | ⟨hr, hes⟩
  · left; subst hes; exact ⟨hr, by simpa using h1⟩
  · right; subst hes; exact ⟨hr, h1⟩

/-- the `↔` reading: events unchanged exactly when the code is EOK -/
theorem Is.sound_iff {k : Kind} {p : Prog Nat} {c : Nat} (h : EV p (Is k c)) (st : St) (r : Nat) (st' : St)
    (he : exec p st = .ok (r, st')) : r = c ∧ (st'.events = st.events ↔ r = EOK) := by
  obtain ⟨h1, h2⟩ := Is.sound h st r st' he
  refine ⟨h1, ?_⟩
  rcases h2 with ⟨hr, hes⟩ | ⟨hr, hes⟩
  · exact ⟨fun _ => hr, fun _ => hes⟩
  · refine ⟨fun h => ?_, fun h => absurd h hr⟩
    rw [hes] at h
    simp at h

end SafeC.Props.C05Meaning

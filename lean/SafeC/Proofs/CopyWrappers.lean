import SafeC.Proofs.Strcpy
/-!
# `strncpy_s` / `strcat_s` / `strncat_s` entry points (and, through `max`, the shape of their wide
twins): every call, every placement, every content
-/
namespace SafeC
open Gen

/-- what the failing exits after the entry checks guarantee on a usable dest -/
def UsablePost (cfg : Cfg) (dest dmax : Nat) (st' : St) (code : Nat) : Prop :=
  (∃ i, i < dmax ∧ st'.data (dest + i) = 0) ∧
  (code ≠ EOK → st'.data dest = 0) ∧
  (code = ESNOSPC ∨ code = ESOVRLP ∨ code = ESUNTERM → cfg.slack = true → ∀ i, i < dmax → st'.data (dest + i) = 0)

theorem ESUNTERM_ne_EOK : ESUNTERM ≠ EOK := by decide

/-! ## helpers -/

/-- the `strnlen_s` loop with everything readable: a pure function of the memory -/
theorem strnlenLoop_ok (smax str count : Nat) (st : St)
    (hall : ∀ a, st.mapped a = true ∧ st.rd a = true) :
    ∃ len, exec (strnlenLoop smax str count none) st = .ok (count + len, st) ∧ len ≤ smax ∧
      (len < smax → st.data (str + len) = 0) := by
  induction smax generalizing str count with
  | zero => exact ⟨0, by simp [strnlenLoop], Nat.le_refl _, fun h => absurd h (Nat.lt_irrefl 0)⟩
  | succ n ih =>
    have hm := hall str
    unfold strnlenLoop
    simp only [exec_bind, exec_load_ok _ _ hm.1 hm.2]
    by_cases hc : st.data str = 0
    · simp only [hc, if_true]
      exact ⟨0, by simp, by omega, fun _ => by simpa using hc⟩
    · simp only [hc, if_false]
      obtain ⟨len, he, hle, hz⟩ := ih (str+1) (count+1)
      refine ⟨len+1, ?_, by omega, ?_⟩
      · have e : count + (len+1) = count + 1 + len := by omega
        rw [e]; exact he
      · intro h
        have := hz (by omega)
        have e : str + 1 + len = str + (len+1) := by omega
        rwa [e] at this

/-- `strnlen_s` on a usable string argument whose bound passes its own `RSIZE_MAX_STR` test -/
theorem strnlen_s_ok (str smax : Nat) (st : St)
    (hall : ∀ a, st.mapped a = true ∧ st.rd a = true)
    (hs : str ≠ 0) (hpos : 0 < smax) (hle : smax ≤ RSIZE_MAX_STR) :
    ∃ len, exec (strnlen_s str smax none) st = .ok (len, st) ∧ len ≤ smax ∧
      (len < smax → st.data (str + len) = 0) := by
  unfold strnlen_s
  have h1 : ¬ smax = 0 := by omega
  have h2 : ¬ smax > RSIZE_MAX_STR := by omega
  simp only [hs, h1, h2, if_false]
  obtain ⟨len, he, h⟩ := strnlenLoop_ok smax str 0 st hall
  exact ⟨len, by simpa using he, h⟩

/-- `handle_error` with a clear length `len ≤ ext` that may be 0 (then `dest[0]` is already 0) -/
theorem handleError_ok' (cfg : Cfg) (dest len ext code : Nat) (st : St) (hw : RW st dest ext)
    (hpos : 0 < ext) (hle : len ≤ ext) (h0 : len = 0 → st.data dest = 0) :
    ∃ st', exec (handleError cfg dest len code) st = .ok ((), st') ∧
      st'.mapped = st.mapped ∧ st'.rd = st.rd ∧ st'.wr = st.wr ∧ st'.strays = st.strays ∧
      st'.events = st.events ++ [.handler .str code] ∧
      st'.data dest = 0 ∧
      (∀ a, ¬ (dest ≤ a ∧ a < dest + ext) → st'.data a = st.data a) := by
  by_cases hl : 0 < len
  · have hw' : RW st dest len := fun i hi => hw i (by omega)
    obtain ⟨st', he, hm, hr, hwr, hst, hev, hd0, hsl, hns⟩ := handleError_ok cfg dest len code st hw' hl
    refine ⟨st', he, hm, hr, hwr, hst, hev, hd0, ?_⟩
    intro a ha
    cases hcs : cfg.slack with
    | true =>
      rw [hsl hcs a]
      have : ¬ (dest ≤ a ∧ a < dest + len) := by omega
      simp [this]
    | false => exact hns hcs a (by intro h; subst h; exact ha ⟨Nat.le_refl _, by omega⟩)
  · have hl0 : len = 0 := by omega
    subst hl0
    have hd := h0 rfl
    have hh := hw 0 hpos
    simp only [Nat.add_zero] at hh
    unfold handleError handlerS
    cases hcs : cfg.slack with
    | true =>
      exact ⟨{ st with events := st.events ++ [.handler .str code] }, by simp [memsetP, exec_bind],
        rfl, rfl, rfl, rfl, rfl, hd, fun _ _ => rfl⟩
    | false =>
      refine ⟨{ st.upd dest 0 with events := st.events ++ [.handler .str code] }, ?_,
        rfl, rfl, rfl, rfl, rfl, ?_, ?_⟩
      · simp [exec_bind, exec_store_ok _ _ _ hh.1 hh.2.1]
      · simp [St.upd]
      · intro a ha
        have : a ≠ dest := by intro h; subst h; exact ha ⟨Nat.le_refl _, by omega⟩
        simp [St.upd, this]

/-- `handle_error` on the whole extent, any non-EOK code -/
theorem herr_full (cfg : Cfg) (dest dmax code : Nat) (st : St) (hrw : RW st dest dmax)
    (hpos : 0 < dmax) (hne : code ≠ EOK) :
    ∃ st', exec (handleError cfg dest dmax code) st = .ok ((), st') ∧
      SafePost cfg dest dmax st st' code ∧ UsablePost cfg dest dmax st' code := by
  obtain ⟨st', he, hm, hr, hw, hst, hev, h0, hsl, hns⟩ := handleError_ok cfg dest dmax code st hrw hpos
  refine ⟨st', he, ?_, ?_⟩
  · refine ⟨hm, hr, hw, hst, ?_, fun h => absurd h hne, fun _ => hev⟩
    intro a ha
    cases hcs : cfg.slack with
    | true => rw [hsl hcs a]; simp [ha]
    | false => exact hns hcs a (by intro h; subst h; exact ha ⟨Nat.le_refl _, by omega⟩)
  · refine ⟨⟨0, hpos, by simpa using h0⟩, fun _ => h0, ?_⟩
    intro _ hcs i hi
    rw [hsl hcs (dest+i)]
    have : dest ≤ dest + i ∧ dest + i < dest + dmax := by omega
    simp [this]

/-- the `CHK_SLEN_MAX_CLEAR` failing exit -/
theorem slenMax_post (cfg : Cfg) (dest dmax : Nat) (st : St)
    (hall : ∀ a, st.mapped a = true ∧ st.rd a = true) (hrw : RW st dest dmax)
    (hd : dest ≠ 0) (hpos : 0 < dmax) (hle : dmax ≤ RSIZE_MAX_STR) :
    ∃ st', exec (do let len ← strnlen_s dest dmax none
                    handleError cfg dest len ESLEMAX
                    pure ESLEMAX : Prog Nat) st = .ok (ESLEMAX, st') ∧
      SafePost cfg dest dmax st st' ESLEMAX ∧ UsablePost cfg dest dmax st' ESLEMAX := by
  obtain ⟨len, he, hlen, hz⟩ := strnlen_s_ok dest dmax st hall hd hpos hle
  obtain ⟨st', he2, hm, hr, hw, hst, hev, h0, hfr⟩ :=
    handleError_ok' cfg dest len dmax ESLEMAX st hrw hpos hlen
      (by intro h; subst h; simpa using hz hpos)
  refine ⟨st', by simp [exec_bind, he, he2], ?_, ?_⟩
  · exact ⟨hm, hr, hw, hst, hfr, fun h => absurd h ESLEMAX_ne_EOK, fun _ => hev⟩
  · refine ⟨⟨0, hpos, by simpa using h0⟩, fun _ => h0, ?_⟩
    intro h
    rcases h with h | h | h <;> exact absurd h (by decide)

/-- the copy loop's outcome, repackaged -/
theorem copyPost_usable {cfg : Cfg} {dest dmax : Nat} {st st' : St} {code : Nat} (hpos : 0 < dmax)
    (hp : CopyPost cfg dest dmax st st' code) :
    SafePost cfg dest dmax st st' code ∧ UsablePost cfg dest dmax st' code := by
  refine ⟨⟨hp.mapped, hp.rd, hp.wr, hp.strays, hp.frame, hp.ok_events, hp.fail_events⟩, ?_, hp.fail_first, ?_⟩
  · by_cases hc : code = EOK
    · exact hp.ok_term hc
    · exact ⟨0, hpos, by simpa using hp.fail_first hc⟩
  · intro h
    apply hp.fail_clear
    rcases h with h | h | h <;> subst h <;> decide

/-- `while (*dest != '\0')` of the concatenations -/
theorem findEnd_ok (cfg : Cfg) (chk : Bool) (B oD oM : Nat) (hoM : 0 < oM)
    (k d : Nat) (st : St)
    (hall : ∀ a, st.mapped a = true ∧ st.rd a = true)
    (hrw : RW st oD oM) (hk : 0 < k) (hinv : oD ≤ d ∧ d + k = oD + oM) :
    (∃ code st', exec (findEnd cfg chk B oD oM k d) st = .ok (.inl code, st') ∧
        SafePost cfg oD oM st st' code ∧ UsablePost cfg oD oM st' code) ∨
    (∃ d' k', exec (findEnd cfg chk B oD oM k d) st = .ok (.inr (d', k'), st) ∧
        oD ≤ d' ∧ d' + k' = oD + oM) := by
  induction k generalizing d with
  | zero => exact absurd hk (Nat.lt_irrefl 0)
  | succ k ih =>
    have hm := hall d
    unfold findEnd
    simp only [exec_bind, exec_load_ok _ _ hm.1 hm.2]
    by_cases hc : st.data d = 0
    · simp only [hc, if_true]
      exact Or.inr ⟨d, k+1, rfl, hinv.1, hinv.2⟩
    · simp only [hc, if_false]
      by_cases hb : chk = true ∧ d = B
      · rw [if_pos hb]
        obtain ⟨st', he, hsp, hup⟩ := herr_full cfg oD oM ESOVRLP st hrw hoM ESOVRLP_ne_EOK
        exact Or.inl ⟨ESOVRLP, st', by simp [exec_bind, he], hsp, hup⟩
      · rw [if_neg hb]
        by_cases hk0 : k = 0
        · rw [if_pos hk0]
          obtain ⟨st', he, hsp, hup⟩ := herr_full cfg oD oM ESUNTERM st hrw hoM ESUNTERM_ne_EOK
          exact Or.inl ⟨ESUNTERM, st', by simp [exec_bind, he], hsp, hup⟩
        · rw [if_neg hk0]
          exact ih (d+1) (by omega) (by omega)

/-- `findEnd` followed by the copy loop: the common body of the concatenations -/
theorem cat_core (cfg : Cfg) (chk onDest bounded : Bool) (B dest dmax src slen : Nat) (st : St)
    (hall : ∀ a, st.mapped a = true ∧ st.rd a = true)
    (hrw : RW st dest dmax) (hpos : 0 < dmax)
    (f : Nat ⊕ (Nat × Nat) → Prog Nat) (hf1 : ∀ c, f (.inl c) = pure c)
    (hf2 : ∀ d m, f (.inr (d, m)) = copyLoop cfg onDest bounded B dest dmax m d src slen) :
    ∃ code st', exec (findEnd cfg chk B dest dmax dmax dest >>= f) st = .ok (code, st') ∧
      SafePost cfg dest dmax st st' code ∧ UsablePost cfg dest dmax st' code := by
  rcases findEnd_ok cfg chk B dest dmax hpos dmax dest st hall hrw hpos ⟨Nat.le_refl _, rfl⟩ with
    ⟨code, st', he, hsp, hup⟩ | ⟨d', k', he, h1, h2⟩
  · refine ⟨code, st', ?_, hsp, hup⟩
    rw [exec_bind, he]
    show exec (f (.inl code)) st' = _
    rw [hf1]; rfl
  · obtain ⟨code, st', he2, hp⟩ :=
      copyLoop_safe cfg onDest bounded B dest dmax hpos k' d' src slen st hall hrw ⟨h1, h2⟩
    refine ⟨code, st', ?_, copyPost_usable hpos hp⟩
    rw [exec_bind, he]
    show exec (f (.inr (d', k'))) st = _
    rw [hf2]; exact he2

/-- weaken the unconditional `UsablePost` to the conditional one of the entry-point theorems -/
theorem usable_lift {cfg : Cfg} {max dest dmax : Nat} {st : St} {p : Prog Nat}
    (h : ∃ code st', exec p st = .ok (code, st') ∧ SafePost cfg dest dmax st st' code ∧
      UsablePost cfg dest dmax st' code) :
    ∃ code st', exec p st = .ok (code, st') ∧ SafePost cfg dest dmax st st' code ∧
      (dest ≠ 0 → 0 < dmax → dmax ≤ max → UsablePost cfg dest dmax st' code) := by
  obtain ⟨code, st', he, hsp, hup⟩ := h
  exact ⟨code, st', he, hsp, fun _ _ _ => hup⟩

/-! ## the three entry points -/

/-- **strncpy_s, object sizes unknown to the library.**
`hmax` is needed: `CHK_SLEN_MAX_CLEAR` calls `strnlen_s(dest, dmax)`, whose own limit is
`RSIZE_MAX_STR`; with `RSIZE_MAX_STR < dmax ≤ max < slen` two handler events are recorded. -/
theorem strncpyG_safe (max : Nat) (cfg : Cfg) (dest dmax src slen : Nat) (st : St)
    (hall : ∀ a, st.mapped a = true ∧ st.rd a = true)
    (hrw : dest ≠ 0 → RW st dest dmax) (hmax : max ≤ RSIZE_MAX_STR) :
    ∃ code st', exec (strncpyG max cfg dest dmax src slen none none) st = .ok (code, st') ∧
      SafePost cfg dest dmax st st' code ∧
      (dest ≠ 0 → 0 < dmax → dmax ≤ max → UsablePost cfg dest dmax st' code) := by
  unfold strncpyG
  by_cases h0 : slen = 0 ∧ dest ≠ 0 ∧ dmax ≠ 0
  · rw [if_pos h0]
    obtain ⟨_, hd, hz⟩ := h0
    have hpos : 0 < dmax := Nat.pos_of_ne_zero hz
    have hh := hrw hd 0 hpos
    simp only [Nat.add_zero] at hh
    refine ⟨EOK, st.upd dest 0, by simp [exec_bind, exec_store_ok _ _ _ hh.1 hh.2.1], ?_, ?_⟩
    · refine ⟨rfl, rfl, rfl, rfl, ?_, fun _ => rfl, fun h => absurd rfl h⟩
      intro a ha; exact St.upd_data_ne _ _ _ _ (by omega)
    · intro _ _ _
      refine ⟨⟨0, hpos, by simp⟩, fun h => absurd rfl h, fun h => ?_⟩
      rcases h with h | h | h <;> exact absurd h (by decide)
  rw [if_neg h0]
  by_cases hd : dest = 0
  · simp only [hd, if_true]
    obtain ⟨st', he, hp, _⟩ := failS_post cfg 0 dmax ESNULLP st ESNULLP_ne_EOK
    exact ⟨_, st', he, hp, fun h => absurd rfl h⟩
  simp only [hd, if_false]
  by_cases hz : dmax = 0
  · simp only [hz, if_true]
    obtain ⟨st', he, hp, _⟩ := failS_post cfg dest 0 ESZEROL st ESZEROL_ne_EOK
    exact ⟨_, st', he, hp, fun _ h => absurd h (Nat.lt_irrefl 0)⟩
  simp only [hz, if_false, chkDmaxClear, chkDmaxClearG]
  by_cases hmx : dmax > max
  · simp only [hmx, if_true]
    refine ⟨ESLEMAX, { st with events := st.events ++ [.handler .str ESLEMAX] }, by simp [handlerS, exec_bind], ?_, ?_⟩
    · exact ⟨rfl, rfl, rfl, rfl, fun _ _ => rfl, fun h => absurd h ESLEMAX_ne_EOK, fun _ => rfl⟩
    · intro _ _ hle; omega
  simp only [hmx, if_false]
  have hrw' := hrw hd
  have hpos : 0 < dmax := Nat.pos_of_ne_zero hz
  by_cases hs : src = 0
  · simp only [hs, if_true]
    obtain ⟨st', he, hsp, hup⟩ := herr_full cfg dest dmax ESNULLP st hrw' hpos ESNULLP_ne_EOK
    exact ⟨ESNULLP, st', by simp [exec_bind, he], hsp, fun _ _ _ => hup⟩
  simp only [hs, if_false, chkSlenMaxClear]
  by_cases hsl : slen > max
  · rw [if_pos hsl]
    obtain ⟨st', he, hsp, hup⟩ := slenMax_post cfg dest dmax st hall hrw' hd hpos (by omega)
    exact ⟨ESLEMAX, st', he, hsp, fun _ _ _ => hup⟩
  rw [if_neg hsl]
  have key : ∀ (onDest : Bool) (B : Nat),
      ∃ code st', exec (copyLoop cfg onDest true B dest dmax dmax dest src slen) st = .ok (code, st') ∧
        SafePost cfg dest dmax st st' code ∧
        (dest ≠ 0 → 0 < dmax → dmax ≤ max → UsablePost cfg dest dmax st' code) := by
    intro onDest B
    obtain ⟨code, st', he, hp⟩ :=
      copyLoop_safe cfg onDest true B dest dmax hpos dmax dest src slen st hall hrw' ⟨Nat.le_refl _, rfl⟩
    have := copyPost_usable hpos hp
    exact ⟨code, st', he, this.1, fun _ _ _ => this.2⟩
  by_cases hlt : dest < src
  · simp only [hlt, if_true]; exact key true src
  · simp only [hlt, if_false]; exact key false dest

/-- **strcat_s, object size unknown to the library** (exactly as stated; no `strnlen_s` call on
this path, so no bound on `max` is needed). -/
theorem strcatG_safe (max : Nat) (cfg : Cfg) (dest dmax src : Nat) (st : St)
    (hall : ∀ a, st.mapped a = true ∧ st.rd a = true)
    (hrw : dest ≠ 0 → RW st dest dmax) :
    ∃ code st', exec (strcatG max cfg dest dmax src none) st = .ok (code, st') ∧
      SafePost cfg dest dmax st st' code ∧
      (dest ≠ 0 → 0 < dmax → dmax ≤ max → UsablePost cfg dest dmax st' code) := by
  unfold strcatG
  by_cases hd : dest = 0
  · simp only [hd, if_true]
    obtain ⟨st', he, hp, _⟩ := failS_post cfg 0 dmax ESNULLP st ESNULLP_ne_EOK
    exact ⟨_, st', he, hp, fun h => absurd rfl h⟩
  simp only [hd, if_false]
  by_cases hz : dmax = 0
  · simp only [hz, if_true]
    obtain ⟨st', he, hp, _⟩ := failS_post cfg dest 0 ESZEROL st ESZEROL_ne_EOK
    exact ⟨_, st', he, hp, fun _ h => absurd h (Nat.lt_irrefl 0)⟩
  simp only [hz, if_false, chkDmaxClear, chkDmaxClearG]
  by_cases hmx : dmax > max
  · simp only [hmx, if_true]
    refine ⟨ESLEMAX, { st with events := st.events ++ [.handler .str ESLEMAX] }, by simp [handlerS, exec_bind], ?_, ?_⟩
    · exact ⟨rfl, rfl, rfl, rfl, fun _ _ => rfl, fun h => absurd h ESLEMAX_ne_EOK, fun _ => rfl⟩
    · intro _ _ hle; omega
  simp only [hmx, if_false]
  have hrw' := hrw hd
  have hpos : 0 < dmax := Nat.pos_of_ne_zero hz
  by_cases hs : src = 0
  · simp only [hs, if_true]
    obtain ⟨st', he, hsp, hup⟩ := herr_full cfg dest dmax ESNULLP st hrw' hpos ESNULLP_ne_EOK
    exact ⟨ESNULLP, st', by simp [exec_bind, he], hsp, fun _ _ _ => hup⟩
  simp only [hs, if_false]
  by_cases hlt : dest < src
  · rw [if_pos hlt]
    apply usable_lift
    refine cat_core cfg true true false src dest dmax src 0 st hall hrw' hpos _ ?_ ?_
    · intro c; rfl
    · intro d m; rfl
  · rw [if_neg hlt]
    apply usable_lift
    refine cat_core cfg false false false dest dest dmax src 0 st hall hrw' hpos _ ?_ ?_
    · intro c; rfl
    · intro d m; rfl

/-- **strncat_s, object sizes unknown to the library.**
`slen ≠ 0`: with `slen = 0` the code calls `handleError … EOK`, i.e. invokes the handler while
returning EOK, which `SafePost.ok_events` forbids (a recorded finding).
`hmax`: as for `strncpyG_safe`. -/
theorem strncatG_safe (max : Nat) (cfg : Cfg) (dest dmax src slen : Nat) (st : St)
    (hall : ∀ a, st.mapped a = true ∧ st.rd a = true)
    (hrw : dest ≠ 0 → RW st dest dmax) (hslen : slen ≠ 0) (hmax : max ≤ RSIZE_MAX_STR) :
    ∃ code st', exec (strncatG max cfg dest dmax src slen none none) st = .ok (code, st') ∧
      SafePost cfg dest dmax st st' code ∧
      (dest ≠ 0 → 0 < dmax → dmax ≤ max → UsablePost cfg dest dmax st' code) := by
  unfold strncatG
  have h0 : ¬ (slen = 0 ∧ dest = 0 ∧ dmax = 0) := fun h => hslen h.1
  rw [if_neg h0]
  by_cases hd : dest = 0
  · simp only [hd, if_true]
    obtain ⟨st', he, hp, _⟩ := failS_post cfg 0 dmax ESNULLP st ESNULLP_ne_EOK
    exact ⟨_, st', he, hp, fun h => absurd rfl h⟩
  simp only [hd, if_false]
  by_cases hz : dmax = 0
  · simp only [hz, if_true]
    obtain ⟨st', he, hp, _⟩ := failS_post cfg dest 0 ESZEROL st ESZEROL_ne_EOK
    exact ⟨_, st', he, hp, fun _ h => absurd h (Nat.lt_irrefl 0)⟩
  simp only [hz, if_false, chkDmaxClear, chkDmaxClearG]
  by_cases hmx : dmax > max
  · simp only [hmx, if_true]
    refine ⟨ESLEMAX, { st with events := st.events ++ [.handler .str ESLEMAX] }, by simp [handlerS, exec_bind], ?_, ?_⟩
    · exact ⟨rfl, rfl, rfl, rfl, fun _ _ => rfl, fun h => absurd h ESLEMAX_ne_EOK, fun _ => rfl⟩
    · intro _ _ hle; omega
  simp only [hmx, if_false]
  have hrw' := hrw hd
  have hpos : 0 < dmax := Nat.pos_of_ne_zero hz
  by_cases hs : src = 0
  · simp only [hs, if_true]
    obtain ⟨st', he, hsp, hup⟩ := herr_full cfg dest dmax ESNULLP st hrw' hpos ESNULLP_ne_EOK
    exact ⟨ESNULLP, st', by simp [exec_bind, he], hsp, fun _ _ _ => hup⟩
  simp only [hs, if_false, chkSlenMaxClear]
  by_cases hsl : slen > max
  · rw [if_pos hsl]
    obtain ⟨st', he, hsp, hup⟩ := slenMax_post cfg dest dmax st hall hrw' hd hpos (by omega)
    exact ⟨ESLEMAX, st', he, hsp, fun _ _ _ => hup⟩
  rw [if_neg hsl, if_neg hslen]
  by_cases hlt : dest < src
  · simp only [hlt, if_true]
    apply usable_lift
    refine cat_core cfg true true true src dest dmax src slen st hall hrw' hpos _ ?_ ?_
    · intro c; rfl
    · intro d m; rfl
  · simp only [hlt, if_false]
    apply usable_lift
    refine cat_core cfg false false true dest dest dmax src slen st hall hrw' hpos _ ?_ ?_
    · intro c; rfl
    · intro d m; rfl

/-! ## why `hmax` is needed: the statements without it are false -/

/-- With `RSIZE_MAX_STR < dmax ≤ max < slen` (possible only when `max > RSIZE_MAX_STR`) the
`CHK_SLEN_MAX_CLEAR` exit of `strncpyG` records the handler **twice**: once inside
`strnlen_s(dest, dmax)` (its own `smax > RSIZE_MAX_STR` branch, which returns 0) and once in
`handle_error`.  This contradicts `SafePost.fail_events`, so `strncpyG_safe` (and, by the same
path, `strncatG_safe`) cannot hold for unrestricted `max`. -/
theorem strncpyG_two_handlers (max : Nat) (cfg : Cfg) (dest dmax src slen : Nat) (st : St)
    (hd : dest ≠ 0) (hs : src ≠ 0) (h1 : RSIZE_MAX_STR < dmax) (h2 : dmax ≤ max) (h3 : max < slen)
    (hw : st.mapped dest = true ∧ st.wr dest = true) :
    ∃ st', exec (strncpyG max cfg dest dmax src slen none none) st = .ok (ESLEMAX, st') ∧
      st'.events = st.events ++ [.handler .str ESLEMAX, .handler .str ESLEMAX] := by
  have hz : dmax ≠ 0 := by omega
  have hsl : slen ≠ 0 := by omega
  have hmx : ¬ dmax > max := by omega
  have hgt : slen > max := h3
  have hgt2 : dmax > RSIZE_MAX_STR := h1
  unfold strncpyG
  simp only [hsl, hd, hz, hs, hmx, hgt, hgt2, false_and, if_false, if_true, chkDmaxClear, chkDmaxClearG,
    chkSlenMaxClear, strnlen_s, handleError, handlerS]
  cases hcs : cfg.slack with
  | true =>
    exact ⟨_, by simp [exec_bind, memsetP]; rfl, by simp⟩
  | false =>
    refine ⟨{ st.upd dest 0 with events := (st.events ++ [.handler .str ESLEMAX]) ++ [.handler .str ESLEMAX] }, ?_, by simp⟩
    simp [exec_bind, hw.1, hw.2, St.upd]

end SafeC

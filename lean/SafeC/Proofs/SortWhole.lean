import SafeC.Proofs.SortShape
/-!
# qsort_s model: the whole call returns and stays inside the array (every comparator)

`smooth_safe` (Proofs/SortShape.lean) instantiated with the table built by `mkLp` and with what `pntz` really computes.
With both repairs (`Fixes.ctz64`, `Fixes.pntzGap`) `pntz` is the distance to the next set bit of the two-word vector for
every distance (`pntz_spec64`): `qsortMusl_safe`, no bound on the element count.  Without the `pntz` repair the repaired
`ntz` is right as long as that distance is not exactly 64 (`pntz` returns 0 for `p = {1, odd}`: its `r != 64` test cannot
tell "bit 64 set" from "nothing set"), the `int` builtin as long as it is at most 32.  A distance of `d` between two
consecutive tree orders first occurs with `leo (d + 1) + 1` elements, hence the bounds `leo 65` resp. `leo 34` on the element
count in `qsortMusl_safe_partial`.
-/
namespace SafeC.Sort

theorem leo_65 : leo 65 = 55555780070575 := by
  have h : (leoPair 65).1 = 55555780070575 := by decide +kernel
  rw [leoPair_eq] at h; exact h

/-- largest element count for which every `pntz` call of the sort is right when `pntz` itself is not repaired -/
def safeBound (fx : Fixes) : Nat := if fx.ctz64 then 55555780070575 else 18454929

/-- the largest distance between consecutive orders `pntz` handles -/
def gapBound (fx : Fixes) : Nat := if fx.ctz64 then 63 else 32

theorem safeBound_eq (fx : Fixes) : safeBound fx = leo (gapBound fx + 2) := by
  unfold safeBound gapBound
  cases fx.ctz64
  · simp [leo_34]
  · simp [leo_65]

/-- the standing facts of the safety proof hold for the table `mkLp` builds -/
theorem ctx_of (fx : Fixes) (c : Cmp α) (lp : Array Nat) (n K : Nat) (hlp : LpOk lp K) (hK2 : 2 ≤ K) (hK95 : K ≤ 95)
    (hnK : n ≤ leo K) (hb : n ≤ safeBound fx) : Ctx (⟨c.cmp, c.ctx, lp, fx, c.trace⟩ : Env α) n K (gapBound fx) := by
  refine ⟨hlp, fun o ho => leo_le_imp_le hK2 hnK ho, hK95, by unfold gapBound; split <;> omega, ?_, ?_⟩
  · intro o ho
    rw [safeBound_eq] at hb
    refine Nat.le_of_not_lt (fun hlt => ?_)
    have := leo_mono (show gapBound fx + 2 ≤ o by omega)
    omega
  · intro p t h0 ht htG hbt hmin
    show pntz fx p = t
    unfold gapBound at htG
    cases hfx : fx.ctz64 with
    | true =>
      simp only [hfx, if_true] at htG
      exact pntz_spec64_partial fx hfx p t h0 ht (by omega) hbt hmin
    | false =>
      simp only [hfx] at htG
      exact pntz_spec32 fx hfx p t h0 ht (by simpa using htG) hbt hmin

/-- both repairs: `pntz` is right for every distance, and every order is at most 95 (the table), so `G = 127` does -/
theorem ctx_of_fixed (fx : Fixes) (hfx : fx.ctz64 = true) (hgap : fx.pntzGap = true) (c : Cmp α) (lp : Array Nat) (n K : Nat)
    (hlp : LpOk lp K) (hK2 : 2 ≤ K) (hK95 : K ≤ 95) (hnK : n ≤ leo K) :
    Ctx (⟨c.cmp, c.ctx, lp, fx, c.trace⟩ : Env α) n K 127 := by
  refine ⟨hlp, fun o ho => leo_le_imp_le hK2 hnK ho, hK95, by omega, ?_, ?_⟩
  · intro o ho
    have := leo_le_imp_le hK2 hnK (show leo o ≤ n by omega)
    omega
  · intro p t h0 ht _ hbt hmin
    exact pntz_spec64 fx hfx hgap p t h0 ht hbt hmin

/-- `qsort_musl(base, nel, width, …)` on an array of exactly `nel` elements, given the standing facts for whatever table
    `mkLp` builds: returns, size kept — every comparator -/
theorem qsortMusl_safe_gen (fx : Fixes) (c : Cmp α) (s : St α) (nel width : Nat) (hn : nel = s.a.size)
    (h63 : nel * width ≤ 2 ^ 63) (h3 : 3 * width < 2 ^ 64)
    (hC : ∀ lp K, LpOk lp K → 2 ≤ K → K ≤ 95 → nel ≤ leo K → ∃ G, Ctx (⟨c.cmp, c.ctx, lp, fx, c.trace⟩ : Env α) nel K G) :
    Tot (qsortMusl fx c s nel width) (fun r => r.a.size = s.a.size) := by
  by_cases h0 : width = 0 ∨ nel = 0
  · unfold qsortMusl
    have : (width * nel) % 2 ^ 64 = 0 := by rcases h0 with h | h <;> simp [h]
    simp only [this, if_true]
    exact Tot.ok rfl
  · have hw : 0 < width := by omega
    have hnel : 0 < nel := by omega
    rw [qsortMusl_eq fx c s nel width hw hnel (by omega)]
    obtain ⟨lp, K, hmk, _, hlp, hK2, hK95, hnK, _⟩ := mkLp_spec width nel hw hnel h63 h3
    refine Tot.bind (fun r => r = lp) ⟨lp, hmk, rfl⟩ (fun lp' hlp' => ?_)
    subst hlp'
    obtain ⟨G, hCtx⟩ := hC lp' K hlp hK2 hK95 hnK
    have := smooth_safe _ hCtx s hn.symm hnel
    exact this.imp (fun r hr => ⟨hr.1, by show r.a.size = s.a.size; rw [← hn]; exact hr.2⟩)

/-- code without the `pntz` repair (either `ntz`): up to `safeBound fx` elements -/
theorem qsortMusl_safe_partial (fx : Fixes) (c : Cmp α) (s : St α) (nel width : Nat) (hn : nel = s.a.size)
    (h63 : nel * width ≤ 2 ^ 63) (h3 : 3 * width < 2 ^ 64) (hb : nel ≤ safeBound fx) :
    Tot (qsortMusl fx c s nel width) (fun r => r.a.size = s.a.size) :=
  qsortMusl_safe_gen fx c s nel width hn h63 h3 (fun lp K hlp hK2 hK95 hnK => ⟨_, ctx_of fx c lp nel K hlp hK2 hK95 hnK hb⟩)

/-- both repairs: EVERY element count -/
theorem qsortMusl_safe (fx : Fixes) (hfx : fx.ctz64 = true) (hgap : fx.pntzGap = true) (c : Cmp α) (s : St α) (nel width : Nat)
    (hn : nel = s.a.size) (h63 : nel * width ≤ 2 ^ 63) (h3 : 3 * width < 2 ^ 64) :
    Tot (qsortMusl fx c s nel width) (fun r => r.a.size = s.a.size) :=
  qsortMusl_safe_gen fx c s nel width hn h63 h3
    (fun lp K hlp hK2 hK95 hnK => ⟨_, ctx_of_fixed fx hfx hgap c lp nel K hlp hK2 hK95 hnK⟩)

end SafeC.Sort

import SafeC.Proofs.PrintfEmit
import SafeC.Proofs.PrintfDigits
/-!
# C11: `safec_ntoa_format` + `safec_out_rev` against the standard's layout, for the conversions without `#`
-/
namespace SafeC.Printf
open SafeC.Printf.Spec

/-- the sign character(s) `safec_ntoa_format` appends last -/
def signChars (negative : Bool) (fl : Flags) : Str :=
  if negative then ['-'] else if fl.plus then ['+'] else if fl.space then [' '] else []

/-- zeros written for the precision -/
def zPrec (fx : Fixes) (E : Str) (prec : Nat) (fl : Flags) : Nat := if !fl.left || fx.minusPrec then prec - E.length else 0
/-- the width after `if (width && ZEROPAD && (negative || PLUS || SPACE)) width--` -/
def width1Of (negative : Bool) (width : Nat) (fl : Flags) : Nat :=
  if !fl.left && width != 0 && fl.zeropad && (negative || fl.plus || fl.space) then width - 1 else width
/-- zeros written for the `0` flag -/
def zWidth (fx : Fixes) (E : Str) (negative : Bool) (prec width : Nat) (fl : Flags) : Nat :=
  if !fl.left && fl.zeropad then width1Of negative width fl - (E.length + zPrec fx E prec fl) else 0

theorem padZeros_small (n : Nat) (buf : Str) (h : n ≤ NTOA) : padZeros n buf = buf ++ List.replicate (n - buf.length) '0' := by
  unfold padZeros; rw [Nat.min_eq_left h]

theorem sign_step (buf : Str) (neg plus space : Bool) (h : buf.length < NTOA ∨ (neg = false ∧ plus = false ∧ space = false)) :
    (if buf.length < NTOA then (if neg = true then buf ++ ['-'] else if plus = true then buf ++ ['+'] else if space = true then buf ++ [' '] else buf) else buf)
      = buf ++ (if neg = true then ['-'] else if plus = true then ['+'] else if space = true then [' '] else []) := by
  rcases h with h | ⟨h1, h2, h3⟩
  · simp only [h, if_true]
    cases neg <;> cases plus <;> cases space <;> simp
  · subst h1 h2 h3; simp

/-- without `#`, and as long as number + sign stay within the 32-byte buffer, `safec_ntoa_format` builds
    digits ++ precision zeros ++ width zeros ++ sign (in buffer order, i.e. reversed) -/
theorem ntoaPrep_nohash (fx : Fixes) (E : Str) (negative : Bool) (base prec width : Nat) (fl : Flags)
    (hh : fl.hash = false) (hE : E.length ≤ 31) (hp : prec ≤ 31) (hw : fl.left = false → fl.zeropad = true → width ≤ 31) :
    ntoaPrep fx E negative base prec width fl =
      (E ++ List.replicate (zPrec fx E prec fl + zWidth fx E negative prec width fl) '0' ++ signChars negative fl,
       width1Of negative width fl, fl) := by
  obtain ⟨zp, left, plus, space, hash, upper, ch, sh, lg, ll, precision, ae, ld⟩ := fl
  simp only at hh hw; subst hh
  have hN : NTOA = 32 := rfl
  unfold ntoaPrep signChars zWidth zPrec width1Of
  simp only [ite_self, Bool.false_eq_true, if_false]
  cases left <;> cases zp
  all_goals simp only [Bool.not_false, Bool.not_true, Bool.true_or, Bool.false_or, Bool.true_and, Bool.false_and, Bool.and_false, Bool.and_true,
    if_true, if_false, Bool.false_eq_true, Nat.add_zero]
  · -- right-justified, no zero padding
    rw [padZeros_small _ _ (by omega)]
    rw [sign_step _ _ _ _ (Or.inl (by simp only [List.length_append, List.length_replicate]; omega))]
  · -- right-justified, zero padding
    have hwd := hw rfl rfl
    have hw1 : (if (width != 0 && (negative || plus || space)) = true then width - 1 else width) ≤ 31 := by split <;> omega
    have hw2 : (negative || plus || space) = true →
        (if (width != 0 && (negative || plus || space)) = true then width - 1 else width) ≤ 30 ∨ width = 0 := by
      intro hs; by_cases hw0 : width = 0
      · exact Or.inr hw0
      · left; simp [hw0, hs]; omega
    generalize (if (width != 0 && (negative || plus || space)) = true then width - 1 else width) = w1 at hw1 hw2 ⊢
    rw [padZeros_small prec _ (by omega), padZeros_small w1 _ (by omega)]
    rw [List.append_assoc, List.replicate_append_replicate]
    by_cases hs : (negative || plus || space) = true
    · rw [sign_step _ _ _ _ (Or.inl (by
        simp only [List.length_append, List.length_replicate]
        rcases hw2 hs with h | h
        · omega
        · omega))]
      simp only [List.length_append, List.length_replicate]
    · have h3 : negative = false ∧ plus = false ∧ space = false := by
        cases negative <;> cases plus <;> cases space <;> simp_all
      rw [sign_step _ _ _ _ (Or.inr h3)]
      simp only [List.length_append, List.length_replicate]
  · -- left-justified
    cases hm : fx.minusPrec
    · simp only [Bool.false_eq_true, if_false, Nat.zero_add, List.replicate_zero, List.append_nil]
      rw [sign_step _ _ _ _ (Or.inl (by omega))]
    · simp only [if_true]
      rw [padZeros_small _ _ (by omega)]
      rw [sign_step _ _ _ _ (Or.inl (by simp only [List.length_append, List.length_replicate]; omega))]
  · -- left-justified, 0 flag ignored
    cases hm : fx.minusPrec
    · simp only [Bool.false_eq_true, if_false, Nat.zero_add, List.replicate_zero, List.append_nil]
      rw [sign_step _ _ _ _ (Or.inl (by omega))]
    · simp only [if_true]
      rw [padZeros_small _ _ (by omega)]
      rw [sign_step _ _ _ _ (Or.inl (by simp only [List.length_append, List.length_replicate]; omega))]

end SafeC.Printf

import SafeC.Proofs.PrintfFormat
/-!
# C11: the number `safec_ntoa_long` + `safec_ntoa_format` + `safec_out_rev` write = `Spec.renderInt`

`ntoaLong_renderInt_nohash`: flags without `#` (repaired `-`/precision code, `Fixes.minusPrec`), every 64-bit value,
bases 8/10/16, precision ≤ 31, zero-padded width ≤ 31.
-/
namespace SafeC.Printf
open SafeC.Printf.Spec

/-- the conversion specification (flags, width, precision) the engine's flag word stands for -/
def dirOf (fl : Flags) (width prec : Nat) : Dir :=
  { minus := fl.left, plus := fl.plus, space := fl.space, hash := fl.hash, zero := fl.zeropad, width := width,
    prec := if fl.precision then some prec else none }

/-- the standard's digit characters of `v` -/
def numStr (base : Nat) (upper : Bool) (v : Nat) : Str := (digits base v).map (digitSym upper)

theorem digits_ne_nil (b v : Nat) (hb : 2 ≤ b) (hv : v ≠ 0) : digits b v ≠ [] := by
  rw [digits]; simp [hb, Nat.pos_of_ne_zero hv]

theorem numStr_length_pos (b : Nat) (up : Bool) (v : Nat) (hb : 2 ≤ b) (hv : v ≠ 0) : 0 < (numStr b up v).length := by
  unfold numStr; rw [List.length_map]; exact List.length_pos_iff.2 (digits_ne_nil b v hb hv)

theorem numStr_zero (b : Nat) (up : Bool) : numStr b up 0 = [] := by unfold numStr; rw [digits_zero]; rfl

/-- the digit buffer `safec_ntoa_long` hands to `safec_ntoa_format` -/
def digitBuf (base : Nat) (upper precision : Bool) (v : Nat) : Str :=
  if !precision || v != 0 then ntoaDigits base upper NTOA v [] else []

theorem digitBuf_eq (base : Nat) (up pr : Bool) (v : Nat) (hb : 8 ≤ base) (hb16 : base ≤ 16) (hv : v < 2 ^ 64) :
    digitBuf base up pr v = if v = 0 then (if pr then [] else ['0']) else (numStr base up v).reverse := by
  unfold digitBuf numStr
  by_cases h0 : v = 0
  · subst h0; cases pr <;> simp [ntoaDigits_spec base up 0 hb hb16 (by omega)]
  · simp [h0, ntoaDigits_spec base up v hb hb16 hv]

theorem digitBuf_length_le (base : Nat) (up pr : Bool) (v : Nat) (hb : 8 ≤ base) (hb16 : base ≤ 16) (hv : v < 2 ^ 64) :
    (digitBuf base up pr v).length ≤ 22 := by
  unfold digitBuf
  split
  · rw [ntoaDigits_eq base up (by omega) NTOA v [] (by have := revDigits_length_64 base v hb hv; have : NTOA = 32 := rfl; omega)
      (by have := revDigits_length_64 base v hb hv; have : NTOA = 32 := rfl; simp; omega)]
    simp; exact revDigits_length_64 base v hb hv
  · simp

/-- precision zeros ++ digits, as the standard writes them (`ds` of `Spec.renderInt` before `#`) -/
def precDigits (base : Nat) (upper : Bool) (prec : Option Nat) (v : Nat) : Str :=
  List.replicate (prec.getD 1 - (numStr base upper v).length) '0' ++ numStr base upper v

/-- the engine's digit buffer reversed, behind `prec - len` zeros, is the standard's digit block -/
theorem digitBuf_block (base : Nat) (up pr : Bool) (prec v : Nat) (hb : 8 ≤ base) (hb16 : base ≤ 16) (hv : v < 2 ^ 64)
    (hp0 : pr = false → prec = 0) :
    List.replicate (prec - (digitBuf base up pr v).length) '0' ++ (digitBuf base up pr v).reverse =
      precDigits base up (if pr then some prec else none) v := by
  rw [digitBuf_eq base up pr v hb hb16 hv]
  unfold precDigits
  by_cases h0 : v = 0
  · subst h0
    cases pr
    · have := hp0 rfl; subst this; simp [numStr_zero]
    · simp [numStr_zero]
  · have hpos := numStr_length_pos base up v (by omega) h0
    simp only [h0, if_false, List.length_reverse, List.reverse_reverse]
    cases pr
    · have := hp0 rfl; subst this
      simp only [Bool.false_eq_true, if_false, Option.getD_none]
      have h1 : 0 - (numStr base up v).length = 0 := by omega
      have h2 : 1 - (numStr base up v).length = 0 := by omega
      rw [h1, h2]
    · simp

theorem digitBuf_block_length (base : Nat) (up pr : Bool) (prec v : Nat) (hb : 8 ≤ base) (hb16 : base ≤ 16) (hv : v < 2 ^ 64)
    (hp0 : pr = false → prec = 0) :
    (precDigits base up (if pr then some prec else none) v).length =
      (digitBuf base up pr v).length + (prec - (digitBuf base up pr v).length) := by
  rw [← digitBuf_block base up pr prec v hb hb16 hv hp0]; simp; omega

/-- `Spec.renderInt` without `#`, in the parts the proof uses -/
theorem renderInt_nohash (d : Dir) (signed neg : Bool) (mag base : Nat) (upper : Bool) (hh : d.hash = false) :
    renderInt d signed neg mag base upper =
      let ds := precDigits base upper d.prec mag
      let sign : Str := if signed then (if neg then ['-'] else if d.plus then ['+'] else if d.space then [' '] else []) else []
      let fill : Str := if d.zero ∧ ¬ d.minus ∧ d.prec = Option.none then List.replicate (d.width - (sign.length + ds.length)) '0' else []
      padField d (sign ++ fill ++ ds) := by
  unfold renderInt precDigits numStr
  simp [hh]

/-- the sign characters of engine and standard agree -/
theorem signChars_eq (neg : Bool) (fl : Flags) (signed : Bool) (hs : signed = false → neg = false ∧ fl.plus = false ∧ fl.space = false) :
    (if signed then (if neg then ['-'] else if fl.plus then ['+'] else if fl.space then [' '] else []) else ([] : Str)) = signChars neg fl := by
  unfold signChars
  cases signed
  · obtain ⟨h1, h2, h3⟩ := hs rfl; simp [h1, h2, h3]
  · simp

theorem signChars_shape (neg : Bool) (fl : Flags) :
    (signChars neg fl = [] ∧ (neg || fl.plus || fl.space) = false) ∨ (∃ c, signChars neg fl = [c] ∧ (neg || fl.plus || fl.space) = true) := by
  unfold signChars
  cases neg <;> cases fl.plus <;> cases fl.space <;> simp

/-- the list identity behind `ntoaLong_renderInt_nohash`: reversed buffer + paddings = sign, fill, digit block, padded -/
theorem rep_congr {a b : Nat} (c : Char) (h : a = b) : List.replicate a c = List.replicate b c := by rw [h]

theorem outRevText_render (E S : Str) (k width : Nat) (fl : Flags) (neg : Bool)
    (hS : (S = [] ∧ (neg || fl.plus || fl.space) = false) ∨ (∃ c, S = [c] ∧ (neg || fl.plus || fl.space) = true))
    (hk : fl.left = false → fl.zeropad = true → k = 0) :
    outRevText (E ++ List.replicate (k + (if !fl.left && fl.zeropad then width1Of neg width fl - (E.length + k) else 0)) '0' ++ S)
        (width1Of neg width fl) fl =
      (let D := List.replicate k '0' ++ E.reverse
       let fill : Str := if fl.zeropad = true ∧ ¬ fl.left = true then List.replicate (width - (S.length + D.length)) '0' else []
       if fl.left then (S ++ fill ++ D) ++ List.replicate (width - (S ++ fill ++ D).length) ' '
       else List.replicate (width - (S ++ fill ++ D).length) ' ' ++ (S ++ fill ++ D)) := by
  unfold outRevText width1Of
  have hSr : S.reverse = S := by rcases hS with ⟨h, _⟩ | ⟨c, h, _⟩ <;> subst h <;> rfl
  cases hl : fl.left <;> cases hz : fl.zeropad <;>
    simp only [List.reverse_append, List.reverse_replicate, hSr, List.length_append, List.length_replicate, List.length_reverse,
      Bool.not_false, Bool.not_true, Bool.and_false, Bool.false_and, Bool.and_true, Bool.true_and, Bool.false_eq_true, if_false, if_true,
      Nat.add_zero, false_and, and_false, and_true, true_and, List.append_nil, List.nil_append, not_false_eq_true, not_true_eq_false, and_self, List.append_assoc]
  · rw [rep_congr ' ' (show width - (E.length + (k + S.length)) = width - (S.length + (k + E.length)) by omega)]
  · have hk0 := hk hl hz; subst hk0
    simp only [Nat.zero_add, Nat.add_zero, List.replicate_zero, List.nil_append]
    rcases hS with ⟨h, hs⟩ | ⟨c, h, hs⟩
    · subst h; simp only [hs, Bool.and_false, Bool.false_eq_true, if_false, List.length_nil, Nat.zero_add, List.nil_append]
      rw [rep_congr ' ' (show width - (width - E.length + E.length) = 0 by omega)]; rfl
    · subst h; simp only [hs, Bool.and_true, List.length_singleton, List.singleton_append, List.length_cons, List.length_nil]
      rw [rep_congr ' ' (show width - (0 + 1 + (width - (0 + 1 + E.length) + E.length)) = 0 by omega)]
      rw [rep_congr '0' (show (if (width != 0) = true then width - 1 else width) - E.length = width - (0 + 1 + E.length) by
        split <;> rename_i h <;> simp at h <;> omega)]
      rfl
  · rw [rep_congr ' ' (show width - (E.length + (k + S.length)) = width - (S.length + (k + E.length)) by omega)]
  · rw [rep_congr ' ' (show width - (E.length + (k + S.length)) = width - (S.length + (k + E.length)) by omega)]
/-- **layout = `Spec.renderInt`, flags without `#`.**  For every 64-bit value, base 8/10/16, and flag word without `#`
    whose precision is at most 31 and whose zero-padded width is at most 31 (the 32-byte digit buffer), the repaired
    `safec_ntoa_long` hands the sink exactly the characters C11 7.21.6.1 prescribes. -/
theorem ntoaLong_renderInt_nohash (fx : Fixes) (hm : fx.minusPrec = true) (sk : Sink) (m : Nat) (v : Nat) (neg : Bool)
    (base prec width : Nat) (fl : Flags) (s : St) (signed : Bool)
    (hb : base = 8 ∨ base = 10 ∨ base = 16) (hv : v < 2 ^ 64) (hh : fl.hash = false)
    (hpz : fl.precision = true → fl.zeropad = false) (hp0 : fl.precision = false → prec = 0)
    (hs : signed = false → neg = false ∧ fl.plus = false ∧ fl.space = false)
    (hp : prec ≤ 31) (hw : fl.left = false → fl.zeropad = true → width ≤ 31) (hwmax : width ≤ 2147483614) :
    ntoaLong fx sk m v neg base prec width fl s =
      emitAll sk m (renderInt (dirOf fl width prec) signed neg v base fl.upper) s := by
  have hb8 : 8 ≤ base := by omega
  have hb16 : base ≤ 16 := by omega
  unfold ntoaLong
  have hfl : (if (v == 0 && !(fx.hash && base == 8 && fl.precision)) = true then { fl with hash := false } else fl) = fl := by
    split
    · cases fl; simp only at hh; subst hh; rfl
    · rfl
  simp only [hfl]
  change ntoaFormat fx sk m (digitBuf base fl.upper fl.precision v) neg base prec width fl s = _
  have hE := digitBuf_length_le base fl.upper fl.precision v hb8 hb16 hv
  have hblk := digitBuf_block base fl.upper fl.precision prec v hb8 hb16 hv hp0
  generalize digitBuf base fl.upper fl.precision v = E at hE hblk
  unfold ntoaFormat
  rw [ntoaPrep_nohash fx E neg base prec width fl hh (by omega) hp hw]
  have hw1 : width1Of neg width fl ≤ width := by unfold width1Of; split <;> omega
  have : ¬ (width1Of neg width fl > 2147483614) := by omega
  simp only [this, if_false, outRev_eq]
  clear this hw1
  congr 1
  rw [renderInt_nohash _ _ _ _ _ _ (by simp [dirOf, hh])]
  simp only [dirOf, ← hblk]
  have hzp : zPrec fx E prec fl = prec - E.length := by unfold zPrec; simp [hm]
  have hk : fl.left = false → fl.zeropad = true → prec - E.length = 0 := by
    intro _ hz
    have : fl.precision = false := by cases h : fl.precision; rfl; rw [hpz h] at hz; cases hz
    rw [hp0 this]; omega
  have hzw : zWidth fx E neg prec width fl = if !fl.left && fl.zeropad then width1Of neg width fl - (E.length + (prec - E.length)) else 0 := by
    unfold zWidth; rw [hzp]
  rw [hzp, hzw, outRevText_render E (signChars neg fl) (prec - E.length) width fl neg (signChars_shape neg fl) hk]
  unfold padField
  have hcond : (fl.zeropad = true ∧ ¬fl.left = true ∧ (if fl.precision = true then some prec else none) = none) ↔ (fl.zeropad = true ∧ ¬ fl.left = true) := by
    constructor
    · intro h; exact ⟨h.1, h.2.1⟩
    · intro h; refine ⟨h.1, h.2, ?_⟩
      cases hp : fl.precision
      · simp
      · rw [hpz hp] at h; exact absurd h.1 (by simp)
  simp only [hcond]
  rw [← signChars_eq neg fl signed hs]
  rfl

end SafeC.Printf

import SafeC.Proofs.StpSteps
/-!
# The bumper copy loops (`copyLoop`): "`j0` continuing iterations", then every exit analysed once

The analogue of `Proofs/StpSteps.lean` for the loops of `strcpy_s strncpy_s strcat_s strncat_s` and the wide twins.
`copyLoop_steps`: as long as the characters read are non-NUL and have not been overwritten by the stores made
before, the bumper is not met and (bounded twin) `slen` is not used up, the loop makes `j0` iterations and arrives
— with `dest[0..j0) = src[0..j0)` (values of the ORIGINAL state, `CopiedN`) — at the same loop started `j0` cells
further.  No hypothesis on the placement of `src` relative to `dest` other than the ones named; both twin loops
(`onDest`), bounded and unbounded.  The three exits follow by unfolding one more step: `copySteps_hit` (bumper:
ESOVRLP, dest cleared), `copySteps_done` (terminator read / `slen` used up: EOK), `copySteps_full` (no room: ESNOSPC).
-/
namespace SafeC
open Gen

theorem copyLoop_succ (cfg : Cfg) (onDest bounded : Bool) (B oD oM : Nat) (k d s slen : Nat) :
    copyLoop cfg onDest bounded B oD oM (k+1) d s slen =
      (if (if onDest then d else s) = B then do
        handleError cfg oD oM ESOVRLP
        pure ESOVRLP
      else if bounded = true ∧ slen = 0 then do
        if cfg.slack then nullSlack d (k+1) else store d 0
        pure EOK
      else do
        let c ← load s
        store d c
        if c = 0 then do
          if cfg.slack then nullSlack d (k+1) else pure ()
          pure EOK
        else copyLoop cfg onDest bounded B oD oM k (d+1) (s+1) (slen - 1)) := by
  rfl

/-- **`j0` continuing iterations of the copy loops**, any placement -/
theorem copyLoop_steps (cfg : Cfg) (onDest bounded : Bool) (B oD oM : Nat) (j0 : Nat) :
    ∀ (k d s slen : Nat) (st : St),
    (∀ a, st.mapped a = true ∧ st.rd a = true) → RW st d j0 → j0 ≤ k →
    (∀ j, j < j0 → st.data (s+j) ≠ 0) →
    (∀ i j, i < j → j < j0 → s + j ≠ d + i) →
    (∀ j, j < j0 → (if onDest then d + j else s + j) ≠ B) →
    (bounded = true → j0 ≤ slen) →
    ∃ st1, CopiedN st st1 d s j0 ∧
      ∀ k' d' s' slen', k' + j0 = k → d' = d + j0 → s' = s + j0 → slen' = slen - j0 →
        exec (copyLoop cfg onDest bounded B oD oM k d s slen) st =
          exec (copyLoop cfg onDest bounded B oD oM k' d' s' slen') st1 := by
  induction j0 with
  | zero =>
    intro k d s slen st _ _ _ _ _ _ _
    refine ⟨st, CopiedN.zero st d s, ?_⟩
    intro k' d' s' slen' h1 h2 h3 h4
    have e1 : k' = k := by omega
    have e : slen' = slen := by omega
    rw [e, e1, h2, h3]; rfl
  | succ j0 ih =>
    intro k d s slen st hall hrw hk hnz hcl hb hsl
    obtain ⟨k, rfl⟩ : ∃ k0, k = k0 + 1 := ⟨k - 1, by omega⟩
    have hb0 : ¬ (if onDest then d else s) = B := by simpa using hb 0 (by omega)
    have hsl0 : ¬ (bounded = true ∧ slen = 0) := by
      intro ⟨h1, h2⟩; have := hsl h1; omega
    obtain ⟨hdm, hdw, _⟩ := hrw.head
    have hs_m := hall s
    have hc : st.data s ≠ 0 := by simpa using hnz 0 (by omega)
    have hne : ∀ j, j < j0 → (st.upd d (st.data s)).data (s + 1 + j) = st.data (s + (j+1)) := by
      intro j hj
      have e : s + 1 + j = s + (j+1) := by omega
      rw [e]
      exact St.upd_data_ne _ _ _ _ (by have := hcl 0 (j+1) (by omega) (by omega); omega)
    obtain ⟨st1, hcp, hex⟩ := ih k (d+1) (s+1) (slen - 1) (st.upd d (st.data s))
      (by intro a; exact hall a) (RW.of_sameMeta (SameMeta.upd _ _ _) hrw.tail) (by omega)
      (by intro j hj; rw [hne j hj]; exact hnz (j+1) (by omega))
      (by intro i j hij hj; have := hcl (i+1) (j+1) (by omega) (by omega); omega)
      (by
        intro j hj
        have := hb (j+1) (by omega)
        have e1 : d + 1 + j = d + (j+1) := by omega
        have e2 : s + 1 + j = s + (j+1) := by omega
        rw [e1, e2]; exact this)
      (by intro h; have := hsl h; omega)
    refine ⟨st1, hcp.cons (by intro j h1 h2; have := hcl 0 j h1 (by omega); omega), ?_⟩
    intro k' d' s' slen' h1 h2 h3 h4
    rw [copyLoop_succ, if_neg hb0, if_neg hsl0]
    simp only [exec_bind, exec_load_ok _ _ hs_m.1 hs_m.2, exec_store_ok _ _ _ hdm hdw]
    rw [if_neg hc]
    exact hex k' d' s' slen' (by omega) (by omega) (by omega) (by omega)

/-! ## the exits -/

theorem copyFail_cleared (cfg : Cfg) (oD oM code : Nat) (st : St) (hrw : RW st oD oM) (hoM : 0 < oM) :
    ∃ st', exec (do handleError cfg oD oM code; pure code : Prog Nat) st = .ok (code, st') ∧
      ClearedPost cfg oD oM code st st' := by
  obtain ⟨st', he, hp⟩ := handleError_cleared cfg oD oM code st hrw hoM
  exact ⟨st', by simp [exec_bind, he], hp⟩

/-- **bumper exit**: after `g` continuing iterations the pointer compared equals the bumper -/
theorem copySteps_hit (cfg : Cfg) (onDest bounded : Bool) (B oD oM : Nat) (hoM : 0 < oM)
    (k d s g slen : Nat) (st : St)
    (hall : ∀ a, st.mapped a = true ∧ st.rd a = true)
    (hrw : RW st oD oM) (hinv : oD ≤ d ∧ d + k = oD + oM) (hgk : g < k)
    (hnz : ∀ j, j < g → st.data (s+j) ≠ 0)
    (hcl : ∀ i j, i < j → j < g → s + j ≠ d + i)
    (hb : ∀ j, j < g → (if onDest then d + j else s + j) ≠ B)
    (hbg : (if onDest then d + g else s + g) = B)
    (hsl : bounded = true → g ≤ slen) :
    ∃ st', exec (copyLoop cfg onDest bounded B oD oM k d s slen) st = .ok (ESOVRLP, st') ∧
      ClearedPost cfg oD oM ESOVRLP st st' := by
  obtain ⟨st1, hcp, hex⟩ := copyLoop_steps cfg onDest bounded B oD oM g k d s slen st hall
    (hrw.sub' (by omega)) (by omega) hnz hcl hb hsl
  rw [hex (k - g - 1 + 1) (d + g) (s + g) _ (by omega) rfl rfl rfl, copyLoop_succ, if_pos hbg]
  obtain ⟨st', he, hp⟩ := copyFail_cleared cfg oD oM ESOVRLP st1 (RW.of_sameMeta hcp.1 hrw) hoM
  exact ⟨st', he, hp.of_copied hcp (by omega)⟩

/-- **no-room exit**: `k` continuing iterations use up the `k` cells -/
theorem copySteps_full (cfg : Cfg) (onDest bounded : Bool) (B oD oM : Nat) (hoM : 0 < oM)
    (k d s slen : Nat) (st : St)
    (hall : ∀ a, st.mapped a = true ∧ st.rd a = true)
    (hrw : RW st oD oM) (hinv : oD ≤ d ∧ d + k = oD + oM)
    (hnz : ∀ j, j < k → st.data (s+j) ≠ 0)
    (hcl : ∀ i j, i < j → j < k → s + j ≠ d + i)
    (hb : ∀ j, j < k → (if onDest then d + j else s + j) ≠ B)
    (hsl : bounded = true → k ≤ slen) :
    ∃ st', exec (copyLoop cfg onDest bounded B oD oM k d s slen) st = .ok (ESNOSPC, st') ∧
      ClearedPost cfg oD oM ESNOSPC st st' := by
  obtain ⟨st1, hcp, hex⟩ := copyLoop_steps cfg onDest bounded B oD oM k k d s slen st hall
    (hrw.sub' (by omega)) (Nat.le_refl _) hnz hcl hb hsl
  rw [hex 0 (d + k) (s + k) _ (by omega) rfl rfl rfl]
  unfold copyLoop
  obtain ⟨st', he, hp⟩ := copyFail_cleared cfg oD oM ESNOSPC st1 (RW.of_sameMeta hcp.1 hrw) hoM
  exact ⟨st', he, hp.of_copied hcp (by omega)⟩

/-- **success exit**: `m` continuing iterations, then the terminator is read (not overwritten before) or `slen` is
used up; the bumper is not met in these `m + 1` tests.  `StpDone cfg d k s m st st'`: `dest[0..m) = src[0..m)`
(ORIGINAL values), `dest[m] = 0`, null-slack zeros up to `k`, nothing outside the `k` cells touched, no event. -/
theorem copySteps_done (cfg : Cfg) (onDest bounded : Bool) (B oD oM : Nat)
    (k d s m slen : Nat) (st : St)
    (hall : ∀ a, st.mapped a = true ∧ st.rd a = true)
    (hrw : RW st d k) (hmk : m < k)
    (hnz : ∀ j, j < m → st.data (s+j) ≠ 0)
    (hcl : ∀ i j, i < j → j ≤ m → s + j ≠ d + i)
    (hb : ∀ j, j ≤ m → (if onDest then d + j else s + j) ≠ B)
    (hfin : ((bounded = true → m < slen) ∧ st.data (s+m) = 0) ∨ (bounded = true ∧ slen = m)) :
    ∃ st', exec (copyLoop cfg onDest bounded B oD oM k d s slen) st = .ok (EOK, st') ∧
      StpDone cfg d k s m st st' := by
  have hsl : bounded = true → m ≤ slen := by
    intro h; rcases hfin with h1 | h1
    · have := h1.1 h; omega
    · omega
  obtain ⟨st1, hcp, hex⟩ := copyLoop_steps cfg onDest bounded B oD oM m k d s slen st hall
    (fun i hi => hrw i (by omega)) (by omega) hnz (fun i j h1 h2 => hcl i j h1 (by omega))
    (fun j hj => hb j (by omega)) hsl
  rw [hex (k - m - 1 + 1) (d + m) (s + m) _ (by omega) rfl rfl rfl, copyLoop_succ,
    if_neg (hb m (Nat.le_refl _))]
  have hsub : RW st1 (d + m) (k - m - 1 + 1) := by
    intro i hi
    have := (RW.of_sameMeta hcp.1 hrw) (m + i) (by omega)
    have e : d + (m + i) = d + m + i := by omega
    rwa [e] at this
  obtain ⟨hdm, hdw, _⟩ := hsub.head
  -- what the two EOK exits deliver, from a state `s2` that differs from `st1` at most in the cell `d + m`
  have fin : ∀ (s2 st' : St), SameMeta s2 st1 → (∀ a, a ≠ d + m → s2.data a = st1.data a) → SameMeta st' s2 →
      st'.data (d + m) = 0 → (∀ a, ¬ (d + m ≤ a ∧ a < d + m + (k - m - 1 + 1)) → st'.data a = s2.data a) →
      (cfg.slack = true → ∀ a, d + m ≤ a → a < d + m + (k - m - 1 + 1) → st'.data a = 0) →
      StpDone cfg d k s m st st' := by
    intro s2 st' hm2 hd2 hm h0 hfr hcl'
    refine ⟨(hm.trans hm2).trans hcp.1, ?_, h0, ?_, ?_⟩
    · intro i hi
      rw [hfr (d+i) (by omega), hd2 (d+i) (by omega)]
      exact hcp.at i hi
    · intro hcs i h1 h2; exact hcl' hcs (d+i) (by omega) (by omega)
    · intro a ha
      rw [hfr a (by omega), hd2 a (by omega)]
      exact hcp.out a (by omega)
  -- the slack block on a state whose cell `d + m` is (or gets) zero
  have slackOk : ∀ (s2 : St), SameMeta s2 st1 → cfg.slack = true →
      ∃ st', exec (nullSlack (d + m) (k - m - 1 + 1)) s2 = .ok ((), st') ∧ SameMeta st' s2 ∧
        st'.data (d + m) = 0 ∧ (∀ a, ¬ (d + m ≤ a ∧ a < d + m + (k - m - 1 + 1)) → st'.data a = s2.data a) ∧
        (∀ a, d + m ≤ a → a < d + m + (k - m - 1 + 1) → st'.data a = 0) := by
    intro s2 hm2 _
    obtain ⟨st', he, hm, hd⟩ := nullSlack_ok (d + m) (k - m - 1 + 1) s2 (RW.of_sameMeta hm2 hsub)
    refine ⟨st', he, hm, ?_, ?_, ?_⟩
    · rw [hd (d + m)]
      have : d + m ≤ d + m ∧ d + m < d + m + (k - m - 1 + 1) := by omega
      rw [if_pos this]
    · intro a ha; rw [hd a, if_neg ha]
    · intro a h1 h2; rw [hd a, if_pos ⟨h1, h2⟩]
  by_cases hx : bounded = true ∧ slen - m = 0
  · rw [if_pos hx]
    cases hcs : cfg.slack with
    | true =>
      obtain ⟨st', he, hm, h0, hfr, hz⟩ := slackOk st1 (SameMeta.refl _) hcs
      refine ⟨st', by simp [exec_bind, he], ?_⟩
      exact fin st1 st' (SameMeta.refl _) (fun _ _ => rfl) hm h0 hfr (fun _ => hz)
    | false =>
      refine ⟨st1.upd (d + m) 0, by simp [exec_bind, exec_store_ok _ _ _ hdm hdw], ?_⟩
      exact fin st1 (st1.upd (d + m) 0) (SameMeta.refl _) (fun _ _ => rfl) (SameMeta.upd _ _ _) (by simp)
        (fun a ha => St.upd_data_ne _ _ _ _ (by omega)) (fun h => by rw [hcs] at h; cases h)
  · rw [if_neg hx]
    have hz : st.data (s + m) = 0 := by
      rcases hfin with h1 | h1
      · exact h1.2
      · exfalso; apply hx; exact ⟨h1.1, by omega⟩
    have hz1 : st1.data (s + m) = 0 := by
      rw [hcp.out (s + m) (by
        intro ⟨h1, h2⟩
        exact hcl (s + m - d) m (by omega) (Nat.le_refl _) (by omega))]
      exact hz
    have hs_m := hall (s + m)
    have hs_m1 : st1.mapped (s + m) = true ∧ st1.rd (s + m) = true := by
      rw [hcp.1.mapped, hcp.1.rd]; exact hs_m
    simp only [exec_bind, exec_load_ok _ _ hs_m1.1 hs_m1.2, exec_store_ok _ _ _ hdm hdw, hz1, if_true]
    cases hcs : cfg.slack with
    | true =>
      obtain ⟨st', he, hm, h0, hfr, hz'⟩ := slackOk (st1.upd (d + m) 0) (SameMeta.upd _ _ _) hcs
      refine ⟨st', by simp [exec_bind, he], ?_⟩
      exact fin (st1.upd (d + m) 0) st' (SameMeta.upd _ _ _) (fun a ha => St.upd_data_ne _ _ _ _ ha) hm h0 hfr
        (fun _ => hz')
    | false =>
      refine ⟨st1.upd (d + m) 0, by simp, ?_⟩
      exact fin (st1.upd (d + m) 0) (st1.upd (d + m) 0) (SameMeta.upd _ _ _)
        (fun a ha => St.upd_data_ne _ _ _ _ ha) (SameMeta.refl _) (by simp)
        (fun _ _ => rfl) (fun h => by rw [hcs] at h; cases h)

end SafeC

import SafeC.Models.Conv
namespace SafeC.Conv.Libc

theorem utf8Body_cons (b : Nat) (rest : List Nat) (cnt hi v : Nat) (hb : ¬ b < 0x80) (hl : lead b = some (cnt, hi))
    (hall : (rest.take (cnt - 1)).all isCont = true) (hlen : (rest.take (cnt - 1)).length = cnt - 1)
    (hacc : accum hi (rest.take (cnt - 1)) = v) (hmin : cnt > 2 → minOf cnt ≤ v) (hs : isSurr v = false) :
    utf8Body (b :: rest) = .ok v cnt := by
  simp only [utf8Body, hb, hl, hall, hlen, hacc, hs]
  by_cases h2 : cnt > 2
  · have := hmin h2
    simp [h2]; omega
  · simp [h2]

theorem lead2 (k : Nat) (h : 2 ≤ k) (h2 : k < 32) : lead (0xC0 + k) = some (2, k) := by
  unfold lead
  have : (decide (0xC2 ≤ 0xC0 + k) && decide (0xC0 + k < 0xE0)) = true := by simp; omega
  rw [if_pos this]; congr 2; omega
theorem lead3 (k : Nat) (h2 : k < 16) : lead (0xE0 + k) = some (3, k) := by
  unfold lead
  have a : ¬ ((decide (0xC2 ≤ 0xE0 + k) && decide (0xE0 + k < 0xE0)) = true) := by simp
  have b : ((0xE0 + k) / 16 == 0xE) = true := by simp; omega
  rw [if_neg a, if_pos b]; congr 2; omega
theorem lead4 (k : Nat) (h2 : k < 8) : lead (0xF0 + k) = some (4, k) := by
  unfold lead
  have a : ¬ ((decide (0xC2 ≤ 0xF0 + k) && decide (0xF0 + k < 0xE0)) = true) := by simp ; omega
  have b : ¬ (((0xF0 + k) / 16 == 0xE) = true) := by simp; omega
  have c : ((0xF0 + k) / 8 == 0x1E) = true := by simp; omega
  rw [if_neg a, if_neg b, if_pos c]; congr 2; omega
theorem lead5 (k : Nat) (h2 : k < 4) : lead (0xF8 + k) = some (5, k) := by
  unfold lead
  have a : ¬ ((decide (0xC2 ≤ 0xF8 + k) && decide (0xF8 + k < 0xE0)) = true) := by simp ; omega
  have b : ¬ (((0xF8 + k) / 16 == 0xE) = true) := by simp; omega
  have c : ¬ (((0xF8 + k) / 8 == 0x1E) = true) := by simp; omega
  have d : ((0xF8 + k) / 4 == 0x3E) = true := by simp; omega
  rw [if_neg a, if_neg b, if_neg c, if_pos d]; congr 2; omega
theorem lead6 (k : Nat) (h2 : k < 2) : lead (0xFC + k) = some (6, k) := by
  unfold lead
  have a : ¬ ((decide (0xC2 ≤ 0xFC + k) && decide (0xFC + k < 0xE0)) = true) := by simp ; omega
  have b : ¬ (((0xFC + k) / 16 == 0xE) = true) := by simp; omega
  have c : ¬ (((0xFC + k) / 8 == 0x1E) = true) := by simp; omega
  have d : ¬ (((0xFC + k) / 4 == 0x3E) = true) := by simp; omega
  have e : ((0xFC + k) / 2 == 0x7E) = true := by simp; omega
  rw [if_neg a, if_neg b, if_neg c, if_neg d, if_pos e]; congr 2; omega

theorem isCont_mk (x : Nat) : isCont (0x80 + x % 64) = true := by
  unfold isCont; simp; omega

theorem isSurr_false_of_ge {c : Nat} (h : 0x10000 ≤ c) : isSurr c = false := by
  unfold isSurr; simp; omega
theorem isSurr_false_of_lt {c : Nat} (h : c < 0x800) : isSurr c = false := by
  unfold isSurr; simp; omega

theorem utf8Body_enc (c : Nat) (e tail : List Nat) (h : utf8Enc c = some e) :
    utf8Body (e ++ tail) = .ok c e.length := by
  unfold utf8Enc at h
  split at h
  · cases h
  · rename_i hbad
    have hmax : c ≤ 0x7fffffff := by
      simp only [Bool.or_eq_true, decide_eq_true_eq, not_or, Nat.not_lt] at hbad; exact hbad.1
    have hsur : isSurr c = false := by
      simp only [Bool.or_eq_true, not_or] at hbad; simpa using hbad.2
    split at h
    · cases h; simp [utf8Body, *]
    · split at h
      · cases h
        exact utf8Body_cons _ _ 2 (c / 64) c (by omega) (lead2 _ (by omega) (by omega)) (by simp [isCont_mk]) (by simp)
          (by simp [accum]; omega) (by simp) hsur
      · split at h
        · cases h
          exact utf8Body_cons _ _ 3 (c / 4096) c (by omega) (lead3 _ (by omega)) (by simp [isCont_mk]) (by simp)
            (by simp [accum]; omega) (by simp [minOf]; omega) hsur
        · split at h
          · cases h
            exact utf8Body_cons _ _ 4 (c / 262144) c (by omega) (lead4 _ (by omega)) (by simp [isCont_mk]) (by simp)
              (by simp [accum]; omega) (by simp [minOf]; omega) hsur
          · split at h
            · cases h
              exact utf8Body_cons _ _ 5 (c / 16777216) c (by omega) (lead5 _ (by omega)) (by simp [isCont_mk]) (by simp)
                (by simp [accum]; omega) (by simp [minOf]; omega) hsur
            · cases h
              exact utf8Body_cons _ _ 6 (c / 1073741824) c (by omega) (lead6 _ (by omega)) (by simp [isCont_mk]) (by simp)
                (by simp [accum]; omega) (by simp [minOf]; omega) hsur

theorem asciiBody_enc (c : Nat) (e tail : List Nat) (h : asciiEnc c = some e) : asciiBody (e ++ tail) = .ok c e.length := by
  unfold asciiEnc at h
  split at h
  · cases h; simp [asciiBody, *]
  · cases h

theorem body_enc (loc : Locale) (c : Nat) (e tail : List Nat) (h : enc loc c = some e) : body loc (e ++ tail) = .ok c e.length := by
  cases loc
  · exact asciiBody_enc c e tail h
  · exact utf8Body_enc c e tail h

theorem enc_length_pos (loc : Locale) (c : Nat) (e : List Nat) (h : enc loc c = some e) : 0 < e.length := by
  cases loc
  · simp only [enc, asciiEnc] at h; split at h <;> cases h; simp
  · simp only [enc, utf8Enc] at h
    repeat' split at h
    all_goals first | (cases h; simp) | cases h

/-- round trip: decoding the encoding of any list of encodable wide characters gives the list back -/
theorem decodeAll_encodeAll (loc : Locale) (ws : List Nat) (bs : List Nat) (h : encodeAll loc ws = some bs) (fuel : Nat)
    (hf : bs.length ≤ fuel) : decodeAll loc fuel bs = some ws := by
  induction ws generalizing bs fuel with
  | nil => simp [encodeAll] at h; subst h; cases fuel <;> simp [decodeAll]
  | cons c cs ih =>
    simp only [encodeAll] at h
    split at h
    · rename_i a b ha hb
      cases h
      have hpos := enc_length_pos loc c a ha
      cases fuel with
      | zero => simp only [List.length_append] at hf; omega
      | succ fuel =>
        have hne : (a ++ b).isEmpty = false := by
          cases a with
          | nil => simp at hpos
          | cons x xs => simp
        simp only [decodeAll, hne, body_enc loc c a b ha, List.drop_left]
        rw [ih b hb fuel (by simp only [List.length_append] at hf; omega)]
        simp
    · cases h

end SafeC.Conv.Libc

import SafeC.Proofs.NormIdem
import SafeC.Proofs.NormNFC2
/-!
# C17 — the table facts behind NFC idempotence, and NFC idempotence

**Table fact (kernel-checked over all 941 primary composites of UCD 14.0, against the tree's decomposition tables and against
UCD's own mappings):** the full canonical decomposition of a primary composite `c` of the pair `<a, b>` is the full decomposition
of `a` followed by that of `b` (`comp_dec_tree`, `comp_dec_ucd`); Hangul LV / LVT syllables by arithmetic (`omega`) and the
stability of the jamo.  Together with `composePure_roundtrip` (NormIdem.lean): NFD (NFC x) = NFD x, hence NFC (NFC x) = NFC x —
for the model's NFC on every string of code points, and for the reference `UAX15.nfc` on every list.
-/
namespace SafeC.Norm
open SafeC.Gen

set_option maxRecDepth 100000 in
/-- tree: stored full decomposition of every UCD primary composite = that of its first constituent ++ that of its second -/
theorem comp_dec_tree :
    allBelow (fun i => let t := UCD.compEntry i; decompose1 t.2.2 == decompose1 t.1 ++ decompose1 t.2.1) UCD14.compN = true := by
  decide +kernel

set_option maxRecDepth 100000 in
/-- UCD 14.0: the same for the recursive expansion of the single-step mappings (D68) -/
theorem comp_dec_ucd :
    allBelow (fun i => let t := UCD.compEntry i; UCD.fullDecomp 4 t.2.2 == UCD.fullDecomp 4 t.1 ++ UCD.fullDecomp 4 t.2.1)
      UCD14.compN = true := by
  decide +kernel

/-- UCD 14.0: the conjoining jamo have no decomposition -/
theorem jamo_ucd_stable :
    allBelow (fun i => UCD.fullDecomp 4 (0x1100 + i) == [0x1100 + i]) 19 = true ∧
    allBelow (fun i => UCD.fullDecomp 4 (0x1161 + i) == [0x1161 + i]) 21 = true ∧
    allBelow (fun i => UCD.fullDecomp 4 (0x11A7 + i) == [0x11A7 + i]) 28 = true := by
  refine ⟨?_, ?_, ?_⟩ <;> decide +kernel

attribute [local irreducible] cell UniCanon.main UniCanon.planes UniCanon.rows UniCombin.main UniCombin.planes UniCombin.rows
  UniCanon.tbl1 UniCanon.tbl2 UniCanon.tbl3 UniCanon.tbl4 UniCompos.main UniCompos.planes UniCompos.rows UniCompos.pairs
  UniCompos.listOff UniCompos.listLen UniCompos.listCp UCD14.compP UCD14.cccIdx UCD14.cccPages UCD14.asgIdx UCD14.asgPages
  UCD14.dmIdx UCD14.dmPages UCD14.dmEnt

/-! ## Hangul -/

/-- the two shapes of a Hangul composition (Unicode Standard 3.12) -/
theorem hangulCompose_cases {a b s : Nat} (h : UCD.hangulCompose a b = some s) :
    (∃ l v, l < 19 ∧ v < 21 ∧ a = 0x1100 + l ∧ b = 0x1161 + v ∧ s = 0xAC00 + (l * 21 + v) * 28) ∨
    (∃ l v t, l < 19 ∧ v < 21 ∧ 0 < t ∧ t < 28 ∧ a = 0xAC00 + (l * 21 + v) * 28 ∧ b = 0x11A7 + t ∧
      s = 0xAC00 + (l * 21 + v) * 28 + t) := by
  unfold UCD.hangulCompose at h
  split at h
  · rename_i hlv
    have e := (Option.some.inj h).symm
    unfold UCD.LBase UCD.LCount UCD.VBase UCD.VCount at hlv
    unfold UCD.SBase UCD.LBase UCD.VCount UCD.VBase UCD.TCount at e
    exact Or.inl ⟨a - 0x1100, b - 0x1161, by omega, by omega, by omega, by omega, by omega⟩
  · split at h
    · rename_i _ hlvt
      have e := (Option.some.inj h).symm
      unfold UCD.isHangulS UCD.SBase UCD.SCount UCD.TCount UCD.TBase at hlvt
      simp only [Bool.and_eq_true, decide_eq_true_eq] at hlvt
      unfold UCD.TBase at e
      exact Or.inr ⟨(a - 0xAC00) / 588, (a - 0xAC00) % 588 / 28, b - 0x11A7, by omega, by omega, by omega, by omega, by omega,
        by omega, by omega⟩
    · cases h

theorem isHangulS_of_form {l v t : Nat} (hl : l < 19) (hv : v < 21) (ht : t < 28) :
    UCD.isHangulS (0xAC00 + (l * 21 + v) * 28 + t) = true := by
  unfold UCD.isHangulS UCD.SBase UCD.SCount
  simp only [Bool.and_eq_true, decide_eq_true_eq]
  omega

theorem hangulDecomp_LV {l v : Nat} (hl : l < 19) (hv : v < 21) :
    UCD.hangulDecomp (0xAC00 + (l * 21 + v) * 28) = [0x1100 + l, 0x1161 + v] := (hangul_LV allFixed l v hl hv).2

theorem hangulDecomp_LVT {l v t : Nat} (hl : l < 19) (hv : v < 21) (ht0 : 0 < t) (ht : t < 28) :
    UCD.hangulDecomp (0xAC00 + (l * 21 + v) * 28 + t) = [0x1100 + l, 0x1161 + v, 0x11A7 + t] :=
  (hangul_LVT allFixed l v t hl hv ht0 ht).2

/-! ## UCD level -/

theorem ucd_fullDecomp_hangul {c : Nat} (h : UCD.isHangulS c = true) : UCD.fullDecomp 4 c = UCD.hangulDecomp c := by
  unfold UCD.fullDecomp; simp [h]

theorem ucd_jamoL {l : Nat} (h : l < 19) : UCD.fullDecomp 4 (0x1100 + l) = [0x1100 + l] := by
  simpa using allBelow_spec jamo_ucd_stable.1 l h
theorem ucd_jamoV {v : Nat} (h : v < 21) : UCD.fullDecomp 4 (0x1161 + v) = [0x1161 + v] := by
  simpa using allBelow_spec jamo_ucd_stable.2.1 v h
theorem ucd_jamoT {t : Nat} (h : t < 28) : UCD.fullDecomp 4 (0x11A7 + t) = [0x11A7 + t] := by
  simpa using allBelow_spec jamo_ucd_stable.2.2 t h

/-- **D114 against D68**: the full decomposition of the primary composite of `<a, b>` is that of `a` followed by that of `b` -/
theorem primaryComposite_fullDecomp {a b c : Nat} (h : UCD.primaryComposite a b = some c) :
    UCD.fullDecomp 4 c = UCD.fullDecomp 4 a ++ UCD.fullDecomp 4 b := by
  unfold UCD.primaryComposite at h
  cases hh : UCD.hangulCompose a b with
  | some s =>
    rw [hh] at h
    have hs : s = c := Option.some.inj h
    subst hs
    rcases hangulCompose_cases hh with ⟨l, v, hl, hv, rfl, rfl, rfl⟩ | ⟨l, v, t, hl, hv, ht0, ht, rfl, rfl, rfl⟩
    · have := isHangulS_of_form hl hv (t := 0) (by omega)
      rw [Nat.add_zero] at this
      rw [ucd_fullDecomp_hangul this, hangulDecomp_LV hl hv, ucd_jamoL hl, ucd_jamoV hv]
      rfl
    · have h1 := isHangulS_of_form hl hv ht
      have h0 := isHangulS_of_form hl hv (t := 0) (by omega)
      rw [ucd_fullDecomp_hangul h1, hangulDecomp_LVT hl hv ht0 ht]
      rw [Nat.add_zero] at h0
      rw [ucd_fullDecomp_hangul h0, hangulDecomp_LV hl hv, ucd_jamoT ht]
      rfl
  | none =>
    rw [hh] at h
    obtain ⟨m, hm, e1, e2, e3⟩ := tableCompose_sound a b _ _ _ _ h
    have := allBelow_spec comp_dec_ucd m hm
    simp only [beq_iff_eq] at this
    rw [e1, e2, e3] at this
    exact this

/-- whatever the reference expansion produces is not expanded further, for every `c` -/
theorem ucd_fullDecomp_stable {c d : Nat} (hd : d ∈ UCD.fullDecomp 4 c) : UCD.fullDecomp 4 d = [d] := by
  by_cases hc : c < 0x110000
  · by_cases hs : isS c = true
    · have hh : UCD.isHangulS c = true := by rw [← isS_iff]; exact hs
      rw [ucd_fullDecomp_hangul hh] at hd
      unfold UCD.isHangulS UCD.SBase UCD.SCount at hh
      simp only [Bool.and_eq_true, decide_eq_true_eq] at hh
      unfold UCD.hangulDecomp UCD.SBase UCD.LBase UCD.VBase UCD.TBase UCD.NCount UCD.TCount at hd
      dsimp only at hd
      have sL := ucd_jamoL (l := (c - 0xAC00) / 588) (by omega)
      have sV := ucd_jamoV (v := (c - 0xAC00) % 588 / 28) (by omega)
      have sT := ucd_jamoT (t := (c - 0xAC00) % 28) (by omega)
      split at hd
      · simp only [List.mem_cons, List.mem_nil_iff, or_false] at hd
        rcases hd with h | h
        · rw [h]; exact sL
        · rw [h]; exact sV
      · simp only [List.mem_cons, List.mem_nil_iff, or_false] at hd
        rcases hd with h | h | h
        · rw [h]; exact sL
        · rw [h]; exact sV
        · rw [h]; exact sT
    · simp only [Bool.not_eq_true] at hs
      obtain ⟨h1, h2, _⟩ := fullDecomp_fixed hc hd hs
      unfold UCD.fullDecomp
      simp [h1, h2]
  · have hns : UCD.isHangulS c = false := by
      unfold UCD.isHangulS UCD.SBase UCD.SCount
      simp only [Bool.and_eq_false_iff, decide_eq_false_iff_not]
      omega
    have hdm : UCD.dm c = none := by unfold UCD.dm; simp [hc]
    have hcc : UCD.fullDecomp 4 c = [c] := by unfold UCD.fullDecomp; simp [hns, hdm]
    rw [hcc] at hd
    simp only [List.mem_singleton] at hd
    rw [hd]; exact hcc

/-- UCD 14.0's primary composites of starters are starters -/
theorem primaryComposite_class0 {a b c : Nat} (h : UCD.primaryComposite a b = some c) : UCD.ccc c = 0 :=
  (pcOf_class0 (ucd_to_pcOf h)).2

end SafeC.Norm

namespace SafeC.UAX15
open SafeC.Norm

/-- on canonically ordered input D117 is the streaming pass `composePure` (reference data) -/
theorem nfc_eq_composePure (xs : List Nat) : nfc xs = composePure UCD.ccc UCD.primaryComposite (nfd xs) := by
  unfold nfc
  exact (composePure_eq_d117 (fun a b c h _ => primaryComposite_class0 h) (reorderPure_canonOrdered _ _)).symm

/-- **UAX #15: NFD (NFC x) = NFD x**, every list of cells, over UCD 14.0 -/
theorem nfd_nfc (xs : List Nat) : nfd (nfc xs) = nfd xs := by
  rw [nfc_eq_composePure]
  show reorderPure UCD.ccc ((composePure UCD.ccc UCD.primaryComposite (nfd xs)).flatMap (UCD.fullDecomp 4)) = nfd xs
  apply composePure_roundtrip (S := fun _ => True)
  · intro a b c _ _ h; exact ⟨trivial, primaryComposite_fullDecomp h⟩
  · intro d hd
    refine ⟨trivial, ?_⟩
    have hd' := reorderPure_mem.mp hd
    unfold UCD.decompose at hd'
    simp only [List.mem_flatMap] at hd'
    obtain ⟨c, _, hdc⟩ := hd'
    exact ucd_fullDecomp_stable hdc
  · exact reorderPure_canonOrdered _ _

/-- **UAX #15: NFC is idempotent**, every list of cells, over UCD 14.0 -/
theorem nfc_idem (xs : List Nat) : nfc (nfc xs) = nfc xs := by
  show d117 UCD.ccc UCD.primaryComposite (nfd (nfc xs)) = nfc xs
  rw [nfd_nfc]; rfl

end SafeC.UAX15

namespace SafeC.Norm
open SafeC.Gen

attribute [local irreducible] cell UniCanon.main UniCanon.planes UniCanon.rows UniCombin.main UniCombin.planes UniCombin.rows
  UniCanon.tbl1 UniCanon.tbl2 UniCanon.tbl3 UniCanon.tbl4 UniCompos.main UniCompos.planes UniCompos.rows UniCompos.pairs
  UniCompos.listOff UniCompos.listLen UniCompos.listCp UCD14.compP UCD14.cccIdx UCD14.cccPages UCD14.asgIdx UCD14.asgPages
  UCD14.dmIdx UCD14.dmPages UCD14.dmEnt

/-! ## the tree's tables -/

theorem isS_of_form {l v t : Nat} (hl : l < 19) (hv : v < 21) (ht : t < 28) : isS (0xAC00 + (l * 21 + v) * 28 + t) = true := by
  rw [isS_iff]; exact isHangulS_of_form hl hv ht

theorem decompose1_hangul {c : Nat} (h : isS c = true) : decompose1 c = UCD.hangulDecomp c := by
  unfold decompose1; simp [h, decompHangul_eq]

theorem tree_jamoL {l : Nat} (h : l < 19) : decompose1 (0x1100 + l) = [0x1100 + l] := by
  have := allBelow_spec jamoL_stable l (by rw [show UniCompos.HLCount = 19 by decide]; exact h)
  rw [k1] at this
  exact decompose1_stable this
theorem tree_jamoV {v : Nat} (h : v < 21) : decompose1 (0x1161 + v) = [0x1161 + v] := by
  have := allBelow_spec jamoV_stable v (by rw [k6]; exact h)
  rw [k3] at this
  exact decompose1_stable this
theorem tree_jamoT {t : Nat} (h : t < 28) : decompose1 (0x11A7 + t) = [0x11A7 + t] := by
  have := allBelow_spec jamoT_stable t (by rw [k7]; exact h)
  rw [k8] at this
  exact decompose1_stable this

/-- **the tree's decomposition tables against D114**: the stored full decomposition of the primary composite of `<a, b>` is the
stored decomposition of `a` followed by that of `b` (all 941 table composites kernel-checked, all 11 172 Hangul syllables by
arithmetic) -/
theorem primaryComposite_decompose1 {a b c : Nat} (h : UCD.primaryComposite a b = some c) :
    decompose1 c = decompose1 a ++ decompose1 b := by
  unfold UCD.primaryComposite at h
  cases hh : UCD.hangulCompose a b with
  | some s =>
    rw [hh] at h
    have hs : s = c := Option.some.inj h
    subst hs
    rcases hangulCompose_cases hh with ⟨l, v, hl, hv, rfl, rfl, rfl⟩ | ⟨l, v, t, hl, hv, ht0, ht, rfl, rfl, rfl⟩
    · have := isS_of_form hl hv (t := 0) (by omega)
      rw [Nat.add_zero] at this
      rw [decompose1_hangul this, hangulDecomp_LV hl hv, tree_jamoL hl, tree_jamoV hv]
      rfl
    · have h1 := isS_of_form hl hv ht
      have h0 := isS_of_form hl hv (t := 0) (by omega)
      rw [Nat.add_zero] at h0
      rw [decompose1_hangul h1, hangulDecomp_LVT hl hv ht0 ht, decompose1_hangul h0, hangulDecomp_LV hl hv, tree_jamoT ht]
      rfl
  | none =>
    rw [hh] at h
    obtain ⟨m, hm, e1, e2, e3⟩ := tableCompose_sound a b _ _ _ _ h
    have := allBelow_spec comp_dec_tree m hm
    simp only [beq_iff_eq] at this
    rw [e1, e2, e3] at this
    exact this

/-- the decomposition pass keeps code points code points (no condition on 0) -/
theorem decompose1_le' {c d : Nat} (hc : c ≤ UniCompos.unicodeMax) (hd : d ∈ decompose1 c) : d ≤ UniCompos.unicodeMax := by
  unfold decompose1 at hd
  by_cases hs : isS c = true
  · simp only [hs, ↓reduceIte] at hd
    exact (stable_spec (decompHangul_stable hs d hd)).2.2.1
  · simp only [hs, Bool.false_eq_true, ↓reduceIte] at hd
    cases hcn : decompCanon c with
    | none => rw [hcn] at hd; simp only [List.mem_singleton] at hd; subst hd; exact hc
    | some l =>
      rw [hcn] at hd
      cases l with
      | nil => simp only [List.mem_singleton] at hd; subst hd; exact hc
      | cons x l => exact (stable_spec (decompCanon_stable hcn d hd)).2.2.1

theorem nfdPure_le {xs : List Nat} (h : ∀ c ∈ xs, c ≤ UniCompos.unicodeMax) : ∀ d ∈ nfdPure xs, d ≤ UniCompos.unicodeMax := by
  intro d hd
  unfold nfdPure at hd
  have hd' := reorderPure_mem.mp hd
  simp only [List.mem_flatMap] at hd'
  obtain ⟨c, hc, hdc⟩ := hd'
  exact decompose1_le' (h c hc) hdc

theorem nfdPure_fixed {xs : List Nat} : ∀ d ∈ nfdPure xs, decompose1 d = [d] := by
  intro d hd
  unfold nfdPure at hd
  exact flatMap_decompose1_fixed d (reorderPure_mem.mp hd)

/-- the pair map of the repaired code on code points: composite a code point, decomposition = concatenation -/
theorem pcOf_fixed_dec {a b c : Nat} (ha : a ≤ UniCompos.unicodeMax) (hb : b ≤ UniCompos.unicodeMax)
    (h : pcOf allFixed a b = some c) : c ≤ UniCompos.unicodeMax ∧ decompose1 c = decompose1 a ++ decompose1 b := by
  obtain ⟨h1, h2⟩ := pcOf_to_ucd ha hb h
  have := assigned_lt h2
  exact ⟨by rw [unicodeMax_eq]; omega, primaryComposite_decompose1 h1⟩

theorem nfcPure_eq_composePure (fx : Fixes) (xs : List Nat) : nfcPure fx xs = composePure kcc (pcOf fx) (nfdPure xs) := by
  unfold nfcPure
  exact (composePure_eq_d117 (fun a b c h _ => (pcOf_class0 h).1)
    (by unfold nfdPure; exact reorderPure_canonOrdered _ _)).symm

/-- **NFD (NFC x) = NFD x** for the repaired model, every string of code points (assigned or not, any length) -/
theorem nfdPure_nfcPure (xs : List Nat) (h : ∀ c ∈ xs, c ≤ UniCompos.unicodeMax) :
    nfdPure (nfcPure allFixed xs) = nfdPure xs := by
  rw [nfcPure_eq_composePure]
  show reorderPure kcc ((composePure kcc (pcOf allFixed) (nfdPure xs)).flatMap decompose1) = nfdPure xs
  apply composePure_roundtrip (S := fun c => c ≤ UniCompos.unicodeMax)
  · intro a b c ha hb hp; exact pcOf_fixed_dec ha hb hp
  · intro d hd; exact ⟨nfdPure_le h d hd, nfdPure_fixed d hd⟩
  · unfold nfdPure; exact reorderPure_canonOrdered _ _

/-- **NFC is idempotent** for the repaired model, every string of code points (assigned or not, any length) -/
theorem nfcPure_idem (xs : List Nat) (h : ∀ c ∈ xs, c ≤ UniCompos.unicodeMax) :
    nfcPure allFixed (nfcPure allFixed xs) = nfcPure allFixed xs := by
  show d117 kcc (pcOf allFixed) (nfdPure (nfcPure allFixed xs)) = nfcPure allFixed xs
  rw [nfdPure_nfcPure xs h]; rfl

/-- the cells of the NFC of a string of non-zero code points are non-zero code points -/
theorem nfcPure_le (xs : List Nat) (h : ∀ c ∈ xs, c ≤ UniCompos.unicodeMax ∧ c ≠ 0) :
    ∀ d ∈ nfcPure allFixed xs, d ≤ UniCompos.unicodeMax ∧ d ≠ 0 := by
  unfold nfcPure
  apply d117_mem_closed (S := fun c => c ≤ UniCompos.unicodeMax ∧ c ≠ 0)
  · intro d hd
    unfold nfdPure at hd
    exact flatMap_decompose1_le h d (reorderPure_mem.mp hd)
  · intro a b c ha hb hp
    refine ⟨(pcOf_fixed_dec ha.1 hb.1 hp).1, ?_⟩
    unfold pcOf at hp
    dsimp only at hp
    split at hp
    · rename_i hc
      have : compositeCp allFixed a b = c := by injection hp
      rw [← this]; exact hc.1
    · cases hp

/-- the pair map, hence NFC, depends on the `compCast` switch only (`rangeChk` is a test in the loops, `foldRoom` concerns wcsfc_s) -/
theorem pcOf_compCast {fx : Fixes} (h : fx.compCast = true) : pcOf fx = pcOf allFixed := by
  funext a b
  have h2 : allFixed.compCast = true := rfl
  simp only [pcOf, compositeCp, h, h2]

theorem nfcPure_compCast {fx : Fixes} (h : fx.compCast = true) (xs : List Nat) : nfcPure fx xs = nfcPure allFixed xs := by
  unfold nfcPure; rw [pcOf_compCast h]

/-- two successful NFC calls: the second changes nothing (any model with the full-width comparison of `_composite_cp`) -/
theorem wcsnormS_nfc_twice (fx : Fixes) (hfx : fx.compCast = true) (dmax dmax' : Nat) (src : List Nat) (h0 : ∀ c ∈ src, c ≠ 0)
    (h1 : (wcsnormS fx 1 dmax src).ret = 0) (h2 : (wcsnormS fx 1 dmax' (wcsnormS fx 1 dmax src).out).ret = 0) :
    (wcsnormS fx 1 dmax' (wcsnormS fx 1 dmax src).out).out = (wcsnormS fx 1 dmax src).out := by
  obtain ⟨e1, _, _, e4⟩ := wcsnormS_nfc_spec fx dmax src h0 h1
  rw [e1] at h2 ⊢
  rw [nfcPure_compCast hfx] at h2 ⊢
  have hne := nfcPure_le src (fun c hc => ⟨e4 c hc, h0 c hc⟩)
  obtain ⟨f1, _, _, _⟩ := wcsnormS_nfc_spec fx dmax' (nfcPure allFixed src) (fun c hc => (hne c hc).2) h2
  rw [f1, nfcPure_compCast hfx]
  exact nfcPure_idem src e4

#print axioms SafeC.UAX15.nfc_idem
#print axioms nfcPure_idem
#print axioms wcsnormS_nfc_twice

end SafeC.Norm

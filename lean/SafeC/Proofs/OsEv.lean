import SafeC.Props.C05Time
import SafeC.Proofs.ExtOs
/-!
# helpers for C05 of `getenv_s` / `strerror_s`

* the inner `strcpy_s` with the object size handed on (`fixInnerBos`): its event discipline needs no `SmallBos` when
  `dmax` is inside the object — `handle_str_bos_overflow` is not reached;
* `getenvRest`: the part of `getenv_s` behind the dest checks (the `let rest` of the model, which occurs twice);
* what the exec-level theorems of `Proofs/ExtOs.lean` say about the events of every exit on valid operands.
-/
namespace SafeC
open Gen SafeC.Props.C05Ev SafeC.Props.C05Mem SafeC.Props.C05Query

theorem chkDmaxClear_ev_in (cfg : Cfg) (dest dmax : Nat) (db : Bos) {k : Prog Nat} (hb : ∀ b, db = some b → dmax ≤ b)
    (hk : EV k PC) : EV (chkDmaxClear cfg dest dmax db RSIZE_MAX_STR k) PC := by
  unfold chkDmaxClear chkDmaxClearG
  split
  · split
    · exact EV.bind (EV.handlerS _) (fun _ es he => by subst he; exact EV.pure _ (Or.inr ⟨ne_ESLEMAX, by simp⟩))
    · exact hk
  · rename_i bos
    have : ¬ dmax > bos := by have := hb bos rfl; omega
    rw [if_neg this]
    exact hk

/-- strcpy_s with `dmax` inside the object when its size is known (any size): EOK and silent, or one report of the code -/
theorem strcpy_s_ev_in (cfg : Cfg) (dest dmax src : Nat) (db : Bos) (hb : ∀ b, db = some b → dmax ≤ b) :
    EV (strcpy_s cfg dest dmax src db) PC := by
  unfold strcpy_s strcpyG
  split
  · exact failS_once _ ne_ESNULLP
  split
  · exact failS_once _ ne_ESZEROL
  refine chkDmaxClear_ev_in _ _ _ _ hb ?_
  split
  · exact handleError_ret_once _ _ _ _ ne_ESNULLP
  split
  · exact eok_once
  split
  · exact copyLoop_ev ..
  · exact copyLoop_ev ..

theorem q_strerrorlen_s (errnum msg : Nat) : Quiet (strerrorlen_s errnum msg) := by
  unfold strerrorlen_s
  split
  · exact Quiet.pure _
  · exact q_strlenP _ _ _

/-- the `rest` of `getenv_s` -/
def getenvRest (cfg : Cfg) (hasLen : Bool) (dest dmax name : Nat) (destbos : Bos) (value : Nat) : Prog (Nat × Option Nat) :=
  let L (v : Nat) : Option Nat := if hasLen then some v else none
  if name = 0 then do
    if dest ≠ 0 ∧ dmax ≠ 0 then handleError cfg dest dmax ESNULLP else handlerS ESNULLP
    pure (ESNULLP, L 0)
  else do
    let _ ← strlenP scanFuel name 0
    if value = 0 then do
      if dest ≠ 0 ∧ dmax ≠ 0 then (if cfg.slack then memsetP 0 dmax dest else store dest 0) else pure ()
      pure (NEG1, L 0)
    else do
      let len1 ← strlenP scanFuel value 0
      if dmax ≠ 0 ∧ len1 ≥ dmax then do
        handleError cfg dest dmax ESNOSPC
        pure (ESNOSPC, L 0)
      else do
        if dest ≠ 0 ∧ dmax ≠ 0 then do let _ ← strcpy_s cfg dest dmax value (if cfg.fixInnerBos then destbos else none); pure () else pure ()
        pure (EOK, L len1)

theorem getenv_s_eq (cfg : Cfg) (hasLen : Bool) (dest dmax name : Nat) (destbos : Bos) (value : Nat) :
    getenv_s cfg hasLen dest dmax name destbos value =
      (if dest ≠ 0 then
        if (match destbos with
            | none => decide (dmax > RSIZE_MAX_STR)
            | some b => decide (dmax > b)) = true
        then do handlerS ESLEMAX; pure (ESLEMAX, if hasLen then some 0 else none)
        else getenvRest cfg hasLen dest dmax name destbos value
      else if dmax ≠ 0 then do handlerS ESNULLP; pure (ESNULLP, if hasLen then some 0 else none)
      else getenvRest cfg hasLen dest dmax name destbos value) := rfl

/-- **getenv_s on valid operands: the events of every exit** (from `getenv_s_nullname`, `_unset`, `_ok`, `_nospc`) -/
theorem getenv_s_valid_events (cfg : Cfg) (hasLen : Bool) (dest dmax name : Nat) (destbos : Bos) (value k n : Nat) (st : St)
    (hd : dest ≠ 0) (hpos : 0 < dmax) (hle : dmax ≤ RSIZE_MAX_STR) (hbos : ∀ b, destbos = some b → dmax ≤ b)
    (hrw : RW st dest dmax) (hname : name ≠ 0 → SrcStr st name k)
    (hval : value ≠ 0 → SrcStr st value n ∧ Disjoint dest dmax value n) :
    ∃ r st', exec (getenv_s cfg hasLen dest dmax name destbos value) st = .ok (r, st') ∧
      ((st'.events = st.events ∧ (r.1 = EOK ∨ r.1 = NEG1)) ∨
       (r.1 ≠ EOK ∧ r.1 ∈ [ESNULLP, ESLEMAX, ESNOSPC] ∧ st'.events = st.events ++ [.handler .str r.1])) := by
  by_cases h0 : name = 0
  · subst h0
    obtain ⟨st', he, _, _, _, _, _, hev, _⟩ := getenv_s_nullname cfg hasLen dest dmax destbos value st hd hpos hle hbos hrw
    exact ⟨_, st', he, Or.inr ⟨show ESNULLP ≠ EOK by decide, show ESNULLP ∈ [ESNULLP, ESLEMAX, ESNOSPC] by decide, hev⟩⟩
  · by_cases hv : value = 0
    · subst hv
      obtain ⟨st', he, _, _, _, _, _, hev, _⟩ :=
        getenv_s_unset cfg hasLen dest dmax name destbos k st hd hpos hle hbos hrw h0 (hname h0)
      exact ⟨_, st', he, Or.inl ⟨hev, Or.inr rfl⟩⟩
    · obtain ⟨hsrc, hdisj⟩ := hval hv
      by_cases hn : n < dmax
      · obtain ⟨st', he, _, _, _, _, _, hev, _⟩ :=
          getenv_s_ok cfg hasLen dest dmax name destbos value k n st hd hpos hle hbos hrw h0 (hname h0) hv hsrc hn hdisj
        exact ⟨_, st', he, Or.inl ⟨hev, Or.inl rfl⟩⟩
      · obtain ⟨st', he, _, _, _, _, _, hev, _⟩ :=
          getenv_s_nospc cfg hasLen dest dmax name destbos value k n st hd hpos hle hbos hrw h0 (hname h0) hv hsrc (by omega)
        exact ⟨_, st', he, Or.inr ⟨show ESNOSPC ≠ EOK by decide, show ESNOSPC ∈ [ESNULLP, ESLEMAX, ESNOSPC] by decide, hev⟩⟩

/-- **strerror_s on valid operands: the events of every exit** (from `strerror_s_all`) -/
theorem strerror_s_valid_events (cfg : Cfg) (dest dmax errnum : Nat) (destbos : Bos) (msg dots n len : Nat) (st : St)
    (hd : dest ≠ 0) (hpos : 0 < dmax) (hle : dmax ≤ RSIZE_MAX_STR) (hbos : ∀ b, destbos = some b → dmax ≤ b)
    (hrw : RW st dest dmax) (hlen : exec (strerrorlen_s errnum msg) st = .ok (len, st))
    (hagree : len = n ∨ (dmax ≤ len ∧ dmax ≤ n))
    (hm : msg ≠ 0) (hsrc : SrcStr st msg n) (hdisj : Disjoint dest dmax msg n)
    (hdots : dots ≠ 0) (hds : SrcStr st dots 3) (hdd : Disjoint dest dmax dots 3)
    (h46 : st.data dots = 46 ∧ st.data (dots+1) = 46 ∧ st.data (dots+2) = 46) :
    ∃ r st', exec (strerror_s cfg dest dmax errnum destbos msg dots) st = .ok (r, st') ∧
      ((st'.events = st.events ∧ r = EOK) ∨ (r = ESLEMIN ∧ st'.events = st.events ++ [.handler .str ESLEMIN])) := by
  obtain ⟨code, st', he, _, _, _, _, _, hfit, htr, hmin⟩ :=
    strerror_s_all cfg dest dmax errnum destbos msg dots n len st hd hpos hle hbos hrw hlen hagree hm hsrc hdisj hdots hds hdd h46
  refine ⟨code, st', he, ?_⟩
  by_cases hn : n < dmax
  · exact Or.inl ⟨(hfit hn).2.1, (hfit hn).1⟩
  · by_cases h3 : 3 < dmax
    · exact Or.inl ⟨(htr (by omega) h3).2.1, (htr (by omega) h3).1⟩
    · exact Or.inr ⟨(hmin (by omega) (by omega)).1, (hmin (by omega) (by omega)).2.1⟩

end SafeC

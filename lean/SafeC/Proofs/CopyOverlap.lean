import SafeC.Proofs.Strcpy
/-!
# The overlap bumper fires: `strcpy_s` / `wcscpy_s` detect every real overlap
-/
namespace SafeC
open Gen

/-- the loop reaches the bumper after exactly `g` iterations when the first `g` source cells are
non-NUL *in the initial state*: reads in those iterations are at cells the loop has not written
(forward: writes `d+i < B ≤ s+j`; backward: reads `s+i < B ≤ d+j`). -/
theorem copyLoop_overlap (cfg : Cfg) (onDest : Bool) (B oD oM : Nat) (hoM : 0 < oM)
    (k d s g slen : Nat) (st : St)
    (hall : ∀ a, st.mapped a = true ∧ st.rd a = true)
    (hrw : RW st oD oM) (hinv : oD ≤ d ∧ d + k = oD + oM)
    (hgap : (if onDest then d else s) + g = B)
    (hsep : if onDest then B ≤ s else B ≤ d)
    (hgk : g < k)
    (hnz : ∀ j, j < g → st.data (s+j) ≠ 0) :
    ∃ st', exec (copyLoop cfg onDest false B oD oM k d s slen) st = .ok (ESOVRLP, st') ∧
      CopyPost cfg oD oM st st' ESOVRLP := by
  induction g generalizing k d s slen st with
  | zero =>
    obtain ⟨k, rfl⟩ : ∃ k', k = k' + 1 := ⟨k - 1, by omega⟩
    unfold copyLoop
    have hb : (if onDest then d else s) = B := by simpa using hgap
    simp only [hb, if_true]
    exact copy_fail_post cfg oD oM ESOVRLP st hrw hoM (Or.inl rfl)
  | succ g ih =>
    obtain ⟨k, rfl⟩ : ∃ k', k = k' + 1 := ⟨k - 1, by omega⟩
    unfold copyLoop
    have hb : (if onDest then d else s) ≠ B := by
      cases onDest <;> simp at hgap ⊢ <;> omega
    simp only [hb, if_false]
    have hsub : RW st d (k+1) := by
      intro i hi
      have := hrw (d - oD + i) (by omega)
      have e : oD + (d - oD + i) = d + i := by omega
      rwa [e] at this
    have hdm : st.mapped d = true ∧ st.wr d = true ∧ st.rd d = true := hsub.head
    have hsl : ¬ (false = true ∧ slen = 0) := by simp
    simp only [hsl, if_false]
    have hs_m := hall s
    simp only [exec_bind, exec_load_ok _ _ hs_m.1 hs_m.2, exec_store_ok _ _ _ hdm.1 hdm.2.1]
    have hc : st.data s ≠ 0 := by simpa using hnz 0 (by omega)
    simp only [hc, if_false]
    obtain ⟨st', he, hp⟩ := ih k (d+1) (s+1) (slen-1) (st.upd d (st.data s))
      (by intro a; exact hall a) (RW.of_sameMeta (SameMeta.upd _ _ _) hrw) (by omega)
      (by cases onDest <;> simp at hgap ⊢ <;> omega)
      (by cases onDest <;> simp at hsep hgap ⊢ <;> omega)
      (by omega)
      (by
        intro j hj
        have hne : s + 1 + j ≠ d := by
          cases onDest <;> simp at hsep hgap <;> omega
        rw [St.upd_data_ne _ _ _ _ hne]
        have e : s + 1 + j = s + (j + 1) := by omega
        rw [e]; exact hnz (j+1) (by omega))
    refine ⟨st', he, ?_⟩
    refine ⟨hp.mapped, hp.rd, hp.wr, hp.strays, ?_, hp.code_cases, hp.ok_events, hp.ok_term,
      hp.fail_events, hp.fail_first, hp.fail_clear⟩
    intro a ha
    rw [hp.frame a ha]
    exact St.upd_data_ne _ _ _ _ (by omega)

/-- **strcpy_s / wcscpy_s detect every real overlap.** `n` = length of the source string in the
initial state; `g` = distance between the two pointers. If the characters strcpy would write
(`dest[0..n]`) and the characters it would read (`src[0..n]`) intersect — i.e. `g ≤ n` — and the
meeting point is inside dest (`g < dmax`), the call returns ESOVRLP, invokes the handler exactly
once with ESOVRLP, leaves `dest[0] = 0`, with null-slack all of dest zero, and changes nothing
outside `dest[0..dmax)`. -/
theorem strcpyG_overlap (max : Nat) (cfg : Cfg) (dest dmax src n : Nat) (st : St)
    (hall : ∀ a, st.mapped a = true ∧ st.rd a = true)
    (hd : dest ≠ 0) (hs : src ≠ 0) (hne : dest ≠ src) (hpos : 0 < dmax) (hle : dmax ≤ max)
    (hrw : RW st dest dmax)
    (hnz : ∀ j, j < n → st.data (src+j) ≠ 0)
    (hg : (if dest < src then src - dest else dest - src) ≤ n)
    (hgd : (if dest < src then src - dest else dest - src) < dmax) :
    ∃ st', exec (strcpyG max cfg dest dmax src none) st = .ok (ESOVRLP, st') ∧
      st'.strays = st.strays ∧
      st'.events = st.events ++ [.handler .str ESOVRLP] ∧
      st'.data dest = 0 ∧
      (cfg.slack = true → ∀ i, i < dmax → st'.data (dest + i) = 0) ∧
      (∀ a, ¬ (dest ≤ a ∧ a < dest + dmax) → st'.data a = st.data a) := by
  unfold strcpyG
  have hz : dmax ≠ 0 := by omega
  have hmx : ¬ dmax > max := by omega
  simp only [hd, hz, hs, if_false, chkDmaxClear, chkDmaxClearG, hmx]
  rw [if_neg hne]
  have fin : ∀ (p : Prog Nat),
      (∃ st', exec p st = .ok (ESOVRLP, st') ∧ CopyPost cfg dest dmax st st' ESOVRLP) →
      ∃ st', exec p st = .ok (ESOVRLP, st') ∧
        st'.strays = st.strays ∧
        st'.events = st.events ++ [.handler .str ESOVRLP] ∧
        st'.data dest = 0 ∧
        (cfg.slack = true → ∀ i, i < dmax → st'.data (dest + i) = 0) ∧
        (∀ a, ¬ (dest ≤ a ∧ a < dest + dmax) → st'.data a = st.data a) := by
    intro p ⟨st', he, hp⟩
    exact ⟨st', he, hp.strays, hp.fail_events ESOVRLP_ne_EOK, hp.fail_first ESOVRLP_ne_EOK,
      hp.fail_clear ESOVRLP_ne_EOK, hp.frame⟩
  by_cases hlt : dest < src
  · simp only [hlt, if_true] at hg hgd ⊢
    exact fin _ (copyLoop_overlap cfg true src dest dmax hpos dmax dest src (src - dest) 0 st
      hall hrw ⟨Nat.le_refl _, rfl⟩ (by simp; omega) (by simp) hgd
      (fun j hj => hnz j (by omega)))
  · simp only [hlt, if_false] at hg hgd ⊢
    exact fin _ (copyLoop_overlap cfg false dest dest dmax hpos dmax dest src (dest - src) 0 st
      hall hrw ⟨Nat.le_refl _, rfl⟩ (by simp; omega) (by simp) hgd
      (fun j hj => hnz j (by omega)))

end SafeC

import SafeC.Lemmas
import SafeC.Models.Query
import SafeC.Models.Query2
/-!
# Helper lemmas for the read-only query functions (C10)

* `NoStore p`: the program contains no `store` node; `exec_noStore`: such a run leaves the memory
  contents exactly as they were, whatever it read and whatever handler it invoked.
* pure list/function specs of the standard counterparts over the memory contents
  (`scanLen`, `firstIdx`, `lastIdx`, `firstDiff`, `spanLen`) and the loop lemmas relating the C loops to them.

No property statements here (they are in `SafeC/Props/C10.lean`).
-/
namespace SafeC
open Gen

/-! ## programs without stores -/

inductive NoStore : Prog α → Prop where
  | ret (x : α) : NoStore (.ret x)
  | load (a : Nat) (k : Nat → Prog α) : (∀ v, NoStore (k v)) → NoStore (.load a k)
  | emit (e : Event) (k : Prog α) : NoStore k → NoStore (.emit e k)

theorem NoStore.pure (x : α) : NoStore (pure x : Prog α) := .ret x

theorem NoStore.bind {p : Prog α} {f : α → Prog β} (hp : NoStore p) (hf : ∀ x, NoStore (f x)) :
    NoStore (p >>= f) := by
  show NoStore (p.bind f)
  induction hp with
  | ret x => exact hf x
  | load a k _ ih => exact .load a _ (fun v => ih v)
  | emit e k _ ih => exact .emit e _ ih

theorem NoStore.loadP (a : Nat) : NoStore (SafeC.load a) := .load a _ (fun v => .ret v)
theorem NoStore.emitP (e : Event) : NoStore (SafeC.emit e) := .emit e _ (.ret ())
theorem NoStore.handlerS (c : Nat) : NoStore (SafeC.handlerS c) := .emitP _
theorem NoStore.handlerM (c : Nat) : NoStore (SafeC.handlerM c) := .emitP _

/-- **a program without stores never changes the memory contents** (nor the permissions) -/
theorem exec_noStore {p : Prog α} (hp : NoStore p) (s : St) {r : α} {s' : St}
    (h : exec p s = .ok (r, s')) : s'.data = s.data := by
  induction hp generalizing s with
  | ret x => simp [exec] at h; obtain ⟨_, rfl⟩ := h; rfl
  | load a k _ ih =>
    simp only [exec] at h
    split at h
    · have := ih _ _ h
      rw [this]; simp only [St.noteRd]; split <;> rfl
    · cases h
  | emit e k _ ih =>
    simp only [exec] at h
    have := ih _ h
    simpa using this

/-! ## everything mapped and readable: loads are pure -/

/-- all of memory is mapped and declared readable (the C10 setting: the answer, not the access
pattern, is the subject; the access pattern is C02) -/
def AllRd (st : St) : Prop := ∀ a, st.mapped a = true ∧ st.rd a = true

theorem exec_load_all {st : St} (h : AllRd st) (a : Nat) : exec (load a) st = .ok (st.data a, st) :=
  exec_load_ok a st (h a).1 (h a).2

/-! ## specs over the memory contents -/

/-- number of non-zero cells before the first zero among the `n` cells at `p` (`n` if none):
`strnlen(p, n)` / `wcsnlen(p, n)` -/
def scanLen (d : Nat → Nat) (p : Nat) : Nat → Nat
  | 0 => 0
  | n+1 => if d p = 0 then 0 else 1 + scanLen d (p+1) n

theorem scanLen_le (d : Nat → Nat) (p n : Nat) : scanLen d p n ≤ n := by
  induction n generalizing p with
  | zero => simp [scanLen]
  | succ n ih => simp only [scanLen]; split; omega; have := ih (p+1); omega

theorem scanLen_nonzero (d : Nat → Nat) (p n i : Nat) (hi : i < scanLen d p n) : d (p+i) ≠ 0 := by
  induction n generalizing p i with
  | zero => simp [scanLen] at hi
  | succ n ih =>
    simp only [scanLen] at hi
    split at hi
    · omega
    · cases i with
      | zero => simpa
      | succ i =>
        have := ih (p+1) i (by omega)
        simpa [Nat.add_assoc, Nat.add_comm 1 i] using this

theorem scanLen_zero (d : Nat → Nat) (p n : Nat) (h : scanLen d p n < n) : d (p + scanLen d p n) = 0 := by
  induction n generalizing p with
  | zero => simp [scanLen] at h
  | succ n ih =>
    simp only [scanLen] at h ⊢
    split
    · simpa
    · rename_i hne
      simp only [hne, if_false] at h
      have := ih (p+1) (by omega)
      simpa [Nat.add_assoc, Nat.add_comm 1] using this

/-- index of the first cell equal to `c` among the `n` cells at `p` -/
def firstIdx (d : Nat → Nat) (c p : Nat) : Nat → Option Nat
  | 0 => none
  | n+1 => if d p = c then some 0 else (firstIdx d c (p+1) n).map (· + 1)

theorem firstIdx_some (d : Nat → Nat) (c p n i : Nat) (h : firstIdx d c p n = some i) :
    i < n ∧ d (p+i) = c ∧ ∀ j, j < i → d (p+j) ≠ c := by
  induction n generalizing p i with
  | zero => simp [firstIdx] at h
  | succ n ih =>
    simp only [firstIdx] at h
    split at h
    · cases h; exact ⟨by omega, by simpa, fun j hj => by omega⟩
    · rename_i hne
      cases hf : firstIdx d c (p+1) n with
      | none => simp [hf] at h
      | some k =>
        simp [hf] at h; subst h
        obtain ⟨h1, h2, h3⟩ := ih (p+1) k hf
        refine ⟨by omega, by simpa [Nat.add_assoc, Nat.add_comm 1 k] using h2, ?_⟩
        intro j hj
        cases j with
        | zero => simpa using hne
        | succ j => have := h3 j (by omega); simpa [Nat.add_assoc, Nat.add_comm 1 j] using this

theorem firstIdx_none (d : Nat → Nat) (c p n : Nat) (h : firstIdx d c p n = none) :
    ∀ j, j < n → d (p+j) ≠ c := by
  induction n generalizing p with
  | zero => intro j hj; omega
  | succ n ih =>
    simp only [firstIdx] at h
    split at h
    · cases h
    · rename_i hne
      have hf : firstIdx d c (p+1) n = none := by
        cases hf : firstIdx d c (p+1) n with
        | none => rfl
        | some k => simp [hf] at h
      intro j hj
      cases j with
      | zero => simpa using hne
      | succ j => have := ih (p+1) hf j (by omega); simpa [Nat.add_assoc, Nat.add_comm 1 j] using this

/-- index of the last cell equal to `c` among the `n` cells at `p` -/
def lastIdx (d : Nat → Nat) (c p : Nat) : Nat → Option Nat
  | 0 => none
  | n+1 => if d (p+n) = c then some n else lastIdx d c p n

theorem lastIdx_some (d : Nat → Nat) (c p n i : Nat) (h : lastIdx d c p n = some i) :
    i < n ∧ d (p+i) = c ∧ ∀ j, i < j → j < n → d (p+j) ≠ c := by
  induction n with
  | zero => simp [lastIdx] at h
  | succ n ih =>
    simp only [lastIdx] at h
    split at h
    · cases h; exact ⟨by omega, by assumption, fun j h1 h2 => by omega⟩
    · rename_i hne
      obtain ⟨h1, h2, h3⟩ := ih h
      refine ⟨by omega, h2, fun j hj1 hj2 => ?_⟩
      by_cases hjn : j = n
      · subst hjn; exact hne
      · exact h3 j hj1 (by omega)

theorem lastIdx_none (d : Nat → Nat) (c p n : Nat) (h : lastIdx d c p n = none) :
    ∀ j, j < n → d (p+j) ≠ c := by
  induction n with
  | zero => intro j hj; omega
  | succ n ih =>
    simp only [lastIdx] at h
    split at h
    · cases h
    · rename_i hne
      intro j hj
      by_cases hjn : j = n
      · subst hjn; exact hne
      · exact ih h j (by omega)

/-- index of the first position where the two `n`-cell regions differ -/
def firstDiff (d : Nat → Nat) (p q : Nat) : Nat → Option Nat
  | 0 => none
  | n+1 => if d p ≠ d q then some 0 else (firstDiff d (p+1) (q+1) n).map (· + 1)

theorem firstDiff_some (d : Nat → Nat) (p q n i : Nat) (h : firstDiff d p q n = some i) :
    i < n ∧ d (p+i) ≠ d (q+i) ∧ ∀ j, j < i → d (p+j) = d (q+j) := by
  induction n generalizing p q i with
  | zero => simp [firstDiff] at h
  | succ n ih =>
    simp only [firstDiff] at h
    split at h
    · cases h; exact ⟨by omega, by simpa, fun j hj => by omega⟩
    · rename_i heq
      have heq' : d p = d q := by simpa using heq
      cases hf : firstDiff d (p+1) (q+1) n with
      | none => simp [hf] at h
      | some k =>
        simp [hf] at h; subst h
        obtain ⟨h1, h2, h3⟩ := ih (p+1) (q+1) k hf
        refine ⟨by omega, by simpa [Nat.add_assoc, Nat.add_comm 1 k] using h2, ?_⟩
        intro j hj
        cases j with
        | zero => simpa using heq'
        | succ j => have := h3 j (by omega); simpa [Nat.add_assoc, Nat.add_comm 1 j] using this

theorem firstDiff_none (d : Nat → Nat) (p q n : Nat) (h : firstDiff d p q n = none) :
    ∀ j, j < n → d (p+j) = d (q+j) := by
  induction n generalizing p q with
  | zero => intro j hj; omega
  | succ n ih =>
    simp only [firstDiff] at h
    split at h
    · cases h
    · rename_i heq
      have heq' : d p = d q := by simpa using heq
      have hf : firstDiff d (p+1) (q+1) n = none := by
        cases hf : firstDiff d (p+1) (q+1) n with
        | none => rfl
        | some k => simp [hf] at h
      intro j hj
      cases j with
      | zero => simpa using heq'
      | succ j => have := ih (p+1) (q+1) hf j (by omega); simpa [Nat.add_assoc, Nat.add_comm 1 j] using this

/-! ## `strnlen_s`, `wcsnlen_s` -/

theorem strnlenLoop_none {st : St} (h : AllRd st) (smax str count : Nat) :
    exec (strnlenLoop smax str count none) st = .ok (count + scanLen st.data str smax, st) := by
  induction smax generalizing str count with
  | zero => simp [strnlenLoop, scanLen]
  | succ n ih =>
    simp only [strnlenLoop, exec_bind, exec_load_all h, scanLen]
    by_cases hc : st.data str = 0
    · simp [hc]
    · simp only [hc, if_false]; rw [ih]; congr 2; omega

theorem strnlenLoop_some {st : St} (h : AllRd st) (smax str count b : Nat) (hb : smax ≤ b) :
    exec (strnlenLoop smax str count (some b)) st = .ok (count + scanLen st.data str smax, st) := by
  induction smax generalizing str count b with
  | zero => simp [strnlenLoop, scanLen]
  | succ n ih =>
    simp only [strnlenLoop, exec_bind, exec_load_all h, scanLen]
    by_cases hc : st.data str = 0
    · simp [hc]
    · simp only [hc, if_false]
      by_cases hb1 : b - 1 = 0
      · -- b = 1, so n = 0
        have hn : n = 0 := by omega
        subst hn
        simp [hb1, scanLen]
      · simp only [hb1, if_false]; rw [ih _ _ _ (by omega)]; congr 2; omega

theorem wcsnlenLoop_eq {st : St} (h : AllRd st) (smax str count : Nat) :
    exec (wcsnlenLoop smax str count) st = .ok (count + scanLen st.data str smax, st) := by
  induction smax generalizing str count with
  | zero => simp [wcsnlenLoop, scanLen]
  | succ n ih =>
    simp only [wcsnlenLoop, exec_bind, exec_load_all h, scanLen]
    by_cases hc : st.data str = 0
    · simp [hc]
    · simp only [hc, if_false]; rw [ih]; congr 2; omega

/-! ## `memchr`, `memrchr` -/

theorem memchrP_eq {st : St} (h : AllRd st) (c n s : Nat) :
    exec (memchrP c n s) st = .ok ((match firstIdx st.data c s n with | some i => s + i | none => 0), st) := by
  induction n generalizing s with
  | zero => simp [memchrP, firstIdx]
  | succ n ih =>
    simp only [memchrP, exec_bind, exec_load_all h, firstIdx]
    by_cases hc : st.data s = c
    · simp [hc]
    · simp only [hc, if_false]; rw [ih]
      cases firstIdx st.data c (s+1) n <;> simp <;> omega

theorem memrchrP_eq {st : St} (h : AllRd st) (c s n : Nat) :
    exec (memrchrP c s n) st = .ok ((match lastIdx st.data c s n with | some i => s + i | none => 0), st) := by
  induction n with
  | zero => simp [memrchrP, lastIdx]
  | succ n ih =>
    simp only [memrchrP, exec_bind, exec_load_all h, lastIdx]
    by_cases hc : st.data (s+n) = c
    · simp [hc]
    · simp only [hc, if_false]; rw [ih]

/-! ## `memcmp` loops -/

theorem memcmpLoopQ_eq {st : St} (h : AllRd st) (f : Nat → Nat → Int) (dmax slen dp sp : Nat) (hle : slen ≤ dmax) :
    exec (memcmpLoopQ f dmax slen dp sp) st =
      .ok ((match firstDiff st.data dp sp slen with
            | some i => f (st.data (dp+i)) (st.data (sp+i)) | none => 0), st) := by
  induction slen generalizing dmax dp sp with
  | zero => cases dmax <;> simp [memcmpLoopQ, firstDiff]
  | succ n ih =>
    cases dmax with
    | zero => omega
    | succ m =>
      simp only [memcmpLoopQ, exec_bind, exec_load_all h, firstDiff]
      by_cases hc : st.data dp = st.data sp
      · simp only [hc, ne_eq, not_true_eq_false, if_false]
        rw [ih m (dp+1) (sp+1) (by omega)]
        cases firstDiff st.data (dp+1) (sp+1) n <;> simp [Nat.add_assoc, Nat.add_comm 1]
      · simp [hc]

theorem wmemcmpLoop_eq {st : St} (h : AllRd st) (dlen slen dp sp : Nat) (hle : slen ≤ dlen) :
    exec (wmemcmpLoop dlen slen dp sp) st =
      .ok ((match firstDiff st.data dp sp slen with
            | some i => (if toS32 (st.data (dp+i)) < toS32 (st.data (sp+i)) then -1 else 1) | none => 0), st) := by
  induction slen generalizing dlen dp sp with
  | zero => cases dlen <;> simp [wmemcmpLoop, firstDiff]
  | succ n ih =>
    cases dlen with
    | zero => omega
    | succ m =>
      simp only [wmemcmpLoop, Nat.succ_ne_zero, if_false, exec_bind, exec_load_all h, firstDiff, Nat.add_sub_cancel]
      by_cases hc : st.data dp = st.data sp
      · simp only [hc, ne_eq, not_true_eq_false, if_false]
        rw [ih m (dp+1) (sp+1) (by omega)]
        cases firstDiff st.data (dp+1) (sp+1) n <;> simp [Nat.add_assoc, Nat.add_comm 1]
      · simp [hc]

end SafeC

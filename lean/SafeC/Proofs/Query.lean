import SafeC.Lemmas
import SafeC.Models.Query
import SafeC.Models.Query2
/-!
# Helper lemmas for the read-only query functions (C10)

* `NoStore p`: the program contains no `store` node; `exec_noStore`: such a run leaves the memory
  contents exactly as they were, whatever it read and whatever handler it invoked.
* pure list/function specs of the standard counterparts over the memory contents
  (`scanLen`, `firstIdx`, `lastIdx`, `firstDiff`, `spanLen`) and the loop lemmas relating the C loops to them.

No property statements here (they are in `SafeC/Props/C10.lean`).
-/
namespace SafeC
open Gen

/-! ## programs without stores -/

inductive NoStore : Prog α → Prop where
  | ret (x : α) : NoStore (.ret x)
  | load (a : Nat) (k : Nat → Prog α) : (∀ v, NoStore (k v)) → NoStore (.load a k)
  | emit (e : Event) (k : Prog α) : NoStore k → NoStore (.emit e k)

theorem NoStore.pure (x : α) : NoStore (pure x : Prog α) := .ret x

theorem NoStore.bind {p : Prog α} {f : α → Prog β} (hp : NoStore p) (hf : ∀ x, NoStore (f x)) :
    NoStore (p >>= f) := by
  show NoStore (p.bind f)
  induction hp with
  | ret x => exact hf x
  | load a k _ ih => exact .load a _ (fun v => ih v)
  | emit e k _ ih => exact .emit e _ ih

theorem NoStore.loadP (a : Nat) : NoStore (SafeC.load a) := .load a _ (fun v => .ret v)
theorem NoStore.emitP (e : Event) : NoStore (SafeC.emit e) := .emit e _ (.ret ())
theorem NoStore.handlerS (c : Nat) : NoStore (SafeC.handlerS c) := .emitP _
theorem NoStore.handlerM (c : Nat) : NoStore (SafeC.handlerM c) := .emitP _

/-- **a program without stores never changes the memory contents** (nor the permissions) -/
theorem exec_noStore {p : Prog α} (hp : NoStore p) (s : St) {r : α} {s' : St}
    (h : exec p s = .ok (r, s')) : s'.data = s.data := by
  induction hp generalizing s with
  | ret x => simp [exec] at h; obtain ⟨_, rfl⟩ := h; rfl
  | load a k _ ih =>
    simp only [exec] at h
    split at h
    · have := ih _ _ h
      rw [this]; simp only [St.noteRd]; split <;> rfl
    · cases h
  | emit e k _ ih =>
    simp only [exec] at h
    have := ih _ h
    simpa using this

/-! ## everything mapped and readable: loads are pure -/

/-- all of memory is mapped and declared readable (the C10 setting: the answer, not the access
pattern, is the subject; the access pattern is C02) -/
def AllRd (st : St) : Prop := ∀ a, st.mapped a = true ∧ st.rd a = true

theorem exec_load_all {st : St} (h : AllRd st) (a : Nat) : exec (load a) st = .ok (st.data a, st) :=
  exec_load_ok a st (h a).1 (h a).2

/-! ## specs over the memory contents -/

/-- number of non-zero cells before the first zero among the `n` cells at `p` (`n` if none):
`strnlen(p, n)` / `wcsnlen(p, n)` -/
def scanLen (d : Nat → Nat) (p : Nat) : Nat → Nat
  | 0 => 0
  | n+1 => if d p = 0 then 0 else 1 + scanLen d (p+1) n

theorem scanLen_le (d : Nat → Nat) (p n : Nat) : scanLen d p n ≤ n := by
  induction n generalizing p with
  | zero => simp [scanLen]
  | succ n ih => simp only [scanLen]; split; omega; have := ih (p+1); omega

theorem scanLen_nonzero (d : Nat → Nat) (p n i : Nat) (hi : i < scanLen d p n) : d (p+i) ≠ 0 := by
  induction n generalizing p i with
  | zero => simp [scanLen] at hi
  | succ n ih =>
    simp only [scanLen] at hi
    split at hi
    · omega
    · cases i with
      | zero => simpa
      | succ i =>
        have := ih (p+1) i (by omega)
        simpa [Nat.add_assoc, Nat.add_comm 1 i] using this

theorem scanLen_zero (d : Nat → Nat) (p n : Nat) (h : scanLen d p n < n) : d (p + scanLen d p n) = 0 := by
  induction n generalizing p with
  | zero => simp [scanLen] at h
  | succ n ih =>
    simp only [scanLen] at h ⊢
    split
    · simpa
    · rename_i hne
      simp only [hne, if_false] at h
      have := ih (p+1) (by omega)
      simpa [Nat.add_assoc, Nat.add_comm 1] using this

/-- index of the first cell equal to `c` among the `n` cells at `p` -/
def firstIdx (d : Nat → Nat) (c p : Nat) : Nat → Option Nat
  | 0 => none
  | n+1 => if d p = c then some 0 else (firstIdx d c (p+1) n).map (· + 1)

theorem firstIdx_some (d : Nat → Nat) (c p n i : Nat) (h : firstIdx d c p n = some i) :
    i < n ∧ d (p+i) = c ∧ ∀ j, j < i → d (p+j) ≠ c := by
  induction n generalizing p i with
  | zero => simp [firstIdx] at h
  | succ n ih =>
    simp only [firstIdx] at h
    split at h
    · cases h; exact ⟨by omega, by simpa, fun j hj => by omega⟩
    · rename_i hne
      cases hf : firstIdx d c (p+1) n with
      | none => simp [hf] at h
      | some k =>
        simp [hf] at h; subst h
        obtain ⟨h1, h2, h3⟩ := ih (p+1) k hf
        refine ⟨by omega, by simpa [Nat.add_assoc, Nat.add_comm 1 k] using h2, ?_⟩
        intro j hj
        cases j with
        | zero => simpa using hne
        | succ j => have := h3 j (by omega); simpa [Nat.add_assoc, Nat.add_comm 1 j] using this

theorem firstIdx_none (d : Nat → Nat) (c p n : Nat) (h : firstIdx d c p n = none) :
    ∀ j, j < n → d (p+j) ≠ c := by
  induction n generalizing p with
  | zero => intro j hj; omega
  | succ n ih =>
    simp only [firstIdx] at h
    split at h
    · cases h
    · rename_i hne
      have hf : firstIdx d c (p+1) n = none := by
        cases hf : firstIdx d c (p+1) n with
        | none => rfl
        | some k => simp [hf] at h
      intro j hj
      cases j with
      | zero => simpa using hne
      | succ j => have := ih (p+1) hf j (by omega); simpa [Nat.add_assoc, Nat.add_comm 1 j] using this

/-- index of the last cell equal to `c` among the `n` cells at `p` -/
def lastIdx (d : Nat → Nat) (c p : Nat) : Nat → Option Nat
  | 0 => none
  | n+1 => if d (p+n) = c then some n else lastIdx d c p n

theorem lastIdx_some (d : Nat → Nat) (c p n i : Nat) (h : lastIdx d c p n = some i) :
    i < n ∧ d (p+i) = c ∧ ∀ j, i < j → j < n → d (p+j) ≠ c := by
  induction n with
  | zero => simp [lastIdx] at h
  | succ n ih =>
    simp only [lastIdx] at h
    split at h
    · cases h; exact ⟨by omega, by assumption, fun j h1 h2 => by omega⟩
    · rename_i hne
      obtain ⟨h1, h2, h3⟩ := ih h
      refine ⟨by omega, h2, fun j hj1 hj2 => ?_⟩
      by_cases hjn : j = n
      · subst hjn; exact hne
      · exact h3 j hj1 (by omega)

theorem lastIdx_none (d : Nat → Nat) (c p n : Nat) (h : lastIdx d c p n = none) :
    ∀ j, j < n → d (p+j) ≠ c := by
  induction n with
  | zero => intro j hj; omega
  | succ n ih =>
    simp only [lastIdx] at h
    split at h
    · cases h
    · rename_i hne
      intro j hj
      by_cases hjn : j = n
      · subst hjn; exact hne
      · exact ih h j (by omega)

/-- index of the first position where the two `n`-cell regions differ -/
def firstDiff (d : Nat → Nat) (p q : Nat) : Nat → Option Nat
  | 0 => none
  | n+1 => if d p ≠ d q then some 0 else (firstDiff d (p+1) (q+1) n).map (· + 1)

theorem firstDiff_some (d : Nat → Nat) (p q n i : Nat) (h : firstDiff d p q n = some i) :
    i < n ∧ d (p+i) ≠ d (q+i) ∧ ∀ j, j < i → d (p+j) = d (q+j) := by
  induction n generalizing p q i with
  | zero => simp [firstDiff] at h
  | succ n ih =>
    simp only [firstDiff] at h
    split at h
    · cases h; exact ⟨by omega, by simpa, fun j hj => by omega⟩
    · rename_i heq
      have heq' : d p = d q := by simpa using heq
      cases hf : firstDiff d (p+1) (q+1) n with
      | none => simp [hf] at h
      | some k =>
        simp [hf] at h; subst h
        obtain ⟨h1, h2, h3⟩ := ih (p+1) (q+1) k hf
        refine ⟨by omega, by simpa [Nat.add_assoc, Nat.add_comm 1 k] using h2, ?_⟩
        intro j hj
        cases j with
        | zero => simpa using heq'
        | succ j => have := h3 j (by omega); simpa [Nat.add_assoc, Nat.add_comm 1 j] using this

theorem firstDiff_none (d : Nat → Nat) (p q n : Nat) (h : firstDiff d p q n = none) :
    ∀ j, j < n → d (p+j) = d (q+j) := by
  induction n generalizing p q with
  | zero => intro j hj; omega
  | succ n ih =>
    simp only [firstDiff] at h
    split at h
    · cases h
    · rename_i heq
      have heq' : d p = d q := by simpa using heq
      have hf : firstDiff d (p+1) (q+1) n = none := by
        cases hf : firstDiff d (p+1) (q+1) n with
        | none => rfl
        | some k => simp [hf] at h
      intro j hj
      cases j with
      | zero => simpa using heq'
      | succ j => have := ih (p+1) (q+1) hf j (by omega); simpa [Nat.add_assoc, Nat.add_comm 1 j] using this

/-! ## `strnlen_s`, `wcsnlen_s` -/

theorem strnlenLoop_none {st : St} (h : AllRd st) (smax str count : Nat) :
    exec (strnlenLoop smax str count none) st = .ok (count + scanLen st.data str smax, st) := by
  induction smax generalizing str count with
  | zero => simp [strnlenLoop, scanLen]
  | succ n ih =>
    simp only [strnlenLoop, exec_bind, exec_load_all h, scanLen]
    by_cases hc : st.data str = 0
    · simp [hc]
    · simp only [hc, if_false]; rw [ih]; congr 2; omega

theorem strnlenLoop_some {st : St} (h : AllRd st) (smax str count b : Nat) (hb : smax ≤ b) :
    exec (strnlenLoop smax str count (some b)) st = .ok (count + scanLen st.data str smax, st) := by
  induction smax generalizing str count b with
  | zero => simp [strnlenLoop, scanLen]
  | succ n ih =>
    simp only [strnlenLoop, exec_bind, exec_load_all h, scanLen]
    by_cases hc : st.data str = 0
    · simp [hc]
    · simp only [hc, if_false]
      by_cases hb1 : b - 1 = 0
      · -- b = 1, so n = 0
        have hn : n = 0 := by omega
        subst hn
        simp [hb1, scanLen]
      · simp only [hb1, if_false]; rw [ih _ _ _ (by omega)]; congr 2; omega

theorem wcsnlenLoop_eq {st : St} (h : AllRd st) (smax str count : Nat) :
    exec (wcsnlenLoop smax str count) st = .ok (count + scanLen st.data str smax, st) := by
  induction smax generalizing str count with
  | zero => simp [wcsnlenLoop, scanLen]
  | succ n ih =>
    simp only [wcsnlenLoop, exec_bind, exec_load_all h, scanLen]
    by_cases hc : st.data str = 0
    · simp [hc]
    · simp only [hc, if_false]; rw [ih]; congr 2; omega

/-! ## `memchr`, `memrchr` -/

theorem memchrP_eq {st : St} (h : AllRd st) (c n s : Nat) :
    exec (memchrP c n s) st = .ok ((match firstIdx st.data c s n with | some i => s + i | none => 0), st) := by
  induction n generalizing s with
  | zero => simp [memchrP, firstIdx]
  | succ n ih =>
    simp only [memchrP, exec_bind, exec_load_all h, firstIdx]
    by_cases hc : st.data s = c
    · simp [hc]
    · simp only [hc, if_false]; rw [ih]
      cases firstIdx st.data c (s+1) n <;> simp <;> omega

theorem memrchrP_eq {st : St} (h : AllRd st) (c s n : Nat) :
    exec (memrchrP c s n) st = .ok ((match lastIdx st.data c s n with | some i => s + i | none => 0), st) := by
  induction n with
  | zero => simp [memrchrP, lastIdx]
  | succ n ih =>
    simp only [memrchrP, exec_bind, exec_load_all h, lastIdx]
    by_cases hc : st.data (s+n) = c
    · simp [hc]
    · simp only [hc, if_false]; rw [ih]

/-! ## `memcmp` loops -/

theorem memcmpLoopQ_eq {st : St} (h : AllRd st) (f : Nat → Nat → Int) (dmax slen dp sp : Nat) (hle : slen ≤ dmax) :
    exec (memcmpLoopQ f dmax slen dp sp) st =
      .ok ((match firstDiff st.data dp sp slen with
            | some i => f (st.data (dp+i)) (st.data (sp+i)) | none => 0), st) := by
  induction slen generalizing dmax dp sp with
  | zero => cases dmax <;> simp [memcmpLoopQ, firstDiff]
  | succ n ih =>
    cases dmax with
    | zero => omega
    | succ m =>
      simp only [memcmpLoopQ, exec_bind, exec_load_all h, firstDiff]
      by_cases hc : st.data dp = st.data sp
      · simp only [hc, ne_eq, not_true_eq_false, if_false]
        rw [ih m (dp+1) (sp+1) (by omega)]
        cases firstDiff st.data (dp+1) (sp+1) n <;> simp [Nat.add_assoc, Nat.add_comm 1]
      · simp [hc]

theorem wmemcmpLoop_eq {st : St} (h : AllRd st) (dlen slen dp sp : Nat) (hle : slen ≤ dlen) :
    exec (wmemcmpLoop dlen slen dp sp) st =
      .ok ((match firstDiff st.data dp sp slen with
            | some i => (if toS32 (st.data (dp+i)) < toS32 (st.data (sp+i)) then -1 else 1) | none => 0), st) := by
  induction slen generalizing dlen dp sp with
  | zero => cases dlen <;> simp [wmemcmpLoop, firstDiff]
  | succ n ih =>
    cases dlen with
    | zero => omega
    | succ m =>
      simp only [wmemcmpLoop, Nat.succ_ne_zero, if_false, exec_bind, exec_load_all h, firstDiff, Nat.add_sub_cancel]
      by_cases hc : st.data dp = st.data sp
      · simp only [hc, ne_eq, not_true_eq_false, if_false]
        rw [ih m (dp+1) (sp+1) (by omega)]
        cases firstDiff st.data (dp+1) (sp+1) n <;> simp [Nat.add_assoc, Nat.add_comm 1]
      · simp [hc]

end SafeC

namespace SafeC
open Gen

/-! ## `strspn` / `strcspn` -/

/-- is `c` among the characters of the string at `p` (at most `n` of them)? -/
def inSet (d : Nat → Nat) (c p : Nat) : Nat → Bool
  | 0 => false
  | n+1 => if d p = 0 then false else if c = d p then true else inSet d c (p+1) n

theorem inSet_iff (d : Nat → Nat) (c p n : Nat) :
    inSet d c p n = true ↔ ∃ j, j < scanLen d p n ∧ d (p+j) = c := by
  induction n generalizing p with
  | zero => simp [inSet, scanLen]
  | succ n ih =>
    simp only [inSet, scanLen]
    by_cases h0 : d p = 0
    · simp [h0]
    · simp only [h0, if_false]
      by_cases hc : c = d p
      · simp only [hc, if_true, true_iff]; exact ⟨0, by omega, by simp⟩
      · simp only [hc, if_false]
        rw [ih (p+1)]
        constructor
        · rintro ⟨j, hj, he⟩
          exact ⟨j+1, by omega, by simpa [Nat.add_assoc, Nat.add_comm 1 j] using he⟩
        · rintro ⟨j, hj, he⟩
          cases j with
          | zero => exact absurd (by simpa using he.symm) hc
          | succ j => exact ⟨j, by omega, by simpa [Nat.add_assoc, Nat.add_comm 1 j] using he⟩

/-- `strspn` (`want = true`) / `strcspn` (`want = false`) restricted to the first `n` cells of the
string at `p`, the set being the string at `src` (at most `slen` characters) -/
def spanLen (d : Nat → Nat) (want : Bool) (src slen p : Nat) : Nat → Nat
  | 0 => 0
  | n+1 => if d p = 0 then 0 else if inSet d (d p) src slen = want then 1 + spanLen d want src slen (p+1) n else 0

theorem spanInner_eq {st : St} (h : AllRd st) (dest smax scan2 : Nat) :
    exec (spanInner dest smax scan2) st = .ok (inSet st.data (st.data dest) scan2 smax, st) := by
  induction smax generalizing scan2 with
  | zero =>
    simp only [spanInner, exec_bind, exec_load_all h, inSet]
    split <;> simp
  | succ n ih =>
    simp only [spanInner, exec_bind, exec_load_all h, inSet]
    by_cases h0 : st.data scan2 = 0
    · simp [h0]
    · simp only [h0, if_false, exec_bind, exec_load_all h]
      by_cases hc : st.data dest = st.data scan2
      · simp [hc]
      · simp only [hc, if_false]; exact ih _

theorem spanOuter_eq {st : St} (h : AllRd st) (want : Bool) (src slen dmax dest count : Nat) :
    exec (spanOuter want src slen dmax dest count) st =
      .ok (count + spanLen st.data want src slen dest dmax, st) := by
  induction dmax generalizing dest count with
  | zero =>
    simp only [spanOuter, exec_bind, exec_load_all h, spanLen]
    split <;> simp
  | succ n ih =>
    simp only [spanOuter, exec_bind, exec_load_all h, spanLen]
    by_cases h0 : st.data dest = 0
    · simp [h0]
    · simp only [h0, if_false, exec_bind, spanInner_eq h]
      by_cases hw : inSet st.data (st.data dest) src slen = want
      · simp only [hw, if_true]; rw [ih]; congr 2; omega
      · simp [hw]

end SafeC

namespace SafeC
open Gen

/-! ## `strcmp` -/

/-- where `strcmp` stops among the first `n` positions: the first index at which either string
ends or the two differ (`n` if there is none) -/
def stopIdx (d : Nat → Nat) (p q : Nat) : Nat → Nat
  | 0 => 0
  | n+1 => if d p = 0 ∨ d q = 0 ∨ d p ≠ d q then 0 else 1 + stopIdx d (p+1) (q+1) n

theorem stopIdx_spec (d : Nat → Nat) (p q n : Nat) :
    stopIdx d p q n ≤ n ∧
    (∀ j, j < stopIdx d p q n → d (p+j) ≠ 0 ∧ d (p+j) = d (q+j)) ∧
    (stopIdx d p q n < n →
      d (p + stopIdx d p q n) = 0 ∨ d (q + stopIdx d p q n) = 0 ∨ d (p + stopIdx d p q n) ≠ d (q + stopIdx d p q n)) := by
  induction n generalizing p q with
  | zero => simp [stopIdx]
  | succ n ih =>
    obtain ⟨i1, i2, i3⟩ := ih (p+1) (q+1)
    simp only [stopIdx]
    by_cases hc : d p = 0 ∨ d q = 0 ∨ d p ≠ d q
    · simp only [hc, if_true]
      exact ⟨by omega, fun j hj => by omega, fun _ => by simpa using hc⟩
    · simp only [hc, if_false]
      have hc' : d p ≠ 0 ∧ d q ≠ 0 ∧ d p = d q := by
        refine ⟨fun h => hc (Or.inl h), fun h => hc (Or.inr (Or.inl h)), ?_⟩
        apply Classical.byContradiction; intro h; exact hc (Or.inr (Or.inr h))
      refine ⟨by omega, ?_, ?_⟩
      · intro j hj
        cases j with
        | zero => exact ⟨by simpa using hc'.1, by simpa using hc'.2.2⟩
        | succ j => have := i2 j (by omega); simpa [Nat.add_assoc, Nat.add_comm 1 j] using this
      · intro hlt
        have := i3 (by omega)
        simpa [Nat.add_assoc, Nat.add_comm 1] using this

/-- the loop of `strcmp_s` (source object size unknown), on ANY memory: it stops at `stopIdx`
computed over `dmax` positions and subtracts the two cells found THERE as plain `char`s —
also when `stopIdx = dmax`, i.e. one past the compared extent -/
theorem strcmpLoop_eq {st : St} (h : AllRd st) (dmax dest src slen : Nat) :
    exec (strcmpLoop none dmax dest src slen) st =
      .ok ((EOK, schar (st.data (dest + stopIdx st.data dest src dmax)) -
                 schar (st.data (src + stopIdx st.data dest src dmax))), st) := by
  induction dmax generalizing dest src slen with
  | zero =>
    unfold strcmpLoop
    simp only [exec_bind, exec_load_all h, stopIdx, Nat.add_zero]
    by_cases h0 : st.data dest = 0
    · simp [h0, strcmpTail, exec_bind, exec_load_all h]
    · simp only [h0, if_false, exec_bind, exec_load_all h]
      by_cases h1 : st.data src = 0 <;> simp [h1, strcmpTail, exec_bind, exec_load_all h]
  | succ n ih =>
    unfold strcmpLoop
    simp only [exec_bind, exec_load_all h, stopIdx]
    by_cases h0 : st.data dest = 0
    · simp [h0, strcmpTail, exec_bind, exec_load_all h]
    · simp only [h0, if_false, exec_bind, exec_load_all h, false_or]
      by_cases h1 : st.data src = 0
      · simp [h1, strcmpTail, exec_bind, exec_load_all h]
      · simp only [h1, if_false, exec_bind, exec_load_all h, false_or]
        by_cases h2 : st.data dest = st.data src
        · simp only [h2, ne_eq, not_true_eq_false, if_false, Bool.false_eq_true]
          rw [ih]
          simp [Nat.add_assoc, Nat.add_comm 1]
        · simp [h2, strcmpTail, exec_bind, exec_load_all h]

end SafeC

import SafeC.Proofs.NormTables2
import SafeC.Proofs.NormReorder
/-! C17 — the decomposition pass and NFD of the model, for all strings -/
namespace SafeC.Norm
open SafeC.Gen

attribute [local irreducible] cell UniCanon.main UniCanon.planes UniCanon.rows UniCombin.main UniCombin.planes UniCombin.rows
  UniCanon.tbl1 UniCanon.tbl2 UniCanon.tbl3 UniCanon.tbl4

theorem stable_spec {d : Nat} (h : stable d = true) :
    isS d = false ∧ decompCanon d = some [] ∧ d ≤ UniCompos.unicodeMax ∧ d ≠ 0 := by
  unfold stable at h
  simp only [Bool.and_eq_true, Bool.not_eq_eq_eq_not, Bool.not_true, beq_iff_eq, decide_eq_true_eq, bne_iff_ne, ne_eq] at h
  exact ⟨h.1.1.1, h.1.1.2, h.1.2, h.2⟩

theorem decompose1_stable {d : Nat} (h : stable d = true) : decompose1 d = [d] := by
  obtain ⟨h1, h2, _, _⟩ := stable_spec h
  unfold decompose1
  simp [h1, h2]

theorem tblStable_all : ∀ l, 1 ≤ l → l ≤ 4 → tblStable l = true := by
  intro l h1 h4
  have : l = 1 ∨ l = 2 ∨ l = 3 ∨ l = 4 := by omega
  rcases this with rfl | rfl | rfl | rfl
  · exact tbl1_stable
  · exact tbl2_stable
  · exact tbl3_stable
  · exact tbl4_stable

/-- every cell of a stored decomposition is stable -/
theorem decompCanon_stable {cp : Nat} {l : List Nat} (h : decompCanon cp = some l) : ∀ d ∈ l, stable d = true := by
  unfold decompCanon at h
  split at h
  · cases h
  · cases h; intro d hd; cases hd
  · rename_i vi hv0 hv
    dsimp only at h
    split at h
    · rename_i hl
      cases h
      intro d hd
      simp only [List.mem_map, List.mem_range] at hd
      obtain ⟨k, hk, rfl⟩ := hd
      have hst := tblStable_all (vi / 4096 + 1) (by omega) hl.1
      unfold tblStable at hst
      apply allBelow_spec hst
      have := hl.2
      generalize (canonTbl (vi / 4096 + 1)).1 = N at this ⊢
      generalize vi / 4096 + 1 = L at hk ⊢
      generalize vi % 4096 = I at this ⊢
      calc I * L + k < I * L + L := by omega
        _ = (I + 1) * L := by rw [Nat.add_mul]; simp
        _ ≤ N * L := Nat.mul_le_mul_right L (by omega)
    · cases h

theorem decompHangul_stable {cp : Nat} (h : isS cp = true) : ∀ d ∈ decompHangul cp, stable d = true := by
  have hL := jamoL_stable
  have hV := jamoV_stable
  have hT := jamoT_stable
  unfold isS at h
  simp only [Bool.and_eq_true, decide_eq_true_eq] at h
  have c1 : UniCompos.HSBase = 0xAC00 := by decide
  have c2 : UniCompos.HSFinal = 0xD7A3 := by decide
  have c3 : UniCompos.HNCount = 588 := by decide
  have c4 : UniCompos.HTCount = 28 := by decide
  have c5 : UniCompos.HLCount = 19 := by decide
  have c6 : UniCompos.HVCount = 21 := by decide
  rw [c1, c2] at h
  intro d hd
  unfold decompHangul at hd
  rw [c1, c3, c4] at hd
  dsimp only at hd
  have hl : (cp - 0xAC00) / 588 < UniCompos.HLCount := by rw [c5]; omega
  have hv : (cp - 0xAC00) % 588 / 28 < UniCompos.HVCount := by rw [c6]; omega
  have ht : (cp - 0xAC00) % 28 < UniCompos.HTCount := by rw [c4]; omega
  have sL := allBelow_spec hL _ hl
  have sV := allBelow_spec hV _ hv
  have sT := allBelow_spec hT _ ht
  split at hd
  · simp only [List.mem_cons, List.mem_nil_iff, or_false] at hd
    rcases hd with h | h | h
    · rw [h]; exact sL
    · rw [h]; exact sV
    · rw [h]; exact sT
  · simp only [List.mem_cons, List.mem_nil_iff, or_false] at hd
    rcases hd with h | h
    · rw [h]; exact sL
    · rw [h]; exact sV

theorem decompHangul_ne_nil (cp : Nat) : decompHangul cp ≠ [] := by
  unfold decompHangul
  dsimp only
  split <;> simp

/-- each cell the decomposition pass produces for `c` is left alone by a second pass -/
theorem decompose1_fixed {c d : Nat} (hd : d ∈ decompose1 c) : decompose1 d = [d] := by
  unfold decompose1 at hd
  by_cases hs : isS c = true
  · simp only [hs, ↓reduceIte] at hd
    exact decompose1_stable (decompHangul_stable hs d hd)
  · simp only [hs, Bool.false_eq_true, ↓reduceIte] at hd
    cases hc : decompCanon c with
    | none =>
      rw [hc] at hd
      simp only [List.mem_singleton] at hd
      subst hd
      unfold decompose1
      simp [hs, hc]
    | some l =>
      rw [hc] at hd
      cases l with
      | nil =>
        simp only [List.mem_singleton] at hd
        subst hd
        unfold decompose1
        simp [hs, hc]
      | cons x l => exact decompose1_stable (decompCanon_stable hc d hd)

theorem decompose1_le {c d : Nat} (hc : c ≤ UniCompos.unicodeMax) (hc0 : c ≠ 0) (hd : d ∈ decompose1 c) :
    d ≤ UniCompos.unicodeMax ∧ d ≠ 0 := by
  unfold decompose1 at hd
  by_cases hs : isS c = true
  · simp only [hs, ↓reduceIte] at hd
    have := stable_spec (decompHangul_stable hs d hd)
    exact ⟨this.2.2.1, this.2.2.2⟩
  · simp only [hs, Bool.false_eq_true, ↓reduceIte] at hd
    cases hcn : decompCanon c with
    | none => rw [hcn] at hd; simp only [List.mem_singleton] at hd; subst hd; exact ⟨hc, hc0⟩
    | some l =>
      rw [hcn] at hd
      cases l with
      | nil => simp only [List.mem_singleton] at hd; subst hd; exact ⟨hc, hc0⟩
      | cons x l =>
        have := stable_spec (decompCanon_stable hcn d hd)
        exact ⟨this.2.2.1, this.2.2.2⟩

theorem decompCanon_length {cp : Nat} {l : List Nat} (hc : decompCanon cp = some l) : l.length ≤ 4 := by
  unfold decompCanon at hc
  split at hc
  · cases hc
  · cases hc; simp
  · dsimp only at hc
    split at hc
    · rename_i hl4
      have hlen := congrArg (fun o => (o.map List.length).getD 0) hc
      simp only [Option.map_some, Option.getD_some, List.length_map, List.length_range] at hlen
      omega
    · cases hc

theorem decompHangul_length (cp : Nat) : (decompHangul cp).length ≤ 3 ∧ 0 < (decompHangul cp).length := by
  unfold decompHangul; dsimp only; split <;> simp

/-- `_decomp_s` with enough room is `decompose1`, and what it writes fits -/
theorem decompS_eq {dmax cp : Nat} (hcp : cp ≤ UniCompos.unicodeMax) (hd : decompS dmax cp ≠ .err ESNOSPC) :
    ∃ l, decompS dmax cp = .seq l ∧ (if l.isEmpty then [cp] else l) = decompose1 cp ∧ (decompose1 cp).length < dmax := by
  unfold decompS at hd ⊢
  unfold decompose1
  by_cases hs : isS cp = true
  · simp only [hs, ↓reduceIte] at hd ⊢
    split at hd
    · exact absurd rfl hd
    · rename_i h4
      simp only [h4, ↓reduceIte]
      have hlen := decompHangul_length cp
      refine ⟨_, rfl, ?_, by omega⟩
      cases hh : decompHangul cp with
      | nil => rw [hh] at hlen; simp at hlen
      | cons a b => simp
  · simp only [hs, Bool.false_eq_true, ↓reduceIte] at hd ⊢
    split at hd
    · exact absurd rfl hd
    · rename_i h5
      simp only [h5, ↓reduceIte]
      have hn := decompCanon_ne_none hcp
      cases hc : decompCanon cp with
      | none => exact absurd hc hn
      | some l =>
        have hlen := decompCanon_length hc
        refine ⟨l, rfl, ?_, ?_⟩
        · cases l <;> simp
        · cases l with
          | nil => simp; omega
          | cons a b => simp at hlen ⊢; omega

/-- the decomposition pass, whenever it succeeds, yields the concatenated `decompose1` (any size, any input);
it never indexes a table out of bounds, and success means every cell was a code point -/
theorem decLoop_spec (orig : Nat) : ∀ (src : List Nat) (dmax : Nat), (∀ c ∈ src, c ≠ 0) →
    decLoop orig src dmax ≠ .oob ∧ decLoop orig src dmax ≠ .overrun ∧
    ∀ out d, decLoop orig src dmax = .ok out d →
      out = src.flatMap decompose1 ∧ d + out.length = dmax ∧ 0 < d ∧ ∀ c ∈ src, c ≤ UniCompos.unicodeMax := by
  intro src
  induction src with
  | nil =>
    intro dmax _
    unfold decLoop
    split <;> simp_all
    omega
  | cons cp rest ih =>
    intro dmax h0
    have hcp0 : cp ≠ 0 := h0 cp (by simp)
    have hrest : ∀ c ∈ rest, c ≠ 0 := fun c hc => h0 c (by simp [hc])
    unfold decLoop
    by_cases hd0 : dmax = 0
    · simp [hd0]
    · by_cases hmax : UniCompos.unicodeMax < cp
      · simp [hd0, hmax]
      · simp only [hd0, hmax, hcp0, ↓reduceIte]
        have hle : cp ≤ UniCompos.unicodeMax := Nat.le_of_not_lt hmax
        by_cases herr : decompS dmax cp = .err ESNOSPC
        · simp [herr]
        · obtain ⟨l, hl, hw, hroom⟩ := decompS_eq hle herr
          simp only [hl]
          rw [hw]
          obtain ⟨i1, i2, i3⟩ := ih (dmax - (decompose1 cp).length) hrest
          refine ⟨?_, ?_, ?_⟩
          · cases hr : decLoop orig rest (dmax - (decompose1 cp).length) <;> simp_all
          · cases hr : decLoop orig rest (dmax - (decompose1 cp).length) <;> simp_all
          · intro out d hok
            cases hr : decLoop orig rest (dmax - (decompose1 cp).length) with
            | ok out' d' =>
              rw [hr] at hok
              simp only [Step.ok.injEq] at hok
              obtain ⟨rfl, rfl⟩ := hok
              obtain ⟨e1, e2, e3, e4⟩ := i3 out' d' hr
              refine ⟨by simp [e1], ?_, e3, ?_⟩
              · simp only [List.length_append]; omega
              · intro c hc
                simp only [List.mem_cons] at hc
                rcases hc with rfl | hc
                · exact hle
                · exact e4 c hc
            | fail a b => rw [hr] at hok; cases hok
            | oob => rw [hr] at hok; cases hok
            | overrun => rw [hr] at hok; cases hok

theorem decompS_err {dmax cp e : Nat} (h : decompS dmax cp = .err e) : e = ESNOSPC := by
  unfold decompS at h
  split at h
  · split at h
    · injection h with h; exact h.symm
    · cases h
  · split at h
    · injection h with h; exact h.symm
    · split at h <;> cases h

/-- a failing decomposition pass reports a non-zero code -/
theorem decLoop_fail_ne_zero (orig : Nat) : ∀ (src : List Nat) (dmax r l : Nat), decLoop orig src dmax = .fail r l → r ≠ 0 := by
  intro src
  induction src with
  | nil =>
    intro dmax r l h
    unfold decLoop at h
    split at h
    · injection h with h1 h2; rw [← h1]; decide
    · cases h
  | cons cp rest ih =>
    intro dmax r l h
    unfold decLoop at h
    split at h
    · injection h with h1 h2; rw [← h1]; decide
    · split at h
      · injection h with h1 h2; rw [← h1]; decide
      · split at h
        · cases h
        · split at h
          · cases h
          · rename_i e he
            injection h with h1 h2
            rw [← h1, decompS_err he]; decide
          · rename_i l' hl'
            dsimp only at h
            split at h
            · cases h
            · rename_i r' hne
              cases hr : decLoop orig rest (dmax - (if l'.isEmpty then [cp] else l').length) with
              | ok o d => exact absurd hr (by intro hh; exact hne o d hh)
              | fail a b =>
                rw [hr] at h
                injection h with h1 h2
                rw [← h1]
                exact ih _ _ _ hr
              | oob => rw [hr] at h; cases h
              | overrun => rw [hr] at h; cases h

end SafeC.Norm

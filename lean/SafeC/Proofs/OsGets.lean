import SafeC.Proofs.OsIo
/-!
# `gets_s`: the exact result of every exit of `getsBody` (what follows the entry checks)

`L` is the length of the line as gets_s sees it: the bytes of the stream in front of the first newline / NUL / the end
(`hL1`–`hL3` characterise it by indices; `Props/C08Os.lean` restates it as a list function of the stream).
`GetsFits`: the line fits — it is shorter than `dmax - 1`, or has exactly `dmax - 1` bytes and the stream ends or continues
with a newline right behind it (the `getc` of the C).
-/
namespace SafeC
open Gen

/-- the line of `L` bytes (next stream byte `c`, stream length `len`) fits `dmax` cells -/
def GetsFits (dmax len L c : Nat) : Prop := L + 1 < dmax ∨ (L + 1 = dmax ∧ (L = len ∨ c = 10))

/-- the successful exit of gets_s with a line of `L` bytes -/
def GetsOk (cfg : Cfg) (dest dmax inp L : Nat) (st : St) (r : Nat) (s : St) : Prop :=
  r = EOK ∧ s.events = st.events ∧
  (∀ j, j < L → s.data (dest+j) = st.data (inp+j)) ∧ s.data (dest+L) = 0 ∧
  (cfg.slack = true → ∀ i, L ≤ i → i < dmax → s.data (dest+i) = 0)

/-- meta data and frame of a gets_s run -/
def GetsFrame (dest dmax : Nat) (st s : St) : Prop :=
  s.mapped = st.mapped ∧ s.rd = st.rd ∧ s.wr = st.wr ∧ s.strays = st.strays ∧
  (∀ a, ¬ (dest ≤ a ∧ a < dest + dmax) → s.data a = st.data a)

theorem Runs.of_exec {α} {p : Prog α} {st : St} {Q : α → St → Prop} {r : α} {s : St} (he : exec p st = .ok (r, s)) (h : Q r s) :
    Runs p st Q := ⟨r, s, he, h⟩

/-- the closing block of the successful exit: nulls `dest[k..dmax)` with null-slack, nothing otherwise -/
theorem getsDone_runs (cfg : Cfg) (dest dmax k : Nat) (st : St) (hrw : RW st dest dmax) :
    Runs (do (if cfg.slack = true ∧ k < dmax then memsetP 0 (dmax - k) (dest + k) else pure ()); pure EOK : Prog Nat) st
      (fun r s => r = EOK ∧ SameMeta s st ∧ (∀ a, ¬ (dest + k ≤ a ∧ a < dest + dmax) → s.data a = st.data a) ∧
        (cfg.slack = true → ∀ i, k ≤ i → i < dmax → s.data (dest+i) = 0) ∧ (cfg.slack = false → s.data = st.data)) := by
  by_cases h : cfg.slack = true ∧ k < dmax
  · rw [if_pos h]
    have hrw' : RW st (dest + k) (dmax - k) := by
      intro i hi
      have := hrw (k + i) (by omega)
      rwa [show dest + (k + i) = dest + k + i by omega] at this
    obtain ⟨s, he, hm, hd⟩ := memsetP_ok 0 (dmax - k) (dest + k) st hrw'
    refine Runs.bind ⟨_, s, he, Runs.pure _ ⟨rfl, hm, ?_, ?_, fun hf => ?_⟩⟩
    · intro a ha
      rw [hd a, if_neg (by omega)]
    · intro _ i h1 h2
      rw [hd (dest + i), if_pos (by omega)]
    · rw [hf] at h; exact absurd h.1 (by simp)
  · rw [if_neg h]
    refine Runs.bind (Runs.pure _ (Runs.pure _ ⟨rfl, SameMeta.refl _, fun _ _ => rfl, ?_, fun _ => rfl⟩))
    intro hs i h1 h2
    exact absurd ⟨hs, by omega⟩ h

/-- `done L` from a state in which `dest[0..L)` holds the line and `dest[L] = 0` -/
theorem getsDone_ok (cfg : Cfg) (dest dmax inp L : Nat) (st s2 : St) (hrw : RW st dest dmax) (hL : L < dmax)
    (hm : SameMeta s2 st) (hfr : ∀ a, ¬ (dest ≤ a ∧ a < dest + dmax) → s2.data a = st.data a)
    (hcp : ∀ j, j < L → s2.data (dest+j) = st.data (inp+j)) (hz : s2.data (dest+L) = 0) :
    Runs (do (if cfg.slack = true ∧ L < dmax then memsetP 0 (dmax - L) (dest + L) else pure ()); pure EOK : Prog Nat) s2
      (fun r s => GetsFrame dest dmax st s ∧ GetsOk cfg dest dmax inp L st r s) := by
  refine (getsDone_runs cfg dest dmax L s2 (RW.of_sameMeta hm hrw)).conseq (fun r s ⟨hr, hm2, hf2, hs2, hns2⟩ => ?_)
  have hm' := hm2.trans hm
  refine ⟨⟨hm'.mapped, hm'.rd, hm'.wr, hm'.strays, fun a ha => ?_⟩, hr, hm'.events, fun j hj => ?_, ?_, hs2⟩
  · rw [hf2 a (by omega), hfr a ha]
  · rw [hf2 _ (by omega), hcp j hj]
  · cases hsl : cfg.slack with
    | true => exact hs2 hsl L (Nat.le_refl _) hL
    | false => rw [hns2 hsl]; exact hz

/-- **gets_s behind its entry checks, every stream.**  dest: `dmax` writable cells, arbitrary content; the stream
`inp[0..len)` readable, not overlapping dest, ANY bytes (newline or not, embedded NULs, empty); `L` the length of the line
(bytes in front of the first newline / NUL / the end).  The run returns, touches nothing outside dest, and
* empty stream: NULL at end of file (-1; 21 for the read-error stream of the `dmax = 1` case), nothing reported,
  `dest[0] = 0`, nothing else changed;
* the line fits: EOK, nothing reported, `dest[0..L)` = the line, `dest[L] = 0`, with null-slack zeros up to `dmax`;
* it does not fit: ESNOSPC, reported once, `dest[0] = 0`, with null-slack all `dmax` cells zero. -/
theorem getsBody_spec (cfg : Cfg) (dest dmax inp len L : Nat) (st : St) (hpos : 0 < dmax) (hrw : RW st dest dmax)
    (hin : ¬ (inp = 0 ∧ dmax ≠ 1))
    (hrd : ∀ j, j < len → st.mapped (inp+j) = true ∧ st.rd (inp+j) = true)
    (hdisj : dest + dmax ≤ inp ∨ inp + len ≤ dest)
    (hL1 : ∀ j, j < L → st.data (inp+j) ≠ 10 ∧ st.data (inp+j) ≠ 0) (hL2 : L ≤ len)
    (hL3 : L < len → st.data (inp+L) = 10 ∨ st.data (inp+L) = 0) :
    Runs (getsBody cfg dest dmax inp len) st (fun r s => GetsFrame dest dmax st s ∧
      ((len = 0 ∧ r = (if inp = 0 then 21 else NEG1) ∧ s.events = st.events ∧ s.data dest = 0 ∧
          (∀ a, a ≠ dest → s.data a = st.data a)) ∨
       (len ≠ 0 ∧ GetsFits dmax len L (st.data (inp+L)) ∧ GetsOk cfg dest dmax inp L st r s) ∨
       (len ≠ 0 ∧ ¬ GetsFits dmax len L (st.data (inp+L)) ∧ r = ESNOSPC ∧
          s.events = st.events ++ [.handler .str ESNOSPC] ∧ s.data dest = 0 ∧
          (cfg.slack = true → ∀ i, i < dmax → s.data (dest+i) = 0)))) := by
  unfold getsBody
  rw [if_neg hin]
  have hrw1 : RW st dest (dmax - 1) := fun i hi => hrw i (by omega)
  obtain ⟨m, eof, s1, he1, hm1, hmk, hml, hcp, hfr, hnl, hfin⟩ :=
    fgetsLoop_runs (dmax - 1) inp len dest 0 st hrw1 hrd (by omega)
  rw [Nat.zero_add] at he1
  refine Runs.bind (Runs.of_exec he1 ?_)
  dsimp only
  have hrws1 : RW s1 dest dmax := RW.of_sameMeta hm1 hrw
  by_cases h0 : m = 0 ∧ dmax ≠ 1
  · -- end of file before anything was read
    rw [if_pos h0]
    obtain ⟨hm0, hd1⟩ := h0
    subst hm0
    have hlen : len = 0 := by
      rcases hfin with ⟨h, _⟩ | ⟨_, h | h⟩ <;> omega
    have hi : inp ≠ 0 := fun h => hin ⟨h, hd1⟩
    have hw0 := hrws1 0 hpos
    simp only [Nat.add_zero] at hw0
    refine Runs.bind ((Runs.storeP dest 0 hw0.1 hw0.2.1).conseq (fun _ s hs => ?_))
    subst hs
    refine Runs.pure _ ⟨⟨hm1.mapped, hm1.rd, hm1.wr, hm1.strays, fun a ha => ?_⟩,
      Or.inl ⟨hlen, by rw [if_neg hi], hm1.events, by simp, fun a ha => ?_⟩⟩
    · rw [St.upd_data_ne _ _ _ _ (by intro h; subst h; exact ha ⟨Nat.le_refl _, by omega⟩)]
      exact hfr a (by omega)
    · rw [St.upd_data_ne _ _ _ _ ha]
      exact hfr a (by omega)
  rw [if_neg h0]
  have hwm := hrws1 m (by omega)
  refine Runs.bind ((Runs.storeP (dest + m) 0 hwm.1 hwm.2.1).conseq (fun _ s2 hs => ?_))
  subst hs
  -- the state after fgets: dest[0..m) = the first m bytes of the stream, dest[m] = 0
  have hm2 : SameMeta (s1.upd (dest + m) 0) st := (SameMeta.upd _ _ _).trans hm1
  have hrws2 : RW (s1.upd (dest + m) 0) dest dmax := RW.of_sameMeta hm2 hrw
  have hcp2 : ∀ j, j < m → (s1.upd (dest + m) 0).data (dest + j) = st.data (inp + j) := by
    intro j hj
    rw [St.upd_data_ne _ _ _ _ (by omega)]; exact hcp j hj
  have hz2 : (s1.upd (dest + m) 0).data (dest + m) = 0 := by simp
  have hfr2 : ∀ a, ¬ (dest ≤ a ∧ a < dest + dmax) → (s1.upd (dest + m) 0).data a = st.data a := by
    intro a ha
    rw [St.upd_data_ne _ _ _ _ (by omega)]; exact hfr a (by omega)
  have hsrc2 : ∀ j, j < len → (s1.upd (dest + m) 0).data (inp + j) = st.data (inp + j) := by
    intro j hj
    exact hfr2 _ (by omega)
  have hrd2 : ∀ j, j < dmax → (s1.upd (dest + m) 0).mapped (dest + j) = true ∧ (s1.upd (dest + m) 0).rd (dest + j) = true :=
    fun j hj => ⟨(hrws2 j hj).1, (hrws2 j hj).2.2⟩
  generalize s1.upd (dest + m) 0 = s2 at hm2 hrws2 hcp2 hz2 hfr2 hsrc2 hrd2
  by_cases hA : L < m ∧ st.data (inp + L) = 0
  · -- a NUL among the stored bytes: the line ends there
    obtain ⟨hLm, hA0⟩ := hA
    have hn := strnlenP_ok dmax dest 0 L s2 (by omega) (fun j hj => by rw [hcp2 j (by omega)]; exact (hL1 j hj).2) hrd2
      (fun _ => by rw [hcp2 L hLm]; exact hA0)
    rw [Nat.zero_add] at hn
    refine Runs.bind (Runs.of_exec hn ?_)
    have hlast : Runs (if L > 0 then load (dest + L - 1) else pure 0 : Prog Nat) s2 (fun v s => s = s2 ∧ v ≠ 10) := by
      by_cases hp : L > 0
      · rw [if_pos hp, show dest + L - 1 = dest + (L - 1) by omega]
        refine (Runs.loadP _ (hrd2 _ (by omega)).1 (hrd2 _ (by omega)).2).conseq (fun v s ⟨hv, hs⟩ => ⟨hs, ?_⟩)
        rw [hv, hcp2 _ (by omega)]
        exact (hL1 _ (by omega)).1
      · rw [if_neg hp]; exact Runs.pure _ ⟨rfl, by decide⟩
    refine Runs.bind (hlast.conseq (fun v s ⟨hs, hv⟩ => ?_))
    subst hs
    rw [if_neg (fun h => hv h.2), if_neg (by omega)]
    refine (getsDone_ok cfg dest dmax inp L st s hrw (by omega) hm2 hfr2 (fun j hj => hcp2 j (by omega))
      (by rw [hcp2 L hLm]; exact hA0)).conseq (fun r s' ⟨h1, h2⟩ => ⟨h1, Or.inr (Or.inl ⟨by omega, Or.inl (by omega), h2⟩)⟩)
  by_cases hB : L < m
  · -- the last stored byte is the newline
    have h10 : st.data (inp + L) = 10 := by
      rcases hL3 (by omega) with h | h
      · exact h
      · exact absurd ⟨hB, h⟩ hA
    have hLm : L + 1 = m := by
      by_cases h : L + 1 < m
      · exact absurd h10 (hnl L h)
      · omega
    have hn := strnlenP_ok dmax dest 0 m s2 (by omega)
      (fun j hj => by
        rw [hcp2 j hj]
        by_cases hj' : j < L
        · exact (hL1 j hj').2
        · have : j = L := by omega
          subst this; rw [h10]; decide) hrd2 (fun _ => hz2)
    rw [Nat.zero_add] at hn
    refine Runs.bind (Runs.of_exec hn ?_)
    have hmp : m > 0 := by omega
    rw [if_pos hmp, show dest + m - 1 = dest + L by omega]
    refine Runs.bind ((Runs.loadP _ (hrd2 _ (by omega)).1 (hrd2 _ (by omega)).2).conseq (fun v s ⟨hv, hs⟩ => ?_))
    subst hs
    rw [hcp2 L hB, h10] at hv
    rw [if_pos ⟨hmp, hv⟩]
    have hwL := hrws2 L (by omega)
    refine Runs.bind ((Runs.storeP (dest + L) 0 hwL.1 hwL.2.1).conseq (fun _ s3 hs => ?_))
    subst hs
    rw [show m - 1 = L by omega]
    refine (getsDone_ok cfg dest dmax inp L st _ hrw (by omega) ((SameMeta.upd _ _ _).trans hm2)
      (fun a ha => by rw [St.upd_data_ne _ _ _ _ (by omega)]; exact hfr2 a ha)
      (fun j hj => by rw [St.upd_data_ne _ _ _ _ (by omega)]; exact hcp2 j (by omega))
      (by simp)).conseq (fun r s' ⟨h1, h2⟩ => ⟨h1, Or.inr (Or.inl ⟨by omega, Or.inl (by omega), h2⟩)⟩)
  -- no newline and no NUL among the stored bytes
  have hmL : m ≤ L := by omega
  have hno : (∀ j, j < m → st.data (inp+j) ≠ 10) ∧ ((m = dmax - 1 ∧ eof = false) ∨ (m = len ∧ m < dmax - 1 ∧ eof = true)) := by
    rcases hfin with ⟨h1, h2, _⟩ | h
    · exact absurd h2 (hL1 (m-1) (by omega)).1
    · exact h
  have hn := strnlenP_ok dmax dest 0 m s2 (by omega) (fun j hj => by rw [hcp2 j hj]; exact (hL1 j (by omega)).2) hrd2
    (fun _ => hz2)
  rw [Nat.zero_add] at hn
  refine Runs.bind (Runs.of_exec hn ?_)
  have hlast : Runs (if m > 0 then load (dest + m - 1) else pure 0 : Prog Nat) s2 (fun v s => s = s2 ∧ v ≠ 10) := by
    by_cases hp : m > 0
    · rw [if_pos hp, show dest + m - 1 = dest + (m - 1) by omega]
      refine (Runs.loadP _ (hrd2 _ (by omega)).1 (hrd2 _ (by omega)).2).conseq (fun v s ⟨hv, hs⟩ => ⟨hs, ?_⟩)
      rw [hv, hcp2 _ (by omega)]
      exact hno.1 _ (by omega)
    · rw [if_neg hp]; exact Runs.pure _ ⟨rfl, by decide⟩
  refine Runs.bind (hlast.conseq (fun v s ⟨hs, hv⟩ => ?_))
  subst hs
  rw [if_neg (fun h => hv h.2)]
  rcases hno.2 with ⟨hmd, hef⟩ | ⟨hmlen, hmd, hef⟩
  · -- dest is full
    rw [if_pos ⟨hmd, hef⟩]
    by_cases hend : len - m = 0
    · rw [if_pos hend]
      have hLl : L = m := by omega
      by_cases hm0 : m = 0
      · rw [if_pos hm0]
        subst hm0
        simp only [Nat.add_zero] at hz2
        refine Runs.pure _ ⟨⟨hm2.mapped, hm2.rd, hm2.wr, hm2.strays, hfr2⟩, Or.inl ⟨by omega, rfl, hm2.events, hz2, ?_⟩⟩
        intro a ha
        by_cases hin' : dest ≤ a ∧ a < dest + dmax
        · omega
        · exact hfr2 a hin'
      · rw [if_neg hm0]
        subst hLl
        exact (getsDone_ok cfg dest dmax inp L st s hrw (by omega) hm2 hfr2 hcp2 hz2).conseq
          (fun r s' ⟨h1, h2⟩ => ⟨h1, Or.inr (Or.inl ⟨by omega, Or.inr ⟨by omega, Or.inl (by omega)⟩, h2⟩)⟩)
    · rw [if_neg hend]
      have hml' : m < len := by omega
      have hr := hrd m hml'
      refine Runs.bind ((Runs.loadP (inp + m) (by rw [hm2.mapped]; exact hr.1) (by rw [hm2.rd]; exact hr.2)).conseq
        (fun c s' ⟨hc, hs⟩ => ?_))
      subst hs
      rw [hsrc2 m hml'] at hc
      by_cases hc10 : c = 10
      · rw [if_pos hc10]
        have hLl : L = m := by
          by_cases h : m < L
          · exact absurd (hc ▸ hc10) (hL1 m h).1
          · omega
        subst hLl
        exact (getsDone_ok cfg dest dmax inp L st s' hrw (by omega) hm2 hfr2 hcp2 hz2).conseq
          (fun r s'' ⟨h1, h2⟩ => ⟨h1, Or.inr (Or.inl ⟨by omega, Or.inr ⟨by omega, Or.inr (hc ▸ hc10)⟩, h2⟩)⟩)
      · rw [if_neg hc10]
        have hnf : ¬ GetsFits dmax len L (st.data (inp + L)) := by
          rintro (h | ⟨h1, h2 | h2⟩)
          · omega
          · omega
          · have : L = m := by omega
            subst this
            exact hc10 (hc ▸ h2)
        obtain ⟨s3, he3, pm, pr, pw, ps, pf, pe, pz, psl⟩ := herr_dest cfg dest dmax ESNOSPC s' hrws2 hpos
        refine Runs.bind (Runs.of_exec he3 ?_)
        have hrws3 : RW s3 dest dmax := by intro i hi; rw [pm, pw, pr]; exact hrws2 i hi
        cases hsl : cfg.slack with
        | true =>
          simp only [if_true]
          obtain ⟨s4, he4, hm4, hd4⟩ := memsetP_ok 0 dmax dest s3 hrws3
          refine Runs.bind (Runs.of_exec he4 (Runs.pure _ ⟨⟨?_, ?_, ?_, ?_, fun a ha => ?_⟩,
            Or.inr (Or.inr ⟨by omega, hnf, rfl, ?_, ?_, fun _ i hi => ?_⟩)⟩))
          · rw [hm4.mapped, pm, hm2.mapped]
          · rw [hm4.rd, pr, hm2.rd]
          · rw [hm4.wr, pw, hm2.wr]
          · rw [hm4.strays, ps, hm2.strays]
          · rw [hd4 a, if_neg ha, pf a ha, hfr2 a ha]
          · rw [hm4.events, pe, hm2.events]
          · rw [hd4 dest, if_pos (by omega)]
          · rw [hd4 (dest + i), if_pos (by omega)]
        | false =>
          simp only [Bool.false_eq_true, if_false]
          refine Runs.bind (Runs.pure _ (Runs.pure _ ⟨⟨?_, ?_, ?_, ?_, fun a ha => ?_⟩,
            Or.inr (Or.inr ⟨by omega, hnf, rfl, ?_, pz, fun h => by cases h⟩)⟩))
          · rw [pm, hm2.mapped]
          · rw [pr, hm2.rd]
          · rw [pw, hm2.wr]
          · rw [ps, hm2.strays]
          · rw [pf a ha, hfr2 a ha]
          · rw [pe, hm2.events]
  · -- the stream ended first
    rw [if_neg (by rw [hef]; simp)]
    have hLl : L = m := by omega
    have hm0 : m ≠ 0 := fun h => h0 ⟨h, by omega⟩
    subst hLl
    exact (getsDone_ok cfg dest dmax inp L st s hrw (by omega) hm2 hfr2 hcp2 hz2).conseq
      (fun r s' ⟨h1, h2⟩ => ⟨h1, Or.inr (Or.inl ⟨by omega, Or.inl (by omega), h2⟩)⟩)

/-! ## the whole function -/

/-- entry checks of `gets_s` on a usable dest (`dmax` within the limit when the object size is unknown, within the object when
it is known — NOTE: a known object size replaces the comparison with `RSIZE_MAX_STR`) -/
theorem gets_s_enter (cfg : Cfg) (dest dmax : Nat) (destbos : Bos) (inp len : Nat)
    (hd : dest ≠ 0) (hpos : 0 < dmax) (hnone : destbos = none → dmax ≤ RSIZE_MAX_STR)
    (hbos : ∀ b, destbos = some b → dmax ≤ b) :
    gets_s cfg dest dmax destbos inp len = getsBody cfg dest dmax inp len := by
  have hz : dmax ≠ 0 := by omega
  unfold gets_s
  rw [if_neg hd, if_neg hz]
  cases destbos with
  | none =>
    have : ¬ dmax > RSIZE_MAX_STR := by have := hnone rfl; omega
    simp only [this, if_false]
  | some b =>
    have : ¬ dmax > b := by have := hbos b rfl; omega
    simp only [this, if_false]

/-- the three exits of gets_s on a usable dest; `L` = length of the line (see `getsBody_spec`) -/
def GetsPost (cfg : Cfg) (dest dmax inp len L : Nat) (st : St) (r : Nat) (s : St) : Prop :=
  ((len = 0 ∨ (inp = 0 ∧ dmax ≠ 1)) ∧ r = (if inp = 0 then 21 else NEG1) ∧ s.events = st.events ∧ s.data dest = 0 ∧
      (∀ a, a ≠ dest → s.data a = st.data a)) ∨
  (len ≠ 0 ∧ ¬ (inp = 0 ∧ dmax ≠ 1) ∧ GetsFits dmax len L (st.data (inp+L)) ∧ GetsOk cfg dest dmax inp L st r s) ∨
  (len ≠ 0 ∧ ¬ (inp = 0 ∧ dmax ≠ 1) ∧ ¬ GetsFits dmax len L (st.data (inp+L)) ∧ r = ESNOSPC ∧
      s.events = st.events ++ [.handler .str ESNOSPC] ∧ s.data dest = 0 ∧
      (cfg.slack = true → ∀ i, i < dmax → s.data (dest+i) = 0))

/-- **gets_s, every exit on a usable dest, every stream** (incl. the read-error stream `inp = 0`) -/
theorem gets_s_runs (cfg : Cfg) (dest dmax : Nat) (destbos : Bos) (inp len L : Nat) (st : St)
    (hd : dest ≠ 0) (hpos : 0 < dmax) (hnone : destbos = none → dmax ≤ RSIZE_MAX_STR)
    (hbos : ∀ b, destbos = some b → dmax ≤ b) (hrw : RW st dest dmax)
    (hrd : ∀ j, j < len → st.mapped (inp+j) = true ∧ st.rd (inp+j) = true)
    (hdisj : dest + dmax ≤ inp ∨ inp + len ≤ dest)
    (hL1 : ∀ j, j < L → st.data (inp+j) ≠ 10 ∧ st.data (inp+j) ≠ 0) (hL2 : L ≤ len)
    (hL3 : L < len → st.data (inp+L) = 10 ∨ st.data (inp+L) = 0) :
    Runs (gets_s cfg dest dmax destbos inp len) st
      (fun r s => GetsFrame dest dmax st s ∧ GetsPost cfg dest dmax inp len L st r s) := by
  rw [gets_s_enter cfg dest dmax destbos inp len hd hpos hnone hbos]
  by_cases hin : inp = 0 ∧ dmax ≠ 1
  · unfold getsBody
    rw [if_pos hin]
    have hw0 := hrw 0 hpos
    simp only [Nat.add_zero] at hw0
    refine Runs.bind ((Runs.storeP dest 0 hw0.1 hw0.2.1).conseq (fun _ s hs => ?_))
    subst hs
    refine Runs.pure _ ⟨⟨rfl, rfl, rfl, rfl, fun a ha => ?_⟩, Or.inl ⟨Or.inr hin, by rw [if_pos hin.1], rfl, by simp, fun a ha => ?_⟩⟩
    · exact St.upd_data_ne _ _ _ _ (by intro h; subst h; exact ha ⟨Nat.le_refl _, by omega⟩)
    · exact St.upd_data_ne _ _ _ _ ha
  · refine (getsBody_spec cfg dest dmax inp len L st hpos hrw hin hrd hdisj hL1 hL2 hL3).conseq (fun r s ⟨h1, h2⟩ => ⟨h1, ?_⟩)
    rcases h2 with ⟨a, b⟩ | ⟨a, b⟩ | ⟨a, b⟩
    · exact Or.inl ⟨Or.inl a, b⟩
    · exact Or.inr (Or.inl ⟨a, hin, b⟩)
    · exact Or.inr (Or.inr ⟨a, hin, b⟩)

/-! ## the line as a list function of the stream -/

/-- the stream region as a list of bytes -/
def streamOf (st : St) (inp len : Nat) : List Nat := (List.range len).map (fun j => st.data (inp + j))

/-- the line gets_s delivers: the bytes in front of the first newline (or all of them) -/
def lineOf (s : List Nat) : List Nat := s.takeWhile (fun c => c ≠ 10)

/-- … cut at the first NUL as well: what a C string can hold of it -/
def lineStr (s : List Nat) : List Nat := s.takeWhile (fun c => c ≠ 10 ∧ c ≠ 0)

theorem streamOf_length (st : St) (inp len : Nat) : (streamOf st inp len).length = len := by simp [streamOf]

theorem streamOf_getD (st : St) (inp len j : Nat) (hj : j < len) : (streamOf st inp len).getD j 0 = st.data (inp + j) := by
  simp [streamOf, List.getD_eq_getElem?_getD, hj]

theorem takeWhile_spec (p : Nat → Bool) (s : List Nat) :
    (s.takeWhile p).length ≤ s.length ∧
    (∀ j, j < (s.takeWhile p).length → p (s.getD j 0) = true ∧ (s.takeWhile p).getD j 0 = s.getD j 0) ∧
    ((s.takeWhile p).length < s.length → p (s.getD (s.takeWhile p).length 0) = false) := by
  induction s with
  | nil => simp
  | cons c cs ih =>
    by_cases hc : p c = true
    · rw [List.takeWhile_cons_of_pos hc]
      refine ⟨by simpa using ih.1, fun j hj => ?_, fun h => ?_⟩
      · cases j with
        | zero => simpa using hc
        | succ j => simpa using ih.2.1 j (by simpa using hj)
      · simpa using ih.2.2 (by simpa using h)
    · rw [List.takeWhile_cons_of_neg hc]
      refine ⟨by simp, fun j hj => by simp at hj, fun _ => by simpa using hc⟩

/-- a line without NUL is the same with and without the cut -/
theorem lineStr_eq_lineOf (s : List Nat) (h : 0 ∉ lineOf s) : lineStr s = lineOf s := by
  unfold lineStr lineOf at *
  induction s with
  | nil => rfl
  | cons c cs ih =>
    by_cases hc : c = 10
    · subst hc; simp
    · have hc0 : c ≠ 0 := by
        intro h0; apply h; rw [List.takeWhile_cons, if_pos (by simpa using hc)]; simp [h0]
      have hm : 0 ∉ List.takeWhile (fun c => decide (c ≠ 10)) cs := by
        intro hm; apply h; rw [List.takeWhile_cons, if_pos (by simpa using hc)]; exact List.mem_cons_of_mem _ hm
      rw [List.takeWhile_cons, List.takeWhile_cons, ih hm]
      simp [hc, hc0]

/-- the index characterisation `getsBody_spec` asks for, from the list definition -/
theorem lineStr_spec (st : St) (inp len : Nat) :
    let L := (lineStr (streamOf st inp len)).length
    (∀ j, j < L → st.data (inp+j) ≠ 10 ∧ st.data (inp+j) ≠ 0) ∧ L ≤ len ∧
    (L < len → st.data (inp+L) = 10 ∨ st.data (inp+L) = 0) ∧
    (∀ j, j < L → (lineStr (streamOf st inp len)).getD j 0 = st.data (inp+j)) := by
  intro L
  obtain ⟨h1, h2, h3⟩ := takeWhile_spec (fun c => decide (c ≠ 10 ∧ c ≠ 0)) (streamOf st inp len)
  rw [streamOf_length] at h1 h3
  have hL : L = (List.takeWhile (fun c => decide (c ≠ 10 ∧ c ≠ 0)) (streamOf st inp len)).length := rfl
  rw [← hL] at h1 h2 h3
  refine ⟨fun j hj => ?_, h1, fun h => ?_, fun j hj => ?_⟩
  · have := (h2 j hj).1
    rw [streamOf_getD st inp len j (by omega)] at this
    simpa using this
  · have := h3 h
    rw [streamOf_getD st inp len L h] at this
    simp only [decide_eq_false_iff_not] at this
    omega
  · have := (h2 j hj).2
    rw [streamOf_getD st inp len j (by omega)] at this
    exact this

/-! ## a concrete state for the non-vacuity `example`s: dest = 100 (8 cells holding 7), the stream `"ab\ncd"` at 200 -/
def getsExSt : St :=
  { data := fun a => if 100 ≤ a ∧ a < 108 then 7 else if a = 200 then 97 else if a = 201 then 98 else if a = 202 then 10
      else if a = 203 then 99 else if a = 204 then 100 else 0
    mapped := fun a => decide (100 ≤ a ∧ a < 108 ∨ 200 ≤ a ∧ a < 205)
    rd := fun a => decide (100 ≤ a ∧ a < 108 ∨ 200 ≤ a ∧ a < 205)
    wr := fun a => decide (100 ≤ a ∧ a < 108) }

theorem getsExSt_rw : RW getsExSt 100 8 := by
  intro i hi
  simp only [getsExSt, decide_eq_true_eq]
  omega

theorem getsExSt_rd : ∀ j, j < 5 → getsExSt.mapped (200+j) = true ∧ getsExSt.rd (200+j) = true := by
  intro j hj
  simp only [getsExSt, decide_eq_true_eq]
  omega

theorem getsExSt_line : lineOf (streamOf getsExSt 200 5) = [97, 98] := by decide

end SafeC

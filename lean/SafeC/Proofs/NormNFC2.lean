import SafeC.Proofs.NormNFC
import SafeC.Proofs.NormPairMap2
/-! C17 — NFC of the repaired model = UAX #15 NFC over UCD 14.0 -/
namespace SafeC.UAX15
open SafeC.Norm
/-- NFD: D68 full canonical decomposition of every character, then the canonical ordering (D109; unique by
`canonicalOrdering_unique`, computed by `reorderPure`) — all over UCD 14.0 -/
def nfd (xs : List Nat) : List Nat := reorderPure UCD.ccc (UCD.decompose xs)
/-- NFC: the Canonical Composition Algorithm D117 (classes and primary composites D114 of UCD 14.0) applied to the NFD -/
def nfc (xs : List Nat) : List Nat := d117 UCD.ccc UCD.primaryComposite (nfd xs)
end SafeC.UAX15

namespace SafeC.Norm
open SafeC.Gen

/-- **NFC of the repaired code = UAX #15 NFC over UCD 14.0**, every string (any length) of code points assigned in Unicode 14.0
other than U+037E -/
theorem nfcPure_fixed_is_uax15 (xs : List Nat) (h : ∀ c ∈ xs, UCD.assigned c = true ∧ c ≠ 0x37E) :
    nfcPure allFixed xs = UAX15.nfc xs := by
  rw [nfcPure_is_uax15 allFixed xs h]
  unfold UAX15.nfc UAX15.nfd
  apply d117_congr_pc (S := fun c => UCD.assigned c = true)
  · intro d hd
    have hd' := reorderPure_mem.mp hd
    unfold UCD.decompose at hd'
    simp only [List.mem_flatMap] at hd'
    obtain ⟨c, hc, hdc⟩ := hd'
    exact fullDecomp_assigned (h c hc).1 hdc
  · intro a b c ha hb hp
    have ha' : a ≤ UniCompos.unicodeMax := by have := assigned_lt ha; rw [unicodeMax_eq]; omega
    have hb' : b ≤ UniCompos.unicodeMax := by have := assigned_lt hb; rw [unicodeMax_eq]; omega
    exact (pcOf_to_ucd ha' hb' hp).2
  · intro a b ha hb
    have ha' : a ≤ UniCompos.unicodeMax := by have := assigned_lt ha; rw [unicodeMax_eq]; omega
    have hb' : b ≤ UniCompos.unicodeMax := by have := assigned_lt hb; rw [unicodeMax_eq]; omega
    exact pcOf_eq_ucd ha' hb'

theorem nfdPure_eq_uax15 (xs : List Nat) (h : ∀ c ∈ xs, UCD.assigned c = true ∧ c ≠ 0x37E) : nfdPure xs = UAX15.nfd xs :=
  (nfdPure_is_uax15 xs h).1

end SafeC.Norm

namespace SafeC.Norm
open SafeC.Gen

set_option maxRecDepth 100000 in
/-- a primary composite of a BMP first character is a BMP character -/
theorem comp_bmp_check : allBelow (fun i => decide (0x10000 ≤ (UCD.compEntry i).1) || decide ((UCD.compEntry i).2.2 < 0x10000)) UCD14.compN = true := by
  decide +kernel

attribute [local irreducible] cell UniCompos.main UniCompos.planes UniCompos.rows UniCompos.pairs UniCompos.listOff UniCompos.listLen
  UCD14.compP UniCanon.main UniCanon.planes UniCanon.rows UniCanon.tbl1 UniCanon.tbl2 UniCanon.tbl3 UniCanon.tbl4

/-- the `(uint16_t)` cast is harmless when the second character is in the BMP -/
theorem pcOf_unrepaired_bmp {a b : Nat} (hb : b < 0x10000) : pcOf unrepaired a b = pcOf allFixed a b := by
  have hk : ∀ fx : Fixes, (if a < UniCompos.firstLong ∧ (!fx.compCast) = true then b % 65536 else b) = b := by
    intro fx; split
    · exact Nat.mod_eq_of_lt hb
    · rfl
  unfold pcOf compositeCp
  simp only [hk]

theorem primaryComposite_bmp {a b c : Nat} (ha : a < 0x10000) (h : UCD.primaryComposite a b = some c) : c < 0x10000 := by
  unfold UCD.primaryComposite at h
  cases hh : UCD.hangulCompose a b with
  | some s =>
    rw [hh] at h
    have hs : s = c := Option.some.inj h
    rw [← hs]
    unfold UCD.hangulCompose at hh
    split at hh
    · rename_i hlv
      have e := (Option.some.inj hh).symm
      unfold UCD.LBase UCD.LCount UCD.VBase UCD.VCount at hlv
      unfold UCD.SBase UCD.LBase UCD.VCount UCD.VBase UCD.TCount at e
      omega
    · split at hh
      · rename_i hlv hlvt
        have e := (Option.some.inj hh).symm
        unfold UCD.isHangulS UCD.SBase UCD.SCount UCD.TCount UCD.TBase at hlvt
        simp only [Bool.and_eq_true, decide_eq_true_eq] at hlvt
        unfold UCD.TBase at e
        omega
      · cases hh
  | none =>
    rw [hh] at h
    obtain ⟨m, hm, e1, e2, e3⟩ := tableCompose_sound a b _ _ _ _ h
    have := allBelow_spec comp_bmp_check m hm
    simp only [Bool.or_eq_true, decide_eq_true_eq] at this
    rw [e1, e3] at this
    omega

/-- **NFC of the code as it is = UAX #15 NFC over UCD 14.0** for every string (any length) of code points assigned in Unicode 14.0
other than U+037E **whose NFD lies in the BMP** (no supplementary-plane character, no CJK compatibility ideograph with a
supplementary decomposition).  Outside the hypothesis: `nfc_cast_witness`. -/
theorem nfcPure_unrepaired_is_uax15_bmp (xs : List Nat) (h : ∀ c ∈ xs, UCD.assigned c = true ∧ c ≠ 0x37E)
    (hbmp : ∀ d ∈ UAX15.nfd xs, d < 0x10000) : nfcPure unrepaired xs = UAX15.nfc xs := by
  rw [← nfcPure_fixed_is_uax15 xs h, nfcPure_is_uax15 unrepaired xs h, nfcPure_is_uax15 allFixed xs h]
  apply d117_congr_pc (S := fun c => UCD.assigned c = true ∧ c < 0x10000)
  · intro d hd
    refine ⟨?_, hbmp d hd⟩
    have hd' := reorderPure_mem.mp hd
    unfold UCD.decompose at hd'
    simp only [List.mem_flatMap] at hd'
    obtain ⟨c, hc, hdc⟩ := hd'
    exact fullDecomp_assigned (h c hc).1 hdc
  · intro a b c ha hb hp
    rw [pcOf_unrepaired_bmp hb.2] at hp
    have ha' : a ≤ UniCompos.unicodeMax := by rw [unicodeMax_eq]; omega
    have hb' : b ≤ UniCompos.unicodeMax := by rw [unicodeMax_eq]; omega
    have := pcOf_to_ucd ha' hb' hp
    exact ⟨this.2, primaryComposite_bmp ha.2 this.1⟩
  · intro a b _ hb
    exact pcOf_unrepaired_bmp hb.2

end SafeC.Norm

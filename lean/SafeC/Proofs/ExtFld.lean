import SafeC.Proofs.CopyWrappers
import SafeC.Models.Fld
/-!
# The field copies `strcpyfld_s`, `strcpyfldin_s`, `strcpyfldout_s`: helper lemmas

* `fldLoop_stop/step/bump` — one iteration of the loop, kind by kind;
* `fldLoop_run`  — the loop on a source it does not run into the bumper with: exact result;
* `fldLoop_safe` — the loop for any placement / content: either `.inr (d, m)` inside dest or the ESOVRLP exit;
* `fldG_entry`   — the entry checks on a usable dest (`destbos = none`, or `some b` with `dmax ≤ b`);
* `fldBody_*`    — every exit of the three entry points after the dest/dmax entry checks.
-/
namespace SafeC
open Gen

def FldCont : FldKind → Nat → Nat → Prop
  | .fld, _, sl => sl ≠ 0
  | .fldin, m, sl => m ≠ 0 ∧ sl ≠ 0
  | .fldout, m, sl => 1 < m ∧ sl ≠ 0

/-- the whole loop condition in state `st` -/
def FldGo (kind : FldKind) (st : St) (s m sl : Nat) : Prop :=
  FldCont kind m sl ∧ (kind = .fldin → st.data s ≠ 0)

theorem fldLoop_stop (cfg : Cfg) (kind : FldKind) (onDest : Bool) (B oD oM f d s m sl : Nat) (st : St)
    (hs : st.mapped s = true ∧ st.rd s = true) (h : ¬ FldGo kind st s m sl) :
    exec (fldLoop cfg kind onDest B oD oM (f+1) d s m sl) st = .ok (.inr (d, m), st) := by
  unfold FldGo at h
  cases kind <;> unfold fldLoop <;> simp only [FldCont] at h
  · have : sl = 0 := by simpa using h
    simp [this, exec_bind]
  · by_cases h1 : m = 0 ∨ sl = 0
    · simp [h1, exec_bind]
    · have : st.data s = 0 := by
        have h2 : m ≠ 0 ∧ sl ≠ 0 := by omega
        simpa [h2] using h
      simp [h1, exec_bind, exec_load_ok _ _ hs.1 hs.2, this]
  · have : ¬ (m > 1 ∧ sl ≠ 0) := by simpa using h
    simp [this, exec_bind]

theorem fldLoop_step (cfg : Cfg) (kind : FldKind) (onDest : Bool) (B oD oM f d s m sl : Nat) (st : St)
    (hs : st.mapped s = true ∧ st.rd s = true) (hd : st.mapped d = true ∧ st.wr d = true)
    (h : FldGo kind st s m sl) (hb : (if onDest then d else s) ≠ B) :
    exec (fldLoop cfg kind onDest B oD oM (f+1) d s m sl) st =
      exec (fldLoop cfg kind onDest B oD oM f (d+1) (s+1) (m-1) (sl-1)) (st.upd d (st.data s)) := by
  unfold FldGo at h
  cases kind <;> (conv => lhs; unfold fldLoop) <;> simp only [FldCont] at h
  · simp [h.1, exec_bind, hb, exec_load_ok _ _ hs.1 hs.2, exec_store_ok _ _ _ hd.1 hd.2]
  · have h1 : ¬ (m = 0 ∨ sl = 0) := by omega
    simp [h1, h.2, exec_bind, hb, exec_load_ok _ _ hs.1 hs.2, exec_store_ok _ _ _ hd.1 hd.2]
  · simp [h.1, exec_bind, hb, exec_load_ok _ _ hs.1 hs.2, exec_store_ok _ _ _ hd.1 hd.2]

theorem fldLoop_bump (cfg : Cfg) (kind : FldKind) (onDest : Bool) (B oD oM f d s m sl : Nat) (st : St)
    (hs : st.mapped s = true ∧ st.rd s = true)
    (h : FldGo kind st s m sl) (hb : (if onDest then d else s) = B) :
    exec (fldLoop cfg kind onDest B oD oM (f+1) d s m sl) st =
      exec (do handleError cfg oD oM ESOVRLP; pure (.inl ESOVRLP) : Prog (Nat ⊕ (Nat × Nat))) st := by
  unfold FldGo at h
  cases kind <;> unfold fldLoop <;> simp only [FldCont] at h
  · simp [h.1, exec_bind, hb]
  · have h1 : ¬ (m = 0 ∨ sl = 0) := by omega
    simp [h1, h.2, exec_bind, hb, exec_load_ok _ _ hs.1 hs.2]
  · simp [h.1, exec_bind, hb]


theorem fldLoop_zero (cfg : Cfg) (kind : FldKind) (onDest : Bool) (B oD oM d s m sl : Nat) :
    fldLoop cfg kind onDest B oD oM 0 d s m sl = pure (.inr (d, m)) := by
  unfold fldLoop; rfl

/-- **The loop on operands it does not run into the bumper with.**  `n` iterations are made: the loop
condition holds for `j < n` and fails at `n` (or the fuel is used up); the bumper is not met in these
`n` iterations; the `n` cells read and the `n` cells written do not overlap.  Then the loop falls through
with `(dest + n, dmax - n)` having stored `src[0..n)` — values of the ORIGINAL state — to `dest[0..n)`. -/
theorem fldLoop_run (cfg : Cfg) (kind : FldKind) (onDest : Bool) (B oD oM : Nat) (n : Nat) :
    ∀ (fuel d s m sl : Nat) (st : St),
    (∀ a, st.mapped a = true ∧ st.rd a = true) →
    RW st d n → n ≤ fuel →
    (d + n ≤ s ∨ s + n ≤ d) →
    (∀ j, j < n → (if onDest then d + j else s + j) ≠ B) →
    (∀ j, j < n → FldCont kind (m - j) (sl - j) ∧ (kind = .fldin → st.data (s + j) ≠ 0)) →
    (n = fuel ∨ ¬ FldCont kind (m - n) (sl - n) ∨
      (kind = .fldin ∧ st.data (s + n) = 0 ∧ (n = 0 ∨ s + n ≠ d))) →
    ∃ st', exec (fldLoop cfg kind onDest B oD oM fuel d s m sl) st = .ok (.inr (d + n, m - n), st') ∧
      SameMeta st' st ∧
      ∀ a, st'.data a = if d ≤ a ∧ a < d + n then st.data (s + (a - d)) else st.data a := by
  induction n with
  | zero =>
    intro fuel d s m sl st hall _ _ _ _ _ hstop
    refine ⟨st, ?_, SameMeta.refl _, by intro a; simp; intro h1 h2; omega⟩
    cases fuel with
    | zero => rw [fldLoop_zero]; rfl
    | succ f =>
      have hng : ¬ FldGo kind st s m sl := by
        intro hg
        rcases hstop with h | h | h
        · omega
        · exact h (by simpa using hg.1)
        · exact hg.2 h.1 (by simpa using h.2.1)
      exact fldLoop_stop cfg kind onDest B oD oM f d s m sl st (hall s) hng
  | succ n ih =>
    intro fuel d s m sl st hall hrw hfuel hdisj hbump hgo hstop
    cases fuel with
    | zero => omega
    | succ f =>
      have hg : FldGo kind st s m sl := by
        have := hgo 0 (by omega)
        simpa [FldGo] using this
      have hb : (if onDest then d else s) ≠ B := by simpa using hbump 0 (by omega)
      obtain ⟨hdm, hdw, _⟩ := hrw.head
      rw [fldLoop_step cfg kind onDest B oD oM f d s m sl st (hall s) ⟨hdm, hdw⟩ hg hb]
      have hne : ∀ j, j < n → (st.upd d (st.data s)).data (s + 1 + j) = st.data (s + (j+1)) := by
        intro j hj
        have e : s + 1 + j = s + (j+1) := by omega
        rw [e]; exact St.upd_data_ne _ _ _ _ (by omega)
      obtain ⟨st', he, hm, hdat⟩ := ih f (d+1) (s+1) (m-1) (sl-1) (st.upd d (st.data s))
        (by intro a; exact hall a) (RW.of_sameMeta (SameMeta.upd _ _ _) hrw.tail) (by omega) (by omega)
        (by
          intro j hj
          have := hbump (j+1) (by omega)
          have e1 : d + 1 + j = d + (j+1) := by omega
          have e2 : s + 1 + j = s + (j+1) := by omega
          rw [e1, e2]; exact this)
        (by
          intro j hj
          have := hgo (j+1) (by omega)
          have e1 : m - 1 - j = m - (j+1) := by omega
          have e2 : sl - 1 - j = sl - (j+1) := by omega
          rw [e1, e2, hne j (by omega)]; exact this)
        (by
          have e1 : m - 1 - n = m - (n+1) := by omega
          have e2 : sl - 1 - n = sl - (n+1) := by omega
          rw [e1, e2]
          rcases hstop with h | h | h
          · exact Or.inl (by omega)
          · exact Or.inr (Or.inl h)
          · refine Or.inr (Or.inr ⟨h.1, ?_, ?_⟩)
            · have e : s + 1 + n = s + (n+1) := by omega
              rw [e, St.upd_data_ne _ _ _ _ (by omega)]; exact h.2.1
            · omega)
      have e1 : d + 1 + n = d + (n+1) := by omega
      have e2 : m - 1 - n = m - (n+1) := by omega
      rw [e1, e2] at he
      refine ⟨st', he, hm.trans (SameMeta.upd _ _ _), ?_⟩
      intro a
      rw [hdat a]
      by_cases h1 : d + 1 ≤ a ∧ a < d + (n+1)
      · have h2 : d ≤ a ∧ a < d + (n+1) := by omega
        rw [e1, if_pos h1, if_pos h2]
        have e : s + 1 + (a - (d+1)) = s + (a - d) := by omega
        rw [e]; exact St.upd_data_ne _ _ _ _ (by omega)
      · rw [e1, if_neg h1]
        by_cases h2 : a = d
        · subst h2
          have h3 : a ≤ a ∧ a < a + (n+1) := by omega
          rw [if_pos h3]; simp
        · have h3 : ¬ (d ≤ a ∧ a < d + (n+1)) := by omega
          rw [if_neg h3]; exact St.upd_data_ne _ _ _ _ h2

theorem FldCont.pos {kind : FldKind} {m sl : Nat} (h : FldCont kind m sl) (hf : kind = .fld → sl ≤ m) :
    1 ≤ m ∧ sl ≠ 0 ∧ (kind = .fldout → 1 ≤ m - 1) := by
  cases kind <;> simp only [FldCont] at h
  · have := hf rfl
    exact ⟨by omega, h, by intro h; cases h⟩
  · exact ⟨by omega, h.2, by intro h; cases h⟩
  · exact ⟨by omega, h.2, by intro _; omega⟩

/-- what the loop guarantees when it falls through -/
structure FldThrough (kind : FldKind) (oD oM m sl : Nat) (st st' : St) (d' m' : Nat) : Prop where
  same : SameMeta st' st
  frame : ∀ a, ¬ (oD ≤ a ∧ a < oD + oM) → st'.data a = st.data a
  lo : oD ≤ d'
  hi : d' + m' ≤ oD + oM
  out_room : kind = .fldout → 1 ≤ m → 1 ≤ m'
  lt_room : sl < m → 1 ≤ m'

/-- **Safety of the field loop, for every placement, content and length** (style of `copyLoop_safe`).
With the `oM` cells of dest declared and everything readable: no fault, no stray access, nothing outside
`[oD, oD+oM)` changes; the loop either exits through `handle_error(…, ESOVRLP)` (one handler event, dest
cleared) or falls through with a remaining extent `[d', d'+m')` inside dest.  `strcpyfld_s` needs
`slen ≤ dmax` (its entry check) for that: its loop does not look at `dmax`. -/
theorem fldLoop_safe (cfg : Cfg) (kind : FldKind) (onDest : Bool) (B oD oM : Nat) (hoM : 0 < oM)
    (fuel d s m sl : Nat) (st : St)
    (hall : ∀ a, st.mapped a = true ∧ st.rd a = true)
    (hrw : RW st oD oM) (hinv : oD ≤ d ∧ d + m ≤ oD + oM) (hfld : kind = .fld → sl ≤ m) :
    (∃ st', exec (fldLoop cfg kind onDest B oD oM fuel d s m sl) st = .ok (.inl ESOVRLP, st') ∧
        SafePost cfg oD oM st st' ESOVRLP ∧ UsablePost cfg oD oM st' ESOVRLP) ∨
    (∃ d' m' st', exec (fldLoop cfg kind onDest B oD oM fuel d s m sl) st = .ok (.inr (d', m'), st') ∧
        FldThrough kind oD oM m sl st st' d' m') := by
  induction fuel generalizing d s m sl st with
  | zero =>
    rw [fldLoop_zero]
    exact Or.inr ⟨d, m, st, rfl, SameMeta.refl _, fun _ _ => rfl, hinv.1, hinv.2, fun _ h => h, fun h => by omega⟩
  | succ f ih =>
    by_cases hg : FldGo kind st s m sl
    · by_cases hb : (if onDest then d else s) = B
      · rw [fldLoop_bump cfg kind onDest B oD oM f d s m sl st (hall s) hg hb]
        obtain ⟨st', he, hsp, hup⟩ := herr_full cfg oD oM ESOVRLP st hrw hoM ESOVRLP_ne_EOK
        exact Or.inl ⟨st', by simp [exec_bind, he], hsp, hup⟩
      · obtain ⟨hm1, hsl0, hout⟩ := hg.1.pos hfld
        have hdm : st.mapped d = true ∧ st.wr d = true ∧ st.rd d = true := by
          have := hrw (d - oD) (by omega)
          have e : oD + (d - oD) = d := by omega
          rwa [e] at this
        rw [fldLoop_step cfg kind onDest B oD oM f d s m sl st (hall s) ⟨hdm.1, hdm.2.1⟩ hg hb]
        rcases ih (d+1) (s+1) (m-1) (sl-1) (st.upd d (st.data s)) (by intro a; exact hall a)
            (RW.of_sameMeta (SameMeta.upd _ _ _) hrw) (by omega) (by intro h; have := hfld h; omega) with
          ⟨st', he, hsp, hup⟩ | ⟨d', m', st', he, ht⟩
        · refine Or.inl ⟨st', he, ?_, hup⟩
          refine ⟨hsp.mapped, hsp.rd, hsp.wr, hsp.strays, ?_, hsp.ok_events, hsp.fail_events⟩
          intro a ha
          rw [hsp.frame a ha]; exact St.upd_data_ne _ _ _ _ (by omega)
        · refine Or.inr ⟨d', m', st', he, ht.same.trans (SameMeta.upd _ _ _), ?_, ht.lo, ht.hi, ?_, ?_⟩
          · intro a ha
            rw [ht.frame a ha]; exact St.upd_data_ne _ _ _ _ (by omega)
          · intro hk _; exact ht.out_room hk (hout hk)
          · intro hlt; exact ht.lt_room (by omega)
    · rw [fldLoop_stop cfg kind onDest B oD oM f d s m sl st (hall s) hg]
      exact Or.inr ⟨d, m, st, rfl, SameMeta.refl _, fun _ _ => rfl, hinv.1, hinv.2, fun _ h => h, fun h => by omega⟩

/-! ## the entry checks -/

/-- fuel of the loop: each iteration consumes one of `slen` (fld) or `dmax` (fldin, fldout) -/
def fldFuel (kind : FldKind) (dmax slen : Nat) : Nat :=
  match kind with | .fld => slen | _ => dmax

/-- the twin loops behind `if (dest < src)` -/
def fldCall (kind : FldKind) (cfg : Cfg) (dest dmax src slen : Nat) : Prog (Nat ⊕ (Nat × Nat)) :=
  if dest < src then fldLoop cfg kind true src dest dmax (fldFuel kind dmax slen) dest src dmax slen
  else fldLoop cfg kind false dest dest dmax (fldFuel kind dmax slen) dest src dmax slen

/-- after the loop: the overlap exit returns its code, otherwise the rest of the field is nulled -/
def fldTail : Nat ⊕ (Nat × Nat) → Prog Nat
  | .inl code => pure code
  | .inr (d, m) => do
    nullSlack d m
    pure EOK

/-- what `fldG` runs once `slen`, `dest`, `dmax` have passed the entry checks -/
def fldBody (kind : FldKind) (cfg : Cfg) (dest dmax src slen : Nat) : Prog Nat :=
  if src = 0 then do handleError cfg dest dmax ESNULLP; pure ESNULLP
  else chkSlenNospcClear cfg dest dmax slen RSIZE_MAX_STR (fldCall kind cfg dest dmax src slen >>= fldTail)

/-- a known object size that covers `dmax` takes the same path as an unknown one -/
theorem chkDmaxClear_within (cfg : Cfg) (dest dmax b max : Nat) (k : Prog Nat) (hb : dmax ≤ b) (hm : dmax ≤ max) :
    chkDmaxClear cfg dest dmax (some b) max k = chkDmaxClear cfg dest dmax none max k := by
  have h1 : ¬ dmax > b := by omega
  have h2 : ¬ dmax > max := by omega
  simp only [chkDmaxClear, chkDmaxClearG, h1, h2, if_false]

theorem chkDmax_within (dmax b max : Nat) (k : Prog Nat) (hb : dmax ≤ b) (hm : dmax ≤ max) :
    chkDmax dmax (some b) max k = chkDmax dmax none max k := by
  have h1 : ¬ dmax > b := by omega
  have h2 : ¬ dmax > max := by omega
  simp only [chkDmax, h1, h2, if_false]

/-- usable dest: `slen ≠ 0`, `dest ≠ 0`, `0 < dmax ≤ RSIZE_MAX_STR`, object size unknown or at least `dmax` -/
theorem fldG_entry (kind : FldKind) (cfg : Cfg) (dest dmax src slen : Nat) (destbos : Bos)
    (hsl : slen ≠ 0) (hd : dest ≠ 0) (hpos : 0 < dmax) (hle : dmax ≤ RSIZE_MAX_STR)
    (hbos : ∀ b, destbos = some b → dmax ≤ b) :
    fldG kind cfg dest dmax src slen destbos = fldBody kind cfg dest dmax src slen := by
  have hz : dmax ≠ 0 := by omega
  have h2 : ¬ dmax > RSIZE_MAX_STR := by omega
  unfold fldG
  rw [if_neg hsl, if_neg hd, if_neg hz]
  cases destbos with
  | none =>
    cases kind <;> simp only [chkDmaxClear, chkDmaxClearG, chkDmax, h2, if_false] <;> rfl
  | some b =>
    have h1 : ¬ dmax > b := by have := hbos b rfl; omega
    cases kind <;> simp only [chkDmaxClear, chkDmaxClearG, chkDmax, h1, if_false] <;> rfl

/-- `slen = 0` is the documented no-op -/
theorem fldG_slen0 (kind : FldKind) (cfg : Cfg) (dest dmax src : Nat) (destbos : Bos) (st : St) :
    exec (fldG kind cfg dest dmax src 0 destbos) st = .ok (EOK, st) := by
  simp [fldG]

/-! ## the exits, one by one -/

/-- a failing exit through `handle_error(dest, len, code)` described exactly -/
structure FldFail (cfg : Cfg) (dest len : Nat) (st st' : St) (code : Nat) : Prop where
  mapped : st'.mapped = st.mapped
  rd : st'.rd = st.rd
  wr : st'.wr = st.wr
  strays : st'.strays = st.strays
  events : st'.events = st.events ++ [.handler .str code]
  first : st'.data dest = 0
  slack : cfg.slack = true → ∀ a, st'.data a = if dest ≤ a ∧ a < dest + len then 0 else st.data a
  noslack : cfg.slack = false → ∀ a, a ≠ dest → st'.data a = st.data a

/-- `handle_error` with a clear length `len ≤ ext` that may be 0 (then `dest[0]` is already 0): exact effect -/
theorem handleError_exact (cfg : Cfg) (dest len ext code : Nat) (st : St) (hw : RW st dest ext)
    (hpos : 0 < ext) (hle : len ≤ ext) (h0 : len = 0 → st.data dest = 0) :
    ∃ st', exec (handleError cfg dest len code) st = .ok ((), st') ∧ FldFail cfg dest len st st' code := by
  by_cases hl : 0 < len
  · have hw' : RW st dest len := fun i hi => hw i (by omega)
    obtain ⟨st', he, hm, hr, hwr, hst, hev, hd0, hsl, hns⟩ := handleError_ok cfg dest len code st hw' hl
    exact ⟨st', he, hm, hr, hwr, hst, hev, hd0, hsl, hns⟩
  · have hl0 : len = 0 := by omega
    subst hl0
    have hd := h0 rfl
    have hh := hw 0 hpos
    simp only [Nat.add_zero] at hh
    unfold handleError handlerS
    cases hcs : cfg.slack with
    | true =>
      refine ⟨{ st with events := st.events ++ [.handler .str code] }, by simp [memsetP, exec_bind],
        rfl, rfl, rfl, rfl, rfl, hd, ?_, (fun h => by rw [hcs] at h; cases h)⟩
      intro _ a
      have : ¬ (dest ≤ a ∧ a < dest + 0) := by omega
      rw [if_neg this]
    | false =>
      refine ⟨{ st.upd dest 0 with events := st.events ++ [.handler .str code] }, ?_,
        rfl, rfl, rfl, rfl, rfl, ?_, (fun h => by rw [hcs] at h; cases h), ?_⟩
      · simp [exec_bind, exec_store_ok _ _ _ hh.1 hh.2.1]
      · simp [St.upd]
      · intro _ a ha
        simp [St.upd, ha]

/-- a `FldFail` on a part of dest is a `SafePost` on dest -/
theorem FldFail.safePost {cfg : Cfg} {dest len dmax : Nat} {st st' : St} {code : Nat}
    (h : FldFail cfg dest len st st' code) (hle : len ≤ dmax) (hpos : 0 < dmax) (hne : code ≠ EOK) :
    SafePost cfg dest dmax st st' code := by
  refine ⟨h.mapped, h.rd, h.wr, h.strays, ?_, fun hc => absurd hc hne, fun _ => h.events⟩
  intro a ha
  cases hcs : cfg.slack with
  | true =>
    rw [h.slack hcs a]
    have : ¬ (dest ≤ a ∧ a < dest + len) := by omega
    rw [if_neg this]
  | false => exact h.noslack hcs a (by intro e; subst e; exact ha ⟨Nat.le_refl _, by omega⟩)

/-- the `strnlen_s` loop with everything readable: the position of the first NUL within `smax`, or `smax` -/
theorem strnlenLoop_first (smax str count : Nat) (st : St)
    (hall : ∀ a, st.mapped a = true ∧ st.rd a = true) :
    ∃ len, exec (strnlenLoop smax str count none) st = .ok (count + len, st) ∧ len ≤ smax ∧
      (len < smax → st.data (str + len) = 0) ∧ (∀ j, j < len → st.data (str + j) ≠ 0) := by
  induction smax generalizing str count with
  | zero => exact ⟨0, by simp [strnlenLoop], Nat.le_refl _, fun h => absurd h (Nat.lt_irrefl 0), fun j hj => by omega⟩
  | succ n ih =>
    have hm := hall str
    unfold strnlenLoop
    simp only [exec_bind, exec_load_ok _ _ hm.1 hm.2]
    by_cases hc : st.data str = 0
    · simp only [hc, if_true]
      exact ⟨0, by simp, by omega, fun _ => by simpa using hc, fun j hj => by omega⟩
    · simp only [hc, if_false]
      obtain ⟨len, he, hle, hz, hnz⟩ := ih (str+1) (count+1)
      refine ⟨len+1, ?_, by omega, ?_, ?_⟩
      · have e : count + (len+1) = count + 1 + len := by omega
        rw [e]; exact he
      · intro h
        have := hz (by omega)
        have e : str + 1 + len = str + (len+1) := by omega
        rwa [e] at this
      · intro j hj
        by_cases hj0 : j = 0
        · subst hj0; simpa using hc
        · have := hnz (j-1) (by omega)
          have e : str + 1 + (j-1) = str + j := by omega
          rwa [e] at this

/-- `len` is the length of the string in `dest[0..dmax)`: the first NUL, or `dmax` if there is none -/
def StrLenIn (st : St) (dest dmax len : Nat) : Prop :=
  len ≤ dmax ∧ (len < dmax → st.data (dest + len) = 0) ∧ ∀ j, j < len → st.data (dest + j) ≠ 0

theorem strnlen_s_first (str smax : Nat) (st : St)
    (hall : ∀ a, st.mapped a = true ∧ st.rd a = true)
    (hs : str ≠ 0) (hpos : 0 < smax) (hle : smax ≤ RSIZE_MAX_STR) :
    ∃ len, exec (strnlen_s str smax none) st = .ok (len, st) ∧ StrLenIn st str smax len := by
  unfold strnlen_s
  have h1 : ¬ smax = 0 := by omega
  have h2 : ¬ smax > RSIZE_MAX_STR := by omega
  simp only [hs, h1, h2, if_false]
  obtain ⟨len, he, h⟩ := strnlenLoop_first smax str 0 st hall
  exact ⟨len, by simpa using he, h⟩

/-- **exit `src == NULL`**: `handle_error(dest, dmax, ESNULLP)` -/
theorem fldBody_srcnull (kind : FldKind) (cfg : Cfg) (dest dmax slen : Nat) (st : St)
    (hrw : RW st dest dmax) (hpos : 0 < dmax) :
    ∃ st', exec (fldBody kind cfg dest dmax 0 slen) st = .ok (ESNULLP, st') ∧
      FldFail cfg dest dmax st st' ESNULLP := by
  obtain ⟨st', he, hf⟩ := handleError_exact cfg dest dmax dmax ESNULLP st hrw hpos (Nat.le_refl _) (by omega)
  exact ⟨st', by simp [fldBody, exec_bind, he], hf⟩

/-- the code of the `slen > dmax` exit -/
def fldNospcCode (slen : Nat) : Nat := if slen > RSIZE_MAX_STR then ESLEMAX else ESNOSPC

theorem fldNospcCode_ne (slen : Nat) : fldNospcCode slen ≠ EOK := by
  unfold fldNospcCode; split <;> decide

/-- **exit `slen > dmax`** (`CHK_SLEN_MAX_NOSPC_CLEAR`): clears the `len = strnlen_s(dest, dmax)` cells of the
string that was in dest, nothing else -/
theorem fldBody_nospc (kind : FldKind) (cfg : Cfg) (dest dmax src slen : Nat) (st : St)
    (hall : ∀ a, st.mapped a = true ∧ st.rd a = true) (hrw : RW st dest dmax)
    (hd : dest ≠ 0) (hpos : 0 < dmax) (hle : dmax ≤ RSIZE_MAX_STR) (hs : src ≠ 0) (hgt : dmax < slen) :
    ∃ len st', exec (fldBody kind cfg dest dmax src slen) st = .ok (fldNospcCode slen, st') ∧
      StrLenIn st dest dmax len ∧ FldFail cfg dest len st st' (fldNospcCode slen) := by
  obtain ⟨len, he, hlen⟩ := strnlen_s_first dest dmax st hall hd hpos hle
  obtain ⟨st', he2, hf⟩ := handleError_exact cfg dest len dmax (fldNospcCode slen) st hrw hpos hlen.1
    (by intro h; subst h; simpa using hlen.2.1 hpos)
  refine ⟨len, st', ?_, hlen, hf⟩
  have hgt' : slen > dmax := hgt
  simp only [fldBody, hs, if_false, chkSlenNospcClear, hgt', if_true, exec_bind, he]
  unfold fldNospcCode at he2
  simp only [he2]
  rfl

/-! ## the loop exits: any placement -/

theorem fldCall_safe (kind : FldKind) (cfg : Cfg) (dest dmax src slen : Nat) (st : St)
    (hall : ∀ a, st.mapped a = true ∧ st.rd a = true) (hrw : RW st dest dmax) (hpos : 0 < dmax)
    (hfld : kind = .fld → slen ≤ dmax) :
    (∃ st', exec (fldCall kind cfg dest dmax src slen) st = .ok (.inl ESOVRLP, st') ∧
        SafePost cfg dest dmax st st' ESOVRLP ∧ UsablePost cfg dest dmax st' ESOVRLP) ∨
    (∃ d' m' st', exec (fldCall kind cfg dest dmax src slen) st = .ok (.inr (d', m'), st') ∧
        FldThrough kind dest dmax dmax slen st st' d' m') := by
  unfold fldCall
  split
  · exact fldLoop_safe cfg kind true src dest dmax hpos _ dest src dmax slen st hall hrw ⟨Nat.le_refl _, Nat.le_refl _⟩ hfld
  · exact fldLoop_safe cfg kind false dest dest dmax hpos _ dest src dmax slen st hall hrw ⟨Nat.le_refl _, Nat.le_refl _⟩ hfld

/-- everything the entry points guarantee after the dest/dmax checks, whatever `src`, `slen` and the memory -/
structure FldPost (kind : FldKind) (cfg : Cfg) (dest dmax src slen : Nat) (st st' : St) (code : Nat) : Prop where
  safe : SafePost cfg dest dmax st st' code
  codes : code = EOK ∨ code = ESNULLP ∨ code = ESOVRLP ∨ code = fldNospcCode slen
  fail_first : code ≠ EOK → st'.data dest = 0
  fail_clear : code = ESNULLP ∨ code = ESOVRLP → cfg.slack = true → ∀ i, i < dmax → st'.data (dest + i) = 0
  term : kind = .fldout ∨ slen < dmax ∨ code ≠ EOK → ∃ i, i < dmax ∧ st'.data (dest + i) = 0
  srcnull : src = 0 → code = ESNULLP
  nospc : src ≠ 0 → dmax < slen → code = fldNospcCode slen
  fits : src ≠ 0 → slen ≤ dmax → code = EOK ∨ code = ESOVRLP

theorem ESNULLP_ne_ESOVRLP : ESNULLP ≠ ESOVRLP := by decide

/-- **Every exit of `strcpyfld_s` / `strcpyfldin_s` / `strcpyfldout_s` on a usable dest**: any `src` (null,
overlapping, unterminated), any `slen ≠ 0`, any contents, both slack configurations. -/
theorem fldBody_safe (kind : FldKind) (cfg : Cfg) (dest dmax src slen : Nat) (st : St)
    (hall : ∀ a, st.mapped a = true ∧ st.rd a = true) (hrw : RW st dest dmax)
    (hd : dest ≠ 0) (hpos : 0 < dmax) (hle : dmax ≤ RSIZE_MAX_STR) :
    ∃ code st', exec (fldBody kind cfg dest dmax src slen) st = .ok (code, st') ∧
      FldPost kind cfg dest dmax src slen st st' code := by
  by_cases hs : src = 0
  · subst hs
    obtain ⟨st', he, hf⟩ := fldBody_srcnull kind cfg dest dmax slen st hrw hpos
    refine ⟨ESNULLP, st', he, hf.safePost (Nat.le_refl _) hpos ESNULLP_ne_EOK, Or.inr (Or.inl rfl), fun _ => hf.first, ?_,
      fun _ => ⟨0, hpos, by simpa using hf.first⟩, fun _ => rfl, fun h => absurd rfl h, fun h => absurd rfl h⟩
    intro _ hcs i hi
    rw [hf.slack hcs (dest + i)]
    have : dest ≤ dest + i ∧ dest + i < dest + dmax := by omega
    rw [if_pos this]
  by_cases hgt : dmax < slen
  · obtain ⟨len, st', he, hlen, hf⟩ := fldBody_nospc kind cfg dest dmax src slen st hall hrw hd hpos hle hs hgt
    have hne := fldNospcCode_ne slen
    refine ⟨_, st', he, hf.safePost hlen.1 hpos hne, Or.inr (Or.inr (Or.inr rfl)), fun _ => hf.first, ?_,
      fun _ => ⟨0, hpos, by simpa using hf.first⟩, fun h => absurd h hs, fun _ _ => rfl, fun _ h => by omega⟩
    intro h
    exfalso
    unfold fldNospcCode at h
    split at h <;> rcases h with h | h <;> exact absurd h (by decide)
  have hle2 : slen ≤ dmax := by omega
  have hng : ¬ slen > dmax := by omega
  have hb : fldBody kind cfg dest dmax src slen = (fldCall kind cfg dest dmax src slen >>= fldTail) := by
    simp only [fldBody, hs, if_false, chkSlenNospcClear, hng]
  rw [hb, exec_bind]
  rcases fldCall_safe kind cfg dest dmax src slen st hall hrw hpos (fun _ => hle2) with
    ⟨st', he, hsp, hup⟩ | ⟨d', m', st1, he, ht⟩
  · rw [he]
    refine ⟨ESOVRLP, st', rfl, hsp, Or.inr (Or.inr (Or.inl rfl)), hup.2.1, ?_, fun _ => hup.1,
      fun h => absurd h hs, fun _ h => by omega, fun _ _ => Or.inr rfl⟩
    intro _
    exact hup.2.2 (Or.inr (Or.inl rfl))
  · rw [he]
    have hrw1 : RW st1 d' m' := by
      intro i hi
      have := (RW.of_sameMeta ht.same hrw) (d' - dest + i) (by have := ht.lo; have := ht.hi; omega)
      have e : dest + (d' - dest + i) = d' + i := by have := ht.lo; omega
      rwa [e] at this
    obtain ⟨st2, he2, hm2, hd2⟩ := nullSlack_ok d' m' st1 hrw1
    have hm := hm2.trans ht.same
    refine ⟨EOK, st2, by simp [fldTail, exec_bind, he2], ⟨hm.mapped, hm.rd, hm.wr, hm.strays, ?_, fun _ => hm.events, fun h => absurd rfl h⟩,
      Or.inl rfl, fun h => absurd rfl h, ?_, ?_, fun h => absurd h hs, fun _ h => by omega, fun _ _ => Or.inl rfl⟩
    · intro a ha
      rw [hd2 a]
      have : ¬ (d' ≤ a ∧ a < d' + m') := by have := ht.lo; have := ht.hi; omega
      rw [if_neg this]; exact ht.frame a ha
    · intro h; rcases h with h | h <;> exact absurd h (by decide)
    · intro h
      have hm1 : 1 ≤ m' := by
        rcases h with h | h | h
        · exact ht.out_room h hpos
        · exact ht.lt_room h
        · exact absurd rfl h
      refine ⟨d' - dest, by have := ht.lo; have := ht.hi; omega, ?_⟩
      have e : dest + (d' - dest) = d' := by have := ht.lo; omega
      rw [e, hd2 d']
      have : d' ≤ d' ∧ d' < d' + m' := by omega
      rw [if_pos this]

/-! ## the success path: exact result -/

/-- exact final memory of a successful call that copied `n` cells -/
def FldOk (dest dmax src n : Nat) (st st' : St) : Prop :=
  SameMeta st' st ∧
  ∀ a, st'.data a = if dest ≤ a ∧ a < dest + n then st.data (src + (a - dest))
                    else if dest ≤ a ∧ a < dest + dmax then 0 else st.data a

theorem FldOk.copied {dest dmax src n : Nat} {st st' : St} (h : FldOk dest dmax src n st st') :
    ∀ i, i < n → st'.data (dest + i) = st.data (src + i) := by
  intro i hi
  rw [h.2 (dest + i)]
  have h1 : dest ≤ dest + i ∧ dest + i < dest + n := by omega
  have e : dest + i - dest = i := by omega
  rw [if_pos h1, e]

theorem FldOk.filled {dest dmax src n : Nat} {st st' : St} (h : FldOk dest dmax src n st st') :
    ∀ i, n ≤ i → i < dmax → st'.data (dest + i) = 0 := by
  intro i hi hi2
  rw [h.2 (dest + i)]
  have h1 : ¬ (dest ≤ dest + i ∧ dest + i < dest + n) := by omega
  have h2 : dest ≤ dest + i ∧ dest + i < dest + dmax := by omega
  rw [if_neg h1, if_pos h2]

theorem FldOk.frame {dest dmax src n : Nat} {st st' : St} (h : FldOk dest dmax src n st st') (hn : n ≤ dmax) :
    ∀ a, ¬ (dest ≤ a ∧ a < dest + dmax) → st'.data a = st.data a := by
  intro a ha
  rw [h.2 a]
  have h1 : ¬ (dest ≤ a ∧ a < dest + n) := by omega
  rw [if_neg h1, if_neg ha]

/-- **Success, generic in the kind.**  `n` = number of cells the loop copies (loop condition true for `j < n`,
false at `n`); the overlap exit is not taken exactly when `dest + n ≤ src ∨ src + n ≤ dest`.  Then EOK,
no handler event, `dest[0..n) = src[0..n)` and `dest[n..dmax) = 0` in BOTH slack configurations. -/
theorem fldBody_ok (kind : FldKind) (cfg : Cfg) (dest dmax src slen n : Nat) (st : St)
    (hall : ∀ a, st.mapped a = true ∧ st.rd a = true) (hrw : RW st dest dmax)
    (hs : src ≠ 0) (hle2 : slen ≤ dmax) (hn : n ≤ dmax) (hfuel : n ≤ fldFuel kind dmax slen)
    (hdisj : dest + n ≤ src ∨ src + n ≤ dest)
    (hgo : ∀ j, j < n → FldCont kind (dmax - j) (slen - j) ∧ (kind = .fldin → st.data (src + j) ≠ 0))
    (hstop : n = fldFuel kind dmax slen ∨ ¬ FldCont kind (dmax - n) (slen - n) ∨
      (kind = .fldin ∧ st.data (src + n) = 0 ∧ (n = 0 ∨ src + n ≠ dest))) :
    ∃ st', exec (fldBody kind cfg dest dmax src slen) st = .ok (EOK, st') ∧ FldOk dest dmax src n st st' := by
  have hng : ¬ slen > dmax := by omega
  have hb : fldBody kind cfg dest dmax src slen = (fldCall kind cfg dest dmax src slen >>= fldTail) := by
    simp only [fldBody, hs, if_false, chkSlenNospcClear, hng]
  have hrwn : RW st dest n := fun i hi => hrw i (by omega)
  have hcall : ∃ st1, exec (fldCall kind cfg dest dmax src slen) st = .ok (.inr (dest + n, dmax - n), st1) ∧
      SameMeta st1 st ∧
      ∀ a, st1.data a = if dest ≤ a ∧ a < dest + n then st.data (src + (a - dest)) else st.data a := by
    unfold fldCall
    by_cases hlt : dest < src
    · rw [if_pos hlt]
      exact fldLoop_run cfg kind true src dest dmax n _ dest src dmax slen st hall hrwn hfuel hdisj
        (by intro j hj; simp only [if_true]; omega) hgo hstop
    · rw [if_neg hlt]
      exact fldLoop_run cfg kind false dest dest dmax n _ dest src dmax slen st hall hrwn hfuel hdisj
        (by intro j hj; simp only [Bool.false_eq_true, if_false]; omega) hgo hstop
  obtain ⟨st1, he, hm1, hd1⟩ := hcall
  have hrw1 : RW st1 (dest + n) (dmax - n) := by
    intro i hi
    have := (RW.of_sameMeta hm1 hrw) (n + i) (by omega)
    have e : dest + (n + i) = dest + n + i := by omega
    rwa [e] at this
  obtain ⟨st2, he2, hm2, hd2⟩ := nullSlack_ok (dest + n) (dmax - n) st1 hrw1
  refine ⟨st2, ?_, hm2.trans hm1, ?_⟩
  · rw [hb, exec_bind, he]
    simp [fldTail, exec_bind, he2]
  · intro a
    rw [hd2 a, hd1 a]
    by_cases h1 : dest ≤ a ∧ a < dest + n
    · have h2 : ¬ (dest + n ≤ a ∧ a < dest + n + (dmax - n)) := by omega
      rw [if_neg h2, if_pos h1, if_pos h1]
    · rw [if_neg h1, if_neg h1]
      by_cases h2 : dest + n ≤ a ∧ a < dest + n + (dmax - n)
      · have h3 : dest ≤ a ∧ a < dest + dmax := by omega
        rw [if_pos h2, if_pos h3]
      · have h3 : ¬ (dest ≤ a ∧ a < dest + dmax) := by omega
        rw [if_neg h2, if_neg h3]

/-- `strcpyfld_s`: copies exactly `slen` cells; no overlap exit iff the two `slen`-cell fields are disjoint -/
theorem fldBody_fld_ok (cfg : Cfg) (dest dmax src slen : Nat) (st : St)
    (hall : ∀ a, st.mapped a = true ∧ st.rd a = true) (hrw : RW st dest dmax)
    (hs : src ≠ 0) (hle2 : slen ≤ dmax) (hdisj : dest + slen ≤ src ∨ src + slen ≤ dest) :
    ∃ st', exec (fldBody .fld cfg dest dmax src slen) st = .ok (EOK, st') ∧ FldOk dest dmax src slen st st' := by
  refine fldBody_ok .fld cfg dest dmax src slen slen st hall hrw hs hle2 hle2 (Nat.le_refl _) hdisj ?_ (Or.inl rfl)
  intro j hj
  refine ⟨?_, fun h => by cases h⟩
  simp only [FldCont]; omega

/-- `strcpyfldin_s`: copies the `n` characters of the source string that precede its NUL, or `slen` of them -/
theorem fldBody_fldin_ok (cfg : Cfg) (dest dmax src slen n : Nat) (st : St)
    (hall : ∀ a, st.mapped a = true ∧ st.rd a = true) (hrw : RW st dest dmax)
    (hs : src ≠ 0) (hle2 : slen ≤ dmax) (hn : n ≤ slen)
    (hnz : ∀ j, j < n → st.data (src + j) ≠ 0)
    (hend : n = slen ∨ (st.data (src + n) = 0 ∧ (n = 0 ∨ src + n ≠ dest)))
    (hdisj : dest + n ≤ src ∨ src + n ≤ dest) :
    ∃ st', exec (fldBody .fldin cfg dest dmax src slen) st = .ok (EOK, st') ∧ FldOk dest dmax src n st st' := by
  refine fldBody_ok .fldin cfg dest dmax src slen n st hall hrw hs hle2 (by omega)
    (by show n ≤ dmax; omega) hdisj ?_ ?_
  · intro j hj
    refine ⟨?_, fun _ => hnz j hj⟩
    simp only [FldCont]; omega
  · rcases hend with h | h
    · refine Or.inr (Or.inl ?_)
      simp only [FldCont]; omega
    · exact Or.inr (Or.inr ⟨rfl, h.1, h.2⟩)

/-- `strcpyfldout_s`: copies `min slen (dmax-1)` cells -/
theorem fldBody_fldout_ok (cfg : Cfg) (dest dmax src slen : Nat) (st : St)
    (hall : ∀ a, st.mapped a = true ∧ st.rd a = true) (hrw : RW st dest dmax)
    (hs : src ≠ 0) (hpos : 0 < dmax) (hle2 : slen ≤ dmax)
    (hdisj : dest + min slen (dmax - 1) ≤ src ∨ src + min slen (dmax - 1) ≤ dest) :
    ∃ st', exec (fldBody .fldout cfg dest dmax src slen) st = .ok (EOK, st') ∧
      FldOk dest dmax src (min slen (dmax - 1)) st st' := by
  refine fldBody_ok .fldout cfg dest dmax src slen _ st hall hrw hs hle2 (by omega)
    (by show min slen (dmax - 1) ≤ dmax; omega) hdisj ?_ ?_
  · intro j hj
    refine ⟨?_, fun h => by cases h⟩
    simp only [FldCont]; omega
  · refine Or.inr (Or.inl ?_)
    simp only [FldCont]; omega

/-! ## the overlap exit is taken exactly when the copied cells meet -/

/-- the bumper is met at iteration `j0`, the loop condition holding up to there: the loop leaves through
`handle_error(…, ESOVRLP)`.  For `strcpyfldin_s` the characters tested must not have been overwritten by the
iterations before (`hna`; true whenever `dest < src`). -/
theorem fldLoop_hits (cfg : Cfg) (kind : FldKind) (onDest : Bool) (B oD oM : Nat) (hoM : 0 < oM) (j0 : Nat) :
    ∀ (fuel d s m sl : Nat) (st : St),
    (∀ a, st.mapped a = true ∧ st.rd a = true) → RW st oD oM →
    (oD ≤ d ∧ d + m ≤ oD + oM) → (kind = .fld → sl ≤ m) → j0 < fuel →
    (∀ j, j ≤ j0 → FldCont kind (m - j) (sl - j) ∧ (kind = .fldin → st.data (s + j) ≠ 0)) →
    (kind = .fldin → ∀ j, 0 < j → j ≤ j0 → d ≠ s + j) →
    (∀ j, j < j0 → (if onDest then d + j else s + j) ≠ B) →
    (if onDest then d + j0 else s + j0) = B →
    ∃ st', exec (fldLoop cfg kind onDest B oD oM fuel d s m sl) st = .ok (.inl ESOVRLP, st') := by
  induction j0 with
  | zero =>
    intro fuel d s m sl st hall hrw _ _ hfuel hgo _ _ hb
    cases fuel with
    | zero => omega
    | succ f =>
      have hg : FldGo kind st s m sl := by
        have := hgo 0 (Nat.le_refl _)
        simpa [FldGo] using this
      rw [fldLoop_bump cfg kind onDest B oD oM f d s m sl st (hall s) hg (by simpa using hb)]
      obtain ⟨st', he, _, _⟩ := herr_full cfg oD oM ESOVRLP st hrw hoM ESOVRLP_ne_EOK
      exact ⟨st', by simp [exec_bind, he]⟩
  | succ j0 ih =>
    intro fuel d s m sl st hall hrw hinv hfld hfuel hgo hna hnb hb
    cases fuel with
    | zero => omega
    | succ f =>
      have hg : FldGo kind st s m sl := by
        have := hgo 0 (by omega)
        simpa [FldGo] using this
      have hb0 : (if onDest then d else s) ≠ B := by simpa using hnb 0 (by omega)
      obtain ⟨hm1, hsl0, _⟩ := hg.1.pos hfld
      have hdm : st.mapped d = true ∧ st.wr d = true ∧ st.rd d = true := by
        have := hrw (d - oD) (by omega)
        have e : oD + (d - oD) = d := by omega
        rwa [e] at this
      rw [fldLoop_step cfg kind onDest B oD oM f d s m sl st (hall s) ⟨hdm.1, hdm.2.1⟩ hg hb0]
      refine ih f (d+1) (s+1) (m-1) (sl-1) (st.upd d (st.data s)) (by intro a; exact hall a)
        (RW.of_sameMeta (SameMeta.upd _ _ _) hrw) (by omega) (by intro h; have := hfld h; omega) (by omega)
        ?_ ?_ ?_ ?_
      · intro j hj
        have := hgo (j+1) (by omega)
        have e1 : m - 1 - j = m - (j+1) := by omega
        have e2 : sl - 1 - j = sl - (j+1) := by omega
        have e3 : s + 1 + j = s + (j+1) := by omega
        rw [e1, e2, e3]
        refine ⟨this.1, fun hk => ?_⟩
        rw [St.upd_data_ne _ _ _ _ (by have := hna hk (j+1) (by omega) (by omega); omega)]
        exact this.2 hk
      · intro hk j hj0 hj
        have := hna hk j hj0 (by omega)
        omega
      · intro j hj
        have := hnb (j+1) (by omega)
        have e1 : d + 1 + j = d + (j+1) := by omega
        have e2 : s + 1 + j = s + (j+1) := by omega
        rw [e1, e2]; exact this
      · have e1 : d + 1 + j0 = d + (j0+1) := by omega
        have e2 : s + 1 + j0 = s + (j0+1) := by omega
        rw [e1, e2]; exact hb

/-- once the twin loops are known to leave through the overlap exit, the call returns ESOVRLP with everything
`fldBody_safe` guarantees -/
theorem fldBody_of_inl (kind : FldKind) (cfg : Cfg) (dest dmax src slen : Nat) (st : St)
    (hall : ∀ a, st.mapped a = true ∧ st.rd a = true) (hrw : RW st dest dmax)
    (hd : dest ≠ 0) (hpos : 0 < dmax) (hle : dmax ≤ RSIZE_MAX_STR) (hs : src ≠ 0) (hle2 : slen ≤ dmax)
    (hcall : ∃ st1, exec (fldCall kind cfg dest dmax src slen) st = .ok (.inl ESOVRLP, st1)) :
    ∃ st', exec (fldBody kind cfg dest dmax src slen) st = .ok (ESOVRLP, st') ∧
      FldPost kind cfg dest dmax src slen st st' ESOVRLP := by
  obtain ⟨code, st', he, hp⟩ := fldBody_safe kind cfg dest dmax src slen st hall hrw hd hpos hle
  have hng : ¬ slen > dmax := by omega
  have hb : fldBody kind cfg dest dmax src slen = (fldCall kind cfg dest dmax src slen >>= fldTail) := by
    simp only [fldBody, hs, if_false, chkSlenNospcClear, hng]
  obtain ⟨st1, hc⟩ := hcall
  have he' : exec (fldBody kind cfg dest dmax src slen) st = .ok (ESOVRLP, st1) := by
    rw [hb, exec_bind, hc]; rfl
  rw [he] at he'
  have hcode : code = ESOVRLP := by
    injection he' with h; exact (Prod.mk.inj h).1
  subst hcode
  exact ⟨st', he, hp⟩

/-- **The overlap exit, `strcpyfld_s` and `strcpyfldout_s`.**  `n` = number of cells the loop would copy
(`slen`, resp. `min slen (dmax-1)`; the loop condition is arithmetic).  If the `n` cells read and the `n` cells
written meet — `¬ (dest + n ≤ src ∨ src + n ≤ dest)` — the call returns ESOVRLP, whatever the contents. -/
theorem fldBody_overlap (kind : FldKind) (cfg : Cfg) (dest dmax src slen n : Nat) (st : St)
    (hall : ∀ a, st.mapped a = true ∧ st.rd a = true) (hrw : RW st dest dmax)
    (hd : dest ≠ 0) (hpos : 0 < dmax) (hle : dmax ≤ RSIZE_MAX_STR)
    (hk : kind ≠ .fldin) (hs : src ≠ 0) (hle2 : slen ≤ dmax) (hfuel : n ≤ fldFuel kind dmax slen)
    (hgo : ∀ j, j < n → FldCont kind (dmax - j) (slen - j))
    (hmeet : ¬ (dest + n ≤ src ∨ src + n ≤ dest)) :
    ∃ st', exec (fldBody kind cfg dest dmax src slen) st = .ok (ESOVRLP, st') ∧
      FldPost kind cfg dest dmax src slen st st' ESOVRLP := by
  apply fldBody_of_inl kind cfg dest dmax src slen st hall hrw hd hpos hle hs hle2
  unfold fldCall
  by_cases hlt : dest < src
  · rw [if_pos hlt]
    exact fldLoop_hits cfg kind true src dest dmax hpos (src - dest) _ dest src dmax slen st hall hrw
      ⟨Nat.le_refl _, Nat.le_refl _⟩ (fun _ => hle2) (by omega)
      (fun j hj => ⟨hgo j (by omega), fun h => absurd h hk⟩) (fun h => absurd h hk)
      (by intro j hj; simp only [if_true]; omega) (by simp only [if_true]; omega)
  · rw [if_neg hlt]
    exact fldLoop_hits cfg kind false dest dest dmax hpos (dest - src) _ dest src dmax slen st hall hrw
      ⟨Nat.le_refl _, Nat.le_refl _⟩ (fun _ => hle2) (by omega)
      (fun j hj => ⟨hgo j (by omega), fun h => absurd h hk⟩) (fun h => absurd h hk)
      (by intro j hj; simp only [Bool.false_eq_true, if_false]; omega)
      (by simp only [Bool.false_eq_true, if_false]; omega)

/-- `strcpyfld_s`: ESOVRLP exactly when the two `slen`-cell fields meet (converse of `fldBody_fld_ok`) -/
theorem fldBody_fld_overlap (cfg : Cfg) (dest dmax src slen : Nat) (st : St)
    (hall : ∀ a, st.mapped a = true ∧ st.rd a = true) (hrw : RW st dest dmax)
    (hd : dest ≠ 0) (hpos : 0 < dmax) (hle : dmax ≤ RSIZE_MAX_STR) (hs : src ≠ 0) (hle2 : slen ≤ dmax)
    (hmeet : ¬ (dest + slen ≤ src ∨ src + slen ≤ dest)) :
    ∃ st', exec (fldBody .fld cfg dest dmax src slen) st = .ok (ESOVRLP, st') ∧
      FldPost .fld cfg dest dmax src slen st st' ESOVRLP := by
  refine fldBody_overlap .fld cfg dest dmax src slen slen st hall hrw hd hpos hle (by decide) hs hle2
    (Nat.le_refl _) ?_ hmeet
  intro j hj
  simp only [FldCont]; omega

/-- `strcpyfldout_s`: ESOVRLP exactly when the `min slen (dmax-1)` cells read and written meet -/
theorem fldBody_fldout_overlap (cfg : Cfg) (dest dmax src slen : Nat) (st : St)
    (hall : ∀ a, st.mapped a = true ∧ st.rd a = true) (hrw : RW st dest dmax)
    (hd : dest ≠ 0) (hpos : 0 < dmax) (hle : dmax ≤ RSIZE_MAX_STR) (hs : src ≠ 0) (hle2 : slen ≤ dmax)
    (hmeet : ¬ (dest + min slen (dmax - 1) ≤ src ∨ src + min slen (dmax - 1) ≤ dest)) :
    ∃ st', exec (fldBody .fldout cfg dest dmax src slen) st = .ok (ESOVRLP, st') ∧
      FldPost .fldout cfg dest dmax src slen st st' ESOVRLP := by
  refine fldBody_overlap .fldout cfg dest dmax src slen _ st hall hrw hd hpos hle (by decide) hs hle2
    (by show min slen (dmax - 1) ≤ dmax; omega) ?_ hmeet
  intro j hj
  simp only [FldCont]; omega

/-- `strcpyfldin_s`, `dest ≤ src`: the source string runs into its own copy — `src = dest + j0` with
`j0 < slen` and `src[0..j0]` non-NUL — ESOVRLP.  (For `src < dest` the character tested when the bumper is
reached is `dest[0]`, already overwritten with `src[0]`; not stated here.) -/
theorem fldBody_fldin_overlap (cfg : Cfg) (dest dmax src slen : Nat) (st : St)
    (hall : ∀ a, st.mapped a = true ∧ st.rd a = true) (hrw : RW st dest dmax)
    (hd : dest ≠ 0) (hpos : 0 < dmax) (hle : dmax ≤ RSIZE_MAX_STR) (hs : src ≠ 0) (hle2 : slen ≤ dmax)
    (hge : dest ≤ src) (hlt : src - dest < slen)
    (hnz : ∀ j, j ≤ src - dest → st.data (src + j) ≠ 0) :
    ∃ st', exec (fldBody .fldin cfg dest dmax src slen) st = .ok (ESOVRLP, st') ∧
      FldPost .fldin cfg dest dmax src slen st st' ESOVRLP := by
  apply fldBody_of_inl .fldin cfg dest dmax src slen st hall hrw hd hpos hle hs hle2
  have hgo : ∀ j, j ≤ src - dest →
      FldCont .fldin (dmax - j) (slen - j) ∧ (FldKind.fldin = .fldin → st.data (src + j) ≠ 0) := by
    intro j hj
    refine ⟨?_, fun _ => hnz j hj⟩
    simp only [FldCont]; omega
  unfold fldCall
  by_cases hlt' : dest < src
  · rw [if_pos hlt']
    exact fldLoop_hits cfg .fldin true src dest dmax hpos (src - dest) _ dest src dmax slen st hall hrw
      ⟨Nat.le_refl _, Nat.le_refl _⟩ (fun h => by cases h) (by show src - dest < dmax; omega)
      hgo (by intro _ j hj0 hj; omega)
      (by intro j hj; simp only [if_true]; omega) (by simp only [if_true]; omega)
  · rw [if_neg hlt']
    have e : src - dest = 0 := by omega
    rw [e] at hgo
    exact fldLoop_hits cfg .fldin false dest dest dmax hpos 0 _ dest src dmax slen st hall hrw
      ⟨Nat.le_refl _, Nat.le_refl _⟩ (fun h => by cases h) (by show 0 < dmax; omega)
      hgo (by intro _ j hj0 hj; omega)
      (by intro j hj; omega)
      (by simp only [Bool.false_eq_true, if_false]; omega)

end SafeC

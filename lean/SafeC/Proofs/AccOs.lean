import SafeC.Proofs.AccCopyEntry
import SafeC.Proofs.AccQuery
import SafeC.Models.Io
/-!
# Footprint of the os family: `getenv_s strerror_s strerrorlen_s gmtime_s localtime_s gets_s`

Process state is an argument of these models (the environment value, libc's message text, the literal `"..."`, libc's
broken-down time, the bytes the stream still holds): regions of memory the library only reads.  Footprints:

* `getenv_s`: the name to its terminator (`getenv`), the value to its terminator (`strlen`, then `strcpy_s`), dest's `dmax` cells;
* `strerror_s`: the message to its terminator, the dots, dest; the truncating path is `strncpy_s` followed by `strcat_s` on
  the contents the first call left — `AccS.frame` (nothing outside the write footprint changes) carries the dots across;
* `gmtime_s` / `localtime_s`: `*timer` (twice), the 14 cells of libc's result, 13 stores into dest (cell 9 is padding);
* `gets_s`: stream cells `inp[0 .. min dmax len)` — at most `dmax - 1` consumed by `fgets` plus one peeked by `getc`, never
  behind the end of the stream —, dest read back by `strnlen` inside `dmax`.
-/
namespace SafeC
open Gen

variable {R W : Nat → Prop} {d : Nat → Nat}

/-! ## generic: frame and monotonicity of `AccS` -/

/-- nothing outside the write footprint changes -/
theorem AccS.frame {α} {p : Prog α} {Q : α → (Nat → Nat) → Prop} (h : AccS R W d p Q) :
    AccS R W d p (fun x d' => Q x d' ∧ ∀ a, ¬ W a → d' a = d a) := by
  induction h with
  | ret x hx => exact .ret x ⟨hx, fun _ _ => rfl⟩
  | load a k ha _ ih => exact .load a _ ha ih
  | store a v k ha _ ih =>
    refine .store a v _ ha (ih.conseq (fun x d' ⟨hq, hf⟩ => ⟨hq, fun b hb => ?_⟩))
    rw [hf b hb]
    have : b ≠ a := fun e => hb (e ▸ ha)
    simp [updF, this]
  | emit e k _ ih => exact .emit e _ ih

theorem AccS.mono {R' W' : Nat → Prop} {α} {p : Prog α} {Q : α → (Nat → Nat) → Prop} (h : AccS R W d p Q)
    (hr : ∀ a, R a → R' a) (hw : ∀ a, W a → W' a) : AccS R' W' d p Q := by
  induction h with
  | ret x hx => exact .ret x hx
  | load a k ha _ ih => exact .load a _ (hr a ha) ih
  | store a v k ha _ ih => exact .store a v _ (hw a ha) ih
  | emit e k _ ih => exact .emit e _ ih

/-- contents that agree with `d` on every cell of the string at `p` (per `d`) have the same string there -/
theorem Str.of_agree {d d' : Nat → Nat} {p n a : Nat} (hag : ∀ b, Str d p n b → d' b = d b) (h : Str d' p n a) :
    Str d p n a := by
  obtain ⟨h1, h2, h3⟩ := h
  refine ⟨h1, h2, ?_⟩
  intro j
  induction j using Nat.strongRecOn with
  | _ j ih =>
    intro hj1 hj2
    have hs : Str d p n j := ⟨hj1, by omega, fun i hi1 hi2 => ih i hi2 hi1 (by omega)⟩
    rw [← hag j hs]
    exact h3 j hj1 hj2

theorem AccS_strlenP (fuel s n : Nat) (h : ∀ a, Str d s fuel a → R a) :
    AccS R W d (strlenP fuel s n) (fun _ d' => d' = d) :=
  (AccS.of_AccD (AccD_strlenP fuel s n h)).conseq (fun _ _ hq => hq.1)

/-! ## getenv_s -/

/-- what follows the `dest` / `dmax` entry checks (`dest` null only with `dmax = 0`) -/
theorem getenvRest_accs (cfg : Cfg) (dest dmax name : Nat) (bos : Bos) (value : Nat)
    (r1 r2 r3 : Nat × Option Nat) (r4 : Nat → Nat × Option Nat)
    (hdz : dest = 0 → dmax = 0)
    (hname : name ≠ 0 → ∀ a, Str d name scanFuel a → R a)
    (hval : value ≠ 0 → ∀ n a, Str d value n a → R a)
    (hrd : dest ≠ 0 → ∀ a, Cells dest dmax a → R a) (hw : dest ≠ 0 → ∀ a, Cells dest dmax a → W a) :
    AccS R W d (if name = 0 then
        if dest ≠ 0 ∧ dmax ≠ 0 then do handleError cfg dest dmax ESNULLP; pure r1
        else do handlerS ESNULLP; pure r1
      else do
        let _ ← strlenP scanFuel name 0
        if value = 0 then
          if dest ≠ 0 ∧ dmax ≠ 0 then do
            (if cfg.slack then memsetP 0 dmax dest else store dest 0)
            pure r2
          else pure r2
        else do
          let len1 ← strlenP scanFuel value 0
          if dmax ≠ 0 ∧ len1 ≥ dmax then do
            handleError cfg dest dmax ESNOSPC
            pure r3
          else if dest ≠ 0 ∧ dmax ≠ 0 then do
            let _ ← strcpy_s cfg dest dmax value bos
            pure (r4 len1)
          else pure (r4 len1) : Prog (Nat × Option Nat)) (fun _ _ => True) := by
  have hw0 : dest ≠ 0 → dmax ≠ 0 → W dest := fun h1 h2 => hw h1 _ ⟨Nat.le_refl _, by omega⟩
  split
  · split
    · rename_i h; exact AccS_errRet cfg dest dmax _ _ (hw h.1) (hw0 h.1 h.2)
    · exact AccS.handlerSBind _ (AccS.pure _ trivial)
  rename_i hn
  refine AccS.bind (AccS_strlenP scanFuel name 0 (hname hn)) (fun _ d' e => ?_)
  subst e
  split
  · split
    · rename_i h
      refine AccS.bind (Q := fun _ _ => True) (S := fun _ _ => True) ?_ (fun _ _ _ => AccS.pure _ trivial)
      split
      · exact AccS_memsetP 0 dmax dest (hw h.1)
      · exact AccS.storeBind (hw0 h.1 h.2) (AccS.pure _ trivial)
    · exact AccS.pure _ trivial
  rename_i hv
  refine AccS.bind (AccS_strlenP scanFuel value 0 (hval hv scanFuel)) (fun len1 d' e => ?_)
  subst e
  split
  · rename_i h
    have hd : dest ≠ 0 := fun e => h.1 (hdz e)
    exact AccS_errRet cfg dest dmax _ _ (hw hd) (hw0 hd h.1)
  · split
    · rename_i h
      refine AccS.bind (Q := fun _ _ => True) ?_ (fun _ _ _ => AccS.pure _ trivial)
      unfold strcpy_s
      exact strcpyG_accs _ cfg dest dmax value bos (fun _ => hval hv dmax) hrd hw
    · exact AccS.pure _ trivial

/-- **getenv_s** -/
theorem getenv_s_accs (cfg : Cfg) (hasLen : Bool) (dest dmax name : Nat) (db : Bos) (value : Nat)
    (hname : name ≠ 0 → ∀ a, Str d name scanFuel a → R a)
    (hval : value ≠ 0 → ∀ n a, Str d value n a → R a)
    (hrd : dest ≠ 0 → ∀ a, Cells dest dmax a → R a) (hw : dest ≠ 0 → ∀ a, Cells dest dmax a → W a) :
    AccS R W d (getenv_s cfg hasLen dest dmax name db value) (fun _ _ => True) := by
  unfold getenv_s
  cases db <;> dsimp only
  all_goals
    split
    · rename_i hd
      split
      · exact AccS.handlerSBind _ (AccS.pure _ trivial)
      · exact getenvRest_accs cfg dest dmax name _ value _ _ _ _ (fun e => absurd e hd) hname hval hrd hw
    · rename_i hd
      split
      · exact AccS.handlerSBind _ (AccS.pure _ trivial)
      · rename_i hm
        exact getenvRest_accs cfg dest dmax name _ value _ _ _ _ (fun _ => by omega) hname hval hrd hw

/-! ## strerrorlen_s, strerror_s -/

/-- **strerrorlen_s**: the table for the library's own codes (no access at all), `strlen` of libc's message otherwise -/
theorem strerrorlen_s_accs (errnum msg : Nat) (hmsg : isSafeclibErr errnum = false → ∀ a, Str d msg scanFuel a → R a) :
    AccS R W d (strerrorlen_s errnum msg) (fun _ d' => d' = d) := by
  unfold strerrorlen_s
  split
  · exact AccS.pure _ rfl
  · rename_i h
    exact AccS_strlenP scanFuel msg 0 (hmsg (by simpa using h))

/-- **strerror_s**: the message and the dots are strings apart from dest -/
theorem strerror_s_accs (cfg : Cfg) (dest dmax errnum : Nat) (db : Bos) (msg dots : Nat)
    (hmsg : dest ≠ 0 → ∀ n a, Str d msg n a → R a)
    (hdots : dest ≠ 0 → 3 < dmax → dots ≠ 0 → ∀ a, Str d dots dmax a → R a ∧ ¬ Cells dest dmax a)
    (hrd : dest ≠ 0 → ∀ a, Cells dest dmax a → R a) (hw : dest ≠ 0 → ∀ a, Cells dest dmax a → W a) :
    AccS R W d (strerror_s cfg dest dmax errnum db msg dots) (fun _ _ => True) := by
  unfold strerror_s
  split
  · exact AccS_failS _ trivial
  rename_i hd
  split
  · exact AccS_failS _ trivial
  rename_i hm
  refine AccS_chkDmax _ _ _ ?_
  refine AccS.bind (strerrorlen_s_accs errnum msg (fun _ => hmsg hd scanFuel)) (fun len d' e => ?_)
  subst e
  split
  · refine AccS.bind (Q := fun _ _ => True) ?_ (fun _ _ _ => AccS.pure _ trivial)
    unfold strcpy_s
    exact strcpyG_accs _ cfg dest dmax msg _ (fun _ => hmsg hd dmax) hrd hw
  split
  · rename_i h3
    have hcp : AccS R (Cells dest dmax) d' (strncpy_s cfg dest dmax msg (dmax - 4) none none) (fun _ _ => True) := by
      unfold strncpy_s
      exact strncpyG_accs _ cfg dest dmax msg (dmax-4) none none (fun _ _ _ h => by cases h) (fun _ => hmsg hd _) hrd
        (fun _ a h => h)
    refine AccS.bind (hcp.frame.mono (fun _ h => h) (hw hd)) (fun _ d'' ⟨_, hfr⟩ => ?_)
    refine AccS.bind (Q := fun _ _ => True) ?_ (fun _ _ _ => AccS.pure _ trivial)
    unfold strcat_s
    refine strcatG_accs _ cfg dest dmax dots none (fun hdz a hs => ?_) hrd hw
    have := Str.of_agree (d := d') (d' := d'') (fun b hb => hfr b (hdots hd (by omega) hdz b hb).2) hs
    exact (hdots hd (by omega) hdz a this).1
  · exact AccS_errRet cfg dest dmax _ _ (hw hd) (hw hd _ ⟨Nat.le_refl _, by omega⟩)

/-! ## gmtime_s / localtime_s -/

theorem Acc_copyTm (k i res dest : Nat) (hk : i + k ≤ 14) (hr : ∀ a, Cells res 14 a → R a) (hw : ∀ a, Cells dest 14 a → W a) :
    Acc R W (copyTm k i res dest) (fun _ => True) := by
  induction k generalizing i with
  | zero => exact Acc.pure _ trivial
  | succ k ih =>
    unfold copyTm
    refine Acc.loadBind (hr _ ⟨by omega, by omega⟩) (fun v => ?_)
    refine Acc.bind (Q := fun _ => True) ?_ (fun _ _ => ih (i+1) (by omega))
    split
    · exact Acc.pure _ trivial
    · exact Acc.storeP _ _ (hw _ ⟨by omega, by omega⟩)

/-- **gmtime_s / localtime_s**: `*timer` (read twice), libc's 14 result cells, dest's 14 cells written -/
theorem Acc_tmConv (timer dest res : Nat) (ht : timer ≠ 0 → R timer) (hr : res ≠ 0 → ∀ a, Cells res 14 a → R a)
    (hw : dest ≠ 0 → ∀ a, Cells dest 14 a → W a) : Acc R W (tmConv timer dest res) (fun _ => True) := by
  unfold tmConv
  split
  · exact Acc_failS' _ trivial
  rename_i hd
  split
  · exact Acc_failS' _ trivial
  rename_i htm
  refine Acc.loadBind (ht htm) (fun t => ?_)
  split
  · exact Acc.handlerSBind _ (Acc.pure _ trivial)
  refine Acc.loadBind (ht htm) (fun t2 => ?_)
  split
  · exact Acc.handlerSBind _ (Acc.pure _ trivial)
  split
  · exact Acc.pure _ trivial
  · rename_i hres
    exact Acc.bind (Acc_copyTm 14 0 res dest (by omega) (hr hres) (hw hd)) (fun _ _ => Acc.pure _ trivial)

/-! ## gets_s -/

/-- `fgets`: at most `min k len` stream cells, as many dest cells; it hands back how many it stored -/
theorem Acc_fgetsLoop (k inp len dst acc : Nat) (hr : ∀ a, Cells inp (min k len) a → R a)
    (hw : ∀ a, Cells dst (min k len) a → W a) :
    Acc R W (fgetsLoop k inp len dst acc) (fun r => acc ≤ r.1 ∧ r.1 ≤ acc + min k len) := by
  induction k generalizing inp len dst acc with
  | zero => unfold fgetsLoop; exact Acc.pure _ ⟨Nat.le_refl _, by omega⟩
  | succ k ih =>
    cases len with
    | zero => unfold fgetsLoop; exact Acc.pure _ ⟨Nat.le_refl _, by omega⟩
    | succ l =>
      unfold fgetsLoop
      have e : min (k+1) (l+1) = min k l + 1 := by omega
      rw [e] at hr hw
      refine Acc.loadBind (hr _ ⟨by omega, by omega⟩) (fun c => ?_)
      refine Acc.storeBind (hw _ ⟨by omega, by omega⟩) ?_
      split
      · exact Acc.pure _ ⟨by dsimp only; omega, by dsimp only; omega⟩
      · exact (ih (inp+1) l (dst+1) (acc+1) (fun a ⟨h1, h2⟩ => hr a ⟨by omega, by omega⟩)
          (fun a ⟨h1, h2⟩ => hw a ⟨by omega, by omega⟩)).conseq (fun r ⟨h1, h2⟩ => ⟨by omega, by omega⟩)

theorem Acc_strnlenP (n s acc : Nat) (hr : ∀ a, Cells s n a → R a) :
    Acc R W (strnlenP n s acc) (fun r => acc ≤ r ∧ r ≤ acc + n) := by
  induction n generalizing s acc with
  | zero => unfold strnlenP; exact Acc.pure _ ⟨Nat.le_refl _, by omega⟩
  | succ n ih =>
    unfold strnlenP
    refine Acc.loadBind (hr _ ⟨by omega, by omega⟩) (fun c => ?_)
    split
    · exact Acc.pure _ ⟨Nat.le_refl _, by omega⟩
    · exact (ih (s+1) (acc+1) (fun a ⟨h1, h2⟩ => hr a ⟨by omega, by omega⟩)).conseq (fun r ⟨h1, h2⟩ => ⟨by omega, by omega⟩)

theorem Acc_getsBody (cfg : Cfg) (dest dmax inp len : Nat) (hpos : dmax ≠ 0)
    (hri : ∀ a, Cells inp (min dmax len) a → R a)
    (hrd : ∀ a, Cells dest dmax a → R a) (hw : ∀ a, Cells dest dmax a → W a) :
    Acc R W (getsBody cfg dest dmax inp len) (fun _ => True) := by
  have hw0 : W dest := hw _ ⟨Nat.le_refl _, by omega⟩
  unfold getsBody
  split
  · exact Acc.storeBind hw0 (Acc.pure _ trivial)
  rename_i hinp
  have hri' : ∀ a, Cells inp (min (dmax - 1) len) a → R a := fun a ⟨h1, h2⟩ => hri a ⟨h1, by omega⟩
  refine Acc.bind (Acc_fgetsLoop (dmax-1) inp len dest 0 hri' (fun a ⟨h1, h2⟩ => hw a ⟨h1, by omega⟩)) (fun r hq => ?_)
  obtain ⟨m, eof⟩ := r
  obtain ⟨_, hm⟩ := hq
  simp only [Nat.zero_add] at hm
  dsimp only
  split
  · exact Acc.storeBind hw0 (Acc.pure _ trivial)
  refine Acc.storeBind (hw _ ⟨by omega, by omega⟩) ?_
  refine Acc.bind (Acc_strnlenP dmax dest 0 hrd) (fun n ⟨_, hn⟩ => ?_)
  simp only [Nat.zero_add] at hn
  have hdone : ∀ k, k ≤ dmax → Acc R W (do
      (if cfg.slack = true ∧ k < dmax then memsetP 0 (dmax - k) (dest + k) else pure ())
      pure EOK : Prog Nat) (fun _ => True) := by
    intro k hk
    refine Acc.bind (Q := fun _ => True) ?_ (fun _ _ => Acc.pure _ trivial)
    split
    · exact Acc_memsetP' 0 _ _ (fun a ⟨h1, h2⟩ => hw a ⟨by omega, by omega⟩)
    · exact Acc.pure _ trivial
  refine Acc.bind (Q := fun _ => True) ?_ (fun last _ => ?_)
  · split
    · exact Acc.loadP _ (hrd _ ⟨by omega, by omega⟩)
    · exact Acc.pure _ trivial
  split
  · rename_i h
    exact Acc.storeBind (hw _ ⟨by omega, by omega⟩) (hdone _ (by omega))
  split
  · split
    · split
      · exact Acc.pure _ trivial
      · exact hdone _ hn
    · rename_i hfull hrest
      refine Acc.loadBind (hri _ ⟨by omega, by omega⟩) (fun c => ?_)
      split
      · exact hdone _ hn
      · refine Acc.bind (Acc_handleError' cfg dest dmax _ hw hw0) (fun _ _ => ?_)
        refine Acc.bind (Q := fun _ => True) ?_ (fun _ _ => Acc.pure _ trivial)
        split
        · exact Acc_memsetP' 0 dmax dest hw
        · exact Acc.pure _ trivial
  · exact hdone _ hn

/-- **gets_s** -/
theorem Acc_gets_s (cfg : Cfg) (dest dmax : Nat) (db : Bos) (inp len : Nat)
    (hri : ∀ a, Cells inp (min dmax len) a → R a)
    (hrd : dest ≠ 0 → ∀ a, Cells dest dmax a → R a) (hw : dest ≠ 0 → ∀ a, Cells dest dmax a → W a) :
    Acc R W (gets_s cfg dest dmax db inp len) (fun _ => True) := by
  unfold gets_s
  split
  · exact Acc_failS' _ trivial
  rename_i hd
  split
  · exact Acc_failS' _ trivial
  rename_i hm
  have body := Acc_getsBody (R := R) (W := W) cfg dest dmax inp len hm hri (hrd hd) (hw hd)
  repeat (first | exact body | exact Acc_failS' _ trivial | split)

end SafeC

import SafeC.Proofs.ExtFld
import SafeC.Proofs.StpSteps
/-!
# The field copies: "`j0` continuing iterations", the missing overlap case of `strcpyfldin_s`, and the complete
outcome of the three entry points

* `fldLoop_steps` — `j0` iterations in which the loop condition holds (on characters not yet overwritten) and the
  bumper is not met: the loop arrives `j0` cells further with `dest[0..j0) = src[0..j0)` (ORIGINAL values).
* `fldBody_fldin_overlap_lt` — `strcpyfldin_s` with `src < dest`: when the bumper is reached the character tested is
  `dest[0]`, which by then holds `src[0] ≠ 0`: ESOVRLP as soon as `dest - src < slen` and the characters below dest are
  non-NUL — also when the source string's own terminator is `dest[0]`.
* `fldBody_all` + the three instances: EOK ⇔ `slen ≤ dmax` ∧ the cells copied do not meet; ESOVRLP ⇔ `slen ≤ dmax` ∧
  they meet; `slen > dmax` ⇒ ESNOSPC / ESLEMAX; on EOK the exact memory (`FldOk`).
-/
namespace SafeC
open Gen

theorem fldLoop_steps (cfg : Cfg) (kind : FldKind) (onDest : Bool) (B oD oM : Nat) (j0 : Nat) :
    ∀ (fuel d s m sl : Nat) (st : St),
    (∀ a, st.mapped a = true ∧ st.rd a = true) → RW st d j0 → j0 ≤ fuel →
    (∀ i j, i < j → j < j0 → s + j ≠ d + i) →
    (∀ j, j < j0 → (if onDest then d + j else s + j) ≠ B) →
    (∀ j, j < j0 → FldCont kind (m - j) (sl - j) ∧ (kind = .fldin → st.data (s + j) ≠ 0)) →
    ∃ st1, CopiedN st st1 d s j0 ∧
      ∀ f' d' s' m' sl', f' + j0 = fuel → d' = d + j0 → s' = s + j0 → m' = m - j0 → sl' = sl - j0 →
        exec (fldLoop cfg kind onDest B oD oM fuel d s m sl) st =
          exec (fldLoop cfg kind onDest B oD oM f' d' s' m' sl') st1 := by
  induction j0 with
  | zero =>
    intro fuel d s m sl st _ _ _ _ _ _
    refine ⟨st, CopiedN.zero st d s, ?_⟩
    intro f' d' s' m' sl' h1 h2 h3 h4 h5
    have e1 : f' = fuel := by omega
    rw [e1, h2, h3, h4, h5]; rfl
  | succ j0 ih =>
    intro fuel d s m sl st hall hrw hfuel hcl hb hgo
    obtain ⟨f, rfl⟩ : ∃ f0, fuel = f0 + 1 := ⟨fuel - 1, by omega⟩
    have hg : FldGo kind st s m sl := by
      have := hgo 0 (by omega)
      simpa [FldGo] using this
    have hb0 : (if onDest then d else s) ≠ B := by simpa using hb 0 (by omega)
    obtain ⟨hdm, hdw, _⟩ := hrw.head
    have hne : ∀ j, j < j0 → (st.upd d (st.data s)).data (s + 1 + j) = st.data (s + (j+1)) := by
      intro j hj
      have e : s + 1 + j = s + (j+1) := by omega
      rw [e]
      exact St.upd_data_ne _ _ _ _ (by have := hcl 0 (j+1) (by omega) (by omega); omega)
    obtain ⟨st1, hcp, hex⟩ := ih f (d+1) (s+1) (m-1) (sl-1) (st.upd d (st.data s))
      (by intro a; exact hall a) (RW.of_sameMeta (SameMeta.upd _ _ _) hrw.tail) (by omega)
      (by intro i j hij hj; have := hcl (i+1) (j+1) (by omega) (by omega); omega)
      (by
        intro j hj
        have := hb (j+1) (by omega)
        have e1 : d + 1 + j = d + (j+1) := by omega
        have e2 : s + 1 + j = s + (j+1) := by omega
        rw [e1, e2]; exact this)
      (by
        intro j hj
        have := hgo (j+1) (by omega)
        have e1 : m - 1 - j = m - (j+1) := by omega
        have e2 : sl - 1 - j = sl - (j+1) := by omega
        rw [e1, e2, hne j hj]; exact this)
    refine ⟨st1, hcp.cons (by intro j h1 h2; have := hcl 0 j h1 (by omega); omega), ?_⟩
    intro f' d' s' m' sl' h1 h2 h3 h4 h5
    rw [fldLoop_step cfg kind onDest B oD oM f d s m sl st (hall s) ⟨hdm, hdw⟩ hg hb0]
    exact hex f' d' s' m' sl' (by omega) (by omega) (by omega) (by omega) (by omega)

/-- `strcpyfldin_s`, `src < dest`: the source runs into dest — `g = dest - src < slen` and `src[0..g)` non-NUL.
Whatever `src[g] = dest[0]` held, it holds `src[0]` when the loop condition reads it: ESOVRLP. -/
theorem fldBody_fldin_overlap_lt (cfg : Cfg) (dest dmax src slen : Nat) (st : St)
    (hall : ∀ a, st.mapped a = true ∧ st.rd a = true) (hrw : RW st dest dmax)
    (hd : dest ≠ 0) (hpos : 0 < dmax) (hle : dmax ≤ RSIZE_MAX_STR) (hs : src ≠ 0) (hle2 : slen ≤ dmax)
    (hlt : src < dest) (hg : dest - src < slen)
    (hnz : ∀ j, j < dest - src → st.data (src + j) ≠ 0) :
    ∃ st', exec (fldBody .fldin cfg dest dmax src slen) st = .ok (ESOVRLP, st') ∧
      FldPost .fldin cfg dest dmax src slen st st' ESOVRLP := by
  apply fldBody_of_inl .fldin cfg dest dmax src slen st hall hrw hd hpos hle hs hle2
  unfold fldCall
  rw [if_neg (by omega)]
  obtain ⟨st1, hcp, hex⟩ := fldLoop_steps cfg .fldin false dest dest dmax (dest - src)
    (fldFuel .fldin dmax slen) dest src dmax slen st hall (fun i hi => hrw i (by omega))
    (by show dest - src ≤ dmax; omega)
    (by intro i j _ _; omega)
    (by intro j hj; simp only [Bool.false_eq_true, if_false]; omega)
    (by
      intro j hj
      refine ⟨?_, fun _ => hnz j hj⟩
      simp only [FldCont]; omega)
  rw [hex (dmax - (dest - src) - 1 + 1) (dest + (dest - src)) (src + (dest - src)) (dmax - (dest - src))
    (slen - (dest - src)) (by show _ = dmax; omega) rfl rfl rfl rfl]
  have hall1 : ∀ a, st1.mapped a = true ∧ st1.rd a = true := by
    intro a; rw [hcp.1.mapped, hcp.1.rd]; exact hall a
  have hgo : FldGo .fldin st1 (src + (dest - src)) (dmax - (dest - src)) (slen - (dest - src)) := by
    refine ⟨?_, fun _ => ?_⟩
    · simp only [FldCont]; omega
    · have e : src + (dest - src) = dest + 0 := by omega
      rw [e, hcp.at 0 (by omega)]
      exact hnz 0 (by omega)
  rw [fldLoop_bump cfg .fldin false dest dest dmax _ _ _ _ _ st1 (hall1 _) hgo
    (by simp only [Bool.false_eq_true, if_false]; omega)]
  obtain ⟨st', he, _, _⟩ := herr_full cfg dest dmax ESOVRLP st1 (RW.of_sameMeta hcp.1 hrw) hpos ESOVRLP_ne_EOK
  exact ⟨st', by simp [exec_bind, he]⟩

theorem fldNospcCode_ne_ovrlp (slen : Nat) : fldNospcCode slen ≠ ESOVRLP := by
  unfold fldNospcCode; split <;> decide

/-- **the complete outcome**, generic in the kind: `D` = "the cells copied do not meet" -/
theorem fldBody_all (kind : FldKind) (cfg : Cfg) (dest dmax src slen n : Nat) (st : St) (D : Prop)
    (hall : ∀ a, st.mapped a = true ∧ st.rd a = true) (hrw : RW st dest dmax)
    (hd : dest ≠ 0) (hpos : 0 < dmax) (hle : dmax ≤ RSIZE_MAX_STR) (hs : src ≠ 0)
    (hok : slen ≤ dmax → D →
      ∃ st', exec (fldBody kind cfg dest dmax src slen) st = .ok (EOK, st') ∧ FldOk dest dmax src n st st')
    (hov : slen ≤ dmax → ¬ D → ∃ st', exec (fldBody kind cfg dest dmax src slen) st = .ok (ESOVRLP, st')) :
    ∃ code st', exec (fldBody kind cfg dest dmax src slen) st = .ok (code, st') ∧
      FldPost kind cfg dest dmax src slen st st' code ∧
      (code = EOK ↔ slen ≤ dmax ∧ D) ∧ (code = ESOVRLP ↔ slen ≤ dmax ∧ ¬ D) ∧
      (code = EOK → FldOk dest dmax src n st st') := by
  obtain ⟨code, st', he, hp⟩ := fldBody_safe kind cfg dest dmax src slen st hall hrw hd hpos hle
  refine ⟨code, st', he, hp, ?_⟩
  by_cases hfit : slen ≤ dmax
  · by_cases hD : D
    · obtain ⟨st2, he2, hok2⟩ := hok hfit hD
      rw [he] at he2
      injection he2 with he2
      obtain ⟨hc, hst⟩ := Prod.mk.inj he2
      subst hc; subst hst
      exact ⟨⟨fun _ => ⟨hfit, hD⟩, fun _ => rfl⟩, ⟨fun h => absurd h (by decide), fun h => absurd hD h.2⟩, fun _ => hok2⟩
    · obtain ⟨st2, he2⟩ := hov hfit hD
      rw [he] at he2
      injection he2 with he2
      obtain ⟨hc, _⟩ := Prod.mk.inj he2
      subst hc
      exact ⟨⟨fun h => absurd h (by decide), fun h => absurd h.2 hD⟩, ⟨fun _ => ⟨hfit, hD⟩, fun _ => rfl⟩,
        fun h => absurd h (by decide)⟩
  · have hc := hp.nospc hs (by omega)
    subst hc
    exact ⟨⟨fun h => absurd h (fldNospcCode_ne slen), fun h => absurd h.1 hfit⟩,
      ⟨fun h => absurd h (fldNospcCode_ne_ovrlp slen), fun h => absurd h.1 hfit⟩,
      fun h => absurd h (fldNospcCode_ne slen)⟩

/-- `strcpyfld_s`: `D` = the two `slen`-cell fields do not meet -/
theorem fldBody_fld_all (cfg : Cfg) (dest dmax src slen : Nat) (st : St)
    (hall : ∀ a, st.mapped a = true ∧ st.rd a = true) (hrw : RW st dest dmax)
    (hd : dest ≠ 0) (hpos : 0 < dmax) (hle : dmax ≤ RSIZE_MAX_STR) (hs : src ≠ 0) :
    ∃ code st', exec (fldBody .fld cfg dest dmax src slen) st = .ok (code, st') ∧
      FldPost .fld cfg dest dmax src slen st st' code ∧
      (code = EOK ↔ slen ≤ dmax ∧ (dest + slen ≤ src ∨ src + slen ≤ dest)) ∧
      (code = ESOVRLP ↔ slen ≤ dmax ∧ ¬ (dest + slen ≤ src ∨ src + slen ≤ dest)) ∧
      (code = EOK → FldOk dest dmax src slen st st') :=
  fldBody_all .fld cfg dest dmax src slen slen st _ hall hrw hd hpos hle hs
    (fun hfit hD => fldBody_fld_ok cfg dest dmax src slen st hall hrw hs hfit hD)
    (fun hfit hD => by
      obtain ⟨st', he, _⟩ := fldBody_fld_overlap cfg dest dmax src slen st hall hrw hd hpos hle hs hfit hD
      exact ⟨st', he⟩)

/-- `strcpyfldout_s`: `n = min slen (dmax-1)` cells are copied -/
theorem fldBody_fldout_all (cfg : Cfg) (dest dmax src slen : Nat) (st : St)
    (hall : ∀ a, st.mapped a = true ∧ st.rd a = true) (hrw : RW st dest dmax)
    (hd : dest ≠ 0) (hpos : 0 < dmax) (hle : dmax ≤ RSIZE_MAX_STR) (hs : src ≠ 0) :
    ∃ code st', exec (fldBody .fldout cfg dest dmax src slen) st = .ok (code, st') ∧
      FldPost .fldout cfg dest dmax src slen st st' code ∧
      (code = EOK ↔ slen ≤ dmax ∧ (dest + min slen (dmax - 1) ≤ src ∨ src + min slen (dmax - 1) ≤ dest)) ∧
      (code = ESOVRLP ↔ slen ≤ dmax ∧ ¬ (dest + min slen (dmax - 1) ≤ src ∨ src + min slen (dmax - 1) ≤ dest)) ∧
      (code = EOK → FldOk dest dmax src (min slen (dmax - 1)) st st') :=
  fldBody_all .fldout cfg dest dmax src slen _ st _ hall hrw hd hpos hle hs
    (fun hfit hD => fldBody_fldout_ok cfg dest dmax src slen st hall hrw hs hpos hfit hD)
    (fun hfit hD => by
      obtain ⟨st', he, _⟩ := fldBody_fldout_overlap cfg dest dmax src slen st hall hrw hd hpos hle hs hfit hD
      exact ⟨st', he⟩)

/-- `strcpyfldin_s`: `n` = number of leading non-NUL source characters, capped by `slen`.  The cells read are the `n`
characters and — unless `slen` ran out — the terminator `src[n]`; the cells written are `dest[0..n)`: they do not meet
iff `dest + n ≤ src ∨ src + n < dest ∨ (src + n = dest ∧ n = slen)`. -/
theorem fldBody_fldin_all (cfg : Cfg) (dest dmax src slen n : Nat) (st : St)
    (hall : ∀ a, st.mapped a = true ∧ st.rd a = true) (hrw : RW st dest dmax)
    (hd : dest ≠ 0) (hpos : 0 < dmax) (hle : dmax ≤ RSIZE_MAX_STR) (hs : src ≠ 0)
    (hn : n ≤ slen) (hnz : ∀ j, j < n → st.data (src + j) ≠ 0) (hend : n = slen ∨ st.data (src + n) = 0) :
    ∃ code st', exec (fldBody .fldin cfg dest dmax src slen) st = .ok (code, st') ∧
      FldPost .fldin cfg dest dmax src slen st st' code ∧
      (code = EOK ↔ slen ≤ dmax ∧ (dest + n ≤ src ∨ src + n < dest ∨ (src + n = dest ∧ n = slen))) ∧
      (code = ESOVRLP ↔ slen ≤ dmax ∧ ¬ (dest + n ≤ src ∨ src + n < dest ∨ (src + n = dest ∧ n = slen))) ∧
      (code = EOK → FldOk dest dmax src n st st') := by
  refine fldBody_all .fldin cfg dest dmax src slen n st _ hall hrw hd hpos hle hs ?_ ?_
  · intro hfit hD
    refine fldBody_fldin_ok cfg dest dmax src slen n st hall hrw hs hfit hn hnz ?_ (by omega)
    rcases hend with h | h
    · exact Or.inl h
    · by_cases hns : n = slen
      · exact Or.inl hns
      · exact Or.inr ⟨h, by omega⟩
  · intro hfit hD
    by_cases hge : dest ≤ src
    · obtain ⟨st', he, _⟩ := fldBody_fldin_overlap cfg dest dmax src slen st hall hrw hd hpos hle hs hfit hge
        (by omega) (fun j hj => hnz j (by omega))
      exact ⟨st', he⟩
    · obtain ⟨st', he, _⟩ := fldBody_fldin_overlap_lt cfg dest dmax src slen st hall hrw hd hpos hle hs hfit
        (by omega) (by omega) (fun j hj => hnz j (by omega))
      exact ⟨st', he⟩

end SafeC

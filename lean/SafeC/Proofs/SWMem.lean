import SafeC.Proofs.SW
import SafeC.Proofs.MemMove
/-!
# `SW` for the memory family (`Models/Mem.lean`)

The move primitives come from their exact-effect theorems (`mem_prim_move_ok`, `primMoveElems_ok`: the alignment
arithmetic is not redone); the set primitives on `w`-byte cells (`w` = 1, 2, 4) by a walk with the byte-range
invariant `lo*w ≤ dp ∧ dp + count ≤ hi*w`.
-/
namespace SafeC
open Gen Mem

theorem SW_of_moved {lo hi : Nat} {p : Prog Unit} (d s n : Nat) (hin : n = 0 ∨ (lo ≤ d ∧ d + n ≤ hi))
    (H : ∀ st, RW st d n → RD st s n → ∃ st', exec p st = .ok ((), st') ∧ Moved st st' d s n) :
    SW lo hi p (fun _ => True) := by
  apply SW.mk
  intro st hall hw
  have hrw : RW st d n := by
    intro i hi'
    rcases hin with h | ⟨h1, h2⟩
    · omega
    · exact ⟨(hall _).1, hw _ (by omega) (by omega), (hall _).2⟩
  obtain ⟨st', he, hm⟩ := H st hrw (fun i _ => hall _)
  refine ⟨(), st', he, trivial, hm.same.mapped, hm.same.wr, hm.same.rd, ?_, ?_⟩
  · intro x hx; rw [hm.same.strays] at hx; exact Or.inl hx
  · intro a ha
    rw [hm.data a, if_neg]
    rcases hin with h | ⟨h1, h2⟩ <;> omega

/-- `mem_prim_move` (bytes): `n = len mod 2^32 ≠ 0` bytes from `dest` (with `n = 0` and unaligned pointers the C
prologue `do … while (--tsp)` is entered with 0 and runs 2^64 times) -/
theorem SW_mem_prim_move {lo hi : Nat} (dest src len : Nat) (h : 0 < len % U32 ∧ lo ≤ dest ∧ dest + len % U32 ≤ hi) :
    SW lo hi (mem_prim_move dest src len) (fun _ => True) :=
  SW_of_moved dest src (len % U32) (Or.inr ⟨h.2.1, h.2.2⟩) (fun st hw hr => mem_prim_move_ok dest src len st h.1 hw hr)

theorem SW_primMoveElems {lo hi : Nat} (dest src len : Nat) (h : len % U32 = 0 ∨ (lo ≤ dest ∧ dest + len % U32 ≤ hi)) :
    SW lo hi (primMoveElems dest src len) (fun _ => True) :=
  SW_of_moved dest src (len % U32) h (fun st hw hr => primMoveElems_ok dest src len st hw hr)

theorem SW_mem_prim_move16 {lo hi : Nat} (dest src len : Nat) (h : len % U32 = 0 ∨ (lo ≤ dest ∧ dest + len % U32 ≤ hi)) :
    SW lo hi (mem_prim_move16 dest src len) (fun _ => True) := SW_primMoveElems dest src len h
theorem SW_mem_prim_move32 {lo hi : Nat} (dest src len : Nat) (h : len % U32 = 0 ∨ (lo ≤ dest ∧ dest + len % U32 ≤ hi)) :
    SW lo hi (mem_prim_move32 dest src len) (fun _ => True) := SW_primMoveElems dest src len h

/-! ## the set primitives -/

theorem SW_storeByte {lo hi : Nat} (w v a rem : Nat) (hw : w = 1 ∨ w = 2 ∨ w = 4) (h : lo * w ≤ a ∧ a < hi * w) :
    SW lo hi (storeByte w v a rem) (fun _ => True) := by
  unfold storeByte
  rcases hw with rfl | rfl | rfl <;> sw_walk

theorem SW_memsetBytes {lo hi : Nat} (w v dest n : Nat) (hw : w = 1 ∨ w = 2 ∨ w = 4)
    (h : lo ≤ dest ∧ dest * w + n ≤ hi * w) :
    SW lo hi (memsetBytes w v dest n) (fun _ => True) := by
  unfold memsetBytes
  rcases hw with rfl | rfl | rfl <;> sw_walk

theorem SW_handleMemErrorB {lo hi : Nat} (w dest len code : Nat) (hw : w = 1 ∨ w = 2 ∨ w = 4)
    (h : lo ≤ dest ∧ dest * w + len ≤ hi * w) :
    SW lo hi (handleMemErrorB w dest len code) (fun _ => True) := by
  unfold handleMemErrorB; sw_walk using SW_memsetBytes

theorem SW_setPrologue {lo hi : Nat} (w v count dp : Nat) (hw : w = 1 ∨ w = 2 ∨ w = 4)
    (h : lo * w ≤ dp ∧ dp + count ≤ hi * w) :
    SW lo hi (setPrologue w v count dp) (fun r => lo * w ≤ r.2 ∧ r.2 + r.1 ≤ hi * w ∧ r.1 ≤ count) := by
  induction count generalizing dp with
  | zero => unfold setPrologue; sw_walk
  | succ n ih => unfold setPrologue; sw_walk using ih, SW_storeByte

theorem SW_setWords {lo hi : Nat} (w v k lp : Nat) (hw : w = 1 ∨ w = 2 ∨ w = 4)
    (h : lo * w ≤ lp ∧ lp + 8 * k ≤ hi * w) :
    SW lo hi (setWords w v k lp) (fun r => r = lp + 8 * k) := by
  induction k generalizing lp with
  | zero => unfold setWords; sw_walk
  | succ n ih =>
    unfold setWords
    rcases hw with rfl | rfl | rfl <;> sw_walk using ih

theorem SW_setBlocks {lo hi : Nat} (w v q lp : Nat) (hw : w = 1 ∨ w = 2 ∨ w = 4)
    (h : lo * w ≤ lp ∧ lp + 128 * q ≤ hi * w) :
    SW lo hi (setBlocks w v q lp) (fun r => r = lp + 128 * q) := by
  induction q generalizing lp with
  | zero => unfold setBlocks; sw_walk
  | succ n ih => unfold setBlocks; sw_walk using ih, SW_setWords

theorem SW_setTail {lo hi : Nat} (w v count dp : Nat) (hw : w = 1 ∨ w = 2 ∨ w = 4)
    (h : lo * w ≤ dp ∧ dp + count ≤ hi * w) :
    SW lo hi (setTail w v count dp) (fun _ => True) := by
  induction count generalizing dp with
  | zero => unfold setTail; sw_walk
  | succ n ih => unfold setTail; sw_walk using ih, SW_storeByte

/-- `mem_prim_set(dest, len, value)` on `w`-byte cells, `dest` a BYTE address: the `len mod 2^32` bytes from `dest` -/
theorem SW_mem_prim_set {lo hi : Nat} (w dest len value : Nat) (hw : w = 1 ∨ w = 2 ∨ w = 4)
    (h : lo * w ≤ dest ∧ dest + len % U32 ≤ hi * w) :
    SW lo hi (mem_prim_set w dest len value) (fun _ => True) := by
  unfold mem_prim_set
  generalize len % U32 = c at h
  sw_walk using SW_setPrologue, SW_setBlocks, SW_setWords, SW_setTail

theorem SW_setElems {lo hi : Nat} (v k dp : Nat) (h : k = 0 ∨ (lo ≤ dp ∧ dp + k ≤ hi)) :
    SW lo hi (setElems v k dp) (fun r => r = dp + k) := by
  induction k generalizing dp with
  | zero => unfold setElems; sw_walk
  | succ n ih => unfold setElems; sw_walk using ih

theorem SW_setElemBlocks {lo hi : Nat} (v q dp : Nat) (h : q = 0 ∨ (lo ≤ dp ∧ dp + 16 * q ≤ hi)) :
    SW lo hi (setElemBlocks v q dp) (fun r => r = dp + 16 * q) := by
  induction q generalizing dp with
  | zero => unfold setElemBlocks; sw_walk
  | succ n ih => unfold setElemBlocks; sw_walk using ih, SW_setElems

theorem SW_primSetElems {lo hi : Nat} (dest len value : Nat) (h : len % U32 = 0 ∨ (lo ≤ dest ∧ dest + len % U32 ≤ hi)) :
    SW lo hi (primSetElems dest len value) (fun _ => True) := by
  unfold primSetElems
  generalize len % U32 = c at h
  sw_walk using SW_setElemBlocks, SW_setElems

theorem SW_mem_prim_set16 {lo hi : Nat} (dest len value : Nat) (h : len % U32 = 0 ∨ (lo ≤ dest ∧ dest + len % U32 ≤ hi)) :
    SW lo hi (mem_prim_set16 dest len value) (fun _ => True) := SW_primSetElems _ _ _ h
theorem SW_mem_prim_set32 {lo hi : Nat} (dest len value : Nat) (h : len % U32 = 0 ∨ (lo ≤ dest ∧ dest + len % U32 ≤ hi)) :
    SW lo hi (mem_prim_set32 dest len value) (fun _ => True) := SW_primSetElems _ _ _ h

end SafeC

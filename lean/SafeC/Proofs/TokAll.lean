import SafeC.Proofs.Tok
/-!
# The two tokenizer loops on EVERY string (terminated inside `dlen`, terminated exactly at `dest[dlen]`, or not at all)

`scan1_eq` / `scan2_eq` (`Proofs/Tok.lean`) describe the loops when a NUL lies inside the remaining length.  Here the
hypothesis is dropped: the loop is described by the same scan position (`skipD` / `findE`) and a three-way case
distinction on the cell it stops at:

* it holds NUL — possibly the cell `dest[dlen]`, one past the declared extent (`tok-nul-at-dmax-accepted`,
  `tok-read-before-bound`);
* it is the cell `dest[dlen]` and holds no NUL — the "unterminated" exit, whose `*dest = 0` lands on `dest[dlen]`
  (`tok-unterm-exit-writes-dest-dmax`);
* otherwise the loop ends as for a terminated string.

The only hypotheses: every cell mapped and readable, the delimiter string has 1..`STRTOK_DELIM_MAX_LEN` characters.
Stores are left as `exec (store ..)` so that no writability assumption is needed.
-/
namespace SafeC
open Gen

/-- what `scan1` does when it runs out of length on a non-NUL cell -/
def scan1Unterm (wide : Bool) (a : Nat) : Prog Scan1 :=
  if wide then do
    let o ← tokUnterm a
    pure (.out o)
  else do
    handlerS ESUNTERM
    pure (.out { ret := 0, ptrv := some 0 })

theorem scan1_all {st : St} (h : AllRd st) (wide : Bool) (dl dlen dest : Nat) (hd : DelimOK st.data dl) :
    exec (scan1 wide dl dlen dest) st =
      (let a := skipD st.data dl dlen dest
       if st.data a = 0 then .ok (Scan1.exit 0 a (dlen - (a - dest)), st)
       else if a = dest + dlen then exec (scan1Unterm wide a) st
       else .ok (Scan1.exit a (a+1) (dlen - (a - dest) - 1), st)) := by
  induction dlen generalizing dest with
  | zero =>
    simp only [scan1, exec_bind, exec_load_all h, skipD, Nat.add_zero, if_true]
    by_cases h0 : st.data dest = 0
    · simp [h0]
    · cases wide <;> simp [h0, scan1Unterm]
  | succ n ih =>
    simp only [scan1, exec_bind, exec_load_all h, skipD]
    by_cases h0 : st.data dest = 0
    · simp [h0]
    · simp only [h0, if_false, exec_bind, delimScan1_eq h dest dl hd]
      by_cases hdl : isDelim st.data dl (st.data dest) = true
      · simp only [hdl, Bool.not_true, if_true]
        rw [ih (dest+1)]
        have hb := skipD_bounds st.data dl n (dest+1)
        have e1 : n + 1 - (skipD st.data dl n (dest+1) - dest) = n - (skipD st.data dl n (dest+1) - (dest+1)) := by omega
        have e2 : (skipD st.data dl n (dest+1) = dest + 1 + n) = (skipD st.data dl n (dest+1) = dest + (n + 1)) := by
          apply propext; omega
        simp only [e1, e2]
      · have hdl' : isDelim st.data dl (st.data dest) = false := by simpa using hdl
        have hne : ¬ dest = dest + (n + 1) := by omega
        simp [hdl', h0, exec_bind, exec_load_all h]

/-- the "token ended by a delimiter" exit of `scan2` -/
def scan2Cut (ptoken b dlen' : Nat) : Prog TokOut := do
  store b 0
  pure { ret := ptoken, dmaxv := some dlen', ptrv := some (b+1) }

theorem scan2_all {st : St} (h : AllRd st) (dl ptoken dlen dest : Nat) (hd : DelimOK st.data dl) :
    exec (scan2 dl ptoken dlen dest) st =
      (let b := findE st.data dl dlen dest
       if st.data b = 0 then .ok ({ ret := ptoken, dmaxv := some (dlen - (b - dest)), ptrv := some b }, st)
       else if b = dest + dlen then exec (tokUnterm b) st
       else exec (scan2Cut ptoken b (dlen - (b - dest) - 1)) st) := by
  induction dlen generalizing dest with
  | zero =>
    simp only [scan2, exec_bind, exec_load_all h, findE, Nat.add_zero, if_true]
    by_cases h0 : st.data dest = 0
    · simp [h0]
    · simp [h0]
  | succ n ih =>
    simp only [scan2, exec_bind, exec_load_all h, findE]
    by_cases h0 : st.data dest = 0
    · simp [h0]
    · simp only [h0, if_false, exec_bind, delimScan2_eq h dest dl hd]
      by_cases hdl : isDelim st.data dl (st.data dest) = true
      · have hne : ¬ dest = dest + (n + 1) := by omega
        simp [hdl, h0, scan2Cut, exec_bind]
      · have hdl' : isDelim st.data dl (st.data dest) = false := by simpa using hdl
        simp only [hdl', Bool.false_eq_true, if_false]
        rw [ih (dest+1)]
        have hb := findE_bounds st.data dl n (dest+1)
        have e1 : n + 1 - (findE st.data dl n (dest+1) - dest) = n - (findE st.data dl n (dest+1) - (dest+1)) := by omega
        have e2 : (findE st.data dl n (dest+1) = dest + 1 + n) = (findE st.data dl n (dest+1) = dest + (n + 1)) := by
          apply propext; omega
        simp only [e1, e2]

/-- the cells `skipD` passes are non-NUL: if no NUL lies in the `n` cells, none lies before the stop either, and the
stop is a non-delimiter or the end -/
theorem skipD_end (m : Nat → Nat) (dl n p : Nat) :
    skipD m dl n p = p + n ∨ m (skipD m dl n p) = 0 ∨ isDelim m dl (m (skipD m dl n p)) = false := by
  induction n generalizing p with
  | zero => left; rfl
  | succ n ih =>
    simp only [skipD]
    by_cases h0 : m p = 0
    · simp [h0]
    · simp only [h0, if_false]
      by_cases hd : isDelim m dl (m p) = true
      · rw [if_pos hd]
        rcases ih (p+1) with h | h
        · left; omega
        · right; exact h
      · rw [if_neg hd]; right; right; simpa using hd

theorem findE_end (m : Nat → Nat) (dl n p : Nat) :
    findE m dl n p = p + n ∨ m (findE m dl n p) = 0 ∨ isDelim m dl (m (findE m dl n p)) = true := by
  induction n generalizing p with
  | zero => left; rfl
  | succ n ih =>
    simp only [findE]
    by_cases h0 : m p = 0
    · simp [h0]
    · simp only [h0, if_false]
      by_cases hd : isDelim m dl (m p) = true
      · rw [if_pos hd]; right; right; exact hd
      · rw [if_neg hd]
        rcases ih (p+1) with h | h
        · left; omega
        · right; exact h

end SafeC

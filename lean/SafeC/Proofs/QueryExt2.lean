import SafeC.Proofs.QueryExt1
/-!
# Loop lemmas for the second batch of C10 (nested loops, password scan)

`strstr_s strcasestr_s wcsstr_s strpbrk_s strispassword_s`.  Same conventions as `QueryExt1.lean`.
-/
namespace SafeC
open Gen
set_option linter.unusedSimpArgs false

theorem scanLen_stable (d : Nat → Nat) (p n N : Nat) (h : n ≤ N) (hz : scanLen d p n < n) :
    scanLen d p N = scanLen d p n := by
  have := scanLen_min d p n N h
  omega

theorem scanLen_pos (d : Nat → Nat) (p n : Nat) (hn : 0 < n) (h : d p ≠ 0) : 0 < scanLen d p n := by
  cases n with
  | zero => omega
  | succ n => rw [scanLen_succ_of_ne _ _ _ h]; omega

/-! ## the inner loops of the substring searches

All three return `true` exactly when the remaining needle — the `scanLen (src+i) len` cells before
its terminator or the end of `slen` — fits into the `dlen` cells left and equals them. -/

theorem strstrInner_eq {st : St} (h : AllRd st) (dest src dlen i len : Nat)
    (hlen : 0 < len) (hs : st.data (src+i) ≠ 0) :
    exec (strstrInner dest src dlen i len) st =
      .ok (decide (scanLen st.data (src+i) len ≤ dlen) &&
           subAt id st.data (dest+i) (src+i) (scanLen st.data (src+i) len), st) := by
  induction dlen generalizing i len with
  | zero =>
    have := scanLen_pos st.data (src+i) len hlen hs
    unfold strstrInner
    simp only [exec_bind, exec_load_all h, hs, if_false, exec_pure]
    have hd : ¬ scanLen st.data (src+i) len ≤ 0 := by omega
    simp [hd]
  | succ n ih =>
    unfold strstrInner
    simp only [exec_bind, exec_load_all h, hs, if_false]
    obtain ⟨l, rfl⟩ : ∃ l, len = l + 1 := ⟨len - 1, by omega⟩
    rw [scanLen_succ_of_ne _ _ _ hs]
    by_cases he : st.data (dest+i) = st.data (src+i)
    · simp only [he, ne_eq, not_true_eq_false, if_false, Nat.add_sub_cancel, subAt, id, beq_self_eq_true,
        Bool.true_and, exec_bind, exec_load_all h]
      by_cases hstop : st.data (src+i+1) = 0 ∨ l = 0
      · have hz : scanLen st.data (src+i+1) l = 0 := by
          cases l with
          | zero => rfl
          | succ l =>
            rcases hstop with h0 | h0
            · exact scanLen_succ_of_eq _ _ _ h0
            · omega
        simp [hstop, hz, subAt]
      · simp only [hstop, if_false]
        have h2 : st.data (src+(i+1)) ≠ 0 := by
          intro hh; apply hstop; left; rw [← hh]; congr 1
        rw [ih (i+1) l (by omega) h2]
        have e1 : src + (i+1) = src + i + 1 := by omega
        have e2 : dest + (i+1) = dest + i + 1 := by omega
        rw [e1, e2]
        congr 2
        simp
    · have hb : (st.data (dest+i) == st.data (src+i)) = false := by simpa using he
      simp [he, subAt, hb]

theorem wcsstrInner_eq {st : St} (h : AllRd st) (dest src dlen i len : Nat)
    (hlen : 0 < len) (hs : st.data (src+i) ≠ 0) :
    exec (wcsstrInner dest src dlen i len) st =
      .ok (decide (scanLen st.data (src+i) len ≤ dlen) &&
           subAt id st.data (dest+i) (src+i) (scanLen st.data (src+i) len), st) := by
  induction dlen generalizing i len with
  | zero =>
    have := scanLen_pos st.data (src+i) len hlen hs
    simp only [wcsstrInner, exec_bind, exec_load_all h, exec_pure]
    have hd : ¬ scanLen st.data (src+i) len ≤ 0 := by omega
    simp [hd]
  | succ n ih =>
    simp only [wcsstrInner, exec_bind, exec_load_all h, hs, if_false]
    obtain ⟨l, rfl⟩ : ∃ l, len = l + 1 := ⟨len - 1, by omega⟩
    rw [scanLen_succ_of_ne _ _ _ hs]
    by_cases he : st.data (dest+i) = st.data (src+i)
    · simp only [he, ne_eq, not_true_eq_false, if_false, Nat.add_sub_cancel, subAt, id, beq_self_eq_true,
        Bool.true_and, exec_bind, exec_load_all h]
      by_cases hstop : st.data (src+(i+1)) = 0 ∨ l = 0
      · have hz : scanLen st.data (src+i+1) l = 0 := by
          cases l with
          | zero => rfl
          | succ l =>
            rcases hstop with h0 | h0
            · exact scanLen_succ_of_eq _ _ _ (by rw [← h0]; congr 1)
            · omega
        simp [hstop, hz, subAt]
      · simp only [hstop, if_false]
        have h2 : st.data (src+(i+1)) ≠ 0 := fun hh => hstop (Or.inl hh)
        rw [ih (i+1) l (by omega) h2]
        have e1 : src + (i+1) = src + i + 1 := by omega
        have e2 : dest + (i+1) = dest + i + 1 := by omega
        rw [e1, e2]
        congr 2
        simp
    · have hb : (st.data (dest+i) == st.data (src+i)) = false := by simpa using he
      simp [he, subAt, hb]

theorem strcasestrInner_eq {st : St} (h : AllRd st) (dest src dlen i len : Nat)
    (hlen : 0 < len) (hs : st.data (src+i) ≠ 0) :
    exec (strcasestrInner dest src dlen i len) st =
      .ok (decide (scanLen st.data (src+i) len ≤ dlen) &&
           subAt toUpperC st.data (dest+i) (src+i) (scanLen st.data (src+i) len), st) := by
  induction dlen generalizing i len with
  | zero =>
    have := scanLen_pos st.data (src+i) len hlen hs
    unfold strcasestrInner
    have hd : ¬ scanLen st.data (src+i) len ≤ 0 := by omega
    simp only [exec_bind, exec_load_all h]
    split <;> simp [hd]
  | succ n ih =>
    unfold strcasestrInner
    simp only [exec_bind, exec_load_all h]
    obtain ⟨l, rfl⟩ : ∃ l, len = l + 1 := ⟨len - 1, by omega⟩
    rw [scanLen_succ_of_ne _ _ _ hs]
    have hus : toUpperC (st.data (src+i)) ≠ 0 := fun hh => hs ((toUpperC_eq_zero _).1 hh)
    by_cases hd0 : st.data (dest+i) = 0
    · have hb : (toUpperC 0 == toUpperC (st.data (src+i))) = false := by
        have : toUpperC 0 = 0 := by decide
        rw [this]; simpa using fun hh => hus hh.symm
      simp [hd0, subAt, hb]
    · simp only [hd0, if_false]
      by_cases he : toUpperC (st.data (dest+i)) = toUpperC (st.data (src+i))
      · simp only [he, ne_eq, not_true_eq_false, if_false, Nat.add_sub_cancel, subAt, beq_self_eq_true,
          Bool.true_and, exec_bind, exec_load_all h]
        by_cases hstop : st.data (src+i+1) = 0 ∨ l = 0
        · have hz : scanLen st.data (src+i+1) l = 0 := by
            cases l with
            | zero => rfl
            | succ l =>
              rcases hstop with h0 | h0
              · exact scanLen_succ_of_eq _ _ _ h0
              · omega
          simp [hstop, hz, subAt]
        · simp only [hstop, if_false]
          have h2 : st.data (src+(i+1)) ≠ 0 := by
            intro hh; apply hstop; left; rw [← hh]; congr 1
          rw [ih (i+1) l (by omega) h2]
          have e1 : src + (i+1) = src + i + 1 := by omega
          have e2 : dest + (i+1) = dest + i + 1 := by omega
          rw [e1, e2]
          congr 2
          simp
      · have hb : (toUpperC (st.data (dest+i)) == toUpperC (st.data (src+i))) = false := by simpa using he
        simp [he, subAt, hb, exec_bind, exec_load_all h]

/-! ## the outer loops -/

/-- a needle of `m ≥ 1` cells starting with a non-zero cell does not match at a NUL -/
theorem subAt_nul_false (f : Nat → Nat) (hf : ∀ c, f c = 0 ↔ c = 0) (d : Nat → Nat) (p q m : Nat)
    (hm : 0 < m) (hp : d p = 0) (hq : d q ≠ 0) : subAt f d p q m = false := by
  cases m with
  | zero => omega
  | succ m =>
    have : (f (d p) == f (d q)) = false := by
      have h1 : f (d p) = 0 := (hf _).2 hp
      have h2 : f (d q) ≠ 0 := fun hh => hq ((hf _).1 hh)
      rw [h1]; simpa using fun hh => h2 hh.symm
    simp [subAt, this]

theorem strstrOuter_eq {st : St} (h : AllRd st) (src slen dmax dest : Nat)
    (hlen : 0 < slen) (hs : st.data src ≠ 0) :
    exec (strstrOuter src slen dmax dest) st =
      .ok ((match findSub id st.data src (scanLen st.data src slen) dest dmax with
            | some i => (EOK, dest + i) | none => (ESNOTFND, 0)), st) := by
  have hm := scanLen_pos st.data src slen hlen hs
  induction dmax generalizing dest with
  | zero =>
    unfold strstrOuter
    simp only [exec_bind, exec_load_all h, findSub]
    split <;> simp
  | succ n ih =>
    unfold strstrOuter
    simp only [exec_bind, exec_load_all h, findSub]
    by_cases h0 : st.data dest = 0
    · have := subAt_nul_false id (fun c => Iff.rfl) st.data dest src _ hm h0 hs
      simp [h0, this]
    · simp only [h0, if_false]
      have hin := strstrInner_eq h dest src (n+1) 0 slen hlen (by simpa using hs)
      simp only [Nat.add_zero] at hin
      rw [exec_bind, hin]
      by_cases hmatch : scanLen st.data src slen ≤ n + 1 ∧ subAt id st.data dest src (scanLen st.data src slen) = true
      · simp [hmatch]
      · have : (decide (scanLen st.data src slen ≤ n + 1) &&
            subAt id st.data dest src (scanLen st.data src slen)) = false := by
          simpa using hmatch
        simp only [this, hmatch, Bool.false_eq_true, if_false]
        rw [ih]
        cases findSub id st.data src (scanLen st.data src slen) (dest+1) n <;> simp <;> omega

theorem strcasestrOuter_eq {st : St} (h : AllRd st) (src slen dmax dest : Nat)
    (hlen : 0 < slen) (hs : st.data src ≠ 0) :
    exec (strcasestrOuter src slen dmax dest) st =
      .ok ((match findSub toUpperC st.data src (scanLen st.data src slen) dest dmax with
            | some i => (EOK, dest + i) | none => (ESNOTFND, 0)), st) := by
  have hm := scanLen_pos st.data src slen hlen hs
  induction dmax generalizing dest with
  | zero =>
    unfold strcasestrOuter
    simp only [exec_bind, exec_load_all h, findSub]
    split <;> simp
  | succ n ih =>
    unfold strcasestrOuter
    simp only [exec_bind, exec_load_all h, findSub]
    by_cases h0 : st.data dest = 0
    · have := subAt_nul_false toUpperC toUpperC_eq_zero st.data dest src _ hm h0 hs
      simp [h0, this]
    · simp only [h0, if_false]
      have hin := strcasestrInner_eq h dest src (n+1) 0 slen hlen (by simpa using hs)
      simp only [Nat.add_zero] at hin
      rw [exec_bind, hin]
      by_cases hmatch : scanLen st.data src slen ≤ n + 1 ∧ subAt toUpperC st.data dest src (scanLen st.data src slen) = true
      · simp [hmatch]
      · have : (decide (scanLen st.data src slen ≤ n + 1) &&
            subAt toUpperC st.data dest src (scanLen st.data src slen)) = false := by
          simpa using hmatch
        simp only [this, hmatch, Bool.false_eq_true, if_false]
        rw [ih]
        cases findSub toUpperC st.data src (scanLen st.data src slen) (dest+1) n <;> simp <;> omega

theorem wcsstrOuter_eq {st : St} (h : AllRd st) (src slen dmax dest : Nat)
    (hlen : 0 < slen) (hs : st.data src ≠ 0) :
    exec (wcsstrOuter src slen dmax dest) st =
      .ok ((match findSub id st.data src (scanLen st.data src slen) dest dmax with
            | some i => (EOK, dest + i) | none => (ESNOTFND, 0)), st) := by
  have hm := scanLen_pos st.data src slen hlen hs
  induction dmax generalizing dest with
  | zero => simp [wcsstrOuter, exec_bind, exec_load_all h, findSub]
  | succ n ih =>
    simp only [wcsstrOuter, exec_bind, exec_load_all h, findSub]
    by_cases h0 : st.data dest = 0
    · have := subAt_nul_false id (fun c => Iff.rfl) st.data dest src _ hm h0 hs
      simp [h0, this]
    · simp only [h0, if_false]
      have hin := wcsstrInner_eq h dest src (n+1) 0 slen hlen (by simpa using hs)
      simp only [Nat.add_zero] at hin
      rw [exec_bind, hin]
      by_cases hmatch : scanLen st.data src slen ≤ n + 1 ∧ subAt id st.data dest src (scanLen st.data src slen) = true
      · simp [hmatch]
      · have : (decide (scanLen st.data src slen ≤ n + 1) &&
            subAt id st.data dest src (scanLen st.data src slen)) = false := by
          simpa using hmatch
        simp only [this, hmatch, Bool.false_eq_true, if_false]
        rw [ih]
        cases findSub id st.data src (scanLen st.data src slen) (dest+1) n <;> simp <;> omega

/-! ## `strpbrk_s` -/

/-- the inner loop when the set string ends in time (a NUL among its first `len` cells, or exactly
at index `len`): a plain membership test -/
theorem strpbrkInner_eq {st : St} (h : AllRd st) (dest len ps : Nat)
    (hz : st.data (ps + scanLen st.data ps len) = 0) :
    exec (strpbrkInner dest len ps) st =
      .ok ((if inSet st.data (st.data dest) ps len = true then some true else none), st) := by
  induction len generalizing ps with
  | zero =>
    have h0 : st.data ps = 0 := by simpa [scanLen] using hz
    unfold strpbrkInner
    simp [exec_bind, exec_load_all h, h0, inSet]
  | succ n ih =>
    unfold strpbrkInner
    simp only [exec_bind, exec_load_all h, inSet]
    by_cases h0 : st.data ps = 0
    · simp [h0]
    · simp only [h0, if_false, exec_bind, exec_load_all h]
      rw [scanLen_succ_of_ne _ _ _ h0] at hz
      by_cases he : st.data dest = st.data ps
      · simp [he]
      · simp only [he, if_false]
        rw [ih (ps+1) (by rw [← hz]; congr 1; omega)]

theorem strpbrkOuter_eq {st : St} (h : AllRd st) (src slen dmax dest : Nat)
    (hz : st.data (src + scanLen st.data src slen) = 0) :
    exec (strpbrkOuter src slen dmax dest) st =
      .ok ((match firstIn st.data src slen dest dmax with
            | some i => (EOK, dest + i) | none => (ESNOTFND, 0)), st) := by
  induction dmax generalizing dest with
  | zero =>
    unfold strpbrkOuter
    simp only [exec_bind, exec_load_all h, firstIn]
    split <;> simp
  | succ n ih =>
    unfold strpbrkOuter
    simp only [exec_bind, exec_load_all h, firstIn]
    by_cases h0 : st.data dest = 0
    · simp [h0]
    · simp only [h0, if_false, exec_bind, strpbrkInner_eq h dest slen src hz]
      by_cases hin : inSet st.data (st.data dest) src slen = true
      · simp [hin]
      · simp only [hin, Bool.false_eq_true, if_false]
        rw [ih]
        cases firstIn st.data src slen (dest+1) n <;> simp <;> omega


/-! ### what the code of `strpbrk_s` computes on ANY memory (the `len` test FOLLOWS the compare) -/

/-- the inner loop as a pure function: `none` = fell out at the set's NUL, `some true` = hit,
`some false` = `len` ran out (the C returns ESNOTFND for the WHOLE search there) -/
def pbrkInnerF (d : Nat → Nat) (c ps : Nat) : Nat → Option Bool
  | 0 => if d ps = 0 then none else if c = d ps then some true else some false
  | len+1 => if d ps = 0 then none else if c = d ps then some true else pbrkInnerF d c (ps+1) len

/-- the outer loop as a pure function -/
def pbrkOuterF (d : Nat → Nat) (src slen p : Nat) : Nat → Option Nat
  | 0 => none
  | n+1 =>
    if d p = 0 then none
    else match pbrkInnerF d (d p) src slen with
      | some true => some 0
      | some false => none
      | none => (pbrkOuterF d src slen (p+1) n).map (· + 1)

theorem strpbrkInner_code_eq {st : St} (h : AllRd st) (dest len ps : Nat) :
    exec (strpbrkInner dest len ps) st = .ok (pbrkInnerF st.data (st.data dest) ps len, st) := by
  induction len generalizing ps with
  | zero =>
    unfold strpbrkInner
    simp only [exec_bind, exec_load_all h, pbrkInnerF]
    by_cases h0 : st.data ps = 0
    · simp [h0]
    · simp only [h0, if_false, exec_bind, exec_load_all h]
      by_cases he : st.data dest = st.data ps <;> simp [he]
  | succ n ih =>
    unfold strpbrkInner
    simp only [exec_bind, exec_load_all h, pbrkInnerF]
    by_cases h0 : st.data ps = 0
    · simp [h0]
    · simp only [h0, if_false, exec_bind, exec_load_all h]
      by_cases he : st.data dest = st.data ps
      · simp [he]
      · simp only [he, if_false]; exact ih _

theorem strpbrkOuter_code_eq {st : St} (h : AllRd st) (src slen dmax dest : Nat) :
    exec (strpbrkOuter src slen dmax dest) st =
      .ok ((match pbrkOuterF st.data src slen dest dmax with
            | some i => (EOK, dest + i) | none => (ESNOTFND, 0)), st) := by
  induction dmax generalizing dest with
  | zero =>
    unfold strpbrkOuter
    simp only [exec_bind, exec_load_all h, pbrkOuterF]
    split <;> simp
  | succ n ih =>
    unfold strpbrkOuter
    simp only [exec_bind, exec_load_all h, pbrkOuterF]
    by_cases h0 : st.data dest = 0
    · simp [h0]
    · simp only [h0, if_false, exec_bind, strpbrkInner_code_eq h]
      cases hi : pbrkInnerF st.data (st.data dest) src slen with
      | none =>
        simp only []
        rw [ih]
        cases pbrkOuterF st.data src slen (dest+1) n <;> simp <;> omega
      | some b => cases b <;> simp

/-! ## facts about `findSub` used by `strstr_s`'s `slen > dmax` path -/

theorem subAt_self (f : Nat → Nat) (d : Nat → Nat) (p m : Nat) : subAt f d p p m = true := by
  induction m generalizing p with
  | zero => rfl
  | succ m ih => simp [subAt, ih]

/-- a haystack shorter than the needle (of non-zero cells) contains no occurrence -/
theorem findSub_short_haystack (d : Nat → Nat) (q m p n : Nat)
    (hq : ∀ j, j < m → d (q+j) ≠ 0) (hl : scanLen d p n < m) :
    findSub id d q m p n = none := by
  induction n generalizing p with
  | zero => rfl
  | succ n ih =>
    simp only [findSub]
    have hno : ¬ (m ≤ n+1 ∧ subAt id d p q m = true) := by
      rintro ⟨hm, hs⟩
      have hlt : scanLen d p (n+1) < n+1 := by omega
      have hz := scanLen_zero d p (n+1) hlt
      have := (subAt_iff id d p q m).1 hs (scanLen d p (n+1)) hl
      simp only [id] at this
      exact hq _ hl (by rw [← this]; exact hz)
    simp only [hno, if_false]
    by_cases h0 : d p = 0
    · simp [h0]
    · simp only [h0, if_false]
      rw [scanLen_succ_of_ne _ _ _ h0] at hl
      rw [ih (p+1) (by omega)]; rfl

/-! ## `strispassword_s` -/

/-- the punctuation ranges the password scan accepts -/
def isSpecialC (c : Nat) : Bool :=
  (33 ≤ c && c ≤ 47) || (58 ≤ c && c ≤ 64) || (91 ≤ c && c ≤ 94) || (95 ≤ c && c ≤ 96) || (123 ≤ c && c ≤ 126)

/-- a character the password scan accepts at all -/
def isPwC (c : Nat) : Bool := isDigitC c || isLowerC c || isUpperC c || isSpecialC c

/-- `pwFinal` on the five counters -/
def pwFinal' (all lower upper numbers specials : Nat) : Bool :=
  all < SAFE_STR_PASSWORD_MAX_LENGTH && numbers ≥ SAFE_STR_MIN_NUMBERS &&
  lower ≥ SAFE_STR_MIN_LOWERCASE && upper ≥ SAFE_STR_MIN_UPPERCASE &&
  specials ≥ SAFE_STR_MIN_SPECIALS

theorem pwFinal_eq (n : PwCnt) : pwFinal n = pwFinal' n.all n.lower n.upper n.numbers n.specials := rfl

theorem pwLoop_eq {st : St} (h : AllRd st) (dmax dest : Nat) (n : PwCnt)
    (hz : scanLen st.data dest dmax < dmax) :
    exec (pwLoop dmax dest n) st =
      .ok (allCells isPwC st.data dest (scanLen st.data dest dmax) &&
           pwFinal' (n.all + scanLen st.data dest dmax)
             (n.lower + countCells isLowerC st.data dest (scanLen st.data dest dmax))
             (n.upper + countCells isUpperC st.data dest (scanLen st.data dest dmax))
             (n.numbers + countCells isDigitC st.data dest (scanLen st.data dest dmax))
             (n.specials + countCells isSpecialC st.data dest (scanLen st.data dest dmax)), st) := by
  induction dmax generalizing dest n with
  | zero => omega
  | succ m ih =>
    simp only [pwLoop, exec_bind, exec_load_all h]
    by_cases h0 : st.data dest = 0
    · simp [h0, scanLen, allCells, countCells, pwFinal_eq]
    · simp only [h0, if_false]
      rw [scanLen_succ_of_ne _ _ _ h0] at hz ⊢
      have hz' : scanLen st.data (dest+1) m < m := by omega
      generalize hc : st.data dest = c at *
      by_cases hdig : isDigitC c = true
      · have o : isLowerC c = false ∧ isUpperC c = false ∧ isSpecialC c = false := by
          simp only [isDigitC, isLowerC, isUpperC, isSpecialC, Bool.and_eq_true, Bool.or_eq_false_iff,
            Bool.and_eq_false_iff, decide_eq_true_eq, decide_eq_false_iff_not] at hdig ⊢
          omega
        simp only [hdig, if_true]
        rw [ih _ _ hz']
        simp only [allCells, countCells, hc, isPwC, hdig, o.1, o.2.1, o.2.2, Bool.true_or, Bool.true_and,
          if_true, Bool.false_eq_true, if_false, Nat.zero_add]
        simp only [Nat.add_assoc, Nat.add_comm 1]
      · simp only [hdig, Bool.false_eq_true, if_false]
        have hdig' : isDigitC c = false := by simpa using hdig
        by_cases hlow : isLowerC c = true
        · have o : isUpperC c = false ∧ isSpecialC c = false := by
            simp only [isLowerC, isUpperC, isSpecialC, Bool.and_eq_true, Bool.or_eq_false_iff,
              Bool.and_eq_false_iff, decide_eq_true_eq, decide_eq_false_iff_not] at hlow ⊢
            omega
          simp only [hlow, if_true]
          rw [ih _ _ hz']
          simp only [allCells, countCells, hc, isPwC, hdig', hlow, o.1, o.2, Bool.true_or, Bool.or_true,
            Bool.false_or, Bool.true_and, if_true, Bool.false_eq_true, if_false, Nat.zero_add]
          simp only [Nat.add_assoc, Nat.add_comm 1]
        · simp only [hlow, Bool.false_eq_true, if_false]
          have hlow' : isLowerC c = false := by simpa using hlow
          by_cases hup : isUpperC c = true
          · have o : isSpecialC c = false := by
              simp only [isUpperC, isSpecialC, Bool.and_eq_true, Bool.or_eq_false_iff,
                Bool.and_eq_false_iff, decide_eq_true_eq, decide_eq_false_iff_not] at hup ⊢
              omega
            simp only [hup, if_true]
            rw [ih _ _ hz']
            simp only [allCells, countCells, hc, isPwC, hdig', hlow', hup, o, Bool.true_or, Bool.or_true,
              Bool.false_or, Bool.true_and, if_true, Bool.false_eq_true, if_false, Nat.zero_add]
            simp only [Nat.add_assoc, Nat.add_comm 1]
          · simp only [hup, Bool.false_eq_true, if_false]
            have hup' : isUpperC c = false := by simpa using hup
            by_cases hsp : isSpecialC c = true
            · have hsp2 := hsp
              unfold isSpecialC at hsp2
              simp only [hsp2, if_true]
              rw [ih _ _ hz']
              simp only [allCells, countCells, hc, isPwC, hdig', hlow', hup', hsp, Bool.true_or, Bool.or_true,
                Bool.false_or, Bool.true_and, if_true, Bool.false_eq_true, if_false, Nat.zero_add]
              simp only [Nat.add_assoc, Nat.add_comm 1]
            · have hsp' : isSpecialC c = false := by simpa using hsp
              have hsp2 := hsp'
              unfold isSpecialC at hsp2
              simp [hsp2, allCells, hc, isPwC, hdig', hlow', hup', hsp']

end SafeC

import SafeC.Proofs.PrintfDirective
/-!
# C11: parser equivalence + composition — the engine's main loop = `Spec.go` (one `emitAll` of the whole text)
-/
namespace SafeC.Printf
open SafeC.Printf.Spec

/-- every conversion specification `Spec.go` meets in the format satisfies `DirOK` (same recursion as `Spec.go`) -/
def fmtOK : Nat → Str → List Arg → Bool
  | 0, _, _ => true
  | _ + 1, [], _ => true
  | k + 1, c :: r, args =>
    if c ≠ '%' then fmtOK k r args
    else match r with
      | '%' :: r' => fmtOK k r' args
      | _ =>
        match parseDir r args with
        | some (d, r', args') =>
          decide (DirOK d) && (match render d args' with | some (_, args'') => fmtOK k r' args'' | none => true)
        | none => true

theorem directive_pct (fx : Fixes) (sk : Sink) (m : Nat) (r : Str) (args : List Arg) (s : St) :
    directive fx sk m ('%' :: r) args s = (emitAll sk m ['%'] s).map (fun s' => (r, args, s')) := by
  unfold directive
  simp (config := {decide := true}) [parseFlags, parseWidth, parsePrec, parseLength, bind, Except.bind, out_eq_emitAll]
  cases emitAll sk m ['%'] s <;> rfl

theorem emitAll_buffer_idx_le (m : Nat) (cs : Str) (s s' : St) (hs : s.idx ≤ m) (h : emitAll .buffer m cs s = .ok s') : s'.idx ≤ m := by
  have hi := emitAll_idx .buffer m cs s s' h
  by_cases hfit : s.idx + cs.length ≤ m
  · omega
  · rw [emitAll_buffer_overflow m cs s hs (by omega)] at h; cases h

theorem room_step (sk : Sink) (m : Nat) (t rest : Str) (s s' : St)
    (hroom : (sk = .buffer ∧ s.idx ≤ m) ∨ s.idx + (t ++ rest).length ≤ m) (h : emitAll sk m t s = .ok s') :
    (sk = .buffer ∧ s'.idx ≤ m) ∨ s'.idx + rest.length ≤ m := by
  have hi := emitAll_idx sk m t s s' h
  rcases hroom with ⟨rfl, hs⟩ | hr
  · left; exact ⟨rfl, emitAll_buffer_idx_le m t s s' hs h⟩
  · right; simp only [List.length_append] at hr; omega

/-- **parser equivalence + composition.**  For every format `Spec.go` defines (literal text, `%%`, and conversion
    specifications `d i u o x X c s` whose arguments match) and whose specifications satisfy `DirOK`, the repaired
    engine's main loop hands the sink exactly the characters of `Spec.printf`, in order — as one `emitAll`, so it stops with
    `-ESNOSPC` at the first character that does not fit.  Induction over the loop; the invariant is the statement itself
    for the remaining format from the current state. -/
theorem engLoop_eq (fx : Fixes) (hfx : Repaired fx) (sk : Sink) (m : Nat) :
    ∀ (k : Nat) (fmt : Str) (args : List Arg) (s : St) (T : Str), go k fmt args = some T → fmtOK k fmt args = true →
      ((sk = .buffer ∧ s.idx ≤ m) ∨ s.idx + T.length ≤ m) → engLoop fx sk m k fmt args s = emitAll sk m T s := by
  intro k
  induction k with
  | zero => intro fmt args s T hg _ _; simp only [go, Option.some.injEq] at hg; subst hg; rfl
  | succ k ih =>
    intro fmt args s T hg hok hroom
    cases fmt with
    | nil => simp only [go, Option.some.injEq] at hg; subst hg; rfl
    | cons c r =>
      by_cases hc : c ≠ '%'
      · simp only [go, hc, if_true, ne_eq, not_false_eq_true] at hg
        simp only [fmtOK, hc, if_true, ne_eq, not_false_eq_true] at hok
        cases hgo : go k r args with
        | none => simp [hgo] at hg
        | some T' =>
          simp only [hgo, Option.map_some, Option.some.injEq] at hg
          subst hg
          simp only [engLoop, hc, if_true, ne_eq, not_false_eq_true, emitAll, bind, Except.bind]
          cases ho : out sk m c s with
          | error e => rfl
          | ok s1 =>
            simp only
            have ho' : emitAll sk m [c] s = .ok s1 := by rw [← out_eq_emitAll]; exact ho
            exact ih r args s1 T' hgo hok (room_step sk m [c] T' s s1 hroom ho')
      · have hc' : c = '%' := by simpa using hc
        subst hc'
        simp only [go, ne_eq, not_true_eq_false, if_false] at hg
        simp only [fmtOK, ne_eq, not_true_eq_false, if_false] at hok
        simp only [engLoop, ne_eq, not_true_eq_false, if_false]
        split at hg
        · -- "%%"
          rename_i r'
          simp only at hok
          cases hgo : go k r' args with
          | none => simp [hgo] at hg
          | some T' =>
            simp only [hgo, Option.map_some, Option.some.injEq] at hg
            subst hg
            rw [directive_pct]
            simp only [emitAll, bind, Except.bind]
            rw [out_eq_emitAll]
            cases ho : emitAll sk m ['%'] s with
            | error e => rfl
            | ok s1 =>
              simp only [Except.map]
              exact ih r' args s1 T' hgo hok (room_step sk m ['%'] T' s s1 hroom ho)
        · rename_i hnp
          cases hpd : parseDir r args with
          | none => simp [hpd] at hg
          | some x =>
            obtain ⟨d, r', a0⟩ := x
            simp only [hpd, Option.bind_eq_bind, Option.bind_some] at hg
            cases hrd : render d a0 with
            | none => simp [hrd] at hg
            | some y =>
              obtain ⟨text, a''⟩ := y
              simp only [hrd, Option.bind_some] at hg
              cases hgo : go k r' a'' with
              | none => simp [hgo] at hg
              | some rest =>
                simp only [hgo, Option.bind_some, Option.pure_def, Option.some.injEq] at hg
                subst hg
                have hok' : DirOK d ∧ fmtOK k r' a'' = true := by
                  split at hok
                  · rename_i r'' ; exact absurd rfl (hnp r'')
                  · simp only [hpd, hrd, Bool.and_eq_true, decide_eq_true_eq] at hok; exact hok
                have hroom1 : (sk = .buffer ∧ s.idx ≤ m) ∨ s.idx + text.length ≤ m := by
                  rcases hroom with h | h
                  · exact Or.inl h
                  · right; simp only [List.length_append] at h; omega
                rw [directive_eq fx hfx sk m r args s d r' a0 text a'' hpd hrd hok'.1 hroom1, emitAll_append]
                simp only [bind, Except.bind]
                cases ho : emitAll sk m text s with
                | error e => rfl
                | ok s1 =>
                  simp only [Except.map]
                  exact ih r' a'' s1 rest hgo hok'.2 (room_step sk m text rest s s1 hroom ho)

open SafeC.Gen in
/-- the engine on a buffer of `dmax` cells when the text fits in `dmax` cells: index, stored text, terminator position -/
theorem engine_buffer_fits (fx : Fixes) (hfx : Repaired fx) (dmax : Nat) (init : List Char) (fmt : Str) (args : List Arg) (T : Str)
    (hT : Spec.printf fmt args = some T) (hok : fmtOK fmt.length fmt args = true) (hinit : init.length = dmax) (hfit : T.length ≤ dmax) :
    ∃ s', engine fx .buffer dmax fmt args ⟨0, init, []⟩ = .ok s' ∧ s'.idx = T.length ∧ s'.cells.length = dmax ∧
      (T.length < dmax → s'.cells.take T.length = T ∧ s'.cells[T.length]? = some '\x00') ∧
      (T.length = dmax → s'.cells.take (dmax - 1) = T.take (dmax - 1) ∧ (0 < dmax → s'.cells[dmax - 1]? = some '\x00')) := by
  unfold engine
  rw [engLoop_eq fx hfx .buffer dmax fmt.length fmt args ⟨0, init, []⟩ T hT hok (Or.inl ⟨rfl, Nat.zero_le _⟩)]
  obtain ⟨s1, h1, h2, _, h4, h5, _⟩ := emitAll_buffer_fits dmax T ⟨0, init, []⟩ (by simpa using hfit) hinit
  simp only [Nat.zero_add, List.take_zero, List.nil_append] at h2 h5
  rw [h1]
  simp only [bind, Except.bind, pure, Except.pure]
  refine ⟨_, rfl, h2, by simp [h4], ?_, ?_⟩
  · intro hlt
    simp only [h2, hlt, if_true]
    rw [h2] at h5
    refine ⟨?_, ?_⟩
    · rw [List.take_set_of_le (Nat.le_refl _)]; exact h5
    · rw [List.getElem?_set_self (by omega)]
  · intro heq
    have hnlt : ¬ s1.idx < dmax := by omega
    simp only [hnlt, if_false]
    rw [h2] at h5
    refine ⟨?_, ?_⟩
    · rw [List.take_set_of_le (Nat.le_refl _)]
      have : s1.cells.take (dmax - 1) = (s1.cells.take T.length).take (dmax - 1) := by
        rw [List.take_take]; congr 1; omega
      rw [this, h5]
    · intro hpos; rw [List.getElem?_set_self (by omega)]

open SafeC.Gen in
/-- … and when it does not: `-ESNOSPC` from the sink at the first character beyond `dmax` -/
theorem engine_buffer_overflow (fx : Fixes) (hfx : Repaired fx) (dmax : Nat) (init : List Char) (fmt : Str) (args : List Arg) (T : Str)
    (hT : Spec.printf fmt args = some T) (hok : fmtOK fmt.length fmt args = true) (hover : dmax < T.length) :
    engine fx .buffer dmax fmt args ⟨0, init, []⟩ = .error (.ret ESNOSPCi) := by
  unfold engine
  rw [engLoop_eq fx hfx .buffer dmax fmt.length fmt args ⟨0, init, []⟩ T hT hok (Or.inl ⟨rfl, Nat.zero_le _⟩)]
  rw [emitAll_buffer_overflow dmax T ⟨0, init, []⟩ (Nat.zero_le _) (by simpa using hover)]
  rfl

end SafeC.Printf

import SafeC.Proofs.SortShape
import SafeC.Proofs.SortCycle
/-!
# qsort_s model: heap order of the Leonardo trees (definitions and frame lemmas for `qsort_sorted`)

On top of the forest shape (`Forest`/`Shape`, Proofs/SortShape.lean): `Heap` = one Leonardo tree is heap-ordered, `Heaps` = every
tree of the forest is, `Roots` = the roots ascend from left to right (the "trinkle" invariant).  The array is viewed as a total
function `St.g`; `rot` is what `cycle` does to that function.
-/
namespace SafeC.Sort
variable {α : Type}

/-- the comparator is a total preorder `le`, whatever the call number and the positions of its arguments -/
structure Consistent (cmp : Nat → Nat → Nat → α → α → Int) (le : α → α → Prop) : Prop where
  total : ∀ x y, le x y ∨ le y x
  trans : ∀ {x y z}, le x y → le y z → le x z
  nonneg : ∀ k i j x y, 0 ≤ cmp k i j x y ↔ le y x
  nonpos : ∀ k i j x y, cmp k i j x y ≤ 0 ↔ le x y

theorem Consistent.refl {cmp : Nat → Nat → Nat → α → α → Int} {le : α → α → Prop} (h : Consistent cmp le) (x : α) : le x x := by
  rcases h.total x x with h' | h' <;> exact h'

/-- position `j` belongs to the tree of order `k` rooted at `r` (which occupies `(r - leo k, r]`) -/
def InTree (k r j : Nat) : Prop := r < j + leo k ∧ j ≤ r

/-- the tree of order `k` rooted at `r` is heap-ordered: right child (order `k-2`) at `r-1`, left child (order `k-1`) at
    `r-1-leo (k-2)` -/
def Heap (le : α → α → Prop) (g : Nat → α) : Nat → Nat → Prop
  | 0, _ => True
  | 1, _ => True
  | k + 2, r => le (g (r - 1)) (g r) ∧ le (g (r - 1 - leo k)) (g r) ∧ Heap le g k (r - 1) ∧ Heap le g (k + 1) (r - 1 - leo k)

/-- both subtrees are heap-ordered (nothing is said about the root) -/
def SubHeaps (le : α → α → Prop) (g : Nat → α) : Nat → Nat → Prop
  | k + 2, r => Heap le g k (r - 1) ∧ Heap le g (k + 1) (r - 1 - leo k)
  | _, _ => True

/-- every tree of the forest `os` (smallest first, rooted at `r`, the next at `r - leo o`, …) is heap-ordered -/
def Heaps (le : α → α → Prop) (g : Nat → α) : List Nat → Nat → Prop
  | [], _ => True
  | o :: os, r => Heap le g o r ∧ Heaps le g os (r - leo o)

/-- the roots ascend: every root is at least the root of the next tree to its left -/
def Roots (le : α → α → Prop) (g : Nat → α) : List Nat → Nat → Prop
  | o :: o' :: os, r => le (g (r - leo o)) (g r) ∧ Roots le g (o' :: os) (r - leo o)
  | _, _ => True

/-- the array as a total function -/
def St.g [Inhabited α] (s : St α) : Nat → α := fun i => s.a[i]!

/-- what `cycle` does to the array seen as a function (sequential moves, as in the C) -/
def rot (f : Nat → α) : List Nat → Nat → α
  | [] => f
  | [_] => f
  | x :: y :: rest => Cyc.rotF f (f x) (x :: y :: rest)

theorem Heap.of_sub {le : α → α → Prop} {g : Nat → α} {k r : Nat} (h : Heap le g k r) : SubHeaps le g k r := by
  match k with
  | 0 => trivial
  | 1 => trivial
  | k + 2 => exact ⟨h.2.2.1, h.2.2.2⟩

/-- `Heap` looks only at positions `≤ r` -/
theorem Heap.congr_le {le : α → α → Prop} {g g' : Nat → α} : ∀ {k r : Nat}, (∀ j, j ≤ r → g' j = g j) → Heap le g k r → Heap le g' k r
  | 0, _, _, _ => trivial
  | 1, _, _, _ => trivial
  | k + 2, r, hg, h => by
    obtain ⟨h1, h2, h3, h4⟩ := h
    refine ⟨?_, ?_, Heap.congr_le (fun j hj => hg j (by omega)) h3, Heap.congr_le (fun j hj => hg j (by omega)) h4⟩
    · rw [hg _ (by omega), hg _ (Nat.le_refl _)]; exact h1
    · rw [hg _ (by omega), hg _ (Nat.le_refl _)]; exact h2

theorem SubHeaps.congr_lt {le : α → α → Prop} {g g' : Nat → α} {k r : Nat} (hfit : leo k ≤ r + 1) (hg : ∀ j, j < r → g' j = g j)
    (h : SubHeaps le g k r) : SubHeaps le g' k r := by
  match k with
  | 0 => trivial
  | 1 => trivial
  | k + 2 =>
    have := leo_succ_succ k
    have := leo_pos k
    have := leo_pos (k + 1)
    obtain ⟨h3, h4⟩ := h
    exact ⟨Heap.congr_le (fun j hj => hg j (by omega)) h3, Heap.congr_le (fun j hj => hg j (by omega)) h4⟩

/-- `Heap` looks only at the positions of the tree -/
theorem Heap.congr_tree {le : α → α → Prop} {g g' : Nat → α} : ∀ {k r : Nat}, leo k ≤ r + 1 →
    (∀ j, InTree k r j → g' j = g j) → Heap le g k r → Heap le g' k r
  | 0, _, _, _, _ => trivial
  | 1, _, _, _, _ => trivial
  | k + 2, r, hfit, hg, h => by
    have := leo_succ_succ k
    have := leo_pos k
    have := leo_pos (k + 1)
    obtain ⟨h1, h2, h3, h4⟩ := h
    refine ⟨?_, ?_, Heap.congr_tree (by omega) (fun j hj => hg j ?_) h3, Heap.congr_tree (by omega) (fun j hj => hg j ?_) h4⟩
    · rw [hg _ (by unfold InTree; omega), hg _ (by unfold InTree; omega)]; exact h1
    · rw [hg _ (by unfold InTree; omega), hg _ (by unfold InTree; omega)]; exact h2
    · unfold InTree at hj ⊢; omega
    · unfold InTree at hj ⊢; omega

/-- the root of a heap-ordered tree dominates the whole tree -/
theorem Heap.root_max {le : α → α → Prop} {g : Nat → α} (hrefl : ∀ x, le x x) (htrans : ∀ {x y z}, le x y → le y z → le x z) :
    ∀ {k r j : Nat}, leo k ≤ r + 1 → Heap le g k r → InTree k r j → le (g j) (g r)
  | 0, r, j, _, _, hj => by
    have : j = r := by unfold InTree at hj; simp [leo] at hj; omega
    subst this; exact hrefl _
  | 1, r, j, _, _, hj => by
    have : j = r := by unfold InTree at hj; simp [leo] at hj; omega
    subst this; exact hrefl _
  | k + 2, r, j, hfit, h, hj => by
    have := leo_succ_succ k
    have := leo_pos k
    have := leo_pos (k + 1)
    obtain ⟨h1, h2, h3, h4⟩ := h
    unfold InTree at hj
    by_cases hjr : j = r
    · subst hjr; exact hrefl _
    · by_cases hjR : r - 1 - leo k < j
      · exact htrans (Heap.root_max hrefl htrans (by omega) h3 (by unfold InTree; omega)) h1
      · exact htrans (Heap.root_max hrefl htrans (by omega) h4 (by unfold InTree; omega)) h2

theorem Heaps.congr_le {le : α → α → Prop} {g g' : Nat → α} : ∀ {os : List Nat} {r : Nat}, (∀ j, j ≤ r → g' j = g j) →
    Heaps le g os r → Heaps le g' os r
  | [], _, _, _ => trivial
  | _ :: _, _, hg, h => ⟨Heap.congr_le hg h.1, Heaps.congr_le (fun j hj => hg j (by omega)) h.2⟩

theorem Roots.congr_le {le : α → α → Prop} {g g' : Nat → α} : ∀ {os : List Nat} {r : Nat}, (∀ j, j ≤ r → g' j = g j) →
    Roots le g os r → Roots le g' os r
  | [], _, _, _ => trivial
  | [_], _, _, _ => trivial
  | _ :: _ :: _, _, hg, h => by
    refine ⟨?_, Roots.congr_le (fun j hj => hg j (by omega)) h.2⟩
    rw [hg _ (by omega), hg _ (Nat.le_refl _)]; exact h.1

/-- in a forest that tiles `[0, r]`, heap-ordered with ascending roots, the last root is a maximum of the prefix -/
theorem forest_max {le : α → α → Prop} {g : Nat → α} (hrefl : ∀ x, le x x) (htrans : ∀ {x y z}, le x y → le y z → le x z) :
    ∀ (os : List Nat) (r : Nat), (os.map leo).sum = r + 1 → Heaps le g os r → Roots le g os r → ∀ j, j ≤ r → le (g j) (g r)
  | [], _, hs, _, _, _, _ => by simp at hs
  | [o], r, hs, hh, _, j, hj => by
    simp at hs
    exact Heap.root_max hrefl htrans (by omega) hh.1 (by unfold InTree; omega)
  | o :: o' :: os, r, hs, hh, hr, j, hj => by
    simp only [List.map_cons, List.sum_cons] at hs
    have := leo_pos o
    have := leo_pos o'
    by_cases hjt : r < j + leo o
    · exact Heap.root_max hrefl htrans (by omega) hh.1 ⟨hjt, hj⟩
    · have := forest_max hrefl htrans (o' :: os) (r - leo o) (by simp only [List.map_cons, List.sum_cons]; omega) hh.2 hr.2 j (by omega)
      exact htrans this hr.1

end SafeC.Sort

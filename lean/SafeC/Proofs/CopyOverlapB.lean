import SafeC.Proofs.CopyOverlap
import SafeC.Proofs.CopyDisjoint
/-!
# The overlap bumper in the BOUNDED copy loops (`strncpy_s`, `wcsncpy_s`, `strncat_s`, `wcsncat_s`)

`copyLoop_overlap_gen`: the generalisation of `copyLoop_overlap` to both loop flavours.  In the bounded loop the bumper
test precedes the `slen == 0` test, so the bumper fires after `g` iterations as soon as `g ≤ slen` — also when
`g = slen`, i.e. when the `slen` source characters END exactly at the bumper (`bounded-copy-src-ends-at-dest`).
-/
namespace SafeC
open Gen

theorem copyLoop_overlap_gen (cfg : Cfg) (onDest bounded : Bool) (B oD oM : Nat) (hoM : 0 < oM)
    (k d s g slen : Nat) (st : St)
    (hall : ∀ a, st.mapped a = true ∧ st.rd a = true)
    (hrw : RW st oD oM) (hinv : oD ≤ d ∧ d + k = oD + oM)
    (hgap : (if onDest then d else s) + g = B)
    (hsep : if onDest then B ≤ s else B ≤ d)
    (hgk : g < k) (hsl : bounded = true → g ≤ slen)
    (hnz : ∀ j, j < g → st.data (s+j) ≠ 0) :
    ∃ st', exec (copyLoop cfg onDest bounded B oD oM k d s slen) st = .ok (ESOVRLP, st') ∧
      CopyPost cfg oD oM st st' ESOVRLP := by
  induction g generalizing k d s slen st with
  | zero =>
    obtain ⟨k, rfl⟩ : ∃ k', k = k' + 1 := ⟨k - 1, by omega⟩
    unfold copyLoop
    have hb : (if onDest then d else s) = B := by simpa using hgap
    simp only [hb, if_true]
    exact copy_fail_post cfg oD oM ESOVRLP st hrw hoM (Or.inl rfl)
  | succ g ih =>
    obtain ⟨k, rfl⟩ : ∃ k', k = k' + 1 := ⟨k - 1, by omega⟩
    unfold copyLoop
    have hb : (if onDest then d else s) ≠ B := by
      cases onDest <;> simp at hgap ⊢ <;> omega
    simp only [hb, if_false]
    have hsub : RW st d (k+1) := by
      intro i hi
      have := hrw (d - oD + i) (by omega)
      have e : oD + (d - oD + i) = d + i := by omega
      rwa [e] at this
    have hdm : st.mapped d = true ∧ st.wr d = true ∧ st.rd d = true := hsub.head
    have hsl0 : ¬ (bounded = true ∧ slen = 0) := by
      intro ⟨h1, h2⟩; have := hsl h1; omega
    simp only [hsl0, if_false]
    have hs_m := hall s
    simp only [exec_bind, exec_load_ok _ _ hs_m.1 hs_m.2, exec_store_ok _ _ _ hdm.1 hdm.2.1]
    have hc : st.data s ≠ 0 := by simpa using hnz 0 (by omega)
    simp only [hc, if_false]
    obtain ⟨st', he, hp⟩ := ih k (d+1) (s+1) (slen-1) (st.upd d (st.data s))
      (by intro a; exact hall a) (RW.of_sameMeta (SameMeta.upd _ _ _) hrw) (by omega)
      (by cases onDest <;> simp at hgap ⊢ <;> omega)
      (by cases onDest <;> simp at hsep hgap ⊢ <;> omega)
      (by omega)
      (by intro h; have := hsl h; omega)
      (by
        intro j hj
        have hne : s + 1 + j ≠ d := by
          cases onDest <;> simp at hsep hgap <;> omega
        rw [St.upd_data_ne _ _ _ _ hne]
        have e : s + 1 + j = s + (j + 1) := by omega
        rw [e]; exact hnz (j+1) (by omega))
    refine ⟨st', he, ?_⟩
    refine ⟨hp.mapped, hp.rd, hp.wr, hp.strays, ?_, hp.code_cases, hp.ok_events, hp.ok_term,
      hp.fail_events, hp.fail_first, hp.fail_clear⟩
    intro a ha
    rw [hp.frame a ha]
    exact St.upd_data_ne _ _ _ _ (by omega)

/-- what an overlap rejection looks like from outside -/
def OvrlpPost (cfg : Cfg) (dest dmax : Nat) (st st' : St) : Prop :=
  st'.strays = st.strays ∧
  st'.events = st.events ++ [.handler .str ESOVRLP] ∧
  st'.data dest = 0 ∧
  (cfg.slack = true → ∀ i, i < dmax → st'.data (dest + i) = 0) ∧
  (∀ a, ¬ (dest ≤ a ∧ a < dest + dmax) → st'.data a = st.data a)

theorem OvrlpPost.of_copyPost {cfg : Cfg} {dest dmax : Nat} {st st' : St} (hp : CopyPost cfg dest dmax st st' ESOVRLP) :
    OvrlpPost cfg dest dmax st st' :=
  ⟨hp.strays, hp.fail_events ESOVRLP_ne_EOK, hp.fail_first ESOVRLP_ne_EOK, hp.fail_clear ESOVRLP_ne_EOK, hp.frame⟩

/-- **strncpy_s / (via `max`) the shape of wcsncpy_s detect every overlap**: `g` = distance between the pointers; the
first `g` source characters are non-NUL, `g ≤ slen` and the meeting point lies inside dest (`g < dmax`) -/
theorem strncpyG_overlap (max : Nat) (cfg : Cfg) (dest dmax src slen : Nat) (st : St)
    (hall : ∀ a, st.mapped a = true ∧ st.rd a = true)
    (hd : dest ≠ 0) (hs : src ≠ 0) (hpos : 0 < dmax) (hle : dmax ≤ max) (hslen : 0 < slen) (hslenle : slen ≤ max)
    (hrw : RW st dest dmax)
    (hnz : ∀ j, j < (if dest < src then src - dest else dest - src) → st.data (src+j) ≠ 0)
    (hg : (if dest < src then src - dest else dest - src) ≤ slen)
    (hgd : (if dest < src then src - dest else dest - src) < dmax) :
    ∃ st', exec (strncpyG max cfg dest dmax src slen none none) st = .ok (ESOVRLP, st') ∧
      OvrlpPost cfg dest dmax st st' := by
  unfold strncpyG
  have h0 : ¬ (slen = 0 ∧ dest ≠ 0 ∧ dmax ≠ 0) := by omega
  have hz : dmax ≠ 0 := by omega
  have hmx : ¬ dmax > max := by omega
  have hsx : ¬ slen > max := by omega
  rw [if_neg h0, if_neg hd, if_neg hz]
  simp only [chkDmaxClear, chkDmaxClearG, chkSlenMaxClear]
  rw [if_neg hmx, if_neg hs, if_neg hsx]
  by_cases hlt : dest < src
  · simp only [hlt, if_true] at hg hgd hnz ⊢
    obtain ⟨st', he, hp⟩ := copyLoop_overlap_gen cfg true true src dest dmax hpos dmax dest src (src - dest) slen st
      hall hrw ⟨Nat.le_refl _, rfl⟩ (by simp; omega) (by simp) hgd (fun _ => hg) hnz
    exact ⟨st', he, OvrlpPost.of_copyPost hp⟩
  · simp only [hlt, if_false] at hg hgd hnz ⊢
    obtain ⟨st', he, hp⟩ := copyLoop_overlap_gen cfg false true dest dest dmax hpos dmax dest src (dest - src) slen st
      hall hrw ⟨Nat.le_refl _, rfl⟩ (by simp; omega) (by simp) hgd (fun _ => hg) hnz
    exact ⟨st', he, OvrlpPost.of_copyPost hp⟩

/-- on valid sizes `wcsncpy_s` is the generic bounded copy with the wide limit -/
theorem wcsncpy_s_eq (cfg : Cfg) (dest dmax src slen : Nat) (hle : dmax ≤ RSIZE_MAX_WSTR) (hsl : slen ≤ RSIZE_MAX_WSTR) :
    wcsncpy_s cfg dest dmax src slen none none = strncpyG RSIZE_MAX_WSTR cfg dest dmax src slen none none := by
  have hmx : ¬ dmax > RSIZE_MAX_WSTR := by omega
  have hsx : ¬ slen > RSIZE_MAX_WSTR := by omega
  unfold wcsncpy_s strncpyG chkDmaxClearW chkDmaxClear chkDmaxClearG chkSlenMaxClear
  simp only [hmx, hsx, if_false]

end SafeC

import SafeC.Proofs.NormPairMap
import SafeC.Proofs.NormComposeSpec
/-! C17 — `pcOf allFixed` = `UCD.primaryComposite` on code points -/
namespace SafeC.Norm
open SafeC.Gen

attribute [local irreducible] cell UniCanon.main UniCanon.planes UniCanon.rows UniCombin.main UniCombin.planes UniCombin.rows
  UniCompos.main UniCompos.planes UniCompos.rows UniCompos.pairs UniCompos.listOff UniCompos.listLen UniCompos.listCp
  UCD14.compP UCD14.cccIdx UCD14.cccPages UCD14.asgIdx UCD14.asgPages

theorem tableCompose_sound (a b : Nat) : ∀ (fuel lo hi c : Nat), UCD.tableCompose a b fuel lo hi = some c →
    ∃ m, m < hi ∧ (UCD.compEntry m).1 = a ∧ (UCD.compEntry m).2.1 = b ∧ (UCD.compEntry m).2.2 = c := by
  intro fuel
  induction fuel with
  | zero => intro lo hi c h; cases h
  | succ f ih =>
    intro lo hi c h
    unfold UCD.tableCompose at h
    split at h
    · cases h
    · rename_i hlo
      dsimp only at h
      split at h
      · rename_i hm
        refine ⟨(lo + hi) / 2, by omega, hm.1, hm.2, ?_⟩
        injection h
      · split at h
        · exact ih _ _ _ h
        · obtain ⟨m, hm, r⟩ := ih _ _ _ h
          exact ⟨m, by omega, r⟩

theorem searchList_found (key : Nat) : ∀ (n off : Nat), searchList key off n ≠ 0 →
    ∃ j, j < n ∧ cell 32 UniCompos.pairs (2 * (off + j)) = key ∧ cell 32 UniCompos.pairs (2 * (off + j) + 1) = searchList key off n := by
  intro n
  induction n with
  | zero => intro off h; exact absurd rfl h
  | succ n ih =>
    intro off h
    unfold searchList at h ⊢
    dsimp only at h ⊢
    by_cases h1 : key = cell 32 UniCompos.pairs (2 * off)
    · rw [if_pos h1] at h ⊢
      exact ⟨0, by omega, h1.symm, rfl⟩
    · rw [if_neg h1] at h ⊢
      by_cases h2 : key < cell 32 UniCompos.pairs (2 * off)
      · rw [if_pos h2] at h; exact absurd rfl h
      · rw [if_neg h2] at h ⊢
        obtain ⟨j, hj, e1, e2⟩ := ih (off + 1) h
        have e : off + 1 + j = off + (j + 1) := by omega
        rw [e] at e1 e2
        exact ⟨j + 1, by omega, e1, e2⟩

theorem isExcl_hangul {c : Nat} (h : 0xAC00 ≤ c ∧ c ≤ 0xD7A3) : isExcl c = false := by
  have hh := hangul_not_excluded
  unfold isExcl
  rw [List.all_eq_true] at hh
  rw [Bool.eq_false_iff]
  intro hany
  rw [List.any_eq_true] at hany
  obtain ⟨r, hr, hc⟩ := hany
  have := hh r hr
  simp only [Bool.or_eq_true, decide_eq_true_eq, Bool.and_eq_true] at this hc
  omega

theorem hangulS_assigned {c : Nat} (h : 0xAC00 ≤ c ∧ c ≤ 0xD7A3) : UCD.assigned c = true := by
  obtain ⟨i, hi⟩ : ∃ i, c = 0xAC00 + i := ⟨c - 0xAC00, by omega⟩
  rw [hi]
  exact allBelow_spec hangul_assigned i (by omega)

section consts
theorem k0 : UniCompos.unicodeMax = 0x10FFFF := by decide
theorem k1 : UniCompos.HLBase = 0x1100 := by decide
theorem k2 : UniCompos.HLFinal = 0x1112 := by decide
theorem k3 : UniCompos.HVBase = 0x1161 := by decide
theorem k4 : UniCompos.HVFinal = 0x1175 := by decide
theorem k5 : UniCompos.HSBase = 0xAC00 := by decide
theorem k6 : UniCompos.HVCount = 21 := by decide
theorem k7 : UniCompos.HTCount = 28 := by decide
theorem k8 : UniCompos.HTBase = 0x11A7 := by decide
theorem k9 : UniCompos.HTFinal = 0x11C2 := by decide
theorem k10 : UniCompos.HSFinal = 0xD7A3 := by decide
end consts

/-- the two Hangul tests of `_composite_cp` are the Standard's -/
theorem hangul_LV_iff (a b : Nat) : (isL a && isV b) = true ↔
    (UCD.LBase ≤ a ∧ a < UCD.LBase + UCD.LCount ∧ UCD.VBase ≤ b ∧ b < UCD.VBase + UCD.VCount) := by
  unfold isL isV UCD.LBase UCD.LCount UCD.VBase UCD.VCount
  rw [k1, k2, k3, k4]
  simp only [Bool.and_eq_true, decide_eq_true_eq]
  omega

theorem hangul_LVT_iff (a b : Nat) : (isLV a && isT b) = true ↔
    (UCD.isHangulS a = true ∧ (a - UCD.SBase) % UCD.TCount = 0 ∧ UCD.TBase < b ∧ b < UCD.TBase + UCD.TCount) := by
  unfold isLV isS isT UCD.isHangulS UCD.SBase UCD.SCount UCD.TCount UCD.TBase
  rw [k5, k10, k7, k8, k9]
  simp only [Bool.and_eq_true, decide_eq_true_eq, beq_iff_eq]
  omega

/-- UCD's composite ⇒ the repaired lookup returns it (every pair of naturals) -/
theorem ucd_to_pcOf {a b c : Nat} (h : UCD.primaryComposite a b = some c) : pcOf allFixed a b = some c := by
  unfold UCD.primaryComposite at h
  have hcomp : compositeCp allFixed a b = c ∧ isExcl c = false ∧ c ≠ 0 := by
    cases hh : UCD.hangulCompose a b with
    | some s =>
      rw [hh] at h
      have hs : s = c := by injection h
      rw [← hs]
      unfold UCD.hangulCompose at hh
      split at hh
      · rename_i hlv
        have e : s = UCD.SBase + ((a - UCD.LBase) * UCD.VCount + (b - UCD.VBase)) * UCD.TCount := (Option.some.inj hh).symm
        have hlv' := (hangul_LV_iff a b).mpr hlv
        unfold UCD.LBase UCD.LCount UCD.VBase UCD.VCount at hlv
        unfold UCD.SBase UCD.LBase UCD.VCount UCD.VBase UCD.TCount at e
        have hrange : 0xAC00 ≤ s ∧ s ≤ 0xD7A3 := by omega
        refine ⟨?_, isExcl_hangul hrange, by omega⟩
        unfold compositeCp
        have hb : ¬ b = 0 := by omega
        have hr : ¬ (UniCompos.unicodeMax < a ∨ UniCompos.unicodeMax < b) := by rw [k0]; omega
        simp only [hb, hr, hlv', ↓reduceIte]
        rw [k5, k1, k6, k3, k7, e]
      · split at hh
        · rename_i hlv hlvt
          have e : s = a + (b - UCD.TBase) := (Option.some.inj hh).symm
          have hlvt' := (hangul_LVT_iff a b).mpr hlvt
          have hlv' : ¬ (isL a && isV b) = true := fun x => hlv ((hangul_LV_iff a b).mp x)
          unfold UCD.isHangulS UCD.SBase UCD.SCount UCD.TCount UCD.TBase at hlvt
          simp only [Bool.and_eq_true, decide_eq_true_eq] at hlvt
          unfold UCD.TBase at e
          have hrange : 0xAC00 ≤ s ∧ s ≤ 0xD7A3 := by omega
          refine ⟨?_, isExcl_hangul hrange, by omega⟩
          unfold compositeCp
          have hb : ¬ b = 0 := by omega
          have hr : ¬ (UniCompos.unicodeMax < a ∨ UniCompos.unicodeMax < b) := by rw [k0]; omega
          simp only [hb, hr, hlv', hlvt', ↓reduceIte, Bool.false_eq_true]
          rw [k8, e]
        · cases hh
    | none =>
      rw [hh] at h
      obtain ⟨m, hm, e1, e2, e3⟩ := tableCompose_sound a b _ _ _ _ h
      have := allBelow_spec fwd2_check m hm
      unfold fwd2Ok at this
      simp only [Bool.and_eq_true, beq_iff_eq, Bool.not_eq_eq_eq_not, Bool.not_true, bne_iff_ne, ne_eq] at this
      rw [e1, e2, e3] at this
      exact ⟨this.1.1.1, this.1.1.2, this.1.2⟩
  unfold pcOf
  simp [hcomp.1, hcomp.2.1, hcomp.2.2]

/-- the repaired lookup returns a composite for two code points ⇒ it is UCD's primary composite of the pair, and assigned -/
theorem pcOf_to_ucd {a b c : Nat} (ha : a ≤ UniCompos.unicodeMax) (hb : b ≤ UniCompos.unicodeMax)
    (h : pcOf allFixed a b = some c) : UCD.primaryComposite a b = some c ∧ UCD.assigned c = true := by
  unfold pcOf at h
  dsimp only at h
  split at h
  · rename_i hc
    have ec : compositeCp allFixed a b = c := by injection h
    obtain ⟨hne, hnx⟩ := hc
    rw [ec] at hne hnx
    simp only [Bool.not_eq_eq_eq_not, Bool.not_true] at hnx
    unfold compositeCp at ec
    by_cases hb0 : b = 0
    · simp only [hb0, ↓reduceIte] at ec; exact absurd ec.symm hne
    · have hr : ¬ (UniCompos.unicodeMax < a ∨ UniCompos.unicodeMax < b) := by omega
      by_cases hlv : (isL a && isV b) = true
      · simp only [hb0, hr, hlv, ↓reduceIte] at ec
        have hlv' := (hangul_LV_iff a b).mp hlv
        have hcomp : UCD.hangulCompose a b = some c := by
          unfold UCD.hangulCompose
          rw [if_pos hlv']
          rw [k5, k1, k6, k3, k7] at ec
          unfold UCD.SBase UCD.LBase UCD.VCount UCD.VBase UCD.TCount
          rw [ec]
        unfold UCD.LBase UCD.LCount UCD.VBase UCD.VCount at hlv'
        rw [k5, k1, k6, k3, k7] at ec
        refine ⟨by unfold UCD.primaryComposite; rw [hcomp], hangulS_assigned (by omega)⟩
      · by_cases hlvt : (isLV a && isT b) = true
        · simp only [hb0, hr, hlv, hlvt, ↓reduceIte, Bool.false_eq_true] at ec
          have hlvt' := (hangul_LVT_iff a b).mp hlvt
          have hlv' : ¬ (UCD.LBase ≤ a ∧ a < UCD.LBase + UCD.LCount ∧ UCD.VBase ≤ b ∧ b < UCD.VBase + UCD.VCount) :=
            fun x => hlv ((hangul_LV_iff a b).mpr x)
          have hcomp : UCD.hangulCompose a b = some c := by
            unfold UCD.hangulCompose
            rw [if_neg hlv', if_pos hlvt']
            rw [k8] at ec
            unfold UCD.TBase
            rw [ec]
          rw [k8] at ec
          unfold UCD.isHangulS UCD.SBase UCD.SCount UCD.TCount UCD.TBase at hlvt'
          simp only [Bool.and_eq_true, decide_eq_true_eq] at hlvt'
          refine ⟨by unfold UCD.primaryComposite; rw [hcomp], hangulS_assigned (by omega)⟩
        · simp only [hb0, hr, hlv, hlvt, ↓reduceIte, Bool.false_eq_true] at ec
          have hlv' : ¬ (UCD.LBase ≤ a ∧ a < UCD.LBase + UCD.LCount ∧ UCD.VBase ≤ b ∧ b < UCD.VBase + UCD.VCount) :=
            fun x => hlv ((hangul_LV_iff a b).mpr x)
          have hlvt' : ¬ (UCD.isHangulS a = true ∧ (a - UCD.SBase) % UCD.TCount = 0 ∧ UCD.TBase < b ∧ b < UCD.TBase + UCD.TCount) :=
            fun x => hlvt ((hangul_LVT_iff a b).mpr x)
          have hnone : UCD.hangulCompose a b = none := by
            unfold UCD.hangulCompose; rw [if_neg hlv', if_neg hlvt']
          -- the table branch
          have hcell : cellOf a ≠ 0 ∧ searchList b (cell 16 UniCompos.listOff (cellOf a - 1)) (cell 8 UniCompos.listLen (cellOf a - 1)) = c := by
            unfold cellOf
            split at ec
            · exact absurd ec.symm hne
            · exact absurd ec.symm hne
            · rename_i r hrow
              rw [hrow]
              dsimp only at ec ⊢
              by_cases hz : cell 16 UniCompos.rows (r * 256 + a % 256) = 0
              · rw [if_pos hz] at ec; exact absurd ec.symm hne
              · rw [if_neg hz] at ec
                have hk : (if a < UniCompos.firstLong ∧ (!allFixed.compCast) = true then b % 65536 else b) = b := by
                  have : (!allFixed.compCast) = false := rfl
                  simp [this]
                rw [hk] at ec
                exact ⟨hz, ec⟩
          obtain ⟨hz, hs⟩ := hcell
          -- the list reached from `a` is the list recorded for `a`
          have ha' : a < 0x110000 := by rw [k0] at ha; omega
          have hblock : composBlock (a / 256) = true := by
            unfold composBlock
            rw [← rowId_block]
            unfold cellOf at hz
            split at hz
            · rename_i r hrow; rw [hrow]; simp
            · exact absurd rfl hz
          have hcp := allBlocks_spec cellcp_check ha' hblock
          unfold cellCpOk at hcp
          simp only [Bool.or_eq_true, beq_iff_eq, Bool.and_eq_true, decide_eq_true_eq] at hcp
          rcases hcp with h0 | ⟨hle, hcpa⟩
          · exact absurd h0 hz
          · have hi : cellOf a - 1 < UniCompos.listsN := by omega
            obtain ⟨j, hj, e1, e2⟩ := searchList_found b _ _ (by rw [hs]; exact hne)
            rw [hs] at e2
            have hb2 := allBelow_spec (allBelow_spec bwd2_check _ hi) j hj
            simp only [hcpa, e1, e2, Bool.or_eq_true, beq_iff_eq, Bool.and_eq_true] at hb2
            rcases hb2 with (h0 | hx) | ⟨hasg, htc⟩
            · exact absurd h0 hne
            · rw [hnx] at hx; cases hx
            · exact ⟨by unfold UCD.primaryComposite; rw [hnone]; exact htc, hasg⟩
  · cases h

/-- **the repaired pair map is D114's, on code points** -/
theorem pcOf_eq_ucd {a b : Nat} (ha : a ≤ UniCompos.unicodeMax) (hb : b ≤ UniCompos.unicodeMax) :
    pcOf allFixed a b = UCD.primaryComposite a b := by
  cases h1 : pcOf allFixed a b with
  | some c => exact (pcOf_to_ucd ha hb h1).1.symm
  | none =>
    cases h2 : UCD.primaryComposite a b with
    | none => rfl
    | some c => rw [ucd_to_pcOf h2] at h1; cases h1

end SafeC.Norm

import SafeC.Models.Handlers
/-!
# C13: the abstract registration machine `A` and the step-commuting abstraction `H → A`

`A` is the property text taken literally, for ONE kind of handler: a map thread → optional handler
(`own`) and one optional process-wide handler (`glob`); a violation on thread `t` runs `t`'s own
handler if it has one, else the process-wide one, else the default (0).  The concrete machine `H`
(`Models/Handlers.lean`, which mirrors `safe_{str,mem}_constraint.c`) is shown to be the PRODUCT of
two independent copies of `A`, one per kind:

* `absK k : H → A` forgets the other kind;
* `proj k : Op → Option AOp` forgets operations of the other kind (`none` = "not an event of this copy");
* `abs_step`, `abs_out`: one concrete step = one abstract step (or none) of each copy, with the same output;
* `refines`, `refines_out`: hence every run, of any length, from any state.

All statements are for EVERY state `s : H` (a fortiori every reachable one) and every operation.
Chronological runs: `runC s ops` (left fold); `runR hist = runC init hist.reverse` (`runR_eq_runC`).
-/
namespace SafeC.Handlers
open SafeC

/-- abstract registration state for one kind -/
structure A where
  own : Tid → Option Hid
  glob : Option Hid

namespace A

def init : A := { own := fun _ => none, glob := none }

/-- thread's own if any, else the process-wide one, else the default -/
def invoked (a : A) (t : Tid) : Hid :=
  match a.own t with
  | some h => h
  | none => match a.glob with
    | some h => h
    | none => 0

/-- operations of the abstract machine (one kind) -/
inductive AOp where
  | set (h : Option Hid)                 -- process-wide registration (by whichever thread)
  | thrdSet (t : Tid) (h : Option Hid)   -- thread-local registration made by `t`
  | violate (t : Tid)
  | spawn (c : Tid)
  deriving Repr, DecidableEq

def step (a : A) : AOp → A × Out
  | .set h => ({ a with glob := some (h.getD 0) }, .prev a.glob)
  | .thrdSet t h => ({ a with own := fun t' => if t' = t then some (h.getD 0) else a.own t' }, .prev (a.own t))
  | .violate t => (a, .ran (a.invoked t))
  | .spawn c => ({ a with own := fun t' => if t' = c then none else a.own t' }, .none)

def run (a : A) : List AOp → A
  | [] => a
  | op :: rest => run (step a op).1 rest

def runOut (a : A) : List AOp → List Out
  | [] => []
  | op :: rest => (step a op).2 :: runOut (step a op).1 rest

theorem ext' {a b : A} (h1 : ∀ t, a.own t = b.own t) (h2 : a.glob = b.glob) : a = b := by
  cases a; cases b
  simp only [A.mk.injEq]
  exact ⟨funext h1, h2⟩

end A

open A (AOp)

/-- the `k`-copy of a concrete state -/
def absK (k : Kind) (s : H) : A := { own := fun t => s.tl t k, glob := s.glob k }

/-- the `k`-copy's view of a concrete operation (`none`: an operation of the other kind) -/
def proj (k : Kind) : Op → Option AOp
  | .set _ k' h => if k' = k then some (.set h) else none
  | .thrdSet t k' h => if k' = k then some (.thrdSet t h) else none
  | .violate t k' => if k' = k then some (.violate t) else none
  | .spawn _ c => some (.spawn c)

/-- chronological run -/
def runC (s : H) : List Op → H
  | [] => s
  | op :: rest => runC (step s op).1 rest

theorem runC_append (s : H) (xs ys : List Op) : runC s (xs ++ ys) = runC (runC s xs) ys := by
  induction xs generalizing s with
  | nil => rfl
  | cons x xs ih => exact ih _

theorem runR_eq_runC (hist : List Op) : runR hist = runC init hist.reverse := by
  induction hist with
  | nil => rfl
  | cons op older ih =>
    rw [List.reverse_cons, runC_append, ← ih]
    rfl

theorem absK_init (k : Kind) : absK k init = A.init := rfl

/-- the dispatch of the concrete machine is the abstract dispatch of the `k`-copy -/
theorem abs_invoked (s : H) (t : Tid) (k : Kind) : invoked s t k = (absK k s).invoked t := rfl

/-- **step-commuting, states**: a concrete step is the abstract step of the `k`-copy when the
operation concerns kind `k`, and leaves the `k`-copy alone otherwise -/
theorem abs_step (k : Kind) (s : H) (op : Op) :
    absK k (step s op).1 = match proj k op with
      | some a => ((absK k s).step a).1
      | none => absK k s := by
  cases op with
  | set t k' h =>
    by_cases hk : k' = k
    · subst hk
      simp only [proj, if_true, step, A.step, absK, reg]
    · have hk' : ¬ k = k' := fun e => hk e.symm
      simp only [proj, hk, if_false, step, absK, hk']
  | thrdSet t k' h =>
    by_cases hk : k' = k
    · subst hk
      simp only [proj, if_true, step, A.step, absK, reg, and_true]
    · have hk' : ¬ k = k' := fun e => hk e.symm
      simp only [proj, hk, if_false, step, absK, hk', and_false]
  | violate t k' =>
    by_cases hk : k' = k
    · subst hk; simp only [proj, if_true, step, A.step]
    · simp only [proj, hk, if_false, step]
  | spawn p c => simp only [proj, step, A.step, absK]

/-- **step-commuting, outputs**: what the C returns / which handler runs is what the `k`-copy says -/
theorem abs_out (k : Kind) (s : H) (op : Op) (a : AOp) (h : proj k op = some a) :
    (step s op).2 = ((absK k s).step a).2 := by
  cases op with
  | set t k' hh =>
    by_cases hk : k' = k
    · subst hk; simp only [proj, if_true, Option.some.injEq] at h; subst h; rfl
    · simp [proj, hk] at h
  | thrdSet t k' hh =>
    by_cases hk : k' = k
    · subst hk; simp only [proj, if_true, Option.some.injEq] at h; subst h; rfl
    · simp [proj, hk] at h
  | violate t k' =>
    by_cases hk : k' = k
    · subst hk; simp only [proj, if_true, Option.some.injEq] at h; subst h; rfl
    · simp [proj, hk] at h
  | spawn p c =>
    simp only [proj, Option.some.injEq] at h; subst h; rfl

/-- **refinement, states**: after ANY run from ANY state the `k`-copy is the abstract run over the
`k`-operations of the history (operations of the other kind deleted) -/
theorem refines (k : Kind) (s : H) (ops : List Op) :
    absK k (runC s ops) = (absK k s).run (ops.filterMap (proj k)) := by
  induction ops generalizing s with
  | nil => rfl
  | cons op rest ih =>
    simp only [runC, List.filterMap_cons]
    rw [ih, abs_step]
    cases proj k op <;> rfl

/-- outputs of the operations that concern kind `k`, in order -/
def outsK (k : Kind) (s : H) : List Op → List Out
  | [] => []
  | op :: rest =>
    match proj k op with
    | some _ => (step s op).2 :: outsK k (step s op).1 rest
    | none => outsK k (step s op).1 rest

/-- **refinement, outputs**: the outputs of the `k`-operations of ANY run are the outputs of the
abstract run over them -/
theorem refines_out (k : Kind) (s : H) (ops : List Op) :
    outsK k s ops = (absK k s).runOut (ops.filterMap (proj k)) := by
  induction ops generalizing s with
  | nil => rfl
  | cons op rest ih =>
    simp only [outsK, List.filterMap_cons]
    cases hp : proj k op with
    | none =>
      simp only []
      rw [ih, abs_step, hp]
    | some a =>
      simp only [A.runOut]
      rw [ih, abs_step, hp, abs_out k s op a hp]

/-! ## what thread `t` can observe -/

/-- the part of the state thread `t` can ever observe: both process-wide slots and its OWN two slots -/
def view (t : Tid) (s : H) : (Kind → Option Hid) × (Kind → Option Hid) := (s.glob, s.tl t)

/-- the thread an operation runs on (`spawn`: nobody's observation, its output is empty) -/
def actor : Op → Option Tid
  | .set t _ _ => some t
  | .thrdSet t _ _ => some t
  | .violate t _ => some t
  | .spawn _ _ => none

/-- a thread-local registration (of any kind, any handler) by some OTHER thread -/
def foreignTl (t : Tid) : Op → Prop
  | .thrdSet t' _ _ => t' ≠ t
  | _ => False

theorem view_step_congr (t : Tid) (s1 s2 : H) (op : Op) (h : view t s1 = view t s2) :
    view t (step s1 op).1 = view t (step s2 op).1 := by
  simp only [view, Prod.mk.injEq] at h
  obtain ⟨hg, ht⟩ := h
  cases op with
  | set t' k h' => simp only [step, view, hg, ht]
  | thrdSet t' k h' =>
    simp only [step, view, hg, Prod.mk.injEq, true_and]
    funext k'
    by_cases c : t = t' ∧ k' = k
    · simp [c]
    · simp only [c, if_false]; exact congrFun ht k'
  | violate t' k => simp only [step, view, hg, ht]
  | spawn p c =>
    simp only [step, view, hg, Prod.mk.injEq, true_and]
    funext k'
    by_cases c' : t = c
    · simp [c']
    · simp only [c', if_false]; exact congrFun ht k'

theorem out_congr (t : Tid) (s1 s2 : H) (op : Op) (h : view t s1 = view t s2) (ha : actor op = some t) :
    (step s1 op).2 = (step s2 op).2 := by
  simp only [view, Prod.mk.injEq] at h
  obtain ⟨hg, ht⟩ := h
  cases op with
  | set t' k h' => simp only [step, hg]
  | thrdSet t' k h' =>
    simp only [actor, Option.some.injEq] at ha; subst ha
    simp only [step, ht]
  | violate t' k =>
    simp only [actor, Option.some.injEq] at ha; subst ha
    simp only [step, invoked, ht, hg]
  | spawn p c => simp [actor] at ha

/-- a thread-local registration by another thread does not change what `t` can observe -/
theorem view_foreign (t : Tid) (s : H) (op : Op) (h : foreignTl t op) : view t (step s op).1 = view t s := by
  cases op with
  | thrdSet t' k h' =>
    simp only [foreignTl] at h
    simp only [step, view, Prod.mk.injEq, true_and]
    funext k'
    have : ¬ (t = t' ∧ k' = k) := fun e => h e.1.symm
    simp only [this, if_false]
  | set _ _ _ => exact h.elim
  | violate _ _ => exact h.elim
  | spawn _ _ => exact h.elim

theorem view_run_congr (t : Tid) (s1 s2 : H) (ops : List Op) (h : view t s1 = view t s2) :
    view t (runC s1 ops) = view t (runC s2 ops) := by
  induction ops generalizing s1 s2 with
  | nil => exact h
  | cons op rest ih => exact ih _ _ (view_step_congr t s1 s2 op h)

/-! ## slots over runs, erasing foreign registrations -/

/-- a process-wide registration of kind `k` -/
def isSet (k : Kind) : Op → Bool
  | .set _ k' _ => k' = k
  | _ => false

/-- an operation that can change thread `t`'s own slot of kind `k` -/
def touchesTl (t : Tid) (k : Kind) : Op → Bool
  | .thrdSet t' k' _ => t' = t ∧ k' = k
  | .spawn _ c => c = t
  | _ => false

/-- a thread-local registration (any kind, any handler) made by a thread other than `t` -/
def isForeignTl (t : Tid) : Op → Bool
  | .thrdSet t' _ _ => t' ≠ t
  | _ => false

theorem glob_step_noSet (k : Kind) (s : H) (op : Op) (h : isSet k op = false) : (step s op).1.glob k = s.glob k := by
  cases op with
  | set t k' h' =>
    have : ¬ k = k' := by intro e; subst e; simp [isSet] at h
    simp only [step, this, if_false]
  | thrdSet _ _ _ => rfl
  | violate _ _ => rfl
  | spawn _ _ => rfl

theorem glob_run_noSet (k : Kind) (s : H) (ops : List Op) (h : ∀ op ∈ ops, isSet k op = false) :
    (runC s ops).glob k = s.glob k := by
  induction ops generalizing s with
  | nil => rfl
  | cons op rest ih =>
    simp only [runC]
    rw [ih _ (fun o ho => h o (List.mem_cons_of_mem _ ho)), glob_step_noSet k s op (h op List.mem_cons_self)]

theorem tl_step_noTouch (t : Tid) (k : Kind) (s : H) (op : Op) (h : touchesTl t k op = false) :
    (step s op).1.tl t k = s.tl t k := by
  cases op with
  | set _ _ _ => rfl
  | thrdSet t' k' h' =>
    have : ¬ (t = t' ∧ k = k') := by
      intro e; obtain ⟨rfl, rfl⟩ := e; simp [touchesTl] at h
    simp only [step, this, if_false]
  | violate _ _ => rfl
  | spawn p c =>
    have : ¬ t = c := by intro e; subst e; simp [touchesTl] at h
    simp only [step, this, if_false]

theorem tl_run_noTouch (t : Tid) (k : Kind) (s : H) (ops : List Op) (h : ∀ op ∈ ops, touchesTl t k op = false) :
    (runC s ops).tl t k = s.tl t k := by
  induction ops generalizing s with
  | nil => rfl
  | cons op rest ih =>
    simp only [runC]
    rw [ih _ (fun o ho => h o (List.mem_cons_of_mem _ ho)), tl_step_noTouch t k s op (h op List.mem_cons_self)]

theorem foreignTl_of_isForeignTl (t : Tid) (op : Op) (h : isForeignTl t op = true) : foreignTl t op := by
  cases op with
  | thrdSet t' k h' => simpa [isForeignTl, foreignTl] using h
  | set _ _ _ => simp [isForeignTl] at h
  | violate _ _ => simp [isForeignTl] at h
  | spawn _ _ => simp [isForeignTl] at h

/-- erasing every thread-local registration made by other threads from a history changes nothing
thread `t` can observe -/
theorem view_erase_foreign (t : Tid) (s1 s2 : H) (ops : List Op) (h : view t s1 = view t s2) :
    view t (runC s1 ops) = view t (runC s2 (ops.filter fun op => !isForeignTl t op)) := by
  induction ops generalizing s1 s2 with
  | nil => exact h
  | cons op rest ih =>
    by_cases hf : isForeignTl t op = true
    · simp only [runC, List.filter_cons, hf, Bool.not_true, Bool.false_eq_true, if_false]
      exact ih _ _ ((view_foreign t s1 op (foreignTl_of_isForeignTl t op hf)).trans h)
    · have hf' : isForeignTl t op = false := by simpa using hf
      simp only [runC, List.filter_cons, hf', Bool.not_false, if_true]
      exact ih _ _ (view_step_congr t s1 s2 op h)

/-- the outputs of the operations that run on thread `t`, in order -/
def outsT (t : Tid) (s : H) : List Op → List Out
  | [] => []
  | op :: rest =>
    if actor op = some t then (step s op).2 :: outsT t (step s op).1 rest
    else outsT t (step s op).1 rest

theorem actor_foreign (t : Tid) (op : Op) (h : isForeignTl t op = true) : actor op ≠ some t := by
  cases op with
  | thrdSet t' k h' =>
    simp only [isForeignTl, decide_eq_true_eq] at h
    simp only [actor, ne_eq, Option.some.injEq]; exact h
  | set _ _ _ => simp [isForeignTl] at h
  | violate _ _ => simp [isForeignTl] at h
  | spawn _ _ => simp [isForeignTl] at h

theorem outsT_erase_foreign (t : Tid) (s1 s2 : H) (ops : List Op) (h : view t s1 = view t s2) :
    outsT t s1 ops = outsT t s2 (ops.filter fun op => !isForeignTl t op) := by
  induction ops generalizing s1 s2 with
  | nil => rfl
  | cons op rest ih =>
    by_cases hf : isForeignTl t op = true
    · simp only [outsT, List.filter_cons, hf, Bool.not_true, Bool.false_eq_true, if_false,
        actor_foreign t op hf]
      exact ih _ _ ((view_foreign t s1 op (foreignTl_of_isForeignTl t op hf)).trans h)
    · have hf' : isForeignTl t op = false := by simpa using hf
      simp only [outsT, List.filter_cons, hf', Bool.not_false, if_true]
      by_cases ha : actor op = some t
      · simp only [ha, if_true]
        rw [out_congr t s1 s2 op h ha, ih _ _ (view_step_congr t s1 s2 op h)]
      · simp only [ha, if_false]
        exact ih _ _ (view_step_congr t s1 s2 op h)

end SafeC.Handlers

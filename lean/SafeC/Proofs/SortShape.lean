import SafeC.Proofs.SortBits
import SafeC.Proofs.SortLp
/-!
# qsort_s model: the smoothsort forest-shape invariant, and safety of every function that relies on it

`Forest os p pshift head`: the set bits of the two-word vector `p`, bit `i` standing for the order `pshift + i`, are
exactly the orders `os` (strictly ascending) of Leonardo trees that tile `[0, head]`: the smallest, of order `pshift`,
is rooted at `head`, the next at `head - leo pshift`, ….  `Shape` adds what the two loops of `qsort_musl` keep: from the
second order on, consecutive orders are at least 2 apart (so a merge never meets a tree of the merged order).

* `trinkle_safe`: `trinkle` on a forest inside the array returns; its walk over the stepsons follows `Forest.next`
  (`pntz` = distance to the next order, `shr` drops the smallest tree) and ends in a `sift` inside one tree.
* `mainStep_safe` / `mainLoop_safe`: the three cases of the main loop (`Shape.merge`, `Shape.single` with `q = 0` / `q = 1`).
* `dismantleStep_safe` / `dismantle_safe`: `Shape.drop` (a tree of one element is removed), `Shape.split` (the smallest
  tree is split in two), `Shape.done_of_zero` (the loop ends exactly when `head` reaches 0).
* `smooth_safe`: the whole sort.  Every comparator; `Ctx` collects what is assumed of the table and of `pntz`
  (discharged in Proofs/SortWhole.lean).
-/
namespace SafeC.Sort

/-! ## the forest described by `(p, pshift, head)` -/

/-- `p`, read relative to `pshift`, has exactly the orders in `os` set -/
def Rep (p : PV) (pshift : Nat) (os : List Nat) : Prop := ∀ i, p.bit i = decide (pshift + i ∈ os)

/-- Leonardo trees of orders `os` (ascending; the first one, of order `pshift`, is rooted at `head`, the next at
    `head - leo pshift`, …) tile the prefix `[0, head]` exactly -/
structure Forest (os : List Nat) (p : PV) (pshift head : Nat) : Prop where
  hd : os.head? = some pshift
  asc : os.Pairwise (· < ·)
  rep : Rep p pshift os
  sum : (os.map leo).sum = head + 1
  zero : pshift = 0 → 1 ∈ os

/-- the invariant of the two loops of `qsort_musl`: a forest whose orders, from the second on, are at least 2 apart -/
structure Shape (os : List Nat) (p : PV) (pshift head : Nat) : Prop extends Forest os p pshift head where
  gap : os.tail.Pairwise (fun a b => a + 2 ≤ b)

/-- what the proof needs to know about the table and about `pntz` -/
structure Ctx (e : Env α) (n K G : Nat) : Prop where
  lp : LpOk e.lp K
  hK : ∀ o, leo o ≤ n → o ≤ K
  K95 : K ≤ 95
  G1 : 1 ≤ G
  hG : ∀ o, leo o + 1 ≤ n → o ≤ G + 1
  pntz : ∀ (p : PV) (t : Nat), p.bit 0 = true → 0 < t → t ≤ G → p.bit t = true →
    (∀ j, 0 < j → j < t → p.bit j = false) → pntz e.fx p = t

theorem le_sum_of_mem {l : List Nat} {a : Nat} (h : a ∈ l) : a ≤ l.sum := by
  induction l with
  | nil => cases h
  | cons x l ih =>
    simp only [List.sum_cons]
    rcases List.mem_cons.mp h with rfl | h
    · omega
    · have := ih h; omega

theorem LpOk.mono {lp : Array Nat} {k j : Nat} (h : LpOk lp k) (hj : j ≤ k) : LpOk lp j :=
  fun i hi => h i (Nat.le_trans hi hj)

theorem asc_length : ∀ (l : List Nat) (K b : Nat), l.Pairwise (· < ·) → (∀ x ∈ l, b ≤ x ∧ x ≤ K) → l.length ≤ K + 1 - b
  | [], _, _, _, _ => by simp
  | x :: l, K, b, hp, hb => by
    rw [List.pairwise_cons] at hp
    have hx := hb x (by simp)
    have := asc_length l K (b + 1) hp.2 (fun y hy => by
      have h1 := hp.1 y hy
      have h2 := hb y (by simp [hy])
      omega)
    simp only [List.length_cons]
    omega

namespace Forest
variable {os : List Nat} {p : PV} {pshift head : Nat}

theorem leo_le (h : Forest os p pshift head) {o : Nat} (ho : o ∈ os) : leo o ≤ head + 1 := by
  have := le_sum_of_mem (List.mem_map_of_mem (f := leo) ho)
  rw [h.sum] at this; exact this

theorem mem_pshift (h : Forest os p pshift head) : pshift ∈ os := by
  have := h.hd
  cases os with
  | nil => simp at this
  | cons x tl => simp at this; simp [this]

theorem pshift_le (h : Forest os p pshift head) {o : Nat} (ho : o ∈ os) : pshift ≤ o := by
  have := h.hd
  cases os with
  | nil => simp at this
  | cons x tl =>
    simp at this; subst this
    have hp := h.asc
    rw [List.pairwise_cons] at hp
    rcases List.mem_cons.mp ho with rfl | h'
    · exact Nat.le_refl _
    · exact Nat.le_of_lt (hp.1 o h')

theorem bit0 (h : Forest os p pshift head) : p.bit 0 = true := by
  rw [h.rep 0]; simpa using h.mem_pshift

theorem fits (h : Forest os p pshift head) : leo pshift ≤ head + 1 := h.leo_le h.mem_pshift

theorem le_K {e : Env α} {n K G : Nat} (C : Ctx e n K G) (h : Forest os p pshift head) (hh : head < n) {o : Nat} (ho : o ∈ os) :
    o ≤ K := C.hK o (by have := h.leo_le ho; omega)

theorem length_le {e : Env α} {n K G : Nat} (C : Ctx e n K G) (h : Forest os p pshift head) (hh : head < n) :
    os.length ≤ K + 1 :=
  asc_length os K 0 h.asc (fun _ hx => ⟨Nat.zero_le _, h.le_K C hh hx⟩)

/-- a single tree: the bit vector is `{1, 0}` -/
theorem single (h : Forest [pshift] p pshift head) : p = PV.one := by
  rw [eq_one_iff]
  intro i
  rw [h.rep i]
  apply decide_eq_decide.mpr
  simp

/-- more than one tree: the bit vector is not `{1, 0}`; `pntz` is the distance to the next order; shifting it out gives
    the forest without its first tree, which ends at the stepson `head - leo pshift` -/
theorem next {e : Env α} {n K G : Nat} (C : Ctx e n K G) {o0 o1 : Nat} {rest : List Nat}
    (h : Forest (o0 :: o1 :: rest) p o0 head) (hh : head < n) :
    o0 < o1 ∧ p ≠ PV.one ∧ pntz e.fx p = o1 - o0 ∧ leo o0 ≤ head ∧ o1 ≤ K ∧
      Forest (o1 :: rest) (shr p (o1 - o0)) o1 (head - leo o0) := by
  have hasc := h.asc
  rw [List.pairwise_cons, List.pairwise_cons] at hasc
  obtain ⟨h01, h1r, hrr⟩ := hasc
  have hlt : o0 < o1 := h01 o1 (by simp)
  have hsum := h.sum
  simp only [List.map_cons, List.sum_cons] at hsum
  have p0 := leo_pos o0
  have p1 := leo_pos o1
  have ho1K : o1 ≤ K := h.le_K C hh (by simp)
  have hK95 := C.K95
  have hbt : p.bit (o1 - o0) = true := by
    rw [h.rep]; simp; omega
  have hmin : ∀ j, 0 < j → j < o1 - o0 → p.bit j = false := by
    intro j hj0 hj
    rw [h.rep]
    simp only [decide_eq_false_iff_not, List.mem_cons, not_or]
    refine ⟨by omega, by omega, fun hm => ?_⟩
    have := h1r _ hm
    omega
  have htG : o1 - o0 ≤ G := by
    by_cases hz : o0 = 0
    · have := h.zero hz
      simp only [List.mem_cons] at this
      rcases this with h' | h' | h'
      · omega
      · have := C.G1; omega
      · have := h1r _ h'; omega
    · have := C.hG o1 (by omega)
      omega
  have hpn : pntz e.fx p = o1 - o0 := C.pntz p _ h.bit0 (by omega) htG hbt hmin
  refine ⟨hlt, ?_, hpn, by omega, ho1K, ?_⟩
  · intro hp1
    rw [eq_one_iff] at hp1
    have := hp1 (o1 - o0)
    rw [hbt] at this
    simp at this
    omega
  · refine ⟨by simp, List.pairwise_cons.mpr ⟨h1r, hrr⟩, ?_, ?_, by intro h0; omega⟩
    · intro i
      rw [shr_bit p (by omega) (by omega), h.rep]
      apply decide_eq_decide.mpr
      have e1 : o0 + (i + (o1 - o0)) = o1 + i := by omega
      rw [e1]
      simp only [List.mem_cons]
      constructor
      · rintro (h' | h')
        · omega
        · exact h'
      · intro h'; exact Or.inr h'
    · simp only [List.map_cons, List.sum_cons]
      omega

end Forest

/-! ## `trinkle` stays inside the forest -/

theorem trinkleIter_safe (e : Env α) {n K : Nat} (hlp : LpOk e.lp K) (s : St α) (ar0 head pshift : Nat) (trusty : Bool)
    (hs : s.a.size = n) (h0 : ar0 < n) (hh : head < n) (hpK : pshift ≤ K) (hl : leo pshift ≤ head) :
    Tot (trinkleIter e s ar0 head pshift trusty)
      (fun r => r.1.a.size = n ∧ (r.2 = none ∨ r.2 = some (head - leo pshift))) := by
  unfold trinkleIter
  refine Tot.bind _ (lpAt_tot hlp hpK) (fun l hl1 => ?_)
  subst hl1
  refine Tot.bind _ (sub_tot hl) (fun st hst => ?_)
  subst hst
  have p0 := leo_pos pshift
  refine Tot.bind _ (cmpAt_tot e s (by omega) (by omega)) (fun ⟨c, s1⟩ h1 => ?_)
  have h1' : s1.a = s.a := h1
  refine Tot.ite (fun _ => Tot.ok ⟨by rw [h1', hs], Or.inl rfl⟩) (fun _ => ?_)
  refine Tot.bind (fun r => r.2.a = s.a) ?_ (fun ⟨brk, s2⟩ h2 => ?_)
  · refine Tot.ite (fun hc => ?_) (fun _ => Tot.pure h1')
    obtain ⟨k, rfl⟩ : ∃ k, pshift = k + 2 := ⟨pshift - 2, by omega⟩
    have hleo := leo_succ_succ k
    have q0 := leo_pos k
    have q1 := leo_pos (k + 1)
    refine Tot.bind _ (sub_tot (by omega)) (fun rt hrt => ?_)
    subst hrt
    refine Tot.bind _ (lpAt_tot hlp (by omega : k + 2 - 2 ≤ K)) (fun l2 hl2 => ?_)
    have hl2' : l2 = leo k := by simpa using hl2
    subst hl2'
    refine Tot.bind _ (sub_tot (by omega)) (fun lf hlf => ?_)
    subst hlf
    refine Tot.bind _ (cmpAt_tot e s1 (by rw [h1']; omega) (by rw [h1']; omega)) (fun ⟨c1, s'⟩ h' => ?_)
    have h'' : s'.a = s.a := (show s'.a = s1.a from h').trans h1'
    refine Tot.ite (fun _ => Tot.pure h'') (fun _ => ?_)
    refine Tot.bind _ (cmpAt_tot e s' (by rw [h'']; omega) (by rw [h'']; omega)) (fun ⟨c2, s''⟩ h3 => ?_)
    exact Tot.pure ((show s''.a = s'.a from h3).trans h'')
  · have h2' : s2.a = s.a := h2
    exact Tot.ite (fun _ => Tot.ok ⟨by rw [h2', hs], Or.inl rfl⟩) (fun _ => Tot.ok ⟨by rw [h2', hs], Or.inr rfl⟩)


theorem trinkleLoop_safe (e : Env α) {n K G : Nat} (C : Ctx e n K G) (ar0 : Nat) (h0 : ar0 < n) :
    ∀ (room : Nat) (os : List Nat) (s : St α) (head : Nat) (p : PV) (pshift : Nat) (trusty : Bool) (acc : List Nat),
    s.a.size = n → head < n → Forest os p pshift head → os.length ≤ room + 1 → (∀ x ∈ acc, x < n) →
    Tot (trinkleLoop e room s ar0 head p pshift trusty acc) (fun r =>
      r.1.a.size = n ∧ r.2.1 < n ∧ leo r.2.2.1 ≤ r.2.1 + 1 ∧ r.2.2.1 ≤ K ∧ (∀ x ∈ r.2.2.2.2, x < n) ∧
      r.2.2.2.2.length + 1 ≤ acc.length + os.length) := by
  intro room
  induction room with
  | zero =>
    intro os s head p pshift trusty acc hs hh hF hlen hacc
    obtain ⟨tl, rfl⟩ : ∃ tl, os = pshift :: tl := by
      have := hF.hd
      cases os with
      | nil => simp at this
      | cons x tl => simp at this; exact ⟨tl, by rw [this]⟩
    have : tl = [] := by
      cases tl with
      | nil => rfl
      | cons _ _ => simp at hlen
    subst this
    unfold trinkleLoop
    simp only [hF.single, if_true]
    exact Tot.ok ⟨hs, hh, hF.fits, hF.le_K C hh (by simp), hacc, by simp⟩
  | succ room ih =>
    intro os s head p pshift trusty acc hs hh hF hlen hacc
    obtain ⟨tl, rfl⟩ : ∃ tl, os = pshift :: tl := by
      have := hF.hd
      cases os with
      | nil => simp at this
      | cons x tl => simp at this; exact ⟨tl, by rw [this]⟩
    unfold trinkleLoop
    cases tl with
    | nil =>
      simp only [hF.single, if_true]
      exact Tot.ok ⟨hs, hh, hF.fits, hF.le_K C hh (by simp), hacc, by simp⟩
    | cons o1 rest =>
      obtain ⟨hlt, hne, hpn, hle, ho1, hF'⟩ := hF.next C hh
      simp only [hne, if_false]
      refine Tot.bind _ (trinkleIter_safe e C.lp s ar0 head pshift trusty hs h0 hh (hF.le_K C hh (by simp)) hle)
        (fun ⟨s1, step⟩ h1 => ?_)
      obtain ⟨hs1, hstep⟩ := h1
      rcases hstep with hstep | hstep
      · have : step = none := hstep
        subst this
        exact Tot.ok ⟨hs1, hh, hF.fits, hF.le_K C hh (by simp), hacc, by simp⟩
      · have : step = some (head - leo pshift) := hstep
        subst this
        show Tot (trinkleLoop e room s1 ar0 (head - leo pshift) (shr p (pntz e.fx p)) (pshift + pntz e.fx p) false
          ((head - leo pshift) :: acc)) _
        rw [hpn]
        have e1 : pshift + (o1 - pshift) = o1 := by omega
        rw [e1]
        obtain ⟨r, hr, q1, q2, q3, q4, q5, q6⟩ := ih (o1 :: rest) s1 (head - leo pshift) (shr p (o1 - pshift)) o1 false
          ((head - leo pshift) :: acc) hs1 (by omega) hF' (by simp at hlen ⊢; omega)
          (by intro x hx; rcases List.mem_cons.mp hx with h | h
              · omega
              · exact hacc x h)
        exact ⟨r, hr, q1, q2, q3, q4, q5, by simp at q6 ⊢; omega⟩

/-- `trinkle` called on a forest that lies inside the array: returns, every position touched is `< n` -/
theorem trinkle_safe (e : Env α) {n K G : Nat} (C : Ctx e n K G) (s : St α) (os : List Nat) (head : Nat) (p : PV)
    (pshift : Nat) (trusty : Bool) (hs : s.a.size = n) (hh : head < n) (hF : Forest os p pshift head) :
    Tot (trinkle e s head p pshift trusty) (fun r => r.a.size = n) := by
  unfold trinkle
  have hK95 := C.K95
  have hlen := hF.length_le C hh
  refine Tot.bind _ (trinkleLoop_safe e C head hh 112 os s head p pshift trusty [head] hs hh hF (by omega)
    (by simp; exact hh)) (fun ⟨s1, hd1, ps1, tr1, acc1⟩ h1 => ?_)
  obtain ⟨q1, q2, q3, q4, q5, q6⟩ := h1
  simp only at q1 q2 q3 q4 q5 q6
  refine Tot.ite (fun _ => ?_) (fun _ => Tot.pure q1)
  refine Tot.bind _ (cycle_tot s1 acc1.reverse (by intro y hy; rw [q1]; exact q5 y (by simpa using hy))
    (by simp at q6 ⊢; omega)) (fun s2 h2 => ?_)
  exact sift_safe e s2 n hd1 ps1 (by rw [h2]; exact q1) q2 q3 (C.lp.mono q4) (by omega)


/-! ## the three cases of the main loop preserve the shape -/

namespace Shape
variable {os : List Nat} {p : PV} {pshift head : Nat}

theorem cons_of (h : Forest os p pshift head) : ∃ tl, os = pshift :: tl := by
  have := h.hd
  cases os with
  | nil => simp at this
  | cons x tl => simp at this; exact ⟨tl, by rw [this]⟩

/-- `(p[0] & 3) == 3`: the two smallest trees have consecutive orders -/
theorem two_of_bit1 (h : Forest os p pshift head) (h1 : p.bit 1 = true) : ∃ rest, os = pshift :: (pshift + 1) :: rest := by
  obtain ⟨tl, rfl⟩ := cons_of h
  rw [h.rep] at h1
  simp only [decide_eq_true_eq, List.mem_cons] at h1
  have hasc := h.asc
  rw [List.pairwise_cons] at hasc
  cases tl with
  | nil => simp at h1
  | cons o1 rest =>
    have hp := hasc.2
    rw [List.pairwise_cons] at hp
    have h01 := hasc.1 o1 (by simp)
    rcases h1 with h1 | h1
    · omega
    · rcases List.mem_cons.mp h1 with h1 | h1
      · exact ⟨rest, by rw [← h1]⟩
      · have := hp.1 _ h1; omega

/-- two adjacent trees merge under a new root -/
theorem merge_cons {rest : List Nat} (h : Shape (pshift :: (pshift + 1) :: rest) p pshift head) :
    Shape ((pshift + 2) :: rest) ⟨(shr p 2).lo ||| 1, (shr p 2).hi⟩ (pshift + 2) (head + 1) := by
  have hasc := h.asc
  rw [List.pairwise_cons, List.pairwise_cons] at hasc
  have hgap := h.gap
  simp only [List.tail_cons] at hgap
  rw [List.pairwise_cons] at hgap
  have hsum := h.sum
  simp only [List.map_cons, List.sum_cons] at hsum
  refine ⟨⟨by simp, List.pairwise_cons.mpr ⟨fun x hx => by have := hgap.1 x hx; omega, hasc.2.2⟩,
    ?_, ?_, by intro h0; omega⟩, by simpa using hgap.2⟩
  · intro i
    rw [or1_bit, shr_bit p (by omega) (by omega), h.rep, Bool.eq_iff_iff]
    simp only [Bool.or_eq_true, decide_eq_true_eq, List.mem_cons]
    constructor
    · rintro (h' | h' | h' | h')
      · left; omega
      · omega
      · omega
      · right; have : pshift + 2 + i = pshift + (i + 2) := by omega
        rw [this]; exact h'
    · rintro (h' | h')
      · left; omega
      · right; right; right
        have : pshift + 2 + i = pshift + (i + 2) := by omega
        rw [← this]; exact h'
  · simp only [List.map_cons, List.sum_cons]
    have := leo_succ_succ pshift
    omega

theorem merge (h : Shape os p pshift head) (h1 : p.bit 1 = true) :
    ∃ os', Shape os' ⟨(shr p 2).lo ||| 1, (shr p 2).hi⟩ (pshift + 2) (head + 1) := by
  obtain ⟨rest, rfl⟩ := two_of_bit1 h.toForest h1
  exact ⟨_, h.merge_cons⟩

/-- `(p[0] & 3) != 3`: all orders of the forest are at least 2 apart -/
theorem gap_all (h : Shape os p pshift head) (h1 : p.bit 1 = false) : os.Pairwise (fun a b => a + 2 ≤ b) := by
  obtain ⟨tl, rfl⟩ := cons_of h.toForest
  have hb := h.rep 1
  rw [h1] at hb
  have hnot : pshift + 1 ∉ pshift :: tl := by
    intro hm
    have : decide (pshift + 1 ∈ pshift :: tl) = true := by simpa using hm
    rw [← hb] at this
    exact Bool.false_ne_true this
  have hasc := h.asc
  rw [List.pairwise_cons] at hasc
  refine List.pairwise_cons.mpr ⟨fun x hx => ?_, by simpa using h.gap⟩
  have h2 := hasc.1 x hx
  have h3 : x ≠ pshift + 1 := fun hx' => hnot (by rw [← hx']; exact List.mem_cons_of_mem _ hx)
  omega

/-- `(p[0] & 3) != 3`: the smallest tree has no neighbour of the next order, and its order is not 0 -/
theorem of_not_bit1 (h : Forest os p pshift head) (h1 : p.bit 1 = false) : pshift ≠ 0 ∧ pshift + 1 ∉ os := by
  rw [h.rep] at h1
  simp only [decide_eq_false_iff_not] at h1
  refine ⟨fun h0 => ?_, h1⟩
  have := h.zero h0
  subst h0
  exact h1 (by simpa using this)

/-- a new tree of one element, of order `q` = 0 (when `pshift = 1`) or 1 (when `pshift ≥ 2`) -/
theorem single {e : Env α} {n K G : Nat} (C : Ctx e n K G) (h : Shape os p pshift head) (hh : head < n) (h1 : p.bit 1 = false)
    (q : Nat) (hq : q ≤ 1) (hqp : q < pshift) (hq0 : q = 0 → pshift = 1) :
    Shape (q :: os) ⟨(shl p (pshift - q)).lo ||| 1, (shl p (pshift - q)).hi⟩ q (head + 1) := by
  obtain ⟨hp0, hnot⟩ := of_not_bit1 h.toForest h1
  obtain ⟨tl, rfl⟩ := cons_of h.toForest
  have hK95 := C.K95
  have hpK := h.toForest.le_K C hh (o := pshift) (by simp)
  have hasc := h.asc
  rw [List.pairwise_cons] at hasc
  have hlq : leo q = 1 := by
    have : q = 0 ∨ q = 1 := by omega
    rcases this with rfl | rfl <;> simp [leo]
  refine ⟨⟨by simp, List.pairwise_cons.mpr ⟨fun x hx => by have := h.toForest.pshift_le hx; omega, h.asc⟩, ?_, ?_, ?_⟩, ?_⟩
  · intro i
    rw [or1_bit, shl_bit p (by omega) (by omega), h.rep, Bool.eq_iff_iff]
    simp only [Bool.or_eq_true, Bool.and_eq_true, decide_eq_true_eq]
    constructor
    · rintro (h' | ⟨⟨h1', h2'⟩, h'⟩)
      · subst h'; simp
      · have : pshift + (i - (pshift - q)) = q + i := by omega
        rw [this] at h'
        exact List.mem_cons_of_mem _ h'
    · intro h'
      rcases List.mem_cons.mp h' with h' | h'
      · left; omega
      · right
        have hle := h.toForest.pshift_le h'
        have hK := h.toForest.le_K C hh h'
        refine ⟨⟨by omega, by omega⟩, ?_⟩
        have : pshift + (i - (pshift - q)) = q + i := by omega
        rw [this]; exact h'
  · have := h.sum
    simp only [List.map_cons, List.sum_cons] at this ⊢
    omega
  · intro h0
    have := hq0 h0
    subst this
    simp
  · simp only [List.tail_cons]
    refine List.pairwise_cons.mpr ⟨fun x hx => ?_, by simpa using h.gap⟩
    have h2 := hasc.1 x hx
    have h3 : x ≠ pshift + 1 := fun hx' => hnot (by rw [← hx']; exact List.mem_cons_of_mem _ hx)
    omega

end Shape

theorem sub_mapError_tot {x y : Nat} (h : y ≤ x) (f : Fault → Fault) :
    Tot ((sub x y).mapError f) (fun r => r = x - y) := by
  unfold sub; simp only [h, if_true]; exact ⟨_, rfl, rfl⟩

/-- one round of the main loop: returns, and the shape holds again one element further -/
theorem mainStep_safe (e : Env α) {n K G : Nat} (C : Ctx e n K G) (k : Nat) (s : St α) (os : List Nat) (head : Nat) (p : PV)
    (pshift : Nat) (hs : s.a.size = n) (hh : head + 1 < n) (hS : Shape os p pshift head) :
    Tot (mainStep e k s head p pshift) (fun r => r.1.a.size = n ∧ ∃ os', Shape os' r.2.1 r.2.2 (head + 1)) := by
  unfold mainStep
  have hK95 := C.K95
  have hpK := hS.toForest.le_K C (by omega : head < n) hS.toForest.mem_pshift
  have hsift : Tot (sift e s head pshift) (fun r => r.a.size = n) :=
    sift_safe e s n head pshift hs (by omega) hS.toForest.fits (C.lp.mono hpK) (by omega)
  refine Tot.bind (fun r => r.1.a.size = n ∧ ∃ os', Shape os' ⟨r.2.1.lo ||| 1, r.2.1.hi⟩ r.2.2 (head + 1)) ?_
    (fun ⟨s1, p1, ps1⟩ h1 => Tot.pure h1)
  refine Tot.ite (fun h3 => ?_) (fun h3 => ?_)
  · rw [and3_iff] at h3
    refine Tot.bind _ hsift (fun s1 h1 => Tot.pure ⟨h1, hS.merge h3.2⟩)
  · have hb1 : p.bit 1 = false := by
      rw [and3_iff] at h3
      have := hS.toForest.bit0
      cases hb : p.bit 1 with
      | false => rfl
      | true => exact absurd ⟨this, hb⟩ h3
    obtain ⟨hp0, _⟩ := Shape.of_not_bit1 hS.toForest hb1
    refine Tot.bind _ (sub_mapError_tot (by omega) _) (fun i hi => ?_)
    subst hi
    refine Tot.bind _ (lpAt_tot C.lp (by omega)) (fun l _ => ?_)
    have hjp : ∀ s1 : St α, s1.a.size = n →
        Tot (if pshift = 1 then pure (s1, shl p 1, 0) else pure (s1, shl p (pshift - 1), 1) : M (St α × PV × Nat))
          (fun r => r.1.a.size = n ∧ ∃ os', Shape os' ⟨r.2.1.lo ||| 1, r.2.1.hi⟩ r.2.2 (head + 1)) := by
      intro s1 h1
      refine Tot.ite (fun hp1 => ?_) (fun hp1 => ?_)
      · subst hp1
        exact Tot.pure ⟨h1, _, hS.single C (by omega) hb1 0 (by omega) (by omega) (fun _ => rfl)⟩
      · exact Tot.pure ⟨h1, _, hS.single C (by omega) hb1 1 (by omega) (by omega) (fun h => by omega)⟩
    dsimp only
    exact Tot.ite (fun _ => Tot.bind _ (trinkle_safe e C s os head p pshift false hs (by omega) hS.toForest) hjp)
      (fun _ => Tot.bind _ hsift hjp)

theorem mainLoop_safe (e : Env α) {n K G : Nat} (C : Ctx e n K G) : ∀ (k : Nat) (s : St α) (os : List Nat) (head : Nat) (p : PV)
    (pshift : Nat), s.a.size = n → head + k < n → Shape os p pshift head →
    Tot (mainLoop e k s head p pshift) (fun r => r.1.a.size = n ∧ ∃ os', Shape os' r.2.1 r.2.2 (head + k)) := by
  intro k
  induction k with
  | zero =>
    intro s os head p pshift hs _ hS
    unfold mainLoop
    exact Tot.ok ⟨hs, os, hS⟩
  | succ k ih =>
    intro s os head p pshift hs hh hS
    unfold mainLoop
    refine Tot.bind _ (mainStep_safe e C k s os head p pshift hs (by omega) hS) (fun ⟨s1, p1, ps1⟩ h1 => ?_)
    obtain ⟨hs1, os1, hS1⟩ := h1
    obtain ⟨r, hr, q1, os2, q2⟩ := ih s1 os1 (head + 1) p1 ps1 hs1 (by omega) hS1
    exact ⟨r, hr, q1, os2, by have : head + 1 + k = head + (k + 1) := by omega
                              rw [← this]; exact q2⟩


/-! ## the dismantling loop -/

namespace Shape
variable {os : List Nat} {p : PV} {pshift head : Nat}

/-- not finished and the smallest tree is a single element: there is a second tree -/
theorem two_of_small (h : Shape os p pshift head) (hp : pshift ≤ 1) (hne : ¬(pshift = 1 ∧ p = PV.one)) :
    ∃ o1 rest, os = pshift :: o1 :: rest := by
  obtain ⟨tl, rfl⟩ := cons_of h.toForest
  cases tl with
  | cons o1 rest => exact ⟨o1, rest, rfl⟩
  | nil =>
    exfalso
    have h1 := h.toForest.single
    have : pshift = 0 := by
      have : pshift ≠ 1 := fun h' => hne ⟨h', h1⟩
      omega
    have := h.zero this
    simp at this
    omega

/-- removing the smallest tree -/
theorem drop {e : Env α} {n K G : Nat} (C : Ctx e n K G) {o0 o1 : Nat} {rest : List Nat}
    (h : Shape (o0 :: o1 :: rest) p o0 head) (hh : head < n) :
    pntz e.fx p = o1 - o0 ∧ o0 < o1 ∧ leo o0 ≤ head ∧ Shape (o1 :: rest) (shr p (o1 - o0)) o1 (head - leo o0) := by
  obtain ⟨hlt, _, hpn, hle, _, hF⟩ := h.toForest.next C hh
  refine ⟨hpn, hlt, hle, hF, ?_⟩
  have := h.gap
  simp only [List.tail_cons] at this ⊢
  exact (List.pairwise_cons.mp this).2

/-- the smallest tree, of order `k + 2`, is split into its two subtrees (orders `k + 1` and `k`) -/
theorem split {e : Env α} {n K G : Nat} (C : Ctx e n K G) {k : Nat} {rest : List Nat}
    (h : Shape ((k + 2) :: rest) p (k + 2) head) (hh : head < n) :
    leo k + 1 ≤ head ∧
    Forest ((k + 1) :: rest) (shr ⟨(shl p 2).lo ^^^ 7, (shl p 2).hi⟩ 1) (k + 1) (head - leo k - 1) ∧
    Shape (k :: (k + 1) :: rest)
      ⟨(shl (shr ⟨(shl p 2).lo ^^^ 7, (shl p 2).hi⟩ 1) 1).lo ||| 1, (shl (shr ⟨(shl p 2).lo ^^^ 7, (shl p 2).hi⟩ 1) 1).hi⟩
      k (head - 1) := by
  have hK95 := C.K95
  have hasc := h.asc
  rw [List.pairwise_cons] at hasc
  have hsum := h.sum
  simp only [List.map_cons, List.sum_cons] at hsum
  have hleo := leo_succ_succ k
  have q0 := leo_pos k
  have q1 := leo_pos (k + 1)
  have hK : ∀ x ∈ rest, x ≤ K := fun x hx => h.toForest.le_K C hh (List.mem_cons_of_mem _ hx)
  have hrep1 : Rep (shr ⟨(shl p 2).lo ^^^ 7, (shl p 2).hi⟩ 1) (k + 1) ((k + 1) :: rest) := by
    intro i
    rw [shr_bit _ (by omega) (by omega), xor7_bit, shl_bit p (by omega) (by omega), h.rep]
    have hnot : k + 2 ∉ rest := fun hm => by have := hasc.1 _ hm; omega
    by_cases hi0 : i = 0
    · subst hi0; simp
    · by_cases hi1 : i = 1
      · subst hi1
        simp [hnot]
      · have e1 : k + 2 + (i + 1 - 2) = k + 1 + i := by omega
        rw [e1]
        have e2 : decide (i + 1 < 3) = false := by simp; omega
        rw [e2, Bool.xor_false, Bool.eq_iff_iff]
        simp only [Bool.and_eq_true, decide_eq_true_eq, List.mem_cons]
        constructor
        · rintro ⟨_, h' | h'⟩
          · omega
          · exact Or.inr h'
        · rintro (h' | h')
          · omega
          · have := hK _ h'
            exact ⟨⟨by omega, by omega⟩, Or.inr h'⟩
  have hF1 : Forest ((k + 1) :: rest) (shr ⟨(shl p 2).lo ^^^ 7, (shl p 2).hi⟩ 1) (k + 1) (head - leo k - 1) := by
    refine ⟨by simp, List.pairwise_cons.mpr ⟨fun x hx => by have := hasc.1 x hx; omega, hasc.2⟩, hrep1, ?_, by omega⟩
    simp only [List.map_cons, List.sum_cons]
    omega
  refine ⟨by omega, hF1, ⟨⟨by simp, ?_, ?_, ?_, ?_⟩, ?_⟩⟩
  · refine List.pairwise_cons.mpr ⟨fun x hx => ?_, hF1.asc⟩
    rcases List.mem_cons.mp hx with rfl | hx
    · omega
    · have := hasc.1 x hx; omega
  · intro i
    rw [or1_bit, shl_bit _ (by omega) (by omega), hrep1, Bool.eq_iff_iff]
    simp only [Bool.or_eq_true, Bool.and_eq_true, decide_eq_true_eq, List.mem_cons]
    constructor
    · rintro (h' | ⟨⟨h1', h2'⟩, h' | h'⟩)
      · left; omega
      · right; left; omega
      · right; right
        have : k + 1 + (i - 1) = k + i := by omega
        rw [← this]; exact h'
    · rintro (h' | h' | h')
      · left; omega
      · right; exact ⟨⟨by omega, by omega⟩, Or.inl (by omega)⟩
      · have h1' := hK _ h'
        have h2' := hasc.1 _ h'
        right
        refine ⟨⟨by omega, by omega⟩, Or.inr ?_⟩
        have : k + 1 + (i - 1) = k + i := by omega
        rw [this]; exact h'
  · simp only [List.map_cons, List.sum_cons]
    omega
  · intro h0; subst h0; simp
  · simp only [List.tail_cons]
    refine List.pairwise_cons.mpr ⟨fun x hx => by have := hasc.1 x hx; omega, by simpa using h.gap⟩

/-- `head = 0`: the forest is the single tree of order 1, i.e. the loop condition is false -/
theorem done_of_zero (h : Shape os p pshift 0) : pshift = 1 ∧ p = PV.one := by
  obtain ⟨tl, rfl⟩ := cons_of h.toForest
  have hsum := h.sum
  simp only [List.map_cons, List.sum_cons] at hsum
  have q0 := leo_pos pshift
  cases tl with
  | cons o1 rest =>
    simp only [List.map_cons, List.sum_cons] at hsum
    have := leo_pos o1
    omega
  | nil =>
    refine ⟨?_, h.toForest.single⟩
    simp at hsum
    have h2 : ¬ 2 ≤ pshift := by
      intro h2
      have := leo_mono h2
      have e : leo 2 = 3 := by decide
      omega
    have h0 : pshift ≠ 0 := by
      intro h0
      have := h.zero h0
      simp at this
      omega
    omega

end Shape

theorem dismantleStep_safe (e : Env α) {n K G : Nat} (C : Ctx e n K G) (s : St α) (os : List Nat) (head : Nat) (p : PV)
    (pshift : Nat) (hs : s.a.size = n) (hh : head < n) (hS : Shape os p pshift head) (hne : ¬(pshift = 1 ∧ p = PV.one)) :
    1 ≤ head ∧ Tot (dismantleStep e s head p pshift) (fun r => r.1.a.size = n ∧ ∃ os', Shape os' r.2.1 r.2.2 (head - 1)) := by
  unfold dismantleStep
  by_cases hp : pshift ≤ 1
  · obtain ⟨o1, rest, rfl⟩ := hS.two_of_small hp hne
    obtain ⟨hpn, hlt, hle, hS'⟩ := hS.drop C hh
    have hl1 : leo pshift = 1 := by
      have : pshift = 0 ∨ pshift = 1 := by omega
      rcases this with rfl | rfl <;> simp [leo]
    simp only [hp, if_true]
    refine ⟨by omega, Tot.ok ⟨hs, o1 :: rest, ?_⟩⟩
    show Shape (o1 :: rest) (shr p (pntz e.fx p)) (pshift + pntz e.fx p) (head - 1)
    rw [hpn]
    have e1 : pshift + (o1 - pshift) = o1 := by omega
    rw [e1, ← hl1]
    exact hS'
  · simp only [hp, if_false]
    obtain ⟨k, rfl⟩ : ∃ k, pshift = k + 2 := ⟨pshift - 2, by omega⟩
    obtain ⟨rest, rfl⟩ : ∃ rest, os = (k + 2) :: rest := Shape.cons_of hS.toForest
    obtain ⟨hle, hF1, hS2⟩ := hS.split C hh
    have hkK : k + 2 ≤ K := hS.toForest.le_K C hh (by simp)
    refine ⟨by omega, ?_⟩
    simp only [Nat.add_sub_cancel]
    refine Tot.bind _ (lpAt_tot C.lp (by omega)) (fun l hl => ?_)
    subst hl
    refine Tot.bind _ (sub_tot (by omega)) (fun h1 hh1 => ?_)
    subst hh1
    refine Tot.bind _ (sub_tot (by omega)) (fun h1 hh1 => ?_)
    subst hh1
    refine Tot.bind _ (trinkle_safe e C s _ _ _ _ true hs (by omega) hF1) (fun s1 hs1 => ?_)
    refine Tot.bind _ (sub_tot (by omega)) (fun h2 hh2 => ?_)
    subst hh2
    refine Tot.bind _ (trinkle_safe e C s1 _ _ _ _ true hs1 (by omega) hS2.toForest) (fun s2 hs2 => ?_)
    exact Tot.pure ⟨hs2, _, hS2⟩

theorem dismantle_safe (e : Env α) {n K G : Nat} (C : Ctx e n K G) : ∀ (head : Nat) (s : St α) (os : List Nat) (p : PV)
    (pshift : Nat), s.a.size = n → head < n → Shape os p pshift head →
    Tot (dismantle e head s p pshift) (fun r => r.a.size = n) := by
  intro head
  induction head with
  | zero =>
    intro s os p pshift hs _ hS
    unfold dismantle
    simp only [hS.done_of_zero, and_self, if_true]
    exact Tot.ok hs
  | succ hd ih =>
    intro s os p pshift hs hh hS
    unfold dismantle
    refine Tot.ite (fun _ => Tot.ok hs) (fun hne => ?_)
    obtain ⟨_, hstep⟩ := dismantleStep_safe e C s os (hd + 1) p pshift hs hh hS hne
    refine Tot.bind _ hstep (fun ⟨s1, p1, ps1⟩ h1 => ?_)
    obtain ⟨hs1, os1, hS1⟩ := h1
    exact ih s1 os1 p1 ps1 hs1 (by omega) hS1

/-- the initial state `head = 0`, `p = {1, 0}`, `pshift = 1`: one tree of order 1 -/
theorem Shape.init : Shape [1] PV.one 1 0 := by
  refine ⟨⟨rfl, by simp, ?_, by simp [leo], by omega⟩, by simp⟩
  intro i
  rw [(eq_one_iff PV.one).mp rfl i]
  apply decide_eq_decide.mpr
  simp

/-- the whole smoothsort on `n ≥ 1` elements: returns, all positions `< n` -/
theorem smooth_safe (e : Env α) {n K G : Nat} (C : Ctx e n K G) (s : St α) (hs : s.a.size = n) (hn : 0 < n) :
    Tot (smooth e s n) (fun r => r.a.size = n) := by
  unfold smooth
  refine Tot.bind _ (mainLoop_safe e C (n - 1) s [1] 0 PV.one 1 hs (by omega) Shape.init) (fun ⟨s1, p1, ps1⟩ h1 => ?_)
  obtain ⟨hs1, os1, hS1⟩ := h1
  simp only [Nat.zero_add] at hS1
  refine Tot.bind _ (trinkle_safe e C s1 os1 (n - 1) p1 ps1 false hs1 (by omega) hS1.toForest) (fun s2 hs2 => ?_)
  exact dismantle_safe e C (n - 1) s2 os1 p1 ps1 hs2 (by omega) hS1

end SafeC.Sort

import SafeC.Proofs.NormRange
/-! C17 — when does the NFD call succeed: a sufficient amount of room (the exact-fit finding is about the gap to "necessary") -/
namespace SafeC.Norm
open SafeC.Gen

attribute [local irreducible] cell UniCanon.main UniCanon.planes UniCanon.rows UniCombin.main UniCombin.planes UniCombin.rows
  UniCanon.tbl1 UniCanon.tbl2 UniCanon.tbl3 UniCanon.tbl4

theorem decompS_ne_err {dmax cp : Nat} (h : 5 ≤ dmax) : decompS dmax cp ≠ .err ESNOSPC := by
  unfold decompS
  have h4 : ¬ dmax < 4 := by omega
  have h5 : ¬ dmax < 5 := by omega
  repeat' split
  all_goals first
    | omega
    | (intro hh; cases hh; done)

/-- with five cells more than the decomposed text the decomposition pass succeeds -/
theorem decLoop_ok_of_room (orig : Nat) : ∀ (src : List Nat) (dmax : Nat), (∀ c ∈ src, c ≠ 0 ∧ c ≤ UniCompos.unicodeMax) →
    (src.flatMap decompose1).length + 5 ≤ dmax → ∃ d, decLoop orig src dmax = .ok (src.flatMap decompose1) d := by
  intro src
  induction src with
  | nil =>
    intro dmax _ h
    unfold decLoop
    have : ¬ dmax = 0 := by omega
    simp [this]
  | cons cp rest ih =>
    intro dmax hs h
    simp only [List.flatMap_cons, List.length_append] at h
    have hcp := hs cp (by simp)
    have hd0 : ¬ dmax = 0 := by omega
    have hmax : ¬ UniCompos.unicodeMax < cp := by omega
    obtain ⟨l, hl, hw, hroom⟩ := decompS_eq hcp.2 (decompS_ne_err (dmax := dmax) (by omega))
    obtain ⟨d, hd⟩ := ih (dmax - (decompose1 cp).length) (fun c hc => hs c (by simp [hc])) (by omega)
    unfold decLoop
    simp only [hd0, hmax, hcp.1, ↓reduceIte, hl]
    rw [hw, hd]
    exact ⟨d, by simp⟩

/-- **sufficient room**: `5 ≤ dmax ≤ RSIZE_MAX_WSTR` and five cells more than the NFD text ⇒ `wcsnorm_s(…NFD…)` returns EOK
(with `nfd_model`: and dest is the NFD).  The finding `wcsnorm-room-margin` is that one cell more (the terminator) does not suffice. -/
theorem wcsnormS_nfd_succeeds (fx : Fixes) (dmax : Nat) (src : List Nat) (hs : ∀ c ∈ src, c ≠ 0 ∧ c ≤ UniCompos.unicodeMax)
    (hmax : dmax ≤ RSIZE_MAX_WSTR) (hroom : (nfdPure src).length + 5 ≤ dmax) : (wcsnormS fx 0 dmax src).ret = 0 := by
  have hlen : (nfdPure src).length = (src.flatMap decompose1).length := by unfold nfdPure; exact reorderPure_length _ _
  rw [hlen] at hroom
  obtain ⟨d, hd⟩ := decLoop_ok_of_room dmax src dmax hs hroom
  have h0 : ∀ c ∈ src, c ≠ 0 := fun c hc => (hs c hc).1
  obtain ⟨n1, n2, n3⟩ := decLoop_spec dmax src dmax h0
  obtain ⟨e1, e2, e3, e4⟩ := n3 _ d hd
  have hdec : decomposeS dmax src false = ⟨0, dmax - d, src.flatMap decompose1, false, false⟩ := by
    unfold decomposeS
    have a1 : ¬ dmax = 0 := by omega
    have a2 : ¬ dmax < 5 := by omega
    have a3 : ¬ dmax > RSIZE_MAX_WSTR := by omega
    simp only [a1, a2, a3, ↓reduceIte, Bool.false_eq_true, hd, Res.ofStep]
  have hle := flatMap_decompose1_le (xs := src) (fun c hc => ⟨(hs c hc).2, (hs c hc).1⟩)
  have hst := reorderS_stage fx (src.flatMap decompose1) (dmax - d) (fun c hc => (hle c hc).1) (by omega)
  have hbig : ¬ (dmax - d + 2 > RSIZE_MAX_WSTR) := by omega
  unfold wcsnormS
  have h02 : ((0 : Nat) = 2) = False := by simp
  simp only [show (0 / 4 % 2 == 1) = false from rfl, hdec, Bool.or_self, Bool.false_eq_true, ne_eq, not_true_eq_false,
    decide_false, ↓reduceIte, h02, hst, hbig, true_or]

end SafeC.Norm

import SafeC.Lemmas
/-!
# `WW lo hi p Q`: every store of `p` lands in `[lo, hi)`, whatever the loads return

A Hoare-style judgement on `Prog` that IGNORES the values read (the continuation of a `load` must
satisfy it for every value): exactly the quantification C01 asks for — "for all contents of memory,
also of cells the function should not have read".  `Q` is a postcondition on the returned value, so
that addresses computed by one loop can bound the stores of the next.

`WW.sound`: on a memory where everything is mapped and `[lo, hi)` is writable, a `WW` program runs to
completion, records no stray write, and leaves every cell outside `[lo, hi)` unchanged.
-/
namespace SafeC

inductive WW (lo hi : Nat) : {α : Type} → Prog α → (α → Prop) → Prop where
  | ret {α} {Q : α → Prop} (x : α) : Q x → WW lo hi (.ret x) Q
  | load {α} {Q : α → Prop} (a : Nat) (k : Nat → Prog α) : (∀ v, WW lo hi (k v) Q) → WW lo hi (.load a k) Q
  | store {α} {Q : α → Prop} (a v : Nat) (k : Prog α) : lo ≤ a → a < hi → WW lo hi k Q → WW lo hi (.store a v k) Q
  | emit {α} {Q : α → Prop} (e : Event) (k : Prog α) : WW lo hi k Q → WW lo hi (.emit e k) Q

namespace WW

theorem pure {lo hi : Nat} {α} {Q : α → Prop} (x : α) (h : Q x) : WW lo hi (Pure.pure x : Prog α) Q := .ret x h

theorem bind {lo hi : Nat} {α β} {p : Prog α} {f : α → Prog β} {Q : α → Prop} {R : β → Prop}
    (hp : WW lo hi p Q) (hf : ∀ x, Q x → WW lo hi (f x) R) : WW lo hi (p >>= f) R := by
  show WW lo hi (p.bind f) R
  induction hp with
  | ret x hx => exact hf x hx
  | load a k _ ih => exact .load a _ (fun v => ih v hf)
  | store a v k h1 h2 _ ih => exact .store a v _ h1 h2 (ih hf)
  | emit e k _ ih => exact .emit e _ (ih hf)

theorem conseq {lo hi : Nat} {α} {p : Prog α} {Q Q' : α → Prop} (hp : WW lo hi p Q) (h : ∀ x, Q x → Q' x) :
    WW lo hi p Q' := by
  induction hp with
  | ret x hx => exact .ret x (h x hx)
  | load a k _ ih => exact .load a _ (fun v => ih v h)
  | store a v k h1 h2 _ ih => exact .store a v _ h1 h2 (ih h)
  | emit e k _ ih => exact .emit e _ (ih h)

theorem mono {lo hi lo' hi' : Nat} {α} {p : Prog α} {Q : α → Prop} (hp : WW lo hi p Q) (h1 : lo' ≤ lo) (h2 : hi ≤ hi') :
    WW lo' hi' p Q := by
  induction hp with
  | ret x hx => exact .ret x hx
  | load a k _ ih => exact .load a _ (fun v => ih v)
  | store a v k ha1 ha2 _ ih => exact .store a v _ (by omega) (by omega) ih
  | emit e k _ ih => exact .emit e _ ih

theorem loadP {lo hi : Nat} (a : Nat) : WW lo hi (SafeC.load a) (fun _ => True) := .load a _ (fun v => .ret v trivial)
theorem storeP {lo hi : Nat} (a v : Nat) (h1 : lo ≤ a) (h2 : a < hi) : WW lo hi (SafeC.store a v) (fun _ => True) :=
  .store a v _ h1 h2 (.ret () trivial)
theorem emitP {lo hi : Nat} (e : Event) : WW lo hi (SafeC.emit e) (fun _ => True) := .emit e _ (.ret () trivial)
theorem handlerS {lo hi : Nat} (c : Nat) : WW lo hi (SafeC.handlerS c) (fun _ => True) := emitP _
theorem handlerM {lo hi : Nat} (c : Nat) : WW lo hi (SafeC.handlerM c) (fun _ => True) := emitP _

theorem failS {lo hi : Nat} (c : Nat) : WW lo hi (SafeC.failS c) (fun _ => True) := by
  unfold SafeC.failS
  exact bind (handlerS c) (fun _ _ => pure _ trivial)

theorem memsetP {lo hi : Nat} (v n d : Nat) (h1 : lo ≤ d) (h2 : d + n ≤ hi) : WW lo hi (SafeC.memsetP v n d) (fun _ => True) := by
  induction n generalizing d with
  | zero => exact pure _ trivial
  | succ n ih =>
    unfold SafeC.memsetP
    exact bind (storeP d v h1 (by omega)) (fun _ _ => ih (d+1) (by omega) (by omega))

theorem zeroLoop {lo hi : Nat} (n d : Nat) (h1 : lo ≤ d) (h2 : d + n ≤ hi) : WW lo hi (SafeC.zeroLoop n d) (fun _ => True) := by
  rw [zeroLoop_eq_memsetP]; exact memsetP 0 n d h1 h2

theorem nullSlack {lo hi : Nat} (d n : Nat) (h1 : lo ≤ d) (h2 : d + n ≤ hi) : WW lo hi (SafeC.nullSlack d n) (fun _ => True) := by
  unfold SafeC.nullSlack
  split
  · exact memsetP 0 n d h1 h2
  · exact zeroLoop n d h1 h2

theorem handleError {lo hi : Nat} (cfg : Cfg) (d len code : Nat) (h1 : lo ≤ d) (h2 : d + len ≤ hi) (h3 : d < hi) :
    WW lo hi (SafeC.handleError cfg d len code) (fun _ => True) := by
  unfold SafeC.handleError
  dsimp only
  split
  · exact bind (memsetP 0 len d h1 h2) (fun _ _ => handlerS code)
  · exact bind (storeP d 0 h1 h3) (fun _ _ => handlerS code)

/-- **Soundness.** -/
theorem sound {lo hi : Nat} {α} {p : Prog α} {Q : α → Prop} (h : WW lo hi p Q) (st : St)
    (hall : ∀ a, st.mapped a = true) (hw : ∀ a, lo ≤ a → a < hi → st.wr a = true) :
    ∃ r st', exec p st = .ok (r, st') ∧ Q r ∧ st'.mapped = st.mapped ∧ st'.wr = st.wr ∧ st'.rd = st.rd ∧
      (∀ x ∈ st'.strays, x ∈ st.strays ∨ x.isWrite = false) ∧
      (∀ a, ¬ (lo ≤ a ∧ a < hi) → st'.data a = st.data a) := by
  induction h generalizing st with
  | ret x hx => exact ⟨x, st, rfl, hx, rfl, rfl, rfl, fun x hx => Or.inl hx, fun _ _ => rfl⟩
  | load a k _ ih =>
    have hm : (st.noteRd a).mapped = st.mapped := by simp only [St.noteRd]; split <;> rfl
    have hwr : (st.noteRd a).wr = st.wr := by simp only [St.noteRd]; split <;> rfl
    have hrd : (st.noteRd a).rd = st.rd := by simp only [St.noteRd]; split <;> rfl
    have hdata : (st.noteRd a).data = st.data := by simp only [St.noteRd]; split <;> rfl
    obtain ⟨r, st', he, hq, h1, h2, h3, h4, h5⟩ := ih (st.data a) (st.noteRd a) (by rw [hm]; exact hall) (by rw [hwr]; exact hw)
    refine ⟨r, st', by simp only [exec, hall a, if_true]; exact he, hq, h1.trans hm, h2.trans hwr, h3.trans hrd, ?_, ?_⟩
    · intro x hx
      rcases h4 x hx with h | h
      · simp only [St.noteRd] at h
        split at h
        · exact Or.inl h
        · simp only [St.stray, List.mem_append, List.mem_singleton] at h
          rcases h with h | h
          · exact Or.inl h
          · subst h; exact Or.inr rfl
      · exact Or.inr h
    · intro b hb; rw [h5 b hb, hdata]
  | store a v k h1 h2 _ ih =>
    have hwa : st.wr a = true := hw a h1 h2
    have e : st.noteWr a = st := by simp [St.noteWr, hwa]
    obtain ⟨r, st', he, hq, g1, g2, g3, g4, g5⟩ := ih (st.upd a v) (by simpa using hall) (by simpa using hw)
    refine ⟨r, st', by simp only [exec, hall a, if_true, e]; exact he, hq, by simpa using g1, by simpa using g2, by simpa using g3, ?_, ?_⟩
    · intro x hx; simpa using g4 x hx
    · intro b hb
      rw [g5 b hb]
      exact St.upd_data_ne _ _ _ _ (by intro hba; subst hba; exact hb ⟨h1, h2⟩)
  | emit e k _ ih =>
    obtain ⟨r, st', he, hq, g1, g2, g3, g4, g5⟩ := ih { st with events := st.events ++ [e] } hall hw
    exact ⟨r, st', by simp only [exec]; exact he, hq, g1, g2, g3, g4, g5⟩

end WW
end SafeC

import SafeC.Proofs.NormRange
/-!
# C17 — `composeLoop` (model of `wcsnorm_compose_s`, `iscontig = false`) computes the Canonical Composition Algorithm

Core Lean only (no Mathlib).  For ALL lists (any length), any class function `k` agreeing with the table lookups:

* `pcOf fx` — the tree's pair map (`_composite_cp` non-zero and not a composition exclusion).
* `composePure k pc` (`composeGo`) — the specification: streaming composition with the state (last starter, class of the last
  uncomposed character since it, the uncomposed characters since it); blocking rule literally the C's:
  `(k c ≠ 0 ∧ pre = k c) ∨ pre > k c`.
* `composeLoop_eq_pure`, `composeS_eq_pure` (`composeS_eq_pure_kcc`) — the model of the C loop returns `composePure` (generalised
  over the loop state: `composeLoop_go` with a starter, `composeLoop_lead` before the first starter).
* `composePure_length_le`, `composePure_of_no_pair` — never longer than the input; identity when no pair composes.
* `d117 k pc` — the standard's formulation (UAX #15 / Unicode Standard D117 with the blocking of D115), a left fold whose
  step seeks back for the last starter in the already processed sequence (`splitLastStarter`, characterised by
  `splitLastStarter_some_iff` / `splitLastStarter_none_iff`).
* `composePure_eq_d117` — on canonically ordered input (`CanonOrdered k xs`) and a pair map whose composites of starters are
  starters, `composePure k pc xs = d117 k pc xs`; `composeLoop_eq_d117` — the C loop against `d117` directly.
-/
namespace SafeC.Norm
open SafeC.Gen

attribute [local irreducible] cell UniCanon.main UniCanon.planes UniCanon.rows UniCombin.main UniCombin.planes UniCombin.rows
  UniCompos.main UniCompos.planes UniCompos.rows UniCompos.pairs UniCompos.excl UniCompos.listOff UniCompos.listLen

/-! ## Definitions -/

/-- the abstract pair map of the tree: `some c` iff `_composite_cp(a, b)` is a non-zero value that is not a composition
exclusion -/
def pcOf (fx : Fixes) (a b : Nat) : Option Nat :=
  let c := compositeCp fx a b
  if c ≠ 0 ∧ !isExcl c then some c else none

/-- the streaming Canonical Composition Algorithm once a starter has been seen: `s` = the current (last) starter,
`pre` = the class of the last character since `s` that was not composed (0 if none), `pend` = those characters.
`c` is blocked from `s` iff `(k c ≠ 0 ∧ pre = k c) ∨ pre > k c` (the C's rule, literally). -/
def composeGo (k : Nat → Nat) (pc : Nat → Nat → Option Nat) : List Nat → Nat → Nat → List Nat → List Nat
  | [], s, _, pend => s :: pend
  | c :: rest, s, pre, pend =>
    match (if (k c ≠ 0 ∧ pre = k c) ∨ pre > k c then none else pc s c) with
    | some p => composeGo k pc rest p pre pend
    | none =>
      if k c = 0 then s :: pend ++ composeGo k pc rest c 0 []
      else composeGo k pc rest s (k c) (pend ++ [c])

/-- the specification of the composition pass: leading non-starters are copied, then `composeGo` from the first starter -/
def composePure (k : Nat → Nat) (pc : Nat → Nat → Option Nat) : List Nat → List Nat
  | [] => []
  | c :: rest => if k c = 0 then composeGo k pc rest c 0 [] else c :: composePure k pc rest

/-! ## Goal C: lengths, identity without composable pair -/

theorem composeGo_length_le (k : Nat → Nat) (pc : Nat → Nat → Option Nat) :
    ∀ (xs : List Nat) (s pre : Nat) (pend : List Nat),
      (composeGo k pc xs s pre pend).length ≤ 1 + pend.length + xs.length := by
  intro xs
  induction xs with
  | nil => intro s pre pend; simp [composeGo]; omega
  | cons c rest ih =>
    intro s pre pend
    unfold composeGo
    split
    · have := ih ‹_› pre pend
      simp only [List.length_cons]; omega
    · split
      · have := ih c 0 []
        simp only [List.length_cons, List.length_append, List.length_nil] at this ⊢; omega
      · have := ih s (k c) (pend ++ [c])
        simp only [List.length_cons, List.length_append, List.length_nil] at this ⊢; omega

/-- the composition pass never lengthens -/
theorem composePure_length_le (k : Nat → Nat) (pc : Nat → Nat → Option Nat) (xs : List Nat) :
    (composePure k pc xs).length ≤ xs.length := by
  induction xs with
  | nil => simp [composePure]
  | cons c rest ih =>
    unfold composePure
    split
    · have := composeGo_length_le k pc rest c 0 []
      simp only [List.length_cons, List.length_nil] at this ⊢; omega
    · simp only [List.length_cons]; omega

theorem composeGo_of_no_pair {k : Nat → Nat} {pc : Nat → Nat → Option Nat} (h : ∀ a b, pc a b = none) :
    ∀ (xs : List Nat) (s pre : Nat) (pend : List Nat), composeGo k pc xs s pre pend = s :: pend ++ xs := by
  intro xs
  induction xs with
  | nil => intro s pre pend; simp [composeGo]
  | cons c rest ih =>
    intro s pre pend
    unfold composeGo
    simp only [h, ite_self]
    split
    · simp [ih]
    · simp [ih]

/-- without any composable pair the composition pass is the identity -/
theorem composePure_of_no_pair {k : Nat → Nat} {pc : Nat → Nat → Option Nat} (h : ∀ a b, pc a b = none) (xs : List Nat) :
    composePure k pc xs = xs := by
  induction xs with
  | nil => rfl
  | cons c rest ih =>
    unfold composePure
    split
    · simp [composeGo_of_no_pair h]
    · rw [ih]


/-! ## Goal A: the C loop refines the specification -/

theorem composeLoop_go (fx : Fixes) (k : Nat → Nat) :
    ∀ (src : List Nat) (cpS pre : Nat) (seq : List Nat) (dmax : Nat), src ≠ [] →
      (∀ c ∈ src, combinClass c = some (k c)) →
      (fx.rangeChk = true → ∀ c ∈ src, c ≤ UniCompos.unicodeMax) →
      1 + seq.length + src.length < dmax →
      composeLoop fx false src cpS true pre seq dmax
        = .ok (composeGo k (pcOf fx) src cpS pre seq) (dmax - (composeGo k (pcOf fx) src cpS pre seq).length) := by
  intro src
  induction src with
  | nil => intro _ _ _ _ h; exact absurd rfl h
  | cons c rest ih =>
    intro cpS pre seq dmax _ hk hr hd
    have hc := hk c (by simp)
    have hk' : ∀ c ∈ rest, combinClass c = some (k c) := fun x hx => hk x (by simp [hx])
    have hr' : fx.rangeChk = true → ∀ c ∈ rest, c ≤ UniCompos.unicodeMax :=
      fun h x hx => hr h x (by simp [hx])
    have hrng : (fx.rangeChk && decide (UniCompos.unicodeMax < c)) = false := by
      cases h : fx.rangeChk with
      | false => rfl
      | true => have := hr h c (by simp); simp; omega
    simp only [List.length_cons] at hd
    unfold composeLoop composeGo
    simp only [hrng, hc]
    simp only [Bool.not_true, Bool.false_eq_true, if_false, Bool.false_and, Bool.false_or, Bool.not_not]
    have hcomp : (if k c ≠ 0 ∧ pre = k c ∨ pre > k c then none else pcOf fx cpS c)
        = (if (if (k c != 0 && pre == k c || decide (pre > k c)) = true then 0 else compositeCp fx cpS c) ≠ 0 ∧
          (!isExcl (if (k c != 0 && pre == k c || decide (pre > k c)) = true then 0 else compositeCp fx cpS c)) = true
          then some (if (k c != 0 && pre == k c || decide (pre > k c)) = true then 0 else compositeCp fx cpS c) else none) := by
      by_cases hb : k c ≠ 0 ∧ pre = k c ∨ pre > k c
      · have hb' : (k c != 0 && pre == k c || decide (pre > k c)) = true := by simpa using hb
        simp [hb, hb']
      · have hb' : ¬ (k c != 0 && pre == k c || decide (pre > k c)) = true := by simpa using hb
        simp only [hb, hb', if_false, pcOf, Bool.false_eq_true]
    rw [hcomp]
    generalize (if (k c != 0 && pre == k c || decide (pre > k c)) = true then 0 else compositeCp fx cpS c) = v
    cases rest with
    | nil =>
      simp only [List.isEmpty_nil, Bool.not_true, Bool.false_eq_true, and_false, or_true, if_true, if_false,
        composeLoop, composeGo]
      simp only [List.length_nil, List.length_append, List.length_cons] at hd ⊢
      by_cases hv : v ≠ 0 ∧ (!isExcl v) = true
      · simp only [if_pos hv]
        rw [if_neg (by omega), if_neg (by omega), if_neg (by omega)]
        simp only [List.append_nil, List.length_cons]
        congr 1; omega
      · simp only [if_neg hv]
        rw [if_neg (by omega), if_neg (by omega), if_neg (by omega)]
        simp only [List.append_nil, List.length_cons, List.cons_append, ite_self, List.length_append, List.length_nil]
        congr 1; omega
    | cons r rs =>
      have hne : r :: rs ≠ [] := by simp
      simp only [List.isEmpty_cons, Bool.not_false, and_true, or_false, Bool.false_eq_true, if_true]
      by_cases hv : v ≠ 0 ∧ (!isExcl v) = true
      · simp only [if_pos hv]
        exact ih v pre seq dmax hne hk' hr' (by omega)
      · simp only [if_neg hv]
        by_cases hz : k c = 0
        · simp only [hz, ne_eq, not_true_eq_false, if_false, if_true]
          rw [if_neg (by omega), if_neg (by omega), if_neg (by omega)]
          rw [ih c 0 [] (dmax - 1 - seq.length) hne hk' hr' (by simp only [List.length_nil] at hd ⊢; omega)]
          simp only [List.length_cons, List.length_append, List.cons_append]
          congr 1; omega
        · simp only [hz, ne_eq, not_false_eq_true, if_false, if_true]
          exact ih cpS (k c) (seq ++ [c]) dmax hne hk' hr'
            (by simp only [List.length_append, List.length_cons, List.length_nil] at hd ⊢; omega)

/-- before the first starter: non-starters are copied -/
theorem composeLoop_lead (fx : Fixes) (k : Nat → Nat) :
    ∀ (src : List Nat) (cpS : Nat) (dmax : Nat),
      (∀ c ∈ src, combinClass c = some (k c)) →
      (fx.rangeChk = true → ∀ c ∈ src, c ≤ UniCompos.unicodeMax) →
      src.length < dmax →
      composeLoop fx false src cpS false 0 [] dmax
        = .ok (composePure k (pcOf fx) src) (dmax - (composePure k (pcOf fx) src).length) := by
  intro src
  induction src with
  | nil => intro _ _ _ _ _; simp [composeLoop, composePure]
  | cons c rest ih =>
    intro cpS dmax hk hr hd
    have hc := hk c (by simp)
    have hk' : ∀ c ∈ rest, combinClass c = some (k c) := fun x hx => hk x (by simp [hx])
    have hr' : fx.rangeChk = true → ∀ c ∈ rest, c ≤ UniCompos.unicodeMax :=
      fun h x hx => hr h x (by simp [hx])
    have hrng : (fx.rangeChk && decide (UniCompos.unicodeMax < c)) = false := by
      cases h : fx.rangeChk with
      | false => rfl
      | true => have := hr h c (by simp); simp; omega
    simp only [List.length_cons] at hd
    unfold composeLoop composePure
    simp only [hrng, hc]
    simp only [Bool.not_false, Bool.false_eq_true, if_false, if_true, List.length_nil]
    by_cases hz : k c = 0
    · simp only [hz, if_true]
      cases rest with
      | nil =>
        simp only [List.isEmpty_nil, Bool.not_true, Bool.false_eq_true, if_false, composeLoop, composeGo]
        rw [if_neg (by omega), if_neg (by omega), if_neg (by omega)]
        simp
      | cons r rs =>
        simp only [List.isEmpty_cons, Bool.not_false, if_true]
        exact composeLoop_go fx k (r :: rs) c 0 [] dmax (by simp) hk' hr'
          (by simp only [List.length_cons, List.length_nil] at hd ⊢; omega)
    · simp only [hz, if_false]
      rw [if_neg (by omega), if_neg (by omega)]
      rw [ih cpS (dmax - 1) hk' hr' (by omega)]
      simp only [List.length_cons]
      congr 1; omega

/-- **the compose pass of the C (non-contiguous mode) computes `composePure`**: with the class lookups in bounds and
room to spare, the loop returns the specification, which is never longer than the input -/
theorem composeLoop_eq_pure (fx : Fixes) (k : Nat → Nat) (src : List Nat) (dmax : Nat)
    (hk : ∀ c ∈ src, combinClass c = some (k c))
    (hr : fx.rangeChk = true → ∀ c ∈ src, c ≤ UniCompos.unicodeMax)
    (hd : src.length < dmax) :
    composeLoop fx false src 0 false 0 [] dmax
        = .ok (composePure k (pcOf fx) src) (dmax - (composePure k (pcOf fx) src).length) ∧
      (composePure k (pcOf fx) src).length ≤ src.length :=
  ⟨composeLoop_lead fx k src 0 dmax hk hr hd, composePure_length_le k (pcOf fx) src⟩

/-- `wcsnorm_compose_s` (iscontig = false) as a whole -/
theorem composeS_eq_pure (fx : Fixes) (k : Nat → Nat) (src : List Nat) (dmax : Nat)
    (hk : ∀ c ∈ src, combinClass c = some (k c))
    (hr : fx.rangeChk = true → ∀ c ∈ src, c ≤ UniCompos.unicodeMax)
    (hd : src.length < dmax) (hmax : dmax ≤ RSIZE_MAX_WSTR) :
    composeS fx dmax src false
      = ⟨0, (composePure k (pcOf fx) src).length, composePure k (pcOf fx) src, false, false⟩ := by
  have hlen := composePure_length_le k (pcOf fx) src
  unfold composeS
  rw [if_neg (by omega), composeLoop_lead fx k src 0 dmax hk hr hd]
  simp only [Res.ofStep, Res.mk.injEq, and_self, and_true, true_and]
  omega

/-! ## Goal B: `composePure` is the Canonical Composition Algorithm of the standard (D115, D117) -/

/-- R1 "seek back from C to find the last Starter L preceding C": `done = before ++ L :: mid` with `ccc(L) = 0` and no
starter in `mid` (`splitLastStarter_some_iff`); `none` iff there is no starter (`splitLastStarter_none_iff`) -/
def splitLastStarter (k : Nat → Nat) : List Nat → Option (List Nat × Nat × List Nat)
  | [] => none
  | x :: xs =>
    match splitLastStarter k xs with
    | some (b, L, m) => some (x :: b, L, m)
    | none => if k x = 0 then some ([], x, xs) else none

/-- R2 for the character `c` that follows the already processed sequence `done`.  D115: `c` is blocked from `L` iff some
`B` between `L` and `c` has `ccc(B) = 0` or `ccc(B) ≥ ccc(c)`. -/
def d117Step (k : Nat → Nat) (pc : Nat → Nat → Option Nat) (done : List Nat) (c : Nat) : List Nat :=
  match splitLastStarter k done with
  | none => done ++ [c]
  | some (before, L, mid) =>
    if ∃ b ∈ mid, k b = 0 ∨ k c ≤ k b then done ++ [c]
    else match pc L c with
      | some P => before ++ P :: mid
      | none => done ++ [c]

/-- D117, the Canonical Composition Algorithm: the characters are processed from left to right -/
def d117 (k : Nat → Nat) (pc : Nat → Nat → Option Nat) (xs : List Nat) : List Nat :=
  xs.foldl (d117Step k pc) []

theorem splitLastStarter_none {k : Nat → Nat} {l : List Nat} (h : ∀ x ∈ l, k x ≠ 0) : splitLastStarter k l = none := by
  induction l with
  | nil => rfl
  | cons x xs ih =>
    have := ih (fun y hy => h y (by simp [hy]))
    have hx := h x (by simp)
    simp [splitLastStarter, this, hx]

theorem splitLastStarter_append {k : Nat → Nat} (out : List Nat) {s : Nat} {pend : List Nat} (hs : k s = 0)
    (h : ∀ x ∈ pend, k x ≠ 0) : splitLastStarter k (out ++ s :: pend) = some (out, s, pend) := by
  induction out with
  | nil => simp [splitLastStarter, splitLastStarter_none h, hs]
  | cons x xs ih => simp [splitLastStarter, ih]

theorem splitLastStarter_none_mem {k : Nat → Nat} : ∀ (l : List Nat), splitLastStarter k l = none → ∀ y ∈ l, k y ≠ 0 := by
  intro l
  induction l with
  | nil => intro _ y hy; cases hy
  | cons z zs ihz =>
    intro hn y hy
    unfold splitLastStarter at hn
    cases hzs : splitLastStarter k zs with
    | some t => rw [hzs] at hn; cases hn
    | none =>
      rw [hzs] at hn
      by_cases hz : k z = 0
      · simp [hz] at hn
      · rcases List.mem_cons.1 hy with h | h
        · rw [h]; exact hz
        · exact ihz hzs y h

/-- `none` iff there is no starter at all -/
theorem splitLastStarter_none_iff {k : Nat → Nat} {l : List Nat} :
    splitLastStarter k l = none ↔ ∀ x ∈ l, k x ≠ 0 :=
  ⟨splitLastStarter_none_mem l, splitLastStarter_none⟩

theorem splitLastStarter_sound {k : Nat → Nat} : ∀ {l b : List Nat} {L : Nat} {m : List Nat},
    splitLastStarter k l = some (b, L, m) → l = b ++ L :: m ∧ k L = 0 ∧ ∀ x ∈ m, k x ≠ 0 := by
  intro l
  induction l with
  | nil => intro b L m h; simp [splitLastStarter] at h
  | cons x xs ih =>
    intro b L m h
    unfold splitLastStarter at h
    cases hxs : splitLastStarter k xs with
    | some t =>
      obtain ⟨b', L', m'⟩ := t
      rw [hxs] at h
      simp only [Option.some.injEq, Prod.mk.injEq] at h
      obtain ⟨h1, h2, h3⟩ := h
      have := ih hxs
      rw [← h1, ← h2, ← h3]
      refine ⟨by rw [this.1]; rfl, this.2.1, this.2.2⟩
    | none =>
      rw [hxs] at h
      by_cases hx : k x = 0
      · simp only [hx, if_true, Option.some.injEq, Prod.mk.injEq] at h
        obtain ⟨h1, h2, h3⟩ := h
        rw [← h1, ← h2, ← h3]
        exact ⟨rfl, hx, splitLastStarter_none_mem xs hxs⟩
      · simp [hx] at h

/-- `splitLastStarter` finds exactly the decomposition around the LAST starter -/
theorem splitLastStarter_some_iff {k : Nat → Nat} {l b : List Nat} {L : Nat} {m : List Nat} :
    splitLastStarter k l = some (b, L, m) ↔ l = b ++ L :: m ∧ k L = 0 ∧ ∀ x ∈ m, k x ≠ 0 :=
  ⟨splitLastStarter_sound, fun ⟨h1, h2, h3⟩ => by rw [h1]; exact splitLastStarter_append b h2 h3⟩

/-- canonical order, chain style with the class of the left neighbour: every character is a starter or has a class not
below its left neighbour's -/
def OrdFrom (k : Nat → Nat) : Nat → List Nat → Prop
  | _, [] => True
  | lo, c :: r => (k c = 0 ∨ lo ≤ k c) ∧ OrdFrom k (k c) r

theorem ordFrom_of_canonOrdered_cons {k : Nat → Nat} : ∀ (l : List Nat) (a : Nat), CanonOrdered k (a :: l) → OrdFrom k (k a) l := by
  intro l
  induction l with
  | nil => intro _ _; trivial
  | cons b l ih =>
    intro a h
    obtain ⟨h1, h2⟩ := (canonOrdered_cons_cons k a b l).1 h
    refine ⟨?_, ih b h2⟩
    unfold Reorderable at h1; omega

theorem ordFrom_of_canonOrdered {k : Nat → Nat} {l : List Nat} (h : CanonOrdered k l) : OrdFrom k 0 l := by
  cases l with
  | nil => trivial
  | cons a l => exact ⟨Or.inr (Nat.zero_le _), ordFrom_of_canonOrdered_cons l a h⟩

/-- the invariant: after the processed sequence `out ++ s :: pend` (`s` the last starter, `pend` its uncomposed marks with
non-decreasing classes, `pre` the last = largest of them) D117 continues as `composeGo` -/
theorem d117_go {k : Nat → Nat} {pc : Nat → Nat → Option Nat} (hpc : ∀ a b c, pc a b = some c → k a = 0 → k c = 0) :
    ∀ (rest out : List Nat) (s pre : Nat) (pend : List Nat) (lo : Nat), k s = 0 →
      (∀ b ∈ pend, k b ≠ 0 ∧ k b ≤ pre) → (pend = [] → pre = 0) → (pend ≠ [] → ∃ b ∈ pend, k b = pre) →
      pre ≤ lo → OrdFrom k lo rest →
      rest.foldl (d117Step k pc) (out ++ s :: pend) = out ++ composeGo k pc rest s pre pend := by
  intro rest
  induction rest with
  | nil => intro out s pre pend lo _ _ _ _ _ _; simp [composeGo]
  | cons c rest ih =>
    intro out s pre pend lo hs hpend hnil hex hlo hord
    obtain ⟨hc, hord'⟩ := hord
    have hblk : (∃ b ∈ pend, k b = 0 ∨ k c ≤ k b) ↔ ((k c ≠ 0 ∧ pre = k c) ∨ pre > k c) := by
      constructor
      · rintro ⟨b, hb, h⟩
        have := hpend b hb
        omega
      · intro h
        have hne : pend ≠ [] := by
          intro he; have := hnil he; omega
        obtain ⟨b, hb, hkb⟩ := hex hne
        exact ⟨b, hb, by omega⟩
    have hstep : d117Step k pc (out ++ s :: pend) c
        = if (k c ≠ 0 ∧ pre = k c) ∨ pre > k c then out ++ s :: pend ++ [c]
          else match pc s c with
            | some P => out ++ P :: pend
            | none => out ++ s :: pend ++ [c] := by
      unfold d117Step
      rw [splitLastStarter_append out hs (fun x hx => (hpend x hx).1)]
      simp only [hblk]
    -- the two continuations when `c` is not composed
    have hkeep : rest.foldl (d117Step k pc) (out ++ s :: pend ++ [c])
        = out ++ (if k c = 0 then s :: pend ++ composeGo k pc rest c 0 [] else composeGo k pc rest s (k c) (pend ++ [c])) := by
      by_cases hz : k c = 0
      · have := ih (out ++ s :: pend) c 0 [] 0 hz (by simp) (by simp) (by simp) (Nat.le_refl _) (hz ▸ hord')
        simp only [hz, if_true]
        simpa using this
      · have := ih out s (k c) (pend ++ [c]) (k c) hs
          (by
            intro b hb
            rcases List.mem_append.1 hb with h | h
            · have := hpend b h; omega
            · simp only [List.mem_singleton] at h; rw [h]; omega)
          (by simp) (fun _ => ⟨c, by simp, rfl⟩) (Nat.le_refl _) hord'
        simp only [hz, if_false]
        simpa using this
    rw [List.foldl_cons, hstep]
    unfold composeGo
    by_cases hb : (k c ≠ 0 ∧ pre = k c) ∨ pre > k c
    · simp only [if_pos hb]
      exact hkeep
    · simp only [if_neg hb]
      cases hp : pc s c with
      | none => exact hkeep
      | some p =>
        exact ih out p pre pend (k c) (hpc s c p hp hs) hpend hnil hex (by omega) hord'

/-- before the first starter nothing can compose -/
theorem d117_lead {k : Nat → Nat} {pc : Nat → Nat → Option Nat} (hpc : ∀ a b c, pc a b = some c → k a = 0 → k c = 0) :
    ∀ (rest out : List Nat) (lo : Nat), (∀ b ∈ out, k b ≠ 0) → OrdFrom k lo rest →
      rest.foldl (d117Step k pc) out = out ++ composePure k pc rest := by
  intro rest
  induction rest with
  | nil => intro out lo _ _; simp [composePure]
  | cons c rest ih =>
    intro out lo hout hord
    obtain ⟨_, hord'⟩ := hord
    have hstep : d117Step k pc out c = out ++ [c] := by
      unfold d117Step
      rw [splitLastStarter_none hout]
    rw [List.foldl_cons, hstep]
    unfold composePure
    by_cases hz : k c = 0
    · have := d117_go hpc rest out c 0 [] 0 hz (by simp) (by simp) (by simp) (Nat.le_refl _) (hz ▸ hord')
      simp only [hz, if_true]
      simpa using this
    · have := ih (out ++ [c]) (k c) (by
        intro b hb
        rcases List.mem_append.1 hb with h | h
        · exact hout b h
        · simp only [List.mem_singleton] at h; rw [h]; exact hz) hord'
      simp only [hz, if_false]
      simpa using this

/-- **`composePure` is the Canonical Composition Algorithm (D117 with the blocking of D115)** on canonically ordered
input, for any class function and any pair map whose composites of starters are starters -/
theorem composePure_eq_d117 {k : Nat → Nat} {pc : Nat → Nat → Option Nat}
    (hpc : ∀ a b c, pc a b = some c → k a = 0 → k c = 0) {xs : List Nat} (hxs : CanonOrdered k xs) :
    composePure k pc xs = d117 k pc xs := by
  unfold d117
  rw [d117_lead hpc xs [] 0 (by simp) (ordFrom_of_canonOrdered hxs)]
  rfl

/-- the C loop against the standard's formulation directly (the pair-map hypothesis `hpc` — a composite of a starter is a
starter — is a checkable fact about the tables; it is a hypothesis here) -/
theorem composeLoop_eq_d117 (fx : Fixes) (k : Nat → Nat) (src : List Nat) (dmax : Nat)
    (hk : ∀ c ∈ src, combinClass c = some (k c))
    (hr : fx.rangeChk = true → ∀ c ∈ src, c ≤ UniCompos.unicodeMax)
    (hd : src.length < dmax) (hord : CanonOrdered k src)
    (hpc : ∀ a b c, pcOf fx a b = some c → k a = 0 → k c = 0) :
    composeLoop fx false src 0 false 0 [] dmax
      = .ok (d117 k (pcOf fx) src) (dmax - (d117 k (pcOf fx) src).length) := by
  rw [← composePure_eq_d117 hpc hord]
  exact composeLoop_lead fx k src 0 dmax hk hr hd

/-! ## Congruence and closure properties of `d117` -/

theorem splitLastStarter_congr {k k' : Nat → Nat} {l : List Nat} (h : ∀ x ∈ l, k x = k' x) :
    splitLastStarter k l = splitLastStarter k' l := by
  induction l with
  | nil => rfl
  | cons x xs ih =>
    have ih := ih (fun y hy => h y (by simp [hy]))
    have hx := h x (by simp)
    simp only [splitLastStarter, ih, hx]

/-- where the cells of one step come from: the processed sequence, the new character, or a composite `pc L c` of a
processed character `L` with the new one -/
theorem d117Step_mem {k : Nat → Nat} {pc : Nat → Nat → Option Nat} {done : List Nat} {c y : Nat}
    (hy : y ∈ d117Step k pc done c) : y ∈ done ∨ y = c ∨ ∃ L ∈ done, pc L c = some y := by
  unfold d117Step at hy
  have happ : y ∈ done ++ [c] → y ∈ done ∨ y = c ∨ ∃ L ∈ done, pc L c = some y := by
    intro h
    rcases List.mem_append.1 h with h | h
    · exact Or.inl h
    · exact Or.inr (Or.inl (by simpa using h))
  cases hs : splitLastStarter k done with
  | none => rw [hs] at hy; exact happ hy
  | some t =>
    obtain ⟨before, L, mid⟩ := t
    rw [hs] at hy
    dsimp only at hy
    obtain ⟨e, _, _⟩ := splitLastStarter_sound hs
    split at hy
    · exact happ hy
    · cases hp : pc L c with
      | none => rw [hp] at hy; exact happ hy
      | some P =>
        rw [hp] at hy
        dsimp only at hy
        rcases List.mem_append.1 hy with h | h
        · exact Or.inl (by rw [e]; simp [h])
        · rcases List.mem_cons.1 h with h | h
          · exact Or.inr (Or.inr ⟨L, by rw [e]; simp, by rw [h]; exact hp⟩)
          · exact Or.inl (by rw [e]; simp [h])

theorem d117Step_closed {k : Nat → Nat} {pc : Nat → Nat → Option Nat} {S : Nat → Prop}
    (hS : ∀ a b c, S a → S b → pc a b = some c → S c) {done : List Nat} {c : Nat}
    (hdone : ∀ x ∈ done, S x) (hc : S c) : ∀ y ∈ d117Step k pc done c, S y := by
  intro y hy
  rcases d117Step_mem hy with h | h | ⟨L, hL, hp⟩
  · exact hdone y h
  · rw [h]; exact hc
  · exact hS L c y (hdone L hL) hc hp

theorem d117Step_length_le (k : Nat → Nat) (pc : Nat → Nat → Option Nat) (done : List Nat) (c : Nat) :
    (d117Step k pc done c).length ≤ done.length + 1 := by
  unfold d117Step
  cases hs : splitLastStarter k done with
  | none => simp
  | some t =>
    obtain ⟨before, L, mid⟩ := t
    dsimp only
    obtain ⟨e, _, _⟩ := splitLastStarter_sound hs
    split
    · simp
    · split
      · rw [e]; simp
      · simp

theorem d117Step_congr_k {k k' : Nat → Nat} {pc : Nat → Nat → Option Nat} {done : List Nat} {c : Nat}
    (hdone : ∀ x ∈ done, k x = k' x) (hc : k c = k' c) : d117Step k pc done c = d117Step k' pc done c := by
  unfold d117Step
  rw [← splitLastStarter_congr hdone]
  cases hs : splitLastStarter k done with
  | none => rfl
  | some t =>
    obtain ⟨before, L, mid⟩ := t
    dsimp only
    obtain ⟨e, _, _⟩ := splitLastStarter_sound hs
    have hmid : ∀ b ∈ mid, k b = k' b := fun b hb => hdone b (by rw [e]; simp [hb])
    have hblk : (∃ b ∈ mid, k b = 0 ∨ k c ≤ k b) ↔ (∃ b ∈ mid, k' b = 0 ∨ k' c ≤ k' b) := by
      constructor
      · rintro ⟨b, hb, h⟩; exact ⟨b, hb, by rw [← hmid b hb, ← hc]; exact h⟩
      · rintro ⟨b, hb, h⟩; exact ⟨b, hb, by rw [hmid b hb, hc]; exact h⟩
    simp only [hblk]

theorem d117Step_congr_pc {k : Nat → Nat} {pc pc' : Nat → Nat → Option Nat} {S : Nat → Prop}
    (hpc : ∀ a b, S a → S b → pc a b = pc' a b) {done : List Nat} {c : Nat}
    (hdone : ∀ x ∈ done, S x) (hc : S c) : d117Step k pc done c = d117Step k pc' done c := by
  unfold d117Step
  cases hs : splitLastStarter k done with
  | none => rfl
  | some t =>
    obtain ⟨before, L, mid⟩ := t
    dsimp only
    obtain ⟨e, _, _⟩ := splitLastStarter_sound hs
    rw [hpc L c (hdone L (by rw [e]; simp)) hc]

/-- the fold from any processed prefix -/
theorem d117_fold_closed {k : Nat → Nat} {pc : Nat → Nat → Option Nat} {S : Nat → Prop}
    (hS : ∀ a b c, S a → S b → pc a b = some c → S c) :
    ∀ (xs done : List Nat), (∀ x ∈ done, S x) → (∀ x ∈ xs, S x) → ∀ y ∈ xs.foldl (d117Step k pc) done, S y := by
  intro xs
  induction xs with
  | nil => intro done hdone _ y hy; exact hdone y hy
  | cons c rest ih =>
    intro done hdone hxs
    rw [List.foldl_cons]
    exact ih _ (d117Step_closed hS hdone (hxs c (by simp))) (fun x hx => hxs x (by simp [hx]))

theorem d117_fold_length_le (k : Nat → Nat) (pc : Nat → Nat → Option Nat) :
    ∀ (xs done : List Nat), (xs.foldl (d117Step k pc) done).length ≤ done.length + xs.length := by
  intro xs
  induction xs with
  | nil => intro done; simp
  | cons c rest ih =>
    intro done
    rw [List.foldl_cons]
    have h1 := ih (d117Step k pc done c)
    have h2 := d117Step_length_le k pc done c
    simp only [List.length_cons]; omega

theorem d117_fold_congr_k {k k' : Nat → Nat} {pc : Nat → Nat → Option Nat}
    (hpc : ∀ a b c, pc a b = some c → k c = k' c) :
    ∀ (xs done : List Nat), (∀ x ∈ done, k x = k' x) → (∀ x ∈ xs, k x = k' x) →
      xs.foldl (d117Step k pc) done = xs.foldl (d117Step k' pc) done := by
  intro xs
  induction xs with
  | nil => intro _ _ _; rfl
  | cons c rest ih =>
    intro done hdone hxs
    have hc := hxs c (by simp)
    rw [List.foldl_cons, List.foldl_cons, ← d117Step_congr_k hdone hc]
    exact ih _ (d117Step_closed (S := fun x => k x = k' x) (fun a b c _ _ h => hpc a b c h) hdone hc)
      (fun x hx => hxs x (by simp [hx]))

theorem d117_fold_congr_pc {k : Nat → Nat} {pc pc' : Nat → Nat → Option Nat} {S : Nat → Prop}
    (hS : ∀ a b c, S a → S b → pc a b = some c → S c) (hpc : ∀ a b, S a → S b → pc a b = pc' a b) :
    ∀ (xs done : List Nat), (∀ x ∈ done, S x) → (∀ x ∈ xs, S x) →
      xs.foldl (d117Step k pc) done = xs.foldl (d117Step k pc') done := by
  intro xs
  induction xs with
  | nil => intro _ _ _; rfl
  | cons c rest ih =>
    intro done hdone hxs
    have hc := hxs c (by simp)
    rw [List.foldl_cons, List.foldl_cons, ← d117Step_congr_pc hpc hdone hc]
    exact ih _ (d117Step_closed hS hdone hc) (fun x hx => hxs x (by simp [hx]))

/-- `d117` only looks at the classes of the input characters and of the composites -/
theorem d117_congr_k {k k' : Nat → Nat} {pc : Nat → Nat → Option Nat} {xs : List Nat}
    (hxs : ∀ x ∈ xs, k x = k' x) (hpc : ∀ a b c, pc a b = some c → k c = k' c) :
    d117 k pc xs = d117 k' pc xs :=
  d117_fold_congr_k hpc xs [] (by simp) hxs

/-- `d117` only looks at the pair map on a set `S` that contains the input and is closed under composition -/
theorem d117_congr_pc {k : Nat → Nat} {pc pc' : Nat → Nat → Option Nat} {S : Nat → Prop} {xs : List Nat}
    (hxs : ∀ x ∈ xs, S x) (hS : ∀ a b c, S a → S b → pc a b = some c → S c)
    (hpc : ∀ a b, S a → S b → pc a b = pc' a b) :
    d117 k pc xs = d117 k pc' xs :=
  d117_fold_congr_pc hS hpc xs [] (by simp) hxs

theorem d117_mem_closed {k : Nat → Nat} {pc : Nat → Nat → Option Nat} {S : Nat → Prop} {xs : List Nat}
    (hxs : ∀ x ∈ xs, S x) (hS : ∀ a b c, S a → S b → pc a b = some c → S c) :
    ∀ y ∈ d117 k pc xs, S y :=
  d117_fold_closed hS xs [] (by simp) hxs

theorem d117_length_le (k : Nat → Nat) (pc : Nat → Nat → Option Nat) (xs : List Nat) :
    (d117 k pc xs).length ≤ xs.length := by
  have := d117_fold_length_le k pc xs []
  simpa [d117] using this

/-! ## Sanity checks (toy class function: class = tens digit; toy pair map) -/

/-- 1+21 → 2, 2+31 → 3, 1+5 → 6 -/
def toyPc (a b : Nat) : Option Nat :=
  if a = 1 ∧ b = 21 then some 2 else if a = 2 ∧ b = 31 then some 3 else if a = 1 ∧ b = 5 then some 6 else none

example : composePure (· / 10) toyPc [11, 1, 12, 21, 22, 31, 5, 1, 5, 1, 21, 5] = [11, 3, 12, 22, 5, 6, 2, 5] := by decide
example : d117 (· / 10) toyPc [11, 1, 12, 21, 22, 31, 5, 1, 5, 1, 21, 5] = [11, 3, 12, 22, 5, 6, 2, 5] := by decide
-- not blocked by a mark of lower class; blocked by a mark of equal class; a starter after an uncomposed mark is blocked
example : composePure (· / 10) toyPc [2, 22, 31] = [3, 22] ∧ composePure (· / 10) toyPc [1, 21, 31] = [3] ∧
    composePure (· / 10) toyPc [2, 32, 31] = [2, 32, 31] ∧ composePure (· / 10) toyPc [1, 12, 5] = [1, 12, 5] := by decide
example : d117 (· / 10) toyPc [2, 22, 31] = [3, 22] ∧ d117 (· / 10) toyPc [1, 21, 31] = [3] ∧
    d117 (· / 10) toyPc [2, 32, 31] = [2, 32, 31] ∧ d117 (· / 10) toyPc [1, 12, 5] = [1, 12, 5] := by decide
example : splitLastStarter (· / 10) [11, 1, 12, 2, 21, 22] = some ([11, 1, 12], 2, [21, 22]) := by decide

/-- … with the tree's own class function, on cells that are code points -/
theorem composeS_eq_pure_kcc (fx : Fixes) (src : List Nat) (dmax : Nat)
    (hle : ∀ c ∈ src, c ≤ UniCompos.unicodeMax) (hd : src.length < dmax) (hmax : dmax ≤ RSIZE_MAX_WSTR) :
    composeS fx dmax src false
      = ⟨0, (composePure kcc (pcOf fx) src).length, composePure kcc (pcOf fx) src, false, false⟩ :=
  composeS_eq_pure fx kcc src dmax (fun c hc => kcc_spec (hle c hc)) (fun _ => hle) hd hmax

#print axioms composeLoop_eq_pure
#print axioms composeS_eq_pure_kcc
#print axioms composeS_eq_pure
#print axioms composePure_length_le
#print axioms composePure_of_no_pair
#print axioms composePure_eq_d117
#print axioms composeLoop_eq_d117
#print axioms splitLastStarter_some_iff
#print axioms splitLastStarter_none_iff
#print axioms d117_congr_k
#print axioms d117_congr_pc
#print axioms d117_mem_closed
#print axioms d117_length_le

end SafeC.Norm

import SafeC.Proofs.NormUCD
import SafeC.Proofs.NormTables2
/-! C17 — the kernel-checked table facts as universally quantified statements -/
namespace SafeC.Norm
open SafeC.Gen

attribute [local irreducible] cell UniCanon.main UniCanon.planes UniCanon.rows UniCombin.main UniCombin.planes UniCombin.rows

theorem assigned_lt {c : Nat} (h : UCD.assigned c = true) : c < 0x110000 := by
  unfold UCD.assigned at h
  split at h
  · assumption
  · cases h

/-- **combining classes: the tree's table = UCD 14.0 on every assigned code point** -/
theorem ccc_matches_ucd {c : Nat} (h : UCD.assigned c = true) : combinClass c = some (UCD.ccc c) := by
  have hc := assigned_lt h
  by_cases hb : cccBlock (c / 256) = true
  · have := allBlocks_spec ccc_check hc hb
    simpa [cccOk, h] using this
  · -- no page on either side
    unfold cccBlock at hb
    simp only [Bool.or_eq_true, bne_iff_ne, ne_eq, not_or, Decidable.not_not] at hb
    obtain ⟨h1, h2⟩ := hb
    unfold combinClass
    rw [rowId_block, h1]
    unfold UCD.ccc
    simp [hc, h2]

theorem isS_iff (c : Nat) : isS c = UCD.isHangulS c := by
  unfold isS UCD.isHangulS UCD.SBase UCD.SCount
  have h1 : UniCompos.HSBase = 0xAC00 := by decide
  have h2 : UniCompos.HSFinal = 0xD7A3 := by decide
  rw [h1, h2]
  by_cases a : 0xAC00 ≤ c <;> by_cases b : c ≤ 0xD7A3 <;> simp [a, b] <;> omega

theorem decompHangul_eq (c : Nat) : decompHangul c = UCD.hangulDecomp c := by
  unfold decompHangul UCD.hangulDecomp UCD.SBase UCD.LBase UCD.VBase UCD.TBase UCD.NCount UCD.TCount
  have h1 : UniCompos.HSBase = 0xAC00 := by decide
  have h2 : UniCompos.HNCount = 588 := by decide
  have h3 : UniCompos.HTCount = 28 := by decide
  have h4 : UniCompos.HLBase = 0x1100 := by decide
  have h5 : UniCompos.HVBase = 0x1161 := by decide
  have h6 : UniCompos.HTBase = 0x11A7 := by decide
  rw [h1, h2, h3, h4, h5, h6]
  by_cases ht : (c - 0xAC00) % 28 = 0
  · simp [ht]
  · have : ¬ (0x11A7 + (c - 0xAC00) % 28 = 0x11A7) := by omega
    simp [ht, this]

theorem decompose1_of_S {c : Nat} (h : isS c = true) : decompose1 c = UCD.fullDecomp 4 c := by
  unfold decompose1 UCD.fullDecomp
  rw [← isS_iff]
  simp [h, decompHangul_eq]

theorem dmOk_of_boring {c : Nat} (hc : c < 0x110000) (hb : ¬ dmBlock (c / 256) = true) (hs : isS c = false) :
    decompose1 c = [c] ∧ UCD.fullDecomp 4 c = [c] := by
  unfold dmBlock at hb
  simp only [Bool.or_eq_true, bne_iff_ne, ne_eq, not_or, Decidable.not_not] at hb
  obtain ⟨h1, h2⟩ := hb
  constructor
  · unfold decompose1 decompCanon canonVi
    rw [rowId_block, h1]
    simp [hs]
  · unfold UCD.fullDecomp
    rw [← isS_iff, hs]
    unfold UCD.dm
    simp [hc, h2]

/-- **canonical decompositions: the tree's stored full decomposition = the recursive expansion of UCD 14.0's single-step
mappings (D68), on every assigned code point except U+037E** -/
theorem decomp_matches_ucd_partial {c : Nat} (h : UCD.assigned c = true) (h37e : c ≠ 0x37E) :
    decompose1 c = UCD.fullDecomp 4 c := by
  have hc := assigned_lt h
  by_cases hs : isS c = true
  · exact decompose1_of_S hs
  · simp only [Bool.not_eq_true] at hs
    by_cases hb : dmBlock (c / 256) = true
    · have := allBlocks_spec dm_check hc hb
      simp only [dmOk, h, hs, Bool.not_true, Bool.false_or, Bool.and_eq_true, Bool.or_eq_true, beq_iff_eq] at this
      rcases this.1 with h' | h'
      · exact absurd h' h37e
      · exact h'
    · have := dmOk_of_boring hc hb hs
      rw [this.1, this.2]

/-- the expansion is complete (nothing in it decomposes further) and stays inside the assigned set -/
theorem fullDecomp_fixed {c d : Nat} (hc : c < 0x110000) (hd : d ∈ UCD.fullDecomp 4 c) (hs : isS c = false) :
    UCD.dm d = none ∧ UCD.isHangulS d = false ∧ (UCD.assigned c = true → UCD.assigned d = true) := by
  by_cases hb : dmBlock (c / 256) = true
  · have := allBlocks_spec dm_check hc hb
    simp only [dmOk, hs, Bool.false_or, Bool.and_eq_true, List.all_eq_true, Bool.or_eq_true, Bool.not_eq_eq_eq_not,
      Bool.not_true, Option.isNone_iff_eq_none] at this
    have h2 := this.2 d hd
    refine ⟨h2.1.1, h2.1.2, ?_⟩
    intro ha
    rcases h2.2 with h' | h'
    · rw [ha] at h'; cases h'
    · exact h'
  · have h0 := (dmOk_of_boring hc hb hs).2
    rw [h0] at hd
    simp only [List.mem_singleton] at hd
    subst hd
    refine ⟨?_, ?_, fun h => h⟩
    · unfold dmBlock at hb
      simp only [Bool.or_eq_true, bne_iff_ne, ne_eq, not_or, Decidable.not_not] at hb
      unfold UCD.dm
      simp [hc, hb.2]
    · rw [← isS_iff]; exact hs

end SafeC.Norm

import SafeC.Proofs.FmtGram
/-!
# The `%n` pre-scan against the format grammars (C09)

`look p fmt` is the pre-scan with the character in front of the format made explicit, so that it can be followed
through a format piece by piece (`look_skip`, `look_pct`, `look_pct_n`, `look_walk`); `prescan fmt = look 'x' fmt`.

* `look_sound` / `slook_sound`: a grammatical format the scanner rejects contains an `n` conversion
  (scanf: provided no scan set has `%` as a member);
* `prescan_of_infix`: the scanner rejects whenever the characters `%n` occur and `%%n` does not;
* `PRej`, `prescan_iff_PRej`: the exact set of grammatical printf formats the scanner rejects.
-/
namespace SafeC.Fmt.Gram
open SafeC.Fmt

/-- the pre-scan of a format that stands behind the character `p` -/
def look (p : Char) (fmt : Str) : Bool :=
  match strstrPctN fmt with
  | none => false
  | some i => (p :: fmt).getD i '\x00' != '%'

theorem prescan_eq_look (fmt : Str) {p : Char} (hp : p ≠ '%') : prescan fmt = look p fmt := by
  unfold prescan look
  cases strstrPctN fmt with
  | none => rfl
  | some i =>
    cases i with
    | zero => simp [hp]
    | succ j => simp

theorem look_nil (p : Char) : look p [] = false := rfl

theorem look_pct_n (p : Char) (r : Str) : look p ('%' :: 'n' :: r) = (p != '%') := by
  simp [look, strstrPctN]

theorem look_step (p c : Char) (r : Str) (h : ¬ (c = '%' ∧ r.head? = some 'n')) : look p (c :: r) = look c r := by
  unfold look
  rw [strstrPctN, if_neg h]
  cases strstrPctN r with
  | none => rfl
  | some i => simp

theorem look_skip (p : Char) {c : Char} (r : Str) (h : c ≠ '%') : look p (c :: r) = look c r :=
  look_step p c r (fun hh => h hh.1)

theorem look_pct (p : Char) {r : Str} (h : r.head? ≠ some 'n') : look p ('%' :: r) = look '%' r :=
  look_step p '%' r (fun hh => h hh.2)

/-- through a stretch of characters other than `%` -/
theorem look_walk (p : Char) : ∀ (l : Str) (c : Char) (r : Str), (∀ x ∈ l, x ≠ '%') → c ≠ '%' →
    look p (l ++ c :: r) = look c r := by
  intro l
  induction l generalizing p with
  | nil => intro c r _ hc; exact look_skip p r hc
  | cons a t ih =>
    intro c r hl hc
    have ha : a ≠ '%' := hl a (by simp)
    rw [List.cons_append, look_skip p _ ha]
    exact ih a c r (fun x hx => hl x (by simp [hx])) hc

/-- the character in front matters only for a format that begins with `%n` -/
theorem look_indep (p q : Char) : ∀ (f : Str), ¬ (∃ t, f = '%' :: 'n' :: t) → look p f = look q f := by
  intro f h
  cases f with
  | nil => rfl
  | cons c r =>
    have hs : ¬ (c = '%' ∧ r.head? = some 'n') := by
      intro ⟨h1, h2⟩
      obtain ⟨t, ht⟩ := List.head?_eq_some_iff.mp h2
      exact h ⟨t, by rw [h1, ht]⟩
    rw [look_step p c r hs, look_step q c r hs]

/-! ## printf: soundness on the grammar (FULL) -/

theorem decor_conv_head_n {d : Decor} (hd : d.ok = true) {c : Char} {r : Str}
    (h : (d.text ++ c :: r).head? = some 'n') : d.text = [] ∧ c = 'n' := by
  cases ht : d.text with
  | nil => rw [ht] at h; simpa using h
  | cons a t =>
    rw [ht] at h
    have ha : a = 'n' := by simpa using h
    exact absurd ha (decorChar_ne_n (decor_chars hd a (by rw [ht]; simp)))

/-- behind a directive the scanner goes on with the conversion character in front -/
theorem look_conv (p : Char) {d : Decor} (hd : d.ok = true) {c : Char} (hc : c ∈ convs) (r : Str)
    (hn : ¬ (d.text = [] ∧ c = 'n')) : look p ('%' :: (d.text ++ c :: r)) = look c r := by
  rw [look_pct p (fun h => hn (decor_conv_head_n hd h))]
  exact look_walk '%' d.text c r (fun x hx => decorChar_ne_pct (decor_chars hd x hx)) (conv_ne_pct hc)

theorem look_sound {f : Str} {b : Bool} (h : PParse f b) : ∀ p, look p f = true → b = true := by
  induction h with
  | nil => intro p hp; simp [look_nil] at hp
  | lit hc _ ih => intro p hp; rw [look_skip p _ hc] at hp; exact ih _ hp
  | @esc r b _ ih =>
    intro p hp
    rw [look_pct p (by simp)] at hp
    by_cases hn : r.head? = some 'n'
    · obtain ⟨t, rfl⟩ := List.head?_eq_some_iff.mp hn
      rw [look_pct_n] at hp; simp at hp
    · rw [look_pct '%' hn] at hp; exact ih _ hp
  | @conv d c r b hd hc _ ih =>
    intro p hp
    by_cases hn : d.text = [] ∧ c = 'n'
    · simp [hn.2]
    · rw [look_conv p hd hc r hn] at hp
      simp [ih _ hp]

/-! ## printf: completeness where it holds -/

/-- the scanner rejects every format in which the two characters `%n` occur and the three characters `%%n` do not -/
theorem prescan_of_infix {fmt : Str} (h : ['%', 'n'] <:+: fmt) (hesc : ¬ ['%', '%', 'n'] <:+: fmt) : prescan fmt = true := by
  cases hp : prescan fmt with
  | true => rfl
  | false => exact absurd h (prescan_false_no_pctn hp hesc)

/-- the format has a conversion specification written exactly `%n` -/
def PHasBareN (fmt : Str) : Prop := ∃ pre post a b, PParse pre a ∧ PParse post b ∧ fmt = pre ++ '%' :: 'n' :: post

theorem PHasBareN.hasN {fmt : Str} (h : PHasBareN fmt) : PHasN fmt := by
  obtain ⟨pre, post, a, b, h1, h2, rfl⟩ := h
  exact pparse_n_anywhere Decor.none (by decide) h1 h2

theorem PHasBareN.infix {fmt : Str} (h : PHasBareN fmt) : ['%', 'n'] <:+: fmt := by
  obtain ⟨pre, post, _, _, _, _, rfl⟩ := h
  exact ⟨pre, post, by simp⟩

/-! ## printf: the exact set of grammatical formats the scanner rejects -/

/-- grammatical formats with a bare `%n` that stands in front of every `%%n` and is not itself behind a `%%` -/
inductive PRej : Str → Prop
  | lit {c : Char} {r : Str} : c ≠ '%' → PRej r → PRej (c :: r)
  | bare {r : Str} {b : Bool} : PParse r b → PRej ('%' :: 'n' :: r)
  | conv {d : Decor} {c : Char} {r : Str} : d.ok = true → c ∈ convs → ¬ (d.text = [] ∧ c = 'n') → PRej r →
      PRej ('%' :: (d.text ++ c :: r))
  | esc {r : Str} : r.head? ≠ some 'n' → ¬ (∃ t, r = '%' :: 'n' :: t) → PRej r → PRej ('%' :: '%' :: r)

theorem PRej.hasN {f : Str} (h : PRej f) : PHasN f := by
  induction h with
  | lit hc _ ih => exact PParse.lit hc ih
  | bare h => have := PParse.conv (d := Decor.none) (c := 'n') (by decide) (by decide) h; simpa [Decor.none, Decor.text] using this
  | conv hd hc _ _ ih => have := PParse.conv hd hc ih; simpa using this
  | esc _ _ _ ih => exact PParse.esc ih

theorem look_of_PRej {f : Str} (h : PRej f) : ∀ p, p ≠ '%' → look p f = true := by
  induction h with
  | lit hc _ ih => intro p _; rw [look_skip p _ hc]; exact ih _ hc
  | bare _ => intro p hp; rw [look_pct_n]; simpa using hp
  | conv hd hc hn _ ih => intro p _; rw [look_conv p hd hc _ hn]; exact ih _ (conv_ne_pct hc)
  | @esc r hn hpn _ ih =>
    intro p _
    rw [look_pct p (by simp), look_pct '%' hn, look_indep '%' 'x' r hpn]
    exact ih 'x' (by decide)

theorem PRej_of_look {f : Str} {b : Bool} (h : PParse f b) : ∀ p, p ≠ '%' → look p f = true → PRej f := by
  induction h with
  | nil => intro p _ hl; simp [look_nil] at hl
  | lit hc _ ih => intro p _ hl; rw [look_skip p _ hc] at hl; exact PRej.lit hc (ih _ hc hl)
  | @esc r b _ ih =>
    intro p _ hl
    rw [look_pct p (by simp)] at hl
    by_cases hn : r.head? = some 'n'
    · obtain ⟨t, rfl⟩ := List.head?_eq_some_iff.mp hn
      rw [look_pct_n] at hl; simp at hl
    · rw [look_pct '%' hn] at hl
      by_cases hpn : ∃ t, r = '%' :: 'n' :: t
      · obtain ⟨t, rfl⟩ := hpn
        rw [look_pct_n] at hl; simp at hl
      · rw [look_indep '%' 'x' r hpn] at hl
        exact PRej.esc hn hpn (ih 'x' (by decide) hl)
  | @conv d c r b hd hc hr ih =>
    intro p _ hl
    by_cases hn : d.text = [] ∧ c = 'n'
    · rw [hn.1, hn.2]; exact PRej.bare hr
    · rw [look_conv p hd hc r hn] at hl
      exact PRej.conv hd hc hn (ih _ (conv_ne_pct hc) hl)

/-! ## scanf -/

theorem sdecor_head_n {d : SDecor} (hd : d.ok = true) {c : Char} {r : Str}
    (h : (d.text ++ c :: r).head? = some 'n') : d.text = [] ∧ c = 'n' := by
  cases ht : d.text with
  | nil => rw [ht] at h; simpa using h
  | cons a t =>
    rw [ht] at h
    have ha : a = 'n' := by simpa using h
    exact absurd ha (decorChar_ne_n (sdecor_chars hd a (by rw [ht]; simp)))

theorem sdecor_text_nil {d : SDecor} (h : d.text = []) : d.sup = false := by
  cases hs : d.sup with
  | false => rfl
  | true => simp [SDecor.text, hs] at h

theorem sconv_ne_pct {c : Char} (h : c ∈ sconvs) : c ≠ '%' := by
  intro e; subst e; revert h; decide

theorem setBody_no_pct {s : SetBody} (h : s.first ≠ '%' ∧ '%' ∉ s.rest) : ∀ x ∈ s.text, x ≠ '%' := by
  intro x hx
  simp only [SetBody.text, List.mem_append, List.mem_cons] at hx
  rcases hx with hx | hx | hx
  · split at hx
    · simp at hx; subst hx; decide
    · simp at hx
  · subst hx; exact h.1
  · intro e; subst e; exact h.2 hx

/-- scanf, soundness on the grammar without `%` in scan sets -/
theorem slook_sound {f : Str} {b : Bool} (h : SParseNoPct f b) : ∀ p, look p f = true → b = true := by
  induction h with
  | nil => intro p hp; simp [look_nil] at hp
  | lit hc _ ih => intro p hp; rw [look_skip p _ hc] at hp; exact ih _ hp
  | @esc r b _ ih =>
    intro p hp
    rw [look_pct p (by simp)] at hp
    by_cases hn : r.head? = some 'n'
    · obtain ⟨t, rfl⟩ := List.head?_eq_some_iff.mp hn
      rw [look_pct_n] at hp; simp at hp
    · rw [look_pct '%' hn] at hp; exact ih _ hp
  | @conv d c r b hd hc _ ih =>
    intro p hp
    by_cases hn : d.text = [] ∧ c = 'n'
    · simp [hn.2, sdecor_text_nil hn.1]
    · rw [look_pct p (fun h => hn (sdecor_head_n hd h)),
        look_walk '%' d.text c r (fun x hx => decorChar_ne_pct (sdecor_chars hd x hx)) (sconv_ne_pct hc)] at hp
      simp [ih _ hp]
  | @set d s r b hd hs hP _ ih =>
    intro p hp
    have h1 : (d.text ++ '[' :: (s.text ++ ']' :: r)).head? ≠ some 'n' := by
      intro h
      have := sdecor_head_n hd h
      exact absurd this.2 (by decide)
    rw [look_pct p h1,
      look_walk '%' d.text '[' _ (fun x hx => decorChar_ne_pct (sdecor_chars hd x hx)) (by decide),
      look_walk '[' s.text ']' r (setBody_no_pct hP) (by decide)] at hp
    exact ih _ hp

/-- the scanf format has a conversion specification written exactly `%n` -/
def SHasBareN (fmt : Str) : Prop := ∃ pre post a b, SParseAll pre a ∧ SParseAll post b ∧ fmt = pre ++ '%' :: 'n' :: post

theorem SHasBareN.hasN {fmt : Str} (h : SHasBareN fmt) : SParseAll fmt true := by
  obtain ⟨pre, post, a, b, h1, h2, rfl⟩ := h
  have := SParse.append h1 (SParse.conv (d := ⟨false, [], []⟩) (c := 'n') (by decide) (by decide) h2)
  simpa [SDecor.text] using this

theorem SHasBareN.infix {fmt : Str} (h : SHasBareN fmt) : ['%', 'n'] <:+: fmt := by
  obtain ⟨pre, post, _, _, _, _, rfl⟩ := h
  exact ⟨pre, post, by simp⟩

end SafeC.Fmt.Gram

import SafeC.Models.PrintfSpec
/-!
# C11, the heart: the digit loop of `safec_ntoa_long[_long]` writes the positional representation of the value

`ntoaDigits base upper PRINTF_NTOA_BUFFER_SIZE value []` (the `do … while (value && len < 32)` loop) is, for every
`value < 2^64` and every base from 8 to 16, exactly the digit characters of `Spec.digits base value` in reverse order
(`"0"` for 0), and `Spec.digits` is the positional representation: its value is `n`, every digit is `< base`, and it has
no leading zero.
-/
namespace SafeC.Printf
open SafeC.Printf.Spec

/-- digits of `n`, least significant first; `[0]` for 0 -/
def revDigits (b n : Nat) : List Nat :=
  if _h : 2 ≤ b ∧ b ≤ n then (n % b) :: revDigits b (n / b) else [n]
termination_by n
decreasing_by exact Nat.div_lt_self (by omega) _h.1

theorem revDigits_lt {b n : Nat} (hb : 2 ≤ b) (h : n < b) : revDigits b n = [n] := by
  rw [revDigits]; simp; omega

theorem revDigits_ge {b n : Nat} (hb : 2 ≤ b) (h : b ≤ n) : revDigits b n = (n % b) :: revDigits b (n / b) := by
  rw [revDigits]; simp [hb, h]

theorem revDigits_ne_nil (b n : Nat) : revDigits b n ≠ [] := by
  rw [revDigits]; split <;> simp

/-- the loop, from any fill state with enough room and fuel -/
theorem ntoaDigits_eq (b : Nat) (up : Bool) (hb : 2 ≤ b) :
    ∀ (fuel v : Nat) (buf : Str), (revDigits b v).length ≤ fuel → buf.length + (revDigits b v).length ≤ NTOA →
      ntoaDigits b up fuel v buf = buf ++ (revDigits b v).map (digitChar · up) := by
  intro fuel
  induction fuel with
  | zero =>
    intro v buf h; have := revDigits_ne_nil b v
    cases hr : revDigits b v with
    | nil => exact absurd hr this
    | cons a l => rw [hr] at h; simp at h
  | succ k ih =>
    intro v buf hf hl
    by_cases hv : v < b
    · have hd : v / b = 0 := Nat.div_eq_of_lt hv
      have hm : v % b = v := Nat.mod_eq_of_lt hv
      simp [ntoaDigits, hd, hm, revDigits_lt hb hv]
    · have hge : b ≤ v := Nat.le_of_not_lt hv
      have hd : v / b ≠ 0 := by
        intro h0; have := (Nat.div_eq_zero_iff).1 h0; omega
      rw [revDigits_ge hb hge] at hf hl ⊢
      simp only [List.length_cons] at hf hl
      have hne := revDigits_ne_nil b (v / b)
      have hpos : 0 < (revDigits b (v / b)).length := List.length_pos_iff.2 hne
      have hroom : (buf ++ [digitChar (v % b) up]).length < NTOA := by simp; omega
      have hc : ((v / b != 0) && decide ((buf ++ [digitChar (v % b) up]).length < NTOA)) = true := by
        simp only [Bool.and_eq_true, bne_iff_ne, ne_eq, decide_eq_true_eq]; exact ⟨hd, hroom⟩
      rw [ntoaDigits]
      simp only [hc, if_true]
      rw [ih (v / b) (buf ++ [digitChar (v % b) up]) (by omega) (by simp only [List.length_append, List.length_singleton]; omega)]
      simp only [List.append_assoc, List.map_cons, List.singleton_append]

/-- a number below `b^k` has at most `k` digits -/
theorem revDigits_length_le (b : Nat) (hb : 2 ≤ b) : ∀ (k n : Nat), 0 < k → n < b ^ k → (revDigits b n).length ≤ k := by
  intro k
  induction k with
  | zero => intro n h; omega
  | succ k ih =>
    intro n _ hn
    by_cases hv : n < b
    · rw [revDigits_lt hb hv]; simp
    · have hge : b ≤ n := Nat.le_of_not_lt hv
      rw [revDigits_ge hb hge]
      have hk : 0 < k := by
        rcases k with _ | k
        · simp at hn; omega
        · omega
      have : n / b < b ^ k := by
        rw [Nat.div_lt_iff_lt_mul (by omega)]; rw [Nat.pow_succ] at hn; exact hn
      have := ih (n / b) hk this
      simp; omega

/-- every 64-bit value has at most 22 digits in a base of 8 or more: the 32-byte buffer is never the limit for the digits -/
theorem revDigits_length_64 (b v : Nat) (hb : 8 ≤ b) (hv : v < 2 ^ 64) : (revDigits b v).length ≤ 22 := by
  apply revDigits_length_le b (by omega) 22 v (by omega)
  have h1 : (8 : Nat) ^ 22 ≤ b ^ 22 := Nat.pow_le_pow_left hb 22
  have h2 : (2 : Nat) ^ 64 < 8 ^ 22 := by decide
  omega

/-- the engine's digit characters are the standard's -/
theorem digitChar_eq_digitSym : ∀ d, d < 16 → (digitChar d true = digitSym true d ∧ digitChar d false = digitSym false d) := by
  decide

/-- least-significant-first digits are the reverse of the positional representation -/
theorem revDigits_eq_reverse (b : Nat) (hb : 2 ≤ b) : ∀ n, 0 < n → revDigits b n = (digits b n).reverse := by
  intro n
  induction n using Nat.strongRecOn with
  | _ n ih =>
    intro hn
    rw [digits]
    simp only [hb, hn, and_self, dite_true, List.reverse_append, List.reverse_cons, List.reverse_nil, List.nil_append, List.singleton_append]
    by_cases hv : n < b
    · have hd : n / b = 0 := Nat.div_eq_of_lt hv
      rw [revDigits_lt hb hv, hd, digits]
      simp [Nat.mod_eq_of_lt hv]
    · have hge : b ≤ n := Nat.le_of_not_lt hv
      have hd : 0 < n / b := Nat.div_pos hge (by omega)
      rw [revDigits_ge hb hge, ih (n / b) (Nat.div_lt_self hn hb) hd]

theorem digits_zero (b : Nat) : digits b 0 = [] := by rw [digits]; simp

/-- value of a digit list, most significant first -/
def ofDigits (b : Nat) (l : List Nat) : Nat := l.foldl (fun a d => a * b + d) 0

/-- `Spec.digits` is the positional representation: it denotes `n` … -/
theorem ofDigits_digits (b : Nat) (hb : 2 ≤ b) : ∀ n, ofDigits b (digits b n) = n := by
  intro n
  induction n using Nat.strongRecOn with
  | _ n ih =>
    by_cases hn : 0 < n
    · rw [digits]
      simp only [hb, hn, and_self, dite_true, ofDigits, List.foldl_append, List.foldl_cons, List.foldl_nil]
      have := ih (n / b) (Nat.div_lt_self hn hb)
      unfold ofDigits at this
      rw [this, Nat.mul_comm]; exact Nat.div_add_mod n b
    · have : n = 0 := by omega
      subst this; rw [digits_zero]; rfl

/-- … every digit is below the base … -/
theorem digits_lt (b : Nat) (hb : 2 ≤ b) : ∀ n, ∀ d ∈ digits b n, d < b := by
  intro n
  induction n using Nat.strongRecOn with
  | _ n ih =>
    intro d hd
    by_cases hn : 0 < n
    · rw [digits] at hd
      simp only [hb, hn, and_self, dite_true, List.mem_append, List.mem_singleton] at hd
      rcases hd with hd | hd
      · exact ih (n / b) (Nat.div_lt_self hn hb) d hd
      · subst hd; exact Nat.mod_lt _ (by omega)
    · have : n = 0 := by omega
      subst this; rw [digits_zero] at hd; simp at hd

/-- … and there is no leading zero (so the representation is the unique one) -/
theorem digits_head_ne_zero (b : Nat) (hb : 2 ≤ b) : ∀ n, (digits b n).head? ≠ some 0 := by
  intro n
  induction n using Nat.strongRecOn with
  | _ n ih =>
    by_cases hn : 0 < n
    · rw [digits]
      simp only [hb, hn, and_self, dite_true]
      by_cases hv : n < b
      · have hd : n / b = 0 := Nat.div_eq_of_lt hv
        rw [hd, digits_zero]; simp [Nat.mod_eq_of_lt hv]; omega
      · have hge : b ≤ n := Nat.le_of_not_lt hv
        have hd : 0 < n / b := Nat.div_pos hge (by omega)
        have h1 := ih (n / b) (Nat.div_lt_self hn hb)
        have hne : digits b (n / b) ≠ [] := by
          intro h0
          have := ofDigits_digits b hb (n / b)
          rw [h0] at this; simp [ofDigits] at this; omega
        cases hl : digits b (n / b) with
        | nil => exact absurd hl hne
        | cons a l => rw [hl] at h1; simpa using h1
    · have : n = 0 := by omega
      subst this; rw [digits_zero]; simp

/-- **`ntoa` digit theorem.**  For every value below 2^64 and every base from 8 to 16 the digit loop of
    `safec_ntoa_long` / `safec_ntoa_long_long`, started on the empty buffer, leaves exactly the standard's digit
    characters of the value, least significant first (the single character `0` for the value 0). -/
theorem ntoaDigits_spec (b : Nat) (up : Bool) (v : Nat) (hb : 8 ≤ b) (hb16 : b ≤ 16) (hv : v < 2 ^ 64) :
    ntoaDigits b up NTOA v [] =
      if v = 0 then ['0'] else ((digits b v).map (digitSym up)).reverse := by
  have h22 := revDigits_length_64 b v hb hv
  have hN : NTOA = 32 := rfl
  rw [ntoaDigits_eq b up (by omega) NTOA v [] (by omega) (by simp; omega)]
  by_cases h0 : v = 0
  · subst h0; rw [revDigits_lt (by omega) (by omega)]; simp [digitChar]
  · simp only [h0, if_false, List.nil_append]
    rw [revDigits_eq_reverse b (by omega) v (by omega), List.map_reverse]
    congr 1
    apply List.map_congr_left
    intro d hd
    have hlt := digits_lt b (by omega) v d hd
    have := digitChar_eq_digitSym d (by omega)
    cases up
    · exact this.2
    · exact this.1

end SafeC.Printf

import SafeC.Proofs.FmtGram
/-!
# The engine's directive parser on the printf grammar (C09)

`engDirective_gram`: on a conversion specification of the grammar, `% flags width .prec length c`, the five phases
of `safec_vsnprintf_s` (flag loop, width, precision, length switch) consume exactly the decoration and arrive at the
specifier switch with `c`, FLAGS_LONG_DOUBLE set iff the length modifier is `L`.

`engLoop_gram`: by induction over the format — the whole loop on a format of the grammar stops in `case 'n'`
iff the format has an `n` conversion, unless it has stopped before on `%L` + integer conversion; it never reaches
the `default:` exit on a format of the grammar.
-/
namespace SafeC.Fmt.Gram
open SafeC.Fmt

/-- what a character that is no decoration character is not -/
structure Plain (c : Char) : Prop where
  nd : c.isDigit = false
  nstar : c ≠ '*'
  ndot : c ≠ '.'
  nflag : engIsFlag c = false
  nl : c ≠ 'l'
  nL : c ≠ 'L'
  nh : c ≠ 'h'
  nt : c ≠ 't'
  nj : c ≠ 'j'
  nz : c ≠ 'z'

theorem engFlag_eq (c : Char) : engIsFlag c = isFlag c := by
  simp only [engIsFlag, isFlag]
  cases c == '0' <;> cases c == '-' <;> cases c == '+' <;> cases c == ' ' <;> cases c == '#' <;> rfl

theorem plain_of_not_decor {c : Char} (h : isDecorChar c = false) : Plain c := by
  simp only [isDecorChar, Bool.or_eq_false_iff, beq_eq_false_iff_ne] at h
  obtain ⟨⟨⟨⟨⟨⟨⟨⟨⟨h0, h1⟩, h2⟩, h3⟩, h4⟩, h5⟩, h6⟩, h7⟩, h8⟩, h9⟩ := h
  exact ⟨h1, h2, h3, by rw [engFlag_eq]; exact h0, h5, h9, h4, h8, h6, h7⟩

theorem plain_conv {c : Char} (h : c ∈ convs) : Plain c := plain_of_not_decor (conv_not_decor h)

/-! ## phase by phase -/

theorem dropWhile_append_stop (p : Char → Bool) : ∀ (a : Str) (x : Char) (t : Str), (∀ y ∈ a, p y = true) → p x = false →
    (a ++ x :: t).dropWhile p = x :: t := by
  intro a
  induction a with
  | nil => intro x t _ hx; simp [hx]
  | cons y a ih =>
    intro x t ha hx
    have hy : p y = true := ha y (by simp)
    simp only [List.cons_append, List.dropWhile_cons, hy, if_true]
    exact ih x t (fun z hz => ha z (by simp [hz])) hx

/-- the width / precision number: digits (possibly none) in front of a non-digit other than `*` -/
theorem engWidth_digits (ds : Str) (hds : ∀ d ∈ ds, d.isDigit = true) (x : Char) (t : Str)
    (hx : x.isDigit = false) (hs : x ≠ '*') : engWidth (ds ++ x :: t) = x :: t := by
  cases ds with
  | nil => simp [engWidth, hx, hs]
  | cons d ds' =>
    have hd : d.isDigit = true := hds d (by simp)
    have := skipDigits_run (d :: ds') hds x hx t
    simpa [engWidth, hd] using this

theorem engWidth_star (s : Str) : engWidth ('*' :: s) = s := by
  have : ('*' : Char).isDigit = false := by decide
  simp [engWidth, this]

theorem engWidth_gram {w : Str} (hw : isWidth w = true) (x : Char) (t : Str) (hx : x.isDigit = false) (hs : x ≠ '*') :
    engWidth (w ++ x :: t) = x :: t := by
  simp only [isWidth, Bool.or_eq_true, beq_iff_eq] at hw
  rcases hw with (hw | hw) | hw
  · subst hw; exact engWidth_digits [] (by simp) x t hx hs
  · subst hw; exact engWidth_star _
  · exact engWidth_digits w (isNum_chars hw) x t hx hs

theorem engPrec_gram {p : Str} (hp : isPrec p = true) (x : Char) (t : Str) (hx : x.isDigit = false) (hs : x ≠ '*')
    (hdot : x ≠ '.') : engPrec (p ++ x :: t) = x :: t := by
  cases p with
  | nil => simp [engPrec, hdot]
  | cons a q =>
    simp only [isPrec, Bool.or_eq_true, Bool.and_eq_true, beq_iff_eq, List.head?_cons, List.tail_cons] at hp
    rcases hp with hp | ⟨ha, hq⟩
    · cases hp
    · have ha : a = '.' := by simpa using ha
      subst ha
      simp only [List.cons_append, engPrec, if_true]
      rcases hq with hq | hq
      · subst hq; exact engWidth_star _
      · exact engWidth_digits q (all_mem hq) x t hx hs

theorem engLength_gram : ∀ l ∈ lengths, ∀ (c : Char), Plain c → ∀ r : Str,
    engLength (l ++ c :: r) = (l == ['L'], c :: r) := by
  intro l hl c hc r
  obtain ⟨_, _, _, _, h1, h2, h3, h4, h5, h6⟩ := hc
  simp only [lengths, List.mem_cons, List.mem_nil_iff, or_false] at hl
  rcases hl with rfl | rfl | rfl | rfl | rfl | rfl | rfl | rfl | rfl <;>
    simp [engLength, h1, h2, h3, h4, h5, h6]

/-- the head of `length ++ c :: r` is no digit, `*`, `.` or flag -/
theorem length_head : ∀ l ∈ lengths, ∀ (c : Char), Plain c → ∀ r : Str,
    ∃ x t, l ++ c :: r = x :: t ∧ x.isDigit = false ∧ x ≠ '*' ∧ x ≠ '.' ∧ engIsFlag x = false := by
  intro l hl c hc r
  simp only [lengths, List.mem_cons, List.mem_nil_iff, or_false] at hl
  rcases hl with rfl | rfl | rfl | rfl | rfl | rfl | rfl | rfl | rfl
  · exact ⟨c, r, rfl, hc.nd, hc.nstar, hc.ndot, hc.nflag⟩
  all_goals exact ⟨_, _, rfl, by decide, by decide, by decide, by decide⟩

theorem prec_head {p : Str} (hp : isPrec p = true) (x : Char) (t : Str) (hx : x.isDigit = false) (hs : x ≠ '*')
    (hf : engIsFlag x = false) :
    ∃ y u, p ++ x :: t = y :: u ∧ y.isDigit = false ∧ y ≠ '*' ∧ engIsFlag y = false := by
  cases p with
  | nil => exact ⟨x, t, rfl, hx, hs, hf⟩
  | cons a q =>
    simp only [isPrec, Bool.or_eq_true, Bool.and_eq_true, beq_iff_eq, List.head?_cons] at hp
    rcases hp with hp | ⟨ha, _⟩
    · cases hp
    · have ha : a = '.' := by simpa using ha
      subst ha
      exact ⟨'.', q ++ x :: t, rfl, by decide, by decide, by decide⟩

theorem width_head {w : Str} (hw : isWidth w = true) (x : Char) (t : Str) (hf : engIsFlag x = false) :
    ∃ y u, w ++ x :: t = y :: u ∧ engIsFlag y = false := by
  cases w with
  | nil => exact ⟨x, t, rfl, hf⟩
  | cons a q =>
    refine ⟨a, q ++ x :: t, rfl, ?_⟩
    simp only [isWidth, Bool.or_eq_true, beq_iff_eq] at hw
    rcases hw with (hw | hw) | hw
    · cases hw
    · simp at hw; rw [hw.1]; decide
    · simp only [isNum, Bool.and_eq_true, List.head?_cons, Option.any_some, bne_iff_ne, ne_eq] at hw
      have hd : a.isDigit = true := all_mem hw.1 a (by simp)
      have h0 : a ≠ '0' := hw.2
      cases hfa : engIsFlag a with
      | false => rfl
      | true =>
        exfalso
        rw [engFlag_eq] at hfa
        rcases flag_cases hfa with h | h | h | h | h
        · subst h; revert hd; decide
        · subst h; revert hd; decide
        · subst h; revert hd; decide
        · subst h; revert hd; decide
        · exact h0 h

/-- **one conversion specification of the grammar**: the engine's phases consume the decoration -/
theorem engDirective_gram {d : Decor} (hd : d.ok = true) {c : Char} (hc : Plain c) (r : Str) :
    engDirective (d.text ++ c :: r) = engSpec (d.l == ['L']) (c :: r) := by
  simp only [Decor.ok, Bool.and_eq_true, List.contains_iff_mem] at hd
  obtain ⟨⟨⟨hf, hw⟩, hp⟩, hl⟩ := hd
  have hl : d.l ∈ lengths := by simpa using hl
  obtain ⟨x3, t3, e3, hx3d, hx3s, hx3dot, hx3f⟩ := length_head d.l hl c hc r
  obtain ⟨x2, t2, e2, hx2d, hx2s, hx2f⟩ := prec_head hp x3 t3 hx3d hx3s hx3f
  obtain ⟨x1, t1, e1, hx1f⟩ := width_head hw x2 t2 hx2f
  have h0 : (d.text ++ c :: r).dropWhile engIsFlag = d.w ++ (d.p ++ (d.l ++ c :: r)) := by
    have : d.text ++ c :: r = d.fl ++ x1 :: t1 := by
      simp only [Decor.text, List.append_assoc]; rw [e3, e2, e1]
    rw [this, dropWhile_append_stop engIsFlag d.fl x1 t1 (fun y hy => by rw [engFlag_eq]; exact all_mem hf y hy) hx1f,
      ← e1, ← e2, ← e3]
  have h1 : engWidth (d.w ++ (d.p ++ (d.l ++ c :: r))) = d.p ++ (d.l ++ c :: r) := by
    rw [e3, e2]; exact engWidth_gram hw x2 t2 hx2d hx2s
  have h2 : engPrec (d.p ++ (d.l ++ c :: r)) = d.l ++ c :: r := by
    rw [e3]; exact engPrec_gram hp x3 t3 hx3d hx3s hx3dot
  simp only [engDirective, h0, h1, h2, engLength_gram d.l hl c hc r]

/-- `%%` -/
theorem engDirective_pct (r : Str) : engDirective ('%' :: r) = .next r := by
  have h1 : engIsFlag '%' = false := by decide
  have h2 : ('%' : Char).isDigit = false := by decide
  simp [engDirective, h1, engWidth, h2, engPrec, engLength, engSpec, engIsIntConv, engIsOtherConv]

theorem conv_class : ∀ c ∈ convs, (engIsIntConv c = true ∧ c ≠ 'n') ∨ (engIsIntConv c = false ∧ engIsOtherConv c = true ∧ c ≠ 'n') ∨
    (c = 'n' ∧ engIsIntConv c = false ∧ engIsOtherConv c = false) := by decide

/-! ## the whole loop, by induction over the format -/

/-- the engine on a format of the grammar: `case 'n'` iff there is an `n` conversion — unless `%L` + integer
    conversion stopped it before; the `default:` exit is never taken -/
theorem engLoop_gram {f : Str} {b : Bool} (h : PParse f b) : ∀ k, f.length ≤ k →
    engLoop k f = some .illegalLInt ∨ engLoop k f = (if b then some .illegalN else none) := by
  induction h with
  | nil => intro k _; right; cases k <;> rfl
  | @lit c r b hc _ ih =>
    intro k hk
    cases k with
    | zero => simp at hk
    | succ k =>
      simp only [engLoop, ne_eq, hc, not_false_eq_true, if_true]
      exact ih k (by simpa using hk)
  | @esc r b _ ih =>
    intro k hk
    cases k with
    | zero => simp at hk
    | succ k =>
      simp only [engLoop, ne_eq, not_true_eq_false, if_false, engDirective_pct]
      exact ih k (by simp at hk; omega)
  | @conv d c r b hd hc _ ih =>
    intro k hk
    cases k with
    | zero => simp at hk
    | succ k =>
      have hk' : r.length ≤ k := by simp at hk; omega
      simp only [engLoop, ne_eq, not_true_eq_false, if_false, engDirective_gram hd (plain_conv hc) r]
      rcases conv_class c hc with ⟨hi, hn⟩ | ⟨hi, ho, hn⟩ | ⟨hn, hi, ho⟩
      · cases hL : (d.l == ['L']) with
        | true => left; simp [engSpec, hi]
        | false =>
          have : (c == 'n') = false := by simpa using hn
          simp only [engSpec, hi, if_true, this, Bool.false_or]
          exact ih k hk'
      · have : (c == 'n') = false := by simpa using hn
        simp only [engSpec, hi, ho, if_true, this, Bool.false_or]
        exact ih k hk'
      · subst hn
        right
        simp [engSpec, hi, ho]

/-- the engine stops on every format of the grammar that has an `n` conversion -/
theorem engine_gram_n {f : Str} (h : PHasN f) : engine f = some .illegalLInt ∨ engine f = some .illegalN := by
  simpa [engine] using engLoop_gram h f.length (Nat.le_refl _)

/-- a format of the grammar without `n` conversion runs through, or stops on `%L` + integer conversion -/
theorem engine_gram_no_n {f : Str} (h : PParse f false) : engine f = some .illegalLInt ∨ engine f = none := by
  simpa [engine] using engLoop_gram h f.length (Nat.le_refl _)

end SafeC.Fmt.Gram

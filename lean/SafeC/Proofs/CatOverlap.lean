import SafeC.Proofs.CopyOverlapB
import SafeC.Proofs.CatDisjoint
import SafeC.Proofs.StpSteps
/-!
# `strncat_s` (and, via `max`, `wcsncat_s`): the overlap is detected wherever it is met

Three ways the operands of a concatenation can meet (dest holds a string of length `dl < dmax`):
* `dest < src ≤ dest + dl` — src lies inside the dest string (its terminator included): the bumper is met while
  `findEnd` scans dest (`findEnd_hits`), or at the first test of the copy loop when `src` IS the terminator;
* `dest + dl < src < dest + dmax` — src lies in the room behind the string: the copy loop runs into it after
  `src - (dest + dl)` characters (`copyLoop_overlap_gen`);
* `src ≤ dest` — the source runs into dest after `dest - src` characters (identical pointers: at once).
-/
namespace SafeC
open Gen

/-- the bumper is met while scanning dest: `d[0..g]` non-NUL and `d + g` is the bumper -/
theorem findEnd_hits (cfg : Cfg) (B oD oM : Nat) (hoM : 0 < oM) (g : Nat) :
    ∀ (k d : Nat) (st : St), RW st oD oM → (oD ≤ d ∧ d + k = oD + oM) → g < k →
    (∀ j, j ≤ g → st.data (d + j) ≠ 0) → (∀ j, j < g → d + j ≠ B) → d + g = B →
    ∃ st', exec (findEnd cfg true B oD oM k d) st = .ok (.inl ESOVRLP, st') ∧ OvrlpPost cfg oD oM st st' := by
  induction g with
  | zero =>
    intro k d st hrw hinv hgk hnz _ hb
    obtain ⟨k, rfl⟩ : ∃ k0, k = k0 + 1 := ⟨k - 1, by omega⟩
    have hdm : st.mapped d = true ∧ st.wr d = true ∧ st.rd d = true := by
      have := hrw (d - oD) (by omega)
      have e : oD + (d - oD) = d := by omega
      rwa [e] at this
    have hc : st.data d ≠ 0 := by simpa using hnz 0 (Nat.le_refl _)
    have hdb : d = B := by simpa using hb
    subst hdb
    obtain ⟨st', he, hp⟩ := handleError_cleared cfg oD oM ESOVRLP st hrw hoM
    refine ⟨st', ?_, hp.ovrlp⟩
    unfold findEnd
    simp only [exec_bind, exec_load_ok _ _ hdm.1 hdm.2.2, hc, if_false, true_and, if_true, he]
    rfl
  | succ g ih =>
    intro k d st hrw hinv hgk hnz hnb hb
    obtain ⟨k, rfl⟩ : ∃ k0, k = k0 + 1 := ⟨k - 1, by omega⟩
    have hdm : st.mapped d = true ∧ st.wr d = true ∧ st.rd d = true := by
      have := hrw (d - oD) (by omega)
      have e : oD + (d - oD) = d := by omega
      rwa [e] at this
    have hc : st.data d ≠ 0 := by simpa using hnz 0 (by omega)
    have hbb : ¬ d = B := by
      intro h; exact hnb 0 (by omega) (by simpa using h)
    have hk : k ≠ 0 := by omega
    unfold findEnd
    simp only [exec_bind, exec_load_ok _ _ hdm.1 hdm.2.2, hc, if_false, true_and, hbb, hk]
    exact ih k (d+1) st hrw (by omega) (by omega)
      (by
        intro j hj
        have := hnz (j+1) (by omega)
        have e : d + 1 + j = d + (j+1) := by omega
        rw [e]; exact this)
      (by
        intro j hj
        have := hnb (j+1) (by omega)
        have e : d + 1 + j = d + (j+1) := by omega
        rw [e]; exact this)
      (by omega)

/-- **strncat_s / (via `max`) wcsncat_s detect every overlap**: dest holds a string of length `dl < dmax` -/
theorem strncatG_overlap (max : Nat) (cfg : Cfg) (dest dmax src slen dl : Nat) (st : St)
    (hall : ∀ a, st.mapped a = true ∧ st.rd a = true)
    (hd : dest ≠ 0) (hs : src ≠ 0) (hpos : 0 < dmax) (hle : dmax ≤ max) (hslen : 0 < slen) (hslenle : slen ≤ max)
    (hrw : RW st dest dmax)
    (hdl : dl < dmax) (hdnz : ∀ j, j < dl → st.data (dest+j) ≠ 0) (hdnul : st.data (dest+dl) = 0)
    (hov : (dest < src ∧ src ≤ dest + dl) ∨
      (dest + dl < src ∧ src < dest + dmax ∧ src - (dest + dl) ≤ slen ∧
        ∀ j, j < src - (dest + dl) → st.data (src + j) ≠ 0) ∨
      (src ≤ dest ∧ dest - src < dmax - dl ∧ dest - src ≤ slen ∧ ∀ j, j < dest - src → st.data (src + j) ≠ 0)) :
    ∃ st', exec (strncatG max cfg dest dmax src slen none none) st = .ok (ESOVRLP, st') ∧
      OvrlpPost cfg dest dmax st st' := by
  unfold strncatG
  have h0 : ¬ (slen = 0 ∧ dest = 0 ∧ dmax = 0) := by omega
  have hz : dmax ≠ 0 := by omega
  have hmx : ¬ dmax > max := by omega
  have hsx : ¬ slen > max := by omega
  have hs0 : slen ≠ 0 := by omega
  rw [if_neg h0, if_neg hd, if_neg hz]
  simp only [chkDmaxClear, chkDmaxClearG, chkSlenMaxClear]
  rw [if_neg hmx, if_neg hs, if_neg hsx, if_neg hs0]
  rcases hov with ⟨h1, h2⟩ | ⟨h1, h2, h3, h4⟩ | ⟨h1, h2, h3, h4⟩
  · rw [if_pos h1]
    by_cases hin : src < dest + dl
    · -- met while scanning dest
      obtain ⟨st', he, hp⟩ := findEnd_hits cfg src dest dmax hpos (src - dest) dmax dest st hrw ⟨Nat.le_refl _, rfl⟩
        (by omega) (fun j hj => hdnz j (by omega)) (by intro j hj; omega) (by omega)
      exact ⟨st', by simp only [exec_bind, he]; rfl, hp⟩
    · -- src is the terminator of dest
      have hfe := findEnd_str cfg true src dest dmax dmax dest dl st hrw hdl hdnz hdnul (by intro _ j hj; omega)
      simp only [exec_bind, hfe]
      obtain ⟨st', he, hp⟩ := copyLoop_overlap_gen cfg true true src dest dmax hpos (dmax - dl) (dest + dl) src 0 slen st
        hall hrw ⟨by omega, by omega⟩ (by simp only [if_true]; omega) (by simp) (by omega) (fun _ => Nat.zero_le _)
        (by intro j hj; omega)
      exact ⟨st', he, OvrlpPost.of_copyPost hp⟩
  · rw [if_pos (by omega)]
    have hfe := findEnd_str cfg true src dest dmax dmax dest dl st hrw hdl hdnz hdnul (by intro _ j hj; omega)
    simp only [exec_bind, hfe]
    obtain ⟨st', he, hp⟩ := copyLoop_overlap_gen cfg true true src dest dmax hpos (dmax - dl) (dest + dl) src
      (src - (dest + dl)) slen st hall hrw ⟨by omega, by omega⟩ (by simp only [if_true]; omega) (by simp) (by omega)
      (fun _ => h3) h4
    exact ⟨st', he, OvrlpPost.of_copyPost hp⟩
  · rw [if_neg (by omega)]
    have hfe := findEnd_str cfg false dest dest dmax dmax dest dl st hrw hdl hdnz hdnul (by intro h; cases h)
    simp only [exec_bind, hfe]
    obtain ⟨st', he, hp⟩ := copyLoop_overlap_gen cfg false true dest dest dmax hpos (dmax - dl) (dest + dl) src
      (dest - src) slen st hall hrw ⟨by omega, by omega⟩ (by simp only [Bool.false_eq_true, if_false]; omega)
      (by simp) h2 (fun _ => h3) h4
    exact ⟨st', he, OvrlpPost.of_copyPost hp⟩

/-- **strcat_s / (via `max`) wcscat_s detect every overlap**: the unbounded twin of `strncatG_overlap` -/
theorem strcatG_overlap (max : Nat) (cfg : Cfg) (dest dmax src dl : Nat) (st : St)
    (hall : ∀ a, st.mapped a = true ∧ st.rd a = true)
    (hd : dest ≠ 0) (hs : src ≠ 0) (hpos : 0 < dmax) (hle : dmax ≤ max)
    (hrw : RW st dest dmax)
    (hdl : dl < dmax) (hdnz : ∀ j, j < dl → st.data (dest+j) ≠ 0) (hdnul : st.data (dest+dl) = 0)
    (hov : (dest < src ∧ src ≤ dest + dl) ∨
      (dest + dl < src ∧ src < dest + dmax ∧ ∀ j, j < src - (dest + dl) → st.data (src + j) ≠ 0) ∨
      (src ≤ dest ∧ dest - src < dmax - dl ∧ ∀ j, j < dest - src → st.data (src + j) ≠ 0)) :
    ∃ st', exec (strcatG max cfg dest dmax src none) st = .ok (ESOVRLP, st') ∧
      OvrlpPost cfg dest dmax st st' := by
  unfold strcatG
  have hz : dmax ≠ 0 := by omega
  have hmx : ¬ dmax > max := by omega
  rw [if_neg hd, if_neg hz]
  simp only [chkDmaxClear, chkDmaxClearG]
  rw [if_neg hmx, if_neg hs]
  rcases hov with ⟨h1, h2⟩ | ⟨h1, h2, h4⟩ | ⟨h1, h2, h4⟩
  · rw [if_pos h1]
    by_cases hin : src < dest + dl
    · obtain ⟨st', he, hp⟩ := findEnd_hits cfg src dest dmax hpos (src - dest) dmax dest st hrw ⟨Nat.le_refl _, rfl⟩
        (by omega) (fun j hj => hdnz j (by omega)) (by intro j hj; omega) (by omega)
      exact ⟨st', by simp only [exec_bind, he]; rfl, hp⟩
    · have hfe := findEnd_str cfg true src dest dmax dmax dest dl st hrw hdl hdnz hdnul (by intro _ j hj; omega)
      simp only [exec_bind, hfe]
      obtain ⟨st', he, hp⟩ := copyLoop_overlap_gen cfg true false src dest dmax hpos (dmax - dl) (dest + dl) src 0 0 st
        hall hrw ⟨by omega, by omega⟩ (by simp only [if_true]; omega) (by simp) (by omega) (fun h => by cases h)
        (by intro j hj; omega)
      exact ⟨st', he, OvrlpPost.of_copyPost hp⟩
  · rw [if_pos (by omega)]
    have hfe := findEnd_str cfg true src dest dmax dmax dest dl st hrw hdl hdnz hdnul (by intro _ j hj; omega)
    simp only [exec_bind, hfe]
    obtain ⟨st', he, hp⟩ := copyLoop_overlap_gen cfg true false src dest dmax hpos (dmax - dl) (dest + dl) src
      (src - (dest + dl)) 0 st hall hrw ⟨by omega, by omega⟩ (by simp only [if_true]; omega) (by simp) (by omega)
      (fun h => by cases h) h4
    exact ⟨st', he, OvrlpPost.of_copyPost hp⟩
  · rw [if_neg (by omega)]
    have hfe := findEnd_str cfg false dest dest dmax dmax dest dl st hrw hdl hdnz hdnul (by intro h; cases h)
    simp only [exec_bind, hfe]
    obtain ⟨st', he, hp⟩ := copyLoop_overlap_gen cfg false false dest dest dmax hpos (dmax - dl) (dest + dl) src
      (dest - src) 0 st hall hrw ⟨by omega, by omega⟩ (by simp only [Bool.false_eq_true, if_false]; omega)
      (by simp) h2 (fun h => by cases h) h4
    exact ⟨st', he, OvrlpPost.of_copyPost hp⟩

end SafeC

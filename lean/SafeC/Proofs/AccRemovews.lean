import SafeC.Proofs.AccJustify
/-!
# Footprint of `strremovews_s` (value-aware, stores tracked, with the functional facts the backwards strip needs)

After the terminator `e` has been found (`termScan`: reads at most `dest[dmax]`) the function skips leading whitespace to `p`,
shifts `[p, e)` down to `dest` (filling with blanks) and then strips trailing whitespace walking DOWN from `e - 1` with no
lower bound of its own: `while (*dest == ' ' || *dest == '\t') { *dest = '\0'; dest--; }`.  What stops it is the data: the
first non-blank character of the string — `skipWs` ends on it (`AccD_skipWs_stop`), `shiftLoop` moves exactly it to `dest[0]` and
never touches that cell again (`AccS_shiftLoop_first`) — so the walk ends at `dest` at the latest (`AccS_stripTrailing`).
-/
namespace SafeC
open Gen

variable {R W : Nat → Prop} {d : Nat → Nat}

/-- blank or tab -/
def IsWs (c : Nat) : Prop := c = 0x20 ∨ c = 0x09

/-- `skipWs` below a terminator at `e` ends on a cell that is neither blank nor tab -/
theorem AccD_skipWs_stop (e fuel p : Nat) (hpe : p ≤ e) (hf : e < p + fuel) (he : d e = 0)
    (hr : ∀ a, p ≤ a → a ≤ e → R a) : AccD d R (skipWs fuel p) (fun r => p ≤ r ∧ r ≤ e ∧ ¬ IsWs (d r)) := by
  induction fuel generalizing p with
  | zero => omega
  | succ n ih =>
    have h0 : R p := hr p (Nat.le_refl _) hpe
    have next : d p ≠ 0 → AccD d R (skipWs n (p+1)) (fun r => p ≤ r ∧ r ≤ e ∧ ¬ IsWs (d r)) := fun hne => by
      have hpe' : p ≠ e := fun h => by rw [h] at hne; exact hne he
      exact (ih (p+1) (by omega) (by omega) (fun a h1 h2 => hr a (by omega) h2)).conseq
        (fun r ⟨g1, g2, g3⟩ => ⟨by omega, g2, g3⟩)
    unfold skipWs
    refine AccD.loadBind h0 ?_
    split
    · rename_i hc
      exact next (by omega)
    · rename_i hc1
      refine AccD.loadBind h0 ?_
      split
      · rename_i hc
        exact next (by omega)
      · rename_i hc2
        exact AccD.pure _ ⟨Nat.le_refl _, hpe, fun h => h.elim hc1 hc2⟩

/-- `shiftLoop`: as `AccS_shiftLoop`, and: the source pointer ends in `[p, e]`, cells below `od` keep their contents, and the
first character moved stays at `od` -/
theorem AccS_shiftLoop_first (e fuel od p : Nat) (hod : od < p) (hpe : p ≤ e) (hf : e < p + fuel) (he : d e = 0)
    (hr : ∀ a, p ≤ a → a ≤ e → R a) (hw : ∀ a, od ≤ a → a < e → W a) :
    AccS R W d (shiftLoop fuel od p) (fun r d' => od ≤ r.1 ∧ r.1 < e ∧ p ≤ r.2 ∧ r.2 ≤ e ∧
      (∀ a, a < od → d' a = d a) ∧ (d p ≠ 0 → d' od = d p)) := by
  induction fuel generalizing od p d with
  | zero => omega
  | succ n ih =>
    have h0 : R p := hr p (Nat.le_refl _) hpe
    unfold shiftLoop
    refine AccS.loadBind h0 ?_
    split
    · rename_i hz
      exact AccS.pure _ ⟨Nat.le_refl _, by omega, Nat.le_refl _, hpe, fun _ _ => rfl, fun h => absurd hz h⟩
    · rename_i hne
      have hpe' : p ≠ e := fun h => by rw [h] at hne; exact hne he
      refine AccS.loadBind h0 ?_
      refine AccS.storeBind (hw od (Nat.le_refl _) (by omega)) ?_
      refine AccS.storeBind (hw p (by omega) (by omega)) ?_
      refine (ih (od+1) (p+1) (by omega) (by omega) (by omega)
        (by simp [updF, show e ≠ p by omega, show e ≠ od by omega, he])
        (fun a h1 h2 => hr a (by omega) h2) (fun a h1 h2 => hw a (by omega) h2)).conseq
          (fun r d' ⟨g1, g2, g3, g4, g5, _⟩ => ⟨by omega, g2, by omega, g4, fun a ha => ?_, fun _ => ?_⟩)
      · rw [g5 a (by omega)]
        simp [updF, show a ≠ p by omega, show a ≠ od by omega]
      · rw [g5 od (by omega)]
        simp [updF, show od ≠ p by omega]

/-- the backwards strip stops at a non-blank cell `lo` at the latest: reads and stores inside `[lo, p]` -/
theorem AccS_stripTrailing (lo : Nat) : ∀ (fuel p : Nat) (d : Nat → Nat), lo ≤ p → p < lo + fuel → ¬ IsWs (d lo) →
    (∀ a, lo ≤ a → a ≤ p → R a) → (∀ a, lo ≤ a → a ≤ p → W a) →
    AccS R W d (stripTrailing fuel p) (fun _ _ => True) := by
  intro fuel
  induction fuel with
  | zero => intro p d h1 h2; omega
  | succ n ih =>
    intro p d hlo hf hstop hr hw
    have h0 : R p := hr p hlo (Nat.le_refl _)
    have next : IsWs (d p) → AccS R W (updF d p 0) (stripTrailing n (p-1)) (fun _ _ => True) := fun hws => by
      have hne : p ≠ lo := fun e => hstop (e ▸ hws)
      refine ih (p-1) _ (by omega) (by omega) ?_ (fun a g1 g2 => hr a g1 (by omega)) (fun a g1 g2 => hw a g1 (by omega))
      simpa [updF, show lo ≠ p by omega] using hstop
    unfold stripTrailing
    refine AccS.loadBind h0 ?_
    split
    · rename_i hc
      exact AccS.storeBind (hw p hlo (Nat.le_refl _)) (next (Or.inl hc))
    · refine AccS.loadBind h0 ?_
      split
      · rename_i hc
        exact AccS.storeBind (hw p hlo (Nat.le_refl _)) (next (Or.inr hc))
      · exact AccS.pure _ trivial

/-- **strremovews_s**: reads inside the string at dest cut at `dmax + 1` cells; stores inside the `dmax` cells and (the
terminator rewritten after the shift) at the terminator the scan found -/
theorem strremovews_s_accs (cfg : Cfg) (dest dmax : Nat) (b : Bos)
    (hr : dest ≠ 0 → ∀ a, Str d dest (dmax+1) a → R a) (hw : dest ≠ 0 → ∀ a, Cells dest dmax a → W a)
    (hwe : dest ≠ 0 → ∀ a, Str d dest (dmax+1) a → W a) :
    AccS R W d (strremovews_s cfg dest dmax b) (fun _ _ => True) := by
  unfold strremovews_s
  split
  · exact AccS_failS _ trivial
  rename_i hd
  split
  · exact AccS_failS _ trivial
  rename_i hm
  have w0 : W dest := hw hd _ ⟨by omega, by omega⟩
  have h0 : R dest := hr hd _ (Str.head (by omega))
  refine AccS_chkDmax _ _ _ ?_
  refine AccS.loadBind h0 ?_
  split
  · exact AccS.storeBind w0 (AccS.pure _ trivial)
  rename_i hc
  have hd0 : ¬ d dest = 0 := fun h => hc (Or.inl h)
  refine AccS.bind (AccS_termScan dest dmax dmax dest (hr hd) (hw hd)) (fun r d' hq => ?_)
  cases r with
  | none => exact AccS.pure _ trivial
  | some e =>
    obtain ⟨rfl, g2, g3, g4, g5⟩ := hq
    have hne : e ≠ dest := fun h => hd0 (h ▸ g4)
    have hstr : ∀ a, dest ≤ a → a ≤ e → Str d' dest (dmax+1) a := fun a h1 h2 =>
      ⟨h1, by omega, fun j hj1 hj2 => g5 j hj1 (by omega)⟩
    have hre : ∀ a, dest ≤ a → a ≤ e → R a := fun a h1 h2 => hr hd a (hstr a h1 h2)
    have hwc : ∀ a, dest ≤ a → a < e → W a := fun a h1 h2 => hw hd a ⟨h1, by omega⟩
    dsimp only
    refine AccS.bind (AccS.of_AccD (AccD_skipWs_stop e (e - dest + 1) dest g2 (by omega) g4 hre)) (fun p d'' hq => ?_)
    obtain ⟨rfl, q1, q2, q3⟩ := hq
    refine AccS.loadBind (hre p q1 q2) ?_
    split
    · exact AccS.storeBind w0 (AccS.pure _ trivial)
    rename_i hc0
    have hpe : p ≠ e := fun h => hc0 (h ▸ g4)
    have tail : ∀ d2 : Nat → Nat, ¬ IsWs (d2 dest) → AccS R W d2 (do
        stripTrailing (e - 1 + 1) (e - 1)
        pure EOK : Prog Nat) (fun _ _ => True) := fun d2 hstop =>
      AccS.bind (AccS_stripTrailing dest (e - 1 + 1) (e - 1) d2 (by omega) (by omega) hstop
        (fun a h1 h2 => hre a h1 (by omega)) (fun a h1 h2 => hwc a h1 (by omega))) (fun _ _ _ => AccS.pure _ trivial)
    split
    · rename_i hdp
      refine AccS.loadBind (hre p q1 q2) ?_
      split
      · refine AccS.bind (AccS_shiftLoop_first e (e - p + 1) dest p (by omega) q2 (by omega) g4
          (fun a h1 h2 => hre a (by omega) h2) hwc) (fun r d2 hq => ?_)
        obtain ⟨r1, r2⟩ := r
        obtain ⟨s1, s2, s3, s4, s5, s6⟩ := hq
        simp only at s1 s2 s3 s4 s5 s6
        refine AccS.storeBind (hwe hd r2 (hstr r2 (by omega) s4)) (tail _ ?_)
        have : updF d2 r2 0 dest = d2 dest := by simp [updF, show dest ≠ r2 by omega]
        rw [this, s6 hc0]
        exact q3
      · rename_i hcz
        exact absurd (by simpa using hcz) hc0
    · rename_i hdp
      have : dest = p := Classical.byContradiction (fun h => hdp h)
      exact tail _ (this ▸ q3)

end SafeC

import SafeC.Props.C14
/-!
# Call sequences of the tokenizers (helper lemmas for the C14 sequence theorems)

* congruence: `scanLen`, `inSet`, `isDelim`, `skipD`, `findE`, `callSpec` depend only on the cells they look at;
* `Inv`: what a caller's tokenizing loop maintains between calls; `Inv.step`: one call re-establishes it
  for the pointer / remaining length it hands back;
* `toks`: the maximal delimiter-free runs of the ORIGINAL string as (start, end) address pairs;
* `specSeq`: the returned pointers of a call sequence as a pure function of the memory.
-/
namespace SafeC.Props.C14
open SafeC Gen

/-! ## congruence -/

theorem scanLen_congr (m m' : Nat → Nat) (p n : Nat) (h : ∀ j, j < n → m (p+j) = m' (p+j)) :
    scanLen m p n = scanLen m' p n := by
  induction n generalizing p with
  | zero => rfl
  | succ n ih =>
    have h0 := h 0 (by omega)
    simp only [Nat.add_zero] at h0
    simp only [scanLen, h0]
    split
    · rfl
    · rw [ih (p+1) (fun j hj => by have := h (j+1) (by omega); simpa [Nat.add_assoc, Nat.add_comm 1 j] using this)]

theorem inSet_congr (m m' : Nat → Nat) (c p n : Nat) (h : ∀ j, j ≤ n → m (p+j) = m' (p+j)) :
    inSet m c p n = inSet m' c p n := by
  induction n generalizing p with
  | zero => rfl
  | succ n ih =>
    have h0 := h 0 (by omega)
    simp only [Nat.add_zero] at h0
    simp only [inSet, h0]
    split
    · rfl
    · split
      · rfl
      · exact ih (p+1) (fun j hj => by have := h (j+1) (by omega); simpa [Nat.add_assoc, Nat.add_comm 1 j] using this)

/-- the delimiter cells `dl .. dl+STRTOK_DELIM_MAX_LEN` agree -/
def DelimAgree (m m' : Nat → Nat) (dl : Nat) : Prop := ∀ j, j ≤ STRTOK_DELIM_MAX_LEN → m (dl+j) = m' (dl+j)

theorem isDelim_congr (m m' : Nat → Nat) (dl c : Nat) (h : DelimAgree m m' dl) : isDelim m dl c = isDelim m' dl c :=
  inSet_congr m m' c dl _ h

theorem DelimOK_congr (m m' : Nat → Nat) (dl : Nat) (h : DelimAgree m m' dl) (hd : DelimOK m dl) : DelimOK m' dl := by
  unfold DelimOK at *
  rw [← scanLen_congr m m' dl _ (fun j hj => h j (by omega))]
  exact hd

theorem skipD_congr (m m' : Nat → Nat) (dl n p : Nat) (hd : DelimAgree m m' dl) (h : ∀ x, p ≤ x → m x = m' x) :
    skipD m dl n p = skipD m' dl n p := by
  induction n generalizing p with
  | zero => rfl
  | succ n ih =>
    simp only [skipD, h p (Nat.le_refl _), isDelim_congr m m' dl _ hd]
    split
    · rfl
    · split
      · exact ih (p+1) (fun x hx => h x (by omega))
      · rfl

theorem findE_congr (m m' : Nat → Nat) (dl n p : Nat) (hd : DelimAgree m m' dl) (h : ∀ x, p ≤ x → m x = m' x) :
    findE m dl n p = findE m' dl n p := by
  induction n generalizing p with
  | zero => rfl
  | succ n ih =>
    simp only [findE, h p (Nat.le_refl _), isDelim_congr m m' dl _ hd]
    split
    · rfl
    · split
      · rfl
      · exact ih (p+1) (fun x hx => h x (by omega))

theorem callSpec_congr (m m' : Nat → Nat) (dl p n : Nat) (hd : DelimAgree m m' dl) (h : ∀ x, p ≤ x → m x = m' x) :
    callSpec m dl p n = callSpec m' dl p n := by
  unfold callSpec
  have e1 := skipD_congr m m' dl n p hd h
  have hb := skipD_bounds m' dl n p
  simp only [e1, h (skipD m' dl n p) hb.1]
  split
  · rfl
  · have e2 := findE_congr m m' dl (n - (skipD m' dl n p - p) - 1) (skipD m' dl n p + 1) hd (fun x hx => h x (by omega))
    have hfb := findE_bounds m' dl (n - (skipD m' dl n p - p) - 1) (skipD m' dl n p + 1)
    simp only [e2, h _ (show p ≤ findE m' dl (n - (skipD m' dl n p - p) - 1) (skipD m' dl n p + 1) by omega)]

/-! ## the pure call sequence -/

/-- memory after a call -/
def afterCall (m : Nat → Nat) (c : CallSpec) : Nat → Nat :=
  match c.cut with
  | none => m
  | some b => fun x => if x = b then 0 else m x

/-- the returned pointers of successive calls (one delimiter string per call), as a pure function -/
def specSeq : List Nat → (Nat → Nat) → Nat → Nat → List Nat
  | [], _, _, _ => []
  | dl :: rest, m, p, n =>
    let c := callSpec m dl p n
    c.ret :: specSeq rest (afterCall m c) c.ptr c.rem

/-- the maximal delimiter-free runs of the string at `p` (`n` cells looked at) as (start, end)
address pairs, computed on ONE memory; `fuel` bounds the number of tokens -/
def toks (m : Nat → Nat) (dl : Nat) : Nat → Nat → Nat → List (Nat × Nat)
  | 0, _, _ => []
  | fuel+1, p, n =>
    let a := skipD m dl n p
    if m a = 0 then []
    else
      let n' := n - (a - p) - 1
      let b := findE m dl n' (a+1)
      if m b = 0 then [(a, b)]
      else (a, b) :: toks m dl fuel (b+1) (n' - (b - (a+1)) - 1)

/-! ## the invariant of a tokenizing loop -/

structure Inv (st : St) (dls : List Nat) (p n : Nat) : Prop where
  all : AllRd st
  delim : ∀ dl ∈ dls, DelimOK st.data dl
  pne : p ≠ 0
  term : scanLen st.data p n < n
  wr : ∀ a, p ≤ a → a < p + n → st.wr a = true
  apart : ∀ dl ∈ dls, ∀ j, j ≤ STRTOK_DELIM_MAX_LEN → ¬ (p ≤ dl + j ∧ dl + j < p + n)

theorem afterCall_agree_delim (m : Nat → Nat) (dl' dl p n : Nat) (hz : scanLen m p n < n)
    (hap : ∀ j, j ≤ STRTOK_DELIM_MAX_LEN → ¬ (p ≤ dl' + j ∧ dl' + j < p + n)) :
    DelimAgree m (afterCall m (callSpec m dl p n)) dl' := by
  intro j hj
  unfold afterCall
  cases hc : (callSpec m dl p n).cut with
  | none => rfl
  | some b =>
    obtain ⟨h1, h2, _, _⟩ := tok_only_delim_overwritten m dl p n b hz hc
    have : dl' + j ≠ b := by intro h; exact hap j hj ⟨by omega, by omega⟩
    simp [this]

theorem afterCall_agree_tail (m : Nat → Nat) (dl p n : Nat) (hz : scanLen m p n < n) :
    ∀ x, (callSpec m dl p n).ptr ≤ x → m x = afterCall m (callSpec m dl p n) x := by
  intro x hx
  unfold afterCall
  cases hc : (callSpec m dl p n).cut with
  | none => rfl
  | some b =>
    -- the cut is strictly below the continuation pointer
    have hlt : b < (callSpec m dl p n).ptr := by
      unfold callSpec at hc ⊢
      by_cases h0 : m (skipD m dl n p) = 0
      · simp [h0] at hc
      · simp only [h0, if_false] at hc ⊢
        split at hc
        · simp at hc
        · rename_i hb0
          simp only [hb0, if_false]
          simp only [Option.some.injEq] at hc
          omega
    have : x ≠ b := by omega
    simp [this]

/-- the string stays terminated inside the remaining length handed back -/
theorem term_after (m : Nat → Nat) (dl p n : Nat) (hz : scanLen m p n < n) :
    scanLen (afterCall m (callSpec m dl p n)) (callSpec m dl p n).ptr (callSpec m dl p n).rem
      < (callSpec m dl p n).rem := by
  obtain ⟨h1, h2, h3⟩ := callSpec_facts m dl p n hz
  have hcons := tok_conserves m dl p n hz
  -- it is enough to show it on `m` itself, on which `afterCall` agrees from `ptr` on
  have hagree := afterCall_agree_tail m dl p n hz
  rw [← scanLen_congr m _ _ _ (fun j _ => hagree _ (by omega))]
  unfold callSpec at hcons ⊢
  by_cases h0 : m (skipD m dl n p) = 0
  · simp only [h0, if_true] at hcons ⊢
    have : 0 < n - (skipD m dl n p - p) := by omega
    cases hn : n - (skipD m dl n p - p) with
    | zero => omega
    | succ k => simp [scanLen, h0]
  · obtain ⟨h4, h5, h6⟩ := h3 h0
    simp only [h0, if_false] at hcons ⊢
    by_cases hb0 : m (findE m dl (n - (skipD m dl n p - p) - 1) (skipD m dl n p + 1)) = 0
    · simp only [hb0, if_true] at hcons ⊢
      cases hn : n - (skipD m dl n p - p) - 1 - (findE m dl (n - (skipD m dl n p - p) - 1) (skipD m dl n p + 1) - (skipD m dl n p + 1)) with
      | zero => omega
      | succ k => simp [scanLen, hb0]
    · simp only [hb0, if_false] at hcons ⊢
      -- every cell from p up to and including the cut is non-NUL
      have hnz : ∀ j, p ≤ j → j < findE m dl (n - (skipD m dl n p - p) - 1) (skipD m dl n p + 1) + 1 → m j ≠ 0 := by
        intro j hj1 hj2
        by_cases hja : j < skipD m dl n p
        · exact (skipD_skipped m dl n p j hj1 hja).1
        · by_cases hjb : j = findE m dl (n - (skipD m dl n p - p) - 1) (skipD m dl n p + 1)
          · subst hjb; exact hb0
          · by_cases hje : j = skipD m dl n p
            · subst hje; exact h0
            · exact (findE_inside m dl (n - (skipD m dl n p - p) - 1) (skipD m dl n p + 1) j (by omega) (by omega)).1
      have := scanLen_adv m p n (findE m dl (n - (skipD m dl n p - p) - 1) (skipD m dl n p + 1) + 1) hz (by omega) hnz (by omega)
      have e : n - (findE m dl (n - (skipD m dl n p - p) - 1) (skipD m dl n p + 1) + 1 - p) =
          n - (skipD m dl n p - p) - 1 - (findE m dl (n - (skipD m dl n p - p) - 1) (skipD m dl n p + 1) - (skipD m dl n p + 1)) - 1 := by omega
      rw [e] at this; exact this

/-- the pointer handed back stays inside the original extent and is not NULL -/
theorem ptr_bounds (m : Nat → Nat) (dl p n : Nat) (hz : scanLen m p n < n) :
    p ≤ (callSpec m dl p n).ptr ∧ (callSpec m dl p n).ptr + (callSpec m dl p n).rem = p + n := by
  refine ⟨?_, tok_conserves m dl p n hz⟩
  obtain ⟨h1, h2, h3⟩ := callSpec_facts m dl p n hz
  unfold callSpec
  by_cases h0 : m (skipD m dl n p) = 0
  · simp only [h0, if_true]; exact h1
  · obtain ⟨h4, _, _⟩ := h3 h0
    simp only [h0, if_false]
    split <;> simp only [] <;> omega

/-- the invariant carries over to any state with the same permissions whose contents are `afterCall` -/
theorem Inv.of_after {st st' : St} {dl : Nat} {dls : List Nat} {p n : Nat} (hI : Inv st (dl :: dls) p n)
    (hm : st'.mapped = st.mapped) (hr : st'.rd = st.rd) (hw : st'.wr = st.wr)
    (hdata : st'.data = afterCall st.data (callSpec st.data dl p n)) :
    Inv st' dls (callSpec st.data dl p n).ptr (callSpec st.data dl p n).rem := by
  have hpb := ptr_bounds st.data dl p n hI.term
  have hpne := hI.pne
  refine ⟨?_, ?_, by omega, ?_, ?_, ?_⟩
  · intro a; rw [hm, hr]; exact hI.all a
  · intro d hd
    rw [hdata]
    exact DelimOK_congr st.data _ d
      (afterCall_agree_delim st.data d dl p n hI.term (hI.apart d (by simp [hd]))) (hI.delim d (by simp [hd]))
  · rw [hdata]; exact term_after st.data dl p n hI.term
  · intro a h1 h2; rw [hw]; exact hI.wr a (by omega) (by omega)
  · intro d hd j hj h
    exact hI.apart d (by simp [hd]) j hj ⟨by omega, by omega⟩

/-- **one call re-establishes the loop invariant** for what it hands back -/
theorem Inv.step {st : St} {dl : Nat} {dls : List Nat} {p n : Nat} (hI : Inv st (dl :: dls) p n) (wide : Bool) :
    ∃ st', exec (tokBody wide dl p n) st =
        .ok ({ ret := (callSpec st.data dl p n).ret, dmaxv := some (callSpec st.data dl p n).rem,
               ptrv := some (callSpec st.data dl p n).ptr }, st') ∧
      st'.data = afterCall st.data (callSpec st.data dl p n) ∧
      Inv st' dls (callSpec st.data dl p n).ptr (callSpec st.data dl p n).rem := by
  have hcall := tok_call wide dl p n st hI.all (hI.delim dl (by simp)) hI.pne hI.term hI.wr
  cases hc : (callSpec st.data dl p n).cut with
  | none =>
    simp only [hc] at hcall
    have hdata : st.data = afterCall st.data (callSpec st.data dl p n) := by simp [afterCall, hc]
    exact ⟨st, hcall, hdata, hI.of_after rfl rfl rfl hdata⟩
  | some b =>
    simp only [hc] at hcall
    have hdata : (st.upd b 0).data = afterCall st.data (callSpec st.data dl p n) := by
      funext x; simp [afterCall, hc, St.upd]
    exact ⟨st.upd b 0, hcall, hdata, hI.of_after rfl rfl rfl hdata⟩

end SafeC.Props.C14

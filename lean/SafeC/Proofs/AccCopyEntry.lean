import SafeC.Proofs.AccCopy
/-!
# Footprint of the entry points of the copy family: `strcpy_s strncpy_s strcat_s strncat_s wcscpy_s wcsncpy_s wcscat_s wcsncat_s`

Hypotheses (all parameters of the lemma): `hrs` the string at `src` cut at `dmax` / `min dmax slen` cells is readable,
`hrd`/`hw` dest's `dmax` cells are readable (the `strnlen_s(dest, …)` of the clearing exits, `findEnd`) and writable.
Every argument combination: NULL pointers, zero / oversized `dmax` and `slen`, object sizes known or unknown, any placement.

The bounded narrow functions have ONE exit that leaves dest's `dmax` cells: `slen > srcbos` with a known `destbos`
calls `handle_str_bos_overflow(dest, destbos)`, which measures (`strnlen_s(dest, destbos)`) and clears up to the OBJECT
size.  `hov` excludes it (`destbos` not above `dmax` there).
-/
namespace SafeC
open Gen

variable {R W : Nat → Prop} {d : Nat → Nat}

/-- `handle_str_bos_overflow(dest, n)` with `n` above `RSIZE_MAX_STR`: `strnlen_s` refuses, nothing is read, `dest[0]`
at most is stored -/
theorem AccS_handleStrBosOverflow_big (cfg : Cfg) (p n : Nat) (hn : n > RSIZE_MAX_STR) (h0 : W p) :
    AccS R W d (handleStrBosOverflow cfg p n) (fun _ _ => True) := by
  unfold handleStrBosOverflow
  have hlen : AccS R W d (strnlen_s p n none) (fun r _ => r = 0) := by
    unfold strnlen_s
    split
    · exact AccS.handlerSBind _ (AccS.pure _ rfl)
    · split
      · exact AccS.handlerSBind _ (AccS.pure _ rfl)
      · first
          | exact AccS.handlerSBind _ (AccS.pure _ rfl)
          | (split
             · exact AccS.handlerSBind _ (AccS.pure _ rfl)
             · omega)
  refine AccS.bind hlen (fun r d' hr => ?_)
  subst hr
  have hz : ∀ a, Cells p 0 a → W a := fun a ⟨h1, h2⟩ => by omega
  split
  · exact AccS_errRet cfg p 1 _ _ (fun a ⟨h1, h2⟩ => (show a = p by omega) ▸ h0) h0
  · exact AccS_errRet cfg p 0 _ _ hz h0

/-- the `slen > srcbos` exit: `handle_str_bos_overflow(dest, destbos)` measures and clears up to the OBJECT size (`hob`: the
object's cells, when the size is known) -/
theorem AccS_bosOverflow (cfg : Cfg) (dest dmax : Nat) (destbos : Bos) (hpos : dmax ≠ 0)
    (hob : ∀ b, destbos = some b → (∀ a, Cells dest b a → R a) ∧ (∀ a, Cells dest b a → W a))
    (hle : ∀ b, destbos = some b → dmax ≤ b)
    (hw : ∀ a, Cells dest dmax a → W a) :
    AccS R W d (handleStrBosOverflow cfg dest (destbos.getD (2^64 - 1))) (fun _ _ => True) := by
  have h0 : W dest := hw _ ⟨Nat.le_refl _, by omega⟩
  cases destbos with
  | none => exact AccS_handleStrBosOverflow_big cfg dest _ (by simp [RSIZE_MAX_STR]) h0
  | some b =>
    have := hle b rfl
    have e : max b 1 = b := by omega
    exact AccS_handleStrBosOverflow cfg dest b (hob b rfl).1 (by rw [e]; exact (hob b rfl).2)

/-- what `hob` asks for follows from dest's `dmax` cells when the known object size does not exceed `dmax` on that exit -/
theorem hob_of_hov {dest dmax slen : Nat} {db sb : Bos}
    (hov : ∀ b s, db = some b → sb = some s → s < slen → b ≤ dmax)
    (hr : ∀ a, Cells dest dmax a → R a) (hw : ∀ a, Cells dest dmax a → W a) :
    ∀ b s, db = some b → sb = some s → s < slen → (∀ a, Cells dest b a → R a) ∧ (∀ a, Cells dest b a → W a) :=
  fun b s h1 h2 h3 => ⟨fun a ⟨g1, g2⟩ => hr a ⟨g1, by have := hov b s h1 h2 h3; omega⟩,
    fun a ⟨g1, g2⟩ => hw a ⟨g1, by have := hov b s h1 h2 h3; omega⟩⟩

/-- **strcpy_s / its generic form** -/
theorem strcpyG_accs (max : Nat) (cfg : Cfg) (dest dmax src : Nat) (b : Bos)
    (hrs : src ≠ 0 → ∀ a, Str d src dmax a → R a)
    (hrd : dest ≠ 0 → ∀ a, Cells dest dmax a → R a) (hw : dest ≠ 0 → ∀ a, Cells dest dmax a → W a) :
    AccS R W d (strcpyG max cfg dest dmax src b) (fun _ _ => True) := by
  unfold strcpyG
  split
  · exact AccS_failS _ trivial
  rename_i hd
  split
  · exact AccS_failS _ trivial
  rename_i hm
  have h0 : W dest := hw hd _ ⟨Nat.le_refl _, by omega⟩
  refine AccS_chkDmaxClear cfg dest dmax b max hm (hrd hd) (hw hd) ?_
  split
  · exact AccS_errRet cfg dest dmax _ _ (hw hd) h0
  rename_i hs
  split
  · exact AccS.pure _ trivial
  · exact AccS_copyBody cfg false dest dmax src 0 (hrs hs) (hw hd) h0

/-- **strncpy_s / its generic form** -/
theorem strncpyG_accs (max : Nat) (cfg : Cfg) (dest dmax src slen : Nat) (db sb : Bos)
    (hob : dest ≠ 0 → ∀ b s, db = some b → sb = some s → s < slen → (∀ a, Cells dest b a → R a) ∧ (∀ a, Cells dest b a → W a))
    (hrs : src ≠ 0 → ∀ a, Str d src (min dmax slen) a → R a)
    (hrd : dest ≠ 0 → ∀ a, Cells dest dmax a → R a) (hw : dest ≠ 0 → ∀ a, Cells dest dmax a → W a) :
    AccS R W d (strncpyG max cfg dest dmax src slen db sb) (fun _ _ => True) := by
  unfold strncpyG
  split
  · rename_i h
    exact AccS.storeBind (hw h.2.1 _ ⟨Nat.le_refl _, by omega⟩) (AccS.pure _ trivial)
  split
  · exact AccS_failS _ trivial
  rename_i hd
  split
  · exact AccS_failS _ trivial
  rename_i hm
  have h0 : W dest := hw hd _ ⟨Nat.le_refl _, by omega⟩
  refine AccS_chkDmaxClear' cfg dest dmax db max hm (hrd hd) (hw hd) (fun hle => ?_)
  split
  · exact AccS_errRet cfg dest dmax _ _ (hw hd) h0
  rename_i hs
  refine AccS_chkSlenMaxClear cfg dest dmax slen max hm (hrd hd) (hw hd) ?_
  have body := AccS_copyBody (d := d) cfg true dest dmax src slen (hrs hs) (hw hd) h0
  split
  · rename_i s
    split
    · rename_i hgt
      exact AccS_bosOverflow cfg dest dmax db hm (fun b hb => hob hd b s hb rfl hgt) hle (hw hd)
    · exact body
  · exact body

/-- **strcat_s / its generic form** -/
theorem strcatG_accs (max : Nat) (cfg : Cfg) (dest dmax src : Nat) (b : Bos)
    (hrs : src ≠ 0 → ∀ a, Str d src dmax a → R a)
    (hrd : dest ≠ 0 → ∀ a, Cells dest dmax a → R a) (hw : dest ≠ 0 → ∀ a, Cells dest dmax a → W a) :
    AccS R W d (strcatG max cfg dest dmax src b) (fun _ _ => True) := by
  unfold strcatG
  split
  · exact AccS_failS _ trivial
  rename_i hd
  split
  · exact AccS_failS _ trivial
  rename_i hm
  have h0 : W dest := hw hd _ ⟨Nat.le_refl _, by omega⟩
  refine AccS_chkDmaxClear cfg dest dmax b max hm (hrd hd) (hw hd) ?_
  split
  · exact AccS_errRet cfg dest dmax _ _ (hw hd) h0
  rename_i hs
  exact AccS_catBody2 cfg false dest dmax src 0 (by omega) (hrs hs) (hrd hd) (hw hd)

/-- the `slen == 0` exit of the bounded concatenations -/
theorem AccS_catSlen0 (cfg : Cfg) (dest dmax : Nat) (hpos : dmax ≠ 0)
    (hr : ∀ a, Cells dest dmax a → R a) (hw : ∀ a, Cells dest dmax a → W a) :
    AccS R W d (do
      let l ← strnlen_s dest dmax none
      let error := if l < dmax then EOK else ESZEROL
      handleError cfg dest dmax error
      pure error : Prog Nat) (fun _ _ => True) := by
  refine AccS.bind (AccS_strnlen_s_le dest dmax none (fun _ => hr)) (fun l d' _ => ?_)
  exact AccS_errRet cfg dest dmax _ _ hw (hw _ ⟨Nat.le_refl _, by omega⟩)

theorem AccS_wcatSlen0 (cfg : Cfg) (dest dmax : Nat) (hpos : dmax ≠ 0)
    (hr : ∀ a, Cells dest dmax a → R a) (hw : ∀ a, Cells dest dmax a → W a) :
    AccS R W d (do
      let l ← wcsnlen_s dest dmax
      let error := if l < dmax then EOK else ESZEROL
      handleError cfg dest dmax error
      pure error : Prog Nat) (fun _ _ => True) := by
  refine AccS.bind (AccS_wcsnlen_s_le dest dmax (fun _ => hr)) (fun l d' _ => ?_)
  exact AccS_errRet cfg dest dmax _ _ hw (hw _ ⟨Nat.le_refl _, by omega⟩)

/-- **strncat_s / its generic form** -/
theorem strncatG_accs (max : Nat) (cfg : Cfg) (dest dmax src slen : Nat) (db sb : Bos)
    (hob : dest ≠ 0 → ∀ b s, db = some b → sb = some s → s < slen → (∀ a, Cells dest b a → R a) ∧ (∀ a, Cells dest b a → W a))
    (hrs : src ≠ 0 → ∀ a, Str d src (min dmax slen) a → R a)
    (hrd : dest ≠ 0 → ∀ a, Cells dest dmax a → R a) (hw : dest ≠ 0 → ∀ a, Cells dest dmax a → W a) :
    AccS R W d (strncatG max cfg dest dmax src slen db sb) (fun _ _ => True) := by
  unfold strncatG
  split
  · exact AccS.pure _ trivial
  split
  · exact AccS_failS _ trivial
  rename_i hd
  split
  · exact AccS_failS _ trivial
  rename_i hm
  have h0 : W dest := hw hd _ ⟨Nat.le_refl _, by omega⟩
  refine AccS_chkDmaxClear' cfg dest dmax db max hm (hrd hd) (hw hd) (fun hle => ?_)
  split
  · exact AccS_errRet cfg dest dmax _ _ (hw hd) h0
  rename_i hs
  refine AccS_chkSlenMaxClear cfg dest dmax slen max hm (hrd hd) (hw hd) ?_
  split
  · exact AccS_catSlen0 cfg dest dmax hm (hrd hd) (hw hd)
  have body := AccS_catBody2 (d := d) cfg true dest dmax src slen (by omega) (hrs hs) (hrd hd) (hw hd)
  dsimp only
  split
  · rename_i s
    split
    · rename_i hgt
      exact AccS_bosOverflow cfg dest dmax db hm (fun b hb => hob hd b s hb rfl hgt) hle (hw hd)
    · exact body
  · exact body

/-! ## the wide twins -/

/-- **wcscpy_s** -/
theorem wcscpy_s_accs (cfg : Cfg) (dest dmax src : Nat) (b : Bos)
    (hrs : src ≠ 0 → ∀ a, Str d src dmax a → R a) (hw : dest ≠ 0 → ∀ a, Cells dest dmax a → W a) :
    AccS R W d (wcscpy_s cfg dest dmax src b) (fun _ _ => True) := by
  unfold wcscpy_s
  split
  · exact AccS_failS _ trivial
  rename_i hd
  split
  · exact AccS_failS _ trivial
  rename_i hm
  have h0 : W dest := hw hd _ ⟨Nat.le_refl _, by omega⟩
  refine AccS_chkDmaxClearW cfg dest dmax b hm (hw hd) ?_
  split
  · exact AccS_errRet cfg dest dmax _ _ (hw hd) h0
  rename_i hs
  split
  · exact AccS.pure _ trivial
  · exact AccS_copyBody cfg false dest dmax src 0 (hrs hs) (hw hd) h0

/-- **wcsncpy_s**: the `slen` exits measure dest with `wcsnlen_s(dest, dmax)` — inside `dmax` -/
theorem wcsncpy_s_accs (cfg : Cfg) (dest dmax src slen : Nat) (db sb : Bos)
    (hrs : src ≠ 0 → ∀ a, Str d src (min dmax slen) a → R a)
    (hrd : dest ≠ 0 → ∀ a, Cells dest dmax a → R a) (hw : dest ≠ 0 → ∀ a, Cells dest dmax a → W a) :
    AccS R W d (wcsncpy_s cfg dest dmax src slen db sb) (fun _ _ => True) := by
  unfold wcsncpy_s
  split
  · rename_i h
    exact AccS.storeBind (hw h.2.1 _ ⟨Nat.le_refl _, by omega⟩) (AccS.pure _ trivial)
  split
  · exact AccS_failS _ trivial
  rename_i hd
  split
  · exact AccS_failS _ trivial
  rename_i hm
  have h0 : W dest := hw hd _ ⟨Nat.le_refl _, by omega⟩
  refine AccS_chkDmaxClearW cfg dest dmax db hm (hw hd) ?_
  split
  · exact AccS_errRet cfg dest dmax _ _ (hw hd) h0
  rename_i hs
  split
  · exact AccS_wlenClear cfg dest dmax _ _ hm (hrd hd) (hw hd)
  have body := AccS_copyBody (d := d) cfg true dest dmax src slen (hrs hs) (hw hd) h0
  dsimp only
  split
  · split
    · exact AccS_wlenClear cfg dest dmax _ _ hm (hrd hd) (hw hd)
    · exact body
  · exact body

/-- **wcscat_s** (`CHK_DESTW_OVR`: the object-size exits do not clear) -/
theorem wcscat_s_accs (cfg : Cfg) (dest dmax src : Nat) (b : Bos)
    (hrs : src ≠ 0 → ∀ a, Str d src dmax a → R a)
    (hrd : dest ≠ 0 → ∀ a, Cells dest dmax a → R a) (hw : dest ≠ 0 → ∀ a, Cells dest dmax a → W a) :
    AccS R W d (wcscat_s cfg dest dmax src b) (fun _ _ => True) := by
  unfold wcscat_s
  split
  · exact AccS_failS _ trivial
  rename_i hd
  split
  · exact AccS_failS _ trivial
  rename_i hm
  have h0 : W dest := hw hd _ ⟨Nat.le_refl _, by omega⟩
  refine AccS_chkDmaxW dmax b ?_
  split
  · exact AccS_errRet cfg dest dmax _ _ (hw hd) h0
  rename_i hs
  exact AccS_catBody2 cfg false dest dmax src 0 (by omega) (hrs hs) (hrd hd) (hw hd)

/-- **wcsncat_s** -/
theorem wcsncat_s_accs (cfg : Cfg) (dest dmax src slen : Nat) (db sb : Bos)
    (hrs : src ≠ 0 → ∀ a, Str d src (min dmax slen) a → R a)
    (hrd : dest ≠ 0 → ∀ a, Cells dest dmax a → R a) (hw : dest ≠ 0 → ∀ a, Cells dest dmax a → W a) :
    AccS R W d (wcsncat_s cfg dest dmax src slen db sb) (fun _ _ => True) := by
  unfold wcsncat_s
  split
  · exact AccS.pure _ trivial
  split
  · exact AccS_failS _ trivial
  rename_i hd
  split
  · exact AccS_failS _ trivial
  rename_i hm
  have h0 : W dest := hw hd _ ⟨Nat.le_refl _, by omega⟩
  refine AccS_chkDmaxW dmax db ?_
  split
  · exact AccS_errRet cfg dest dmax _ _ (hw hd) h0
  rename_i hs
  split
  · exact AccS_wlenClear cfg dest dmax _ _ hm (hrd hd) (hw hd)
  have rest : AccS R W d (if slen = 0 then do
        let l ← wcsnlen_s dest dmax
        let error := if l < dmax then EOK else ESZEROL
        handleError cfg dest dmax error
        pure error
      else if dest < src then do
        match ← findEnd cfg true src dest dmax dmax dest with
        | .inl code => pure code
        | .inr (p, m) => copyLoop cfg true true src dest dmax m p src slen
      else do
        match ← findEnd cfg false dest dest dmax dmax dest with
        | .inl code => pure code
        | .inr (p, m) => copyLoop cfg false true dest dest dmax m p src slen : Prog Nat) (fun _ _ => True) := by
    split
    · exact AccS_wcatSlen0 cfg dest dmax hm (hrd hd) (hw hd)
    · exact AccS_catBody2 cfg true dest dmax src slen (by omega) (hrs hs) (hrd hd) (hw hd)
  dsimp only
  split
  · split
    · exact AccS_wlenClear cfg dest dmax _ _ hm (hrd hd) (hw hd)
    · exact rest
  · exact rest

end SafeC

import SafeC.Proofs.SortBits
/-!
# qsort_s model: what happens when two consecutive tree orders are exactly 64 apart

Code WITHOUT the `pntz` repair (`Fixes.pntzGap = false`): `pntz` answers 0 for `p = {1, odd}` (`pntz_at64`).  In `trinkle` the shift by 0 leaves `p = {1,1}`, `pshift = 1` unchanged, so
the loop keeps stepping to `head - lp[1] = head - 1` and never sees `p == {1,0}`; it stops only when the comparator lets it.
With a comparator that keeps answering "greater" (the new element is smaller than what it meets) `ar[]` is overrun after
its 113 entries: `Fault.arIdx`, a stack buffer overflow in the C.  The state `p = {1,1}`, `pshift = 1` is the forest of
orders 1 and 65 (Props/C16 `qsort_safe_witness`), i.e. an array of at least `leo 65 + 1` = 55 555 780 070 576 elements.
-/
namespace SafeC.Sort
variable {α : Type}

theorem trinkleIter_const (e : Env α) (hcmp : ∀ k i j x y, e.cmp k i j x y = 1) (hlp1 : e.lp[1]? = some 1) (s : St α)
    (ar0 head : Nat) (trusty : Bool) (h0 : ar0 < s.a.size) (hh : head < s.a.size) (h1 : 1 ≤ head) :
    ∃ s', trinkleIter e s ar0 head 1 trusty = .ok (s', some (head - 1)) ∧ s'.a = s.a := by
  have hs : head - 1 < s.a.size := by omega
  have e0 : lpAt e.lp 1 = .ok 1 := by unfold lpAt; simp only [hlp1]
  have e1 : sub head 1 = .ok (head - 1) := by unfold sub; simp only [h1, if_true]
  have e2 : ∃ s1, cmpAt e s (head - 1) ar0 = .ok (1, s1) ∧ s1.a = s.a := by
    unfold cmpAt; simp only [hs, h0, dite_true, hcmp]; exact ⟨_, rfl, rfl⟩
  obtain ⟨s1, e2, ha⟩ := e2
  refine ⟨s1, ?_, ha⟩
  unfold trinkleIter
  simp only [e0, e1, e2, bind, Except.bind, pure, Except.pure]
  simp

theorem trinkleLoop_gap64 (e : Env α) (hfx : e.fx.ctz64 = true) (hgap : e.fx.pntzGap = false) (hcmp : ∀ k i j x y, e.cmp k i j x y = 1)
    (hlp1 : e.lp[1]? = some 1) (ar0 : Nat) : ∀ (room : Nat) (s : St α) (head : Nat) (trusty : Bool) (acc : List Nat),
    ar0 < s.a.size → head < s.a.size → room + 1 ≤ head →
    trinkleLoop e room s ar0 head ⟨1, 1⟩ 1 trusty acc = .error .arIdx := by
  have hne : (⟨1, 1⟩ : PV) ≠ PV.one := by decide
  have hp : pntz e.fx ⟨1, 1⟩ = 0 := pntz_at64 e.fx hfx hgap ⟨1, 1⟩ (by decide) (by decide) (by
    intro j h1 h2
    have : ∀ j : Fin 64, 0 < j.val → (⟨1, 1⟩ : PV).bit j.val = false := by decide
    exact this ⟨j, h2⟩ h1)
  have hshr : shr ⟨1, 1⟩ 0 = ⟨1, 1⟩ := by decide
  intro room
  induction room with
  | zero =>
    intro s head trusty acc h0 hh hr
    obtain ⟨s', hs', _⟩ := trinkleIter_const e hcmp hlp1 s ar0 head trusty h0 hh (by omega)
    unfold trinkleLoop
    simp only [hne, if_false, hs', bind, Except.bind]
  | succ room ih =>
    intro s head trusty acc h0 hh hr
    obtain ⟨s', hs', ha'⟩ := trinkleIter_const e hcmp hlp1 s ar0 head trusty h0 hh (by omega)
    unfold trinkleLoop
    simp only [hne, if_false, hs', bind, Except.bind, hp, hshr, Nat.add_zero]
    exact ih s' (head - 1) false ((head - 1) :: acc) (by rw [ha']; exact h0) (by rw [ha']; omega) (by omega)

/-- from the state of a heap of orders 1 and 65, a comparator answering "greater" throughout: `trinkle` overruns `ar[]` -/
theorem trinkle_gap64_overrun (e : Env α) (hfx : e.fx.ctz64 = true) (hgap : e.fx.pntzGap = false) (hcmp : ∀ k i j x y, e.cmp k i j x y = 1)
    (hlp1 : e.lp[1]? = some 1) (s : St α) (head : Nat) (hh : head < s.a.size) (h113 : 113 ≤ head) :
    trinkle e s head ⟨1, 1⟩ 1 false = .error .arIdx := by
  unfold trinkle
  rw [trinkleLoop_gap64 e hfx hgap hcmp hlp1 head 112 s head false [head] hh hh (by omega)]
  rfl

end SafeC.Sort

import SafeC.Proofs.TokSeq
import SafeC.Proofs.TokList
/-!
# From the memory-level call description (`callSpec`) to the list-level reference (`TokSpec.refSeq`)

* `cstr m p n` — the C string at `p` as a list (at most `n` cells looked at);
* `skipD_eq` / `findE_eq` — the two scan positions are `takeWhile` lengths on that list;
* `callSpec_eq_ref` — one call, as described by `callSpec` on the memory, is the head of `refSeq` on the list;
* `rest_after` — the string left for the next call is the list `refSeq` continues with.
-/
namespace SafeC.Props.C14
open SafeC Gen SafeC.TokSpec

/-- the string at `p`: the cells before the first NUL among the `n` cells at `p` -/
def cstr (m : Nat → Nat) (p : Nat) : Nat → List Nat
  | 0 => []
  | n+1 => if m p = 0 then [] else m p :: cstr m (p+1) n

theorem cstr_length (m : Nat → Nat) (p n : Nat) : (cstr m p n).length = scanLen m p n := by
  induction n generalizing p with
  | zero => rfl
  | succ n ih =>
    simp only [cstr, scanLen]
    split
    · rfl
    · simp [ih, Nat.add_comm]

theorem cstr_nonzero (m : Nat → Nat) (p n : Nat) : ∀ c ∈ cstr m p n, c ≠ 0 := by
  induction n generalizing p with
  | zero => intro c hc; simp [cstr] at hc
  | succ n ih =>
    intro c hc
    simp only [cstr] at hc
    split at hc
    · simp at hc
    · rename_i h0
      rcases List.mem_cons.mp hc with rfl | hc
      · exact h0
      · exact ih _ c hc

theorem cstr_getElem (m : Nat → Nat) (p n i : Nat) (hi : i < (cstr m p n).length) : (cstr m p n)[i] = m (p+i) := by
  induction n generalizing p i with
  | zero => simp [cstr] at hi
  | succ n ih =>
    simp only [cstr] at hi ⊢
    split
    · rename_i h0; simp [h0] at hi
    · rename_i h0
      simp only [h0, if_false] at hi
      cases i with
      | zero => simp
      | succ i =>
        simp only [List.getElem_cons_succ]
        rw [ih (p+1) i (by simpa using hi)]
        congr 1; omega

theorem cstr_congr (m m' : Nat → Nat) (p n : Nat) (h : ∀ j, j < n → m (p+j) = m' (p+j)) : cstr m p n = cstr m' p n := by
  induction n generalizing p with
  | zero => rfl
  | succ n ih =>
    have h0 := h 0 (by omega)
    simp only [Nat.add_zero] at h0
    simp only [cstr, h0]
    split
    · rfl
    · rw [ih (p+1) (fun j hj => by have := h (j+1) (by omega); simpa [Nat.add_assoc, Nat.add_comm 1 j] using this)]

/-- the string seen from `j` cells further on -/
theorem cstr_drop (m : Nat → Nat) (p n j : Nat) (hj : j ≤ scanLen m p n) :
    cstr m (p+j) (n-j) = (cstr m p n).drop j := by
  induction j generalizing p n with
  | zero => simp
  | succ j ih =>
    cases n with
    | zero => simp [scanLen] at hj
    | succ n =>
      simp only [scanLen] at hj
      simp only [cstr]
      split
      · rename_i h0; simp [h0] at hj
      · rename_i h0
        simp only [h0, if_false] at hj
        have := ih (p+1) n (by omega)
        simp only [List.drop_succ_cons]
        rw [← this]
        congr 1 <;> omega

/-- `isDelim` is membership in the delimiter string seen as a list -/
theorem inSet_eq_contains (m : Nat → Nat) (c p n : Nat) : inSet m c p n = (cstr m p n).contains c := by
  induction n generalizing p with
  | zero => simp [inSet, cstr]
  | succ n ih =>
    simp only [inSet, cstr]
    split
    · simp
    · split
      · rename_i h; simp [h]
      · rename_i h
        rw [ih (p+1)]
        simp only [List.contains_cons]
        have : (c == m p) = false := by simpa using h
        simp [this]

/-- the delimiter set of the string at `dl`, as a list -/
def delimsAt (m : Nat → Nat) (dl : Nat) : List Nat := cstr m dl STRTOK_DELIM_MAX_LEN

theorem isDelim_eq (m : Nat → Nat) (dl : Nat) : isDelim m dl = fun c => (delimsAt m dl).contains c := by
  funext c; exact inSet_eq_contains m c dl _

theorem skipD_eq (m : Nat → Nat) (dl n p : Nat) :
    skipD m dl n p = p + ((cstr m p n).takeWhile (isDelim m dl)).length := by
  induction n generalizing p with
  | zero => simp [skipD, cstr]
  | succ n ih =>
    simp only [skipD, cstr]
    split
    · simp
    · split
      · rename_i hd
        rw [List.takeWhile_cons_of_pos hd, ih (p+1)]
        simp only [List.length_cons]; omega
      · rename_i hd
        rw [List.takeWhile_cons_of_neg hd]; simp

theorem findE_eq (m : Nat → Nat) (dl n p : Nat) :
    findE m dl n p = p + ((cstr m p n).takeWhile (fun c => !isDelim m dl c)).length := by
  induction n generalizing p with
  | zero => simp [findE, cstr]
  | succ n ih =>
    simp only [findE, cstr]
    split
    · simp
    · split
      · rename_i hd
        rw [List.takeWhile_cons_of_neg (by simp [hd])]; simp
      · rename_i hd
        rw [List.takeWhile_cons_of_pos (by simpa using hd), ih (p+1)]
        simp only [List.length_cons]; omega

/-- with the NUL inside the `n` cells: the cell `j ≤ strlen` cells on is NUL exactly when nothing is left -/
theorem cell_zero_iff (m : Nat → Nat) (p n j : Nat) (hz : scanLen m p n < n) (hj : j ≤ scanLen m p n) :
    m (p+j) = 0 ↔ (cstr m p n).drop j = [] := by
  rw [List.drop_eq_nil_iff, cstr_length]
  constructor
  · intro h0
    apply Classical.byContradiction; intro hlt
    exact scanLen_nonzero m p n j (by omega) h0
  · intro hle
    have : j = scanLen m p n := by omega
    subst this; exact scanLen_zero m p n hz

/-- the head of the reference sequence for the string `s` at offset `off`, as a `CallSpec` on addresses:
`base` is the address of offset 0, `lim = base + dmax` the end of the declared extent -/
def refCallSpec (base lim : Nat) (r : RefCall) : CallSpec :=
  { ret := match r.tok with
      | none => 0
      | some (o, _) => base + o
    ptr := base + r.next
    rem := lim - (base + r.next)
    cut := r.cut.map (fun c => base + c) }

/-- **one call on the memory = one step of the list-level reference** -/
theorem callSpec_eq_ref (m : Nat → Nat) (dl p n base off : Nat) (hz : scanLen m p n < n) (hp : p = base + off) :
    callSpec m dl p n = refCallSpec base (p + n) (refHead (isDelim m dl) off (cstr m p n)) ∧
    cstr (afterCall m (callSpec m dl p n)) (callSpec m dl p n).ptr (callSpec m dl p n).rem
      = refRest (isDelim m dl) (cstr m p n) := by
  -- the list-level quantities
  have hlen := cstr_length m p n
  have hlead := takeWhile_length_le (isDelim m dl) (cstr m p n)
  have hs1 := dropWhile_eq_drop (isDelim m dl) (cstr m p n)
  have ha := skipD_eq m dl n p
  have hagt := afterCall_agree_tail m dl p n hz
  have hrest : cstr (afterCall m (callSpec m dl p n)) (callSpec m dl p n).ptr (callSpec m dl p n).rem
      = cstr m (callSpec m dl p n).ptr (callSpec m dl p n).rem :=
    (cstr_congr m _ _ _ (fun j _ => hagt _ (by omega))).symm
  rw [hrest]
  obtain ⟨h1, h2, h3⟩ := callSpec_facts m dl p n hz
  have hcell := cell_zero_iff m p n ((cstr m p n).takeWhile (isDelim m dl)).length hz (by omega)
  rw [← ha, ← hs1] at hcell
  unfold callSpec refHead refRest refCallSpec
  by_cases h0 : m (skipD m dl n p) = 0
  · have hnil := hcell.mp h0
    simp only [h0, if_true, hnil]
    refine ⟨?_, ?_⟩
    · simp only [Option.map_none, CallSpec.mk.injEq, true_and]
      refine ⟨by omega, by omega, trivial⟩
    · -- at the NUL nothing is left
      simp only [List.dropWhile_nil, List.drop_nil]
      have hpos : 0 < n - (skipD m dl n p - p) := by omega
      cases hk : n - (skipD m dl n p - p) with
      | zero => omega
      | succ k => simp [cstr, h0]
  · have hne : (cstr m p n).dropWhile (isDelim m dl) ≠ [] := fun h => h0 (hcell.mpr h)
    obtain ⟨h4, h5, h6⟩ := h3 h0
    simp only [h0, if_false, hne]
    -- the token end, seen from the token start
    have hnd : isDelim m dl (m (skipD m dl n p)) = false := by
      rcases (skipD_stop m dl n p hz).2 with h | h
      · exact absurd h h0
      · exact h
    have hb : findE m dl (n - (skipD m dl n p - p) - 1) (skipD m dl n p + 1)
        = findE m dl (n - (skipD m dl n p - p)) (skipD m dl n p) := by
      have e : n - (skipD m dl n p - p) = (n - (skipD m dl n p - p) - 1) + 1 := by omega
      conv => rhs; rw [e]; unfold findE
      simp [h0, hnd]
    have hs1' : cstr m (skipD m dl n p) (n - (skipD m dl n p - p)) = (cstr m p n).dropWhile (isDelim m dl) := by
      rw [hs1, ← cstr_drop m p n _ (by omega), ha]
      congr 1; omega
    have hbe := findE_eq m dl (n - (skipD m dl n p - p)) (skipD m dl n p)
    rw [hs1'] at hbe
    rw [hb, hbe]
    -- lengths
    have htl := takeWhile_length_le (fun c => !isDelim m dl c) ((cstr m p n).dropWhile (isDelim m dl))
    have hs1len : ((cstr m p n).dropWhile (isDelim m dl)).length
        = scanLen m p n - ((cstr m p n).takeWhile (isDelim m dl)).length := by
      rw [hs1, List.length_drop, hlen]
    have hs2 := dropWhile_eq_drop (fun c => !isDelim m dl c) ((cstr m p n).dropWhile (isDelim m dl))
    -- the cell at the token end
    have hcell2 := cell_zero_iff m p n
      (((cstr m p n).takeWhile (isDelim m dl)).length +
        (((cstr m p n).dropWhile (isDelim m dl)).takeWhile (fun c => !isDelim m dl c)).length) hz (by omega)
    have hdd : (cstr m p n).drop (((cstr m p n).takeWhile (isDelim m dl)).length +
        (((cstr m p n).dropWhile (isDelim m dl)).takeWhile (fun c => !isDelim m dl c)).length)
        = ((cstr m p n).dropWhile (isDelim m dl)).dropWhile (fun c => !isDelim m dl c) := by
      rw [hs2, hs1, List.drop_drop]
    rw [hdd] at hcell2
    have haddr : skipD m dl n p + (((cstr m p n).dropWhile (isDelim m dl)).takeWhile (fun c => !isDelim m dl c)).length
        = p + (((cstr m p n).takeWhile (isDelim m dl)).length +
          (((cstr m p n).dropWhile (isDelim m dl)).takeWhile (fun c => !isDelim m dl c)).length) := by omega
    rw [haddr]
    by_cases hb0 : m (p + (((cstr m p n).takeWhile (isDelim m dl)).length +
          (((cstr m p n).dropWhile (isDelim m dl)).takeWhile (fun c => !isDelim m dl c)).length)) = 0
    · have hnil2 := hcell2.mp hb0
      simp only [hb0, if_true, hnil2]
      refine ⟨?_, ?_⟩
      · simp only [Option.map_none, CallSpec.mk.injEq, and_true]
        refine ⟨by omega, by omega, by omega⟩
      · simp only [List.drop_nil]
        generalize hk : n - (skipD m dl n p - p) - 1 - (p + (((cstr m p n).takeWhile (isDelim m dl)).length +
          (((cstr m p n).dropWhile (isDelim m dl)).takeWhile (fun c => !isDelim m dl c)).length) - (skipD m dl n p + 1)) = k
        cases k with
        | zero => rfl
        | succ k => simp [cstr, hb0]
    · have hne2 : ((cstr m p n).dropWhile (isDelim m dl)).dropWhile (fun c => !isDelim m dl c) ≠ [] :=
        fun h => hb0 (hcell2.mpr h)
      have hlen2 : 0 < (((cstr m p n).dropWhile (isDelim m dl)).dropWhile (fun c => !isDelim m dl c)).length :=
        List.length_pos_iff.mpr hne2
      rw [← hdd, List.length_drop, hlen] at hlen2
      simp only [hb0, if_false, hne2]
      refine ⟨?_, ?_⟩
      · simp only [Option.map_some, CallSpec.mk.injEq]
        refine ⟨by omega, by omega, by omega, congrArg some (by omega)⟩
      · rw [← hdd, List.drop_drop]
        rw [← cstr_drop m p n _ (by omega)]
        congr 1 <;> omega

end SafeC.Props.C14

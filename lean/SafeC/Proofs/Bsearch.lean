import SafeC.Models.Sort
/-! # bsearch_s loop: found iff present (partitioned array), probes in range, probe count -/
namespace SafeC.Sort

/-- worst-case number of probes of the loop for a window of `m` elements (the right branch keeps `m - m/2`) -/
def steps : Nat → Nat → Nat
  | 0, _ => 0
  | f + 1, m => if m = 0 then 0 else if m = 1 then 1 else 1 + steps f (m - m / 2)

theorem steps_bound : ∀ (f m : Nat), 2 ≤ m → 2 ^ (steps f m - 1) ≤ 2 * (m - 1)
  | 0, m, h => by simp [steps]; omega
  | f + 1, m, h => by
    unfold steps
    have h0 : m ≠ 0 := by omega
    have h1 : m ≠ 1 := by omega
    simp only [h0, h1, if_false]
    by_cases h2 : m - m / 2 = 1
    · have : steps f 1 ≤ 1 := by cases f <;> simp [steps]
      have h3 : 1 + steps f (m - m / 2) - 1 ≤ 1 := by rw [h2]; omega
      calc 2 ^ (1 + steps f (m - m / 2) - 1) ≤ 2 ^ 1 := Nat.pow_le_pow_right (by omega) h3
        _ ≤ 2 * (m - 1) := by omega
    · have hm : 2 ≤ m - m / 2 := by omega
      have ih := steps_bound f (m - m / 2) hm
      have hs : 1 ≤ steps f (m - m / 2) ∨ steps f (m - m / 2) = 0 := by omega
      rcases hs with hs | hs
      · have : 1 + steps f (m - m / 2) - 1 = (steps f (m - m / 2) - 1) + 1 := by omega
        rw [this, Nat.pow_succ]
        omega
      · rw [hs]; simp; omega

/-- the comparator is a function of the probed element only (consistent), ignoring call number and position -/
def BCmp.pureOf (f : α → Int) (ctx : Nat) : BCmp α := ⟨fun _ _ x => f x, ctx, true⟩

/-- what one run of the loop guarantees, for a window `[b, b+m)` of an array whose first `n` elements are
    partitioned w.r.t. the key (`f x = cmp(key, x)`): `+ … + 0 … 0 - … -` -/
structure BsPost (f : α → Int) (ctx : Nat) (n b m : Nat) (s : St α) (r : Option Nat × St α) : Prop where
  arr : r.2.a = s.a
  found : ∀ j, r.1 = some j → ∃ h : j < s.a.size, j < n ∧ f s.a[j] = 0
  none : r.1 = none → ∀ j (h : j < s.a.size), b ≤ j → j < b + m → f s.a[j] ≠ 0
  log : ∃ l, r.2.log = l ++ s.log ∧ (∀ ev ∈ l, b ≤ ev.i ∧ ev.i < b + m ∧ ev.j = ev.i ∧ ev.ctx = ctx) ∧ l.length = r.2.ncmp - s.ncmp
  cnt : ∀ fu, m ≤ fu → r.2.ncmp - s.ncmp ≤ steps fu m
  mono : s.ncmp ≤ r.2.ncmp

/-- partition: once the key compares less than an element it compares less than all later ones, and
    once it compares greater it compares greater than all earlier ones -/
structure Partitioned (f : α → Int) (a : Array α) (n : Nat) : Prop where
  neg : ∀ i j (hi : i < a.size) (hj : j < a.size), i ≤ j → j < n → f a[i] < 0 → f a[j] < 0
  pos : ∀ i j (hi : i < a.size) (hj : j < a.size), i ≤ j → j < n → f a[j] > 0 → f a[i] > 0

theorem probe_pure (f : α → Int) (ctx : Nat) (s : St α) (i : Nat) (h : i < s.a.size) :
    probe (BCmp.pureOf f ctx) s i = .ok (f s.a[i], { s with log := ⟨i, i, ctx⟩ :: s.log, ncmp := s.ncmp + 1 }) := by
  simp [probe, BCmp.pureOf, h]

theorem steps_mono_fuel : ∀ (f m : Nat), m ≤ f → steps f m = steps (f + 1) m
  | 0, m, h => by
    have : m = 0 := by omega
    subst this; simp [steps]
  | f + 1, m, h => by
    unfold steps
    by_cases h0 : m = 0
    · simp [h0]
    · by_cases h1 : m = 1
      · simp [h1]
      · simp only [h0, h1, if_false]
        rw [steps_mono_fuel f (m - m / 2) (by omega)]

theorem steps_fuel_irrel (f g m : Nat) (hf : m ≤ f) (hg : m ≤ g) : steps f m = steps g m := by
  have key : ∀ d f, m ≤ f → steps f m = steps (f + d) m := by
    intro d
    induction d with
    | zero => intro f _; rfl
    | succ d ih => intro f hf; rw [ih f hf, steps_mono_fuel (f + d) m (by omega)]; rfl
  rcases Nat.le_total f g with h | h
  · obtain ⟨d, rfl⟩ := Nat.exists_eq_add_of_le h; exact key d f hf
  · obtain ⟨d, rfl⟩ := Nat.exists_eq_add_of_le h; exact (key d g hg).symm

/-- monotonicity of `steps` in the window size -/
theorem steps_mono : ∀ (g a b : Nat), a ≤ b → b ≤ g → steps g a ≤ steps g b := by
      intro g
      induction g with
      | zero => intro a b hab hb; have : a = 0 := by omega
                subst this; have : b = 0 := by omega
                subst this; exact Nat.le_refl _
      | succ g ihg =>
        intro a b hab hb
        unfold steps
        by_cases ha0 : a = 0
        · simp [ha0]
        · by_cases ha1 : a = 1
          · have hb0 : b ≠ 0 := by omega
            simp only [ha1, hb0, if_false]
            by_cases hb1 : b = 1
            · simp [hb1]
            · simp [hb1]
          · have hb0 : b ≠ 0 := by omega
            have hb1 : b ≠ 1 := by omega
            simp only [ha0, ha1, hb0, hb1, if_false]
            have := ihg (a - a / 2) (b - b / 2) (by omega) (by omega)
            omega

/-- the right branch is the longer one -/
theorem steps_left_le (f m : Nat) (h : m - m / 2 ≤ f) : steps f (m / 2) ≤ steps f (m - m / 2) :=
  steps_mono f (m / 2) (m - m / 2) (by omega) h

theorem bsearchLoop_spec (f : α → Int) (ctx n : Nat) :
    ∀ (fuel : Nat) (s : St α) (b m : Nat), m ≤ fuel → b + m ≤ n → n ≤ s.a.size → Partitioned f s.a n →
      (∀ j (h : j < s.a.size), j < b → f s.a[j] > 0) →
      (∀ j (h : j < s.a.size), b + m ≤ j → j < n → f s.a[j] < 0) →
      ∃ r, bsearchLoop (BCmp.pureOf f ctx) fuel s b m = .ok r ∧ BsPost f ctx n b m s r ∧
        (r.1 = none → ∀ j (h : j < s.a.size), j < n → f s.a[j] ≠ 0) := by
  intro fuel
  induction fuel with
  | zero =>
    intro s b m hm hbn hn hp hl hr
    have : m = 0 := by omega
    subst this
    refine ⟨(none, s), by simp [bsearchLoop], ⟨rfl, by simp, by intro _ j h h1 h2; omega, ⟨[], by simp⟩, by intro fu _; simp, Nat.le_refl _⟩, ?_⟩
    intro _ j h hj
    by_cases hjb : j < b
    · have := hl j h hjb; omega
    · have := hr j h (by omega) hj; omega
  | succ fuel ih =>
    intro s b m hm hbn hn hp hl hr
    unfold bsearchLoop
    by_cases hm0 : m = 0
    · subst hm0
      refine ⟨(none, s), by simp, ⟨rfl, by simp, by intro _ j h h1 h2; omega, ⟨[], by simp⟩, by intro fu _; simp, Nat.le_refl _⟩, ?_⟩
      intro _ j h hj
      by_cases hjb : j < b
      · have := hl j h hjb; omega
      · have := hr j h (by omega) hj; omega
    · have hi : b + m / 2 < s.a.size := by omega
      simp only [hm0, if_false]
      rw [probe_pure f ctx s _ hi]
      simp only [bind, Except.bind]
      -- the state after the probe
      generalize hs1 : ({ s with log := ⟨b + m / 2, b + m / 2, ctx⟩ :: s.log, ncmp := s.ncmp + 1 } : St α) = s1
      have ha1 : s1.a = s.a := by subst hs1; rfl
      have hl1 : s1.log = ⟨b + m / 2, b + m / 2, ctx⟩ :: s.log := by subst hs1; rfl
      have hn1 : s1.ncmp = s.ncmp + 1 := by subst hs1; rfl
      have hstep1 : ∀ fu, m ≤ fu → 1 ≤ steps fu m := by
        intro fu hfu
        cases fu with
        | zero => omega
        | succ fu => unfold steps; simp only [hm0, if_false]; split <;> omega
      by_cases hz : f s.a[b + m / 2] = 0
      · simp only [hz, if_true]
        refine ⟨(some (b + m / 2), s1), rfl, ⟨ha1, ?_, by simp, ⟨[⟨b + m / 2, b + m / 2, ctx⟩], by simp [hl1], by intro ev hev; simp at hev; subst hev; simp; omega, by simp [hn1]⟩, ?_, by simp [hn1]⟩, by simp⟩
        · intro j hj; simp at hj; subst hj; exact ⟨hi, by omega, hz⟩
        · intro fu hfu; simp [hn1]; exact hstep1 fu hfu
      · simp only [hz, if_false]
        by_cases hm1 : m = 1
        · simp only [hm1, if_true]
          subst hm1
          have hmid : b + 1 / 2 = b := by omega
          refine ⟨(none, s1), rfl, ⟨ha1, by simp, ?_, ⟨[⟨b + 1 / 2, b + 1 / 2, ctx⟩], by simp [hl1], by intro ev hev; simp at hev; subst hev; simp, by simp [hn1]⟩, ?_, by simp [hn1]⟩, ?_⟩
          · intro _ j h h1 h2
            have : j = b + 1 / 2 := by omega
            subst this; exact hz
          · intro fu hfu; simp [hn1]; exact hstep1 fu hfu
          · intro _ j h hj
            by_cases hjb : j < b
            · have := hl j h hjb; omega
            · by_cases hjb2 : j = b
              · subst hjb2; simpa [hmid] using hz
              · have := hr j h (by omega) hj; omega
        · simp only [hm1, if_false]
          by_cases hneg : f s.a[b + m / 2] < 0
          · simp only [hneg, if_true]
            -- left half: window (b, m/2)
            have hp1 : Partitioned f s1.a n := by rw [ha1]; exact hp
            obtain ⟨r, hr1, hpost, hnone⟩ := ih s1 b (m / 2) (by omega) (by omega) (by rw [ha1]; exact hn) hp1
              (by intro j h hj; simp only [ha1] at h ⊢; exact hl j h hj)
              (by intro j h hj1 hj2
                  simp only [ha1] at h ⊢
                  exact hp.neg (b + m / 2) j hi h hj1 hj2 hneg)
            refine ⟨r, hr1, ⟨hpost.arr.trans ha1, ?_, ?_, ?_, ?_, by have := hpost.mono; omega⟩, ?_⟩
            · intro j hj; obtain ⟨h, h2, h3⟩ := hpost.found j hj; simp only [ha1] at h h3; exact ⟨h, h2, h3⟩
            · intro hn' j h h1 h2; have := hnone hn' j (by rw [ha1]; exact h); simp only [ha1] at this
              by_cases hjn : j < n
              · exact this hjn
              · omega
            · obtain ⟨l, e1, e2, e3⟩ := hpost.log
              refine ⟨l ++ [⟨b + m / 2, b + m / 2, ctx⟩], by simp [e1, hl1], ?_, ?_⟩
              · intro ev hev
                rcases List.mem_append.mp hev with h | h
                · have := e2 ev h; omega
                · simp at h; subst h; simp; omega
              · have := hpost.mono; simp [e3]; omega
            · intro fu hfu
              have h1 := hpost.cnt fu (by omega)
              have hle := steps_left_le fu m (by omega)
              have : steps fu m = 1 + steps (fu - 1) (m - m / 2) := by
                cases fu with
                | zero => omega
                | succ fu => simp [steps, hm0, hm1]
              have h2 := steps_fuel_irrel (fu - 1) fu (m - m / 2) (by omega) (by omega)
              have := hpost.mono
              omega
            · intro hn' j h hj; have := hnone hn' j (by rw [ha1]; exact h) hj; simpa only [ha1] using this
          · simp only [hneg, if_false]
            have hpos : f s.a[b + m / 2] > 0 := by omega
            have hp1 : Partitioned f s1.a n := by rw [ha1]; exact hp
            obtain ⟨r, hr1, hpost, hnone⟩ := ih s1 (b + m / 2) (m - m / 2) (by omega) (by omega) (by rw [ha1]; exact hn) hp1
              (by intro j h hj
                  simp only [ha1] at h ⊢
                  exact hp.pos j (b + m / 2) h hi (by omega) (by omega) hpos)
              (by intro j h hj1 hj2; simp only [ha1] at h ⊢; exact hr j h (by omega) hj2)
            refine ⟨r, hr1, ⟨hpost.arr.trans ha1, ?_, ?_, ?_, ?_, by have := hpost.mono; omega⟩, ?_⟩
            · intro j hj; obtain ⟨h, h2, h3⟩ := hpost.found j hj; simp only [ha1] at h h3; exact ⟨h, h2, h3⟩
            · intro hn' j h h1 h2; have := hnone hn' j (by rw [ha1]; exact h); simp only [ha1] at this
              by_cases hjn : j < n
              · exact this hjn
              · omega
            · obtain ⟨l, e1, e2, e3⟩ := hpost.log
              refine ⟨l ++ [⟨b + m / 2, b + m / 2, ctx⟩], by simp [e1, hl1], ?_, ?_⟩
              · intro ev hev
                rcases List.mem_append.mp hev with h | h
                · have := e2 ev h; omega
                · simp at h; subst h; simp; omega
              · have := hpost.mono; simp [e3]; omega
            · intro fu hfu
              have h1 := hpost.cnt fu (by omega)
              have : steps fu m = 1 + steps (fu - 1) (m - m / 2) := by
                cases fu with
                | zero => omega
                | succ fu => simp [steps, hm0, hm1]
              have h2 := steps_fuel_irrel (fu - 1) fu (m - m / 2) (by omega) (by omega)
              have := hpost.mono
              omega
            · intro hn' j h hj; have := hnone hn' j (by rw [ha1]; exact h) hj; simpa only [ha1] using this

end SafeC.Sort

namespace SafeC.Sort

/-- EVERY comparator (inconsistent ones included): the loop returns, probes only positions of its window,
    makes at most `steps` probes and leaves the array alone -/
theorem bsearchLoop_any (c : BCmp α) :
    ∀ (fuel : Nat) (s : St α) (b m : Nat), m ≤ fuel → b + m ≤ s.a.size →
      ∃ r, bsearchLoop c fuel s b m = .ok r ∧ r.2.a = s.a ∧ s.ncmp ≤ r.2.ncmp ∧ r.2.ncmp - s.ncmp ≤ steps fuel m ∧
        (∀ j, r.1 = some j → b ≤ j ∧ j < b + m) ∧
        ∃ l, r.2.log = l ++ s.log ∧ ∀ ev ∈ l, b ≤ ev.i ∧ ev.i < b + m ∧ ev.j = ev.i ∧ ev.ctx = c.ctx := by
  intro fuel
  induction fuel with
  | zero =>
    intro s b m hm hb
    have : m = 0 := by omega
    subst this
    exact ⟨(none, s), by simp [bsearchLoop], rfl, Nat.le_refl _, by simp, by simp, [], by simp⟩
  | succ fuel ih =>
    intro s b m hm hb
    unfold bsearchLoop
    by_cases hm0 : m = 0
    · subst hm0
      exact ⟨(none, s), by simp, rfl, Nat.le_refl _, by simp, by simp, [], by simp⟩
    · have hi : b + m / 2 < s.a.size := by omega
      simp only [hm0, if_false]
      unfold probe
      simp only [hi, dite_true, bind, Except.bind]
      generalize hs1 : ({ s with log := if c.trace then ⟨b + m / 2, b + m / 2, c.ctx⟩ :: s.log else s.log, ncmp := s.ncmp + 1 } : St α) = s1
      have ha1 : s1.a = s.a := by subst hs1; rfl
      have hn1 : s1.ncmp = s.ncmp + 1 := by subst hs1; rfl
      have hl1 : ∃ l, s1.log = l ++ s.log ∧ ∀ ev ∈ l, b ≤ ev.i ∧ ev.i < b + m ∧ ev.j = ev.i ∧ ev.ctx = c.ctx := by
        subst hs1
        by_cases ht : c.trace
        · exact ⟨[⟨b + m / 2, b + m / 2, c.ctx⟩], by simp [ht], by intro ev hev; simp at hev; subst hev; simp; omega⟩
        · exact ⟨[], by simp [ht], by simp⟩
      have hst : 1 ≤ steps (fuel + 1) m := by unfold steps; simp only [hm0, if_false]; split <;> omega
      generalize c.cmp s.ncmp (b + m / 2) s.a[b + m / 2] = sign
      by_cases hz : sign = 0
      · simp only [hz, if_true]
        exact ⟨(some (b + m / 2), s1), rfl, ha1, by simp [hn1], by simp [hn1]; exact hst, by intro j hj; simp at hj; omega, hl1⟩
      · simp only [hz, if_false]
        by_cases hm1 : m = 1
        · subst hm1
          simp only [if_true]
          exact ⟨(none, s1), rfl, ha1, by simp [hn1], by simp [hn1]; exact hst, by simp, hl1⟩
        · simp only [hm1, if_false]
          have hstep : steps (fuel + 1) m = 1 + steps fuel (m - m / 2) := by simp [steps, hm0, hm1]
          obtain ⟨l1, el1, pl1⟩ := hl1
          by_cases hneg : sign < 0
          · simp only [hneg, if_true]
            obtain ⟨r, hr, hra, hrm, hrc, hrf, l, el, pl⟩ := ih s1 b (m / 2) (by omega) (by rw [ha1]; omega)
            refine ⟨r, hr, hra.trans ha1, by omega, ?_, by intro j hj; have := hrf j hj; omega, l ++ l1, by simp [el, el1], ?_⟩
            · have hle := steps_left_le fuel m (by omega)
              omega
            · intro ev hev
              rcases List.mem_append.mp hev with h | h
              · have := pl ev h; omega
              · exact pl1 ev h
          · simp only [hneg, if_false]
            obtain ⟨r, hr, hra, hrm, hrc, hrf, l, el, pl⟩ := ih s1 (b + m / 2) (m - m / 2) (by omega) (by rw [ha1]; omega)
            refine ⟨r, hr, hra.trans ha1, by omega, by omega, by intro j hj; have := hrf j hj; omega, l ++ l1, by simp [el, el1], ?_⟩
            intro ev hev
            rcases List.mem_append.mp hev with h | h
            · have := pl ev h; omega
            · exact pl1 ev h

end SafeC.Sort

import SafeC.Proofs.CopySteps
/-!
# The bumper copy loops: the complete outcome for EVERY placement of a readable source

`copyLoop_cases`: the loop started at `d` (the `k` cells left of the `oM` cells of dest), `g` = the number of
iterations after which the pointer compared meets the bumper, `m` = number of characters the call would copy (the
length of the source string, for the bounded twin capped by `slen`):
* `g ≤ m`, `g < k`  — the copy runs into the other operand: ESOVRLP, dest cleared;
* `m < k`, `m < g`  — EOK, `d[0..m) = src[0..m)` (values before the call), `d[m] = 0`, null-slack zeros behind;
* `k ≤ m`, `k ≤ g`  — ESNOSPC, dest cleared.
The three cases are exhaustive and exclusive.  `cpyBody` is the part of `strcpy_s strncpy_s wcscpy_s wcsncpy_s`
behind the entry checks; `*_eq_body` strip the entry checks on usable arguments.
-/
namespace SafeC
open Gen

structure CopyAll (cfg : Cfg) (oD oM d k s m g : Nat) (st st' : St) (code : Nat) : Prop where
  hit : g ≤ m → g < k → code = ESOVRLP ∧ ClearedPost cfg oD oM ESOVRLP st st'
  done : m < k → m < g → code = EOK ∧ StpDone cfg d k s m st st'
  full : k ≤ m → k ≤ g → code = ESNOSPC ∧ ClearedPost cfg oD oM ESNOSPC st st'

theorem CopyAll.of_hit {cfg : Cfg} {oD oM d k s m g : Nat} {st st' : St}
    (h1 : g ≤ m) (h2 : g < k) (h : ClearedPost cfg oD oM ESOVRLP st st') :
    CopyAll cfg oD oM d k s m g st st' ESOVRLP :=
  ⟨fun _ _ => ⟨rfl, h⟩, fun _ _ => by omega, fun _ _ => by omega⟩

theorem CopyAll.of_done {cfg : Cfg} {oD oM d k s m g : Nat} {st st' : St}
    (h1 : m < k) (h2 : m < g) (h : StpDone cfg d k s m st st') :
    CopyAll cfg oD oM d k s m g st st' EOK :=
  ⟨fun _ _ => by omega, fun _ _ => ⟨rfl, h⟩, fun _ _ => by omega⟩

theorem CopyAll.of_full {cfg : Cfg} {oD oM d k s m g : Nat} {st st' : St}
    (h1 : k ≤ m) (h2 : k ≤ g) (h : ClearedPost cfg oD oM ESNOSPC st st') :
    CopyAll cfg oD oM d k s m g st st' ESNOSPC :=
  ⟨fun _ _ => by omega, fun _ _ => by omega, fun _ _ => ⟨rfl, h⟩⟩

/-- ESOVRLP exactly in the first case, EOK exactly in the second -/
theorem CopyAll.ovrlp_iff {cfg : Cfg} {oD oM d k s m g : Nat} {st st' : St} {code : Nat}
    (h : CopyAll cfg oD oM d k s m g st st' code) : code = ESOVRLP ↔ g ≤ m ∧ g < k := by
  by_cases hA : g ≤ m ∧ g < k
  · rw [(h.hit hA.1 hA.2).1]; exact ⟨fun _ => hA, fun _ => rfl⟩
  by_cases hB : m < k
  · rw [(h.done hB (by omega)).1]
    exact ⟨fun hc => absurd (show EOK = ESOVRLP from hc) (by decide), fun hc => absurd hc hA⟩
  · rw [(h.full (by omega) (by omega)).1]; exact ⟨fun hc => absurd hc (by decide), fun hc => absurd hc hA⟩

theorem CopyAll.eok_iff {cfg : Cfg} {oD oM d k s m g : Nat} {st st' : St} {code : Nat}
    (h : CopyAll cfg oD oM d k s m g st st' code) : code = EOK ↔ m < k ∧ m < g := by
  by_cases hA : g ≤ m ∧ g < k
  · rw [(h.hit hA.1 hA.2).1]; exact ⟨fun hc => absurd hc (by decide), fun hc => by omega⟩
  by_cases hB : m < k
  · rw [(h.done hB (by omega)).1]
    exact ⟨fun _ => ⟨hB, by omega⟩, fun _ => rfl⟩
  · rw [(h.full (by omega) (by omega)).1]; exact ⟨fun hc => absurd hc (by decide), fun hc => by omega⟩

theorem CopyAll.nospc_iff {cfg : Cfg} {oD oM d k s m g : Nat} {st st' : St} {code : Nat}
    (h : CopyAll cfg oD oM d k s m g st st' code) : code = ESNOSPC ↔ k ≤ m ∧ k ≤ g := by
  by_cases hA : g ≤ m ∧ g < k
  · rw [(h.hit hA.1 hA.2).1]; exact ⟨fun hc => absurd hc (by decide), fun hc => by omega⟩
  by_cases hB : m < k
  · rw [(h.done hB (by omega)).1]
    exact ⟨fun hc => absurd (show EOK = ESNOSPC from hc) (by decide), fun hc => by omega⟩
  · rw [(h.full (by omega) (by omega)).1]; exact ⟨fun _ => ⟨by omega, by omega⟩, fun _ => rfl⟩

/-- **one copy loop, any placement**: in the `dest < src` twin (`onDest`) the bumper is `src = d + g`; in the other
twin the bumper is the start of dest, `src + g`, at or below `d` -/
theorem copyLoop_cases (cfg : Cfg) (onDest bounded : Bool) (B oD oM : Nat) (hoM : 0 < oM)
    (k d s m g slen : Nat) (st : St)
    (hall : ∀ a, st.mapped a = true ∧ st.rd a = true)
    (hrw : RW st oD oM) (hinv : oD ≤ d ∧ d + k = oD + oM)
    (hgeo : (onDest = true ∧ s = d + g ∧ B = s) ∨ (onDest = false ∧ B = s + g ∧ B ≤ d))
    (hnz : ∀ j, j < m → st.data (s+j) ≠ 0)
    (hfin : ((bounded = true → m < slen) ∧ st.data (s+m) = 0) ∨ (bounded = true ∧ slen = m)) :
    ∃ code st', exec (copyLoop cfg onDest bounded B oD oM k d s slen) st = .ok (code, st') ∧
      CopyAll cfg oD oM d k s m g st st' code := by
  have hsl : bounded = true → m ≤ slen := by
    intro h; rcases hfin with h1 | h1
    · have := h1.1 h; omega
    · omega
  have hclean : ∀ i j, i < j → j < g → s + j ≠ d + i := by
    intro i j h1 h2
    rcases hgeo with ⟨_, h, _⟩ | ⟨_, h, h'⟩ <;> omega
  have hbne : ∀ j, j < g → (if onDest then d + j else s + j) ≠ B := by
    intro j hj
    rcases hgeo with ⟨h0, h, h'⟩ | ⟨h0, h, h'⟩
    · rw [h0]; simp only [if_true]; omega
    · rw [h0]; simp only [Bool.false_eq_true, if_false]; omega
  have hbeq : (if onDest then d + g else s + g) = B := by
    rcases hgeo with ⟨h0, h, h'⟩ | ⟨h0, h, h'⟩
    · rw [h0]; simp only [if_true]; omega
    · rw [h0]; simp only [Bool.false_eq_true, if_false]; omega
  by_cases hA : g ≤ m ∧ g < k
  · obtain ⟨st', hx, hp⟩ := copySteps_hit cfg onDest bounded B oD oM hoM k d s g slen st hall hrw hinv hA.2
      (fun j hj => hnz j (by omega)) hclean hbne hbeq (fun h => by have := hsl h; omega)
    exact ⟨_, st', hx, CopyAll.of_hit hA.1 hA.2 hp⟩
  by_cases hB : m < k
  · have hmg : m < g := by omega
    obtain ⟨st', hx, hp⟩ := copySteps_done cfg onDest bounded B oD oM k d s m slen st hall (hrw.sub' (by omega)) hB hnz
      (fun i j h1 h2 => hclean i j h1 (by omega)) (fun j hj => hbne j (by omega)) hfin
    exact ⟨_, st', hx, CopyAll.of_done hB hmg hp⟩
  · have hC1 : k ≤ m := by omega
    have hC2 : k ≤ g := by omega
    obtain ⟨st', hx, hp⟩ := copySteps_full cfg onDest bounded B oD oM hoM k d s slen st hall hrw hinv
      (fun j hj => hnz j (by omega)) (fun i j h1 h2 => hclean i j h1 (by omega)) (fun j hj => hbne j (by omega))
      (fun h => by have := hsl h; omega)
    exact ⟨_, st', hx, CopyAll.of_full hC1 hC2 hp⟩

/-- **a source without a terminator in the cells the loop gets to read** (the first `min g k` cells non-NUL, `slen`
reaches as far): the loop ends at the bumper (`g < k`: ESOVRLP) or runs out of room (ESNOSPC); dest cleared -/
theorem copyLoop_noterm (cfg : Cfg) (onDest bounded : Bool) (B oD oM : Nat) (hoM : 0 < oM)
    (k d s g slen : Nat) (st : St)
    (hall : ∀ a, st.mapped a = true ∧ st.rd a = true)
    (hrw : RW st oD oM) (hinv : oD ≤ d ∧ d + k = oD + oM)
    (hgeo : (onDest = true ∧ s = d + g ∧ B = s) ∨ (onDest = false ∧ B = s + g ∧ B ≤ d))
    (hnz : ∀ j, j < g → j < k → st.data (s+j) ≠ 0)
    (hsl : bounded = true → (g < k → g ≤ slen) ∧ (k ≤ g → k ≤ slen)) :
    ∃ code st', exec (copyLoop cfg onDest bounded B oD oM k d s slen) st = .ok (code, st') ∧
      code = (if g < k then ESOVRLP else ESNOSPC) ∧ ClearedPost cfg oD oM code st st' := by
  have hclean : ∀ i j, i < j → j < g → s + j ≠ d + i := by
    intro i j h1 h2
    rcases hgeo with ⟨_, h, _⟩ | ⟨_, h, h'⟩ <;> omega
  have hbne : ∀ j, j < g → (if onDest then d + j else s + j) ≠ B := by
    intro j hj
    rcases hgeo with ⟨h0, h, h'⟩ | ⟨h0, h, h'⟩
    · rw [h0]; simp only [if_true]; omega
    · rw [h0]; simp only [Bool.false_eq_true, if_false]; omega
  have hbeq : (if onDest then d + g else s + g) = B := by
    rcases hgeo with ⟨h0, h, h'⟩ | ⟨h0, h, h'⟩
    · rw [h0]; simp only [if_true]; omega
    · rw [h0]; simp only [Bool.false_eq_true, if_false]; omega
  by_cases hA : g < k
  · obtain ⟨st', hx, hp⟩ := copySteps_hit cfg onDest bounded B oD oM hoM k d s g slen st hall hrw hinv hA
      (fun j hj => hnz j hj (by omega)) hclean hbne hbeq (fun h => (hsl h).1 hA)
    exact ⟨_, st', hx, by rw [if_pos hA], hp⟩
  · obtain ⟨st', hx, hp⟩ := copySteps_full cfg onDest bounded B oD oM hoM k d s slen st hall hrw hinv
      (fun j hj => hnz j (by omega) hj) (fun i j h1 h2 => hclean i j h1 (by omega)) (fun j hj => hbne j (by omega))
      (fun h => (hsl h).2 (by omega))
    exact ⟨_, st', hx, by rw [if_neg hA], hp⟩

/-! ## the copies: `strcpy_s strncpy_s wcscpy_s wcsncpy_s` behind their entry checks -/

def cpyBody (cfg : Cfg) (bounded : Bool) (dest dmax src slen : Nat) : Prog Nat :=
  if dest < src then copyLoop cfg true bounded src dest dmax dmax dest src slen
  else copyLoop cfg false bounded dest dest dmax dmax dest src slen

/-- **the body of the four copies, any placement** (`g` = pointer distance; `g = 0`: identical pointers, which only the
bounded copies let through to the loop) -/
theorem cpyBody_cases (cfg : Cfg) (bounded : Bool) (dest dmax src m g slen : Nat) (st : St)
    (hall : ∀ a, st.mapped a = true ∧ st.rd a = true)
    (hpos : 0 < dmax) (hrw : RW st dest dmax)
    (hg : (dest < src ∧ src = dest + g) ∨ (src ≤ dest ∧ dest = src + g))
    (hnz : ∀ j, j < m → st.data (src+j) ≠ 0)
    (hfin : ((bounded = true → m < slen) ∧ st.data (src+m) = 0) ∨ (bounded = true ∧ slen = m)) :
    ∃ code st', exec (cpyBody cfg bounded dest dmax src slen) st = .ok (code, st') ∧
      CopyAll cfg dest dmax dest dmax src m g st st' code := by
  unfold cpyBody
  rcases hg with ⟨hlt, he⟩ | ⟨hlt, he⟩
  · rw [if_pos hlt]
    exact copyLoop_cases cfg true bounded src dest dmax hpos dmax dest src m g slen st hall hrw ⟨Nat.le_refl _, rfl⟩
      (Or.inl ⟨rfl, he, rfl⟩) hnz hfin
  · rw [if_neg (by omega)]
    exact copyLoop_cases cfg false bounded dest dest dmax hpos dmax dest src m g slen st hall hrw ⟨Nat.le_refl _, rfl⟩
      (Or.inr ⟨rfl, he, Nat.le_refl _⟩) hnz hfin

/-- the unbounded copies on a source without a terminator in the first `min g dmax` cells -/
theorem cpyBody_noterm (cfg : Cfg) (dest dmax src g : Nat) (st : St)
    (hall : ∀ a, st.mapped a = true ∧ st.rd a = true)
    (hpos : 0 < dmax) (hrw : RW st dest dmax)
    (hg : (dest < src ∧ src = dest + g) ∨ (src ≤ dest ∧ dest = src + g))
    (hnz : ∀ j, j < g → j < dmax → st.data (src+j) ≠ 0) :
    ∃ code st', exec (cpyBody cfg false dest dmax src 0) st = .ok (code, st') ∧
      code = (if g < dmax then ESOVRLP else ESNOSPC) ∧ ClearedPost cfg dest dmax code st st' := by
  unfold cpyBody
  rcases hg with ⟨hlt, he⟩ | ⟨hlt, he⟩
  · rw [if_pos hlt]
    exact copyLoop_noterm cfg true false src dest dmax hpos dmax dest src g 0 st hall hrw ⟨Nat.le_refl _, rfl⟩
      (Or.inl ⟨rfl, he, rfl⟩) hnz (fun h => absurd h (by decide))
  · rw [if_neg (by omega)]
    exact copyLoop_noterm cfg false false dest dest dmax hpos dmax dest src g 0 st hall hrw ⟨Nat.le_refl _, rfl⟩
      (Or.inr ⟨rfl, he, Nat.le_refl _⟩) hnz (fun h => absurd h (by decide))

theorem strcpyG_eq_body (max : Nat) (cfg : Cfg) (dest dmax src : Nat) (destbos : Bos)
    (hd : dest ≠ 0) (hs : src ≠ 0) (hne : dest ≠ src) (hpos : 0 < dmax) (hle : dmax ≤ max)
    (hb : ∀ b, destbos = some b → dmax ≤ b) :
    strcpyG max cfg dest dmax src destbos = cpyBody cfg false dest dmax src 0 := by
  unfold strcpyG cpyBody
  have hz : dmax ≠ 0 := by omega
  rw [if_neg hd, if_neg hz]
  unfold chkDmaxClear chkDmaxClearG
  cases destbos with
  | none => simp only; rw [if_neg (by omega), if_neg hs, if_neg hne]
  | some b => simp only; rw [if_neg (by have := hb b rfl; omega), if_neg hs, if_neg hne]

theorem strcpyG_same (max : Nat) (cfg : Cfg) (dest dmax : Nat) (destbos : Bos)
    (hd : dest ≠ 0) (hpos : 0 < dmax) (hle : dmax ≤ max)
    (hb : ∀ b, destbos = some b → dmax ≤ b) :
    strcpyG max cfg dest dmax dest destbos = pure EOK := by
  unfold strcpyG
  have hz : dmax ≠ 0 := by omega
  rw [if_neg hd, if_neg hz]
  unfold chkDmaxClear chkDmaxClearG
  cases destbos with
  | none => simp only; rw [if_neg (by omega), if_neg hd, if_pos trivial]
  | some b => simp only; rw [if_neg (by have := hb b rfl; omega), if_neg hd, if_pos trivial]

theorem wcscpy_s_eq_body (cfg : Cfg) (dest dmax src : Nat) (destbos : Bos)
    (hd : dest ≠ 0) (hs : src ≠ 0) (hne : dest ≠ src) (hpos : 0 < dmax) (hle : dmax ≤ RSIZE_MAX_WSTR)
    (hb : ∀ b, destbos = some b → dmax * SIZEOF_WCHAR_T ≤ b) :
    wcscpy_s cfg dest dmax src destbos = cpyBody cfg false dest dmax src 0 := by
  unfold wcscpy_s cpyBody
  have hz : dmax ≠ 0 := by omega
  rw [if_neg hd, if_neg hz]
  unfold chkDmaxClearW
  cases destbos with
  | none => simp only; rw [if_neg (by omega), if_neg hs, if_neg hne]
  | some b => simp only; rw [if_neg (by have := hb b rfl; omega), if_neg hs, if_neg hne]

theorem wcscpy_s_same (cfg : Cfg) (dest dmax : Nat) (destbos : Bos)
    (hd : dest ≠ 0) (hpos : 0 < dmax) (hle : dmax ≤ RSIZE_MAX_WSTR)
    (hb : ∀ b, destbos = some b → dmax * SIZEOF_WCHAR_T ≤ b) :
    wcscpy_s cfg dest dmax dest destbos = pure EOK := by
  unfold wcscpy_s
  have hz : dmax ≠ 0 := by omega
  rw [if_neg hd, if_neg hz]
  unfold chkDmaxClearW
  cases destbos with
  | none => simp only; rw [if_neg (by omega), if_neg hd, if_pos trivial]
  | some b => simp only; rw [if_neg (by have := hb b rfl; omega), if_neg hd, if_pos trivial]

theorem strncpyG_eq_body (max : Nat) (cfg : Cfg) (dest dmax src slen : Nat) (destbos srcbos : Bos)
    (hd : dest ≠ 0) (hs : src ≠ 0) (hpos : 0 < dmax) (hle : dmax ≤ max) (hslen : 0 < slen) (hslenle : slen ≤ max)
    (hb : ∀ b, destbos = some b → dmax ≤ b) (hsb : ∀ sb, srcbos = some sb → slen ≤ sb) :
    strncpyG max cfg dest dmax src slen destbos srcbos = cpyBody cfg true dest dmax src slen := by
  unfold strncpyG cpyBody
  have h0 : ¬ (slen = 0 ∧ dest ≠ 0 ∧ dmax ≠ 0) := by omega
  have hz : dmax ≠ 0 := by omega
  have hsx : ¬ slen > max := by omega
  rw [if_neg h0, if_neg hd, if_neg hz]
  unfold chkDmaxClear chkDmaxClearG chkSlenMaxClear
  cases destbos with
  | none =>
    simp only
    rw [if_neg (by omega), if_neg hs, if_neg hsx]
    cases srcbos with
    | none => rfl
    | some sb => simp only; rw [if_neg (by have := hsb sb rfl; omega)]
  | some b =>
    simp only
    rw [if_neg (by have := hb b rfl; omega), if_neg hs, if_neg hsx]
    cases srcbos with
    | none => rfl
    | some sb => simp only; rw [if_neg (by have := hsb sb rfl; omega)]

theorem wcsncpy_s_eq_body (cfg : Cfg) (dest dmax src slen : Nat) (destbos srcbos : Bos)
    (hd : dest ≠ 0) (hs : src ≠ 0) (hpos : 0 < dmax) (hle : dmax ≤ RSIZE_MAX_WSTR)
    (hslen : 0 < slen) (hslenle : slen ≤ RSIZE_MAX_WSTR)
    (hb : ∀ b, destbos = some b → dmax * SIZEOF_WCHAR_T ≤ b)
    (hsb : ∀ sb, srcbos = some sb → slen * SIZEOF_WCHAR_T ≤ sb) :
    wcsncpy_s cfg dest dmax src slen destbos srcbos = cpyBody cfg true dest dmax src slen := by
  unfold wcsncpy_s cpyBody
  have h0 : ¬ (slen = 0 ∧ dest ≠ 0 ∧ dmax ≠ 0) := by omega
  have hz : dmax ≠ 0 := by omega
  have hsx : ¬ slen > RSIZE_MAX_WSTR := by omega
  rw [if_neg h0, if_neg hd, if_neg hz]
  unfold chkDmaxClearW
  cases destbos with
  | none =>
    simp only
    rw [if_neg (by omega), if_neg hs, if_neg hsx]
    cases srcbos with
    | none => rfl
    | some sb => simp only; rw [if_neg (by have := hsb sb rfl; omega)]
  | some b =>
    simp only
    rw [if_neg (by have := hb b rfl; omega), if_neg hs, if_neg hsx]
    cases srcbos with
    | none => rfl
    | some sb => simp only; rw [if_neg (by have := hsb sb rfl; omega)]

/-- `slen == 0` of the two bounded copies: one NUL is stored, nothing else is looked at -/
theorem strncpyG_slen0 (max : Nat) (cfg : Cfg) (dest dmax src : Nat) (destbos srcbos : Bos)
    (hd : dest ≠ 0) (hpos : 0 < dmax) :
    strncpyG max cfg dest dmax src 0 destbos srcbos = (do store dest 0; pure EOK) := by
  unfold strncpyG
  rw [if_pos ⟨rfl, hd, by omega⟩]

theorem wcsncpy_s_slen0 (cfg : Cfg) (dest dmax src : Nat) (destbos srcbos : Bos)
    (hd : dest ≠ 0) (hpos : 0 < dmax) :
    wcsncpy_s cfg dest dmax src 0 destbos srcbos = (do store dest 0; pure EOK) := by
  unfold wcsncpy_s
  rw [if_pos ⟨rfl, hd, by omega⟩]

end SafeC

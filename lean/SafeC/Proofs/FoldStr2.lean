import SafeC.Proofs.FoldStr
/-!
# C17 — `wcsfc_s` per cell against `towfc_s`: "fold, then decompose canonically", and the cells `iswfc` announces
-/
namespace SafeC.Fold
open SafeC.Gen SafeC.Norm
set_option linter.unusedSimpArgs false

/-! ## table facts (kernel-checked) -/

/-- outside U+1F80..U+1FF4 (where `wcsfc_s` decomposes) the cells of a multi-cell folding are left alone by the decomposition -/
theorem tbl_stable_outside :
    ((tbl2L ++ tbl3L).all fun e => (decide (0x1f80 ≤ e.1) && decide (e.1 ≤ 0x1ff4)) || e.2.all fun x => decompose1 x == [x]) = true := by
  decide +kernel

/-- below U+00C0 (where `wcsfc_s` does not call `_decomp_s`) nothing decomposes -/
theorem low_stable : SafeC.Fold.allBelow (fun t => decompose1 t == [t]) 0xc0 = true := by decide +kernel

theorem sigma_fold : (towfcCore 0x3a3).2.flatMap decompose1 = [0x3c3] ∧ (towfcCore 0x3a3).2 = [0x3c3] ∧ iswfc 0x3a3 = 1 ∧
    (towfcSingle 0x3a3).2 = 0x3c3 := by
  decide +kernel

/-- the five code points copied unchanged: `towfc_s` would have changed them -/
theorem special_differs :
    ([0x1cbb, 0x1cbc, 0x1057B, 0x1058B, 0x10593].all fun c =>
      (towfcCore c).2.flatMap decompose1 != [c] && (towfcCore c).2 != [c]) = true := by
  decide +kernel

attribute [local irreducible] cell UniFold.tbl2 UniFold.tbl3 UniFold.casemaps UniFold.casemapsl UniFold.pairs UniFold.upIdx
  UniFold.upPages UniFold.space UniFold.tolower128
  UniCanon.main UniCanon.planes UniCanon.rows UniCanon.tbl1 UniCanon.tbl2 UniCanon.tbl3 UniCanon.tbl4

/-- at most one cell announced: `towfc_s` is `_towfc_single` -/
theorem towfcCore_single {cp : Nat} (h : ¬ iswfc cp > 1) : (towfcCore cp).2 = [(towfcSingle cp).2] := by
  have hl : (towfcCore cp).2.length = 1 := by rw [fold_cells]; omega
  by_cases h128 : cp < 128
  · simp only [towfcCore, towfcSingle, h128, if_true, show cp < 0xb5 by omega]
  · cases h2 : scanTbl cp tbl2L with
    | some l =>
      have := List.all_eq_true.mp tbl_facts.1 _ (scanTbl_mem _ _ _ h2)
      simp only [towfcCore, h128, if_false, h2] at hl
      simp only [Bool.and_eq_true, beq_iff_eq] at this
      omega
    | none =>
      cases h3 : scanTbl cp tbl3L with
      | some l =>
        have := List.all_eq_true.mp tbl_facts.2 _ (scanTbl_mem _ _ _ h3)
        simp only [towfcCore, h128, if_false, h2, h3] at hl
        simp only [Bool.and_eq_true, beq_iff_eq] at this
        omega
      | none => simp only [towfcCore, h128, if_false, h2, h3]

/-- a multi-cell folding outside U+1F80..U+1FF4 consists of cells the decomposition leaves alone -/
theorem towfcCore_multi_stable {cp : Nat} (h : 1 < iswfc cp) (hr : ¬(0x1f80 ≤ cp ∧ cp ≤ 0x1ff4)) :
    ∀ x ∈ (towfcCore cp).2, decompose1 x = [x] := by
  have hl : (towfcCore cp).2.length = iswfc cp := by rw [fold_cells]; omega
  have hall := List.all_eq_true.mp tbl_stable_outside
  have h128 : ¬ cp < 128 := by
    intro h128
    simp only [towfcCore, h128, if_true, List.length_singleton] at hl
    omega
  have key : ∀ l, (cp, l) ∈ tbl2L ++ tbl3L → ∀ x ∈ l, decompose1 x = [x] := by
    intro l hmem x hx
    have := hall _ hmem
    simp only [Bool.or_eq_true, Bool.and_eq_true, decide_eq_true_eq] at this
    rcases this with h1 | h1
    · exact absurd h1 hr
    · simpa using List.all_eq_true.mp h1 x hx
  cases h2 : scanTbl cp tbl2L with
  | some l =>
    have e : towfcCore cp = (2, l) := by simp only [towfcCore, h128, if_false, h2]
    rw [e]
    exact key l (List.mem_append_left _ (scanTbl_mem _ _ _ h2))
  | none =>
    cases h3 : scanTbl cp tbl3L with
    | some l =>
      have e : towfcCore cp = (3, l) := by simp only [towfcCore, h128, if_false, h2, h3]
      rw [e]
      exact key l (List.mem_append_right _ (scanTbl_mem _ _ _ h3))
    | none =>
      simp only [towfcCore, h128, if_false, h2, h3, List.length_singleton] at hl
      omega

theorem flatMap_fixed {f : Nat → List Nat} : ∀ {l : List Nat}, (∀ x ∈ l, f x = [x]) → l.flatMap f = l := by
  intro l
  induction l with
  | nil => intro _; rfl
  | cons a l ih =>
    intro h
    rw [List.flatMap_cons, h a (by simp), ih (fun x hx => h x (by simp [hx]))]
    rfl

/-- **fold, then decompose canonically, cell by cell** — except the five code points copied unchanged and the final sigma -/
theorem fcCell_fold_decompose (cp nx : Nat) (hs : fcSpecial cp = false) (h3 : ¬(cp = 0x3a3 ∧ iswspace nx = true)) :
    fcCell cp nx = (towfcCore cp).2.flatMap decompose1 := by
  unfold fcCell
  by_cases hc : iswfc cp > 1
  · simp only [hc, if_true]
    by_cases hr : 0x1f80 ≤ cp ∧ cp ≤ 0x1ff4
    · simp only [hr, and_self, if_true]
    · simp only [hr, if_false]
      exact (flatMap_fixed (towfcCore_multi_stable hc hr)).symm
  · simp only [hc, if_false, hs, Bool.false_eq_true]
    by_cases h : cp = 0x3a3
    · subst h
      have hsp : ¬ iswspace nx = true := fun hh => h3 ⟨rfl, hh⟩
      simp only [if_true, hsp, if_false]
      exact sigma_fold.1.symm
    · simp only [h, if_false]
      rw [towfcCore_single hc]
      simp only [List.flatMap_cons, List.flatMap_nil, List.append_nil]
      split
      · rfl
      · rename_i hlt
        have := (SafeC.Fold.allBelow_spec _ _).mp low_stable (towfcSingle cp).2 (by omega)
        exact (by simpa using this : decompose1 (towfcSingle cp).2 = [(towfcSingle cp).2]).symm

/-- the string has a capital sigma directly in front of a space -/
def sigmaFinal : List Nat → Bool
  | [] => false
  | cp :: rest => (cp == 0x3a3 && iswspace (rest.headD 0)) || sigmaFinal rest

/-- string level: `wcsfc_s` = the decomposition pass (`flatMap decompose1`, cf. `decLoop_spec`) over the concatenated `towfc_s` -/
theorem fcPure_fold_decompose : ∀ {src : List Nat}, (∀ c ∈ src, fcSpecial c = false) → sigmaFinal src = false →
    fcPure src = (src.flatMap fun c => (towfcCore c).2).flatMap decompose1 := by
  intro src
  induction src with
  | nil => intro _ _; rfl
  | cons cp rest ih =>
    intro hs h3
    simp only [sigmaFinal, Bool.or_eq_false_iff, Bool.and_eq_false_iff, beq_eq_false_iff_ne, ne_eq] at h3
    rw [fcPure, fcCell_fold_decompose cp _ (hs cp (by simp)) (by intro hh; rcases h3.1 with h | h <;> simp_all),
      ih (fun c hc => hs c (by simp [hc])) h3.2, List.flatMap_cons, List.flatMap_append]

/-- the exceptions are real -/
theorem fcCell_special {cp : Nat} (hs : fcSpecial cp = true) (nx : Nat) :
    fcCell cp nx = [cp] ∧ (towfcCore cp).2.flatMap decompose1 ≠ [cp] ∧ (towfcCore cp).2 ≠ [cp] := by
  have hz := fcSpecial_iswfc hs
  have h5 := special_differs
  simp only [List.all_cons, List.all_nil, Bool.and_true, Bool.and_eq_true, bne_iff_ne, ne_eq] at h5
  refine ⟨by simp [fcCell, hz, hs], ?_⟩
  simp only [fcSpecial, Bool.or_eq_true, beq_iff_eq] at hs
  rcases hs with (((h | h) | h) | h) | h <;> subst h
  · exact h5.1
  · exact h5.2.1
  · exact h5.2.2.1
  · exact h5.2.2.2.1
  · exact h5.2.2.2.2

theorem fcCell_final_sigma {nx : Nat} (h : iswspace nx = true) :
    fcCell 0x3a3 nx = [0x3c2] ∧ (towfcCore 0x3a3).2.flatMap decompose1 = [0x3c3] ∧ (towfcCore 0x3a3).2 = [0x3c3] := by
  refine ⟨?_, sigma_fold.1, sigma_fold.2.1⟩
  have h1 : ¬ iswfc 0x3a3 > 1 := by rw [sigma_fold.2.2.1]; omega
  have h2 : fcSpecial 0x3a3 = false := by decide
  simp [fcCell, h1, h2, h]

/-! ## the announced lengths -/

/-- cells for which `wcsfc_s` emits exactly what `towfc_s` writes, whatever follows: not one of the five code points copied
unchanged, not the capital sigma, and no cell of the folding has a canonical decomposition -/
def plain (cp : Nat) : Bool := !fcSpecial cp && cp != 0x3a3 && (towfcCore cp).2.all fun x => decompose1 x == [x]

theorem fcCell_plain {cp : Nat} (h : plain cp = true) (nx : Nat) : fcCell cp nx = (towfcCore cp).2 := by
  simp only [plain, Bool.and_eq_true, Bool.not_eq_eq_eq_not, Bool.not_true, bne_iff_ne, ne_eq, List.all_eq_true, beq_iff_eq] at h
  obtain ⟨⟨h1, h2⟩, h3⟩ := h
  rw [fcCell_fold_decompose cp nx h1 (fun hh => h2 hh.1)]
  exact flatMap_fixed h3

theorem flatMap_fixed_conv {f : Nat → List Nat} (hne : ∀ x, f x ≠ []) : ∀ {l : List Nat}, l.flatMap f = l → ∀ x ∈ l, f x = [x] := by
  have hlen : ∀ l : List Nat, l.length ≤ (l.flatMap f).length := by
    intro l
    induction l with
    | nil => simp
    | cons a l ih =>
      have := List.length_pos_iff.mpr (hne a)
      simp only [List.flatMap_cons, List.length_append, List.length_cons]
      omega
  intro l
  induction l with
  | nil => intro _ x hx; cases hx
  | cons a l ih =>
    intro h x hx
    rw [List.flatMap_cons] at h
    have h1 := List.length_pos_iff.mpr (hne a)
    have h2 := hlen l
    have h3 := congrArg List.length h
    simp only [List.length_append, List.length_cons] at h3
    cases hfa : f a with
    | nil => exact absurd hfa (hne a)
    | cons b t =>
      rw [hfa] at h h3
      cases t with
      | nil =>
        simp only [List.cons_append, List.nil_append, List.cons.injEq] at h
        simp only [List.mem_cons] at hx
        rcases hx with rfl | hx
        · rw [hfa, h.1]
        · exact ih h.2 x hx
      | cons c t => simp only [List.length_cons] at h3; omega

/-- `plain` is the exact condition -/
theorem plain_tight {cp : Nat} (h : plain cp = false) : ∃ nx, fcCell cp nx ≠ (towfcCore cp).2 := by
  by_cases hs : fcSpecial cp = true
  · refine ⟨0, ?_⟩
    obtain ⟨e1, _, e3⟩ := fcCell_special hs 0
    rw [e1]; exact fun hh => e3 hh.symm
  · by_cases h3 : cp = 0x3a3
    · subst h3
      refine ⟨0x20, ?_⟩
      obtain ⟨e1, _, e3⟩ := fcCell_final_sigma (nx := 0x20) (by decide +kernel)
      rw [e1, e3]; decide
    · refine ⟨0, ?_⟩
      have hs' : fcSpecial cp = false := by simpa using hs
      rw [fcCell_fold_decompose cp 0 hs' (fun hh => h3 hh.1)]
      intro heq
      have hall := flatMap_fixed_conv decompose1_ne_nil heq
      have : plain cp = true := by
        simp only [plain, hs', h3, Bool.not_false, Bool.true_and, bne_iff_ne, ne_eq, not_false_eq_true, decide_true,
          List.all_eq_true, beq_iff_eq]
        simpa [h3] using hall
      rw [h] at this
      cases this

theorem fcPure_plain : ∀ {src : List Nat}, (∀ c ∈ src, plain c = true) → fcPure src = src.flatMap fun c => (towfcCore c).2 := by
  intro src
  induction src with
  | nil => intro _; rfl
  | cons cp rest ih =>
    intro h
    rw [fcPure, fcCell_plain (h cp (by simp)), ih (fun c hc => h c (by simp [hc])), List.flatMap_cons]

theorem announced_length (src : List Nat) :
    (src.flatMap fun c => (towfcCore c).2).length = (src.map fun c => max 1 (iswfc c)).sum := by
  induction src with
  | nil => rfl
  | cons cp rest ih => simp only [List.flatMap_cons, List.length_append, ih, fold_cells, List.map_cons, List.sum_cons]

end SafeC.Fold

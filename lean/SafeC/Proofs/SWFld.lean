import SafeC.Proofs.SWCopy
import SafeC.Models.Fld
import SafeC.Models.Os
/-!
# `SW` for the field copies (`Models/Fld.lean`) and for `getenv_s` / `strerror_s` (`Models/Os.lean`)
-/
namespace SafeC
open Gen

theorem SW_chkSlenNospcClear {lo hi : Nat} (cfg : Cfg) (dest dmax slen max : Nat) {k : Prog Nat}
    (h : lo ≤ dest ∧ dest + dmax ≤ hi ∧ 0 < dmax) (hk : slen ≤ dmax → SW lo hi k (fun _ => True)) :
    SW lo hi (chkSlenNospcClear cfg dest dmax slen max k) (fun _ => True) := by
  unfold chkSlenNospcClear
  split
  · sw_walk using SW_strnlen_s dest dmax none
  · exact hk (by omega)

/-- the field-copy loops: the store at `dest_i` happens with `dmax_i ≥ 1` (fld: because `slen_i ≤ dmax_i`) -/
theorem SW_fldLoop {lo hi : Nat} (cfg : Cfg) (kind : FldKind) (onDest : Bool) (B oD oM : Nat)
    (h0 : lo ≤ oD ∧ oD + oM ≤ hi ∧ oD < hi) (fuel dest src dmax slen : Nat)
    (h : lo ≤ dest ∧ dest + dmax ≤ hi) (hk : match kind with | .fld => slen ≤ dmax | _ => True) :
    SW lo hi (fldLoop cfg kind onDest B oD oM fuel dest src dmax slen)
      (fun r => match r with | .inl _ => True | .inr (d, m) => lo ≤ d ∧ d + m ≤ hi) := by
  induction fuel generalizing dest src dmax slen with
  | zero => unfold fldLoop; sw_walk
  | succ n ih =>
    unfold fldLoop
    cases kind <;> dsimp only at hk ⊢ <;> sw_walk using ih

theorem SW_fldG {lo hi : Nat} (kind : FldKind) (cfg : Cfg) (dest dmax src slen : Nat) (db : Bos)
    (h : dest = 0 ∨ (lo ≤ dest ∧ dest + dmax ≤ hi)) :
    SW lo hi (fldG kind cfg dest dmax src slen db) (fun _ => True) := by
  unfold fldG
  cases kind <;> dsimp only <;>
    sw_walk using SW_chkDmaxClear, SW_chkDmax, SW_chkSlenNospcClear, SW_fldLoop

/-! ## `getenv_s`, `strerror_s` -/

theorem SW_strlenP {lo hi : Nat} (fuel s n : Nat) : SW lo hi (strlenP fuel s n) (fun _ => True) := by
  induction fuel generalizing s n with
  | zero => unfold strlenP; sw_walk
  | succ k ih => unfold strlenP; sw_walk using ih

theorem SW_strcpy_s {lo hi : Nat} (cfg : Cfg) (dest dmax src : Nat) (db : Bos)
    (h : dest = 0 ∨ (lo ≤ dest ∧ dest + dmax ≤ hi)) : SW lo hi (strcpy_s cfg dest dmax src db) (fun _ => True) :=
  SW_strcpyG _ cfg dest dmax src db h

theorem SW_strcat_s {lo hi : Nat} (cfg : Cfg) (dest dmax src : Nat) (db : Bos)
    (h : dest = 0 ∨ (lo ≤ dest ∧ dest + dmax ≤ hi)) : SW lo hi (strcat_s cfg dest dmax src db) (fun _ => True) :=
  SW_strcatG _ cfg dest dmax src db h

theorem SW_strncpy_s {lo hi : Nat} (cfg : Cfg) (dest dmax src slen : Nat) (db sb : Bos) (hb : bosTight dmax db sb)
    (h : dest = 0 ∨ (lo ≤ dest ∧ dest + dmax ≤ hi)) : SW lo hi (strncpy_s cfg dest dmax src slen db sb) (fun _ => True) :=
  SW_strncpyG _ cfg dest dmax src slen db sb hb h

theorem SW_getenv_s {lo hi : Nat} (cfg : Cfg) (hasLen : Bool) (dest dmax name : Nat) (db : Bos) (value : Nat)
    (h : dest = 0 ∨ (lo ≤ dest ∧ dest + dmax ≤ hi)) :
    SW lo hi (getenv_s cfg hasLen dest dmax name db value) (fun _ => True) := by
  unfold getenv_s
  sw_walk using SW_strlenP, SW_strcpy_s

theorem SW_strerrorlen_s {lo hi : Nat} (errnum msg : Nat) : SW lo hi (strerrorlen_s errnum msg) (fun _ => True) := by
  unfold strerrorlen_s; sw_walk using SW_strlenP

theorem SW_strerror_s {lo hi : Nat} (cfg : Cfg) (dest dmax errnum : Nat) (db : Bos) (msg dots : Nat)
    (h : dest = 0 ∨ (lo ≤ dest ∧ dest + dmax ≤ hi)) :
    SW lo hi (strerror_s cfg dest dmax errnum db msg dots) (fun _ => True) := by
  unfold strerror_s
  sw_walk using SW_chkDmax, SW_strerrorlen_s, SW_strcpy_s, SW_strcat_s, SW_strncpy_s

end SafeC

import SafeC.Proofs.FoldCount
import SafeC.Proofs.NormNFD
/-!
# C17 — `wcsfc_s` (C locale: neither tr/az nor lt) as a per-cell function with one cell of look-ahead

`fcCell cp nx` is what the loop of `_wcsfc_s_chk` emits for the cell `cp` followed by `nx` (0 behind the end), `fcPure` the
concatenation over the string.  `fcLoop_cons` is one iteration of the loop in terms of `fcCell`; `fcLoop_spec` the whole loop.
-/
namespace SafeC.Fold
set_option linter.unusedSimpArgs false
open SafeC.Gen SafeC.Norm

/-- the five code points `wcsfc_s` copies unchanged when `iswfc` announces 0 -/
def fcSpecial (cp : Nat) : Bool := cp == 0x1cbb || cp == 0x1cbc || cp == 0x1057B || cp == 0x1058B || cp == 0x10593

/-- what `wcsfc_s` emits for the cell `cp` followed by the cell `nx` (`nx = 0`: end of the string).
`(towfcCore cp).2` are the cells `towfc_s` writes; by `fold_cells` there are exactly `iswfc cp` of them when `iswfc cp > 1`. -/
def fcCell (cp nx : Nat) : List Nat :=
  if iswfc cp > 1 then
    if 0x1f80 ≤ cp ∧ cp ≤ 0x1ff4 then (towfcCore cp).2.flatMap decompose1 else (towfcCore cp).2
  else if fcSpecial cp then [cp]
  else if cp = 0x3a3 then [if iswspace nx then 0x3c2 else 0x3c3]
  else if (towfcSingle cp).2 ≥ 0xc0 then decompose1 (towfcSingle cp).2 else [(towfcSingle cp).2]

/-- `wcsfc_s` without sizes -/
def fcPure : List Nat → List Nat
  | [] => []
  | cp :: rest => fcCell cp (rest.headD 0) ++ fcPure rest

/-- the cells for which the loop insists on 5 free cells (`goto too_small` otherwise): the single-character branch, and — with the
room check of `fixes/wcsfc-multichar-room-check.diff` (`fx.foldRoom`) — the multi-character branch as well -/
def needs5 (fx : Fixes) (cp : Nat) : Bool :=
  (decide (iswfc cp > 1) && fx.foldRoom) || (!decide (iswfc cp > 1) && !fcSpecial cp && cp != 0x3a3)

/-! ## table facts (kernel-checked) -/

theorem tbl_cells16 :
    (tbl2L.all fun e => e.2.all fun x => decide (x < 65536)) = true ∧ (tbl3L.all fun e => e.2.all fun x => decide (x < 65536)) = true := by
  decide +kernel

/-- every entry of `tbl2` / `tbl3`: at most 4 cells, and at most 4 after each cell has been canonically decomposed (the bound is
attained: U+1F82 ⇒ 3B1 313 300 3B9) -/
theorem tbl_room4 :
    ((tbl2L ++ tbl3L).all fun e => decide (e.2.length ≤ 4) && decide ((e.2.flatMap decompose1).length ≤ 4)) = true := by
  decide +kernel

theorem special_iswfc : ([0x1cbb, 0x1cbc, 0x1057B, 0x1058B, 0x10593].all fun c => iswfc c == 0) = true := by decide +kernel

noncomputable def singleLeF (c : Nat) : Bool := Nat.ble (towfcSingleF c).2 0x10FFFF

set_option maxRecDepth 100000 in
theorem hot_single_le : (hot.all fun r => allDown singleLeF r.1 (r.2 + 1)) = true := by decide +kernel

theorem hot_below : (hot.all fun r => decide (r.2 ≤ 0x10FFFF)) = true := by decide +kernel

attribute [local irreducible] cell UniFold.tbl2 UniFold.tbl3 UniFold.casemaps UniFold.casemapsl UniFold.pairs UniFold.upIdx
  UniFold.upPages UniFold.space UniFold.tolower128
  UniCanon.main UniCanon.planes UniCanon.rows UniCanon.tbl1 UniCanon.tbl2 UniCanon.tbl3 UniCanon.tbl4

/-- `_towfc_single` maps code points to code points -/
theorem towfcSingle_le (c : Nat) (h : c ≤ 0x10FFFF) : (towfcSingle c).2 ≤ 0x10FFFF := by
  cases hh : inRanges hot c with
  | true =>
    obtain ⟨r, hr, h1, h2⟩ := (inRanges_iff _ _).mp hh
    have := allDown_spec _ _ _ (List.all_eq_true.mp hot_single_le r hr) c h1 (by omega)
    rw [towfcSingle_eq_F]
    simpa [singleLeF, Nat.ble_eq] using this
  | false => rw [towfcSingle_cold c hh]; exact h

theorem fcSpecial_iswfc {cp : Nat} (h : fcSpecial cp = true) : iswfc cp = 0 := by
  have h5 := special_iswfc
  simp only [List.all_cons, List.all_nil, Bool.and_true, Bool.and_eq_true, beq_iff_eq] at h5
  simp only [fcSpecial, Bool.or_eq_true, beq_iff_eq] at h
  rcases h with (((h | h) | h) | h) | h <;> subst h
  · exact h5.1
  · exact h5.2.1
  · exact h5.2.2.1
  · exact h5.2.2.2.1
  · exact h5.2.2.2.2

/-- a multi-cell folding comes from `tbl2` / `tbl3`: non-negative return value, `iswfc cp` cells, all of them 16-bit -/
theorem towfcCore_multi {cp : Nat} (h : 1 < iswfc cp) :
    ¬ (towfcCore cp).1 < 0 ∧ (towfcCore cp).2.take (iswfc cp) = (towfcCore cp).2 ∧ ∀ x ∈ (towfcCore cp).2, x < 65536 := by
  have hl : (towfcCore cp).2.length = iswfc cp := by rw [fold_cells]; omega
  have h128 : ¬ cp < 128 := by
    intro h128
    simp only [towfcCore, h128, if_true, List.length_singleton] at hl
    omega
  cases h2 : scanTbl cp tbl2L with
  | some l =>
    have e : towfcCore cp = (2, l) := by simp only [towfcCore, h128, if_false, h2]
    rw [e] at hl ⊢
    refine ⟨by simp, by rw [← hl]; exact List.take_length, ?_⟩
    intro x hx
    have := List.all_eq_true.mp tbl_cells16.1 _ (scanTbl_mem _ _ _ h2)
    simpa using List.all_eq_true.mp this x hx
  | none =>
    cases h3 : scanTbl cp tbl3L with
    | some l =>
      have e : towfcCore cp = (3, l) := by simp only [towfcCore, h128, if_false, h2, h3]
      rw [e] at hl ⊢
      refine ⟨by simp, by rw [← hl]; exact List.take_length, ?_⟩
      intro x hx
      have := List.all_eq_true.mp tbl_cells16.2 _ (scanTbl_mem _ _ _ h3)
      simpa using List.all_eq_true.mp this x hx
    | none =>
      simp only [towfcCore, h128, if_false, h2, h3, List.length_singleton] at hl
      omega

theorem decompS_ne_err {dmax cp e : Nat} (h : 5 ≤ dmax) : decompS dmax cp ≠ .err e := by
  unfold decompS
  split
  · rw [if_neg (by omega)]; simp
  · rw [if_neg (by omega)]; split <;> simp

theorem decompose1_ne_nil (cp : Nat) : decompose1 cp ≠ [] := by
  unfold decompose1
  split
  · exact decompHangul_ne_nil cp
  · split <;> simp

theorem parts_none {α : Type} (f : Nat → α) (l : List Nat) : (l.map fun x => some (f x)).any Option.isNone = false := by
  induction l with
  | nil => rfl
  | cons a l ih => simp

theorem parts_flatten (f : Nat → List Nat) (l : List Nat) : ((l.map fun x => some (f x)).filterMap id).flatten = l.flatMap f := by
  induction l with
  | nil => rfl
  | cons a l ih => simp [List.flatMap]

/-- the tail of an iteration: prepend the emitted cells to a successful rest -/
def contOk (w : List Nat) : Step → Step
  | .ok out d => .ok (w ++ out) d
  | r => r

theorem current_rangeChk : current.rangeChk = true := rfl

local macro "fin_step" : tactic =>
  `(tactic| (split <;> first | rfl | (split <;> simp_all [contOk])))

/-- a multi-cell folding stores between 1 and 4 cells, decomposed (U+1F80..U+1FF4) or not -/
theorem fcCell_multi_len {cp : Nat} (h : 1 < iswfc cp) (nx : Nat) : 0 < (fcCell cp nx).length ∧ (fcCell cp nx).length ≤ 4 := by
  have hl : (towfcCore cp).2.length = iswfc cp := by rw [fold_cells]; omega
  have hall := List.all_eq_true.mp tbl_room4
  have h128 : ¬ cp < 128 := by
    intro h128
    simp only [towfcCore, h128, if_true, List.length_singleton] at hl
    omega
  have key : ∀ l, (cp, l) ∈ tbl2L ++ tbl3L → l.length ≤ 4 ∧ (l.flatMap decompose1).length ≤ 4 := by
    intro l hmem
    have := hall _ hmem
    simpa using this
  have hlen : ∀ l : List Nat, l.length ≤ (l.flatMap decompose1).length := by
    intro l
    induction l with
    | nil => simp
    | cons a l ih =>
      have := List.length_pos_iff.mpr (decompose1_ne_nil a)
      simp only [List.flatMap_cons, List.length_append, List.length_cons]
      omega
  have hb : (towfcCore cp).2.length ≤ 4 ∧ ((towfcCore cp).2.flatMap decompose1).length ≤ 4 := by
    cases h2 : scanTbl cp tbl2L with
    | some l =>
      have e : towfcCore cp = (2, l) := by simp only [towfcCore, h128, if_false, h2]
      rw [e]
      exact key l (List.mem_append_left _ (scanTbl_mem _ _ _ h2))
    | none =>
      cases h3 : scanTbl cp tbl3L with
      | some l =>
        have e : towfcCore cp = (3, l) := by simp only [towfcCore, h128, if_false, h2, h3]
        rw [e]
        exact key l (List.mem_append_right _ (scanTbl_mem _ _ _ h3))
      | none =>
        simp only [towfcCore, h128, if_false, h2, h3, List.length_singleton] at hl
        omega
  have := hlen (towfcCore cp).2
  simp only [fcCell, h, gt_iff_lt, if_true]
  split <;> omega

/-- one iteration of the loop of `_wcsfc_s_chk`, in terms of `fcCell` — as is (`fx.foldRoom = false`) and with the room check -/
theorem fcLoop_cons (fx : Fixes) (hfx : fx.rangeChk = true) (cp : Nat) (rest : List Nat) (dmax : Nat) (h0 : cp ≠ 0) (hd : dmax ≠ 0)
    (hm : cp ≤ 0x10FFFF) :
    fcLoop fx (cp :: rest) dmax =
      if needs5 fx cp = true ∧ dmax < 5 then .fail ESNOSPC 2
      else if dmax < (fcCell cp (rest.headD 0)).length then .overrun
      else contOk (fcCell cp (rest.headD 0)) (fcLoop fx rest (dmax - (fcCell cp (rest.headD 0)).length)) := by
  have hmax : ¬ UniCompos.unicodeMax < cp := by rw [unicodeMax_eq]; omega
  rw [fcLoop]
  simp only [h0, hd, if_false, hfx, hmax, decide_false, Bool.and_false, Bool.false_eq_true]
  by_cases hc : iswfc cp > 1
  · obtain ⟨m1, m2, m3⟩ := towfcCore_multi hc
    by_cases hroom : fx.foldRoom = true ∧ dmax < 5
    · have hn : needs5 fx cp = true := by simp [needs5, hc, hroom.1]
      simp only [hc, if_true, hroom.1, hroom.2, decide_true, Bool.and_self, hn, and_self]
    · have hg : (fx.foldRoom && decide (dmax < 5)) = false := by
        cases hf : fx.foldRoom
        · rfl
        · simp only [Bool.true_and, decide_eq_false_iff_not]; exact fun h5 => hroom ⟨hf, h5⟩
      have hn : ¬ (needs5 fx cp = true ∧ dmax < 5) := by
        intro hh
        apply hroom
        refine ⟨?_, hh.2⟩
        have := hh.1
        simpa [needs5, hc] using this
      simp only [hc, if_true, hg, Bool.false_eq_true, if_false, m1, m2, hn]
      by_cases hr : 0x1f80 ≤ cp ∧ cp ≤ 0x1ff4
      · simp only [hr, and_self, if_true, fcCell, hc]
        rw [List.map_congr_left (g := fun x => some (decompose1 x)), parts_none, parts_flatten]
        · fin_step
        · intro x hx
          have hx16 := m3 x hx
          obtain ⟨l, hl, hw, _⟩ := decompS_eq (dmax := 8) (cp := x) (by rw [unicodeMax_eq]; omega) (decompS_ne_err (by omega))
          rw [hl]
          cases l with
          | nil => simpa using hw
          | cons a b => simpa using hw
      · simp only [hr, if_false, fcCell, hc, if_true]
        fin_step
  · simp only [hc, if_false]
    by_cases hs : fcSpecial cp = true
    · have hz := fcSpecial_iswfc hs
      have hn : needs5 fx cp = false := by simp [needs5, hs, hc]
      have hdis : cp = 0x1cbb ∨ cp = 0x1cbc ∨ cp = 0x1057B ∨ cp = 0x1058B ∨ cp = 0x10593 := by
        simpa [fcSpecial, or_assoc] using hs
      simp only [hz, hdis, and_self, if_true, hn, Bool.false_eq_true, false_and, if_false, fcCell, hc, hs]
      fin_step
    · have hdis : ¬ (cp = 0x1cbb ∨ cp = 0x1cbc ∨ cp = 0x1057B ∨ cp = 0x1058B ∨ cp = 0x10593) := by
        simpa [fcSpecial, or_assoc] using hs
      simp only [hdis, and_false, if_false]
      by_cases h3 : cp = 0x3a3
      · subst h3
        have hn : needs5 fx 0x3a3 = false := by simp [needs5, hc]
        simp only [if_true, hn, Bool.false_eq_true, false_and, if_false, fcCell, hc, hs]
        fin_step
      · have hn : needs5 fx cp = true := by simp [needs5, hc, hs, h3]
        simp only [h3, hn, true_and, if_false, fcCell, hc, hs, Bool.false_eq_true]
        have ht := towfcSingle_le cp hm
        have hmod : (towfcSingle cp).2 % 2 ^ 32 = (towfcSingle cp).2 := Nat.mod_eq_of_lt (by omega)
        rw [hmod]
        by_cases h5 : dmax < 5
        · simp only [h5, if_true]
        · simp only [h5, if_false]
          generalize (towfcSingle cp).2 = t at ht ⊢
          by_cases hge : t ≥ 192
          · have h31 : t < 2 ^ 31 := by omega
            simp only [hge, h31, and_self, if_true]
            obtain ⟨l, hl, hw, _⟩ := decompS_eq (dmax := dmax) (cp := t) (by rw [unicodeMax_eq]; exact ht)
              (decompS_ne_err (by omega))
            rw [hl, ← hw]
            cases l with
            | nil => simp only [List.isEmpty_nil, if_true]; fin_step
            | cons a b => simp only [List.isEmpty_cons, Bool.false_eq_true, if_false]; fin_step
          · simp only [hge, false_and, if_false]; fin_step

theorem fcLoop_big (fx : Fixes) (hfx : fx.rangeChk = true) (cp : Nat) (rest : List Nat) (dmax : Nat) (h0 : cp ≠ 0) (hd : dmax ≠ 0)
    (hm : 0x10FFFF < cp) : fcLoop fx (cp :: rest) dmax = .fail ESLEMAX 0 := by
  have hmax : UniCompos.unicodeMax < cp := by rw [unicodeMax_eq]; omega
  rw [fcLoop]
  simp [h0, hd, hfx, hmax]

theorem fcLoop_zero (fx : Fixes) (cp : Nat) (rest : List Nat) (h0 : cp ≠ 0) : fcLoop fx (cp :: rest) 0 = .ok [] 0 := by
  rw [fcLoop]
  simp [h0]

/-- every cell emits at least one cell and, being a code point, at most 4 — whichever branch takes it -/
theorem fcCell_len {cp : Nat} (nx : Nat) (hm : cp ≤ 0x10FFFF) : 0 < (fcCell cp nx).length ∧ (fcCell cp nx).length ≤ 4 := by
  by_cases hc : iswfc cp > 1
  · exact fcCell_multi_len hc nx
  · simp only [fcCell, hc, if_false]
    split
    · simp
    · split
      · simp
      · split
        · refine ⟨List.length_pos_iff.mpr (decompose1_ne_nil _), ?_⟩
          have ht := towfcSingle_le cp hm
          obtain ⟨l, _, _, hlt⟩ := decompS_eq (dmax := 5) (cp := (towfcSingle cp).2) (by rw [unicodeMax_eq]; exact ht)
            (decompS_ne_err (by omega))
          omega
        · simp

/-- a cell for which the loop does not ask for 5 free cells although the room check is in: one of the five, or the sigma — one cell -/
theorem fcCell_len_one {fx : Fixes} {cp : Nat} (nx : Nat) (hf : fx.foldRoom = true) (h : needs5 fx cp = false) :
    (fcCell cp nx).length = 1 := by
  simp only [needs5, hf, Bool.and_true, Bool.or_eq_false_iff, decide_eq_false_iff_not, Bool.and_eq_false_iff,
    Bool.not_eq_eq_eq_not, Bool.not_false, decide_eq_true_eq, Bool.not_true, bne_eq_false_iff_eq] at h
  obtain ⟨h1, h2⟩ := h
  simp only [fcCell, h1, if_false]
  rcases h2 with (h2 | h2) | h2
  · exact absurd h2 h1
  · simp [h2]
  · split
    · simp
    · simp [h2]

/-- the loop of `_wcsfc_s_chk` with the range check, as is and with the room check, any string without an embedded terminator, any
`dmax`: no table index out of bounds; the two ways it fails; success with room left means `fcPure`; no write behind `dest + dmax`
when the result fits at all — and with the room check NEVER; success when 4 more cells than the result are available -/
theorem fcLoop_spec (fx : Fixes) (hfx : fx.rangeChk = true) : ∀ (src : List Nat) (dmax : Nat), (∀ c ∈ src, c ≠ 0) →
    fcLoop fx src dmax ≠ .oob ∧
    (∀ r l, fcLoop fx src dmax = .fail r l → (r = ESLEMAX ∧ l = 0) ∨ (r = ESNOSPC ∧ l = 2)) ∧
    (∀ out d, fcLoop fx src dmax = .ok out d → 0 < d →
        out = fcPure src ∧ d + out.length = dmax ∧ ∀ c ∈ src, c ≤ 0x10FFFF) ∧
    ((fcPure src).length ≤ dmax → fcLoop fx src dmax ≠ .overrun) ∧
    ((∀ c ∈ src, c ≤ 0x10FFFF) → (fcPure src).length + 4 ≤ dmax →
        fcLoop fx src dmax = .ok (fcPure src) (dmax - (fcPure src).length)) ∧
    (fx.foldRoom = true → fcLoop fx src dmax ≠ .overrun) := by
  intro src
  induction src with
  | nil =>
    intro dmax _
    simp [fcLoop, fcPure]
  | cons cp rest ih =>
    intro dmax h0
    have hcp0 : cp ≠ 0 := h0 cp (by simp)
    have hrest : ∀ c ∈ rest, c ≠ 0 := fun c hc => h0 c (by simp [hc])
    by_cases hd : dmax = 0
    · subst hd
      rw [fcLoop_zero fx cp rest hcp0]
      simp [fcPure]
    · by_cases hm : 0x10FFFF < cp
      · rw [fcLoop_big fx hfx cp rest dmax hcp0 hd hm]
        simp only [ne_eq, reduceCtorEq, not_false_eq_true, Step.fail.injEq, imp_false, true_and, false_imp_iff, implies_true,
          and_true]
        refine ⟨?_, ?_⟩
        · intro r l hr; left; exact ⟨hr.1.symm, hr.2.symm⟩
        · intro hall; have := hall cp (by simp); omega
      · have hle : cp ≤ 0x10FFFF := by omega
        rw [fcLoop_cons fx hfx cp rest dmax hcp0 hd hle]
        have hlen := fcCell_len (cp := cp) (rest.headD 0) hle
        have hone := fcCell_len_one (fx := fx) (cp := cp) (rest.headD 0)
        have hpure : fcPure (cp :: rest) = fcCell cp (rest.headD 0) ++ fcPure rest := rfl
        rw [hpure]
        generalize fcCell cp (rest.headD 0) = w at hlen hone ⊢
        obtain ⟨i1, i2, i3, i4, i5, i6⟩ := ih (dmax - w.length) hrest
        simp only [List.length_append]
        by_cases h5 : needs5 fx cp = true ∧ dmax < 5
        · simp only [h5, and_self, if_true]
          refine ⟨by simp, ?_, by simp, by simp, ?_, by simp⟩
          · intro r l hr; right; simp only [Step.fail.injEq] at hr; exact ⟨hr.1.symm, hr.2.symm⟩
          · intro _ hlen'; omega
        · simp only [h5, if_false]
          by_cases hov : dmax < w.length
          · simp only [hov, if_true]
            refine ⟨by simp, by simp, by simp, ?_, ?_, ?_⟩
            · intro hlen'; omega
            · intro _ hlen'; omega
            · -- with the room check this case does not exist
              intro hf
              exfalso
              cases hn : needs5 fx cp with
              | false => have := hone hf hn; omega
              | true => have : ¬ dmax < 5 := fun h => h5 ⟨hn, h⟩
                        omega
          · simp only [hov, if_false]
            cases hr : fcLoop fx rest (dmax - w.length) with
            | ok out d =>
              simp only [contOk]
              refine ⟨by simp, by simp, ?_, by simp, ?_, by simp⟩
              · intro out' d' hok hd'
                simp only [Step.ok.injEq] at hok
                obtain ⟨rfl, rfl⟩ := hok
                obtain ⟨e1, e2, e3⟩ := i3 out d hr hd'
                refine ⟨by rw [e1], ?_, ?_⟩
                · simp only [List.length_append]; omega
                · intro c hc
                  simp only [List.mem_cons] at hc
                  rcases hc with rfl | hc
                  · exact hle
                  · exact e3 c hc
              · intro hall hlen'
                have := i5 (fun c hc => hall c (by simp [hc])) (by omega)
                rw [hr] at this
                simp only [Step.ok.injEq] at this
                rw [this.1, this.2]
                congr 1
                omega
            | fail a b =>
              simp only [contOk]
              refine ⟨by simp, ?_, by simp, by simp, ?_, by simp⟩
              · intro r l hrl
                simp only [Step.fail.injEq] at hrl
                obtain ⟨rfl, rfl⟩ := hrl
                exact i2 a b hr
              · intro hall hlen'
                have := i5 (fun c hc => hall c (by simp [hc])) (by omega)
                rw [hr] at this
                cases this
            | oob => exact absurd hr i1
            | overrun =>
              simp only [contOk]
              refine ⟨by simp, by simp, by simp, ?_, ?_, ?_⟩
              · intro hlen'; exact absurd hr (i4 (by omega))
              · intro hall hlen'
                have := i5 (fun c hc => hall c (by simp [hc])) (by omega)
                rw [hr] at this
                cases this
              · intro hf; exact absurd hr (i6 hf)

/-! ## `wcsfc_s` itself -/

/-- every input (no embedded terminator), every `dmax`; any model with the range check, as is or with the room check -/
theorem wcsfcS_model (fx : Fixes) (hfx : fx.rangeChk = true) (dmax : Nat) (src : List Nat) (h0 : ∀ c ∈ src, c ≠ 0) :
    (wcsfcS fx dmax src).oob = false ∧
    ((wcsfcS fx dmax src).ret = 0 → (wcsfcS fx dmax src).overrun = false →
      (wcsfcS fx dmax src).out = fcPure src ∧ (wcsfcS fx dmax src).len = (fcPure src).length ∧
      (fcPure src).length < dmax ∧ dmax ≤ RSIZE_MAX_WSTR ∧ ∀ c ∈ src, c ≤ 0x10FFFF) ∧
    ((fcPure src).length ≤ dmax → (wcsfcS fx dmax src).overrun = false) ∧
    (fx.foldRoom = true → (wcsfcS fx dmax src).overrun = false) := by
  obtain ⟨i1, i2, i3, i4, _, i6⟩ := fcLoop_spec fx hfx src dmax h0
  unfold wcsfcS
  by_cases hd : dmax = 0
  · simp [hd, ESZEROL]
  · by_cases hmax : dmax > RSIZE_MAX_WSTR
    · simp [hd, hmax, ESLEMAX]
    · simp only [hd, if_false, hmax]
      cases hr : fcLoop fx src dmax with
      | ok out d =>
        cases d with
        | zero => simp [ESNOSPC]
        | succ d =>
          obtain ⟨e1, e2, e3⟩ := i3 out (d + 1) hr (by omega)
          refine ⟨rfl, ?_, fun _ => rfl, fun _ => rfl⟩
          intro _ _
          subst e1
          exact ⟨rfl, by simp only []; omega, by omega, by omega, e3⟩
      | fail r l =>
        have hr0 : r ≠ 0 := by
          rcases i2 r l hr with ⟨h, _⟩ | ⟨h, _⟩ <;> rw [h] <;> decide
        have hr1 : ((r : Nat) : Int) ≠ 0 := by exact_mod_cast hr0
        have hr2 : -((r : Nat) : Int) ≠ 0 := by omega
        refine ⟨?_, ?_, ?_, ?_⟩
        · split <;> first | rfl | simp_all
        · intro h
          split at h <;> simp_all
        · intro _
          split <;> first | rfl | simp_all
        · intro _
          split <;> first | rfl | simp_all
      | oob => exact absurd hr i1
      | overrun =>
        refine ⟨rfl, ?_, ?_, ?_⟩
        · intro _ h; exact absurd h (by simp)
        · intro hlen; exact absurd hr (i4 hlen)
        · intro hf; exact absurd hr (i6 hf)

/-- the return values: never the negative code of `towfc_s` the documentation mentions (ESNOTFND "when iswfc() and towfc_s() are
mismatched": they are not, `towfcCore_multi`) -/
theorem wcsfcS_ret (fx : Fixes) (hfx : fx.rangeChk = true) (dmax : Nat) (src : List Nat) (h0 : ∀ c ∈ src, c ≠ 0) :
    (wcsfcS fx dmax src).ret = 0 ∨ (wcsfcS fx dmax src).ret = ESZEROL ∨ (wcsfcS fx dmax src).ret = ESLEMAX ∨
    (wcsfcS fx dmax src).ret = ESNOSPC := by
  obtain ⟨_, i2, _, _, _, _⟩ := fcLoop_spec fx hfx src dmax h0
  unfold wcsfcS
  by_cases hd : dmax = 0
  · simp [hd]
  · by_cases hmax : dmax > RSIZE_MAX_WSTR
    · simp [hd, hmax]
    · simp only [hd, if_false, hmax]
      cases hr : fcLoop fx src dmax with
      | ok out d => cases d <;> simp
      | fail r l =>
        rcases i2 r l hr with ⟨h1, h2⟩ | ⟨h1, h2⟩ <;> subst h1 <;> subst h2 <;> simp
      | oob => simp
      | overrun => simp

/-- four cells more than the result: `wcsfc_s` succeeds (sharp: `wcsfc_exact_fit_witness`), as is and with the room check -/
theorem wcsfcS_succeeds (fx : Fixes) (hfx : fx.rangeChk = true) (dmax : Nat) (src : List Nat)
    (hs : ∀ c ∈ src, c ≠ 0 ∧ c ≤ 0x10FFFF) (hmax : dmax ≤ RSIZE_MAX_WSTR)
    (hroom : (fcPure src).length + 4 ≤ dmax) :
    wcsfcS fx dmax src = ⟨0, (fcPure src).length, fcPure src, false, false⟩ := by
  obtain ⟨_, _, _, _, i5, _⟩ := fcLoop_spec fx hfx src dmax (fun c hc => (hs c hc).1)
  have h := i5 (fun c hc => (hs c hc).2) hroom
  obtain ⟨k, hk⟩ : ∃ k, dmax - (fcPure src).length = k + 1 := ⟨dmax - (fcPure src).length - 1, by omega⟩
  unfold wcsfcS
  rw [if_neg (by omega), if_neg (by omega), h, hk]
  simp only [Res.mk.injEq, and_true, true_and]
  omega

end SafeC.Fold

import SafeC.Proofs.NormTables
/-! C17 — table closure (kernel-checked; separate file so that lake builds it in parallel) -/
namespace SafeC.Norm
open SafeC.Gen

set_option maxRecDepth 100000 in
theorem tbl1_stable : tblStable 1 = true := by decide +kernel
set_option maxRecDepth 100000 in
theorem tbl2_stable : tblStable 2 = true := by decide +kernel
set_option maxRecDepth 100000 in
theorem tbl3_stable : tblStable 3 = true := by decide +kernel
set_option maxRecDepth 100000 in
theorem tbl4_stable : tblStable 4 = true := by decide +kernel

/-- Hangul jamo L, V, T are stable (the cells `_decomp_hangul_s` writes) -/
theorem jamoL_stable : allBelow (fun i => stable (UniCompos.HLBase + i)) UniCompos.HLCount = true := by decide +kernel
theorem jamoV_stable : allBelow (fun i => stable (UniCompos.HVBase + i)) UniCompos.HVCount = true := by decide +kernel
theorem jamoT_stable : allBelow (fun i => stable (UniCompos.HTBase + i)) UniCompos.HTCount = true := by decide +kernel

end SafeC.Norm

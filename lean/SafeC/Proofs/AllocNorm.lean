import SafeC.Proofs.Alloc
/-!
# C20 — the normalization skeletons (loops): a small weakest-precondition calculus over `exec`,
the loop invariant tying `seq_ext` to the live-block list, and the specs of
`reorderLoop` / `composeLoop` / `normProg`.

Everything is proved for `fixed = true` under EVERY failure oracle, and for the code as it is
(`fixed = false`) under the hypothesis that no allocation request fails (`NoFail`) — the only runs
the unrepaired code survives.
-/
namespace SafeC.Alloc
variable {α β : Type} {fails : Nat → Bool}

/-- total-correctness weakest precondition: the run does not fault and ends in `Q` -/
def wp (fails : Nat → Bool) (p : Prog α) (Q : α → St → Prop) (s : St) : Prop :=
  match exec fails p s with
  | .ok (a, s') => Q a s'
  | .error _ => False

theorem wp_iff (p : Prog α) (Q : α → St → Prop) (s : St) :
    wp fails p Q s ↔ ∃ a s', exec fails p s = .ok (a, s') ∧ Q a s' := by
  unfold wp
  cases exec fails p s with
  | error e => simp
  | ok v =>
    rcases v with ⟨a, s'⟩
    exact ⟨fun h => ⟨a, s', rfl, h⟩, fun ⟨a', s'', he, h⟩ => by cases he; exact h⟩

theorem wp_pure (x : α) (Q : α → St → Prop) (s : St) (h : Q x s) : wp fails (pure x) Q s := by
  simpa [wp] using h

theorem wp_bind (p : Prog α) (f : α → Prog β) (Q : β → St → Prop) (s : St)
    (h : wp fails p (fun a s' => wp fails (f a) Q s') s) : wp fails (p >>= f) Q s := by
  unfold wp at h ⊢
  rw [exec_bind]
  cases hh : exec fails p s with
  | error e => rw [hh] at h; exact h
  | ok v => rcases v with ⟨a, s'⟩; rw [hh] at h; simpa using h

theorem wp_mono {Q Q' : α → St → Prop} (p : Prog α) (s : St) (h : ∀ a s', Q a s' → Q' a s')
    (hp : wp fails p Q s) : wp fails p Q' s := by
  unfold wp at hp ⊢
  cases hh : exec fails p s with
  | error e => rw [hh] at hp; exact hp
  | ok v => rcases v with ⟨a, s'⟩; rw [hh] at hp; exact h _ _ hp

theorem wp_malloc (Q : Option Blk → St → Prop) (s : St)
    (h1 : fails s.next = true → Q none (s.allocFail (.malloc s.next false)))
    (h2 : fails s.next = false → Q (some s.next) (s.allocOk s.live (.malloc s.next true))) :
    wp fails malloc Q s := by
  unfold wp; rw [exec_malloc]
  by_cases h : fails s.next = true
  · simpa [h] using h1 h
  · have h' : fails s.next = false := by simpa using h
    simpa [h'] using h2 h'

/-- the live list after `free(o)` / a successful `realloc(o, ..)` took `o` away -/
def eraseOpt (l : List Blk) : Option Blk → List Blk
  | some b => l.erase b
  | none => l

theorem wp_realloc (o : Option Blk) (Q : Option Blk → St → Prop) (s : St)
    (ho : ∀ b, o = some b → b ∈ s.live)
    (h1 : fails s.next = true → Q none (s.allocFail (.realloc s.next o false)))
    (h2 : fails s.next = false →
      Q (some s.next) (s.allocOk (eraseOpt s.live o) (.realloc s.next o true))) :
    wp fails (realloc o) Q s := by
  unfold wp
  by_cases h : fails s.next = true
  · cases o with
    | none => simpa [realloc, exec, h] using h1 h
    | some b => simpa [realloc, exec, h, ho b rfl] using h1 h
  · have h' : fails s.next = false := by simpa using h
    cases o with
    | none => simpa [realloc, exec, h', eraseOpt] using h2 h'
    | some b => simpa [realloc, exec, h', ho b rfl, eraseOpt] using h2 h'

theorem wp_free (o : Option Blk) (Q : Unit → St → Prop) (s : St)
    (ho : ∀ b, o = some b → b ∈ s.live)
    (h : Q () { s with live := eraseOpt s.live o, events := .free o :: s.events }) :
    wp fails (free o) Q s := by
  unfold wp
  cases o with
  | none => simpa [eraseOpt] using h
  | some b => rw [exec_free_some]; simpa [ho b rfl, eraseOpt] using h

theorem wp_deref (b : Blk) (Q : Unit → St → Prop) (s : St) (hb : b ∈ s.live) (h : Q () s) :
    wp fails (deref (some b)) Q s := by
  unfold wp; rw [exec_deref_some]; simpa [hb] using h

theorem wp_handler (Q : Unit → St → Prop) (s : St) (h : Q () (s.onEmit .handler)) : wp fails handler Q s := by
  unfold wp; simpa using h
theorem wp_clear (Q : Unit → St → Prop) (s : St) (h : Q () (s.onEmit .clear)) : wp fails clear Q s := by
  unfold wp; simpa using h

/-! ### invariant -/

/-- no allocation request is ever failed -/
def NoFail (fails : Nat → Bool) : Prop := ∀ i, fails i = false

def extList : Option Blk → List Blk
  | none => []
  | some b => [b]

/-- `L` = the blocks that were live when the function was entered (plus its scratch buffer) -/
structure Inv (L : List Blk) (q : Seq) (s : St) : Prop where
  live : s.live = extList q.ext ++ L
  use : q.useExt = true → q.ext.isSome = true
  pos : q.ccPos ≤ q.seqMax
  base : CC_SEQ_SIZE ≤ q.seqMax
  ext0 : q.seqMax = CC_SEQ_SIZE → q.ext = none

def Keep (s s' : St) : Prop := s'.nfail = s.nfail ∧ s'.hn = s.hn

def PtrOK (L : List Blk) : Ptr → Prop
  | .caller => True
  | .heap b => ∃ t, b = some t ∧ t ∈ L

theorem Inv.upd {L : List Blk} {q q' : Seq} {s : St} (h : Inv L q s) (he : q'.ext = q.ext) (hu : q'.useExt = q.useExt)
    (hm : q'.seqMax = q.seqMax) (hp : q'.ccPos ≤ q'.seqMax) : Inv L q' s :=
  ⟨by rw [he]; exact h.live, by rw [hu, he]; exact h.use, hp, by rw [hm]; exact h.base, by rw [hm, he]; exact h.ext0⟩

theorem touch_wp {L : List Blk} {q : Seq} (dest : Ptr) (Q : Unit → St → Prop) (s : St) (hp : PtrOK L dest) (hinv : Inv L q s)
    (h : Q () s) : wp fails (touch dest) Q s := by
  cases dest with
  | caller => exact wp_pure _ _ _ h
  | heap b =>
    obtain ⟨t, rfl, ht⟩ := hp
    exact wp_deref _ _ _ (by rw [hinv.live]; exact List.mem_append_right _ ht) h

theorem useSeq_wp {L : List Blk} (q : Seq) (Q : Unit → St → Prop) (s : St) (hinv : Inv L q s) (h : Q () s) :
    wp fails (useSeq q) Q s := by
  unfold useSeq
  by_cases hu : q.useExt = true
  · have := hinv.use hu
    cases he : q.ext with
    | none => simp [he] at this
    | some b =>
      simp only [hu, if_true]
      exact wp_deref _ _ _ (by rw [hinv.live, he]; simp [extList]) h
  · simp only [hu]
    exact wp_pure _ _ _ h

theorem freeIf_wp {L : List Blk} (e : Option Blk) (Q : Unit → St → Prop) (s : St) (hl : s.live = extList e ++ L)
    (h : ∀ s', s'.live = L → Keep s s' → s'.cleared = s.cleared → Q () s') : wp fails (freeIf e) Q s := by
  unfold freeIf
  cases e with
  | none => simp only [Option.isSome_none]; exact wp_pure _ _ _ (h s (by simpa [extList] using hl) ⟨rfl, rfl⟩ rfl)
  | some b =>
    simp only [Option.isSome_some, if_true]
    refine wp_free _ _ _ (by intro b' hb; cases hb; rw [hl]; simp [extList]) ?_
    exact h _ (by simp [hl, extList, eraseOpt]) ⟨rfl, rfl⟩ rfl

/-- post-condition of a step that ends the call: always an error exit -/
def DoneOK (fixed : Bool) (L : List Blk) (s : St) (o : Out) (s' : St) : Prop :=
  o.failed = true ∧ s.hn < s'.hn ∧ s'.cleared = true ∧ s.nfail ≤ s'.nfail ∧ (fixed = true → s'.live = L) ∧
    ∃ E, s'.live = E ++ L

def StepOK (fixed : Bool) (L : List Blk) (s : St) : Step → St → Prop
  | .done o, s' => DoneOK fixed L s o s'
  | .next q' _, s' => Inv L q' s' ∧ Keep s s'

theorem bail_wp {L : List Blk} (fixed : Bool) (q : Seq) (s s0 : St) (hinv : Inv L q s) (hk : Keep s0 s) :
    wp fails (bail fixed q) (StepOK fixed L s0) s := by
  unfold bail
  refine wp_bind _ _ _ _ (wp_clear _ _ ?_)
  refine wp_bind _ _ _ _ (wp_handler _ _ ?_)
  cases fixed with
  | false =>
    simp only [Bool.false_eq_true, if_false]
    refine wp_bind _ _ _ _ (wp_pure _ _ _ ?_)
    refine wp_pure _ _ _ ?_
    simp [StepOK, DoneOK, St.onEmit, hk.1, hk.2]
    exact ⟨_, hinv.live⟩
  | true =>
    simp only [if_true]
    refine wp_bind _ _ _ _ (freeIf_wp (L := L) _ _ _ (by simpa [St.onEmit] using hinv.live) ?_)
    intro s' h1 h2 h3
    refine wp_pure _ _ _ ?_
    obtain ⟨k1, k2⟩ := h2
    simp [St.onEmit] at k1 k2 h3
    exact ⟨rfl, by have := hk.2; omega, h3, by have := hk.1; omega, fun _ => h1, [], by simpa using h1⟩

theorem bailNoMem_wp {L : List Blk} (fixed : Bool) (q : Seq) (s s0 : St) (hl : s.live = L)
    (hn : s0.nfail ≤ s.nfail) (hh : s0.hn ≤ s.hn) :
    wp fails (bailNoMem q) (StepOK fixed L s0) s := by
  unfold bailNoMem
  refine wp_bind _ _ _ _ (wp_clear _ _ ?_)
  refine wp_bind _ _ _ _ (wp_handler _ _ ?_)
  refine wp_pure _ _ _ ?_
  simp [StepOK, DoneOK, St.onEmit]
  exact ⟨by omega, hn, fun _ => hl, [], by simpa using hl⟩

theorem checkRoom_wp {L : List Blk} (fixed : Bool) (q : Seq) (v : Bool) (s s0 : St) (hinv : Inv L q s) (hk : Keep s0 s) :
    wp fails (checkRoom fixed q v) (StepOK fixed L s0) s := by
  unfold checkRoom
  split
  · exact bail_wp fixed q s s0 hinv hk
  · exact wp_pure _ _ _ ⟨hinv, hk⟩

/-- the growth step: it either hands back a bigger array (invariant kept), or -- repaired code only --
gives up with everything released and the failure counted -/
theorem grow_wp {L : List Blk} (fixed : Bool) (q : Seq) (s : St) (hA : fixed = true ∨ NoFail fails) (hinv : Inv L q s)
    (Q : Option Seq → St → Prop)
    (hsome : ∀ q' s', Inv L q' s' → Keep s s' → q'.ccPos = q.ccPos → q.ccPos + 1 ≤ q'.seqMax → q'.wrapped = q.wrapped →
      q'.dmax = q.dmax → Q (some q') s')
    (hnone : ∀ s', fixed = true → s'.live = L → s.nfail < s'.nfail → s'.hn = s.hn → Q none s') :
    wp fails (grow fixed q) Q s := by
  unfold grow
  by_cases hg : q.seqMax < q.ccPos + 1
  · simp only [hg, if_true]
    have hpos := hinv.pos
    have hbase := hinv.base
    by_cases h10 : (q.ccPos == CC_SEQ_SIZE) = true
    · simp only [h10, if_true]
      have hc : q.ccPos = CC_SEQ_SIZE := by simpa using h10
      have hext : q.ext = none := hinv.ext0 (by omega)
      have hlive : s.live = L := by simpa [hext, extList] using hinv.live
      refine wp_bind _ _ _ _ (wp_malloc _ _ ?_ ?_)
      · intro hf
        rcases hA with hfx | hnf
        · subst hfx
          simp only [Bool.true_and, Option.isNone_none, if_true]
          exact wp_pure _ _ _ (hnone _ rfl (by simpa [St.allocFail] using hlive) (by simp [St.allocFail]) (by simp [St.allocFail]))
        · rw [hnf] at hf; cases hf
      · intro hf
        simp only [Option.isNone_some, Bool.and_false, Bool.false_eq_true, if_false]
        refine wp_bind _ _ _ _ (wp_deref _ _ _ (by simp [St.allocOk]) ?_)
        refine wp_pure _ _ _ (hsome _ _ ?_ ⟨by simp [St.allocOk], by simp [St.allocOk]⟩ rfl (by simp [CC_SEQ_STEP]) rfl rfl)
        exact ⟨by simp [St.allocOk, extList, hlive], by simp, by simp [CC_SEQ_STEP], by simp [CC_SEQ_STEP, CC_SEQ_SIZE] at *; omega,
               by simp [CC_SEQ_STEP, CC_SEQ_SIZE] at *; omega⟩
    · simp only [h10, Bool.false_eq_true, if_false]
      have hmem : ∀ b, q.ext = some b → b ∈ s.live := by
        intro b hb; rw [hinv.live, hb]; simp [extList]
      refine wp_bind _ _ _ _ (wp_realloc _ _ _ hmem ?_ ?_)
      · intro hf
        rcases hA with hfx | hnf
        · subst hfx
          simp only [Bool.true_and, Option.isNone_none, if_true]
          refine wp_bind _ _ _ _ (freeIf_wp (L := L) _ _ _ (by simpa [St.allocFail] using hinv.live) ?_)
          intro s' h1 h2 _
          refine wp_pure _ _ _ (hnone _ rfl h1 ?_ ?_)
          · have := h2.1; simp [St.allocFail] at this; omega
          · have := h2.2; simpa [St.allocFail] using this
        · rw [hnf] at hf; cases hf
      · intro hf
        simp only [Option.isNone_some, Bool.and_false, Bool.false_eq_true, if_false]
        refine wp_pure _ _ _ (hsome _ _ ?_ ⟨by simp [St.allocOk], by simp [St.allocOk]⟩ rfl (by simp [CC_SEQ_STEP]) rfl rfl)
        have hne : q.ccPos ≠ CC_SEQ_SIZE := by simpa using h10
        refine ⟨?_, by simp, by simp [CC_SEQ_STEP], by simp [CC_SEQ_STEP, CC_SEQ_SIZE] at *; omega,
                by simp [CC_SEQ_STEP, CC_SEQ_SIZE] at *; omega⟩
        cases he : q.ext with
        | none => simp [St.allocOk, extList, hinv.live, he, eraseOpt]
        | some b => simp [St.allocOk, extList, hinv.live, he, eraseOpt]
  · simp only [hg, if_false]
    exact wp_pure _ _ _ (hsome q s hinv ⟨rfl, rfl⟩ rfl (by omega) rfl rfl)

theorem collect_wp {L : List Blk} (fixed : Bool) (q : Seq) (s : St) (hA : fixed = true ∨ NoFail fails) (hinv : Inv L q s)
    (Q : Option Seq → St → Prop)
    (hsome : ∀ q' s', Inv L q' s' → Keep s s' → Q (some q') s')
    (hnone : ∀ s', fixed = true → s'.live = L → s.nfail < s'.nfail → s'.hn = s.hn → Q none s') :
    wp fails (collect fixed q) Q s := by
  unfold collect
  refine wp_bind _ _ _ _ (grow_wp fixed q s hA hinv _ ?_ ?_)
  · intro q' s' hi hk hc hm _ _
    simp only []
    refine wp_bind _ _ _ _ (useSeq_wp q' _ _ hi ?_)
    exact wp_pure _ _ _ (hsome _ _ (hi.upd rfl rfl rfl (by simp; omega)) hk)
  · intro s' hf hl hn hh
    exact wp_pure _ _ _ (hnone s' hf hl hn hh)

/-! ### reorder -/

theorem reorderFlush_wp {L : List Blk} (fixed : Bool) (dest : Ptr) (m : Bool) (q : Seq) (s s0 : St)
    (hp : PtrOK L dest) (hinv : Inv L q s) (hk : Keep s0 s) :
    wp fails (reorderFlush fixed dest m q) (StepOK fixed L s0) s := by
  have starter : ∀ q1 : Seq, Inv L q1 s →
      wp fails (if (!m) = true then (do touch dest; checkRoom fixed (q1.wrote 1) true) else checkRoom fixed q1 true) (StepOK fixed L s0) s := by
    intro q1 h1
    cases m with
    | true => simp only [Bool.not_true, Bool.false_eq_true, if_false]; exact checkRoom_wp fixed q1 true s s0 h1 hk
    | false =>
      simp only [Bool.not_false, if_true]
      refine wp_bind _ _ _ _ (touch_wp dest _ _ hp h1 ?_)
      exact checkRoom_wp fixed _ true s s0 (h1.upd rfl rfl rfl h1.pos) hk
  unfold reorderFlush
  simp only []
  by_cases hc : (q.ccPos != 0) = true
  · simp only [hc, if_true]
    by_cases hd : (q.dmax == q.ccPos) = true
    · simp only [hd, if_true]; exact bail_wp fixed q s s0 hinv hk
    · simp only [hd, Bool.false_eq_true, if_false]
      refine wp_bind _ _ _ _ (useSeq_wp q _ _ hinv ?_)
      refine wp_bind _ _ _ _ (touch_wp dest _ _ hp hinv ?_)
      exact starter _ (hinv.upd rfl rfl rfl (by simp [Seq.wrote]))
  · simp only [hc, Bool.false_eq_true, if_false]
    exact starter q hinv

theorem reorderStep_wp {L : List Blk} (fixed : Bool) (dest : Ptr) (m last : Bool) (q : Seq) (s : St)
    (hA : fixed = true ∨ NoFail fails) (hp : PtrOK L dest) (hinv : Inv L q s) :
    wp fails (reorderStep fixed dest m last q) (StepOK fixed L s) s := by
  unfold reorderStep
  cases m with
  | false => simp only [Bool.false_eq_true, if_false]; exact reorderFlush_wp fixed dest false q s s hp hinv ⟨rfl, rfl⟩
  | true =>
    simp only [if_true]
    refine wp_bind _ _ _ _ (collect_wp fixed q s hA hinv _ ?_ ?_)
    · intro q' s' hi hk
      simp only []
      cases last with
      | false => simp only [Bool.not_false, if_true]; exact wp_pure _ _ _ ⟨hi, hk⟩
      | true => simp only [Bool.not_true, Bool.false_eq_true, if_false]; exact reorderFlush_wp fixed dest true q' s' s hp hi hk
    · intro s' hf hl hn hh
      simp only []
      exact bailNoMem_wp fixed q s' s hl (by omega) (by omega)

/-- what every surviving run of the reorder/compose loops satisfies -/
def LoopOK (fixed : Bool) (L : List Blk) (s : St) (o : Out) (s' : St) : Prop :=
  (o.failed = false → s'.live = L) ∧ (fixed = true → s'.live = L) ∧
  (o.failed = true → s.hn < s'.hn ∧ s'.cleared = true) ∧ (s.nfail < s'.nfail → o.failed = true) ∧
  s.nfail ≤ s'.nfail ∧ s.hn ≤ s'.hn ∧ ∃ E, s'.live = E ++ L

theorem LoopOK.of_step {fixed : Bool} {L : List Blk} {s s1 s' : St} {o : Out} (hk : Keep s s1) (h : LoopOK fixed L s1 o s') :
    LoopOK fixed L s o s' := by
  obtain ⟨h1, h2, h3, h4, h5, h6, h7⟩ := h
  obtain ⟨k1, k2⟩ := hk
  exact ⟨h1, h2, fun hf => ⟨by have := (h3 hf).1; omega, (h3 hf).2⟩, fun hlt => h4 (by omega), by omega, by omega, h7⟩

theorem LoopOK.of_done {fixed : Bool} {L : List Blk} {s s' : St} {o : Out} (h : DoneOK fixed L s o s') : LoopOK fixed L s o s' := by
  obtain ⟨h1, h2, h3, h4, h5, h6⟩ := h
  exact ⟨fun hf => (by rw [h1] at hf; cases hf), h5, fun _ => ⟨h2, h3⟩, fun _ => h1, h4, by omega, h6⟩

theorem reorderLoop_wp {L : List Blk} (fixed : Bool) (dest : Ptr) (cells : List Bool) (q : Seq) (s : St)
    (hA : fixed = true ∨ NoFail fails) (hp : PtrOK L dest) (hinv : Inv L q s) :
    wp fails (reorderLoop fixed dest cells q) (LoopOK fixed L s) s := by
  induction cells generalizing q s with
  | nil =>
    unfold reorderLoop
    refine wp_bind _ _ _ _ (freeIf_wp (L := L) _ _ _ hinv.live ?_)
    intro s' h1 h2 h3
    have hi' : Inv L { q with ext := none, useExt := false, seqMax := CC_SEQ_SIZE, ccPos := 0 } s' :=
      ⟨by simpa [extList] using h1, by simp, by simp, by simp, by simp⟩
    refine wp_bind _ _ _ _ (touch_wp dest _ _ hp hi' ?_)
    refine wp_pure _ _ _ ?_
    exact ⟨fun _ => h1, fun _ => h1, fun hf => (by simp at hf), fun hlt => (by have := h2.1; omega), (by have := h2.1; omega), (by have := h2.2; omega), [], by simpa using h1⟩
  | cons m rest ih =>
    unfold reorderLoop
    refine wp_bind _ _ _ _ (wp_mono _ _ ?_ (reorderStep_wp fixed dest m rest.isEmpty q s hA hp hinv))
    intro st s1 hst
    cases st with
    | done o => exact wp_pure _ _ _ (LoopOK.of_done hst)
    | next q' v =>
      simp only []
      exact wp_mono _ _ (fun o s' h => LoopOK.of_step hst.2 h) (ih q' s1 hst.1)

/-! ### compose -/

theorem composeOut_wp {L : List Blk} (fixed : Bool) (dest : Ptr) (q : Seq) (s s0 : St)
    (hp : PtrOK L dest) (hinv : Inv L q s) (hk : Keep s0 s) :
    wp fails (composeOut fixed dest q) (StepOK fixed L s0) s := by
  unfold composeOut
  refine wp_bind _ _ _ _ (touch_wp dest _ _ hp hinv ?_)
  simp only []
  have h1 : Inv L (q.wrote 1) s := hinv.upd rfl rfl rfl hinv.pos
  by_cases hd : ((q.wrote 1).dmax == 0) = true
  · simp only [hd, if_true]; exact bail_wp fixed _ s s0 h1 hk
  · simp only [hd, Bool.false_eq_true, if_false]
    by_cases hc : ((q.wrote 1).ccPos != 0) = true
    · simp only [hc, if_true]
      refine wp_bind _ _ _ _ (useSeq_wp _ _ _ h1 ?_)
      refine wp_bind _ _ _ _ (touch_wp dest _ _ hp h1 ?_)
      exact wp_pure _ _ _ ⟨h1.upd rfl rfl rfl (by simp [Seq.wrote]), hk⟩
    · simp only [hc, Bool.false_eq_true, if_false]
      exact wp_pure _ _ _ ⟨h1, hk⟩

theorem composeStep_wp {L : List Blk} (fixed : Bool) (dest src : Ptr) (c : CCell) (last valid : Bool) (q : Seq) (s : St)
    (hA : fixed = true ∨ NoFail fails) (hp : PtrOK L dest) (hs : PtrOK L src) (hinv : Inv L q s) :
    wp fails (composeStep fixed dest src c last valid q) (StepOK fixed L s) s := by
  unfold composeStep
  refine wp_bind _ _ _ _ (touch_wp src _ _ hs hinv ?_)
  have kk : Keep s s := ⟨rfl, rfl⟩
  have out := fun (q1 : Seq) (s1 : St) (h1 : Inv L q1 s1) (k1 : Keep s s1) => composeOut_wp (fails := fails) fixed dest q1 s1 s hp h1 k1
  have col : ∀ (b : Bool), wp fails (do
        match ← collect fixed q with
        | none => bailNoMem q
        | some q' => if b = true then pure (.next q' true) else composeOut fixed dest q') (StepOK fixed L s) s := by
    intro b
    refine wp_bind _ _ _ _ (collect_wp fixed q s hA hinv _ ?_ ?_)
    · intro q' s' hi hk
      simp only []
      cases b with
      | true => simp only [if_true]; exact wp_pure _ _ _ ⟨hi, hk⟩
      | false => simp only [Bool.false_eq_true, if_false]; exact out q' s' hi hk
    · intro s' hf hl hn hh
      simp only []
      exact bailNoMem_wp fixed q s' s hl (by omega) (by omega)
  rcases c with ⟨mk, cp⟩
  cases valid <;> cases mk <;> cases cp <;> cases last <;>
    simp only [Bool.not_true, Bool.not_false, Bool.false_eq_true, if_true, if_false, Bool.or_true, Bool.or_false,
      Bool.and_true, Bool.and_false] <;>
    first
    | exact wp_pure _ _ _ ⟨hinv, kk⟩
    | exact out q s hinv kk
    | exact col true
    | exact col false
    | (refine wp_bind _ _ _ _ (touch_wp dest _ _ hp hinv ?_)
       exact checkRoom_wp fixed _ false s s (hinv.upd rfl rfl rfl hinv.pos) kk)

theorem composeLoop_wp {L : List Blk} (fixed : Bool) (dest src : Ptr) (cells : List CCell) (valid : Bool) (q : Seq) (s : St)
    (hA : fixed = true ∨ NoFail fails) (hp : PtrOK L dest) (hs : PtrOK L src) (hinv : Inv L q s) :
    wp fails (composeLoop fixed dest src cells valid q) (LoopOK fixed L s) s := by
  induction cells generalizing q s valid with
  | nil =>
    unfold composeLoop
    refine wp_bind _ _ _ _ (freeIf_wp (L := L) _ _ _ hinv.live ?_)
    intro s' h1 h2 h3
    have hi' : Inv L { q with ext := none, useExt := false, seqMax := CC_SEQ_SIZE, ccPos := 0 } s' :=
      ⟨by simpa [extList] using h1, by simp, by simp, by simp, by simp⟩
    refine wp_bind _ _ _ _ (touch_wp dest _ _ hp hi' ?_)
    refine wp_pure _ _ _ ?_
    exact ⟨fun _ => h1, fun _ => h1, fun hf => (by simp at hf), fun hlt => (by have := h2.1; omega), (by have := h2.1; omega), (by have := h2.2; omega), [], by simpa using h1⟩
  | cons c rest ih =>
    unfold composeLoop
    refine wp_bind _ _ _ _ (wp_mono _ _ ?_ (composeStep_wp fixed dest src c rest.isEmpty valid q s hA hp hs hinv))
    intro st s1 hst
    cases st with
    | done o => exact wp_pure _ _ _ (LoopOK.of_done hst)
    | next q' v =>
      simp only []
      exact wp_mono _ _ (fun o s' h => LoopOK.of_step hst.2 h) (ih v q' s1 hst.1)

/-! ### the three entry points -/

/-- what every surviving run of an entry point satisfies (`L` = live blocks at entry) -/
def ProgOK (fixed : Bool) (L : List Blk) (s : St) (o : Out) (s' : St) : Prop :=
  (o.failed = false → s'.live = L) ∧ (fixed = true → s'.live = L) ∧
  (s.nfail < s'.nfail → o.failed = true ∧ s.hn < s'.hn ∧ s'.cleared = true) ∧
  s.nfail ≤ s'.nfail ∧ s.hn ≤ s'.hn ∧ (o.failed = true → s.hn < s'.hn) ∧ ∃ E, s'.live = E ++ L

theorem ProgOK.of_loop {fixed : Bool} {L : List Blk} {s s' : St} {o : Out} (h : LoopOK fixed L s o s') : ProgOK fixed L s o s' := by
  obtain ⟨h1, h2, h3, h4, h5, h6, h7⟩ := h
  exact ⟨h1, h2, fun hlt => ⟨h4 hlt, (h3 (h4 hlt)).1, (h3 (h4 hlt)).2⟩, h5, h6, fun hf => (h3 hf).1, h7⟩

theorem inv_init (dmax : Nat) (s : St) : Inv s.live { dmax := dmax } s :=
  ⟨by simp [extList], by simp, by simp [CC_SEQ_SIZE], by simp, by simp⟩

theorem reorderProg_wp {L : List Blk} (fx : Fixes) (dest : Ptr) (dmax : Nat) (cells : List Bool) (s : St)
    (hA : fx.reorder = true ∨ NoFail fails) (hL : s.live = L) (hp : PtrOK L dest) :
    wp fails (reorderProg fx dest dmax cells) (ProgOK fx.reorder L s) s := by
  subst hL
  unfold reorderProg
  split
  · unfold failH
    refine wp_bind _ _ _ _ (wp_handler _ _ ?_)
    refine wp_pure _ _ _ ?_
    simp [ProgOK, St.onEmit]
  · exact wp_mono _ _ (fun o s' h => ProgOK.of_loop h) (reorderLoop_wp fx.reorder dest cells _ s hA hp (inv_init dmax s))

theorem composeProg_wp {L : List Blk} (fx : Fixes) (dest src : Ptr) (dmax : Nat) (cells : List CCell) (s : St)
    (hA : fx.compose = true ∨ NoFail fails) (hL : s.live = L) (hp : PtrOK L dest) (hs : PtrOK L src) :
    wp fails (composeProg fx dest src dmax cells) (ProgOK fx.compose L s) s := by
  subst hL
  unfold composeProg
  split
  · unfold failCH
    refine wp_bind _ _ _ _ (wp_clear _ _ ?_)
    refine wp_bind _ _ _ _ (wp_handler _ _ ?_)
    refine wp_pure _ _ _ ?_
    simp [ProgOK, St.onEmit]
  · exact wp_mono _ _ (fun o s' h => ProgOK.of_loop h) (composeLoop_wp fx.compose dest src cells false _ s hA hp hs (inv_init dmax s))

/-- release of the scratch buffer of wcsnorm_s when the blocks above it may or may not have been released -/
theorem tmpFree_heap_wp {L0 : List Blk} (t : Blk) (s : St) (Q : Unit → St → Prop)
    (hsup : ∃ E, s.live = E ++ t :: L0)
    (h : ∀ s', (s.live = t :: L0 → s'.live = L0) → Keep s s' → s'.cleared = s.cleared → Q () s') :
    wp fails (tmpFree (.heap (some t))) Q s := by
  obtain ⟨E, hE⟩ := hsup
  unfold tmpFree freeIf
  simp only [Option.isSome_some, if_true]
  refine wp_free _ _ _ (by intro b hb; cases hb; rw [hE]; simp) ?_
  exact h _ (by intro hl; simp [hl, eraseOpt]) ⟨rfl, rfl⟩ rfl

/-- wcsnorm_s behind the scratch decision, with the scratch block (if any) on top of the entry blocks -/
theorem normBody_wp {L0 : List Blk} (fx : Fixes) (x : NormFeat) (tmp : Ptr) (s : St)
    (hA : (fx.reorder = true ∧ fx.compose = true) ∨ NoFail fails)
    (htmp : (tmp = .caller ∧ s.live = L0) ∨ (∃ t, tmp = .heap (some t) ∧ s.live = t :: L0)) :
    wp fails (normBody fx x tmp) (fun o s' =>
      (o.failed = false → s'.live = L0) ∧ ((fx.reorder = true ∧ fx.compose = true) → s'.live = L0) ∧
      (s.nfail < s'.nfail → o.failed = true ∧ s.hn < s'.hn ∧ s'.cleared = true) ∧ s.nfail ≤ s'.nfail ∧ s.hn ≤ s'.hn) s := by
  have hAr : fx.reorder = true ∨ NoFail fails := hA.elim (fun h => Or.inl h.1) Or.inr
  have hAc : fx.compose = true ∨ NoFail fails := hA.elim (fun h => Or.inl h.2) Or.inr
  unfold normBody
  rcases htmp with ⟨rfl, hl⟩ | ⟨t, rfl, hl⟩
  · -- scratch on the stack
    refine wp_bind _ _ _ _ (wp_mono _ _ ?_ (reorderProg_wp (L := L0) fx .caller (x.len + 2) x.rcells s hAr hl trivial))
    rintro r s1 ⟨r1, r2, r3, r4, r5, r6, r7⟩
    by_cases hrf : r.failed = true
    · simp only [hrf, if_true, tmpFree]
      refine wp_bind _ _ _ _ (wp_pure _ _ _ ?_)
      refine wp_bind _ _ _ _ (wp_clear _ _ ?_)
      refine wp_pure _ _ _ ?_
      simp [St.onEmit]
      exact ⟨fun h _ => r2 h, fun hlt => by have := (r3 hlt).2.1; omega, r4, r5⟩
    · have hrf' : r.failed = false := by simpa using hrf
      have hl1 := r1 hrf'
      have hn1 : s1.nfail = s.nfail := by
        rcases Nat.lt_or_ge s.nfail s1.nfail with h | h
        · have := (r3 h).1; rw [hrf'] at this; cases this
        · omega
      simp only [hrf', Bool.false_eq_true, if_false]
      by_cases hm : (x.mode == NormMode.nfd) = true
      · simp only [hm, if_true, tmpFree, touch]
        refine wp_bind _ _ _ _ (wp_pure _ _ _ ?_)
        refine wp_bind _ _ _ _ (wp_pure _ _ _ ?_)
        refine wp_pure _ _ _ ?_
        exact ⟨fun _ => hl1, fun _ => hl1, fun hlt => by omega, r4, r5⟩
      · simp only [hm, Bool.false_eq_true, if_false, tmpFree]
        refine wp_bind _ _ _ _ (wp_mono _ _ ?_ (composeProg_wp (L := L0) fx .caller .caller x.dmax x.ccells s1 hAc hl1 trivial trivial))
        rintro c s2 ⟨c1, c2, c3, c4, c5, c6, c7⟩
        refine wp_bind _ _ _ _ (wp_pure _ _ _ ?_)
        refine wp_pure _ _ _ ?_
        refine ⟨c1, fun h => c2 h.2, fun hlt => ?_, by omega, by omega⟩
        have := c3 (by omega)
        exact ⟨this.1, by omega, this.2.2⟩
  · -- scratch on the heap: block t sits on top of the entry blocks
    have hpt : PtrOK (t :: L0) (.heap (some t)) := ⟨t, rfl, by simp⟩
    refine wp_bind _ _ _ _ (wp_mono _ _ ?_ (reorderProg_wp (L := t :: L0) fx (.heap (some t)) (x.len + 2) x.rcells s hAr hl hpt))
    rintro r s1 ⟨r1, r2, r3, r4, r5, r6, r7⟩
    by_cases hrf : r.failed = true
    · simp only [hrf, if_true]
      refine wp_bind _ _ _ _ (tmpFree_heap_wp (L0 := L0) t s1 _ r7 ?_)
      intro s2 h1 h2 h3
      refine wp_bind _ _ _ _ (wp_clear _ _ ?_)
      refine wp_pure _ _ _ ?_
      simp [St.onEmit]
      refine ⟨fun h _ => h1 (r2 h), fun hlt => ?_, by have := h2.1; omega, by have := h2.2; omega⟩
      have := (r3 (by have := h2.1; omega)).2.1
      have := h2.2; omega
    · have hrf' : r.failed = false := by simpa using hrf
      have hl1 := r1 hrf'
      have hn1 : s1.nfail = s.nfail := by
        rcases Nat.lt_or_ge s.nfail s1.nfail with h | h
        · have := (r3 h).1; rw [hrf'] at this; cases this
        · omega
      simp only [hrf', Bool.false_eq_true, if_false]
      by_cases hm : (x.mode == NormMode.nfd) = true
      · simp only [hm, if_true, touch]
        refine wp_bind _ _ _ _ (wp_deref _ _ _ (by rw [hl1]; simp) ?_)
        refine wp_bind _ _ _ _ (tmpFree_heap_wp (L0 := L0) t s1 _ ⟨[], by simpa using hl1⟩ ?_)
        intro s2 h1 h2 h3
        refine wp_pure _ _ _ ?_
        exact ⟨fun _ => h1 hl1, fun _ => h1 hl1, fun hlt => by have := h2.1; omega, by have := h2.1; omega, by have := h2.2; omega⟩
      · simp only [hm, Bool.false_eq_true, if_false]
        refine wp_bind _ _ _ _ (wp_mono _ _ ?_ (composeProg_wp (L := t :: L0) fx .caller (.heap (some t)) x.dmax x.ccells s1 hAc hl1 trivial hpt))
        rintro c s2 ⟨c1, c2, c3, c4, c5, c6, c7⟩
        refine wp_bind _ _ _ _ (tmpFree_heap_wp (L0 := L0) t s2 _ c7 ?_)
        intro s3 h1 h2 h3
        refine wp_pure _ _ _ ?_
        refine ⟨fun hf => h1 (c1 hf), fun h => h1 (c2 h.2), fun hlt => ?_, by have := h2.1; omega, by have := h2.2; omega⟩
        have := c3 (by have := h2.1; omega)
        exact ⟨this.1, by have := h2.2; omega, by rw [h3]; exact this.2.2⟩

/-- every surviving run of wcsnorm_s -/
def NormOK (fixed : Bool) (s : St) (o : Out) (s' : St) : Prop :=
  (o.failed = false → s'.live = s.live) ∧ (fixed = true → s'.live = s.live) ∧
  (s.nfail < s'.nfail → o.failed = true ∧ s.hn < s'.hn ∧ s'.cleared = true)

theorem normProg_wp (fx : Fixes) (x : NormFeat) (s : St)
    (hA : (fx.normtmp = true ∧ fx.reorder = true ∧ fx.compose = true) ∨ NoFail fails) :
    wp fails (normProg fx x) (NormOK (fx.normtmp && fx.reorder && fx.compose) s) s := by
  have hA' : (fx.reorder = true ∧ fx.compose = true) ∨ NoFail fails := hA.elim (fun h => Or.inl h.2) Or.inr
  unfold normProg
  by_cases hd : x.decErr = true
  · simp only [hd, if_true]
    unfold failCH
    refine wp_bind _ _ _ _ (wp_clear _ _ ?_)
    refine wp_bind _ _ _ _ (wp_handler _ _ ?_)
    refine wp_pure _ _ _ ?_
    simp [NormOK, St.onEmit]
  · simp only [hd, Bool.false_eq_true, if_false]
    by_cases hm : (x.mode == NormMode.fcd) = true
    · simp only [hm, if_true]
      exact wp_pure _ _ _ ⟨fun _ => rfl, fun _ => rfl, fun h => by omega⟩
    · simp only [hm, Bool.false_eq_true, if_false]
      by_cases hs : x.len + 2 < 128
      · simp only [hs, if_true]
        refine wp_mono _ _ ?_ (normBody_wp (L0 := s.live) fx x .caller s hA' (Or.inl ⟨rfl, rfl⟩))
        rintro o s' ⟨h1, h2, h3, _, _⟩
        refine ⟨h1, fun hf => h2 ?_, h3⟩
        simp [Bool.and_eq_true] at hf; exact ⟨hf.1.2, hf.2⟩
      · simp only [hs, if_false]
        refine wp_bind _ _ _ _ (wp_malloc _ _ ?_ ?_)
        · intro hf
          rcases hA with ⟨h1, h2, h3⟩ | hnf
          · simp only [h1, Bool.true_and, Option.isNone_none, if_true]
            unfold failCH
            refine wp_bind _ _ _ _ (wp_clear _ _ ?_)
            refine wp_bind _ _ _ _ (wp_handler _ _ ?_)
            refine wp_pure _ _ _ ?_
            simp [NormOK, St.onEmit, St.allocFail]
          · rw [hnf] at hf; cases hf
        · intro hf
          simp only [Option.isNone_some, Bool.and_false, Bool.false_eq_true, if_false]
          refine wp_mono _ _ ?_ (normBody_wp (L0 := s.live) fx x (.heap (some s.next)) _ hA'
            (Or.inr ⟨s.next, rfl, by simp [St.allocOk]⟩))
          rintro o s' ⟨h1, h2, h3, h4, h5⟩
          simp [St.allocOk] at h3 h4 h5
          refine ⟨h1, fun hf => h2 ?_, h3⟩
          simp [Bool.and_eq_true] at hf; exact ⟨hf.1.2, hf.2⟩

end SafeC.Alloc

import SafeC.Proofs.SW
import SafeC.Props.C01
/-!
# From the `SW` judgement to the C01 conclusion (`Setting`, `Holds` of `Props/C01.lean`)
-/
namespace SafeC.Props.C01
open SafeC Gen

/-- `p` writes only inside `[dest, dest+ext)` (nothing at all when `dest` is NULL) ⇒ the C01 conclusion -/
theorem holds_of_SW {α} {p : Prog α} {Q : α → Prop} (dest ext : Nat) (st : St) (hs : Setting st)
    (hrw : dest ≠ 0 → RW st dest ext)
    (h : ∀ lo hi, (dest = 0 ∨ (lo ≤ dest ∧ dest + ext ≤ hi)) → SW lo hi p Q) :
    ∃ r st', exec p st = .ok (r, st') ∧ Holds st st' := by
  by_cases hd : dest = 0
  · obtain ⟨r, st', he, _, h1, h2⟩ := (h 0 0 (Or.inl hd)).run st hs.all hs.clean (fun a h1 h2 => by omega)
    exact ⟨r, st', he, h1, h2⟩
  · obtain ⟨r, st', he, _, h1, h2⟩ := (h dest (dest + ext) (Or.inr ⟨Nat.le_refl _, Nat.le_refl _⟩)).run st hs.all hs.clean
      (fun a h1 h2 => by
        have := hrw hd (a - dest) (by omega)
        have e : dest + (a - dest) = a := by omega
        rw [e] at this; exact this.2.1)
    exact ⟨r, st', he, h1, h2⟩

/-- the stray WRITES a run recorded (`none`: the run faulted) — the decidable observation used by the witnesses -/
def strayWrites {α} (r : Except Fault (α × St)) : Option (List Access) :=
  match r with
  | .ok (_, s) => some (s.strays.filter Access.isWrite)
  | .error _ => none

end SafeC.Props.C01

import SafeC.Spec.Query
/-!
# Loop lemmas for the second batch of C10 (single-scan loops)

Every lemma: on a memory where all loads succeed (`AllRd`) the loop returns the value of the pure
spec of `SafeC/Spec/Query.lean` / `SafeC/Proofs/Query.lean` and leaves the state as it was.
Induction on the loop counter, ALL sizes.  No property statements here.
-/
namespace SafeC
open Gen

/-! ## arithmetic facts about the spec functions -/

theorem scanLen_succ_of_ne (d : Nat → Nat) (p n : Nat) (h : d p ≠ 0) :
    scanLen d p (n+1) = scanLen d (p+1) n + 1 := by
  simp [scanLen, h, Nat.add_comm]

theorem scanLen_succ_of_eq (d : Nat → Nat) (p n : Nat) (h : d p = 0) : scanLen d p (n+1) = 0 := by
  simp [scanLen, h]

theorem firstIdx_succ_of_ne (d : Nat → Nat) (c p n : Nat) (h : d p ≠ c) :
    firstIdx d c p (n+1) = (firstIdx d c (p+1) n).map (· + 1) := by
  simp [firstIdx, h]

/-- `lastIdx` unfolded at the FRONT of the region -/
theorem lastIdx_front (d : Nat → Nat) (c p n : Nat) :
    lastIdx d c p (n+1) =
      match lastIdx d c (p+1) n with
      | some i => some (i+1)
      | none => if d p = c then some 0 else none := by
  induction n with
  | zero => simp [lastIdx]
  | succ n ih =>
    rw [lastIdx]
    by_cases h : d (p + (n+1)) = c
    · have h' : d (p + 1 + n) = c := by rw [← h]; congr 1; omega
      simp [h, lastIdx, h']
    · have h' : ¬ d (p + 1 + n) = c := by intro hh; apply h; rw [← hh]; congr 1; omega
      simp only [h, if_false, ih]
      simp [lastIdx, h']

/-- `scanLen` over a longer window is the shorter one capped -/
theorem scanLen_min (d : Nat → Nat) (p n N : Nat) (h : n ≤ N) :
    scanLen d p n = min n (scanLen d p N) := by
  induction n generalizing p N with
  | zero => simp [scanLen]
  | succ n ih =>
    cases N with
    | zero => omega
    | succ N =>
      simp only [scanLen]
      by_cases h0 : d p = 0
      · simp [h0]
      · simp only [h0, if_false]
        rw [ih (p+1) N (by omega)]; omega

theorem toUpperC_eq_zero (c : Nat) : toUpperC c = 0 ↔ c = 0 := by
  unfold toUpperC; split <;> omega

/-! ## libc `strlen`, `strchr` -/

theorem strlenP_eq {st : St} (h : AllRd st) (fuel s n : Nat) :
    exec (strlenP fuel s n) st = .ok (n + scanLen st.data s fuel, st) := by
  induction fuel generalizing s n with
  | zero => simp [strlenP, scanLen]
  | succ f ih =>
    simp only [strlenP, exec_bind, exec_load_all h, scanLen]
    by_cases hc : st.data s = 0
    · simp [hc]
    · simp only [hc, if_false]; rw [ih]; congr 2; omega

/-- `strchr` on a string terminated within `n ≤ fuel` cells: the first `c` among the characters of
the string INCLUDING its terminator -/
theorem strchrP_eq {st : St} (h : AllRd st) (c fuel s n : Nat) (hn : n ≤ fuel)
    (hz : scanLen st.data s n < n) :
    exec (strchrP c fuel s) st =
      .ok ((match firstIdx st.data c s (scanLen st.data s n + 1) with | some i => s + i | none => 0), st) := by
  induction n generalizing s fuel with
  | zero => omega
  | succ n ih =>
    cases fuel with
    | zero => omega
    | succ f =>
      simp only [strchrP, exec_bind, exec_load_all h]
      by_cases hc : st.data s = c
      · simp [hc, firstIdx]
      · simp only [hc, if_false]
        by_cases h0 : st.data s = 0
        · have hc' : ¬ (0 = c) := fun e => hc (by rw [h0]; exact e)
          simp [h0, scanLen, firstIdx, hc']
        · simp only [h0, if_false]
          rw [scanLen_succ_of_ne _ _ _ h0] at hz ⊢
          rw [ih f (s+1) (by omega) (by omega), firstIdx_succ_of_ne _ _ s _ hc]
          cases firstIdx st.data c (s+1) (scanLen st.data (s+1) n + 1) <;> simp <;> omega

/-- `strchr` when the first cell equal to `c` or to NUL is a `c`, at offset `k < fuel` -/
theorem strchrP_hit {st : St} (h : AllRd st) (c fuel s k : Nat) (hk : k < fuel)
    (hbefore : ∀ j, j < k → st.data (s+j) ≠ c ∧ st.data (s+j) ≠ 0) (hat : st.data (s+k) = c) :
    exec (strchrP c fuel s) st = .ok (s + k, st) := by
  induction k generalizing s fuel with
  | zero =>
    cases fuel with
    | zero => omega
    | succ f => simp [strchrP, exec_bind, exec_load_all h, show st.data s = c by simpa using hat]
  | succ k ih =>
    cases fuel with
    | zero => omega
    | succ f =>
      have h0 := hbefore 0 (by omega)
      simp only [Nat.add_zero] at h0
      simp only [strchrP, exec_bind, exec_load_all h, h0.1, h0.2, if_false]
      rw [ih f (s+1) (by omega) (fun j hj => by
        have := hbefore (j+1) (by omega); simpa [Nat.add_assoc, Nat.add_comm 1 j] using this)
        (by simpa [Nat.add_assoc, Nat.add_comm 1 k] using hat)]
      simp [Nat.add_assoc, Nat.add_comm 1 k]

/-- whatever `strchr` returns is NULL or a pointer not below its argument -/
theorem strchrP_ge {st : St} (h : AllRd st) (c fuel s : Nat) :
    ∃ r, exec (strchrP c fuel s) st = .ok (r, st) ∧ (r = 0 ∨ s ≤ r) := by
  induction fuel generalizing s with
  | zero => exact ⟨0, by simp [strchrP], Or.inl rfl⟩
  | succ f ih =>
    simp only [strchrP, exec_bind, exec_load_all h]
    by_cases hc : st.data s = c
    · exact ⟨s, by simp [hc], Or.inr (Nat.le_refl _)⟩
    · by_cases h0 : st.data s = 0
      · have hc' : ¬ (0 = c) := fun e => hc (by rw [h0]; exact e)
        exact ⟨0, by simp [h0, hc'], Or.inl rfl⟩
      · obtain ⟨r, hr, hge⟩ := ih (s+1)
        exact ⟨r, by simp [hc, h0, hr], by omega⟩

/-- `strchr` when none of the first `n` cells is `c` or NUL: NULL or a pointer at least `n` cells on -/
theorem strchrP_far {st : St} (h : AllRd st) (c fuel s n : Nat)
    (hbefore : ∀ j, j < n → st.data (s+j) ≠ c ∧ st.data (s+j) ≠ 0) :
    ∃ r, exec (strchrP c fuel s) st = .ok (r, st) ∧ (r = 0 ∨ s + n ≤ r) := by
  induction n generalizing s fuel with
  | zero => simpa using strchrP_ge h c fuel s
  | succ n ih =>
    cases fuel with
    | zero => exact ⟨0, by simp [strchrP], Or.inl rfl⟩
    | succ f =>
      have h0 := hbefore 0 (by omega)
      simp only [Nat.add_zero] at h0
      obtain ⟨r, hr, hge⟩ := ih f (s+1) (fun j hj => by
        have := hbefore (j+1) (by omega); simpa [Nat.add_assoc, Nat.add_comm 1 j] using this)
      exact ⟨r, by simp [strchrP, exec_bind, exec_load_all h, h0.1, h0.2, hr], by omega⟩

/-! ## `strfirstchar_s`, `strlastchar_s` -/

theorem firstcharLoop_eq {st : St} (h : AllRd st) (c dmax dest : Nat) :
    exec (firstcharLoop c dmax dest) st =
      .ok ((match firstIdx st.data c dest (scanLen st.data dest dmax) with
            | some i => (EOK, dest + i) | none => (ESNOTFND, 0)), st) := by
  induction dmax generalizing dest with
  | zero => simp [firstcharLoop, exec_bind, exec_load_all h, scanLen, firstIdx]
  | succ n ih =>
    simp only [firstcharLoop, exec_bind, exec_load_all h]
    by_cases h0 : st.data dest = 0
    · simp [h0, scanLen, firstIdx]
    · simp only [h0, if_false]
      rw [scanLen_succ_of_ne _ _ _ h0]
      by_cases hc : st.data dest = c
      · simp [hc, firstIdx]
      · simp only [hc, if_false, firstIdx]
        rw [ih]
        cases firstIdx st.data c (dest+1) (scanLen st.data (dest+1) n) <;> simp <;> omega

theorem lastcharLoop_eq {st : St} (h : AllRd st) (c dmax dest last : Nat) :
    exec (lastcharLoop c dmax dest last) st =
      .ok ((match lastIdx st.data c dest (scanLen st.data dest dmax) with
            | some i => dest + i | none => last), st) := by
  induction dmax generalizing dest last with
  | zero => simp [lastcharLoop, exec_bind, exec_load_all h, scanLen, lastIdx]
  | succ n ih =>
    simp only [lastcharLoop, exec_bind, exec_load_all h]
    by_cases h0 : st.data dest = 0
    · simp [h0, scanLen, lastIdx]
    · simp only [h0, if_false]
      rw [scanLen_succ_of_ne _ _ _ h0, lastIdx_front, ih]
      cases lastIdx st.data c (dest+1) (scanLen st.data (dest+1) n) with
      | some i => simp; omega
      | none => by_cases hc : st.data dest = c <;> simp [hc]

/-! ## `strfirstdiff_s` … `strlastsame_s` -/

theorem pairLoop_first_eq {st : St} (h : AllRd st) (same : Bool) (rp dmax dest src : Nat) (last : Option Nat)
    (hrp : rp ≤ dest) :
    exec (pairLoop same true rp dmax dest src last) st =
      .ok ((match pairFirst same st.data dest src dmax with
            | some i => some (dest - rp + i) | none => last), st) := by
  induction dmax generalizing dest src last with
  | zero =>
    simp only [pairLoop, exec_bind, exec_load_all h, pairFirst]
    split <;> simp [exec_bind, exec_load_all h]
  | succ n ih =>
    simp only [pairLoop, exec_bind, exec_load_all h, pairFirst]
    by_cases h0 : st.data dest = 0
    · simp [h0]
    · simp only [h0, if_false, exec_bind, exec_load_all h, false_or]
      by_cases h1 : st.data src = 0
      · simp [h1]
      · simp only [h1, if_false]
        have e1 : dest + 1 - rp = dest - rp + 1 := by omega
        by_cases he : st.data dest = st.data src
        · cases same
          · simp only [he, bne_self_eq_false, Bool.false_eq_true, if_false, beq_self_eq_true]
            rw [ih _ _ _ (by omega)]
            cases pairFirst false st.data (dest+1) (src+1) n <;> simp [e1] <;> omega
          · simp [he]
        · have hb : (st.data dest == st.data src) = false := by simpa using he
          have hb' : (st.data dest != st.data src) = true := by simpa using he
          cases same
          · simp [hb, hb']
          · simp only [hb, Bool.false_eq_true, if_false, if_true]
            rw [ih _ _ _ (by omega)]
            cases pairFirst true st.data (dest+1) (src+1) n <;> simp [e1] <;> omega

theorem pairLoop_last_eq {st : St} (h : AllRd st) (same : Bool) (rp dmax dest src : Nat) (last : Option Nat)
    (hrp : rp ≤ dest) :
    exec (pairLoop same false rp dmax dest src last) st =
      .ok ((match pairLast same st.data dest src dmax with
            | some i => some (dest - rp + i) | none => last), st) := by
  induction dmax generalizing dest src last with
  | zero =>
    simp only [pairLoop, exec_bind, exec_load_all h, pairLast]
    split <;> simp [exec_bind, exec_load_all h]
  | succ n ih =>
    simp only [pairLoop, exec_bind, exec_load_all h, pairLast]
    by_cases h0 : st.data dest = 0
    · simp [h0]
    · simp only [h0, if_false, exec_bind, exec_load_all h, false_or]
      by_cases h1 : st.data src = 0
      · simp [h1]
      · simp only [h1, if_false]
        have e1 : dest + 1 - rp = dest - rp + 1 := by omega
        by_cases he : st.data dest = st.data src
        · cases same
          · simp only [he, bne_self_eq_false, Bool.false_eq_true, if_false, beq_self_eq_true]
            rw [ih _ _ _ (by omega)]
            cases pairLast false st.data (dest+1) (src+1) n <;> simp [e1] <;> omega
          · simp only [he, beq_self_eq_true, if_true, Bool.false_eq_true, if_false]
            rw [ih _ _ _ (by omega)]
            cases pairLast true st.data (dest+1) (src+1) n <;> simp [e1] <;> omega
        · have hb : (st.data dest == st.data src) = false := by simpa using he
          have hb' : (st.data dest != st.data src) = true := by simpa using he
          cases same
          · simp only [hb, hb', Bool.false_eq_true, if_false, if_true]
            rw [ih _ _ _ (by omega)]
            cases pairLast false st.data (dest+1) (src+1) n <;> simp [e1] <;> omega
          · simp only [hb, Bool.false_eq_true, if_false, if_true]
            rw [ih _ _ _ (by omega)]
            cases pairLast true st.data (dest+1) (src+1) n <;> simp [e1] <;> omega

/-! ## the class loops -/

theorem classLoop_eq {st : St} (h : AllRd st) (ok : Nat → Bool) (dmax dest : Nat) :
    exec (classLoop ok dmax dest) st =
      .ok (allCells ok st.data dest (scanLen st.data dest dmax), st) := by
  induction dmax generalizing dest with
  | zero => simp [classLoop, exec_bind, exec_load_all h, scanLen, allCells]
  | succ n ih =>
    simp only [classLoop, exec_bind, exec_load_all h]
    by_cases h0 : st.data dest = 0
    · simp [h0, scanLen, allCells]
    · simp only [h0, if_false]
      rw [scanLen_succ_of_ne _ _ _ h0]
      by_cases hc : ok (st.data dest) = true
      · simp only [hc, if_true, allCells, Bool.true_and]; exact ih _
      · simp [hc, allCells]

theorem classLoopNoBound_eq {st : St} (h : AllRd st) (ok : Nat → Bool) (fuel dest : Nat) :
    exec (classLoopNoBound ok fuel dest) st =
      .ok (allCells ok st.data dest (scanLen st.data dest fuel), st) := by
  induction fuel generalizing dest with
  | zero => simp [classLoopNoBound, scanLen, allCells]
  | succ n ih =>
    simp only [classLoopNoBound, exec_bind, exec_load_all h]
    by_cases h0 : st.data dest = 0
    · simp [h0, scanLen, allCells]
    · simp only [h0, if_false]
      rw [scanLen_succ_of_ne _ _ _ h0]
      by_cases hc : ok (st.data dest) = true
      · simp only [hc, if_true, allCells, Bool.true_and]; exact ih _
      · simp [hc, allCells]

/-! ## `strprefix_s` -/

theorem strprefixLoop_eq {st : St} (h : AllRd st) (dmax dest src : Nat) :
    exec (strprefixLoop dmax dest src) st =
      .ok ((if subAt id st.data dest src (scanLen st.data src dmax) = true then EOK else ESNOTFND), st) := by
  induction dmax generalizing dest src with
  | zero =>
    unfold strprefixLoop
    simp only [exec_bind, exec_load_all h, scanLen, subAt]
    split <;> simp
  | succ n ih =>
    unfold strprefixLoop
    simp only [exec_bind, exec_load_all h]
    by_cases h0 : st.data src = 0
    · simp [h0, scanLen, subAt]
    · simp only [h0, if_false, exec_bind, exec_load_all h]
      rw [scanLen_succ_of_ne _ _ _ h0]
      by_cases he : st.data dest = st.data src
      · simp only [he, ne_eq, not_true_eq_false, if_false, subAt, id, beq_self_eq_true, Bool.true_and]
        exact ih _ _
      · simp [he, subAt]

/-! ## `strcmpfld_s`, `strcasecmp_s` -/

/-- first differing index among `n` positions, `n` if there is none -/
def diffIdx (d : Nat → Nat) (p q n : Nat) : Nat := (firstDiff d p q n).getD n

theorem strcmpfldLoop_eq {st : St} (h : AllRd st) (dmax dest src : Nat) :
    exec (strcmpfldLoop dmax dest src) st =
      .ok ((EOK, schar (st.data (dest + diffIdx st.data dest src dmax)) -
                 schar (st.data (src + diffIdx st.data dest src dmax))), st) := by
  induction dmax generalizing dest src with
  | zero => simp [strcmpfldLoop, strcmpTail, exec_bind, exec_load_all h, diffIdx, firstDiff]
  | succ n ih =>
    simp only [strcmpfldLoop, exec_bind, exec_load_all h]
    by_cases he : st.data dest = st.data src
    · simp only [he, ne_eq, not_true_eq_false, if_false]
      rw [ih]
      have : diffIdx st.data dest src (n+1) = diffIdx st.data (dest+1) (src+1) n + 1 := by
        simp only [diffIdx, firstDiff, he, ne_eq, not_true_eq_false, if_false]
        cases firstDiff st.data (dest+1) (src+1) n <;> simp
      rw [this]
      simp [Nat.add_assoc, Nat.add_comm 1]
    · simp [he, strcmpTail, exec_bind, exec_load_all h, diffIdx, firstDiff]

theorem strcasecmpLoop_eq {st : St} (h : AllRd st) (dmax dest src : Nat) :
    exec (strcasecmpLoop dmax dest src) st =
      .ok ((EOK, (toUpperC (st.data (dest + stopIdxF toUpperC st.data dest src dmax)) : Int) -
                 (toUpperC (st.data (src + stopIdxF toUpperC st.data dest src dmax)) : Int)), st) := by
  induction dmax generalizing dest src with
  | zero =>
    unfold strcasecmpLoop
    simp only [exec_bind, exec_load_all h, stopIdxF, Nat.add_zero]
    by_cases h0 : st.data dest = 0
    · simp [h0, strcasecmpTail, exec_bind, exec_load_all h]
    · simp only [h0, if_false, exec_bind, exec_load_all h]
      by_cases h1 : st.data src = 0 <;> simp [h1, strcasecmpTail, exec_bind, exec_load_all h]
  | succ n ih =>
    unfold strcasecmpLoop
    simp only [exec_bind, exec_load_all h, stopIdxF]
    by_cases h0 : st.data dest = 0
    · simp [h0, strcasecmpTail, exec_bind, exec_load_all h]
    · simp only [h0, if_false, exec_bind, exec_load_all h, false_or]
      by_cases h1 : st.data src = 0
      · simp [h1, strcasecmpTail, exec_bind, exec_load_all h]
      · simp only [h1, if_false, exec_bind, exec_load_all h, false_or]
        by_cases h2 : toUpperC (st.data dest) = toUpperC (st.data src)
        · simp only [h2, Int.sub_self, ne_eq, not_true_eq_false, if_false]
          rw [ih]
          simp [Nat.add_assoc, Nat.add_comm 1]
        · have : ((toUpperC (st.data dest) : Int) - (toUpperC (st.data src) : Int)) ≠ 0 := by omega
          simp [h2, this]

/-! ## `wcscmp_s`, `wcsncmp_s` -/

/-- the number of positions the loop may advance over: `min dmax smax`, also `count` for `wcsncmp_s` -/
def wcsBound (useCount : Bool) (dmax smax count : Nat) : Nat :=
  if useCount then min dmax (min smax count) else min dmax smax

theorem wcscmpLoop_eq {st : St} (h : AllRd st) (useCount : Bool) (dmax smax count dest src : Nat) :
    exec (wcscmpLoop useCount dmax smax count dest src) st =
      .ok ((dest + stopIdx st.data dest src (wcsBound useCount dmax smax count),
            src + stopIdx st.data dest src (wcsBound useCount dmax smax count)), st) := by
  induction dmax generalizing smax count dest src with
  | zero =>
    have : wcsBound useCount 0 smax count = 0 := by unfold wcsBound; split <;> omega
    simp only [wcscmpLoop, exec_bind, exec_load_all h, this, stopIdx]
    split <;> simp [exec_bind, exec_load_all h]
  | succ n ih =>
    simp only [wcscmpLoop, exec_bind, exec_load_all h]
    by_cases h0 : st.data dest = 0
    · cases hb : wcsBound useCount (n+1) smax count <;> simp [h0, stopIdx]
    · simp only [h0, if_false, exec_bind, exec_load_all h]
      by_cases h1 : st.data src = 0
      · cases hb : wcsBound useCount (n+1) smax count <;> simp [h1, stopIdx]
      · simp only [h1, if_false]
        by_cases hs : smax = 0
        · have : wcsBound useCount (n+1) smax count = 0 := by unfold wcsBound; split <;> omega
          subst hs
          simp [this, stopIdx]
        · simp only [hs, if_false]
          by_cases hcnt : (useCount && count == 0) = true
          · have : wcsBound useCount (n+1) smax count = 0 := by
              simp only [Bool.and_eq_true, beq_iff_eq] at hcnt
              unfold wcsBound; simp [hcnt.1, hcnt.2]
            simp [hcnt, this, stopIdx]
          · simp only [hcnt, Bool.false_eq_true, if_false]
            have hb : wcsBound useCount (n+1) smax count = wcsBound useCount n (smax-1) (count-1) + 1 := by
              unfold wcsBound
              cases useCount
              · simp; omega
              · simp only [Bool.true_and, beq_iff_eq] at hcnt
                simp; omega
            by_cases he : st.data dest = st.data src
            · simp only [he, ne_eq, not_true_eq_false, if_false]
              rw [ih, hb]
              simp [stopIdx, h1, he, Nat.add_assoc, Nat.add_comm 1]
            · simp [he, hb, stopIdx, h0, h1]

/-! ## arithmetic of the `int` conversions -/

theorem subS32_exact (a b : Nat) (h1 : -(2^31 : Int) ≤ toS32 a - toS32 b) (h2 : toS32 a - toS32 b < 2^31) :
    subS32 a b = toS32 a - toS32 b := by
  unfold subS32
  simp only [Int.reducePow] at h1 h2 ⊢
  generalize toS32 a - toS32 b = x at h1 h2
  by_cases hx : 0 ≤ x
  · have : x % 4294967296 = x := Int.emod_eq_of_lt hx (by omega)
    simp only [this]; split <;> omega
  · have : x % 4294967296 = x + 4294967296 := by omega
    simp only [this]; split <;> omega

theorem firstDiff_self (d : Nat → Nat) (p n : Nat) : firstDiff d p p n = none := by
  induction n generalizing p with
  | zero => rfl
  | succ n ih => simp [firstDiff, ih (p+1)]

theorem toInt32_diff (a b : Nat) (_ha : a < 2^32) (_hb : b < 2^32)
    (h1 : -(2^31 : Int) ≤ (a : Int) - (b : Int)) (h2 : (a : Int) - (b : Int) < 2^31) :
    toInt32 (a + 2^32 - b) = (a : Int) - (b : Int) := by
  unfold toInt32
  simp only [Nat.reducePow, Int.reducePow] at *
  by_cases hab : b ≤ a
  · have e : (a + 4294967296 - b) % 4294967296 = a - b := by omega
    simp only [e, Int.ofNat_eq_natCast]
    split <;> omega
  · have e : (a + 4294967296 - b) % 4294967296 = a + 4294967296 - b := by omega
    simp only [e, Int.ofNat_eq_natCast]
    split <;> omega

end SafeC

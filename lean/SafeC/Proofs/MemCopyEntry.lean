import SafeC.Proofs.MemMove
import SafeC.Proofs.Erase
/-!
# `memcpy_s` / `memmove_s` (and the 16/32-bit `memmove`s): the copying paths and the overlap rejection

Helper lemmas for `SafeC/Props/C06Mem.lean` and `SafeC/Props/C07Mem.lean`.
-/
namespace SafeC
open Gen Mem

theorem RSIZE_MAX_MEM_lt_U32' : RSIZE_MAX_MEM < U32 := by decide

/-- `memmove_s`, valid arguments, any placement of the operands: EOK and `memmove` semantics -/
theorem memmove_s_ok (dest dmax src slen : Nat) (st : St)
    (hd : dest ≠ 0) (hs : src ≠ 0) (hpos : 0 < slen) (hle : slen ≤ dmax) (hmax : dmax ≤ RSIZE_MAX_MEM)
    (hw : RW st dest dmax) (hr : RD st src slen) :
    ∃ st', exec (memmove_s dest dmax src slen none none) st = .ok (EOK, st') ∧
      Moved st st' dest src slen := by
  have hlt := RSIZE_MAX_MEM_lt_U32'
  have hn : slen % U32 = slen := Nat.mod_eq_of_lt (by omega)
  obtain ⟨st', he, hm⟩ := mem_prim_move_ok dest src slen st (by rw [hn]; exact hpos)
    (by rw [hn]; exact hw.sub (Nat.le_refl _) (by omega)) (by rw [hn]; exact hr)
  rw [hn] at hm
  refine ⟨st', ?_, hm⟩
  have h1 : slen ≠ 0 := by omega
  have h2 : dmax ≠ 0 := by omega
  have h3 : ¬ dmax > RSIZE_MAX_MEM := by omega
  have h4 : ¬ slen > dmax := by omega
  simp [memmove_s, h1, hd, h2, chkDmaxMemB, h3, hs, h4, exceeds, exec_bind, he]

/-- the overlap test of `memcpy_s` on addresses that do not wrap around 2^64 -/
theorem ovrlpButSame_one (dp dlen sp slen : Nat) (h1 : sp + slen < U64) (h2 : dp + dlen < U64) :
    ovrlpButSame 1 dp dlen sp slen = true ↔ (sp < dp ∧ dp < sp + slen) ∨ (dp < sp ∧ sp < dp + dlen) := by
  simp [ovrlpButSame, Nat.mod_eq_of_lt h1, Nat.mod_eq_of_lt h2]

/-- `memcpy_s`, valid arguments, operands that do not overlap (or coincide): EOK and the copy -/
theorem memcpy_s_ok (dest dmax src slen : Nat) (st : St)
    (hd : dest ≠ 0) (hs : src ≠ 0) (hpos : 0 < slen) (hle : slen ≤ dmax) (hmax : dmax ≤ RSIZE_MAX_MEM)
    (hw : RW st dest dmax) (hr : RD st src slen)
    (ha1 : src + slen < U64) (ha2 : dest + dmax < U64)
    (hno : ¬ ((src < dest ∧ dest < src + slen) ∨ (dest < src ∧ src < dest + dmax))) :
    ∃ st', exec (memcpy_s dest dmax src slen none none) st = .ok (EOK, st') ∧
      Moved st st' dest src slen := by
  have hlt := RSIZE_MAX_MEM_lt_U32'
  have hn : slen % U32 = slen := Nat.mod_eq_of_lt (by omega)
  obtain ⟨st', he, hm⟩ := mem_prim_move_ok dest src slen st (by rw [hn]; exact hpos)
    (by rw [hn]; exact hw.sub (Nat.le_refl _) (by omega)) (by rw [hn]; exact hr)
  rw [hn] at hm
  refine ⟨st', ?_, hm⟩
  have h1 : slen ≠ 0 := by omega
  have h2 : dmax ≠ 0 := by omega
  have h3 : ¬ dmax > RSIZE_MAX_MEM := by omega
  have h4 : ¬ slen > dmax := by omega
  have hov : ovrlpButSame 1 dest dmax src slen = false := by
    cases h : ovrlpButSame 1 dest dmax src slen with
    | false => rfl
    | true => exact absurd ((ovrlpButSame_one dest dmax src slen ha1 ha2).1 h) hno
  simp [memcpy_s, h1, hd, h2, chkDmaxMemB, h3, hs, h4, exceeds, hov, exec_bind, he]

/-- `memcpy_s`, valid arguments, operands that DO overlap: rejected with ESOVRLP after zeroing the
`dmax` bytes of dest, one mem-handler event -/
theorem memcpy_s_overlap (dest dmax src slen : Nat) (st : St)
    (hd : dest ≠ 0) (hs : src ≠ 0) (hpos : 0 < slen) (hle : slen ≤ dmax) (hmax : dmax ≤ RSIZE_MAX_MEM)
    (hw : RW st dest dmax)
    (ha1 : src + slen < U64) (ha2 : dest + dmax < U64)
    (hov : (src < dest ∧ dest < src + slen) ∨ (dest < src ∧ src < dest + dmax)) :
    ∃ st', exec (memcpy_s dest dmax src slen none none) st = .ok (ESOVRLP, st') ∧
      st'.events = st.events ++ [.handler .mem ESOVRLP] ∧ st'.strays = st.strays ∧
      (∀ a, st'.data a = if dest ≤ a ∧ a < dest + dmax then 0 else st.data a) := by
  have hlt := RSIZE_MAX_MEM_lt_U32'
  have hn : dmax % U32 = dmax := Nat.mod_eq_of_lt (by omega)
  obtain ⟨s1, he, hf⟩ := mem_prim_set_ok dest dmax 0 st (by rw [hn]; exact hw)
  rw [hn] at hf
  refine ⟨{ s1 with events := s1.events ++ [.handler .mem ESOVRLP] }, ?_, ?_, hf.same.strays, hf.data⟩
  · have h1 : slen ≠ 0 := by omega
    have h2 : dmax ≠ 0 := by omega
    have h3 : ¬ dmax > RSIZE_MAX_MEM := by omega
    have h4 : ¬ slen > dmax := by omega
    have hov' : ovrlpButSame 1 dest dmax src slen = true := (ovrlpButSame_one dest dmax src slen ha1 ha2).2 hov
    simp [memcpy_s, h1, hd, h2, chkDmaxMemB, h3, hs, h4, exceeds, hov', exec_bind, he, handlerM]
  · show s1.events ++ _ = _
    rw [hf.same.events]

/-- the element `memmove`s: `memmove16_s` / `memmove32_s` (`dmax` in bytes, `slen` in elements) -/
theorem memmove16_s_ok (dest dmax src slen : Nat) (st : St)
    (hd : dest ≠ 0) (hs : src ≠ 0) (hpos : 0 < slen) (hle : slen * 2 ≤ dmax) (hmax : dmax ≤ RSIZE_MAX_MEM)
    (hw : RW st dest slen) (hr : RD st src slen) :
    ∃ st', exec (memmove16_s dest dmax src slen none none) st = .ok (EOK, st') ∧
      Moved st st' dest src slen := by
  have hlt := RSIZE_MAX_MEM_lt_U32'
  have hn : slen % U32 = slen := Nat.mod_eq_of_lt (by omega)
  obtain ⟨st', he, hm⟩ := primMoveElems_ok dest src slen st (by rw [hn]; exact hw) (by rw [hn]; exact hr)
  rw [hn] at hm
  refine ⟨st', ?_, hm⟩
  have h1 : slen ≠ 0 := by omega
  have h2 : dmax ≠ 0 := by omega
  have h3 : ¬ dmax > RSIZE_MAX_MEM := by omega
  have h64 : (slen * 2) % U64 = slen * 2 := Nat.mod_eq_of_lt (by have hu : U32 < U64 := (by decide); omega)
  have h4 : ¬ slen * 2 > dmax := by omega
  simp [memmove16_s, mem_prim_move16, h1, hd, h2, chkDmaxMemB, h3, hs, h64, h4, exceeds, exec_bind, he]

theorem memmove32_s_ok (dest dmax src slen : Nat) (st : St)
    (hd : dest ≠ 0) (hs : src ≠ 0) (hpos : 0 < slen) (hle : slen * 4 ≤ dmax) (hmax : dmax ≤ RSIZE_MAX_MEM)
    (hw : RW st dest slen) (hr : RD st src slen) :
    ∃ st', exec (memmove32_s dest dmax src slen none none) st = .ok (EOK, st') ∧
      Moved st st' dest src slen := by
  have hlt := RSIZE_MAX_MEM_lt_U32'
  have hn : slen % U32 = slen := Nat.mod_eq_of_lt (by omega)
  obtain ⟨st', he, hm⟩ := primMoveElems_ok dest src slen st (by rw [hn]; exact hw) (by rw [hn]; exact hr)
  rw [hn] at hm
  refine ⟨st', ?_, hm⟩
  have h1 : slen ≠ 0 := by omega
  have h2 : dmax ≠ 0 := by omega
  have h3 : ¬ dmax > RSIZE_MAX_MEM := by omega
  have h64 : (slen * 4) % U64 = slen * 4 := Nat.mod_eq_of_lt (by have hu : U32 < U64 := (by decide); omega)
  have h4 : ¬ slen * 4 > dmax := by omega
  simp [memmove32_s, mem_prim_move32, h1, hd, h2, chkDmaxMemB, h3, hs, h64, h4, exceeds, exec_bind, he]

end SafeC

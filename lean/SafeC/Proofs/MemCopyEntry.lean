import SafeC.Proofs.MemMove
import SafeC.Proofs.Erase
/-!
# `memcpy_s` / `memmove_s` (and the 16/32-bit `memmove`s): the copying paths and the overlap rejection

Helper lemmas for `SafeC/Props/C06Mem.lean` and `SafeC/Props/C07Mem.lean`.
-/
namespace SafeC
open Gen Mem

theorem RSIZE_MAX_MEM_lt_U32' : RSIZE_MAX_MEM < U32 := by decide

/-- `memmove_s`, valid arguments, any placement of the operands: EOK and `memmove` semantics -/
theorem memmove_s_ok (dest dmax src slen : Nat) (st : St)
    (hd : dest ≠ 0) (hs : src ≠ 0) (hpos : 0 < slen) (hle : slen ≤ dmax) (hmax : dmax ≤ RSIZE_MAX_MEM)
    (hw : RW st dest dmax) (hr : RD st src slen) :
    ∃ st', exec (memmove_s dest dmax src slen none none) st = .ok (EOK, st') ∧
      Moved st st' dest src slen := by
  have hlt := RSIZE_MAX_MEM_lt_U32'
  have hn : slen % U32 = slen := Nat.mod_eq_of_lt (by omega)
  obtain ⟨st', he, hm⟩ := mem_prim_move_ok dest src slen st (by rw [hn]; exact hpos)
    (by rw [hn]; exact hw.sub (Nat.le_refl _) (by omega)) (by rw [hn]; exact hr)
  rw [hn] at hm
  refine ⟨st', ?_, hm⟩
  have h1 : slen ≠ 0 := by omega
  have h2 : dmax ≠ 0 := by omega
  have h3 : ¬ dmax > RSIZE_MAX_MEM := by omega
  have h4 : ¬ slen > dmax := by omega
  simp [memmove_s, h1, hd, h2, chkDmaxMemB, h3, hs, h4, exceeds, exec_bind, he]

/-- the overlap test of `memcpy_s` on addresses that do not wrap around 2^64 -/
theorem ovrlpButSame_one (dp dlen sp slen : Nat) (h1 : sp + slen < U64) (h2 : dp + dlen < U64) :
    ovrlpButSame 1 dp dlen sp slen = true ↔ (sp < dp ∧ dp < sp + slen) ∨ (dp < sp ∧ sp < dp + dlen) := by
  simp [ovrlpButSame, Nat.mod_eq_of_lt h1, Nat.mod_eq_of_lt h2]

/-- `memcpy_s`, valid arguments, operands that do not overlap (or coincide): EOK and the copy -/
theorem memcpy_s_ok (dest dmax src slen : Nat) (st : St)
    (hd : dest ≠ 0) (hs : src ≠ 0) (hpos : 0 < slen) (hle : slen ≤ dmax) (hmax : dmax ≤ RSIZE_MAX_MEM)
    (hw : RW st dest dmax) (hr : RD st src slen)
    (ha1 : src + slen < U64) (ha2 : dest + dmax < U64)
    (hno : ¬ ((src < dest ∧ dest < src + slen) ∨ (dest < src ∧ src < dest + dmax))) :
    ∃ st', exec (memcpy_s dest dmax src slen none none) st = .ok (EOK, st') ∧
      Moved st st' dest src slen := by
  have hlt := RSIZE_MAX_MEM_lt_U32'
  have hn : slen % U32 = slen := Nat.mod_eq_of_lt (by omega)
  obtain ⟨st', he, hm⟩ := mem_prim_move_ok dest src slen st (by rw [hn]; exact hpos)
    (by rw [hn]; exact hw.sub (Nat.le_refl _) (by omega)) (by rw [hn]; exact hr)
  rw [hn] at hm
  refine ⟨st', ?_, hm⟩
  have h1 : slen ≠ 0 := by omega
  have h2 : dmax ≠ 0 := by omega
  have h3 : ¬ dmax > RSIZE_MAX_MEM := by omega
  have h4 : ¬ slen > dmax := by omega
  have hov : ovrlpButSame 1 dest dmax src slen = false := by
    cases h : ovrlpButSame 1 dest dmax src slen with
    | false => rfl
    | true => exact absurd ((ovrlpButSame_one dest dmax src slen ha1 ha2).1 h) hno
  simp [memcpy_s, h1, hd, h2, chkDmaxMemB, h3, hs, h4, exceeds, hov, exec_bind, he]

/-- `memcpy_s`, valid arguments, operands that DO overlap: rejected with ESOVRLP after zeroing the
`dmax` bytes of dest, one mem-handler event -/
theorem memcpy_s_overlap (dest dmax src slen : Nat) (st : St)
    (hd : dest ≠ 0) (hs : src ≠ 0) (hpos : 0 < slen) (hle : slen ≤ dmax) (hmax : dmax ≤ RSIZE_MAX_MEM)
    (hw : RW st dest dmax)
    (ha1 : src + slen < U64) (ha2 : dest + dmax < U64)
    (hov : (src < dest ∧ dest < src + slen) ∨ (dest < src ∧ src < dest + dmax)) :
    ∃ st', exec (memcpy_s dest dmax src slen none none) st = .ok (ESOVRLP, st') ∧
      st'.events = st.events ++ [.handler .mem ESOVRLP] ∧ st'.strays = st.strays ∧
      (∀ a, st'.data a = if dest ≤ a ∧ a < dest + dmax then 0 else st.data a) := by
  have hlt := RSIZE_MAX_MEM_lt_U32'
  have hn : dmax % U32 = dmax := Nat.mod_eq_of_lt (by omega)
  obtain ⟨s1, he, hf⟩ := mem_prim_set_ok dest dmax 0 st (by rw [hn]; exact hw)
  rw [hn] at hf
  refine ⟨{ s1 with events := s1.events ++ [.handler .mem ESOVRLP] }, ?_, ?_, hf.same.strays, hf.data⟩
  · have h1 : slen ≠ 0 := by omega
    have h2 : dmax ≠ 0 := by omega
    have h3 : ¬ dmax > RSIZE_MAX_MEM := by omega
    have h4 : ¬ slen > dmax := by omega
    have hov' : ovrlpButSame 1 dest dmax src slen = true := (ovrlpButSame_one dest dmax src slen ha1 ha2).2 hov
    simp [memcpy_s, h1, hd, h2, chkDmaxMemB, h3, hs, h4, exceeds, hov', exec_bind, he, handlerM]
  · show s1.events ++ _ = _
    rw [hf.same.events]

/-- the element `memmove`s: `memmove16_s` / `memmove32_s` (`dmax` in bytes, `slen` in elements) -/
theorem memmove16_s_ok (dest dmax src slen : Nat) (st : St)
    (hd : dest ≠ 0) (hs : src ≠ 0) (hpos : 0 < slen) (hle : slen * 2 ≤ dmax) (hmax : dmax ≤ RSIZE_MAX_MEM)
    (hw : RW st dest slen) (hr : RD st src slen) :
    ∃ st', exec (memmove16_s dest dmax src slen none none) st = .ok (EOK, st') ∧
      Moved st st' dest src slen := by
  have hlt := RSIZE_MAX_MEM_lt_U32'
  have hn : slen % U32 = slen := Nat.mod_eq_of_lt (by omega)
  obtain ⟨st', he, hm⟩ := primMoveElems_ok dest src slen st (by rw [hn]; exact hw) (by rw [hn]; exact hr)
  rw [hn] at hm
  refine ⟨st', ?_, hm⟩
  have h1 : slen ≠ 0 := by omega
  have h2 : dmax ≠ 0 := by omega
  have h3 : ¬ dmax > RSIZE_MAX_MEM := by omega
  have h64 : (slen * 2) % U64 = slen * 2 := Nat.mod_eq_of_lt (by have hu : U32 < U64 := (by decide); omega)
  have h4 : ¬ slen * 2 > dmax := by omega
  simp [memmove16_s, mem_prim_move16, h1, hd, h2, chkDmaxMemB, h3, hs, h64, h4, exceeds, exec_bind, he]

theorem memmove32_s_ok (dest dmax src slen : Nat) (st : St)
    (hd : dest ≠ 0) (hs : src ≠ 0) (hpos : 0 < slen) (hle : slen * 4 ≤ dmax) (hmax : dmax ≤ RSIZE_MAX_MEM)
    (hw : RW st dest slen) (hr : RD st src slen) :
    ∃ st', exec (memmove32_s dest dmax src slen none none) st = .ok (EOK, st') ∧
      Moved st st' dest src slen := by
  have hlt := RSIZE_MAX_MEM_lt_U32'
  have hn : slen % U32 = slen := Nat.mod_eq_of_lt (by omega)
  obtain ⟨st', he, hm⟩ := primMoveElems_ok dest src slen st (by rw [hn]; exact hw) (by rw [hn]; exact hr)
  rw [hn] at hm
  refine ⟨st', ?_, hm⟩
  have h1 : slen ≠ 0 := by omega
  have h2 : dmax ≠ 0 := by omega
  have h3 : ¬ dmax > RSIZE_MAX_MEM := by omega
  have h64 : (slen * 4) % U64 = slen * 4 := Nat.mod_eq_of_lt (by have hu : U32 < U64 := (by decide); omega)
  have h4 : ¬ slen * 4 > dmax := by omega
  simp [memmove32_s, mem_prim_move32, h1, hd, h2, chkDmaxMemB, h3, hs, h64, h4, exceeds, exec_bind, he]

/-! ## element copies with overlap test: `memcpy16_s`, `memcpy32_s`, `wmemcpy_s`; and `wmemmove_s` -/

theorem ovrlpButSame_two (dp dlen sp slen : Nat) (h1 : sp * 2 + slen * 2 < U64) (h2 : dp * 2 + dlen * 2 < U64) :
    ovrlpButSame 2 dp dlen sp slen = true ↔ (sp < dp ∧ dp < sp + slen) ∨ (dp < sp ∧ sp < dp + dlen) := by
  simp only [ovrlpButSame, Nat.mod_eq_of_lt h1, Nat.mod_eq_of_lt h2, Bool.or_eq_true, Bool.and_eq_true,
    decide_eq_true_eq]
  omega

theorem ovrlpButSame_four (dp dlen sp slen : Nat) (h1 : sp * 4 + slen * 4 < U64) (h2 : dp * 4 + dlen * 4 < U64) :
    ovrlpButSame 4 dp dlen sp slen = true ↔ (sp < dp ∧ dp < sp + slen) ∨ (dp < sp ∧ sp < dp + dlen) := by
  simp only [ovrlpButSame, Nat.mod_eq_of_lt h1, Nat.mod_eq_of_lt h2, Bool.or_eq_true, Bool.and_eq_true,
    decide_eq_true_eq]
  omega

/-- `memcpy16_s` (`dmax` bytes, `slen` elements), valid arguments, element ranges `[dest, dest + dmax/2)` and
`[src, src + slen)` not overlapping (or identical start) -/
theorem memcpy16_s_ok (dest dmax src slen : Nat) (st : St)
    (hd : dest ≠ 0) (hs : src ≠ 0) (hpos : 0 < slen) (hle : slen * 2 ≤ dmax) (hmax : dmax ≤ RSIZE_MAX_MEM)
    (hw : RW st dest slen) (hr : RD st src slen)
    (ha1 : src * 2 + slen * 2 < U64) (ha2 : dest * 2 + dmax / 2 * 2 < U64)
    (hno : ¬ ((src < dest ∧ dest < src + slen) ∨ (dest < src ∧ src < dest + dmax / 2))) :
    ∃ st', exec (memcpy16_s dest dmax src slen none none) st = .ok (EOK, st') ∧
      Moved st st' dest src slen := by
  have hlt := RSIZE_MAX_MEM_lt_U32'
  have hn : slen % U32 = slen := Nat.mod_eq_of_lt (by omega)
  obtain ⟨st', he, hm⟩ := primMoveElems_ok dest src slen st (by rw [hn]; exact hw) (by rw [hn]; exact hr)
  rw [hn] at hm
  refine ⟨st', ?_, hm⟩
  have h1 : slen ≠ 0 := by omega
  have h2 : dmax ≠ 0 := by omega
  have h3 : ¬ dmax > RSIZE_MAX_MEM := by omega
  have h64 : (slen * 2) % U64 = slen * 2 := Nat.mod_eq_of_lt (by have hu : U32 < U64 := (by decide); omega)
  have h4 : ¬ slen * 2 > dmax := by omega
  have hov : ovrlpButSame 2 dest (dmax / 2) src slen = false := by
    cases h : ovrlpButSame 2 dest (dmax / 2) src slen with
    | false => rfl
    | true => exact absurd ((ovrlpButSame_two dest (dmax / 2) src slen ha1 ha2).1 h) hno
  simp [memcpy16_s, mem_prim_move16, h1, hd, h2, chkDmaxMemB, h3, hs, h64, h4, exceeds, hov, exec_bind, he]

/-- `memcpy32_s` (`dmax` bytes, `slen` elements) -/
theorem memcpy32_s_ok (dest dmax src slen : Nat) (st : St)
    (hd : dest ≠ 0) (hs : src ≠ 0) (hpos : 0 < slen) (hle : slen * 4 ≤ dmax) (hmax : dmax ≤ RSIZE_MAX_MEM)
    (hw : RW st dest slen) (hr : RD st src slen)
    (ha1 : src * 4 + slen * 4 < U64) (ha2 : dest * 4 + dmax / 4 * 4 < U64)
    (hno : ¬ ((src < dest ∧ dest < src + slen) ∨ (dest < src ∧ src < dest + dmax / 4))) :
    ∃ st', exec (memcpy32_s dest dmax src slen none none) st = .ok (EOK, st') ∧
      Moved st st' dest src slen := by
  have hlt := RSIZE_MAX_MEM_lt_U32'
  have hn : slen % U32 = slen := Nat.mod_eq_of_lt (by omega)
  obtain ⟨st', he, hm⟩ := primMoveElems_ok dest src slen st (by rw [hn]; exact hw) (by rw [hn]; exact hr)
  rw [hn] at hm
  refine ⟨st', ?_, hm⟩
  have h1 : slen ≠ 0 := by omega
  have h2 : dmax ≠ 0 := by omega
  have h3 : ¬ dmax > RSIZE_MAX_MEM := by omega
  have h64 : (slen * 4) % U64 = slen * 4 := Nat.mod_eq_of_lt (by have hu : U32 < U64 := (by decide); omega)
  have h4 : ¬ slen * 4 > dmax := by omega
  have hov : ovrlpButSame 4 dest (dmax / 4) src slen = false := by
    cases h : ovrlpButSame 4 dest (dmax / 4) src slen with
    | false => rfl
    | true => exact absurd ((ovrlpButSame_four dest (dmax / 4) src slen ha1 ha2).1 h) hno
  simp [memcpy32_s, mem_prim_move32, h1, hd, h2, chkDmaxMemB, h3, hs, h64, h4, exceeds, hov, exec_bind, he]

theorem SIZEOF_WCHAR_T_eq : SIZEOF_WCHAR_T = 4 := rfl

/-- `wmemmove_s` (`dlen`, `count` in `wchar_t` elements), valid arguments, any overlap.  NOTE the hypothesis
`dlen * 4 ≤ RSIZE_MAX_WMEM`: the code compares the BYTE size with the ELEMENT limit. -/
theorem wmemmove_s_ok (dest dlen src count : Nat) (st : St)
    (hd : dest ≠ 0) (hs : src ≠ 0) (hpos : 0 < count) (hle : count ≤ dlen) (hmax : dlen * 4 ≤ RSIZE_MAX_WMEM)
    (hw : RW st dest count) (hr : RD st src count) :
    ∃ st', exec (wmemmove_s dest dlen src count none none) st = .ok (EOK, st') ∧
      Moved st st' dest src count := by
  have hwm : RSIZE_MAX_WMEM < U32 := by decide
  have hn : count % U32 = count := Nat.mod_eq_of_lt (by omega)
  obtain ⟨st', he, hm⟩ := primMoveElems_ok dest src count st (by rw [hn]; exact hw) (by rw [hn]; exact hr)
  rw [hn] at hm
  refine ⟨st', ?_, hm⟩
  have hu : U32 < U64 := by decide
  have h1 : count ≠ 0 := by omega
  have hd64 : (dlen * 4) % U64 = dlen * 4 := Nat.mod_eq_of_lt (by omega)
  have hs64 : (count * 4) % U64 = count * 4 := Nat.mod_eq_of_lt (by omega)
  have h2 : dlen * 4 ≠ 0 := by omega
  have h3 : ¬ dlen * 4 > RSIZE_MAX_WMEM := by omega
  have h4 : ¬ count * 4 > dlen * 4 := by omega
  simp [wmemmove_s, mem_prim_move32, SIZEOF_WCHAR_T_eq, h1, hd, hd64, hs64, h2, chkDmaxMemB, h3, hs, h4, exceeds,
    exec_bind, he]

/-- `wmemcpy_s`, valid arguments, non-overlapping operands -/
theorem wmemcpy_s_ok (dest dlen src count : Nat) (st : St)
    (hd : dest ≠ 0) (hs : src ≠ 0) (hpos : 0 < count) (hle : count ≤ dlen) (hmax : dlen * 4 ≤ RSIZE_MAX_MEM)
    (hw : RW st dest count) (hr : RD st src count)
    (ha1 : src * 4 + count * 4 < U64) (ha2 : dest * 4 + dlen * 4 < U64)
    (hno : ¬ ((src < dest ∧ dest < src + count) ∨ (dest < src ∧ src < dest + dlen))) :
    ∃ st', exec (wmemcpy_s dest dlen src count none none) st = .ok (EOK, st') ∧
      Moved st st' dest src count := by
  have hlt := RSIZE_MAX_MEM_lt_U32'
  have hn : count % U32 = count := Nat.mod_eq_of_lt (by omega)
  obtain ⟨st', he, hm⟩ := primMoveElems_ok dest src count st (by rw [hn]; exact hw) (by rw [hn]; exact hr)
  rw [hn] at hm
  refine ⟨st', ?_, hm⟩
  have hu : U32 < U64 := by decide
  have h1 : count ≠ 0 := by omega
  have hd64 : (dlen * 4) % U64 = dlen * 4 := Nat.mod_eq_of_lt (by omega)
  have hs64 : (count * 4) % U64 = count * 4 := Nat.mod_eq_of_lt (by omega)
  have h2 : dlen * 4 ≠ 0 := by omega
  have h3 : ¬ dlen * 4 > RSIZE_MAX_MEM := by omega
  have h4 : ¬ count * 4 > dlen * 4 := by omega
  have hov : ovrlpButSame 4 dest dlen src count = false := by
    cases h : ovrlpButSame 4 dest dlen src count with
    | false => rfl
    | true => exact absurd ((ovrlpButSame_four dest dlen src count ha1 ha2).1 h) hno
  simp [wmemcpy_s, mem_prim_move32, SIZEOF_WCHAR_T_eq, h1, hd, hd64, hs64, h2, chkDmaxMemB, h3, hs, h4, exceeds, hov,
    exec_bind, he]

/-! ## with object sizes known to the library -/

/-- `memmove_s` with any object-size knowledge: `dmax` within the limit / the known dest object, `slen` within
the known source object -/
theorem memmove_s_ok_bos (dest dmax src slen : Nat) (destbos srcbos : Bos) (st : St)
    (hd : dest ≠ 0) (hs : src ≠ 0) (hpos : 0 < slen) (hle : slen ≤ dmax) (hmax : dmax ≤ RSIZE_MAX_MEM)
    (hdb : memDmaxOk dmax destbos) (hsb : exceeds slen srcbos = false)
    (hw : RW st dest dmax) (hr : RD st src slen) :
    ∃ st', exec (memmove_s dest dmax src slen destbos srcbos) st = .ok (EOK, st') ∧
      Moved st st' dest src slen := by
  have hlt := RSIZE_MAX_MEM_lt_U32'
  have hn : slen % U32 = slen := Nat.mod_eq_of_lt (by omega)
  obtain ⟨st', he, hm⟩ := mem_prim_move_ok dest src slen st (by rw [hn]; exact hpos)
    (by rw [hn]; exact hw.sub (Nat.le_refl _) (by omega)) (by rw [hn]; exact hr)
  rw [hn] at hm
  refine ⟨st', ?_, hm⟩
  have h1 : slen ≠ 0 := by omega
  have h2 : dmax ≠ 0 := by omega
  have h4 : ¬ slen > dmax := by omega
  rcases chkDmaxMemB_spec dmax destbos (fun _ =>
      if src = 0 then do handleMemErrorB 1 dest dmax ESNULLP; pure ESNULLP
      else if slen > dmax then do
        let error := if slen > RSIZE_MAX_MEM then ESLEMAX else ESNOSPC
        handleMemErrorB 1 dest dmax error
        pure error
      else if exceeds slen srcbos then failM EOVERFLOW
      else do
        mem_prim_move dest src slen
        pure EOK) st with ⟨_, hk⟩ | ⟨hbad, _⟩
  · simp only [memmove_s, if_neg h1, if_neg hd, if_neg h2]
    rw [hk]
    simp [hs, h4, hsb, exec_bind, he]
  · exact absurd hdb hbad

end SafeC

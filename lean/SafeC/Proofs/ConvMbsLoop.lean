import SafeC.Proofs.ConvMbs
/-! C15: glibc's `mbsrtowcs` window loop (`mbsLoop`, model) on a valid terminated string = character-by-character
decoding, for every limit and every genuine entry state. -/
namespace SafeC.Conv.Libc

theorem encodeAll_eq_nil (loc : Locale) (l : List Nat) (h : encodeAll loc l = some []) : l = [] := by
  have := encodeAll_length_ge loc l [] h
  cases l <;> simp_all

/-- the bytes of a non-empty prefix of the characters start with the pending bytes -/
theorem PendOK_prefix (loc : Locale) (st l : List Nat) (j : Nat) (p2 : List Nat) (h : PendOK loc st l) (hj : 0 < j)
    (hp : encodeAll loc (l.take j) = some p2) : ∃ z, p2 = st ++ z := by
  rcases h with rfl | ⟨c, cs', y, rfl, he, _, _⟩
  · exact ⟨p2, by simp⟩
  · obtain ⟨j, rfl⟩ : ∃ i, j = i + 1 := ⟨j - 1, by omega⟩
    rw [List.take_succ_cons] at hp
    obtain ⟨a, b, ha, _, rfl⟩ := encodeAll_cons_inv loc c _ p2 hp
    rw [he] at ha; cases ha
    exact ⟨y ++ b, by simp⟩

theorem PendOK_whole (loc : Locale) (st l E : List Nat) (h : PendOK loc st l) (hE : encodeAll loc l = some E) :
    ∃ z, E = st ++ z := by
  apply PendOK_prefix loc st l (l.length + 1) E h (by omega)
  rw [List.take_of_length_le (by omega)]; exact hE

theorem PendOK_snoc (loc : Locale) (st l : List Nat) (h : PendOK loc st l) : PendOK loc st (l ++ [0]) := by
  rcases h with rfl | ⟨c, cs', y, rfl, he, h1, h2⟩
  · left; rfl
  · right; exact ⟨c, cs' ++ [0], y, by simp, he, h1, h2⟩

theorem encodeAll_snoc_zero' (loc : Locale) (ws E : List Nat) (hE : encodeAll loc ws = some E) :
    encodeAll loc (ws ++ [0]) = some (E ++ [0]) :=
  encodeAll_append loc ws [0] E [0] hE (encodeAll_cons loc 0 [] [0] [] (enc_zero loc) rfl)

theorem mbsLoop_succ (loc : Locale) (fuel : Nat) (rest : List Nat) (off len : Nat) (st out : List Nat) (status : Status)
    (hlen : len ≠ 0) (w : List Nat) (hw : rest.take (strnlen rest len + 1) = w) (r : GR) (hr : gconvMb loc st w len = r) :
    mbsLoop loc (fuel + 1) rest off len st out status =
      if ((r.status == .empty || r.status == .incomplete) && r.used == w.length && w.getLast? != some 0) = true then
        mbsLoop loc fuel (rest.drop r.used) (off + r.used) (len - r.out.length) r.st (out ++ r.out) r.status
      else (out ++ r.out, off + r.used, r.st, r.status) := by
  subst hw hr
  simp only [mbsLoop, hlen, ↓reduceIte]

theorem mbsLoop_len0 (loc : Locale) (fuel : Nat) (rest : List Nat) (off : Nat) (st out : List Nat) (status : Status) :
    mbsLoop loc fuel rest off 0 st out status = (out, off, st, status) := by
  cases fuel <;> simp [mbsLoop]

/-- **the window loop on a valid string.**  `ws`: the characters still to come (non-zero, encodable, bytes `E`), `pend`:
the conversion state (initial, or a proper prefix of the first character), `rest`: the source from the current position,
so that `pend ++ rest = E ++ 0 :: tail`.  With room for everything and the terminator (`|ws| < len`) the loop delivers
`ws ++ [0]` and ends in status `empty`; otherwise it delivers exactly the first `len` characters, the state is initial and
the offset advanced by their bytes (minus the bytes that were already in the state). -/
theorem mbsLoop_valid (loc : Locale) (tail : List Nat) (n : Nat) :
    ∀ (ws E pend rest out : List Nat) (off len fuel : Nat) (status0 : Status),
      rest.length ≤ n → rest.length < fuel → encodeAll loc ws = some E → (∀ c ∈ ws, c ≠ 0) →
      pend ++ rest = E ++ 0 :: tail → PendOK loc pend ws → 0 < len →
      (ws.length < len → mbsLoop loc fuel rest off len pend out status0 =
          (out ++ ws ++ [0], off + (E.length + 1 - pend.length), [], .empty)) ∧
      (len ≤ ws.length → ∃ p s, encodeAll loc (ws.take len) = some p ∧ (s = .full ∨ s = .empty) ∧
          mbsLoop loc fuel rest off len pend out status0 = (out ++ ws.take len, off + (p.length - pend.length), [], s)) := by
  induction n with
  | zero =>
    intro ws E pend rest out off len fuel status0 hn _ hE _ hrest hp _
    obtain ⟨E', rfl⟩ := PendOK_whole loc pend ws E hp hE
    have : rest = [] := by cases rest <;> simp_all
    subst this
    have := congrArg List.length hrest
    simp at this
  | succ n ih =>
    intro ws E pend rest out off len fuel status0 hn hfuel hE hz hrest hpend hlen
    obtain ⟨E', rfl⟩ := PendOK_whole loc pend ws E hpend hE
    have hrestE : rest = E' ++ 0 :: tail := by
      rw [List.append_assoc] at hrest; exact List.append_cancel_left hrest
    have hzE := encodeAll_no_zero loc ws _ hE hz
    have hzE' : ∀ b ∈ E', b ≠ 0 := fun b hb => hzE b (by simp [hb])
    have hzP : ∀ b ∈ pend, b ≠ 0 := fun b hb => hzE b (by simp [hb])
    obtain ⟨fuel, rfl⟩ : ∃ f, fuel = f + 1 := ⟨fuel - 1, by omega⟩
    have hk : min len E'.length ≤ E'.length := Nat.min_le_right _ _
    obtain ⟨w, hwdef⟩ : ∃ w, w = (E' ++ [0]).take (min len E'.length + 1) := ⟨_, rfl⟩
    have hw : rest.take (strnlen rest len + 1) = w := by
      rw [hrestE, strnlen_term E' tail hzE', take_term E' tail _ hk, hwdef]
    have hwl : w.length = min len E'.length + 1 := by
      rw [hwdef]; simp only [List.length_take, List.length_append, List.length_cons, List.length_nil]; omega
    have hwne : w ≠ [] := by intro h; rw [h] at hwl; simp at hwl
    obtain ⟨x, hxdef⟩ : ∃ x, x = (E' ++ [0]).drop (min len E'.length + 1) := ⟨_, rfl⟩
    have hwx : w ++ x = E' ++ [0] := by rw [hwdef, hxdef, List.take_append_drop]
    obtain ⟨rest', hrest'def⟩ : ∃ r, r = rest.drop w.length := ⟨_, rfl⟩
    have hrsplit : rest = w ++ rest' := by
      rw [hrest'def, ← hw, List.length_take]
      have : min (strnlen rest len + 1) rest.length = strnlen rest len + 1 := by
        rw [hrestE, strnlen_term E' tail hzE']; simp; omega
      rw [this, List.take_append_drop]
    have hE0 := encodeAll_snoc_zero' loc ws _ hE
    have hB : pend ++ w ++ x = pend ++ E' ++ [0] := by rw [List.append_assoc, hwx, List.append_assoc]
    have hstep := gconvMb_window loc (ws ++ [0]) _ hE0 pend w x hB (PendOK_snoc loc pend ws hpend) len hlen
    have hlen0 : len ≠ 0 := by omega
    have hunf := mbsLoop_succ loc fuel rest off len pend out status0 hlen0 w hw _ rfl
    rw [hunf]
    -- the common continuation: `m` characters delivered, new state `st`
    have hcont : ∀ (m : Nat) (p st : List Nat) (s : Status), m ≤ ws.length → m ≤ len →
        encodeAll loc (ws.take m) = some p → pend ++ w = p ++ st → PendOK loc st (ws.drop m) →
        (len - m = 0 → st = [] ∧ s = .empty) →
        (ws.length < len → mbsLoop loc fuel rest' (off + w.length) (len - m) st (out ++ ws.take m) s =
            (out ++ ws ++ [0], off + ((pend ++ E').length + 1 - pend.length), [], .empty)) ∧
        (len ≤ ws.length → ∃ p' s', encodeAll loc (ws.take len) = some p' ∧ (s' = .full ∨ s' = .empty) ∧
            mbsLoop loc fuel rest' (off + w.length) (len - m) st (out ++ ws.take m) s =
              (out ++ ws.take len, off + (p'.length - pend.length), [], s')) := by
      intro m p st s hm hml hp hpw hst hl0
      obtain ⟨p', q, hp', hq, hEq⟩ := encodeAll_take loc ws _ hE m
      rw [hp] at hp'; cases hp'
      have hr' : st ++ rest' = q ++ 0 :: tail := by
        have h1 : pend ++ (w ++ rest') = (pend ++ E') ++ 0 :: tail := by rw [← hrsplit]; exact hrest
        rw [← List.append_assoc, hpw, hEq, List.append_assoc, List.append_assoc] at h1
        exact List.append_cancel_left h1
      have hpl : pend.length + w.length = p.length + st.length := by
        have := congrArg List.length hpw; simpa using this
      have hEl : pend.length + E'.length = p.length + q.length := by
        have := congrArg List.length hEq; simpa using this
      by_cases hl : len - m = 0
      · obtain ⟨rfl, rfl⟩ := hl0 hl
        have hmeq : m = len := by omega
        subst hmeq
        rw [hl, mbsLoop_len0]
        refine ⟨fun h => by omega, fun _ => ⟨p, .empty, hp, Or.inr rfl, ?_⟩⟩
        simp only [List.length_nil, Nat.add_zero] at hpl
        have : p.length - pend.length = w.length := by omega
        rw [this]
      · have hzd : ∀ c ∈ ws.drop m, c ≠ 0 := fun c hc => hz c (List.mem_of_mem_drop hc)
        have hrl : rest'.length ≤ n := by
          have := congrArg List.length hrsplit
          simp only [List.length_append] at this; omega
        have hrf : rest'.length < fuel := by
          have := congrArg List.length hrsplit
          simp only [List.length_append] at this; omega
        obtain ⟨z, hqz⟩ := PendOK_whole loc st (ws.drop m) q hst hq
        have hqzl : q.length = st.length + z.length := by rw [hqz]; simp
        have := ih (ws.drop m) q st rest' (out ++ ws.take m) (off + w.length) (len - m) fuel s hrl hrf hq hzd hr' hst (by omega)
        obtain ⟨b1, b2⟩ := this
        constructor
        · intro hlt
          rw [b1 (by simp only [List.length_drop]; omega)]
          simp only [List.length_append, List.append_assoc, List.take_append_drop]
          congr 2; omega
        · intro hle
          obtain ⟨p2, s2, hp2, hs2, heq⟩ := b2 (by simp only [List.length_drop]; omega)
          have htake : ws.take len = ws.take m ++ (ws.drop m).take (len - m) := by
            rw [← List.take_add]; congr 1; omega
          obtain ⟨z2, hz2⟩ := PendOK_prefix loc st (ws.drop m) (len - m) p2 hst (by omega) hp2
          have hz2l : p2.length = st.length + z2.length := by rw [hz2]; simp
          refine ⟨p ++ p2, s2, by rw [htake]; exact encodeAll_append loc _ _ p p2 hp hp2, hs2, ?_⟩
          rw [heq, htake]
          simp only [List.length_append, List.append_assoc]
          congr 2; omega
    obtain ⟨m, p, hm, hms, hp, hcase⟩ := hstep
    simp only [List.length_append, List.length_cons, List.length_nil] at hm
    have htk : m ≤ ws.length → (ws ++ [0]).take m = ws.take m := fun h => List.take_append_of_le_length h
    have hfull : ¬ m ≤ ws.length → p = pend ++ E' ++ [0] := by
      intro h
      rw [List.take_of_length_le (by simp; omega), hE0] at hp
      exact (Option.some.inj hp).symm
    rcases hcase with ⟨hr, hpw⟩ | ⟨st, c, y, hr, hpw, hmlt, hc, hec, hst, hy⟩ | ⟨w1, y, hr, hmeq, hwy, hy, hpw⟩
    · -- (E) window used up at a character boundary
      rw [hr]
      by_cases hlast : w.getLast? = some 0
      · -- the terminator was converted: finished
        have hkE : min len E'.length = E'.length := by
          apply Classical.byContradiction; intro hne
          have hlt : min len E'.length + 1 ≤ E'.length := by omega
          rw [List.take_append_of_le_length hlt] at hwdef
          have hmem := List.mem_of_getLast? hlast
          rw [hwdef] at hmem
          exact hzE' 0 (List.mem_of_mem_take hmem) rfl
        have hwE : w = E' ++ [0] := by rw [hwdef, hkE, List.take_of_length_le (by simp)]
        have hpE : p = pend ++ E' ++ [0] := by rw [← hpw, hwE, List.append_assoc]
        obtain ⟨p', q, hp', hq, hEq⟩ := encodeAll_take loc (ws ++ [0]) _ hE0 m
        rw [hp] at hp'; cases hp'
        have hq0 : q = [] := by
          rw [hpE] at hEq
          have := congrArg List.length hEq
          simp only [List.length_append] at this
          exact List.length_eq_zero_iff.mp (by omega)
        subst hq0
        have hdn := encodeAll_eq_nil loc _ hq
        have hmge : ws.length + 1 ≤ m := by
          have := congrArg List.length hdn
          simp only [List.length_drop, List.length_append, List.length_cons, List.length_nil] at this; omega
        have htkall : (ws ++ [0]).take m = ws ++ [0] := List.take_of_length_le (by simp; omega)
        simp only [hlast, htkall, bne_self_eq_false, Bool.and_false, Bool.false_eq_true, ↓reduceIte]
        refine ⟨fun _ => ?_, fun h => by omega⟩
        rw [hwE]; simp only [List.length_append, List.length_cons, List.length_nil, List.append_assoc]
        congr 2; omega
      · -- no terminator in the window: next window
        have hmle : m ≤ ws.length := by
          apply Classical.byContradiction; intro hne
          have hpf := hfull hne
          have hkE : min len E'.length = E'.length := by
            have h1 := congrArg List.length hpw
            rw [hpf] at h1
            simp only [List.length_append, List.length_cons, List.length_nil] at h1; omega
          apply hlast
          rw [hwdef, hkE, List.take_of_length_le (by simp)]; simp
        have hcond : ((Status.empty == Status.empty || Status.empty == Status.incomplete) && w.length == w.length &&
            w.getLast? != some 0) = true := by simp [hlast]
        simp only [hcond, ↓reduceIte, htk hmle, List.length_take, Nat.min_eq_left hmle, ← hrest'def]
        exact hcont m p [] .empty hmle hms (by rw [← htk hmle]; exact hp) (by simpa using hpw) (Or.inl rfl)
          (fun _ => ⟨rfl, rfl⟩)
    · -- (I) window used up inside a character
      rw [hr]
      have hcne : c ≠ 0 := by
        intro h0; subst h0
        rw [enc_zero] at hec
        have := congrArg List.length (Option.some.inj hec)
        have := List.length_pos_iff.mpr hst; have := List.length_pos_iff.mpr hy
        simp only [List.length_append, List.length_cons, List.length_nil] at *; omega
      have hmlt' : m < ws.length := by
        apply Classical.byContradiction; intro hne
        have hmeq : m = ws.length := by
          have := (List.getElem?_eq_some_iff.mp hc).1
          simp only [List.length_append, List.length_cons, List.length_nil] at this; omega
        rw [hmeq] at hc
        simp at hc; exact hcne hc.symm
      have hmle : m ≤ ws.length := by omega
      have hcw : ws[m]? = some c := by rw [List.getElem?_append_left hmlt'] at hc; exact hc
      have hlast : w.getLast? ≠ some 0 := by
        intro hl
        have h1 : (pend ++ w).getLast? = some 0 := by
          rw [List.getLast?_append, hl]; rfl
        rw [hpw, List.getLast?_append] at h1
        obtain ⟨b, hb⟩ : ∃ b, st.getLast? = some b := by
          cases h : st.getLast? with
          | none => exact absurd (List.getLast?_eq_none_iff.mp h) hst
          | some b => exact ⟨b, rfl⟩
        rw [hb] at h1
        have h1 : b = 0 := by simpa [Option.or] using h1
        subst h1
        exact enc_no_zero loc c _ hec hcne 0 (by simp [List.mem_of_getLast? hb]) rfl
      have hcond : ((Status.incomplete == Status.empty || Status.incomplete == Status.incomplete) && w.length == w.length &&
          w.getLast? != some 0) = true := by simp [hlast]
      simp only [hcond, ↓reduceIte, htk hmle, List.length_take, Nat.min_eq_left hmle, ← hrest'def]
      have hgm : m < ws.length := hmlt'
      have hdrop : ws.drop m = c :: ws.drop (m + 1) := by
        rw [List.drop_eq_getElem_cons hgm]
        have := List.getElem?_eq_some_iff.mp hcw
        rw [this.2]
      exact hcont m p st .incomplete hmle hms (by rw [← htk hmle]; exact hp) hpw
        (Or.inr ⟨c, _, y, hdrop, hec, hst, hy⟩) (fun h => by omega)
    · -- (F) output full, input left
      rw [hr]
      have hmle : m ≤ ws.length := by
        apply Classical.byContradiction; intro hne
        have hpf := hfull hne
        have h1 := congrArg List.length hpw
        have h2 := congrArg List.length hwx
        have h3 := List.length_pos_iff.mpr hy
        rw [hpf] at h1; rw [hwy] at h2
        simp only [List.length_append, List.length_cons, List.length_nil] at h1 h2; omega
      have hcond : ((Status.full == Status.empty || Status.full == Status.incomplete) && w1.length == w.length &&
          w.getLast? != some 0) = false := by simp
      simp only [hcond, Bool.false_eq_true, ↓reduceIte, htk hmle]
      subst hmeq
      refine ⟨fun h => by omega, fun _ => ⟨p, .full, by rw [← htk hmle]; exact hp, Or.inl rfl, ?_⟩⟩
      have : p.length - pend.length = w1.length := by rw [← hpw]; simp
      rw [this]

/-- **mbsrtowcs on a valid string, any genuine entry state** (`ps ++ mem` = the bytes of `ws`, a NUL, anything): with room
for the terminator all of `ws` and the NUL are stored, the count is `|ws|`, `*src = NULL`, the state initial; otherwise
exactly the first `len` characters, `*src` behind their bytes, the state initial -/
theorem mbsrtowcs_valid_st (loc : Locale) (ws E tail ps mem : List Nat) (hE : encodeAll loc ws = some E)
    (hz : ∀ c ∈ ws, c ≠ 0) (hmem : ps ++ mem = E ++ 0 :: tail) (hps : PendOK loc ps ws) (len : Nat) (hlen : 0 < len) :
    (ws.length < len → mbsrtowcs loc false mem len ps = ⟨ws ++ [0], ws.length, none, [], false⟩) ∧
    (len ≤ ws.length → ∃ p, encodeAll loc (ws.take len) = some p ∧
        mbsrtowcs loc false mem len ps = ⟨ws.take len, len, some (p.length - ps.length), [], false⟩) := by
  obtain ⟨b1, b2⟩ := mbsLoop_valid loc tail mem.length ws E ps mem [] 0 len (mem.length + 1) .full (Nat.le_refl _)
    (by omega) hE hz hmem hps hlen
  constructor
  · intro h
    simp only [mbsrtowcs, Bool.false_eq_true, ↓reduceIte, b1 h]
    simp
  · intro h
    obtain ⟨p, s, hp, hs, heq⟩ := b2 h
    refine ⟨p, hp, ?_⟩
    have hnz : (ws.take len).getLast? ≠ some 0 := by
      intro hl
      exact hz 0 (List.mem_of_mem_take (List.mem_of_getLast? hl)) rfl
    simp only [mbsrtowcs, Bool.false_eq_true, ↓reduceIte, heq, List.nil_append, Nat.zero_add]
    rcases hs with rfl | rfl
    · simp [Nat.min_eq_left h]
    · have : ((ws.take len).getLast? == some 0) = false := by simpa using hnz
      simp [this, Nat.min_eq_left h]

/-- **mbsrtowcs / mbstowcs on a valid string, initial state**, every limit (also 0) -/
theorem mbsrtowcs_valid (loc : Locale) (ws E tail : List Nat) (hE : encodeAll loc ws = some E) (hz : ∀ c ∈ ws, c ≠ 0)
    (len : Nat) :
    (ws.length < len → mbsrtowcs loc false (E ++ 0 :: tail) len [] = ⟨ws ++ [0], ws.length, none, [], false⟩) ∧
    (len ≤ ws.length → ∃ p, encodeAll loc (ws.take len) = some p ∧
        mbsrtowcs loc false (E ++ 0 :: tail) len [] = ⟨ws.take len, len, some p.length, [], false⟩) := by
  by_cases hlen : 0 < len
  · exact mbsrtowcs_valid_st loc ws E tail [] _ hE hz (by simp) (Or.inl rfl) len hlen
  · have h0 : len = 0 := by omega
    subst h0
    refine ⟨fun h => by omega, fun _ => ⟨[], rfl, ?_⟩⟩
    simp [mbsrtowcs, mbsLoop_len0]

end SafeC.Conv.Libc

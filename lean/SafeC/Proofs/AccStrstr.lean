import SafeC.Proofs.AccQueryEntry
/-!
# `strstr_s` with `slen > dmax`, sharpened

`if (slen > dmax) { len = strlen(src); dlen = strlen(dest); if (len > dmax || len > dlen) return ESNOTFND; }`: past this early
return the needle is known to end within `dmax` cells, so the search that follows reads NOTHING the two `strlen` calls have
not read already — in the long case the footprint is exactly the two strings to their terminators, the cuts `dmax + 1` /
`slen + 1` of the search add no cell.  (`strlenP_spec`: the length `strlen` returned locates the terminator.)

The model cuts an unbounded scan after `scanFuel` cells; the argument needs `dmax < scanFuel`, which the entry checks give
when the object size is unknown (`dmax ≤ RSIZE_MAX_STR`) and is a hypothesis for a known one.
-/
namespace SafeC
open Gen

variable {d : Nat → Nat} {R : Nat → Prop}

/-- `strlen`: the result locates the first terminator (or is the cut) -/
theorem AccD_strlenP_spec (fuel s n : Nat) (h : ∀ a, Str d s fuel a → R a) :
    AccD d R (strlenP fuel s n) (fun r => n ≤ r ∧ r ≤ n + fuel ∧ (∀ j, j < r - n → ¬ d (s+j) = 0) ∧
      (r < n + fuel → d (s + (r - n)) = 0)) := by
  induction fuel generalizing s n with
  | zero => unfold strlenP; exact AccD.pure _ ⟨Nat.le_refl _, Nat.le_refl _, fun j hj => by omega, fun hj => by omega⟩
  | succ k ih =>
    have h0 : R s := h _ (Str.head (by omega))
    unfold strlenP
    refine AccD.loadBind h0 ?_
    split
    · rename_i hz
      exact AccD.pure _ ⟨Nat.le_refl _, by omega, fun j hj => by omega, fun _ => by simpa using hz⟩
    · rename_i hne
      refine (ih (s+1) (n+1) (fun a h' => h a (Str.succ hne h'))).conseq (fun r ⟨g1, g2, g3, g4⟩ => ⟨by omega, by omega, ?_, ?_⟩)
      · intro j hj
        cases j with
        | zero => simpa using hne
        | succ j =>
          have := g3 j (by omega)
          rwa [show s + 1 + j = s + (j + 1) by omega] at this
      · intro hr
        have := g4 (by omega)
        rwa [show s + 1 + (r - (n + 1)) = s + (r - n) by omega] at this

theorem AccD_qChkS_max (dest dmax : Nat) (b : Bos) (src : Option Nat) :
    AccD d R (qChkS dest dmax b src)
      (fun r => r = none → dest ≠ 0 ∧ src ≠ some 0 ∧ dmax ≠ 0 ∧ (b = none → dmax ≤ RSIZE_MAX_STR)) := by
  unfold qChkS
  have fail : ∀ c, AccD d R (qFailS c)
      (fun r => r = none → dest ≠ 0 ∧ src ≠ some 0 ∧ dmax ≠ 0 ∧ (b = none → dmax ≤ RSIZE_MAX_STR)) :=
    fun c => AccD_qFailS c (fun e h => by cases h)
  split
  · exact fail _
  rename_i hd
  split
  · exact fail _
  rename_i hs
  split
  · exact fail _
  rename_i hm
  split
  · split
    · exact fail _
    · rename_i hle
      exact AccD.pure _ (fun _ => ⟨hd, hs, hm, fun _ => by omega⟩)
  · split
    · split <;> exact fail _
    · exact AccD.pure _ (fun _ => ⟨hd, hs, hm, fun h => by cases h⟩)

/-- **strstr_s, sharpened**: `hd` / `hs` (the cuts of the search) are needed for `slen ≤ dmax` only -/
theorem strstr_s_acc_sharp (dest dmax src slen : Nat) (db sb : Bos)
    (hfuel : ∀ b, db = some b → dmax < scanFuel)
    (hd : dest ≠ 0 → slen ≤ dmax → ∀ a, Str d dest (dmax+1) a → R a)
    (hs : src ≠ 0 → slen ≤ dmax → ∀ a, Str d src (slen+1) a → R a)
    (hlong : dest ≠ 0 → src ≠ 0 → slen > dmax →
      (∀ a, Str d dest scanFuel a → R a) ∧ (∀ a, Str d src scanFuel a → R a)) :
    AccD d R (strstr_s dest dmax src slen db sb) (fun _ => True) := by
  unfold strstr_s
  refine AccD.bind (AccD_qChkS_max dest dmax db (some src)) (fun x hx => ?_)
  cases x with
  | some e => exact AccD.pure _ trivial
  | none =>
  obtain ⟨h1, h2, _, hmax⟩ := hx rfl
  have h2' := ne_of_some_ne h2
  have hf : dmax < scanFuel := by
    cases db with
    | none => have := hmax rfl; simp only [RSIZE_MAX_STR, scanFuel] at *; omega
    | some b => exact hfuel b rfl
  dsimp only
  refine AccD_qChkSlenS_then (fun e => AccD.pure _ trivial) ?_
  dsimp only
  have rest : (∀ a, Str d dest (dmax+1) a → R a) → (∀ a, Str d src (slen+1) a → R a) →
      AccD d R (do
        let s0 ← load src
        if s0 = 0 ∨ dest = src then pure (EOK, dest)
        else if slen = 0 then do handlerS ESZEROL; pure (ESZEROL, 0)
        else strstrOuter src slen dmax dest : Prog (Nat × Nat)) (fun _ => True) := by
    intro gd gs
    refine AccD.loadBind (gs _ (Str.head (by omega))) ?_
    split
    · exact AccD.pure _ trivial
    · split
      · exact AccD.handlerSBind _ (AccD.pure _ trivial)
      · exact AccD_strstrOuter src slen dmax dest (by omega) gd gs
  by_cases hl : slen > dmax
  · obtain ⟨g1, g2⟩ := hlong h1 h2' hl
    rw [if_pos hl]
    refine AccD.bind (Q := fun early => early = false → ∃ len, len ≤ dmax ∧ d (src + len) = 0) ?_ (fun early he => ?_)
    · refine AccD.bind (AccD_strlenP_spec scanFuel src 0 g2) (fun len ⟨_, _, p3, p4⟩ => ?_)
      refine AccD.bind (AccD_strlenP_spec scanFuel dest 0 g1) (fun dlen _ => ?_)
      refine AccD.pure _ (fun hne => ?_)
      have hlen : len ≤ dmax := by
        have : ¬ (len > dmax ∨ len > dlen) := by simpa using hne
        omega
      exact ⟨len, hlen, by simpa using p4 (by omega)⟩
    · split
      · exact AccD.pure _ trivial
      · rename_i hne
        obtain ⟨len, hlen, hterm⟩ := he (by simpa using hne)
        refine rest (fun a ha => g1 a (ha.mono (by omega))) (fun a ha => g2 a ?_)
        have hc := Str.of_term hterm ha
        exact ⟨ha.1, by have := hc.2; omega, ha.2.2⟩
  · rw [if_neg hl]
    refine AccD.bind (Q := fun early => early = false) (AccD.pure _ rfl) (fun early he => ?_)
    subst he
    simp only [Bool.false_eq_true, if_false]
    exact rest (hd h1 (by omega)) (hs h2' (by omega))

end SafeC
